(* C08 — executable side of the correspondence check: the cases written by the Go harnesses
   (harness/overlay/types/verif_c08_valset_test.go, harness/overlay/state/verif_c08_store_test.go),
   the property monitors evaluated on the implementation's own answers (V_violation) and the
   comparison with the model (V_mismatch).  Depends on Model.v only. *)
From Coq Require Import List ZArith NArith Bool String.
From TM Require Import Common.Hex Generated.Consts C08.Model.
Import ListNotations.
Open Scope Z_scope.

Definition valt := (string * Z * Z)%type.                     (* address (hex), power, priority *)
Definition mk_val (t : valt) : validator := let '(a, p, q) := t in mkVal (unhex a) p q.

(* store cases name validators by their index in an address table *)
Definition ivalt := (N * Z * Z)%type.                         (* address index, power, priority *)
Definition isett := (list ivalt * ivalt)%type.                (* validators, proposer *)

Inductive sop :=
| SBlock (ups : list (N * Z))          (* validator updates of the block: (address index, power) *)
| SPrune (from to : Z)
| SAdvance (n : N).                    (* n consecutive blocks without validator updates; its
                                          result class is 0 iff every one of them was accepted *)

Inductive case :=
(* UpdateWithChangeSet on a reachable set: set before, batch, result class of the call in the
   given order (0 ok, 1 ErrTotalVotingPowerOverflow, 2 other error, 9 panic), the set object
   after the call, and for other orders of the same batch: (result class, set after) *)
| CUpdate (vs0 cs : list valt) (res_i : N) (after_i : list valt) (perms : list (N * list valt))
(* NewValidatorSet(valz): 0 ok / 9 panic, validators and proposer after, other orders *)
| CNew (valz : list valt) (res_i : N) (after_i : list valt) (prop_i : option valt)
       (perms : list (N * list valt))
(* proposer rotation.  fresh = true: vs0 (zero priorities) is passed to NewValidatorSet and
   props_i starts with the proposer it elects; fresh = false: vs0 is a reachable set in its own
   order.  Then IncrementProposerPriority(1) again and again, [rounds] proposers in all, each
   given as the index of the proposer in the set's validator list; final_i = validators after
   the last round.  single_i: IncrementProposerPriority(times) in ONE call on a copy of the
   starting set: (0 ok / 9 panic, validators after, proposer index). *)
| CRounds (fresh : bool) (vs0 : list valt) (rounds : N) (props_i : list N) (final_i : list valt)
          (times : Z) (single_i : N * list valt * N)
(* a real state.Store: address table, InitialHeight, genesis validators (index, power), ops,
   per op 0 ok / 2 error / 9 panic; recorded_i = for every height that became known, the set
   (taken from state.Validators / state.NextValidators when it was produced); loads_i = at the
   end, LoadValidators(h) for h from lo upwards: (h, class 0 ok / 1 ErrNoValSetForHeight /
   2 other error / 9 panic, set) *)
| CStore (addrs : list string) (initial : Z) (genesis : list (N * Z)) (ops : list sop)
         (res_i : list N) (recorded_i : list (Z * isett)) (loads_i : list (Z * N * option isett))
(* the same for a long history (runs of hundreds of empty blocks, SAdvance), of which the case
   carries a sample of the heights: recorded_i = the sets of the sampled heights (around every
   op and checkpoint, at distances around 128..512 from them, the far end, random ones),
   loads_i = LoadValidators for the same heights (and the unknown ones at either end) *)
| CStoreSampled (addrs : list string) (initial : Z) (genesis : list (N * Z)) (ops : list sop)
         (res_i : list N) (recorded_i : list (Z * isett)) (loads_i : list (Z * N * option isett)).

Definition mism (b : bool) (code : N) : verdict := if b then V_ok else V_mismatch code.
Definition viol (b : bool) (clause : N) : verdict := if b then V_ok else V_violation clause.

Definition val_eqb (a b : validator) : bool :=
  bytes_eqb (v_addr a) (v_addr b) && (v_power a =? v_power b) && (v_prio a =? v_prio b).
Fixpoint list_eqb {A} (eqb : A -> A -> bool) (a b : list A) : bool :=
  match a, b with
  | [], [] => true
  | x :: a', y :: b' => eqb x y && list_eqb eqb a' b'
  | _, _ => false
  end.
Definition vals_eqb := list_eqb val_eqb.
Definition oval_eqb (a b : option validator) : bool :=
  match a, b with Some x, Some y => val_eqb x y | None, None => true | _, _ => false end.

(* ---- monitors: the clauses of the property, evaluated on the implementation's answers ---- *)

Definition plain_total (l : list validator) : Z := fold_right (fun v s => v_power v + s) 0 l.

Fixpoint nodup_addrs (l : list validator) : bool :=
  match l with
  | [] => true
  | v :: r => negb (existsb (fun w => bytes_eqb (v_addr w) (v_addr v)) r) && nodup_addrs r
  end.
Fixpoint canonical (l : list validator) : bool :=      (* power descending, then address ascending *)
  match l with
  | a :: ((b :: _) as r) =>
    ((v_power b <? v_power a) || ((v_power a =? v_power b) && addr_ltb (v_addr a) (v_addr b)))
    && canonical r
  | _ => true
  end.
Definition inv_ok (l : list validator) : bool :=
  nodup_addrs l && forallb (fun v => 0 <? v_power v) l && canonical l
  && (0 <? plain_total l) && (plain_total l <=? max_total_voting_power)
  && negb (Nat.eqb (List.length l) 0).

(* the batch as a finite map *)
Definition map_ok (v0 cs aft : list validator) : bool :=
  forallb (fun a => match power_of aft a, expected_power v0 cs a with
                    | Some p, Some q => p =? q
                    | None, None => true
                    | _, _ => false
                    end)
          (map v_addr (v0 ++ cs ++ aft)).

(* The specification's scale-and-centre step applied to an update batch that adds no NEW
   validator (the priority of a new validator is a separate rule): members keep their priority,
   then priorities are scaled by ceil(diff / 2P') when their spread exceeds 2P' (P' = total power
   after the batch) and centred on the floor average.  Plain integers, written here independently
   of the code model. *)
Definition spec_scale_centre (P : Z) (l : list validator) : list validator :=
  let diff := max_prio l - min_prio l in
  let threshold := 2 * P in
  let scaled := if diff >? threshold
                then let scale := (diff + threshold - 1) / threshold in
                     map (fun v => set_prio v (Z.quot (v_prio v) scale)) l
                else l in
  let avg := sum_prio scaled / Z.of_nat (List.length scaled) in
  map (fun v => set_prio v (v_prio v - avg)) scaled.
Definition no_new_validator (v0 cs : list validator) : bool :=
  forallb (fun c => match find_addr (v_addr c) v0 with Some _ => true | None => false end) cs.
Definition update_prios_ok (v0 cs aft : list validator) : bool :=
  negb (no_new_validator v0 cs) ||
  let kept := flat_map (fun v => match expected_power v0 cs (v_addr v) with
                                 | Some p => [mkVal (v_addr v) p (v_prio v)] | None => [] end) v0 in
  match kept with
  | [] => true
  | _ => let want := spec_scale_centre (fold_right (fun v s => v_power v + s) 0 kept) kept in
         forallb (fun w => match find_addr (v_addr w) aft with
                           | Some a => v_prio a =? v_prio w | None => false end) want
  end.

(* Clause 10: the same for ANY accepted batch, newcomers included.  A validator that is not yet
   a member enters with priority -(P + P/8) ("A(V) = -1.125 * P", P = the total voting power of
   the set including V: after the batch's additions and power changes, before its removals, as
   computeNewPriorities takes it); members keep their priority; then the scale-and-centre step
   over the set that remains, in plain integers — no clipping, no 64-bit sum. *)
Definition update_prios_all_ok (v0 cs aft : list validator) : bool :=
  let kept := flat_map (fun v => match expected_power v0 cs (v_addr v) with
                                 | Some p => [mkVal (v_addr v) p (v_prio v)] | None => [] end) v0 in
  let changed_total :=
    fold_right (fun v s => (match find_addr (v_addr v) cs with
                            | Some c => if v_power c =? 0 then v_power v else v_power c
                            | None => v_power v end) + s) 0 v0 in
  let newcomers := filter (fun c => match find_addr (v_addr c) v0 with
                                    | Some _ => false | None => 0 <? v_power c end) cs in
  let Pb := changed_total + fold_right (fun c s => v_power c + s) 0 newcomers in
  let joined := kept ++ map (fun c => mkVal (v_addr c) (v_power c) (- (Pb + Pb / 8))) newcomers in
  match joined with
  | [] => true
  | _ => let want := spec_scale_centre (fold_right (fun v s => v_power v + s) 0 joined) joined in
         Nat.eqb (List.length want) (List.length aft)
         && forallb (fun w => match find_addr (v_addr w) aft with
                              | Some a => v_prio a =? v_prio w | None => false end) want
  end.

Definition within (b : Z) (l : list validator) : bool :=
  forallb (fun v => (- b <=? v_prio v) && (v_prio v <=? b)) l.

Definition res_class (r : res valset) : N :=
  match r with
  | Ok _ => 0 | Err EOverflow => 1 | Err EPanic => 9 | Err _ => 2
  end%N.

Fixpoint index_of (a : bytes) (l : list validator) (i : N) : N :=
  match l with
  | [] => 99999%N
  | v :: r => if bytes_eqb (v_addr v) a then i else index_of a r (i + 1)%N
  end.

(* k rounds of the specification's ProposerSelection: proposer indices and final list *)
Fixpoint spec_rounds (k : nat) (P : Z) (l : list validator) : list N * list validator :=
  match k with
  | O => ([], l)
  | S k' =>
    match spec_selection P l with
    | (l', Some m) => let '(ps, lf) := spec_rounds k' P l' in (index_of (v_addr m) l' 0 :: ps, lf)
    | (l', None) => ([], l')
    end
  end.

(* k rounds of the model's IncrementProposerPriority(1) *)
Fixpoint model_rounds (k : nat) (vs : valset) : option (list N * valset) :=
  match k with
  | O => Some ([], vs)
  | S k' =>
    match ipp 1 vs with
    | None => None
    | Some vs' =>
      match model_rounds k' vs' with
      | None => None
      | Some (ps, vf) =>
        let i := match vs_prop vs' with Some m => index_of (v_addr m) (vs_vals vs') 0 | None => 99999%N end in
        Some (i :: ps, vf)
      end
    end
  end.

(* [R2] of the specification: in every window of P consecutive rounds validator i is elected
   exactly VP(i) times *)
Fixpoint count_idx (i : N) (l : list N) : Z :=
  match l with [] => 0 | x :: r => (if (x =? i)%N then 1 else 0) + count_idx i r end.
Fixpoint windows_ok (fuel : nat) (P : nat) (powers : list Z) (seq : list N) : bool :=
  match fuel with
  | O => true
  | S f =>
    if Nat.ltb (List.length seq) P then true
    else
      let w := firstn P seq in
      forallb (fun '(i, p) => count_idx (N.of_nat i) w =? p) (combine (List.seq 0 (List.length powers)) powers)
      && windows_ok f P powers (tl seq)
  end.

(* ---- store cases ---- *)
Definition addr_at (tbl : list string) (i : N) : bytes := unhex (nth (N.to_nat i) tbl ""%string).
Definition mk_ival (tbl : list string) (t : ivalt) : validator :=
  let '(i, p, q) := t in mkVal (addr_at tbl i) p q.
Definition mk_iset (tbl : list string) (s : isett) : valset :=
  mkVS (map (mk_ival tbl) (fst s)) (Some (mk_ival tbl (snd s))).
Definition vs_eqb (a b : valset) : bool :=
  vals_eqb (vs_vals a) (vs_vals b) && oval_eqb (vs_prop a) (vs_prop b).

Definition mk_op (tbl : list string) (o : sop) : list op :=
  match o with
  | SBlock ups => [OBlock (map (fun '(i, p) => mkVal (addr_at tbl i) p 0) ups)]
  | SPrune f t => [OPrune f t]
  | SAdvance n => repeat (OBlock []) (N.to_nat n)
  end.
(* the per-op result classes, one per model op *)
Fixpoint expand_res (ops : list sop) (res : list N) : option (list N) :=
  match ops, res with
  | [], [] => Some []
  | o :: ops', r :: res' =>
    match expand_res ops' res' with
    | None => None
    | Some l => Some (match o with SAdvance n => repeat r (N.to_nat n) | _ => [r] end ++ l)
    end
  | _, _ => None
  end.

Definition KK := valset_checkpoint_interval.

(* the model's node after each op, with the result class the model expects for the op *)
Definition model_step (n : node) (o : op) : node * N :=
  match o with
  | OBlock ups =>
    match update_state (n_state n) ups with
    | None => (n, 2%N)
    | Some _ => (step KK n o, 0%N)
    end
  | OPrune f t =>
    match prune_states KK (n_db n) f t with
    | None => (n, 2%N)
    | Some _ => (step KK n o, 0%N)
    end
  end.
Fixpoint model_run (n : node) (ops : list op) : node * list N :=
  match ops with
  | [] => (n, [])
  | o :: r => let '(n', c) := model_step n o in
              let '(nf, cs) := model_run n' r in (nf, c :: cs)
  end.

(* lowest retained height according to the implementation's own answers: the largest [to] of a
   PruneStates that returned nil *)
Fixpoint base_of (initial : Z) (ops : list sop) (res : list N) : Z :=
  match ops, res with
  | SPrune _ t :: ops', r :: res' => base_of (if (r =? 0)%N then Z.max initial t else initial) ops' res'
  | _ :: ops', _ :: res' => base_of initial ops' res'
  | _, _ => initial
  end.

Fixpoint assoc {A} (h : Z) (l : list (Z * A)) : option A :=
  match l with [] => None | (k, v) :: r => if k =? h then Some v else assoc h r end.

Definition lv_class (r : lv_res) : N :=
  match r with LvOk _ => 0 | LvNoValSet => 1 | LvErr => 2 | LvPanic => 9 end%N.

(* store cases; [sampled]: recorded_i need not list every height the model knows *)
Definition check_store (sampled : bool) (tbl : list string) (initial : Z) (genesis : list (N * Z))
           (ops : list sop) (res_i : list N) (recorded_i : list (Z * isett))
           (loads_i : list (Z * N * option isett)) : verdict :=
    let gen := map (fun '(i, p) => mkVal (addr_at tbl i) p 0) genesis in
    let base := base_of initial ops res_i in
    let rec_sets := map (fun '(h, s) => (h, mk_iset tbl s)) recorded_i in

    (* the clause itself, on the implementation's answers: every retained height returns the
       set that was in force there *)
    let lookup_ok :=
      forallb (fun '(h, s) =>
                 (h <? base) ||
                 match assoc h (map (fun '(h', c, s') => (h', (c, s'))) loads_i) with
                 | Some (c, Some s') => (c =? 0)%N && vs_eqb (mk_iset tbl s') s
                 | _ => false
                 end) rec_sets in
    match start KK gen initial with
    | None => V_mismatch 30
    | Some n0 =>
      let '(nf, res_m) := model_run n0 (flat_map (mk_op tbl) ops) in
      first_of [
        viol lookup_ok 8;
        mism (match expand_res ops res_i with
              | Some res_x => list_eqb N.eqb res_m res_x
              | None => false end) 31;
        mism ((sampled || Nat.eqb (List.length (n_sets nf)) (List.length rec_sets))
              && forallb (fun '(h, s) => match assoc h (n_sets nf) with
                                         | Some s' => vs_eqb s s' | None => false end) rec_sets) 32;
        mism (forallb (fun '(h, c, s) =>
                         let r := load_validators KK (n_db nf) h in
                         (* heights below the retained range may or may not survive a prune;
                            compare them too: the model deletes what the code deletes *)
                         (lv_class r =? c)%N &&
                         match r, s with
                         | LvOk vs, Some s' => vs_eqb vs (mk_iset tbl s')
                         | LvOk _, None => false
                         | _, _ => true
                         end) loads_i) 33 ]
    end.

Definition check (c : case) : verdict :=
  match c with
  | CUpdate vs0 cs res_i after_i perms =>
    let v0 := map mk_val vs0 in
    let ch := map mk_val cs in
    let aft := map mk_val after_i in
    let ok := (res_i =? 0)%N in
    let r := update (mkVS v0 None) ch in
    first_of [
      viol (ok || vals_eqb aft v0) 1;
      viol (forallb (fun '(rc, s) => Bool.eqb (rc =? 0)%N ok && (negb ok || vals_eqb (map mk_val s) aft)) perms) 2;
      viol (negb ok || match cs with [] => true | _ => inv_ok aft end) 3;
      viol (negb ok || map_ok v0 ch aft) 4;
      viol (negb ok || match cs with [] => true | _ => within (2 * plain_total aft + 1) aft end) 7;
      viol (negb ok || match cs with [] => true | _ => update_prios_ok v0 ch aft end) 9;
      viol (negb ok || match cs with [] => true | _ => update_prios_all_ok v0 ch aft end) 10;
      mism (res_class r =? res_i)%N 21;
      mism (match r with Ok vs' => vals_eqb (vs_vals vs') aft | Err _ => true end) 22 ]
  | CNew valz res_i after_i prop_i perms =>
    let vz := map mk_val valz in
    let aft := map mk_val after_i in
    let ok := (res_i =? 0)%N in
    let r := new_validator_set vz in
    first_of [
      viol (forallb (fun '(rc, s) => Bool.eqb (rc =? 0)%N ok && (negb ok || vals_eqb (map mk_val s) aft)) perms) 2;
      viol (negb ok || match valz with [] => true | _ => inv_ok aft end) 3;
      viol (negb ok || map_ok [] vz aft) 4;
      viol (negb ok || match valz with [] => true | _ => within (3 * plain_total aft + 1) aft end) 7;
      mism (Bool.eqb (match r with Some _ => true | None => false end) ok) 23;
      mism (match r with
            | Some vs' => negb ok || (vals_eqb (vs_vals vs') aft && oval_eqb (vs_prop vs') (option_map mk_val prop_i))
            | None => true end) 24 ]
  | CRounds fresh vs0 rounds props_i final_i times single_i =>
    let v0 := map mk_val vs0 in
    let fin := map mk_val final_i in
    let k := N.to_nat rounds in
    let P := plain_total fin in
    let start_list := if fresh then map (fun v => set_prio v 0) fin else v0 in
    let '(sp, sfin) := spec_rounds k P start_list in
    let mstart := if fresh
                  then match update_with_change_set (mkVS [] None) v0 false with Ok vs => Some vs | Err _ => None end
                  else Some (mkVS v0 None) in
    let '(s_code, s_vals, s_prop) := single_i in
    first_of [
      viol (list_eqb N.eqb sp props_i && vals_eqb sfin fin) 5;
      viol (if negb fresh || (P >? 2000) then true else windows_ok (S k) (Z.to_nat P) (map v_power fin) props_i) 6;
      viol (within (3 * P + 1) fin) 7;
      mism (match mstart with
            | None => false
            | Some ms => match model_rounds k ms with
                         | None => false
                         | Some (ps, vf) => list_eqb N.eqb ps props_i && vals_eqb (vs_vals vf) fin
                         end
            end) 25;
      mism (if fresh then true else
            match ipp times (mkVS v0 None) with
            | None => (s_code =? 9)%N
            | Some vs' => (s_code =? 0)%N && vals_eqb (vs_vals vs') (map mk_val s_vals)
                          && match vs_prop vs' with
                             | Some m => (index_of (v_addr m) (vs_vals vs') 0 =? s_prop)%N
                             | None => false end
            end) 26 ]
  | CStore tbl initial genesis ops res_i recorded_i loads_i =>
    check_store false tbl initial genesis ops res_i recorded_i loads_i
  | CStoreSampled tbl initial genesis ops res_i recorded_i loads_i =>
    check_store true tbl initial genesis ops res_i recorded_i loads_i
  end.
