(* C08 — proofs about the proposer-priority arithmetic of C08/Model.v:
   rescale, shift_avg, inc_once, ipp, and agreement of ipp 1 with spec_selection.
   "No clip": on the values that occur, add_clip/sub_clip/w64 are plain +, -, identity. *)
From Coq Require Import List ZArith NArith Bool Lia Permutation Sorted.
From TM Require Import Common.Hex Generated.Consts C08.Model.
Import ListNotations.
Open Scope Z_scope.

Definition addrs (l : list validator) := map v_addr l.
Definition sum_power (l : list validator) : Z := fold_right (fun v s => v_power v + s) 0 l.
Definition PB (B : Z) (l : list validator) : Prop := Forall (fun v => - B <= v_prio v <= B) l.
Definition WF (T : Z) (l : list validator) : Prop :=
  l <> [] /\ NoDup (addrs l) /\ Forall (fun v => 0 < v_power v) l /\ sum_power l = T /\
  0 < T <= max_total_voting_power.
Definition Bmax : Z := 3 * max_total_voting_power + 1.     (* < 2^62 *)

Ltac ubig := unfold Bmax, max_total_voting_power, priority_window_size_factor,
                    max_int64, min_int64 in *.

(* ------------------------------------------------------------------ basic arithmetic *)

Lemma w64_id : forall z, min_int64 <= z <= max_int64 -> w64 z = z.
Proof. intros z H. unfold w64. ubig. rewrite Z.mod_small; lia. Qed.

Lemma add_clip_exact : forall a b, min_int64 <= a + b <= max_int64 -> add_clip a b = a + b.
Proof.
  intros a b H. unfold add_clip. rewrite !Z.gtb_ltb.
  destruct (Z.ltb_spec 0 b), (Z.ltb_spec (max_int64 - b) a), (Z.ltb_spec b 0),
    (Z.ltb_spec a (min_int64 - b)); cbn [andb]; lia.
Qed.

Lemma sub_clip_exact : forall a b, min_int64 <= a - b <= max_int64 -> sub_clip a b = a - b.
Proof.
  intros a b H. unfold sub_clip. rewrite !Z.gtb_ltb.
  destruct (Z.ltb_spec 0 b), (Z.ltb_spec a (min_int64 + b)), (Z.ltb_spec b 0),
    (Z.ltb_spec (max_int64 + b) a); cbn [andb]; lia.
Qed.

Lemma PB_mono : forall B B' l, B <= B' -> PB B l -> PB B' l.
Proof.
  intros B B' l H HB. unfold PB in *. eapply Forall_impl; [|exact HB]. cbv beta. intros; lia.
Qed.

(* ------------------------------------------------------------------ sums, WF *)

Lemma sum_power_map : forall l, sum_power l = fold_right Z.add 0 (map v_power l).
Proof. induction l as [|x l IH]; cbn [sum_power fold_right map] in *; [reflexivity|]. unfold sum_power in IH. rewrite IH. reflexivity. Qed.

Lemma WF_ext : forall T l l', map v_addr l' = map v_addr l -> map v_power l' = map v_power l ->
  WF T l -> WF T l'.
Proof.
  intros T l l' Ha Hp (Hne & Hnd & Hpos & Hs & HT). unfold WF, addrs in *.
  split; [|split; [|split; [|split]]].
  - intro E. subst l'. destruct l; [congruence|discriminate].
  - rewrite Ha. exact Hnd.
  - apply (Forall_map v_power (fun z => 0 < z)). rewrite Hp.
    apply (Forall_map v_power (fun z => 0 < z)). exact Hpos.
  - rewrite sum_power_map, Hp, <- sum_power_map. exact Hs.
  - exact HT.
Qed.

Lemma sum_power_pos : forall l, Forall (fun v => 0 < v_power v) l ->
  0 <= sum_power l /\ Forall (fun v => v_power v <= sum_power l) l.
Proof.
  induction l as [|x l IH]; intros H; cbn [sum_power fold_right].
  - split; [lia|constructor].
  - inversion H as [|? ? Hx Hl]; subst. destruct (IH Hl) as [H0 HF]. fold (sum_power l).
    split; [lia|]. constructor; [lia|]. eapply Forall_impl; [|exact HF]. cbv beta. intros; lia.
Qed.

Lemma WF_power_le : forall T l v, WF T l -> In v l -> 0 < v_power v <= T.
Proof.
  intros T l v (_ & _ & Hpos & Hs & _) Hin.
  destruct (sum_power_pos l Hpos) as [_ HF]. rewrite Forall_forall in *.
  specialize (Hpos v Hin). specialize (HF v Hin). lia.
Qed.

Lemma total_from_exact : forall l s, Forall (fun v => 0 < v_power v) l -> 0 <= s ->
  s + sum_power l <= max_total_voting_power -> total_from s l = Some (s + sum_power l).
Proof.
  induction l as [|x l IH]; intros s Hpos Hs Hle; cbn [total_from sum_power fold_right] in *.
  - f_equal; lia.
  - fold (sum_power l) in *. inversion Hpos as [|? ? Hx Hl]; subst.
    destruct (sum_power_pos l Hl) as [H0 _].
    rewrite add_clip_exact by (ubig; lia). cbv zeta.
    rewrite Z.gtb_ltb. destruct (Z.ltb_spec max_total_voting_power (s + v_power x)); [lia|].
    rewrite IH; [f_equal; lia|exact Hl|lia|lia].
Qed.

Lemma total_power_WF : forall T l, WF T l -> total_power l = Some T.
Proof.
  intros T l (_ & _ & Hpos & Hs & HT). unfold total_power.
  rewrite total_from_exact; [f_equal; lia|exact Hpos|lia|lia].
Qed.

(* ------------------------------------------------------------------ max_prio / min_prio *)

Lemma fold_max_spec : forall l m0,
  let r := fold_left (fun m v => if v_prio v >? m then v_prio v else m) l m0 in
  m0 <= r /\ Forall (fun v => v_prio v <= r) l /\ (r = m0 \/ exists v, In v l /\ v_prio v = r).
Proof.
  induction l as [|x l IH]; intros m0; cbn [fold_left]; cbv zeta.
  - split; [lia|]. split; [constructor|]. left; reflexivity.
  - specialize (IH (if v_prio x >? m0 then v_prio x else m0)). cbv zeta in IH.
    destruct IH as (H1 & H2 & H3).
    remember (fold_left (fun m v => if v_prio v >? m then v_prio v else m) l
                        (if v_prio x >? m0 then v_prio x else m0)) as r.
    clear Heqr. rewrite Z.gtb_ltb in *. destruct (Z.ltb_spec m0 (v_prio x)).
    + split; [lia|]. split; [constructor; [lia|exact H2]|]. right.
      destruct H3 as [->|(v & Hv & E)].
      * exists x; split; [left; reflexivity|reflexivity].
      * exists v; split; [right; exact Hv|exact E].
    + split; [lia|]. split; [constructor; [lia|exact H2]|].
      destruct H3 as [->|(v & Hv & E)]; [left; reflexivity|].
      right; exists v; split; [right; exact Hv|exact E].
Qed.

Lemma fold_min_spec : forall l m0,
  let r := fold_left (fun m v => if v_prio v <? m then v_prio v else m) l m0 in
  r <= m0 /\ Forall (fun v => r <= v_prio v) l /\ (r = m0 \/ exists v, In v l /\ v_prio v = r).
Proof.
  induction l as [|x l IH]; intros m0; cbn [fold_left]; cbv zeta.
  - split; [lia|]. split; [constructor|]. left; reflexivity.
  - specialize (IH (if v_prio x <? m0 then v_prio x else m0)). cbv zeta in IH.
    destruct IH as (H1 & H2 & H3).
    remember (fold_left (fun m v => if v_prio v <? m then v_prio v else m) l
                        (if v_prio x <? m0 then v_prio x else m0)) as r.
    clear Heqr. destruct (Z.ltb_spec (v_prio x) m0).
    + split; [lia|]. split; [constructor; [lia|exact H2]|]. right.
      destruct H3 as [->|(v & Hv & E)].
      * exists x; split; [left; reflexivity|reflexivity].
      * exists v; split; [right; exact Hv|exact E].
    + split; [lia|]. split; [constructor; [lia|exact H2]|].
      destruct H3 as [->|(v & Hv & E)]; [left; reflexivity|].
      right; exists v; split; [right; exact Hv|exact E].
Qed.

(* on a non-empty list whose priorities are int64 values, max_prio/min_prio are attained and
   bound every element *)
Lemma max_prio_spec : forall l, l <> [] -> Forall (fun v => min_int64 <= v_prio v) l ->
  (exists v, In v l /\ v_prio v = max_prio l) /\ Forall (fun v => v_prio v <= max_prio l) l.
Proof.
  intros l Hne Hlo. unfold max_prio. destruct (fold_max_spec l min_int64) as (H1 & H2 & H3).
  cbv zeta in *. split; [|exact H2].
  destruct H3 as [E|H3]; [|exact H3].
  destruct l as [|x l]; [congruence|]. exists x. split; [left; reflexivity|].
  inversion H2; subst. inversion Hlo; subst. lia.
Qed.

Lemma min_prio_spec : forall l, l <> [] -> Forall (fun v => v_prio v <= max_int64) l ->
  (exists v, In v l /\ v_prio v = min_prio l) /\ Forall (fun v => min_prio l <= v_prio v) l.
Proof.
  intros l Hne Hhi. unfold min_prio. destruct (fold_min_spec l max_int64) as (H1 & H2 & H3).
  cbv zeta in *. split; [|exact H2].
  destruct H3 as [E|H3]; [|exact H3].
  destruct l as [|x l]; [congruence|]. exists x. split; [left; reflexivity|].
  inversion H2; subst. inversion Hhi; subst. lia.
Qed.

Lemma max_min_PB : forall B l, l <> [] -> 0 <= B <= max_int64 -> PB B l ->
  - B <= min_prio l /\ min_prio l <= max_prio l /\ max_prio l <= B /\
  Forall (fun v => min_prio l <= v_prio v <= max_prio l) l.
Proof.
  intros B l Hne HB HP. unfold PB in HP.
  assert (Hlo : Forall (fun v => min_int64 <= v_prio v) l).
  { eapply Forall_impl; [|exact HP]. cbv beta. ubig. intros; lia. }
  assert (Hhi : Forall (fun v => v_prio v <= max_int64) l).
  { eapply Forall_impl; [|exact HP]. cbv beta. intros; lia. }
  destruct (max_prio_spec l Hne Hlo) as [(vx & Hvx & Ex) Fx].
  destruct (min_prio_spec l Hne Hhi) as [(vn & Hvn & En) Fn].
  rewrite Forall_forall in *.
  pose proof (HP vx Hvx). pose proof (HP vn Hvn). pose proof (Fx vn Hvn).
  repeat split; try lia.
  - apply Fn; assumption.
  - apply Fx; assumption.
Qed.

(* ------------------------------------------------------------------ Z.quot facts *)

Lemma quot_rem_bound : forall a r, 0 < r -> - r < a - r * (a ÷ r) < r.
Proof.
  intros a r Hr. pose proof (Z.quot_rem' a r) as E.
  pose proof (Z.rem_bound_abs a r ltac:(lia)) as Hb. lia.
Qed.

Lemma quot_within : forall B p r, 0 <= B -> 1 <= r -> - B <= p <= B -> - B <= p ÷ r <= B.
Proof.
  intros B p r HB Hr Hp.
  assert (HBr : 0 <= B ÷ r <= B).
  { rewrite Z.quot_div_nonneg by lia. split; [apply Z.div_pos; lia|].
    apply Z.div_le_upper_bound; nia. }
  split.
  - apply Z.le_trans with ((- B) ÷ r); [rewrite Z.quot_opp_l by lia; lia|].
    apply Z.quot_le_mono; lia.
  - apply Z.le_trans with (B ÷ r); [|lia]. apply Z.quot_le_mono; lia.
Qed.

(* after dividing by ratio = ceil(diff / D) the spread is at most D + 1 *)
Lemma quot_spread : forall mx mn D, 0 < D -> D < mx - mn ->
  let r := (mx - mn + D - 1) / D in
  2 <= r /\ mx ÷ r - mn ÷ r <= D + 1.
Proof.
  intros mx mn D HD Hd r.
  assert (Hr2 : 2 <= r).
  { subst r. apply Z.div_le_lower_bound; lia. }
  split; [exact Hr2|].
  assert (Hc : mx - mn <= r * D).
  { subst r. pose proof (Z.div_mod (mx - mn + D - 1) D ltac:(lia)) as E.
    pose proof (Z.mod_pos_bound (mx - mn + D - 1) D HD) as Hm.
    rewrite (Z.mul_comm _ D). lia. }
  pose proof (quot_rem_bound mx r ltac:(lia)) as Hx.
  pose proof (quot_rem_bound mn r ltac:(lia)) as Hn.
  assert (Hlt : r * (mx ÷ r - mn ÷ r) < r * (D + 2)) by lia.
  apply Z.mul_lt_mono_pos_l in Hlt; lia.
Qed.

(* ------------------------------------------------------------------ plain versions *)

Definition rescale_plain (D : Z) (l : list validator) : list validator :=
  let diff := max_prio l - min_prio l in
  if diff >? D
  then let scale := (diff + D - 1) / D in map (fun v => set_prio v (Z.quot (v_prio v) scale)) l
  else l.
Definition centre_plain (l : list validator) : list validator :=
  let avg := sum_prio l / Z.of_nat (length l) in
  map (fun v => set_prio v (v_prio v - avg)) l.

Lemma sum_prio_shift : forall a l,
  sum_prio (map (fun v => set_prio v (v_prio v - a)) l) = sum_prio l - Z.of_nat (length l) * a.
Proof.
  intros a. induction l as [|x l IH]; [reflexivity|].
  cbn [map sum_prio fold_right length]. fold (sum_prio l).
  fold (sum_prio (map (fun v => set_prio v (v_prio v - a)) l)).
  rewrite IH, Nat2Z.inj_succ. cbn [set_prio v_prio]. lia.
Qed.

Lemma sum_between : forall lo hi l, Forall (fun v => lo <= v_prio v <= hi) l ->
  Z.of_nat (length l) * lo <= sum_prio l <= Z.of_nat (length l) * hi.
Proof.
  intros lo hi. induction l as [|x l IH]; intros H.
  - cbn. lia.
  - inversion H; subst. specialize (IH H3).
    cbn [sum_prio fold_right length]. fold (sum_prio l). rewrite Nat2Z.inj_succ. lia.
Qed.

Lemma length_pos : forall (l : list validator), l <> [] -> 0 < Z.of_nat (length l).
Proof. intros [|x l] H; [congruence|]. cbn [length]. lia. Qed.

Lemma avg_between : forall lo hi l, l <> [] -> Forall (fun v => lo <= v_prio v <= hi) l ->
  lo <= sum_prio l / Z.of_nat (length l) <= hi.
Proof.
  intros lo hi l Hne H. pose proof (length_pos l Hne) as Hn.
  pose proof (sum_between lo hi l H) as [Hl Hh]. split.
  - apply Z.div_le_lower_bound; lia.
  - apply Z.div_le_upper_bound; lia.
Qed.

(* centring a list whose priorities lie in a window [lo, hi] *)
Lemma centre_plain_bound : forall lo hi l, l <> [] -> Forall (fun v => lo <= v_prio v <= hi) l ->
  let l' := centre_plain l in
  PB (hi - lo) l' /\ 0 <= sum_prio l' < Z.of_nat (length l') /\
  map v_addr l' = map v_addr l /\ map v_power l' = map v_power l.
Proof.
  intros lo hi l Hne H l'. subst l'. unfold centre_plain.
  pose proof (avg_between lo hi l Hne H) as Ha.
  pose proof (length_pos l Hne) as Hn.
  set (a := sum_prio l / Z.of_nat (length l)) in *.
  split; [|split; [|split]].
  - unfold PB. apply Forall_map. eapply Forall_impl; [|exact H]. cbv beta.
    intros v Hv. cbn [set_prio v_prio]. lia.
  - rewrite sum_prio_shift, map_length. subst a.
    pose proof (Z.div_mod (sum_prio l) (Z.of_nat (length l)) ltac:(lia)) as E.
    pose proof (Z.mod_pos_bound (sum_prio l) (Z.of_nat (length l)) Hn) as Hm. lia.
  - rewrite map_map. apply map_ext. reflexivity.
  - rewrite map_map. apply map_ext. reflexivity.
Qed.

Lemma shift_avg_exact : forall l, l <> [] -> PB Bmax l -> shift_avg l = centre_plain l.
Proof.
  intros l Hne HP. unfold shift_avg, centre_plain, avg_prio.
  assert (Ha : - Bmax <= sum_prio l / Z.of_nat (length l) <= Bmax).
  { apply avg_between; [exact Hne|exact HP]. }
  apply map_ext_in. intros v Hv. unfold PB in HP. rewrite Forall_forall in HP.
  specialize (HP v Hv). rewrite sub_clip_exact; [reflexivity|]. ubig. lia.
Qed.

Lemma max_min_diff_exact : forall l, l <> [] -> PB Bmax l ->
  max_min_diff l = max_prio l - min_prio l.
Proof.
  intros l Hne HP. unfold max_min_diff.
  destruct (max_min_PB Bmax l Hne ltac:(ubig; lia) HP) as (H1 & H2 & H3 & _).
  rewrite w64_id by (ubig; lia). cbv zeta.
  destruct (Z.ltb_spec (max_prio l - min_prio l) 0); [lia|reflexivity].
Qed.

Lemma rescale_exact : forall T l, l <> [] -> 0 < T <= max_total_voting_power -> PB Bmax l ->
  rescale (priority_window_size_factor * T) l = rescale_plain (2 * T) l.
Proof.
  intros T l Hne HT HP. unfold rescale, rescale_plain.
  change priority_window_size_factor with 2.
  destruct (max_min_PB Bmax l Hne ltac:(ubig; lia) HP) as (H1 & H2 & H3 & _).
  destruct (Z.leb_spec (2 * T) 0); [lia|].
  rewrite max_min_diff_exact by assumption. cbv zeta.
  rewrite w64_id by (ubig; lia).
  rewrite Z.quot_div_nonneg by lia. reflexivity.
Qed.

Lemma rescale_plain_window : forall T l, l <> [] -> 0 < T -> PB Bmax l ->
  let l1 := rescale_plain (2 * T) l in
  l1 <> [] /\ PB Bmax l1 /\
  (exists lo hi, Forall (fun v => lo <= v_prio v <= hi) l1 /\ hi - lo <= 2 * T + 1) /\
  map v_addr l1 = map v_addr l /\ map v_power l1 = map v_power l.
Proof.
  intros T l Hne HT HP l1. subst l1. unfold rescale_plain. cbv zeta.
  destruct (max_min_PB Bmax l Hne ltac:(ubig; lia) HP) as (H1 & H2 & H3 & HF).
  rewrite Z.gtb_ltb. destruct (Z.ltb_spec (2 * T) (max_prio l - min_prio l)) as [Hd|Hd].
  - destruct (quot_spread (max_prio l) (min_prio l) (2 * T) ltac:(lia) Hd) as [Hr Hs].
    set (r := (max_prio l - min_prio l + 2 * T - 1) / (2 * T)) in *.
    split; [|split; [|split; [|split]]].
    + destruct l; [congruence|discriminate].
    + unfold PB. apply Forall_map. eapply Forall_impl; [|exact HP]. cbv beta.
      intros v Hv. cbn [set_prio v_prio]. apply quot_within; [ubig; lia|lia|exact Hv].
    + exists (min_prio l ÷ r), (max_prio l ÷ r). split; [|exact Hs].
      apply Forall_map. eapply Forall_impl; [|exact HF]. cbv beta.
      intros v Hv. cbn [set_prio v_prio]. split; apply Z.quot_le_mono; lia.
    + rewrite map_map. apply map_ext. reflexivity.
    + rewrite map_map. apply map_ext. reflexivity.
  - split; [exact Hne|]. split; [exact HP|]. split; [|split; reflexivity].
    exists (min_prio l), (max_prio l). split; [exact HF|lia].
Qed.

(* 1. window after rescale + centre *)
Lemma rescale_centre_bound : forall T m, m <> [] -> 0 < T <= max_total_voting_power -> PB Bmax m ->
  let m' := shift_avg (rescale (priority_window_size_factor * T) m) in
  PB (2 * T + 1) m' /\ 0 <= sum_prio m' < Z.of_nat (length m') /\
  map v_addr m' = map v_addr m /\ map v_power m' = map v_power m /\
  m' = centre_plain (rescale_plain (2 * T) m).
Proof.
  intros T m Hne HT HP m'. subst m'.
  rewrite rescale_exact by assumption.
  destruct (rescale_plain_window T m Hne ltac:(lia) HP) as (Hne1 & HP1 & (lo & hi & HF & Hw) & Ha & Hp).
  rewrite shift_avg_exact by assumption.
  destruct (centre_plain_bound lo hi _ Hne1 HF) as (HB & Hs & Ha' & Hp').
  split; [eapply PB_mono; [|exact HB]; lia|].
  split; [exact Hs|]. split; [congruence|]. split; [congruence|reflexivity].
Qed.

(* ------------------------------------------------------------------ bytes_cmp is a total order *)

Lemma bytes_cmp_antisym : forall a b, bytes_cmp b a = CompOpp (bytes_cmp a b).
Proof.
  induction a as [|x a IH]; destruct b as [|y b]; cbn [bytes_cmp CompOpp]; try reflexivity.
  rewrite (N.compare_antisym x y). destruct (N.compare x y); cbn [CompOpp]; auto.
Qed.

Lemma bytes_cmp_eq : forall a b, bytes_cmp a b = Eq <-> a = b.
Proof.
  induction a as [|x a IH]; destruct b as [|y b]; cbn [bytes_cmp]; split; intro E;
    try reflexivity; try discriminate.
  - destruct (N.compare_spec x y); try discriminate. subst. f_equal. apply IH; exact E.
  - inversion E; subst. rewrite N.compare_refl. apply IH; reflexivity.
Qed.

Lemma bytes_cmp_lt_trans : forall a b c, bytes_cmp a b = Lt -> bytes_cmp b c = Lt -> bytes_cmp a c = Lt.
Proof.
  induction a as [|x a IH]; destruct b as [|y b]; destruct c as [|z c]; cbn [bytes_cmp];
    intros H1 H2; try reflexivity; try discriminate.
  destruct (N.compare_spec x y), (N.compare_spec y z); try discriminate; subst.
  - rewrite N.compare_refl. eapply IH; eassumption.
  - apply N.compare_lt_iff in H0. rewrite H0. reflexivity.
  - apply N.compare_lt_iff in H. rewrite H. reflexivity.
  - assert (Hxz : (x < z)%N) by lia. apply N.compare_lt_iff in Hxz. rewrite Hxz. reflexivity.
Qed.

Lemma bytes_cmp_le_trans : forall a b c,
  bytes_cmp a b <> Gt -> bytes_cmp b c <> Gt -> bytes_cmp a c <> Gt.
Proof.
  intros a b c H1 H2.
  destruct (bytes_cmp a b) eqn:E1; [apply bytes_cmp_eq in E1; subst; exact H2| |congruence].
  destruct (bytes_cmp b c) eqn:E2; [apply bytes_cmp_eq in E2; subst; rewrite E1; discriminate| |congruence].
  rewrite (bytes_cmp_lt_trans a b c E1 E2). discriminate.
Qed.

(* ------------------------------------------------------------------ keeps / most_from *)

Lemma keeps_iff : forall a b, keeps a b = true <->
  v_prio b < v_prio a \/ (v_prio a = v_prio b /\ bytes_cmp (v_addr a) (v_addr b) <> Gt).
Proof.
  intros a b. unfold keeps, addr_ltb. rewrite Z.gtb_ltb.
  rewrite (bytes_cmp_antisym (v_addr a) (v_addr b)).
  destruct (Z.ltb_spec (v_prio b) (v_prio a)); [split; [intros _; left; assumption|reflexivity]|].
  destruct (Z.ltb_spec (v_prio a) (v_prio b)).
  - split; [discriminate|]. intros [?|[? _]]; lia.
  - destruct (bytes_cmp (v_addr a) (v_addr b)); cbn [CompOpp negb]; split; intro Hx;
      try reflexivity; try discriminate.
    + right; split; [lia|discriminate].
    + right; split; [lia|discriminate].
    + destruct Hx as [?|[_ Hx]]; [lia|congruence].
Qed.

Lemma keeps_trans : forall a b c, keeps a b = true -> keeps b c = true -> keeps a c = true.
Proof.
  intros a b c H1 H2. rewrite keeps_iff in *.
  destruct H1 as [H1|[H1 A1]], H2 as [H2|[H2 A2]]; try (left; lia).
  right. split; [lia|]. eapply bytes_cmp_le_trans; eassumption.
Qed.

Lemma keeps_total : forall a b, keeps a b = false -> keeps b a = true.
Proof.
  intros a b H. apply keeps_iff.
  destruct (Z.lt_trichotomy (v_prio a) (v_prio b)) as [L|[E|G]].
  - left; exact L.
  - right. split; [lia|]. intro Hg.
    assert (K : keeps a b = true); [|congruence].
    apply keeps_iff. right. split; [exact E|].
    rewrite (bytes_cmp_antisym (v_addr b) (v_addr a)), Hg. discriminate.
  - assert (K : keeps a b = true); [|congruence]. apply keeps_iff. left; exact G.
Qed.

Lemma keeps_refl : forall a, keeps a a = true.
Proof.
  intros a. apply keeps_iff. right. split; [reflexivity|].
  assert (E : bytes_cmp (v_addr a) (v_addr a) = Eq) by (apply bytes_cmp_eq; reflexivity).
  rewrite E. discriminate.
Qed.

(* the scan: [pre] is what has been seen (best is in it, at index bi; i = length pre) *)
Lemma most_from_spec : forall l pre bi best,
  nth_error pre bi = Some best -> Forall (fun w => keeps best w = true) pre ->
  let '(j, m) := most_from bi best (length pre) l in
  nth_error (pre ++ l) j = Some m /\ Forall (fun w => keeps m w = true) (pre ++ l).
Proof.
  induction l as [|v l IH]; intros pre bi best Hn HF; cbn [most_from].
  - rewrite app_nil_r. split; assumption.
  - destruct (keeps best v) eqn:K.
    + specialize (IH (pre ++ [v]) bi best).
      rewrite app_length in IH. cbn [length] in IH. rewrite Nat.add_1_r in IH.
      rewrite <- app_assoc in IH. cbn [app] in IH. apply IH.
      * rewrite nth_error_app1; [exact Hn|]. apply nth_error_Some. congruence.
      * apply Forall_app. split; [exact HF|]. constructor; [exact K|constructor].
    + specialize (IH (pre ++ [v]) (length pre) v).
      rewrite app_length in IH. cbn [length] in IH. rewrite Nat.add_1_r in IH.
      rewrite <- app_assoc in IH. cbn [app] in IH. apply IH.
      * rewrite nth_error_app2 by lia. rewrite Nat.sub_diag. reflexivity.
      * apply keeps_total in K. apply Forall_app. split.
        -- eapply Forall_impl; [|exact HF]. cbv beta. intros w Hw. eapply keeps_trans; eassumption.
        -- constructor; [apply keeps_refl|constructor].
Qed.

Lemma most_prio_spec : forall l, l <> [] ->
  exists i m, most_prio l = Some (i, m) /\ nth_error l i = Some m /\
              Forall (fun w => keeps m w = true) l.
Proof.
  intros [|v r] Hne; [congruence|]. unfold most_prio.
  pose proof (most_from_spec r [v] 0%nat v eq_refl) as H.
  cbn [length app] in H.
  destruct (most_from 0 v 1 r) as [j m]. exists j, m.
  split; [reflexivity|]. apply H. constructor; [apply keeps_refl|constructor].
Qed.

(* ------------------------------------------------------------------ set_nth *)

Lemma set_nth_map : forall (f : validator -> Z) l i m m', nth_error l i = Some m -> f m' = f m ->
  map f (set_nth i m' l) = map f l.
Proof.
  intros f. induction l as [|x l IH]; intros i m m' Hn Hf.
  - destruct i; discriminate.
  - destruct i as [|i]; cbn [set_nth map nth_error] in *.
    + inversion Hn; subst. rewrite Hf. reflexivity.
    + f_equal. eapply IH; eassumption.
Qed.

Lemma set_nth_map_addr : forall l i m m', nth_error l i = Some m -> v_addr m' = v_addr m ->
  map v_addr (set_nth i m' l) = map v_addr l.
Proof.
  induction l as [|x l IH]; intros i m m' Hn Hf.
  - destruct i; discriminate.
  - destruct i as [|i]; cbn [set_nth map nth_error] in *.
    + inversion Hn; subst. rewrite Hf. reflexivity.
    + f_equal. eapply IH; eassumption.
Qed.

Lemma set_nth_sum : forall l i m m', nth_error l i = Some m ->
  sum_prio (set_nth i m' l) = sum_prio l - v_prio m + v_prio m'.
Proof.
  induction l as [|x l IH]; intros i m m' Hn.
  - destruct i; discriminate.
  - destruct i as [|i]; cbn [set_nth nth_error sum_prio fold_right] in *.
    + inversion Hn; subst. lia.
    + fold (sum_prio l). fold (sum_prio (set_nth i m' l)). rewrite (IH i m m' Hn). lia.
Qed.

Lemma set_nth_Forall : forall (P : validator -> Prop) l i m', Forall P l -> P m' ->
  Forall P (set_nth i m' l).
Proof.
  intros P. induction l as [|x l IH]; intros i m' HF Hm; [destruct i; constructor|].
  inversion HF; subst. destruct i; cbn [set_nth]; constructor; auto.
Qed.

Lemma set_nth_In : forall l i m (m' : validator), nth_error l i = Some m -> In m' (set_nth i m' l).
Proof.
  induction l as [|x l IH]; intros i m m' Hn.
  - destruct i; discriminate.
  - destruct i as [|i]; cbn [set_nth nth_error] in *; [left; reflexivity|].
    right. eapply IH; eassumption.
Qed.

Lemma NoDup_addr_inj : forall l a b, NoDup (addrs l) -> In a l -> In b l ->
  v_addr a = v_addr b -> a = b.
Proof.
  induction l as [|x l IH]; intros a b Hnd Ha Hb E; [destruct Ha|].
  unfold addrs in *. cbn [map] in Hnd. inversion Hnd as [|? ? Hni Hnd']; subst.
  destruct Ha as [->|Ha], Hb as [->|Hb].
  - reflexivity.
  - exfalso. apply Hni. rewrite E. apply in_map; exact Hb.
  - exfalso. apply Hni. rewrite <- E. apply in_map; exact Ha.
  - eapply IH; eassumption.
Qed.

Lemma set_nth_replace : forall l i m m', NoDup (addrs l) -> nth_error l i = Some m ->
  set_nth i m' l = map (fun v => if bytes_eqb (v_addr v) (v_addr m) then m' else v) l.
Proof.
  induction l as [|x l IH]; intros i m m' Hnd Hn.
  - destruct i; discriminate.
  - unfold addrs in *. cbn [map] in Hnd. inversion Hnd as [|? ? Hni Hnd']; subst.
    destruct i as [|i]; cbn [set_nth nth_error map] in *.
    + inversion Hn; subst. rewrite bytes_eqb_refl. f_equal.
      rewrite <- (map_id l) at 1. apply map_ext_in. intros v Hv.
      destruct (bytes_eqb (v_addr v) (v_addr m)) eqn:E; [|reflexivity].
      apply bytes_eqb_eq in E. exfalso. apply Hni. rewrite <- E. apply in_map; exact Hv.
    + destruct (bytes_eqb (v_addr x) (v_addr m)) eqn:E.
      * apply bytes_eqb_eq in E. exfalso. apply Hni. rewrite E. apply in_map.
        eapply nth_error_In; exact Hn.
      * f_equal. apply IH; assumption.
Qed.

(* ------------------------------------------------------------------ spec side: spec_is_max / find *)

Definition inc_plain (T : Z) (l : list validator) : list validator * option validator :=
  let added := map (fun v => set_prio v (v_prio v + v_power v)) l in
  match find (spec_is_max added) added with
  | None => (added, None)
  | Some m =>
    let m' := set_prio m (v_prio m - T) in
    (map (fun v => if bytes_eqb (v_addr v) (v_addr m) then m' else v) added, Some m')
  end.

Lemma spec_selection_unfold : forall P l,
  spec_selection P l = inc_plain P (centre_plain (rescale_plain (2 * P) l)).
Proof. reflexivity. Qed.

Lemma spec_better_iff : forall a b, spec_better a b = true <->
  v_prio b < v_prio a \/ (v_prio a = v_prio b /\ bytes_cmp (v_addr a) (v_addr b) = Lt).
Proof.
  intros a b. unfold spec_better, addr_ltb.
  destruct (Z.ltb_spec (v_prio b) (v_prio a)); cbn [orb].
  - split; [intros _; left; assumption|reflexivity].
  - destruct (Z.eqb_spec (v_prio a) (v_prio b)); cbn [andb].
    + destruct (bytes_cmp (v_addr a) (v_addr b)); split; intro Hx; try reflexivity; try discriminate.
      * destruct Hx as [?|[_ ?]]; [lia|discriminate].
      * right; split; [assumption|reflexivity].
      * destruct Hx as [?|[_ ?]]; [lia|discriminate].
    + split; [discriminate|]. intros [?|[? _]]; lia.
Qed.

Lemma spec_better_asym : forall a b, spec_better a b = true -> spec_better b a = true -> False.
Proof.
  intros a b H1 H2. rewrite spec_better_iff in *.
  destruct H1 as [H1|[H1 A1]], H2 as [H2|[H2 A2]]; try lia.
  rewrite (bytes_cmp_antisym (v_addr a) (v_addr b)), A1 in A2. discriminate.
Qed.

Lemma keeps_spec : forall m w, keeps m w = true ->
  bytes_eqb (v_addr w) (v_addr m) || spec_better m w = true.
Proof.
  intros m w H. apply keeps_iff in H. apply orb_true_iff.
  destruct H as [H|[H A]].
  - right. apply spec_better_iff. left; exact H.
  - destruct (bytes_cmp (v_addr m) (v_addr w)) eqn:E; [| |congruence].
    + left. apply bytes_cmp_eq in E. apply bytes_eqb_eq. symmetry; exact E.
    + right. apply spec_better_iff. right. split; assumption.
Qed.

Lemma find_unique : forall (P : validator -> bool) l m, In m l -> P m = true ->
  (forall x, In x l -> P x = true -> x = m) -> find P l = Some m.
Proof.
  intros P. induction l as [|x l IH]; intros m Hin Hm Hu; [destruct Hin|].
  cbn [find]. destruct (P x) eqn:Px.
  - f_equal. apply Hu; [left; reflexivity|exact Px].
  - destruct Hin as [->|Hin]; [congruence|].
    apply IH; [exact Hin|exact Hm|]. intros y Hy. apply Hu. right; exact Hy.
Qed.

Lemma find_spec_is_max : forall l m, NoDup (addrs l) -> In m l ->
  Forall (fun w => keeps m w = true) l -> find (spec_is_max l) l = Some m.
Proof.
  intros l m Hnd Hin HF.
  assert (Hm : spec_is_max l m = true).
  { unfold spec_is_max. apply forallb_forall. intros w Hw. rewrite Forall_forall in HF.
    apply keeps_spec. apply HF; exact Hw. }
  apply find_unique; [exact Hin|exact Hm|].
  intros x Hx Px. unfold spec_is_max in *. rewrite forallb_forall in *.
  pose proof (Px m Hin) as H1. pose proof (Hm x Hx) as H2.
  apply orb_true_iff in H1. apply orb_true_iff in H2.
  destruct H1 as [H1|H1].
  - apply bytes_eqb_eq in H1. symmetry. eapply NoDup_addr_inj; eassumption.
  - destruct H2 as [H2|H2].
    + apply bytes_eqb_eq in H2. eapply NoDup_addr_inj; eassumption.
    + exfalso. eapply spec_better_asym; eassumption.
Qed.

(* ------------------------------------------------------------------ 2. one increment *)

Lemma sum_prio_add : forall l,
  sum_prio (map (fun v => set_prio v (v_prio v + v_power v)) l) = sum_prio l + sum_power l.
Proof.
  induction l as [|x l IH]; [reflexivity|].
  cbn [map sum_prio sum_power fold_right]. fold (sum_power l). fold (sum_prio l).
  fold (sum_prio (map (fun v => set_prio v (v_prio v + v_power v)) l)).
  rewrite IH. cbn [set_prio v_prio]. lia.
Qed.

(* general form: a list within [-B, B] goes to a list within [-(B+T), B+T]; in fact every
   priority moves by at most T *)
Lemma inc_once_gen : forall T B l, WF T l -> PB B l -> 0 <= B -> B + T <= max_int64 ->
  exists l' m, inc_once T l = (l', Some m) /\ In m l' /\ PB (B + T) l' /\
    sum_prio l' = sum_prio l /\ map v_addr l' = map v_addr l /\ map v_power l' = map v_power l /\
    inc_once T l = inc_plain T l /\
    (forall w, In w l -> v_prio w + v_power w <= v_prio m + T).
Proof.
  intros T B l HWF HP HB HBT.
  pose proof HWF as (Hne & Hnd & Hpos & Hsum & HT).
  unfold inc_once, inc_plain.
  assert (Hext : forall v, In v l ->
            set_prio v (add_clip (v_prio v) (v_power v)) = set_prio v (v_prio v + v_power v)).
  { intros v Hv. pose proof (WF_power_le T l v HWF Hv) as Hpw.
    unfold PB in HP. rewrite Forall_forall in HP. specialize (HP v Hv).
    rewrite add_clip_exact; [reflexivity|]. ubig. lia. }
  rewrite (map_ext_in _ _ l Hext). cbv zeta.
  set (added := map (fun v => set_prio v (v_prio v + v_power v)) l).
  assert (Ha : map v_addr added = map v_addr l).
  { subst added. rewrite map_map. apply map_ext. reflexivity. }
  assert (Hp : map v_power added = map v_power l).
  { subst added. rewrite map_map. apply map_ext. reflexivity. }
  pose proof (WF_ext T l added Ha Hp HWF) as HWFa.
  pose proof HWFa as (Hnea & Hnda & _).
  assert (HPa : Forall (fun v => - B <= v_prio v <= B + T) added).
  { subst added. apply Forall_map. apply Forall_forall. intros v Hv.
    pose proof (WF_power_le T l v HWF Hv) as Hpw.
    unfold PB in HP. rewrite Forall_forall in HP. specialize (HP v Hv).
    cbn [set_prio v_prio]. lia. }
  destruct (most_prio_spec added Hnea) as (i & m & Hmp & Hnth & Hk).
  rewrite Hmp.
  pose proof (nth_error_In _ _ Hnth) as Hmin.
  pose proof HPa as HPa'. rewrite Forall_forall in HPa'. pose proof (HPa' m Hmin) as Hmb.
  rewrite sub_clip_exact by (ubig; lia).
  rewrite (find_spec_is_max added m Hnda Hmin Hk).
  rewrite <- (set_nth_replace added i m _ Hnda Hnth).
  eexists. eexists. split; [reflexivity|].
  split; [eapply set_nth_In; exact Hnth|].
  split.
  { unfold PB. apply set_nth_Forall.
    - eapply Forall_impl; [|exact HPa]. cbv beta. intros; lia.
    - cbn [set_prio v_prio]. lia. }
  split.
  { rewrite (set_nth_sum added i m _ Hnth). cbn [set_prio v_prio].
    subst added. rewrite sum_prio_add. lia. }
  split; [rewrite (set_nth_map_addr added i m _ Hnth) by reflexivity; exact Ha|].
  split; [rewrite (set_nth_map v_power added i m _ Hnth) by reflexivity; exact Hp|].
  split; [reflexivity|].
  intros w Hw. cbn [set_prio v_prio].
  assert (Hwa : In (set_prio w (v_prio w + v_power w)) added).
  { subst added. apply (in_map (fun v => set_prio v (v_prio v + v_power v))). exact Hw. }
  rewrite Forall_forall in Hk. specialize (Hk _ Hwa). apply keeps_iff in Hk.
  cbn [set_prio v_prio] in Hk. lia.
Qed.

Lemma sum_le_max : forall c l, (forall w, In w l -> v_prio w + v_power w <= c) ->
  sum_prio l + sum_power l <= Z.of_nat (length l) * c.
Proof.
  intros c. induction l as [|x l IH]; intros H.
  - cbn. lia.
  - cbn [sum_prio sum_power fold_right length]. fold (sum_prio l). fold (sum_power l).
    rewrite Nat2Z.inj_succ.
    pose proof (H x (or_introl eq_refl)).
    assert (IH' : sum_prio l + sum_power l <= Z.of_nat (length l) * c).
    { apply IH. intros w Hw. apply H. right; exact Hw. }
    lia.
Qed.

(* on a list with non-negative priority sum the chosen validator had a positive priority after
   the additions, so it ends above -T *)
Lemma inc_once_chosen_lower : forall T l l' m, WF T l -> PB (2 * T + 1) l -> 0 <= sum_prio l ->
  inc_once T l = (l', Some m) -> - T < v_prio m.
Proof.
  intros T l l' m HWF HP Hs E. pose proof HWF as (Hne & _ & _ & Hsum & HT).
  destruct (inc_once_gen T (2 * T + 1) l HWF HP ltac:(lia) ltac:(ubig; lia))
    as (l2 & m2 & E2 & _ & _ & _ & _ & _ & _ & Hmax).
  rewrite E2 in E. injection E as <- <-.
  pose proof (sum_le_max _ l Hmax) as Hle. pose proof (length_pos l Hne) as Hn. nia.
Qed.

Lemma inc_once_bound : forall T l, WF T l -> PB (2 * T + 1) l -> 0 <= sum_prio l ->
  let '(l', p) := inc_once T l in
  PB (3 * T + 1) l' /\ (exists m, p = Some m /\ In m l') /\ sum_prio l' = sum_prio l /\
  map v_addr l' = map v_addr l /\ map v_power l' = map v_power l /\
  (l', p) = inc_plain T l.
Proof.
  intros T l HWF HP _. pose proof HWF as (_ & _ & _ & _ & HT).
  destruct (inc_once_gen T (2 * T + 1) l HWF HP ltac:(lia) ltac:(ubig; lia))
    as (l' & m & E & Hin & HB & Hs & Ha & Hp & Epl & _).
  rewrite <- Epl, E.
  split; [eapply PB_mono; [|exact HB]; lia|].
  split; [exists m; split; [reflexivity|exact Hin]|].
  repeat split; assumption.
Qed.

(* ------------------------------------------------------------------ 3. ipp *)

Lemma ipp_unfold : forall k l p T, l <> [] -> 0 < k -> total_power l = Some T ->
  ipp k (mkVS l p) =
  let '(l', p') := inc_times (Z.to_nat k) T
                     (shift_avg (rescale (priority_window_size_factor * T) l)) None in
  Some (mkVS l' p').
Proof.
  intros k l p T Hne Hk Ht. unfold ipp. cbn [vs_vals]. rewrite Ht.
  destruct l; [congruence|]. destruct (Z.leb_spec k 0); [lia|reflexivity].
Qed.

Lemma inc_times_gen : forall n T B l p, WF T l -> PB B l -> 0 <= B ->
  B + Z.of_nat n * T <= max_int64 ->
  exists l' p', inc_times n T l p = (l', p') /\ WF T l' /\ PB (B + Z.of_nat n * T) l' /\
    sum_prio l' = sum_prio l /\ map v_addr l' = map v_addr l /\ map v_power l' = map v_power l /\
    (n = 0%nat -> l' = l /\ p' = p) /\ (n <> 0%nat -> exists m, p' = Some m /\ In m l').
Proof.
  induction n as [|n IH]; intros T B l p HWF HP HB Hle.
  - exists l, p. cbn [inc_times]. split; [reflexivity|]. split; [exact HWF|].
    split; [eapply PB_mono; [|exact HP]; lia|]. split; [reflexivity|].
    split; [reflexivity|]. split; [reflexivity|].
    split; [intros _; split; reflexivity|congruence].
  - pose proof HWF as (_ & _ & _ & _ & HT). rewrite Nat2Z.inj_succ in *.
    destruct (inc_once_gen T B l HWF HP HB ltac:(nia)) as (l1 & m & E & Hin & HB1 & Hs & Ha & Hp & _).
    pose proof (WF_ext T l l1 Ha Hp HWF) as HWF1.
    destruct (IH T (B + T) l1 (Some m) HWF1 HB1 ltac:(lia) ltac:(lia))
      as (l' & p' & E' & HWF' & HP' & Hs' & Ha' & Hp' & H0 & Hn0).
    exists l', p'. cbn [inc_times]. rewrite E. split; [exact E'|]. split; [exact HWF'|].
    split; [eapply PB_mono; [|exact HP']; lia|]. split; [congruence|].
    split; [congruence|]. split; [congruence|].
    split; [discriminate|]. intros _.
    destruct n as [|n'].
    + destruct (H0 eq_refl) as [-> ->]. exists m; split; [reflexivity|exact Hin].
    + apply Hn0. discriminate.
Qed.

Lemma ipp1_full : forall T l p, WF T l -> PB Bmax l ->
  exists l' m, ipp 1 (mkVS l p) = Some (mkVS l' (Some m)) /\
    WF T l' /\ PB (3 * T + 1) l' /\ In m l' /\ 0 <= sum_prio l' < Z.of_nat (length l') /\
    (l', Some m) = spec_selection T l.
Proof.
  intros T l p HWF HP. pose proof HWF as (Hne & _ & _ & _ & HT).
  rewrite (ipp_unfold 1 l p T Hne ltac:(lia) (total_power_WF T l HWF)).
  destruct (rescale_centre_bound T l Hne HT HP) as (HB & Hs & Ha & Hp & Epl).
  cbv zeta in *.
  set (l0 := shift_avg (rescale (priority_window_size_factor * T) l)) in *.
  pose proof (WF_ext T l l0 Ha Hp HWF) as HWF0.
  destruct (inc_once_gen T (2 * T + 1) l0 HWF0 HB ltac:(lia) ltac:(ubig; lia))
    as (l' & m & E & Hin & HB' & Hs' & Ha' & Hp' & Epl' & _).
  change (Z.to_nat 1) with 1%nat. cbn [inc_times]. rewrite E.
  exists l', m. split; [reflexivity|].
  split; [eapply WF_ext; [exact Ha'|exact Hp'|exact HWF0]|].
  split; [eapply PB_mono; [|exact HB']; lia|].
  split; [exact Hin|].
  split.
  { rewrite Hs'. replace (length l') with (length l0); [exact Hs|].
    rewrite <- (map_length v_addr l0), <- (map_length v_addr l'), Ha'. reflexivity. }
  rewrite spec_selection_unfold, <- Epl, <- Epl', E. reflexivity.
Qed.

Theorem ipp1_bound : forall T l p vs', WF T l -> PB Bmax l -> ipp 1 (mkVS l p) = Some vs' ->
  WF T (vs_vals vs') /\ PB (3 * T + 1) (vs_vals vs') /\ PB Bmax (vs_vals vs') /\
  (exists m, vs_prop vs' = Some m /\ In m (vs_vals vs')).
Proof.
  intros T l p vs' HWF HP E. pose proof HWF as (_ & _ & _ & _ & HT).
  destruct (ipp1_full T l p HWF HP) as (l' & m & E' & HWF' & HB & Hin & _ & _).
  rewrite E' in E. injection E as <-. cbn [vs_vals vs_prop].
  split; [exact HWF'|]. split; [exact HB|].
  split; [eapply PB_mono; [|exact HB]; ubig; lia|].
  exists m; split; [reflexivity|exact Hin].
Qed.

Theorem ipp1_defined : forall T l p, WF T l -> PB Bmax l -> exists vs', ipp 1 (mkVS l p) = Some vs'.
Proof.
  intros T l p HWF HP. destruct (ipp1_full T l p HWF HP) as (l' & m & E' & _).
  eexists; exact E'.
Qed.

(* the set in force after one more height is again centred: 0 <= sum < n *)
Theorem ipp1_sum : forall T l p vs', WF T l -> PB Bmax l -> ipp 1 (mkVS l p) = Some vs' ->
  0 <= sum_prio (vs_vals vs') < Z.of_nat (length (vs_vals vs')).
Proof.
  intros T l p vs' HWF HP E.
  destruct (ipp1_full T l p HWF HP) as (l' & m & E' & _ & _ & _ & Hs & _).
  rewrite E' in E. injection E as <-. exact Hs.
Qed.

(* along a chain of heights: WF and the bound are invariant, no panic *)
Corollary ipp1_iter_bound : forall n T vs, WF T (vs_vals vs) -> PB Bmax (vs_vals vs) ->
  exists vs', ipp1_iter n vs = Some vs' /\ WF T (vs_vals vs') /\ PB Bmax (vs_vals vs') /\
    (n <> 0%nat -> PB (3 * T + 1) (vs_vals vs') /\
                   exists m, vs_prop vs' = Some m /\ In m (vs_vals vs')).
Proof.
  induction n as [|n IH]; intros T vs HWF HP.
  - exists vs. cbn [ipp1_iter]. split; [reflexivity|]. split; [exact HWF|]. split; [exact HP|congruence].
  - destruct vs as [l p]. cbn [vs_vals] in *.
    destruct (ipp1_defined T l p HWF HP) as (vs1 & E1).
    destruct (ipp1_bound T l p vs1 HWF HP E1) as (HWF1 & HB1 & HP1 & Hm1).
    destruct (IH T vs1 HWF1 HP1) as (vs' & E' & HWF' & HP' & Hn).
    exists vs'. cbn [ipp1_iter]. rewrite E1. split; [exact E'|]. split; [exact HWF'|].
    split; [exact HP'|]. intros _. destruct n as [|n'].
    + cbn [ipp1_iter] in E'. injection E' as <-. split; assumption.
    + apply Hn. discriminate.
Qed.

(* ------------------------------------------------------------------ 4. ipp 1 is the specification *)

Theorem rotation_is_spec : forall T l p, WF T l -> PB Bmax l ->
  ipp 1 (mkVS l p) = Some (mkVS (fst (spec_selection T l)) (snd (spec_selection T l))).
Proof.
  intros T l p HWF HP.
  destruct (ipp1_full T l p HWF HP) as (l' & m & E' & _ & _ & _ & _ & Es).
  rewrite <- Es. cbn [fst snd]. exact E'.
Qed.

(* ------------------------------------------------------------------ 5. k increments in one call *)

(* Each of the k increments moves a priority by at most T.
   The full statement "for every k >= 1 with WF T l and PB Bmax l, no saturating operation of
   ipp k (mkVS l p) saturates (and PB (3*T+1) holds of the result)" needs the sharp bound on the
   priorities of the weighted round-robin (a centred list stays within about 2T of 0 under
   repeated inc_once); it is not proved here. *)
Theorem ippk_no_clip_partial : forall T l p k vs', WF T l -> PB Bmax l -> 1 <= k ->
  (k + 2) * T + 1 <= max_int64 ->
  ipp k (mkVS l p) = Some vs' ->
  PB ((k + 2) * T + 1) (vs_vals vs') /\ WF T (vs_vals vs') /\
  (exists m, vs_prop vs' = Some m /\ In m (vs_vals vs')) /\
  0 <= sum_prio (vs_vals vs') < Z.of_nat (length (vs_vals vs')).
Proof.
  intros T l p k vs' HWF HP Hk Hle E. pose proof HWF as (Hne & _ & _ & _ & HT).
  rewrite (ipp_unfold k l p T Hne ltac:(lia) (total_power_WF T l HWF)) in E.
  destruct (rescale_centre_bound T l Hne HT HP) as (HB & Hs & Ha & Hp & _).
  cbv zeta in *.
  set (l0 := shift_avg (rescale (priority_window_size_factor * T) l)) in *.
  pose proof (WF_ext T l l0 Ha Hp HWF) as HWF0.
  assert (Hkn : Z.of_nat (Z.to_nat k) = k) by lia.
  destruct (inc_times_gen (Z.to_nat k) T (2 * T + 1) l0 None HWF0 HB ltac:(lia)
              ltac:(rewrite Hkn; lia)) as (l' & p' & E' & HWF' & HP' & Hs' & Ha' & _ & _ & Hm).
  rewrite E' in E. injection E as <-. cbn [vs_vals vs_prop].
  split; [eapply PB_mono; [|exact HP']; rewrite Hkn; lia|].
  split; [exact HWF'|]. split; [apply Hm; lia|].
  rewrite Hs'. replace (length l') with (length l0); [exact Hs|].
  rewrite <- (map_length v_addr l0), <- (map_length v_addr l'), Ha'. reflexivity.
Qed.

(* ------------------------------------------------------------------ non-vacuity *)

Definition ex_l3 : list validator :=
  [mkVal [1%N] 5 0; mkVal [2%N] 3 0; mkVal [3%N] 1 0].
Definition ex_l3r : list validator :=      (* spread 200 > 2 * 9: rescaling fires *)
  [mkVal [1%N] 5 100; mkVal [2%N] 3 (-100); mkVal [3%N] 1 0].

Example ex_WF : WF 9 ex_l3.
Proof.
  unfold WF, ex_l3. split; [discriminate|].
  split; [cbn; repeat constructor; cbn; intuition discriminate|].
  split; [repeat constructor|]. split; [reflexivity|]. unfold max_total_voting_power. lia.
Qed.
Example ex_WFr : WF 9 ex_l3r.
Proof.
  unfold WF, ex_l3r. split; [discriminate|].
  split; [cbn; repeat constructor; cbn; intuition discriminate|].
  split; [repeat constructor|]. split; [reflexivity|]. unfold max_total_voting_power. lia.
Qed.
Example ex_PB : PB Bmax ex_l3.
Proof. unfold PB, ex_l3. repeat constructor; cbn [v_prio]; ubig; lia. Qed.
Example ex_PBr : PB Bmax ex_l3r.
Proof. unfold PB, ex_l3r. repeat constructor; cbn [v_prio]; ubig; lia. Qed.

Example ex_total : total_power ex_l3 = Some 9.
Proof. vm_compute; reflexivity. Qed.

(* rescale_centre_bound: the rescaling branch is taken (ratio 12: 100, -100, 0 -> 8, -8, 0) *)
Example ex_rescale :
  map v_prio (shift_avg (rescale (priority_window_size_factor * 9) ex_l3r)) = [8; -8; 0]
  /\ shift_avg (rescale (priority_window_size_factor * 9) ex_l3r)
     = centre_plain (rescale_plain (2 * 9) ex_l3r).
Proof. vm_compute. split; reflexivity. Qed.

(* inc_once / inc_once_bound *)
Example ex_inc_once :
  inc_once 9 ex_l3 = ([mkVal [1%N] 5 (-4); mkVal [2%N] 3 3; mkVal [3%N] 1 1],
                      Some (mkVal [1%N] 5 (-4)))
  /\ inc_once 9 ex_l3 = inc_plain 9 ex_l3.
Proof. vm_compute. split; reflexivity. Qed.

(* ipp1_bound / ipp1_defined / rotation_is_spec *)
Example ex_ipp1 :
  ipp 1 (mkVS ex_l3 None)
  = Some (mkVS [mkVal [1%N] 5 (-4); mkVal [2%N] 3 3; mkVal [3%N] 1 1] (Some (mkVal [1%N] 5 (-4)))).
Proof. vm_compute; reflexivity. Qed.
Example ex_ipp1_spec :
  ipp 1 (mkVS ex_l3 None)
  = Some (mkVS (fst (spec_selection 9 ex_l3)) (snd (spec_selection 9 ex_l3))).
Proof. vm_compute; reflexivity. Qed.
Example ex_ipp1r :
  ipp 1 (mkVS ex_l3r None)
  = Some (mkVS [mkVal [1%N] 5 4; mkVal [2%N] 3 (-5); mkVal [3%N] 1 1] (Some (mkVal [1%N] 5 4)))
  /\ ipp 1 (mkVS ex_l3r None)
     = Some (mkVS (fst (spec_selection 9 ex_l3r)) (snd (spec_selection 9 ex_l3r))).
Proof. vm_compute. split; reflexivity. Qed.

(* a tie on the priority is broken towards the smaller address, in both *)
Example ex_tie :
  let l := [mkVal [2%N] 4 0; mkVal [1%N] 4 0] in
  ipp 1 (mkVS l None)
  = Some (mkVS [mkVal [2%N] 4 4; mkVal [1%N] 4 (-4)] (Some (mkVal [1%N] 4 (-4))))
  /\ ipp 1 (mkVS l None) = Some (mkVS (fst (spec_selection 8 l)) (snd (spec_selection 8 l))).
Proof. vm_compute. split; reflexivity. Qed.

(* ipp1_iter_bound: the 5/3/1 set; proposers 1 2 1 3 ...; after 9 heights (one full
   period) the priorities are back at 0 *)
Example ex_iter :
  option_map (fun vs => map v_prio (vs_vals vs)) (ipp1_iter 9 (mkVS ex_l3 None)) = Some [0; 0; 0]
  /\ option_map (fun vs => map v_prio (vs_vals vs)) (ipp1_iter 4 (mkVS ex_l3 None)) = Some [2; 3; -5].
Proof. vm_compute. split; reflexivity. Qed.

(* ippk_no_clip_partial: hypotheses hold for k = 3 and the call is defined *)
Example ex_ippk :
  1 <= 3 /\ (3 + 2) * 9 + 1 <= max_int64 /\
  option_map (fun vs => map v_prio (vs_vals vs)) (ipp 3 (mkVS ex_l3 None)) = Some [-3; 0; 3].
Proof. vm_compute. repeat split; discriminate. Qed.

(* the saturating operations do saturate outside the window: the "exact" lemmas are not trivial *)
Example ex_clip : add_clip max_int64 1 = max_int64 /\ sub_clip min_int64 1 = min_int64
  /\ w64 (max_int64 + 1) = min_int64.
Proof. vm_compute. repeat split. Qed.
