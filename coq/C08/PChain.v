(* C08 — chain level: every validator set that is ever in force on a node keeps unique
   addresses, positive powers, a total within the limit and priorities within
   [-(3T+1), 3T+1]; hence (PRotation.ipp1_bound / rotation_is_spec) no saturating operation
   saturates when the chain moves from height to height, and each such step is the
   specification's ProposerSelection. *)
From Coq Require Import List ZArith NArith Bool Lia Permutation Sorted.
From TM Require Import Common.Hex Generated.Consts C08.Model.
From TM Require Import C08.PUpdate.
From TM Require C08.PRotation.
Import ListNotations.
Open Scope Z_scope.

(* ------------------------------------------------------------------ small facts *)

Lemma shiftr3_bound : forall t, 0 <= t <= 2 * max_total_voting_power ->
  - PRotation.Bmax <= - (t + Z.shiftr t 3) <= PRotation.Bmax.
Proof.
  intros t H. rewrite Z.shiftr_div_pow2 by lia. change (2 ^ 3) with 8.
  assert (0 <= t / 8 <= t) by (split; [apply Z.div_pos; lia|apply Z.div_le_upper_bound; lia]).
  assert (8 * (t / 8) <= t) by (apply Z.mul_div_le; lia).
  unfold PRotation.Bmax, max_total_voting_power in *. lia.
Qed.

(* the power removed by a batch is at most the total of the set *)
Lemma removed_le_total : forall vals dels,
  NoDup (addrs vals) -> Forall (fun v => 0 < v_power v) vals ->
  ASorted dels -> incl (addrs dels) (addrs vals) ->
  zsum (map (fun d => pw vals (v_addr d)) dels) <= sum_power vals.
Proof.
  intros vals dels N F Sd I.
  set (ex := sort_by by_addr vals).
  assert (P : Permutation vals ex) by apply sort_by_perm.
  assert (Se : ASorted ex) by (apply sort_addr_asorted; exact N).
  assert (Ie : incl (addrs dels) (addrs ex)).
  { intros a Ia. eapply Permutation_in; [apply perm_addrs; exact P|apply I; exact Ia]. }
  pose proof (rem_sum ex dels Se Sd Ie) as R.
  assert (Fr : Forall (fun v => 0 < v_power v) (apply_removals ex dels)).
  { rewrite Forall_forall in *. intros x Ix. apply rem_in in Ix. apply F.
    eapply Permutation_in; [apply Permutation_sym; exact P|exact Ix]. }
  apply sum_power_nonneg in Fr.
  rewrite (map_ext (fun d => pw ex (v_addr d)) (fun d => pw vals (v_addr d))) in R.
  2:{ intro d. unfold pw. rewrite <- (find_addr_perm (v_addr d) vals _ N P). reflexivity. }
  rewrite <- (sum_power_perm _ _ P) in R. lia.
Qed.

Lemma PB_perm : forall B l l', Permutation l l' -> PRotation.PB B l -> PRotation.PB B l'.
Proof. intros B l l' P H. unfold PRotation.PB in *. eapply Permutation_Forall; eauto. Qed.

(* ------------------------------------------------------------------ 1. an update batch *)

Lemma update_prio_bound : forall vs cs b vs',
  (vs_vals vs = [] \/ Inv (vs_vals vs)) -> PRotation.PB PRotation.Bmax (vs_vals vs) -> cs <> [] ->
  update_with_change_set vs cs b = Ok vs' ->
  PRotation.PB (2 * sum_power (vs_vals vs') + 1) (vs_vals vs').
Proof.
  intros vs cs b vs' HI HP Hne H. apply inv_weak in HI. rewrite update_unfold in H.
  destruct cs as [|c0 cs0]; [congruence|]. set (cs := c0 :: cs0) in *.
  destruct (process_changes cs) as [[ups dels]|e] eqn:E; [|discriminate].
  apply update_tail_ok in H. destruct H as [removed [tvp [total [Hr [Hu [Htot [Hvs E2]]]]]]].
  destruct (rlist_core _ _ _ _ _ _ HI E Hr Hu) as [S [F [Es Hs]]].
  pose proof HI as [N [Fv Sv]].
  destruct (process_changes_facts _ _ _ E) as [SS [Ncs [Pcs [Eu [Ed Fb]]]]].
  assert (Sd : ASorted dels) by (rewrite Ed; apply filter_asorted; exact SS).
  pose proof (verify_removals_ok _ _ _ Hr) as [Idel Er].
  set (vals := vs_vals vs) in *.
  set (m := rlist vals ups dels tvp) in *.
  assert (Hm : m <> []) by (eapply rlist_nonempty; eauto).
  assert (Hpos : 0 < sum_power m) by (apply sum_power_pos; assumption).
  rewrite (total_power_ok m F Hs) in Htot. injection Htot as Htot.
  assert (R0 : 0 <= removed) by (rewrite Er; apply zsum_pw_nonneg; exact Fv).
  assert (R1 : removed <= sum_power vals) by (rewrite Er; apply removed_le_total; assumption).
  assert (Htvp : 0 <= tvp <= 2 * max_total_voting_power) by lia.
  (* priorities of the merged list *)
  assert (HPm : PRotation.PB PRotation.Bmax m).
  { unfold PRotation.PB in *. rewrite Forall_forall in *. intros x Ix.
    unfold m, rlist in Ix. apply rem_in in Ix. apply merge_in in Ix. destruct Ix as [Ix|Ix].
    - apply HP. eapply Permutation_in; [apply Permutation_sym; apply sort_by_perm|exact Ix].
    - unfold compute_new_priorities in Ix. apply in_map_iff in Ix. destruct Ix as [u [Ex Iu]].
      destruct (find_addr (v_addr u) vals) as [v|] eqn:Ef; subst x; cbn [set_prio v_prio].
      + apply find_addr_some in Ef. destruct Ef as [Iv _]. apply HP. exact Iv.
      + apply shiftr3_bound. exact Htvp. }
  assert (HT : 0 < total <= max_total_voting_power) by lia.
  destruct (PRotation.rescale_centre_bound total m Hm HT HPm) as (HB & _ & _ & _ & _).
  cbv zeta in HB.
  rewrite Hvs. cbn [vs_vals].
  set (L := shift_avg (rescale (priority_window_size_factor * total) m)) in *.
  assert (EL : aps m = aps L) by (unfold L; rewrite aps_shift_avg, aps_rescale; reflexivity).
  rewrite <- (sum_power_perm _ _ (sort_by_perm by_power L)).
  rewrite <- (aps_sum _ _ EL). rewrite Htot.
  eapply PB_perm; [apply sort_by_perm|exact HB].
Qed.

(* ------------------------------------------------------------------ 2. bridge *)

Lemma inv_WF : forall l, Inv l -> PRotation.WF (sum_power l) l.
Proof.
  intros l (N & F & _ & Hs & Hne). unfold PRotation.WF.
  split; [exact Hne|]. split; [exact N|]. split; [exact F|]. split; [reflexivity|exact Hs].
Qed.

Lemma bound3_le_Bmax : forall T, T <= max_total_voting_power -> 3 * T + 1 <= PRotation.Bmax.
Proof. intros T H. unfold PRotation.Bmax. lia. Qed.

(* what is claimed of every set in force *)
Definition Good (vs : valset) : Prop :=
  Inv (vs_vals vs) /\
  PRotation.PB (3 * sum_power (vs_vals vs) + 1) (vs_vals vs) /\
  (exists m, vs_prop vs = Some m /\ In m (vs_vals vs)).

Lemma good_PBmax : forall vs, Good vs -> PRotation.PB PRotation.Bmax (vs_vals vs).
Proof.
  intros vs (HI & HB & _). eapply PRotation.PB_mono; [|exact HB].
  apply bound3_le_Bmax. destruct HI as (_ & _ & _ & Hs & _). lia.
Qed.

Lemma ipp1_good : forall vs vs',
  Inv (vs_vals vs) -> PRotation.PB PRotation.Bmax (vs_vals vs) -> ipp 1 vs = Some vs' -> Good vs'.
Proof.
  intros [l p] vs' HI HP E. cbn [vs_vals] in *.
  pose proof (ipp_keeps_inv 1 (mkVS l p) vs' E HI) as HI'.
  destruct (PRotation.ipp1_bound (sum_power l) l p vs' (inv_WF l HI) HP E)
    as (HWF & HB & _ & Hm).
  split; [exact HI'|]. split; [|exact Hm].
  destruct HWF as (_ & _ & _ & Hs & _).
  change (PRotation.sum_power (vs_vals vs')) with (sum_power (vs_vals vs')) in Hs.
  rewrite Hs. exact HB.
Qed.

Lemma update_pre : forall vs cs b vs',
  (vs_vals vs = [] \/ Inv (vs_vals vs)) -> PRotation.PB PRotation.Bmax (vs_vals vs) -> cs <> [] ->
  update_with_change_set vs cs b = Ok vs' ->
  Inv (vs_vals vs') /\ PRotation.PB PRotation.Bmax (vs_vals vs').
Proof.
  intros vs cs b vs' HI HP Hne H.
  pose proof (update_invariants vs cs b vs' HI Hne H) as HI'.
  split; [exact HI'|].
  eapply PRotation.PB_mono; [|eapply update_prio_bound; eauto].
  destruct HI' as (_ & _ & _ & Hs & _). unfold PRotation.Bmax. lia.
Qed.

(* ------------------------------------------------------------------ 3. the chain *)

Lemma genesis_good : forall valz initial s,
  make_genesis valz initial = Some s -> Good (st_vals s) /\ Good (st_next s).
Proof.
  intros valz initial s H. unfold make_genesis in H.
  destruct valz as [|v0 r]; [discriminate|]. cbv beta iota in H.
  set (valz := v0 :: r) in *.
  assert (Hne : valz <> []) by discriminate.
  destruct (new_validator_set valz) as [vs|] eqn:En; [|discriminate].
  rename H into H'.
  destruct (ipp 1 vs) as [nx|] eqn:Ei; [|discriminate]. injection H' as <-.
  cbn [st_vals st_next].
  destruct (new_validator_set_batch valz vs Hne En) as (vs0 & Eu & _ & _ & Ei0).
  destruct (update_pre (mkVS [] None) valz false vs0 (or_introl eq_refl)
              (Forall_nil _) Hne Eu) as (HI0 & HP0).
  pose proof (ipp1_good vs0 vs HI0 HP0 Ei0) as G.
  split; [exact G|].
  eapply ipp1_good; [|apply good_PBmax; exact G|exact Ei]. destruct G as (HI & _). exact HI.
Qed.

Lemma update_state_good : forall s ups s',
  Good (st_next s) -> update_state s ups = Some s' ->
  st_vals s' = st_next s /\ Good (st_next s').
Proof.
  intros s ups s' G H. unfold update_state in H.
  assert (exists nv, Inv (vs_vals nv) /\ PRotation.PB PRotation.Bmax (vs_vals nv) /\
            exists lc, match ipp 1 nv with
                       | Some nv' => Some (mkSt (st_initial s) (block_height s) (st_next s) nv' lc)
                       | None => None end = Some s') as (nv & HI & HP & lc & H').
  { destruct ups as [|u0 r].
    - exists (st_next s). split; [destruct G as (HI & _); exact HI|].
      split; [apply good_PBmax; exact G|]. exists (st_changed s). exact H.
    - unfold update in H.
      destruct (update_with_change_set (st_next s) (u0 :: r) true) as [v|e] eqn:Eu; [|discriminate].
      destruct (update_pre (st_next s) (u0 :: r) true v) as (HI & HP);
        [right; destruct G as (HI & _); exact HI|apply good_PBmax; exact G|discriminate|exact Eu|].
      exists v. split; [exact HI|]. split; [exact HP|]. eexists. exact H. }
  destruct (ipp 1 nv) as [nv'|] eqn:Ei; [|discriminate]. injection H' as <-.
  cbn [st_vals st_next]. split; [reflexivity|]. eapply ipp1_good; eauto.
Qed.

Definition NodeGood (n : node) : Prop :=
  Good (st_next (n_state n)) /\ forall h vs, In (h, vs) (n_sets n) -> Good vs.

Lemma start_good : forall K valz initial n0, start K valz initial = Some n0 -> NodeGood n0.
Proof.
  intros K valz initial n0 H. unfold start in H.
  destruct (make_genesis valz initial) as [s|] eqn:Eg; [|discriminate].
  destruct (save K s []) as [d|]; [|discriminate]. injection H as <-.
  destruct (genesis_good _ _ _ Eg) as (Gv & Gn).
  split; [exact Gn|]. cbn [n_sets]. intros h vs [E|[E|[]]]; injection E as _ <-; assumption.
Qed.

Lemma step_good : forall K n o, NodeGood n -> NodeGood (step K n o).
Proof.
  intros K n o (Gn & Gs). destruct o as [ups|from to]; cbn [step].
  - destruct (update_state (n_state n) ups) as [s'|] eqn:Eu; [|split; assumption].
    destruct (save K s' (n_db n)) as [d'|]; [|split; assumption].
    destruct (update_state_good _ _ _ Gn Eu) as (_ & Gn').
    split; [exact Gn'|]. cbn [n_sets n_state]. intros h vs [E|I].
    + injection E as _ <-. exact Gn'.
    + eapply Gs; exact I.
  - destruct (prune_states K (n_db n) from to); split; assumption.
Qed.

Lemma run_good : forall K ops n, NodeGood n -> NodeGood (run K n ops).
Proof.
  intros K ops. unfold run. induction ops as [|o ops IH]; intros n G; cbn [fold_left]; [exact G|].
  apply IH. apply step_good. exact G.
Qed.

Theorem chain_sets_bounded : forall K valz initial n0 ops,
  start K valz initial = Some n0 ->
  let n := run K n0 ops in
  forall h vs, In (h, vs) (n_sets n) ->
    Inv (vs_vals vs) /\
    PRotation.PB (3 * sum_power (vs_vals vs) + 1) (vs_vals vs) /\
    (exists m, vs_prop vs = Some m /\ In m (vs_vals vs)).
Proof.
  intros K valz initial n0 ops H n h vs I.
  destruct (run_good K ops n0 (start_good _ _ _ _ H)) as (_ & Gs). exact (Gs h vs I).
Qed.

(* the same for the two sets of the state itself *)
Theorem chain_state_bounded : forall K valz initial n0 ops,
  start K valz initial = Some n0 ->
  Good (st_next (n_state (run K n0 ops))).
Proof.
  intros K valz initial n0 ops H.
  destruct (run_good K ops n0 (start_good _ _ _ _ H)) as (G & _). exact G.
Qed.

(* ------------------------------------------------------------------ 4. every step is the spec *)

Corollary chain_step_is_spec : forall K valz initial n0 ops,
  start K valz initial = Some n0 ->
  let n := run K n0 ops in
  forall h vs, In (h, vs) (n_sets n) ->
    let T := sum_power (vs_vals vs) in
    PRotation.WF T (vs_vals vs) /\ PRotation.PB PRotation.Bmax (vs_vals vs) /\
    ipp 1 vs = Some (mkVS (fst (spec_selection T (vs_vals vs))) (snd (spec_selection T (vs_vals vs)))).
Proof.
  intros K valz initial n0 ops H n h vs I T.
  pose proof (chain_sets_bounded K valz initial n0 ops H h vs I) as G.
  fold (Good vs) in G. pose proof (good_PBmax vs G) as HP. destruct G as (HI & _).
  pose proof (inv_WF _ HI) as HWF. fold T in HWF.
  split; [exact HWF|]. split; [exact HP|].
  destruct vs as [l p]. cbn [vs_vals] in *. apply PRotation.rotation_is_spec; assumption.
Qed.

(* ------------------------------------------------------------------ non-vacuity *)

Definition ex_valz : list validator := [mkVal [1%N] 5 0; mkVal [2%N] 3 0; mkVal [3%N] 1 0].
(* an empty block, a batch (new validator 4, removal of 2), an empty block, a refused batch
   (removal of an unknown address), an empty block, a prune, an empty block *)
Definition ex_ops : list op :=
  [OBlock []; OBlock [mkVal [4%N] 4 0; mkVal [2%N] 0 0]; OBlock []; OBlock [mkVal [9%N] 0 0];
   OBlock []; OPrune 1 4; OBlock []].
Definition ex_n0 : node :=
  match start 4 ex_valz 1 with
  | Some n => n
  | None => mkNode (mkSt 0 0 (mkVS [] None) (mkVS [] None) 0) [] 0 []
  end.
Definition ex_set4 : valset :=      (* the first set that contains the new validator *)
  mkVS [mkVal [1%N] 5 7; mkVal [4%N] 4 (-5); mkVal [3%N] 1 (-1)] (Some (mkVal [3%N] 1 (-1))).

Example ex_start : start 4 ex_valz 1 = Some ex_n0.
Proof. vm_compute. reflexivity. Qed.

Example ex_run_shape :
  map fst (n_sets (run 4 ex_n0 ex_ops)) = [7; 6; 5; 4; 3; 2; 1] /\ n_base (run 4 ex_n0 ex_ops) = 4.
Proof. vm_compute. split; reflexivity. Qed.

Example ex_recorded : In (4, ex_set4) (n_sets (run 4 ex_n0 ex_ops)).
Proof. vm_compute. do 3 right. left. reflexivity. Qed.

(* the theorem on the concrete run; T = 10, so the window is [-31, 31] *)
Example ex_chain_bounded :
  Inv (vs_vals ex_set4) /\ PRotation.PB 31 (vs_vals ex_set4) /\
  (exists m, vs_prop ex_set4 = Some m /\ In m (vs_vals ex_set4)).
Proof. exact (chain_sets_bounded 4 ex_valz 1 ex_n0 ex_ops ex_start 4 ex_set4 ex_recorded). Qed.

(* the bound is not trivial: 7 is within 31 but the statement would be false for a window of 6 *)
Example ex_bound_not_trivial : ~ PRotation.PB 6 (vs_vals ex_set4).
Proof. intro H. inversion H as [|? ? H1 _]; subst. cbn [v_prio] in H1. lia. Qed.

Example ex_step_is_spec :
  ipp 1 ex_set4 = Some (mkVS (fst (spec_selection 10 (vs_vals ex_set4)))
                             (snd (spec_selection 10 (vs_vals ex_set4)))) /\
  ipp 1 ex_set4 = Some (mkVS [mkVal [1%N] 5 2; mkVal [4%N] 4 (-1); mkVal [3%N] 1 0]
                             (Some (mkVal [1%N] 5 2))).
Proof.
  split.
  - exact (proj2 (proj2 (chain_step_is_spec 4 ex_valz 1 ex_n0 ex_ops ex_start 4 ex_set4 ex_recorded))).
  - vm_compute. reflexivity.
Qed.

(* update_prio_bound on a concrete batch: hypotheses hold, the result has T' = 85 *)
Example ex_update_bound :
  exists vs', update_with_change_set ex_vs ex_cs true = Ok vs' /\
              sum_power (vs_vals vs') = 85 /\
              PRotation.PB (2 * 85 + 1) (vs_vals vs').
Proof.
  exists ex_out. split; [exact ex_order_1|]. split; [vm_compute; reflexivity|].
  change 85 with (sum_power (vs_vals ex_out)).
  apply (update_prio_bound ex_vs ex_cs true ex_out).
  - right. exact ex_inv.
  - repeat constructor; cbn [v_prio]; unfold PRotation.Bmax, max_total_voting_power; lia.
  - discriminate.
  - exact ex_order_1.
Qed.
