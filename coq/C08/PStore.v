(* C08 — proofs about the state-store part of Model.v (save / LoadValidators / checkpoints). *)
From Coq Require Import List ZArith NArith Bool Lia Permutation Sorted.
From TM Require Import Common.Hex Generated.Consts C08.Model.
Import ListNotations.
Open Scope Z_scope.

(* ------------------------------------------------------------------ storable sets *)

Definition storable (vs : valset) : Prop :=
  vs_vals vs <> [] /\ vs_prop vs <> None /\ total_power (vs_vals vs) <> None.

Lemma to_proto_storable : forall vs, storable vs -> to_proto vs = Some vs.
Proof.
  intros [l p] (H1 & H2 & H3). unfold to_proto. simpl in *.
  destruct l; [congruence|]. destruct p; [reflexivity|congruence].
Qed.

Lemma from_proto_storable : forall vs, storable vs -> from_proto vs = LvOk vs.
Proof.
  intros [l p] (H1 & H2 & H3). unfold from_proto. simpl in *.
  destruct p; [|congruence]. destruct (total_power l); [|congruence].
  destruct l; [congruence|reflexivity].
Qed.

Lemma total_from_powers : forall (l l' : list validator) s,
  map v_power l = map v_power l' -> total_from s l = total_from s l'.
Proof.
  induction l as [|v l IH]; intros [|v' l'] s H; simpl in H; try discriminate; [reflexivity|].
  injection H as Hp Hl. simpl. rewrite Hp.
  destruct (add_clip s (v_power v') >? max_total_voting_power); [reflexivity|].
  apply IH; assumption.
Qed.

Lemma map_power_set_prio : forall (f : validator -> Z) (l : list validator),
  map v_power (map (fun v => set_prio v (f v)) l) = map v_power l.
Proof. intros f l. rewrite map_map. apply map_ext. reflexivity. Qed.

Lemma rescale_powers : forall dm l, map v_power (rescale dm l) = map v_power l.
Proof.
  intros dm l. unfold rescale. destruct (dm <=? 0); [reflexivity|].
  destruct (max_min_diff l >? dm); [|reflexivity].
  apply (map_power_set_prio (fun v => Z.quot (v_prio v) _)).
Qed.

Lemma shift_avg_powers : forall l, map v_power (shift_avg l) = map v_power l.
Proof. intros l. unfold shift_avg. apply (map_power_set_prio (fun v => sub_clip (v_prio v) _)). Qed.

Lemma most_from_spec : forall l bi best i j m,
  most_from bi best i l = (j, m) ->
  (j = bi /\ m = best) \/ (exists k, j = (i + k)%nat /\ nth_error l k = Some m).
Proof.
  induction l as [|v r IH]; intros bi best i j m H; simpl in H.
  - injection H as <- <-. left; split; reflexivity.
  - destruct (keeps best v).
    + apply IH in H. destruct H as [H|(k & Hj & Hk)]; [left; exact H|].
      right. exists (S k). split; [lia|exact Hk].
    + apply IH in H. destruct H as [(Hj & Hm)|(k & Hj & Hk)].
      * right. exists 0%nat. split; [lia|]. simpl. congruence.
      * right. exists (S k). split; [lia|exact Hk].
Qed.

Lemma most_prio_spec : forall l j m, most_prio l = Some (j, m) -> nth_error l j = Some m.
Proof.
  intros [|v r] j m H; simpl in H; [discriminate|].
  injection H as H. apply most_from_spec in H.
  destruct H as [(-> & ->)|(k & -> & Hk)]; [reflexivity|exact Hk].
Qed.

Lemma set_nth_powers : forall (l : list validator) i m m',
  nth_error l i = Some m -> v_power m' = v_power m ->
  map v_power (set_nth i m' l) = map v_power l.
Proof.
  induction l as [|y r IH]; intros i m m' H Hp.
  - destruct i; discriminate.
  - destruct i; simpl in *.
    + injection H as ->. rewrite Hp. reflexivity.
    + f_equal. eapply IH; eassumption.
Qed.

Lemma inc_once_spec : forall total l l' p,
  l <> [] -> inc_once total l = (l', p) ->
  map v_power l' = map v_power l /\ p <> None.
Proof.
  intros total l l' p Hne H. unfold inc_once in H.
  set (l1 := map (fun v => set_prio v (add_clip (v_prio v) (v_power v))) l) in *.
  assert (Hl1 : map v_power l1 = map v_power l)
    by apply (map_power_set_prio (fun v => add_clip (v_prio v) (v_power v))).
  destruct (most_prio l1) as [[i m]|] eqn:E.
  - injection H as <- <-. split; [|discriminate].
    rewrite <- Hl1. apply most_prio_spec in E.
    eapply set_nth_powers; [exact E|reflexivity].
  - destruct l; [congruence|]. simpl in E. discriminate.
Qed.

Lemma powers_nonempty : forall (l l' : list validator),
  map v_power l' = map v_power l -> l <> [] -> l' <> [].
Proof. intros l l' H Hne ->. destruct l; [congruence|discriminate]. Qed.

Lemma inc_times_spec : forall n total l p l' p',
  l <> [] -> p <> None -> inc_times n total l p = (l', p') ->
  map v_power l' = map v_power l /\ p' <> None.
Proof.
  induction n as [|n IH]; intros total l p l' p' Hne Hp H; simpl in H.
  - injection H as <- <-. split; [reflexivity|exact Hp].
  - destruct (inc_once total l) as [l1 p1] eqn:E.
    apply inc_once_spec in E; [|exact Hne]. destruct E as [E1 E2].
    apply IH in H; [|eapply powers_nonempty; eassumption|exact E2].
    destruct H as [H1 H2]. split; [congruence|exact H2].
Qed.

Lemma ipp_storable : forall t vs vs', ipp t vs = Some vs' -> storable vs'.
Proof.
  intros t vs vs' H. unfold ipp in H.
  destruct (vs_vals vs) as [|v0 r0] eqn:Ev; [discriminate|].
  destruct (t <=? 0) eqn:Et; [discriminate|]. apply Z.leb_gt in Et.
  destruct (total_power (v0 :: r0)) as [total|] eqn:Etot; [|discriminate].
  set (l := shift_avg (rescale (priority_window_size_factor * total) (v0 :: r0))) in *.
  assert (Hl : map v_power l = map v_power (v0 :: r0)).
  { unfold l. rewrite shift_avg_powers, rescale_powers. reflexivity. }
  assert (Hlne : l <> []) by (eapply powers_nonempty; [exact Hl|discriminate]).
  destruct (Z.to_nat t) as [|n] eqn:En; [lia|].
  simpl in H. destruct (inc_once total l) as [l1 p1] eqn:E1.
  apply inc_once_spec in E1; [|exact Hlne]. destruct E1 as [E1 E2].
  destruct (inc_times n total l1 p1) as [l' p'] eqn:E3.
  apply inc_times_spec in E3; [|eapply powers_nonempty; eassumption|exact E2].
  destruct E3 as [E3 E4]. injection H as <-.
  assert (Hall : map v_power l' = map v_power (v0 :: r0)) by congruence.
  repeat split; simpl.
  - eapply powers_nonempty; [exact Hall|discriminate].
  - exact E4.
  - unfold total_power in *. rewrite (total_from_powers _ _ 0 Hall). congruence.
Qed.

(* ------------------------------------------------------------------ database, remainders *)

Lemma db_get_set_same : forall h v d, db_get h (db_set h v d) = Some v.
Proof. intros. unfold db_set. simpl. rewrite Z.eqb_refl. reflexivity. Qed.

Lemma db_get_set_other : forall x h v d, x <> h -> db_get x (db_set h v d) = db_get x d.
Proof.
  intros x h v d Hne. unfold db_set. simpl.
  destruct (h =? x) eqn:E; [apply Z.eqb_eq in E; congruence|reflexivity].
Qed.

Lemma rem_range : forall h K, 0 < h -> 0 < K -> 0 <= Z.rem h K < K.
Proof. intros. apply Z.rem_bound_pos; lia. Qed.

Lemma rem_checkpoint : forall h K, 0 < K -> Z.rem (h - Z.rem h K) K = 0.
Proof.
  intros h K HK.
  assert (E : h - Z.rem h K = Z.quot h K * K).
  { pose proof (Z.quot_rem' h K). lia. }
  rewrite E. apply Z.rem_mul. lia.
Qed.

(* the entry of height h in the database is a full one holding vs *)
Definition full_at (d : db) (h : Z) (vs : valset) : Prop :=
  exists lc0, db_get h d = Some (mkVI lc0 (Some vs)).

(* what the database holds for a recorded (h, vs) *)
Definition entry_ok (K : Z) (d : db) (sets : list (Z * valset)) (h : Z) (vs : valset) : Prop :=
  exists vi, db_get h d = Some vi /\
    (vi_set vi = Some vs \/
     (vi_set vi = None /\
      let ls := last_stored_height_for K h (vi_last_changed vi) in
      ls <= h /\ h - ls <= max_int32 /\
      exists vs0, In (ls, vs0) sets /\ full_at d ls vs0 /\
                  ipp1_iter (Z.to_nat (h - ls)) vs0 = Some vs)).

Definition top_of (s : state) : Z :=
  if st_last s =? 0 then st_initial s + 1 else st_last s + 2.

Record StoreInv (K initial : Z) (n : node) : Prop := {
  si_initial : st_initial (n_state n) = initial;
  si_last : st_last (n_state n) = 0 \/ initial <= st_last (n_state n);
  si_changed : initial <= st_changed (n_state n) <= top_of (n_state n);
  si_top : In (top_of (n_state n), st_next (n_state n)) (n_sets n);
  si_range : forall h vs, In (h, vs) (n_sets n) ->
               initial <= h <= top_of (n_state n) /\ storable vs;
  si_fun : forall h vs vs', In (h, vs) (n_sets n) -> In (h, vs') (n_sets n) -> vs = vs';
  si_total : forall h, initial <= h <= top_of (n_state n) -> exists vs, In (h, vs) (n_sets n);
  si_chain : forall j vj vj1, st_changed (n_state n) <= j < top_of (n_state n) ->
               In (j, vj) (n_sets n) -> In (j + 1, vj1) (n_sets n) -> ipp 1 vj = Some vj1;
  si_lc_full : exists vs, In (st_changed (n_state n), vs) (n_sets n) /\
                          full_at (n_db n) (st_changed (n_state n)) vs;
  si_cp_full : forall h vs, In (h, vs) (n_sets n) -> Z.rem h K = 0 -> full_at (n_db n) h vs;
  si_entries : forall h vs, In (h, vs) (n_sets n) -> entry_ok K (n_db n) (n_sets n) h vs
}.

(* reading a recorded height back *)
Lemma entry_ok_load : forall K d sets h vs,
  (forall h vs, In (h, vs) sets -> storable vs) ->
  In (h, vs) sets -> entry_ok K d sets h vs -> load_validators K d h = LvOk vs.
Proof.
  intros K d sets h vs Hst Hin (vi & Hget & Hcase).
  unfold load_validators, load_validators_with. rewrite Hget.
  destruct Hcase as [Hfull|(Hnone & Hrest)].
  - rewrite Hfull. apply from_proto_storable. eapply Hst; eassumption.
  - rewrite Hnone. cbv zeta in Hrest.
    destruct Hrest as (Hle & Hmax & vs0 & Hin0 & (lc0 & Hget0) & Hiter).
    rewrite Hget0. simpl vi_set. cbv iota beta.
    rewrite (from_proto_storable vs0) by (eapply Hst; eassumption).
    unfold replay.
    set (ls := last_stored_height_for K h (vi_last_changed vi)) in *.
    destruct (h - ls >? max_int32) eqn:E1; [apply Z.gtb_lt in E1; lia|].
    destruct (h - ls <? - max_int32 - 1) eqn:E2;
      [apply Z.ltb_lt in E2; unfold max_int32 in *; lia|].
    simpl orb. cbv iota. rewrite Hiter.
    assert (Hs : storable vs) by (eapply Hst; eassumption).
    rewrite (to_proto_storable _ Hs). apply from_proto_storable; exact Hs.
Qed.

Lemma inv_load : forall K initial n h vs,
  StoreInv K initial n -> In (h, vs) (n_sets n) -> load_validators K (n_db n) h = LvOk vs.
Proof.
  intros K initial n h vs I Hin.
  eapply entry_ok_load; [|exact Hin|apply (si_entries _ _ _ I); exact Hin].
  intros h' vs' H'. apply (si_range _ _ _ I) in H'. tauto.
Qed.

(* ------------------------------------------------------------------ writing one entry *)

Lemma svi_spec : forall K h lc vs d d',
  storable vs -> save_validators_info K h lc vs d = Some d' ->
  lc <= h /\ exists vi, d' = db_set h vi d /\ vi_last_changed vi = lc /\
    (((h = lc \/ Z.rem h K = 0) /\ vi_set vi = Some vs) \/
     (lc < h /\ Z.rem h K <> 0 /\ vi_set vi = None)).
Proof.
  intros K h lc vs d d' Hs H. unfold save_validators_info in H.
  destruct (lc >? h) eqn:E1; [discriminate|].
  assert (Hle : lc <= h) by (destruct (Z.gtb_spec lc h); [discriminate|lia]).
  split; [exact Hle|].
  destruct (h =? lc) eqn:E2; simpl orb in H; cbv iota in H.
  - apply Z.eqb_eq in E2. rewrite (to_proto_storable _ Hs) in H. injection H as <-.
    eexists. split; [reflexivity|]. split; [reflexivity|]. left. split; [left; exact E2|reflexivity].
  - apply Z.eqb_neq in E2. destruct (Z.rem h K =? 0) eqn:E3.
    + apply Z.eqb_eq in E3. rewrite (to_proto_storable _ Hs) in H. injection H as <-.
      eexists. split; [reflexivity|]. split; [reflexivity|].
      left. split; [right; exact E3|reflexivity].
    + apply Z.eqb_neq in E3. injection H as <-.
      eexists. split; [reflexivity|]. split; [reflexivity|].
      right. repeat split; [lia|exact E3].
Qed.

Lemma ptr_ls_bounds : forall K h lc,
  0 < K <= max_int32 -> 0 < h -> lc < h -> Z.rem h K <> 0 ->
  let ls := last_stored_height_for K h lc in
  lc <= ls < h /\ h - ls <= max_int32 /\ (ls = lc \/ (lc < ls /\ Z.rem ls K = 0)).
Proof.
  intros K h lc HK Hh Hlc Hrem. cbv zeta. unfold last_stored_height_for.
  pose proof (rem_range h K Hh ltac:(lia)) as Hr.
  pose proof (rem_checkpoint h K ltac:(lia)) as Hc.
  destruct (Z.max_spec (h - Z.rem h K) lc) as [(Hlt & ->)|(Hge & ->)].
  - split; [lia|]. split; [lia|]. left. reflexivity.
  - split; [lia|]. split; [lia|].
    destruct (Z.eq_dec (h - Z.rem h K) lc) as [E|E]; [left; exact E|right; split; [lia|exact Hc]].
Qed.

Lemma full_at_mono : forall d x v h vs, h <> x -> full_at d h vs -> full_at (db_set x v d) h vs.
Proof. intros d x v h vs Hne (lc0 & H). exists lc0. rewrite db_get_set_other; assumption. Qed.

Lemma entry_ok_mono : forall K d sets x v vx h vs,
  (forall y vy, In (y, vy) sets -> y <> x) -> In (h, vs) sets ->
  entry_ok K d sets h vs -> entry_ok K (db_set x v d) ((x, vx) :: sets) h vs.
Proof.
  intros K d sets x v vx h vs Hfresh Hin (vi & Hget & Hcase).
  exists vi. split; [rewrite db_get_set_other; [exact Hget|eapply Hfresh; exact Hin]|].
  destruct Hcase as [Hf|(Hn & Hrest)]; [left; exact Hf|right]. split; [exact Hn|].
  cbv zeta in *. destruct Hrest as (Hle & Hmax & vs0 & Hin0 & Hfull & Hiter).
  split; [exact Hle|]. split; [exact Hmax|]. exists vs0.
  split; [right; exact Hin0|]. split; [|exact Hiter].
  apply full_at_mono; [eapply Hfresh; exact Hin0|exact Hfull].
Qed.

Lemma chain_iter : forall (sets : list (Z * valset)) lc top,
  (forall h, lc <= h <= top -> exists vs, In (h, vs) sets) ->
  (forall j vj vj1, lc <= j < top -> In (j, vj) sets -> In (j + 1, vj1) sets ->
                    ipp 1 vj = Some vj1) ->
  forall (k : nat) j vj, lc <= j -> j + Z.of_nat k <= top -> In (j, vj) sets ->
  exists v, In (j + Z.of_nat k, v) sets /\ ipp1_iter k vj = Some v.
Proof.
  intros sets lc top Htot Hch. induction k as [|k IH]; intros j vj Hlo Hhi Hin.
  - exists vj. split; [replace (j + Z.of_nat 0) with j by lia; exact Hin|reflexivity].
  - destruct (Htot (j + 1)) as [vj1 Hin1]; [lia|].
    assert (E : ipp 1 vj = Some vj1) by (eapply Hch; [|exact Hin|exact Hin1]; lia).
    destruct (IH (j + 1) vj1) as (v & Hv & Hit); [lia|lia|exact Hin1|].
    exists v. split; [replace (j + Z.of_nat (S k)) with (j + 1 + Z.of_nat k) by lia; exact Hv|].
    simpl. rewrite E. exact Hit.
Qed.

(* ------------------------------------------------------------------ one block keeps the invariant *)

Lemma inv_extend : forall K initial s d b sets s' d',
  0 < K <= max_int32 -> 0 < initial ->
  StoreInv K initial (mkNode s d b sets) ->
  st_initial s' = initial -> st_last s' = block_height s -> storable (st_next s') ->
  ((st_changed s' = st_changed s /\ ipp 1 (st_next s) = Some (st_next s')) \/
   st_changed s' = block_height s + 2) ->
  save_validators_info K (block_height s + 2) (st_changed s') (st_next s') d = Some d' ->
  StoreInv K initial (mkNode s' d' b ((st_last s' + 2, st_next s') :: sets)).
Proof.
  intros K initial s d b sets s' d' HK Hinit I Hi' Hl' Hst' Hcase Hsave.
  destruct I as [I1 I2 I3 I4 I5 I6 I7 I8 I9 I10 I11].
  cbn [n_state n_db n_sets n_base] in *.
  set (T := top_of s) in *.
  assert (HT : block_height s + 2 = T + 1 /\ initial <= block_height s).
  { unfold T, top_of, block_height. destruct I2 as [E|E].
    - rewrite E. simpl. lia.
    - destruct (st_last s =? 0) eqn:E0; [apply Z.eqb_eq in E0; lia|lia]. }
  destruct HT as [HT Hbh].
  assert (HT' : top_of s' = T + 1).
  { unfold top_of. rewrite Hl'. destruct (block_height s =? 0) eqn:E0;
      [apply Z.eqb_eq in E0; lia|lia]. }
  assert (Hhd : st_last s' + 2 = T + 1) by (rewrite Hl'; exact HT).
  rewrite HT in *. rewrite Hhd.
  set (vn := st_next s') in *. set (lc' := st_changed s') in *.
  assert (Hfresh : forall y vy, In (y, vy) sets -> y <> T + 1).
  { intros y vy Hy. apply I5 in Hy. lia. }
  destruct (svi_spec _ _ _ _ _ _ Hst' Hsave) as (Hlcle & vi & -> & Hvlc & Hvi).
  (* the list-level facts of the new node *)
  assert (N5 : forall h vs, In (h, vs) ((T + 1, vn) :: sets) ->
                 initial <= h <= T + 1 /\ storable vs).
  { intros h vs [E|Hin].
    - injection E as <- <-. split; [lia|exact Hst'].
    - apply I5 in Hin. split; [lia|tauto]. }
  assert (N6 : forall h vs vs', In (h, vs) ((T + 1, vn) :: sets) ->
                 In (h, vs') ((T + 1, vn) :: sets) -> vs = vs').
  { intros h vs vs' [E|Hin] [E'|Hin'].
    - congruence.
    - injection E as <- <-. apply Hfresh in Hin'. congruence.
    - injection E' as <- <-. apply Hfresh in Hin. congruence.
    - eapply I6; eassumption. }
  assert (N7 : forall h, initial <= h <= T + 1 -> exists vs, In (h, vs) ((T + 1, vn) :: sets)).
  { intros h Hh. destruct (Z.eq_dec h (T + 1)) as [->|Hne].
    - exists vn. left. reflexivity.
    - destruct (I7 h) as [vs Hvs]; [lia|]. exists vs. right. exact Hvs. }
  assert (N8 : forall j vj vj1, lc' <= j < T + 1 ->
                 In (j, vj) ((T + 1, vn) :: sets) -> In (j + 1, vj1) ((T + 1, vn) :: sets) ->
                 ipp 1 vj = Some vj1).
  { intros j vj vj1 Hj Hin Hin1.
    destruct Hcase as [(Hlc & Hipp)|Hlc]; [|lia].
    destruct Hin as [E|Hin]; [injection E as E _; lia|].
    destruct Hin1 as [E|Hin1].
    - injection E as E <-. assert (j = T) by lia. subst j.
      rewrite (I6 _ _ _ Hin I4). exact Hipp.
    - pose proof (proj1 (I5 _ _ Hin1)). eapply I8; [|exact Hin|exact Hin1]. lia. }
  constructor; cbn [n_state n_db n_sets n_base]; rewrite ?HT'.
  - exact Hi'.
  - right. rewrite Hl'. exact Hbh.
  - fold lc'. destruct Hcase as [(Hlc & _)|Hlc]; lia.
  - left. reflexivity.
  - exact N5.
  - exact N6.
  - exact N7.
  - exact N8.
  - fold lc'. destruct Hcase as [(Hlc & _)|Hlc].
    + destruct I9 as (vs & Hin & Hfull). exists vs. rewrite Hlc.
      split; [right; exact Hin|]. apply full_at_mono; [|exact Hfull]. lia.
    + exists vn. rewrite Hlc. split; [left; reflexivity|].
      destruct Hvi as [(_ & Hset)|(Hlt & _)]; [|lia].
      exists (vi_last_changed vi). rewrite db_get_set_same. destruct vi; simpl in *; congruence.
  - intros h vs [E|Hin] Hrem.
    + injection E as <- <-. destruct Hvi as [(_ & Hset)|(_ & Hnz & _)]; [|congruence].
      exists (vi_last_changed vi). rewrite db_get_set_same. destruct vi; simpl in *; congruence.
    + apply full_at_mono; [eapply Hfresh; exact Hin|]. apply I10; assumption.
  - intros h vs [E|Hin].
    + injection E as <- <-. exists vi. split; [apply db_get_set_same|].
      destruct Hvi as [(_ & Hset)|(Hlt & Hnz & Hnone)]; [left; exact Hset|right].
      split; [exact Hnone|]. rewrite Hvlc.
      destruct Hcase as [(Hlc & Hipp)|Hlc]; [|lia].
      destruct (ptr_ls_bounds K (T + 1) lc' HK ltac:(lia) Hlt Hnz) as (Hb1 & Hb2 & Hb3).
      cbv zeta. set (ls := last_stored_height_for K (T + 1) lc') in *.
      split; [lia|]. split; [exact Hb2|].
      assert (Hls : exists vs0, In (ls, vs0) sets /\ full_at d ls vs0).
      { destruct Hb3 as [E|(Hgt & Hrem)].
        - rewrite E, Hlc. exact I9.
        - destruct (I7 ls) as [vs0 Hin0]; [lia|]. exists vs0. split; [exact Hin0|].
          apply I10; assumption. }
      destruct Hls as (vs0 & Hin0 & Hfull0). exists vs0.
      split; [right; exact Hin0|]. split; [apply full_at_mono; [lia|exact Hfull0]|].
      destruct (chain_iter ((T + 1, vn) :: sets) lc' (T + 1)
                  ltac:(intros; apply N7; lia) N8
                  (Z.to_nat (T + 1 - ls)) ls vs0) as (v & Hv & Hit);
        [lia|lia|right; exact Hin0|].
      rewrite Hit. f_equal. eapply N6; [exact Hv|].
      replace (ls + Z.of_nat (Z.to_nat (T + 1 - ls))) with (T + 1) by lia.
      left. reflexivity.
    + apply entry_ok_mono; [exact Hfresh|exact Hin|]. apply I11. exact Hin.
Qed.

Lemma update_state_spec : forall s ups s',
  update_state s ups = Some s' ->
  st_initial s' = st_initial s /\ st_last s' = block_height s /\ storable (st_next s') /\
  ((st_changed s' = st_changed s /\ ipp 1 (st_next s) = Some (st_next s')) \/
   st_changed s' = block_height s + 2).
Proof.
  intros s ups s' H. unfold update_state in H. destruct ups as [|u ups].
  - destruct (ipp 1 (st_next s)) as [nv'|] eqn:E; [|discriminate]. injection H as <-.
    cbn [st_initial st_last st_next st_changed].
    repeat split; try (eapply ipp_storable; exact E). left. split; reflexivity.
  - destruct (update (st_next s) (u :: ups)) as [nv|e]; [|discriminate].
    destruct (ipp 1 nv) as [nv'|] eqn:E; [|discriminate]. injection H as <-.
    cbn [st_initial st_last st_next st_changed].
    repeat split; try (eapply ipp_storable; exact E). right. lia.
Qed.

Lemma inv_block : forall K initial n ups,
  0 < K <= max_int32 -> 0 < initial ->
  StoreInv K initial n -> StoreInv K initial (step K n (OBlock ups)).
Proof.
  intros K initial [s d b sets] ups HK Hinit I. unfold step. cbn [n_state n_db n_sets n_base].
  destruct (update_state s ups) as [s'|] eqn:Eu; [|exact I].
  destruct (save K s' d) as [d'|] eqn:Es; [|exact I].
  apply update_state_spec in Eu. destruct Eu as (U1 & U2 & U3 & U4).
  assert (Hbh : initial <= block_height s).
  { pose proof (si_last _ _ _ I) as I2. cbn [n_state] in I2. unfold block_height.
    pose proof (si_initial _ _ _ I) as I1. cbn [n_state] in I1.
    destruct I2 as [E|E]; [rewrite E; simpl; lia|].
    destruct (st_last s =? 0) eqn:E0; [apply Z.eqb_eq in E0; lia|lia]. }
  unfold save in Es. rewrite U2 in Es.
  destruct (block_height s + 1 =? 1) eqn:E1; [apply Z.eqb_eq in E1; lia|].
  replace (block_height s + 1 + 1) with (block_height s + 2) in Es by lia.
  eapply inv_extend; try eassumption.
  rewrite U1. exact (si_initial _ _ _ I).
Qed.

Lemma new_validator_set_storable : forall valz vs,
  valz <> [] -> new_validator_set valz = Some vs -> storable vs.
Proof.
  intros valz vs Hne H. unfold new_validator_set in H.
  destruct (update_with_change_set (mkVS [] None) valz false) as [vs0|]; [|discriminate].
  destruct valz; [congruence|]. eapply ipp_storable; exact H.
Qed.

Lemma pair_inj : forall (A B : Type) (a c : A) (b d : B), (a, b) = (c, d) -> a = c /\ b = d.
Proof. intros A B a c b d H. injection H as -> ->. split; reflexivity. Qed.

Lemma inv_start : forall K valz initial n0,
  0 < K <= max_int32 -> 0 < initial ->
  start K valz initial = Some n0 -> StoreInv K initial n0.
Proof.
  intros K valz initial n0 HK Hinit H. unfold start in H.
  destruct (make_genesis valz initial) as [s|] eqn:Eg; [|discriminate].
  destruct (save K s []) as [d|] eqn:Es; [|discriminate]. injection H as <-.
  unfold make_genesis in Eg. destruct valz as [|v0 valz]; [discriminate|].
  destruct (new_validator_set (v0 :: valz)) as [vs|] eqn:Env; [|discriminate].
  destruct (ipp 1 vs) as [nx|] eqn:Eipp; [|discriminate]. injection Eg as <-.
  assert (Hvs : storable vs) by (eapply new_validator_set_storable; [|exact Env]; discriminate).
  assert (Hnx : storable nx) by (eapply ipp_storable; exact Eipp).
  unfold save in Es. cbn [st_initial st_last st_vals st_next st_changed] in *.
  change (0 + 1 =? 1) with true in Es. cbv iota in Es.
  destruct (save_validators_info K initial initial vs []) as [d1|] eqn:E1; [|discriminate].
  destruct (svi_spec _ _ _ _ _ _ Hvs E1) as (_ & vi1 & -> & Hlc1 & Hvi1).
  destruct (svi_spec _ _ _ _ _ _ Hnx Es) as (_ & vi2 & -> & Hlc2 & Hvi2).
  assert (Hset1 : vi_set vi1 = Some vs) by (destruct Hvi1 as [(_ & E)|(E & _)]; [exact E|lia]).
  assert (Hfull1 : full_at (db_set (initial + 1) vi2 (db_set initial vi1 [])) initial vs).
  { exists (vi_last_changed vi1). rewrite db_get_set_other by lia. rewrite db_get_set_same.
    destruct vi1; simpl in *; congruence. }
  assert (Htop : top_of (mkSt initial 0 vs nx initial) = initial + 1) by reflexivity.
  constructor; cbn [n_state n_db n_sets n_base st_initial st_last st_vals st_next st_changed];
    rewrite ?Htop.
  - reflexivity.
  - left. reflexivity.
  - lia.
  - left. reflexivity.
  - intros h x [E|[E|[]]]; injection E as <- <-; split; (lia || assumption).
  - intros h x x' [E|[E|[]]] [E'|[E'|[]]];
      apply pair_inj in E; apply pair_inj in E'; destruct E as [E0 <-]; destruct E' as [E0' <-];
      (reflexivity || lia).
  - intros h Hh. destruct (Z.eq_dec h initial) as [->|Hne].
    + exists vs. right. left. reflexivity.
    + assert (h = initial + 1) by lia. subst h. exists nx. left. reflexivity.
  - intros j vj vj1 Hj [E|[E|[]]] [E'|[E'|[]]];
      apply pair_inj in E; apply pair_inj in E'; destruct E as [E0 <-]; destruct E' as [E0' <-];
      try lia. exact Eipp.
  - exists vs. split; [right; left; reflexivity|exact Hfull1].
  - intros h x [E|[E|[]]] Hrem; injection E as <- <-.
    + destruct Hvi2 as [(_ & Hset)|(_ & Hnz & _)]; [|congruence].
      exists (vi_last_changed vi2). rewrite db_get_set_same. destruct vi2; simpl in *; congruence.
    + exact Hfull1.
  - intros h x [E|[E|[]]]; injection E as <- <-.
    + exists vi2. split; [apply db_get_set_same|].
      destruct Hvi2 as [(_ & Hset)|(Hlt & Hnz & Hnone)]; [left; exact Hset|right].
      split; [exact Hnone|]. rewrite Hlc2.
      destruct (ptr_ls_bounds K (initial + 1) initial HK ltac:(lia) Hlt Hnz) as (Hb1 & Hb2 & _).
      cbv zeta. set (ls := last_stored_height_for K (initial + 1) initial) in *.
      assert (Els : ls = initial) by lia. rewrite Els.
      split; [lia|]. split; [unfold max_int32; lia|]. exists vs.
      split; [right; left; reflexivity|]. split; [exact Hfull1|].
      replace (initial + 1 - initial) with 1 by lia. simpl. rewrite Eipp. reflexivity.
    + exists vi1. split; [rewrite db_get_set_other by lia; apply db_get_set_same|].
      left. exact Hset1.
Qed.

(* ------------------------------------------------------------------ main theorem (blocks) *)

Lemma inv_run_blocks : forall K initial ops n,
  0 < K <= max_int32 -> 0 < initial ->
  Forall (fun o => match o with OBlock _ => True | OPrune _ _ => False end) ops ->
  StoreInv K initial n -> StoreInv K initial (run K n ops).
Proof.
  intros K initial ops. induction ops as [|o ops IH]; intros n HK Hinit Hall I.
  - exact I.
  - unfold run. simpl. inversion Hall as [|o' ops' Ho Hops]; subst.
    destruct o as [ups|f t]; [|contradiction].
    apply IH; try assumption. apply inv_block; assumption.
Qed.

Theorem load_exact_blocks : forall K valz initial n0 ops,
  0 < K <= max_int32 -> 0 < initial ->
  start K valz initial = Some n0 ->
  Forall (fun o => match o with OBlock _ => True | OPrune _ _ => False end) ops ->
  let n := run K n0 ops in
  forall h vs, In (h, vs) (n_sets n) -> load_validators K (n_db n) h = LvOk vs.
Proof.
  intros K valz initial n0 ops HK Hinit Hstart Hall n h vs Hin.
  apply (inv_load K initial); [|exact Hin].
  apply inv_run_blocks; try assumption. apply (inv_start K valz); assumption.
Qed.

(* ------------------------------------------------------------------ non-vacuity of load_exact_blocks *)

Definition ex_valz : list validator := [mkVal [1%N] 10 0; mkVal [2%N] 20 0; mkVal [3%N] 30 0].
Definition ex_ops : list op :=
  [OBlock []; OBlock []; OBlock [mkVal [4%N] 5 0]; OBlock []; OBlock []; OBlock []; OBlock [];
   OBlock []; OBlock [mkVal [2%N] 0 0; mkVal [1%N] 15 0];
   OBlock [mkVal [9%N] 0 0] (* refused: removes an unknown validator *); OBlock []; OBlock []].
Definition is_ptr (d : db) (h : Z) : bool :=
  match db_get h d with
  | Some vi => match vi_set vi with None => true | Some _ => false end
  | None => false
  end.

(* K = 4, initial height 3, eleven accepted blocks (two with updates, one block refused):
   thirteen recorded heights 3..15, eight of them pointer entries, all read back exactly *)
Example load_exact_blocks_nonvacuous :
  exists n0, start 4 ex_valz 3 = Some n0 /\
    Forall (fun o => match o with OBlock _ => True | OPrune _ _ => False end) ex_ops /\
    let n := run 4 n0 ex_ops in
    map fst (n_sets n) = [15; 14; 13; 12; 11; 10; 9; 8; 7; 6; 5; 4; 3] /\
    map (fun hv => is_ptr (n_db n) (fst hv)) (n_sets n) =
      [true; true; false; false; true; true; true; false; false; true; true; false; false] /\
    map (fun hv => length (vs_vals (snd hv))) (n_sets n) =
      [3; 3; 3; 4; 4; 4; 4; 4; 4; 3; 3; 3; 3]%nat /\
    map (fun hv => load_validators 4 (n_db n) (fst hv)) (n_sets n) =
      map (fun hv => LvOk (snd hv)) (n_sets n).
Proof.
  eexists. split; [vm_compute; reflexivity|].
  split; [repeat constructor|]. vm_compute. repeat split; reflexivity.
Qed.

(* ------------------------------------------------------------------ the unrepaired replay *)

(* the set in force one height after a 3-validator genesis (powers 1000, 2, 10) lost its big
   validator and gained a small one: IncrementProposerPriority(2) is not two
   IncrementProposerPriority(1) *)
Definition rf_valz : list validator := [mkVal [1%N] 1000 0; mkVal [2%N] 2 0; mkVal [3%N] 10 0].
Definition rf_ops : list op :=
  [OBlock [mkVal [1%N] 0 0; mkVal [4%N] 1 0]; OBlock []; OBlock []; OBlock []].
Definition rf_set : valset :=
  mkVS [mkVal [3%N] 10 6; mkVal [2%N] 2 11; mkVal [4%N] 1 (-15)] (Some (mkVal [3%N] 10 6)).

Lemma replay_differs : exists vs k, replay_unfixed k vs <> replay k vs.
Proof. exists rf_set, 2. vm_compute. intro H. discriminate H. Qed.

(* the same on a node: the store holds height 3 in full (rf_set), 4, 5 and 6 as pointers; the
   repaired LoadValidators returns the recorded sets, the unrepaired one a different set at 5
   and at 6 (at 5 even a different proposer) *)
Example load_unfixed_refuted :
  exists n0, start 100 rf_valz 1 = Some n0 /\
    let n := run 100 n0 rf_ops in
    exists vs4 vs5 vs6 w5 w6,
      firstn 4 (n_sets n) = [(6, vs6); (5, vs5); (4, vs4); (3, rf_set)] /\
      map (is_ptr (n_db n)) [3; 4; 5; 6] = [false; true; true; true] /\
      load_validators 100 (n_db n) 5 = LvOk vs5 /\
      load_validators 100 (n_db n) 6 = LvOk vs6 /\
      load_validators_unfixed 100 (n_db n) 4 = LvOk vs4 /\
      load_validators_unfixed 100 (n_db n) 5 = LvOk w5 /\
      load_validators_unfixed 100 (n_db n) 6 = LvOk w6 /\
      w5 <> vs5 /\ w6 <> vs6 /\
      option_map v_addr (vs_prop w5) = Some [2%N] /\
      option_map v_addr (vs_prop vs5) = Some [3%N].
Proof.
  eexists. split; [vm_compute; reflexivity|]. cbv zeta.
  do 5 eexists. vm_compute.
  repeat (split; [reflexivity|]).
  split; [intro H; discriminate H|]. split; [intro H; discriminate H|].
  split; reflexivity.
Qed.

(* ================================================================== PruneStates *)

Definition bop_key (o : bop) : Z := match o with BSet h _ => h | BDel h => h end.

Lemma db_get_del_same : forall h d, db_get h (db_del h d) = None.
Proof.
  intros h d. induction d as [|[k v] r IH]; [reflexivity|].
  unfold db_del in *. simpl. destruct (k =? h) eqn:E; simpl; [exact IH|].
  rewrite E. exact IH.
Qed.

Lemma db_get_del_other : forall x h d, x <> h -> db_get x (db_del h d) = db_get x d.
Proof.
  intros x h d Hne. induction d as [|[k v] r IH]; [reflexivity|].
  unfold db_del in *. simpl. destruct (k =? h) eqn:E; simpl.
  - apply Z.eqb_eq in E. destruct (k =? x) eqn:E2; [apply Z.eqb_eq in E2; lia|exact IH].
  - destruct (k =? x); [reflexivity|exact IH].
Qed.

Lemma db_get_apply_other : forall x d o, bop_key o <> x -> db_get x (apply_bop d o) = db_get x d.
Proof.
  intros x d [h v|h] Hne; simpl in *.
  - apply db_get_set_other. lia.
  - apply db_get_del_other. lia.
Qed.

Lemma db_get_flush_other : forall x b d,
  (forall o, In o b -> bop_key o <> x) -> db_get x (flush d b) = db_get x d.
Proof.
  intros x b. induction b as [|o b IH]; intros d H; [reflexivity|].
  unfold flush in *. simpl. rewrite IH by (intros; apply H; right; assumption).
  apply db_get_apply_other. apply H. left. reflexivity.
Qed.

Lemma flush_snoc : forall d b o, flush d (b ++ [o]) = apply_bop (flush d b) o.
Proof. intros. unfold flush. rewrite fold_left_app. reflexivity. Qed.

Lemma from_proto_ok : forall p vs, from_proto p = LvOk vs -> vs = p /\ storable p.
Proof.
  intros [l q] vs H. unfold from_proto in H. simpl in H.
  destruct q as [q0|]; [|discriminate].
  destruct (total_power l) eqn:Et; [|discriminate].
  destruct l as [|v r]; [discriminate|]. injection H as <-.
  split; [reflexivity|]. repeat split; simpl; congruence.
Qed.

Lemma load_ok_storable : forall K d h vs, load_validators K d h = LvOk vs -> storable vs.
Proof.
  intros K d h vs H. unfold load_validators, load_validators_with in H.
  destruct (db_get h d) as [vi|]; [|discriminate].
  destruct (vi_set vi) as [p|].
  - apply from_proto_ok in H. destruct H as [-> H]. exact H.
  - destruct (db_get _ d) as [vi2|]; [|discriminate].
    destruct (vi_set vi2) as [p2|]; [|discriminate].
    destruct (from_proto p2) as [v| | |]; try discriminate.
    destruct (replay _ v) as [v'|]; [|discriminate].
    destruct (to_proto v') as [p'|]; [|discriminate].
    apply from_proto_ok in H. destruct H as [-> H]. exact H.
Qed.

Definition agree_le (h : Z) (d1 d2 : db) : Prop := forall y, y <= h -> db_get y d1 = db_get y d2.

Definition prune_next (K : Z) (n' : nat) (h : Z) (keep : list Z) (d : db) (pruned : Z)
  (b : list bop) : option db :=
  if Z.rem (pruned + 1) 1000 =? 0
  then prune_loop K n' (h - 1) keep (flush d b) [] (pruned + 1)
  else prune_loop K n' (h - 1) keep d b (pruned + 1).

Lemma prune_loop_S : forall K n' h keep d batch pruned,
  prune_loop K (S n') h keep d batch pruned =
  if existsb (Z.eqb h) keep
  then match db_get h d with
       | Some v =>
         match vi_set v with
         | Some _ => prune_next K n' h keep d pruned batch
         | None =>
           match load_validators K d h with
           | LvOk vs => match to_proto vs with
                        | None => None
                        | Some p => prune_next K n' h keep d pruned
                                      (batch ++ [BSet h (mkVI h (Some p))])
                        end
           | _ => None
           end
         end
       | None => None
       end
  else prune_next K n' h keep d pruned (batch ++ [BDel h]).
Proof. reflexivity. Qed.

(* what one entry looks like after the loop *)
Definition pruned_entry (K : Z) (keep : list Z) (d0 d' : db) (x : Z) : Prop :=
  (existsb (Z.eqb x) keep = false /\ db_get x d' = None) \/
  (existsb (Z.eqb x) keep = true /\ exists v, db_get x d0 = Some v /\
     ((vi_set v <> None /\ db_get x d' = Some v) \/
      (vi_set v = None /\ exists dx vs, agree_le x dx d0 /\ load_validators K dx x = LvOk vs /\
                                        db_get x d' = Some (mkVI x (Some vs))))).

Lemma prune_loop_spec : forall K keep d0 n h d batch pruned d',
  (forall o, In o batch -> h < bop_key o) ->
  agree_le h d d0 ->
  prune_loop K n h keep d batch pruned = Some d' ->
  forall x,
    ((h < x \/ x <= h - Z.of_nat n) -> db_get x d' = db_get x (flush d batch)) /\
    (h - Z.of_nat n < x <= h -> pruned_entry K keep d0 d' x).
Proof.
  intros K keep d0. induction n as [|n IH]; intros h d batch pruned d' Hb Hag H x.
  - simpl in H. injection H as <-. split; [reflexivity|lia].
  - rewrite prune_loop_S in H.
    (* the common continuation *)
    assert (Hnext : forall b, (forall o, In o b -> h - 1 < bop_key o) ->
              prune_next K n h keep d pruned b = Some d' ->
              ((h - 1 < x \/ x <= h - 1 - Z.of_nat n) -> db_get x d' = db_get x (flush d b)) /\
              (h - 1 - Z.of_nat n < x <= h - 1 -> pruned_entry K keep d0 d' x)).
    { intros b Hkb Hn. unfold prune_next in Hn.
      destruct (Z.rem (pruned + 1) 1000 =? 0).
      - apply (IH _ _ _ _ _) with (x := x) in Hn.
        + exact Hn.
        + intros o [].
        + intros y Hy. rewrite db_get_flush_other.
          * apply Hag. lia.
          * intros o Ho. apply Hkb in Ho. lia.
      - apply (IH _ _ _ _ _) with (x := x) in Hn.
        + exact Hn.
        + exact Hkb.
        + intros y Hy. apply Hag. lia. }
    assert (Hbget : db_get h (flush d batch) = db_get h d0).
    { rewrite db_get_flush_other; [apply Hag; lia|]. intros o Ho. apply Hb in Ho. lia. }
    replace (h - Z.of_nat (S n)) with (h - 1 - Z.of_nat n) by lia.
    destruct (existsb (Z.eqb h) keep) eqn:Ek.
    + destruct (db_get h d) as [v|] eqn:Eg; [|discriminate].
      destruct (vi_set v) as [p0|] eqn:Ev.
      * apply Hnext in H; [|intros o Ho; apply Hb in Ho; lia]. destruct H as [H1 H2].
        split.
        -- intros Hx. apply H1. lia.
        -- intros Hx. destruct (Z.eq_dec x h) as [->|Hne]; [|apply H2; lia].
           right. split; [exact Ek|]. exists v. rewrite <- Hag by lia. split; [exact Eg|].
           left. split; [congruence|]. rewrite H1 by lia. rewrite Hbget, <- Hag by lia. exact Eg.
      * destruct (load_validators K d h) as [vs| | |] eqn:El; try discriminate.
        rewrite (to_proto_storable vs) in H by (eapply load_ok_storable; exact El).
        apply Hnext in H.
        2:{ intros o Ho. apply in_app_or in Ho. destruct Ho as [Ho|[<-|[]]];
              [apply Hb in Ho; lia|simpl; lia]. }
        destruct H as [H1 H2]. rewrite flush_snoc in H1. split.
        -- intros Hx. rewrite H1 by lia. apply db_get_apply_other. simpl. lia.
        -- intros Hx. destruct (Z.eq_dec x h) as [->|Hne]; [|apply H2; lia].
           right. split; [exact Ek|]. exists v. rewrite <- Hag by lia. split; [exact Eg|].
           right. split; [exact Ev|]. exists d, vs. split; [exact Hag|]. split; [exact El|].
           rewrite H1 by lia. simpl. apply db_get_set_same.
    + apply Hnext in H.
      2:{ intros o Ho. apply in_app_or in Ho. destruct Ho as [Ho|[<-|[]]];
            [apply Hb in Ho; lia|simpl; lia]. }
      destruct H as [H1 H2]. rewrite flush_snoc in H1. split.
      * intros Hx. rewrite H1 by lia. apply db_get_apply_other. simpl. lia.
      * intros Hx. destruct (Z.eq_dec x h) as [->|Hne]; [|apply H2; lia].
        left. split; [exact Ek|]. rewrite H1 by lia. simpl. apply db_get_del_same.
Qed.

Lemma prune_states_spec : forall K d from to d',
  prune_states K d from to = Some d' ->
  0 < from < to /\ exists vi, db_get to d = Some vi /\
    forall x, ((x < from \/ to <= x) -> db_get x d' = db_get x d) /\
              (from <= x < to ->
               pruned_entry K (match vi_set vi with
                               | None => [vi_last_changed vi;
                                          last_stored_height_for K to (vi_last_changed vi)]
                               | Some _ => []
                               end) d d' x).
Proof.
  intros K d from to d' H. unfold prune_states in H.
  destruct (from <=? 0) eqn:E1; [discriminate|]. destruct (to <=? 0) eqn:E2; [discriminate|].
  simpl in H. destruct (from >=? to) eqn:E3; [discriminate|].
  apply Z.leb_gt in E1. apply Z.leb_gt in E2.
  assert (from < to) by (destruct (Z.geb_spec from to); [discriminate|lia]).
  split; [lia|]. destruct (db_get to d) as [vi|]; [|discriminate].
  exists vi. split; [reflexivity|]. intros x.
  eapply prune_loop_spec with (d0 := d) (x := x) in H.
  - destruct H as [H1 H2]. split.
    + intros Hx. apply H1. lia.
    + intros Hx. apply H2. lia.
  - intros o [].
  - intros y _. reflexivity.
Qed.

(* everything outside [from, to) is left as it was *)
Lemma prune_states_outside : forall K d from to d' x,
  prune_states K d from to = Some d' -> x < from \/ to <= x -> db_get x d' = db_get x d.
Proof.
  intros K d from to d' x H Hx. apply prune_states_spec in H.
  destruct H as (_ & vi & _ & H). apply (proj1 (H x)). exact Hx.
Qed.

(* checkpoint arithmetic *)
Lemma cp_succ : forall K h, 0 < K -> 0 < h -> Z.rem (h + 1) K <> 0 ->
  h + 1 - Z.rem (h + 1) K = h - Z.rem h K.
Proof.
  intros K h HK Hh Hnz.
  pose proof (Z.quot_rem' h K) as E. pose proof (rem_range h K Hh HK) as Hr.
  destruct (Z.eq_dec (Z.rem h K + 1) K) as [Eq|Ne].
  - exfalso. apply Hnz. replace (h + 1) with ((Z.quot h K + 1) * K) by lia.
    apply Z.rem_mul. lia.
  - assert (Z.rem h K + 1 = Z.rem (h + 1) K).
    { apply (Z.rem_unique (h + 1) K (Z.quot h K)); lia. }
    lia.
Qed.

Lemma cp_same : forall K t h, 0 < K -> 0 < t <= h -> h - Z.rem h K <= t ->
  t - Z.rem t K = h - Z.rem h K.
Proof.
  intros K t h HK Ht Hle.
  pose proof (Z.quot_rem' h K) as E. pose proof (rem_range h K ltac:(lia) HK) as Hr.
  assert (t - K * Z.quot h K = Z.rem t K).
  { apply (Z.rem_unique t K (Z.quot h K)); lia. }
  lia.
Qed.

Lemma ipp1_iter_snoc : forall k a b c,
  ipp1_iter k a = Some b -> ipp 1 b = Some c -> ipp1_iter (S k) a = Some c.
Proof.
  induction k as [|k IH]; intros a b c H1 H2.
  - simpl in H1. injection H1 as ->. simpl. rewrite H2. reflexivity.
  - simpl in H1. destruct (ipp 1 a) as [a'|] eqn:E; [|discriminate].
    change (ipp1_iter (S (S k)) a) with
      (match ipp 1 a with Some vs' => ipp1_iter (S k) vs' | None => None end).
    rewrite E. eapply IH; eassumption.
Qed.

(* ------------------------------------------------------------------ invariant with a base *)

Definition entry_ok2 (K : Z) (d : db) (sets : list (Z * valset)) (h : Z) (vs : valset) : Prop :=
  exists vi, db_get h d = Some vi /\
    ((vi_set vi = Some vs /\ (h = vi_last_changed vi \/ Z.rem h K = 0)) \/
     (vi_set vi = None /\ vi_last_changed vi < h /\ Z.rem h K <> 0 /\
      exists vs0,
        In (last_stored_height_for K h (vi_last_changed vi), vs0) sets /\
        full_at d (last_stored_height_for K h (vi_last_changed vi)) vs0 /\
        ipp1_iter (Z.to_nat (h - last_stored_height_for K h (vi_last_changed vi))) vs0
          = Some vs)).

Lemma entry_ok2_ok : forall K d sets h vs,
  0 < K <= max_int32 -> 0 < h -> entry_ok2 K d sets h vs -> entry_ok K d sets h vs.
Proof.
  intros K d sets h vs HK Hh (vi & Hget & Hcase). exists vi. split; [exact Hget|].
  destruct Hcase as [(Hs & _)|(Hn & Hlt & Hnz & vs0 & Hin & Hfull & Hit)]; [left; exact Hs|right].
  split; [exact Hn|]. cbv zeta.
  destruct (ptr_ls_bounds K h _ HK Hh Hlt Hnz) as (Hb1 & Hb2 & _).
  split; [lia|]. split; [exact Hb2|]. exists vs0. tauto.
Qed.

Lemma entry_ok2_mono : forall K d sets x v vx h vs,
  (forall y vy, In (y, vy) sets -> y <> x) -> In (h, vs) sets ->
  entry_ok2 K d sets h vs -> entry_ok2 K (db_set x v d) ((x, vx) :: sets) h vs.
Proof.
  intros K d sets x v vx h vs Hfresh Hin (vi & Hget & Hcase).
  exists vi. split; [rewrite db_get_set_other; [exact Hget|eapply Hfresh; exact Hin]|].
  destruct Hcase as [Hf|(Hn & Hlt & Hnz & vs0 & Hin0 & Hfull & Hit)]; [left; exact Hf|right].
  split; [exact Hn|]. split; [exact Hlt|]. split; [exact Hnz|]. exists vs0.
  split; [right; exact Hin0|]. split; [|exact Hit].
  apply full_at_mono; [eapply Hfresh; exact Hin0|exact Hfull].
Qed.

Record PInv (K initial : Z) (n : node) : Prop := {
  p_initial : st_initial (n_state n) = initial;
  p_last : st_last (n_state n) = 0 \/ initial <= st_last (n_state n);
  p_lc : st_changed (n_state n) <= top_of (n_state n);
  p_top : In (top_of (n_state n), st_next (n_state n)) (n_sets n);
  p_range : forall h vs, In (h, vs) (n_sets n) ->
              initial <= h <= top_of (n_state n) /\ storable vs;
  p_total : forall h, initial <= h <= top_of (n_state n) -> exists vs, In (h, vs) (n_sets n);
  p_base : initial <= n_base n <= top_of (n_state n);
  p_keys : forall x vi, db_get x (n_db n) = Some vi -> x <= top_of (n_state n);
  p_T : exists vi, db_get (top_of (n_state n)) (n_db n) = Some vi /\
                   vi_last_changed vi = st_changed (n_state n);
  p_M : forall h1 h2 vi1 vi2, n_base n <= h1 -> h1 <= h2 ->
          db_get h1 (n_db n) = Some vi1 -> db_get h2 (n_db n) = Some vi2 ->
          vi_last_changed vi1 <= h1 /\ vi_last_changed vi1 <= vi_last_changed vi2 /\
          (vi_last_changed vi2 = vi_last_changed vi1 \/ h1 < vi_last_changed vi2);
  p_entries : forall h vs, In (h, vs) (n_sets n) -> n_base n <= h ->
                entry_ok2 K (n_db n) (n_sets n) h vs
}.

Lemma pinv_load : forall K initial n h vs,
  0 < K <= max_int32 -> 0 < initial ->
  PInv K initial n -> In (h, vs) (n_sets n) -> n_base n <= h ->
  load_validators K (n_db n) h = LvOk vs.
Proof.
  intros K initial n h vs HK Hinit I Hin Hb.
  eapply entry_ok_load; [|exact Hin|].
  - intros h' vs' H'. apply (p_range _ _ _ I) in H'. tauto.
  - apply entry_ok2_ok; [exact HK| |apply (p_entries _ _ _ I); assumption].
    apply (p_range _ _ _ I) in Hin. lia.
Qed.

Lemma pinv_extend : forall K initial s d b sets s' d',
  0 < K <= max_int32 -> 0 < initial ->
  PInv K initial (mkNode s d b sets) ->
  st_initial s' = initial -> st_last s' = block_height s -> storable (st_next s') ->
  ((st_changed s' = st_changed s /\ ipp 1 (st_next s) = Some (st_next s')) \/
   st_changed s' = block_height s + 2) ->
  save_validators_info K (block_height s + 2) (st_changed s') (st_next s') d = Some d' ->
  PInv K initial (mkNode s' d' b ((st_last s' + 2, st_next s') :: sets)).
Proof.
  intros K initial s d b sets s' d' HK Hinit I Hi' Hl' Hst' Hcase Hsave.
  destruct I as [I1 I2 I3 I4 I5 I7 IB IK IT IM I11].
  cbn [n_state n_db n_sets n_base] in *.
  set (T := top_of s) in *.
  assert (HT : block_height s + 2 = T + 1 /\ initial <= block_height s).
  { unfold T, top_of, block_height. destruct I2 as [E|E].
    - rewrite E. simpl. lia.
    - destruct (st_last s =? 0) eqn:E0; [apply Z.eqb_eq in E0; lia|lia]. }
  destruct HT as [HT Hbh].
  assert (HT' : top_of s' = T + 1).
  { unfold top_of. rewrite Hl'. destruct (block_height s =? 0) eqn:E0;
      [apply Z.eqb_eq in E0; lia|lia]. }
  assert (Hhd : st_last s' + 2 = T + 1) by (rewrite Hl'; exact HT).
  rewrite HT in *. rewrite Hhd.
  set (vn := st_next s') in *. set (lc' := st_changed s') in *. set (LC := st_changed s) in *.
  assert (Hfresh : forall y vy, In (y, vy) sets -> y <> T + 1).
  { intros y vy Hy. apply I5 in Hy. lia. }
  destruct (svi_spec _ _ _ _ _ _ Hst' Hsave) as (Hlcle & vi & -> & Hvlc & Hvi).
  destruct IT as (vit & Hgt & Hlct).
  constructor; cbn [n_state n_db n_sets n_base]; rewrite ?HT'.
  - exact Hi'.
  - right. rewrite Hl'. exact Hbh.
  - exact Hlcle.
  - left. reflexivity.
  - intros h vs [E|Hin].
    + injection E as <- <-. split; [lia|exact Hst'].
    + apply I5 in Hin. split; [lia|tauto].
  - intros h Hh. destruct (Z.eq_dec h (T + 1)) as [->|Hne].
    + exists vn. left. reflexivity.
    + destruct (I7 h) as [vs Hvs]; [lia|]. exists vs. right. exact Hvs.
  - lia.
  - intros x vi0 Hg. destruct (Z.eq_dec x (T + 1)) as [->|Hne]; [lia|].
    rewrite db_get_set_other in Hg by exact Hne. apply IK in Hg. lia.
  - exists vi. split; [apply db_get_set_same|exact Hvlc].
  - intros h1 h2 vi1 vi2 Hb Hle G1 G2.
    destruct (Z.eq_dec h1 (T + 1)) as [E1|N1]; destruct (Z.eq_dec h2 (T + 1)) as [E2|N2].
    + subst h1 h2. rewrite db_get_set_same in G1, G2. injection G1 as <-. injection G2 as <-.
      rewrite Hvlc. split; [exact Hlcle|]. split; [lia|left; reflexivity].
    + rewrite db_get_set_other in G2 by exact N2. apply IK in G2. lia.
    + subst h2. rewrite db_get_set_same in G2. injection G2 as <-.
      rewrite db_get_set_other in G1 by exact N1.
      pose proof (IK _ _ G1) as Hk1.
      destruct (IM h1 T vi1 vit Hb Hk1 G1 Hgt) as (M1 & M2 & M3).
      rewrite Hvlc. rewrite Hlct in M2, M3.
      destruct Hcase as [(Hlc & _)|Hlc]; [rewrite Hlc; tauto|lia].
    + rewrite db_get_set_other in G1 by exact N1. rewrite db_get_set_other in G2 by exact N2.
      eapply IM; eassumption.
  - intros h vs [E|Hin] Hb.
    + injection E as <- <-. exists vi. split; [apply db_get_set_same|]. rewrite Hvlc.
      destruct Hvi as [(Hc & Hset)|(Hlt & Hnz & Hnone)].
      { left. split; [exact Hset|exact Hc]. }
      right. split; [exact Hnone|]. split; [exact Hlt|]. split; [exact Hnz|].
      destruct Hcase as [(Hlc & Hipp)|Hlc]; [|lia]. rewrite Hlc.
      assert (Els : last_stored_height_for K (T + 1) LC = last_stored_height_for K T LC).
      { unfold last_stored_height_for. rewrite cp_succ; [reflexivity|lia|lia|exact Hnz]. }
      rewrite Els.
      destruct (I11 T (st_next s) I4 ltac:(lia)) as (vit' & Hgt' & Hc').
      rewrite Hgt in Hgt'. injection Hgt' as <-. rewrite Hlct in Hc'.
      destruct Hc' as [(Hs & Hwhy)|(Hn & Hlt0 & Hnz0 & vs0 & Hin0 & Hf0 & Hit0)].
      * assert (Et : last_stored_height_for K T LC = T).
        { unfold last_stored_height_for. pose proof (rem_range T K ltac:(lia) ltac:(lia)). lia. }
        rewrite Et. exists (st_next s). split; [right; exact I4|].
        split.
        -- apply full_at_mono; [lia|]. exists (vi_last_changed vit). rewrite Hgt.
           destruct vit; simpl in *; congruence.
        -- replace (T + 1 - T) with 1 by lia. simpl. rewrite Hipp. reflexivity.
      * destruct (ptr_ls_bounds K T LC HK ltac:(lia) Hlt0 Hnz0) as (Hb1 & _).
        exists vs0. split; [right; exact Hin0|]. split.
        -- apply full_at_mono; [lia|exact Hf0].
        -- replace (Z.to_nat (T + 1 - last_stored_height_for K T LC))
             with (S (Z.to_nat (T - last_stored_height_for K T LC))) by lia.
           eapply ipp1_iter_snoc; eassumption.
    + apply entry_ok2_mono; [exact Hfresh|exact Hin|]. apply I11; assumption.
Qed.

Lemma pinv_block : forall K initial n ups,
  0 < K <= max_int32 -> 0 < initial ->
  PInv K initial n -> PInv K initial (step K n (OBlock ups)).
Proof.
  intros K initial [s d b sets] ups HK Hinit I. unfold step. cbn [n_state n_db n_sets n_base].
  destruct (update_state s ups) as [s'|] eqn:Eu; [|exact I].
  destruct (save K s' d) as [d'|] eqn:Es; [|exact I].
  apply update_state_spec in Eu. destruct Eu as (U1 & U2 & U3 & U4).
  assert (Hbh : initial <= block_height s).
  { pose proof (p_last _ _ _ I) as I2. cbn [n_state] in I2. unfold block_height.
    pose proof (p_initial _ _ _ I) as I1. cbn [n_state] in I1.
    destruct I2 as [E|E]; [rewrite E; simpl; lia|].
    destruct (st_last s =? 0) eqn:E0; [apply Z.eqb_eq in E0; lia|lia]. }
  unfold save in Es. rewrite U2 in Es.
  destruct (block_height s + 1 =? 1) eqn:E1; [apply Z.eqb_eq in E1; lia|].
  replace (block_height s + 1 + 1) with (block_height s + 2) in Es by lia.
  eapply pinv_extend; try eassumption.
  rewrite U1. exact (p_initial _ _ _ I).
Qed.

Lemma pinv_start : forall K valz initial n0,
  0 < K <= max_int32 -> 0 < initial ->
  start K valz initial = Some n0 -> PInv K initial n0.
Proof.
  intros K valz initial n0 HK Hinit H. unfold start in H.
  destruct (make_genesis valz initial) as [s|] eqn:Eg; [|discriminate].
  destruct (save K s []) as [d|] eqn:Es; [|discriminate]. injection H as <-.
  unfold make_genesis in Eg. destruct valz as [|v0 valz]; [discriminate|].
  destruct (new_validator_set (v0 :: valz)) as [vs|] eqn:Env; [|discriminate].
  destruct (ipp 1 vs) as [nx|] eqn:Eipp; [|discriminate]. injection Eg as <-.
  assert (Hvs : storable vs) by (eapply new_validator_set_storable; [|exact Env]; discriminate).
  assert (Hnx : storable nx) by (eapply ipp_storable; exact Eipp).
  unfold save in Es. cbn [st_initial st_last st_vals st_next st_changed] in *.
  change (0 + 1 =? 1) with true in Es. cbv iota in Es.
  destruct (save_validators_info K initial initial vs []) as [d1|] eqn:E1; [|discriminate].
  destruct (svi_spec _ _ _ _ _ _ Hvs E1) as (_ & vi1 & -> & Hlc1 & Hvi1).
  destruct (svi_spec _ _ _ _ _ _ Hnx Es) as (_ & vi2 & -> & Hlc2 & Hvi2).
  assert (Hset1 : vi_set vi1 = Some vs) by (destruct Hvi1 as [(_ & E)|(E & _)]; [exact E|lia]).
  assert (Hfull1 : full_at (db_set (initial + 1) vi2 (db_set initial vi1 [])) initial vs).
  { exists (vi_last_changed vi1). rewrite db_get_set_other by lia. rewrite db_get_set_same.
    destruct vi1; simpl in *; congruence. }
  assert (Hkeys : forall x vi0, db_get x (db_set (initial + 1) vi2 (db_set initial vi1 [])) = Some vi0 ->
                    (x = initial \/ x = initial + 1) /\ vi_last_changed vi0 = initial).
  { intros x vi0 Hg. destruct (Z.eq_dec x (initial + 1)) as [->|N1].
    - rewrite db_get_set_same in Hg. injection Hg as <-. split; [right; reflexivity|exact Hlc2].
    - rewrite db_get_set_other in Hg by exact N1.
      destruct (Z.eq_dec x initial) as [->|N2].
      + rewrite db_get_set_same in Hg. injection Hg as <-. split; [left; reflexivity|exact Hlc1].
      + rewrite db_get_set_other in Hg by exact N2. discriminate. }
  assert (Htop : top_of (mkSt initial 0 vs nx initial) = initial + 1) by reflexivity.
  constructor; cbn [n_state n_db n_sets n_base st_initial st_last st_vals st_next st_changed];
    rewrite ?Htop.
  - reflexivity.
  - left. reflexivity.
  - lia.
  - left. reflexivity.
  - intros h x [E|[E|[]]]; injection E as <- <-; split; (lia || assumption).
  - intros h Hh. destruct (Z.eq_dec h initial) as [->|Hne].
    + exists vs. right. left. reflexivity.
    + assert (h = initial + 1) by lia. subst h. exists nx. left. reflexivity.
  - lia.
  - intros x vi0 Hg. apply Hkeys in Hg. lia.
  - exists vi2. split; [apply db_get_set_same|exact Hlc2].
  - intros h1 h2 vi1' vi2' Hb Hle G1 G2. apply Hkeys in G1. apply Hkeys in G2.
    destruct G1 as [_ ->]. destruct G2 as [_ ->]. split; [lia|]. split; [lia|left; reflexivity].
  - intros h x [E|[E|[]]] Hb; injection E as <- <-.
    + exists vi2. split; [apply db_get_set_same|]. rewrite Hlc2.
      destruct Hvi2 as [(Hc & Hset)|(Hlt & Hnz & Hnone)]; [left; split; assumption|right].
      split; [exact Hnone|]. split; [exact Hlt|]. split; [exact Hnz|].
      destruct (ptr_ls_bounds K (initial + 1) initial HK ltac:(lia) Hlt Hnz) as (Hb1 & Hb2 & _).
      set (ls := last_stored_height_for K (initial + 1) initial) in *.
      assert (Els : ls = initial) by lia. rewrite Els. exists vs.
      split; [right; left; reflexivity|]. split; [exact Hfull1|].
      replace (initial + 1 - initial) with 1 by lia. simpl. rewrite Eipp. reflexivity.
    + exists vi1. split; [rewrite db_get_set_other by lia; apply db_get_set_same|].
      left. split; [exact Hset1|left; symmetry; exact Hlc1].
Qed.

Lemma pinv_prune : forall K initial n from to,
  0 < K <= max_int32 -> 0 < initial ->
  PInv K initial n -> n_base n <= to -> PInv K initial (step K n (OPrune from to)).
Proof.
  intros K initial [s d b sets] from to HK Hinit I Hbt. unfold step.
  cbn [n_state n_db n_sets n_base] in *.
  destruct (prune_states K d from to) as [d'|] eqn:Ep; [|exact I].
  apply prune_states_spec in Ep. destruct Ep as (Hft & vit & Hgto & Hspec).
  destruct I as [I1 I2 I3 I4 I5 I7 IB IK IT IM I11].
  cbn [n_state n_db n_sets n_base] in *.
  set (T := top_of s) in *.
  pose proof (IK _ _ Hgto) as HtoT.
  replace (Z.max b to) with to by lia.
  assert (Hout : forall x, to <= x -> db_get x d' = db_get x d).
  { intros x Hx. apply (proj1 (Hspec x)). right. exact Hx. }
  constructor; cbn [n_state n_db n_sets n_base]; fold T; try assumption.
  - lia.
  - intros x vi0 Hg. destruct (Z_lt_dec x to) as [Hlt|Hge]; [lia|].
    rewrite Hout in Hg by lia. eapply IK; exact Hg.
  - destruct IT as (vi & Hg & Hl). exists vi. split; [rewrite Hout by lia; exact Hg|exact Hl].
  - intros h1 h2 vi1 vi2 Hb Hle G1 G2. rewrite Hout in G1 by lia. rewrite Hout in G2 by lia.
    eapply IM; [|exact Hle|exact G1|exact G2]. lia.
  - intros h vs Hin Hb.
    destruct (I11 h vs Hin ltac:(lia)) as (vi & Hg & Hc).
    exists vi. split; [rewrite Hout by lia; exact Hg|].
    destruct Hc as [Hf|(Hn & Hlt & Hnz & vs0 & Hin0 & Hf0 & Hit)]; [left; exact Hf|right].
    split; [exact Hn|]. split; [exact Hlt|]. split; [exact Hnz|]. exists vs0.
    split; [exact Hin0|]. split; [|exact Hit].
    set (ls := last_stored_height_for K h (vi_last_changed vi)) in *.
    destruct Hf0 as (lc0 & Hgl). exists lc0.
    destruct (Z_lt_dec ls from) as [Hlo|Hlo];
      [rewrite (proj1 (Hspec ls)) by (left; exact Hlo); exact Hgl|].
    destruct (Z_le_dec to ls) as [Hhi|Hhi]; [rewrite Hout by exact Hhi; exact Hgl|].
    (* from <= ls < to: ls is the last-stored height of [to], which is kept *)
    pose proof (proj2 (Hspec ls) ltac:(lia)) as Hpe.
    destruct (I7 to ltac:(lia)) as (vto & Hinto).
    destruct (I11 to vto Hinto Hbt) as (vit' & Hg' & Hc').
    rewrite Hgto in Hg'. injection Hg' as <-.
    destruct (IM to h vit vi Hbt Hb Hgto Hg) as (M1 & M2 & M3).
    assert (Hls : ls = Z.max (h - Z.rem h K) (vi_last_changed vi)) by reflexivity.
    assert (Elc : vi_last_changed vi = vi_last_changed vit) by lia.
    assert (Ecp : to - Z.rem to K = h - Z.rem h K) by (apply cp_same; lia).
    pose proof (rem_range to K ltac:(lia) ltac:(lia)) as Hrt.
    destruct Hc' as [(_ & [Hw|Hw])|(Hn' & _)]; [lia|lia|].
    rewrite Hn' in Hpe.
    assert (Els : last_stored_height_for K to (vi_last_changed vit) = ls).
    { unfold last_stored_height_for. rewrite Ecp, <- Elc. reflexivity. }
    rewrite Els in Hpe.
    destruct Hpe as [(Hk & _)|(_ & v & Hgv & Hcase)].
    + simpl in Hk. rewrite Z.eqb_refl in Hk. rewrite orb_true_r in Hk. discriminate.
    + rewrite Hgl in Hgv. injection Hgv as <-.
      destruct Hcase as [(_ & Hd')|(Hnone & _)]; [exact Hd'|discriminate].
Qed.

Fixpoint forward (K : Z) (n : node) (ops : list op) : Prop :=
  match ops with
  | [] => True
  | o :: r => match o with OPrune f t => n_base n <= t | OBlock _ => True end /\
              forward K (step K n o) r
  end.

Lemma pinv_run : forall K initial ops n,
  0 < K <= max_int32 -> 0 < initial ->
  forward K n ops -> PInv K initial n -> PInv K initial (run K n ops).
Proof.
  intros K initial ops. induction ops as [|o ops IH]; intros n HK Hinit Hf I.
  - exact I.
  - unfold run. simpl. destruct Hf as [Ho Hf].
    apply IH; try assumption.
    destruct o as [ups|f t]; [apply pinv_block|apply pinv_prune]; assumption.
Qed.

Theorem load_exact : forall K valz initial n0 ops,
  0 < K <= max_int32 -> 0 < initial -> start K valz initial = Some n0 -> forward K n0 ops ->
  let n := run K n0 ops in
  forall h vs, In (h, vs) (n_sets n) -> n_base n <= h -> load_validators K (n_db n) h = LvOk vs.
Proof.
  intros K valz initial n0 ops HK Hinit Hstart Hf n h vs Hin Hb.
  apply (pinv_load K initial); try assumption.
  apply pinv_run; try assumption. apply (pinv_start K valz); assumption.
Qed.

(* ------------------------------------------------------------------ non-vacuity of load_exact *)

Definition ex_ops2 : list op :=
  [OBlock []; OBlock []; OBlock [mkVal [4%N] 5 0]; OBlock []; OBlock []; OBlock []; OBlock [];
   OPrune 3 10;
   OBlock []; OBlock [mkVal [2%N] 0 0; mkVal [1%N] 15 0]; OBlock []; OBlock [];
   OPrune 10 14; OBlock []; OBlock []].
Definition lv_tag (r : lv_res) : Z :=
  match r with LvOk _ => 0 | LvNoValSet => 1 | LvErr => 2 | LvPanic => 3 end.

(* K = 4, initial height 3, thirteen blocks and two prunes that both succeed (base 10, then 14).
   After the run heights 3..17 are recorded; the store still has 7, 8 (kept by the first prune),
   13 (kept by the second: LastHeightChanged of 14, below the base) and 14..17; 14, 15 and 17 are
   pointer entries, 14 and 15 pointing below the base.  Every recorded height >= base reads back
   exactly; pruned heights answer ErrNoValSetForHeight. *)
Example load_exact_nonvacuous :
  exists n0, start 4 ex_valz 3 = Some n0 /\ forward 4 n0 ex_ops2 /\
    let n := run 4 n0 ex_ops2 in
    n_base n = 14 /\
    map fst (n_sets n) = [17; 16; 15; 14; 13; 12; 11; 10; 9; 8; 7; 6; 5; 4; 3] /\
    map (fun h => lv_tag (load_validators 4 (n_db n) h)) [3; 4; 5; 6; 7; 8; 9; 10; 11; 12; 13]
      = [1; 1; 1; 1; 0; 0; 1; 1; 1; 1; 0] /\
    map (is_ptr (n_db n)) [13; 14; 15; 16; 17] = [false; true; true; false; true] /\
    let kept := filter (fun hv => n_base n <=? fst hv) (n_sets n) in
    map fst kept = [17; 16; 15; 14] /\
    map (fun hv => load_validators 4 (n_db n) (fst hv)) kept = map (fun hv => LvOk (snd hv)) kept.
Proof.
  eexists. split; [vm_compute; reflexivity|].
  split; [vm_compute; repeat split; intro H; discriminate H|].
  vm_compute. repeat split; reflexivity.
Qed.
