(* C08 — model of types/validator_set.go (update batches, priorities, proposer rotation),
   types/validator.go (CompareProposerPriority), state/store.go (save, saveValidatorsInfo,
   LoadValidators, lastStoredHeightFor, PruneStates for validators) and the part of
   state/execution.go updateState / state/state.go MakeGenesisState that decides which set is
   in force at which height.  Transcribed by hand, branch by branch, in the order of the checks
   of the Go source; tied to /repo by Generated/Consts.v (MaxTotalVotingPower,
   PriorityWindowSizeFactor, valSetCheckpointInterval) and by the correspondence run
   (harness/overlay/types/verif_c08_*_test.go, harness/overlay/state/verif_c08_*_test.go).
   No proofs in this file.

   Conventions: int64 values are Z; the clipped operations (safeAddClip/safeSubClip) are
   transcribed exactly; the few raw int64 operations whose operands are not bounded by a
   preceding check (max-min of priorities, diff+diffMax-1) go through [w64] (two's complement
   wrap).  A Go panic is the result [None]/[EPanic].  A validator is (address, power, priority);
   the public key is not modelled (address = f(pubkey) is opaque to this code).
   Protobuf (de)serialisation of a set is the identity on (validators, proposer) — checked by
   the run, which goes through the real ToProto/Marshal/Unmarshal/FromProto. *)
From Coq Require Import List ZArith NArith Bool.
From TM Require Import Common.Hex Generated.Consts.
Import ListNotations.
Open Scope Z_scope.

Definition max_int64 : Z := 9223372036854775807.
Definition min_int64 : Z := -9223372036854775808.
Definition max_int32 : Z := 2147483647.
Definition w64 (z : Z) : Z := (z + 9223372036854775808) mod 18446744073709551616 - 9223372036854775808.

(* bytes.Compare *)
Fixpoint bytes_cmp (a b : bytes) : comparison :=
  match a, b with
  | [], [] => Eq
  | [], _ :: _ => Lt
  | _ :: _, [] => Gt
  | x :: a', y :: b' => match N.compare x y with Eq => bytes_cmp a' b' | c => c end
  end.
Definition addr_ltb (a b : bytes) : bool := match bytes_cmp a b with Lt => true | _ => false end.

(* safeAddClip / safeSubClip *)
Definition add_clip (a b : Z) : Z :=
  if (b >? 0) && (a >? max_int64 - b) then max_int64
  else if (b <? 0) && (a <? min_int64 - b) then min_int64
  else a + b.
Definition sub_clip (a b : Z) : Z :=
  if (b >? 0) && (a <? min_int64 + b) then min_int64
  else if (b <? 0) && (a >? max_int64 + b) then max_int64
  else a - b.

Record validator := mkVal { v_addr : bytes; v_power : Z; v_prio : Z }.
Definition set_prio (v : validator) (p : Z) : validator := mkVal (v_addr v) (v_power v) p.

(* ValidatorSet: Validators, Proposer (a copy of the chosen validator; Go keeps a pointer into
   Validators, which IncrementProposerPriority always re-assigns) *)
Record valset := mkVS { vs_vals : list validator; vs_prop : option validator }.

(* ---------------------------------------------------------------- sorting (sort.Sort / sort.Slice)
   insertion sort; the orders used on validator sets are strict total orders on sets with
   unique addresses, so any correct sort gives the same list. *)
Section Sort.
Context {A : Type} (ltb : A -> A -> bool).
Fixpoint insert_by (x : A) (l : list A) : list A :=
  match l with
  | [] => [x]
  | y :: r => if ltb y x then y :: insert_by x r else x :: y :: r
  end.
Fixpoint sort_by (l : list A) : list A :=
  match l with [] => [] | x :: r => insert_by x (sort_by r) end.
End Sort.

(* ValidatorsByAddress.Less *)
Definition by_addr (a b : validator) : bool := addr_ltb (v_addr a) (v_addr b).
(* ValidatorsByVotingPower.Less: power descending, then address ascending *)
Definition by_power (a b : validator) : bool :=
  if v_power a =? v_power b then addr_ltb (v_addr a) (v_addr b) else v_power a >? v_power b.

(* GetByAddress: first validator with the address *)
Fixpoint find_addr (a : bytes) (l : list validator) : option validator :=
  match l with
  | [] => None
  | v :: r => if bytes_eqb (v_addr v) a then Some v else find_addr a r
  end.
Definition has_addr (a : bytes) (l : list validator) : bool :=
  match find_addr a l with Some _ => true | None => false end.

(* updateTotalVotingPower: None = panic (sum above MaxTotalVotingPower) *)
Fixpoint total_from (sum : Z) (l : list validator) : option Z :=
  match l with
  | [] => Some sum
  | v :: r => let s := add_clip sum (v_power v) in
              if s >? max_total_voting_power then None else total_from s r
  end.
Definition total_power (l : list validator) : option Z := total_from 0 l.

(* ---------------------------------------------------------------- priorities *)

(* computeMaxMinPriorityDiff *)
Definition max_prio (l : list validator) : Z :=
  fold_left (fun m v => if v_prio v >? m then v_prio v else m) l min_int64.
Definition min_prio (l : list validator) : Z :=
  fold_left (fun m v => if v_prio v <? m then v_prio v else m) l max_int64.
Definition max_min_diff (l : list validator) : Z :=
  let d := w64 (max_prio l - min_prio l) in if d <? 0 then w64 (-1 * d) else d.

(* RescalePriorities; Go's int64 "/" truncates toward zero = Z.quot *)
Definition rescale (diff_max : Z) (l : list validator) : list validator :=
  if diff_max <=? 0 then l
  else
    let diff := max_min_diff l in
    let ratio := Z.quot (w64 (diff + diff_max - 1)) diff_max in
    if diff >? diff_max then map (fun v => set_prio v (Z.quot (v_prio v) ratio)) l else l.

(* computeAvgProposerPriority: big.Int Div is Euclidean; the divisor n is positive, so this is
   the floor = Coq's Z.div *)
Definition sum_prio (l : list validator) : Z := fold_right (fun v s => v_prio v + s) 0 l.
Definition avg_prio (l : list validator) : Z := sum_prio l / Z.of_nat (length l).
(* shiftByAvgProposerPriority *)
Definition shift_avg (l : list validator) : list validator :=
  let a := avg_prio l in map (fun v => set_prio v (sub_clip (v_prio v) a)) l.

(* Validator.CompareProposerPriority(v, other) returns v?  (identical addresses panic in Go;
   unreachable on sets with unique addresses; the model keeps v) *)
Definition keeps (v other : validator) : bool :=
  if v_prio v >? v_prio other then true
  else if v_prio v <? v_prio other then false
  else negb (addr_ltb (v_addr other) (v_addr v)).

(* getValWithMostPriority, as (index, validator) *)
Fixpoint most_from (bi : nat) (best : validator) (i : nat) (l : list validator) : nat * validator :=
  match l with
  | [] => (bi, best)
  | v :: r => if keeps best v then most_from bi best (S i) r else most_from i v (S i) r
  end.
Definition most_prio (l : list validator) : option (nat * validator) :=
  match l with [] => None | v :: r => Some (most_from 0%nat v 1%nat r) end.

Fixpoint set_nth {A} (n : nat) (x : A) (l : list A) : list A :=
  match l, n with
  | [], _ => []
  | _ :: r, O => x :: r
  | y :: r, S n' => y :: set_nth n' x r
  end.

(* incrementProposerPriority: returns the new list and the chosen validator (after its decrement) *)
Definition inc_once (total : Z) (l : list validator) : list validator * option validator :=
  let l1 := map (fun v => set_prio v (add_clip (v_prio v) (v_power v))) l in
  match most_prio l1 with
  | None => (l1, None)
  | Some (i, m) => let m' := set_prio m (sub_clip (v_prio m) total) in (set_nth i m' l1, Some m')
  end.

Fixpoint inc_times (n : nat) (total : Z) (l : list validator) (p : option validator)
  : list validator * option validator :=
  match n with
  | O => (l, p)
  | S n' => let '(l', p') := inc_once total l in inc_times n' total l' p'
  end.

(* IncrementProposerPriority(times); None = panic *)
Definition ipp (times : Z) (vs : valset) : option valset :=
  match vs_vals vs with
  | [] => None
  | _ =>
    if times <=? 0 then None
    else match total_power (vs_vals vs) with
    | None => None
    | Some total =>
      let l := shift_avg (rescale (priority_window_size_factor * total) (vs_vals vs)) in
      let '(l', p) := inc_times (Z.to_nat times) total l None in
      Some (mkVS l' p)
    end
  end.

(* n successive IncrementProposerPriority(1), what the chain does from height to height *)
Fixpoint ipp1_iter (n : nat) (vs : valset) : option valset :=
  match n with
  | O => Some vs
  | S n' => match ipp 1 vs with Some vs' => ipp1_iter n' vs' | None => None end
  end.

(* ---------------------------------------------------------------- update batches *)

Inductive upd_err :=
| EDup | ENeg | ETooBig | EDelNotAllowed | EEmpty | ENotFound | EOverflow | EPanic.
Inductive res (A : Type) := Ok (a : A) | Err (e : upd_err).
Arguments Ok {A} a.
Arguments Err {A} e.

(* processChanges: the scan over the address-sorted copy; prev starts as nil, and
   bytes.Equal(x, nil) holds for the empty x *)
Fixpoint scan_changes (prev : bytes) (l : list validator) : res (list validator * list validator) :=
  match l with
  | [] => Ok ([], [])
  | c :: r =>
    if bytes_eqb (v_addr c) prev then Err EDup
    else if v_power c <? 0 then Err ENeg
    else if v_power c >? max_total_voting_power then Err ETooBig
    else match scan_changes (v_addr c) r with
         | Err e => Err e
         | Ok (u, d) => if v_power c =? 0 then Ok (u, c :: d) else Ok (c :: u, d)
         end
  end.
Definition process_changes (cs : list validator) : res (list validator * list validator) :=
  scan_changes [] (sort_by by_addr cs).

(* verifyRemovals *)
Fixpoint removed_power (dels vals : list validator) (acc : Z) : res Z :=
  match dels with
  | [] => Ok acc
  | d :: r => match find_addr (v_addr d) vals with
              | None => Err ENotFound
              | Some v => removed_power r vals (acc + v_power v)
              end
  end.
Definition verify_removals (dels vals : list validator) : res Z :=
  match removed_power dels vals 0 with
  | Err e => Err e
  | Ok p => if (length vals <? length dels)%nat then Err EPanic else Ok p
  end.

(* verifyUpdates *)
Definition delta (vals : list validator) (u : validator) : Z :=
  match find_addr (v_addr u) vals with
  | Some v => v_power u - v_power v
  | None => v_power u
  end.
Fixpoint scan_deltas (tvp : Z) (ds : list Z) : res Z :=
  match ds with
  | [] => Ok tvp
  | d :: r => let t := tvp + d in
              if t >? max_total_voting_power then Err EOverflow else scan_deltas t r
  end.
Definition verify_updates (ups vals : list validator) (removed : Z) : res Z :=
  match total_power vals with
  | None => Err EPanic
  | Some total =>
    let ds := sort_by Z.ltb (map (delta vals) ups) in
    match scan_deltas (total - removed) ds with
    | Err e => Err e
    | Ok t => Ok (t + removed)
    end
  end.

(* numNewValidators *)
Definition num_new (ups vals : list validator) : nat :=
  length (filter (fun u => negb (has_addr (v_addr u) vals)) ups).

(* computeNewPriorities: -(tvp + tvp>>3) for validators not in the set *)
Definition compute_new_priorities (ups vals : list validator) (tvp : Z) : list validator :=
  map (fun u => match find_addr (v_addr u) vals with
                | None => set_prio u (- (tvp + Z.shiftr tvp 3))
                | Some v => set_prio u (v_prio v)
                end) ups.

(* applyUpdates: merge of the address-sorted existing list with the address-sorted updates *)
Fixpoint merge_upd (ex : list validator) : list validator -> list validator :=
  fix inner (up : list validator) : list validator :=
    match ex, up with
    | [], _ => up
    | _, [] => ex
    | e :: ex', u :: up' =>
      if addr_ltb (v_addr e) (v_addr u) then e :: merge_upd ex' up
      else if bytes_eqb (v_addr e) (v_addr u) then u :: merge_upd ex' up'
      else u :: inner up'
    end.

(* applyRemovals (Go would panic with index out of range if a delete were missing; the model
   stops; excluded by verifyRemovals) *)
Fixpoint apply_removals (ex dels : list validator) {struct ex} : list validator :=
  match ex with
  | [] => []
  | e :: ex' =>
    match dels with
    | [] => ex
    | d :: dels' => if bytes_eqb (v_addr e) (v_addr d) then apply_removals ex' dels'
                    else e :: apply_removals ex' dels
    end
  end.

(* updateWithChangeSet.  On an error the receiver is left as it was: here the input is simply
   not returned; the run checks that the Go object was not mutated. *)
Definition update_with_change_set (vs : valset) (cs : list validator) (allow_deletes : bool)
  : res valset :=
  match cs with
  | [] => Ok vs
  | _ =>
    let vals := vs_vals vs in
    match process_changes cs with
    | Err e => Err e
    | Ok (ups, dels) =>
      if negb allow_deletes && negb (Nat.eqb (length dels) 0) then Err EDelNotAllowed
      else if Nat.eqb (num_new ups vals) 0 && Nat.eqb (length vals) (length dels) then Err EEmpty
      else match verify_removals dels vals with
      | Err e => Err e
      | Ok removed =>
        match verify_updates ups vals removed with
        | Err e => Err e
        | Ok tvp =>
          let ups' := compute_new_priorities ups vals tvp in
          let merged := apply_removals (merge_upd (sort_by by_addr vals) ups') dels in
          match total_power merged with
          | None => Err EPanic
          | Some total =>
            let l := shift_avg (rescale (priority_window_size_factor * total) merged) in
            Ok (mkVS (sort_by by_power l) (vs_prop vs))
          end
        end
      end
    end
  end.

Definition update (vs : valset) (cs : list validator) : res valset :=
  update_with_change_set vs cs true.

(* NewValidatorSet; None = panic *)
Definition new_validator_set (valz : list validator) : option valset :=
  match update_with_change_set (mkVS [] None) valz false with
  | Err _ => None
  | Ok vs => match valz with [] => Some vs | _ => ipp 1 vs end
  end.

(* ---------------------------------------------------------------- reference semantics (spec)

   (1) a batch as a finite map: the power an address has after the batch *)
Definition expected_power (vals cs : list validator) (a : bytes) : option Z :=
  match find_addr a cs with
  | Some c => if v_power c =? 0 then None else Some (v_power c)
  | None => match find_addr a vals with Some v => Some (v_power v) | None => None end
  end.
Definition power_of (vals : list validator) (a : bytes) : option Z :=
  match find_addr a vals with Some v => Some (v_power v) | None => None end.

(* (2) spec/consensus/proposer-selection.md, "ProposerSelection(vset)" of the section on
   priority scaling, with the integer semantics the text leaves open fixed as follows:
   scale = ceil(diff/threshold), A(i)/scale truncates, avg is the floor, "max(A)" breaks ties
   towards the smaller address.  Plain integer arithmetic, no clipping. *)
Definition spec_better (a b : validator) : bool :=        (* a ranks strictly before b *)
  (v_prio b <? v_prio a) || ((v_prio a =? v_prio b) && addr_ltb (v_addr a) (v_addr b)).
Definition spec_is_max (l : list validator) (m : validator) : bool :=
  forallb (fun w => bytes_eqb (v_addr w) (v_addr m) || spec_better m w) l.
Definition spec_selection (P : Z) (l : list validator) : list validator * option validator :=
  let diff := max_prio l - min_prio l in
  let threshold := 2 * P in
  let scaled := if diff >? threshold
                then let scale := (diff + threshold - 1) / threshold in
                     map (fun v => set_prio v (Z.quot (v_prio v) scale)) l
                else l in
  let avg := sum_prio scaled / Z.of_nat (length scaled) in
  let centred := map (fun v => set_prio v (v_prio v - avg)) scaled in
  let added := map (fun v => set_prio v (v_prio v + v_power v)) centred in
  match find (spec_is_max added) added with
  | None => (added, None)
  | Some m =>
    let m' := set_prio m (v_prio m - P) in
    (map (fun v => if bytes_eqb (v_addr v) (v_addr m) then m' else v) added, Some m')
  end.

(* ---------------------------------------------------------------- state/store.go *)

Record valinfo := mkVI { vi_last_changed : Z; vi_set : option valset }.
Definition db := list (Z * valinfo).      (* key "validatorsKey:<h>" modelled as h *)

Fixpoint db_get (h : Z) (d : db) : option valinfo :=
  match d with
  | [] => None
  | (k, v) :: r => if k =? h then Some v else db_get h r
  end.
Definition db_set (h : Z) (v : valinfo) (d : db) : db := (h, v) :: d.
Definition db_del (h : Z) (d : db) : db := filter (fun kv => negb (fst kv =? h)) d.

(* ToProto: an empty set becomes the empty message, a nil proposer is an error (None) *)
Definition to_proto (vs : valset) : option valset :=
  match vs_vals vs with
  | [] => Some (mkVS [] None)
  | _ => match vs_prop vs with None => None | Some _ => Some vs end
  end.
(* ValidatorSetFromProto incl. ValidateBasic: empty set, nil proposer are errors;
   TotalVotingPower() panics above the maximum *)
Inductive lv_res := LvOk (vs : valset) | LvNoValSet | LvErr | LvPanic.
Definition from_proto (p : valset) : lv_res :=
  match vs_prop p with
  | None => LvErr
  | Some _ =>
    match total_power (vs_vals p) with
    | None => LvPanic
    | Some _ => match vs_vals p with [] => LvErr | _ => LvOk p end
    end
  end.

Section Store.
Variable K : Z.   (* valSetCheckpointInterval *)

(* lastStoredHeightFor; Go's % is the truncated remainder *)
Definition last_stored_height_for (h lc : Z) : Z := Z.max (h - Z.rem h K) lc.

(* saveValidatorsInfo; None = error *)
Definition save_validators_info (h lc : Z) (vs : valset) (d : db) : option db :=
  if lc >? h then None
  else if (h =? lc) || (Z.rem h K =? 0)
       then match to_proto vs with
            | None => None
            | Some p => Some (db_set h (mkVI lc (Some p)) d)
            end
       else Some (db_set h (mkVI lc None) d).

(* the fields of state.State this property is about *)
Record state := mkSt {
  st_initial : Z;            (* InitialHeight *)
  st_last : Z;               (* LastBlockHeight *)
  st_vals : valset;          (* Validators: in force at st_last+1 *)
  st_next : valset;          (* NextValidators: in force at st_last+2 *)
  st_changed : Z             (* LastHeightValidatorsChanged *)
}.

(* dbStore.save (validators part) *)
Definition save (s : state) (d : db) : option db :=
  let next_height := st_last s + 1 in
  if next_height =? 1
  then match save_validators_info (st_initial s) (st_initial s) (st_vals s) d with
       | None => None
       | Some d' => save_validators_info (st_initial s + 1) (st_changed s) (st_next s) d'
       end
  else save_validators_info (next_height + 1) (st_changed s) (st_next s) d.

(* LoadValidators, with the F1 repair: the increments between the stored height and the
   requested one are replayed one call per height, as updateState applied them.
   (The unrepaired code made the single call [ipp (h - ls)].) *)
Definition replay (k : Z) (vs : valset) : option valset :=
  if (k >? max_int32) || (k <? - max_int32 - 1) then None      (* SafeConvertInt32 panics *)
  else ipp1_iter (Z.to_nat k) vs.
Definition replay_unfixed (k : Z) (vs : valset) : option valset :=
  if (k >? max_int32) || (k <? - max_int32 - 1) then None else ipp k vs.

Definition load_validators_with (rp : Z -> valset -> option valset) (d : db) (h : Z) : lv_res :=
  match db_get h d with
  | None => LvNoValSet
  | Some vi =>
    match vi_set vi with
    | Some p => from_proto p
    | None =>
      let ls := last_stored_height_for h (vi_last_changed vi) in
      match db_get ls d with
      | None => LvErr
      | Some vi2 =>
        match vi_set vi2 with
        | None => LvErr
        | Some p2 =>
          match from_proto p2 with
          | LvOk vs =>
            match rp (h - ls) vs with
            | None => LvPanic
            | Some vs' => match to_proto vs' with None => LvErr | Some p' => from_proto p' end
            end
          | r => r
          end
        end
      end
    end
  end.
Definition load_validators : db -> Z -> lv_res := load_validators_with replay.
Definition load_validators_unfixed : db -> Z -> lv_res := load_validators_with replay_unfixed.

(* PruneStates (validators; the consensus-params and ABCI-responses keys are not modelled).
   Writes go to a batch that is flushed every 1000 heights and at the end; reads see the
   database without the pending batch, as in the Go code. *)
Inductive bop := BSet (h : Z) (v : valinfo) | BDel (h : Z).
Definition apply_bop (d : db) (o : bop) : db :=
  match o with BSet h v => db_set h v d | BDel h => db_del h d end.
Definition flush (d : db) (batch : list bop) : db := fold_left apply_bop batch d.   (* batch in write order *)

Fixpoint prune_loop (n : nat) (h : Z) (keep : list Z) (d : db) (batch : list bop) (pruned : Z)
  : option db :=
  match n with
  | O => Some (flush d batch)
  | S n' =>
    let step (b : list bop) :=
      let pruned' := pruned + 1 in
      if Z.rem pruned' 1000 =? 0
      then prune_loop n' (h - 1) keep (flush d b) [] pruned'
      else prune_loop n' (h - 1) keep d b pruned' in
    if existsb (Z.eqb h) keep
    then match db_get h d with
         | Some v =>
           match vi_set v with
           | Some _ => step batch
           | None =>
             match load_validators d h with
             | LvOk vs => match to_proto vs with
                          | None => None
                          | Some p => step (batch ++ [BSet h (mkVI h (Some p))])
                          end
             | _ => None
             end
           end
         | None => None          (* LoadValidators(h) fails with ErrNoValSetForHeight *)
         end
    else step (batch ++ [BDel h])
  end.

Definition prune_states (d : db) (from to : Z) : option db :=
  if (from <=? 0) || (to <=? 0) then None
  else if from >=? to then None
  else match db_get to d with
  | None => None
  | Some vi =>
    let keep := match vi_set vi with
                | None => [vi_last_changed vi; last_stored_height_for to (vi_last_changed vi)]
                | Some _ => []
                end in
    prune_loop (Z.to_nat (to - from)) (to - 1) keep d [] 0
  end.

(* state.MakeGenesisState (validators part); None = NewValidatorSet panics / empty *)
Definition make_genesis (valz : list validator) (initial : Z) : option state :=
  match valz with
  | [] => None       (* a genesis without validators waits for InitChain; not modelled *)
  | _ => match new_validator_set valz with
         | None => None
         | Some vs => match ipp 1 vs with
                      | None => None
                      | Some nx => Some (mkSt initial 0 vs nx initial)
                      end
         end
  end.

(* execution.go updateState (validators part) for the block at height st_last+1
   (st_initial for the first block); None = the block is refused / panic *)
Definition block_height (s : state) : Z := if st_last s =? 0 then st_initial s else st_last s + 1.
Definition update_state (s : state) (updates : list validator) : option state :=
  let hh := block_height s in
  let r := match updates with
           | [] => Some (st_next s, st_changed s)
           | _ => match update (st_next s) updates with
                  | Ok v => Some (v, hh + 1 + 1)
                  | Err _ => None
                  end
           end in
  match r with
  | None => None
  | Some (nv, lc) =>
    match ipp 1 nv with
    | None => None
    | Some nv' => Some (mkSt (st_initial s) hh (st_next s) nv' lc)
    end
  end.

(* a node's life as far as this property sees it: blocks (with their validator updates) and
   prunes; [run] keeps the state, the database, the lowest retained height and the list of
   (height, set in force) recorded when the height became known *)
Inductive op := OBlock (updates : list validator) | OPrune (from to : Z).
Record node := mkNode { n_state : state; n_db : db; n_base : Z; n_sets : list (Z * valset) }.

Definition start (valz : list validator) (initial : Z) : option node :=
  match make_genesis valz initial with
  | None => None
  | Some s => match save s [] with
              | None => None
              | Some d => Some (mkNode s d initial [(initial + 1, st_next s); (initial, st_vals s)])
              end
  end.

(* an op that fails leaves the node as it is (the block is not applied; PruneStates returns
   an error before its final write — a partially flushed prune is a crash case, not modelled) *)
Definition step (n : node) (o : op) : node :=
  match o with
  | OBlock ups =>
    match update_state (n_state n) ups with
    | None => n
    | Some s' => match save s' (n_db n) with
                 | None => n
                 | Some d' => mkNode s' d' (n_base n) ((st_last s' + 2, st_next s') :: n_sets n)
                 end
    end
  | OPrune from to =>
    match prune_states (n_db n) from to with
    | None => n
    | Some d' => mkNode (n_state n) d' (Z.max (n_base n) to) (n_sets n)
    end
  end.
Definition run (n : node) (ops : list op) : node := fold_left step ops n.

End Store.
