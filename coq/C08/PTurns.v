(* C08 — fairness / proportionality of the weighted round-robin (incrementProposerPriority
   iterated on a static validator list).  Works on a plain-arithmetic copy [inc_raw]/[run_raw]
   of Model.inc_once/inc_times and connects it to the model at the end ([inc_once_raw],
   [inc_times_raw]). *)
From Coq Require Import List ZArith NArith Bool Lia Permutation Sorted.
From TM Require Import Common.Hex Generated.Consts C08.Model.
Import ListNotations.
Open Scope Z_scope.

Definition addrs (l : list validator) := map v_addr l.
Definition sum_power (l : list validator) : Z := fold_right (fun v s => v_power v + s) 0 l.
Definition WF (T : Z) (l : list validator) : Prop :=
  l <> [] /\ NoDup (addrs l) /\ Forall (fun v => 0 < v_power v) l /\ sum_power l = T /\ 0 < T.
Definition inc_raw (T : Z) (l : list validator) : list validator * option validator :=
  let l1 := map (fun v => set_prio v (v_prio v + v_power v)) l in
  match most_prio l1 with
  | None => (l1, None)
  | Some (i, m) => let m' := set_prio m (v_prio m - T) in (set_nth i m' l1, Some m')
  end.
(* k steps, returning the final list and the proposers' addresses in order *)
Fixpoint run_raw (k : nat) (T : Z) (l : list validator) : list validator * list bytes :=
  match k with
  | O => (l, [])
  | S k' =>
    match inc_raw T l with
    | (l', Some m) => let '(lf, ps) := run_raw k' T l' in (lf, v_addr m :: ps)
    | (l', None) => (l', [])
    end
  end.
Definition count (a : bytes) (ps : list bytes) : Z := Z.of_nat (length (filter (bytes_eqb a) ps)).
Definition prio_of (a : bytes) (l : list validator) : Z :=
  match find_addr a l with Some v => v_prio v | None => 0 end.
Definition pow_of (a : bytes) (l : list validator) : Z :=
  match find_addr a l with Some v => v_power v | None => 0 end.

(* ------------------------------------------------------------------ small facts *)

Lemma bytes_eqb_neq : forall a b, bytes_eqb a b = false <-> a <> b.
Proof.
  intros a b; split.
  - intros E H. apply bytes_eqb_eq in H. congruence.
  - intro H. destruct (bytes_eqb a b) eqn:E; [|reflexivity]. apply bytes_eqb_eq in E. contradiction.
Qed.

Lemma keeps_true_le : forall b v, keeps b v = true -> v_prio v <= v_prio b.
Proof.
  intros b v. unfold keeps.
  destruct (Z.gtb_spec (v_prio b) (v_prio v)); [lia|].
  destruct (Z.ltb_spec (v_prio b) (v_prio v)); [discriminate|lia].
Qed.

Lemma keeps_false_le : forall b v, keeps b v = false -> v_prio b <= v_prio v.
Proof.
  intros b v. unfold keeps.
  destruct (Z.gtb_spec (v_prio b) (v_prio v)); [discriminate|].
  destruct (Z.ltb_spec (v_prio b) (v_prio v)); lia.
Qed.

Lemma most_from_spec : forall l bi best i j m,
  most_from bi best i l = (j, m) ->
  v_prio best <= v_prio m /\
  (forall w, In w l -> v_prio w <= v_prio m) /\
  ((j = bi /\ m = best) \/ (exists d, j = (i + d)%nat /\ nth_error l d = Some m)).
Proof.
  induction l as [|v r IH]; intros bi best i j m H.
  - cbn [most_from] in H. injection H as <- <-. split; [lia|]. split; [intros w []|]. left; auto.
  - cbn [most_from] in H. destruct (keeps best v) eqn:K.
    + apply keeps_true_le in K. apply IH in H as (H1 & H2 & H3).
      split; [exact H1|]. split.
      * intros w [<-|Hw]; [lia|auto].
      * destruct H3 as [H3|(d & -> & Hd)]; [left; exact H3|].
        right. exists (S d). split; [lia|exact Hd].
    + apply keeps_false_le in K. apply IH in H as (H1 & H2 & H3).
      split; [lia|]. split.
      * intros w [<-|Hw]; [lia|auto].
      * right. destruct H3 as [[-> ->]|(d & -> & Hd)].
        -- exists 0%nat. split; [lia|reflexivity].
        -- exists (S d). split; [lia|exact Hd].
Qed.

Lemma most_prio_spec : forall l j m,
  most_prio l = Some (j, m) ->
  nth_error l j = Some m /\ (forall w, In w l -> v_prio w <= v_prio m).
Proof.
  intros [|v r] j m H; [discriminate|].
  unfold most_prio in H. injection H as H.
  apply most_from_spec in H as (H1 & H2 & H3). split.
  - destruct H3 as [[-> ->]|(d & -> & Hd)]; [reflexivity|exact Hd].
  - intros w [<-|Hw]; [exact H1|auto].
Qed.

Lemma most_prio_some : forall l, l <> [] -> exists j m, most_prio l = Some (j, m).
Proof.
  intros [|v r] H; [contradiction|].
  unfold most_prio. destruct (most_from 0 v 1 r) as [j m]. eauto.
Qed.

Lemma addr_unique : forall l x y,
  NoDup (addrs l) -> In x l -> In y l -> v_addr x = v_addr y -> x = y.
Proof.
  induction l as [|v r IH]; intros x y ND Hx Hy E; [destruct Hx|].
  cbn in ND. apply NoDup_cons_iff in ND as [N1 N2].
  destruct Hx as [<-|Hx], Hy as [<-|Hy].
  - reflexivity.
  - exfalso. apply N1. rewrite E. apply in_map. exact Hy.
  - exfalso. apply N1. rewrite <- E. apply in_map. exact Hx.
  - apply IH; auto.
Qed.

Lemma set_nth_map : forall l i m m',
  NoDup (addrs l) -> nth_error l i = Some m ->
  set_nth i m' l = map (fun v => if bytes_eqb (v_addr v) (v_addr m) then m' else v) l.
Proof.
  induction l as [|y r IH]; intros i m m' ND H; [destruct i; discriminate|].
  cbn in ND. apply NoDup_cons_iff in ND as [N1 N2].
  destruct i as [|i]; cbn [nth_error] in H; cbn [set_nth map].
  - injection H as ->. rewrite bytes_eqb_refl. f_equal.
    rewrite <- (map_id r) at 1. apply map_ext_in. intros a Ha.
    destruct (bytes_eqb (v_addr a) (v_addr m)) eqn:E; [|reflexivity].
    apply bytes_eqb_eq in E. exfalso. apply N1. rewrite <- E. apply in_map. exact Ha.
  - assert (Hm : In m r) by (eapply nth_error_In; eauto).
    destruct (bytes_eqb (v_addr y) (v_addr m)) eqn:E.
    + apply bytes_eqb_eq in E. exfalso. apply N1. rewrite E. apply in_map. exact Hm.
    + f_equal. apply IH; auto.
Qed.

(* ------------------------------------------------------------------ one step as a map *)

Definition stepf (T : Z) (c : bytes) (v : validator) : validator :=
  set_prio v (if bytes_eqb (v_addr v) c then v_prio v + v_power v - T else v_prio v + v_power v).

Lemma stepf_addr : forall T c v, v_addr (stepf T c v) = v_addr v.
Proof. reflexivity. Qed.
Lemma stepf_power : forall T c v, v_power (stepf T c v) = v_power v.
Proof. reflexivity. Qed.

Lemma addrs_stepf : forall T c l, addrs (map (stepf T c) l) = addrs l.
Proof. intros. unfold addrs. rewrite map_map. reflexivity. Qed.
Lemma powers_stepf : forall T c l, map v_power (map (stepf T c) l) = map v_power l.
Proof. intros. rewrite map_map. reflexivity. Qed.

Lemma inc_raw_step : forall T l,
  l <> [] -> NoDup (addrs l) ->
  exists m0, In m0 l /\
    inc_raw T l = (map (stepf T (v_addr m0)) l, Some (stepf T (v_addr m0) m0)) /\
    (forall v, In v l -> v_prio v + v_power v <= v_prio m0 + v_power m0).
Proof.
  intros T l NE ND. unfold inc_raw.
  set (g := fun v => set_prio v (v_prio v + v_power v)).
  assert (NE1 : map g l <> []) by (destruct l; [contradiction|discriminate]).
  destruct (most_prio_some _ NE1) as (j & m & Hm). rewrite Hm.
  apply most_prio_spec in Hm as [Hn Hmax].
  assert (ND1 : NoDup (addrs (map g l))).
  { unfold addrs. rewrite map_map. exact ND. }
  rewrite nth_error_map in Hn.
  destruct (nth_error l j) as [m0|] eqn:Hj; [|discriminate].
  cbn [option_map] in Hn. injection Hn as Hn.
  assert (In0 : In m0 l) by (eapply nth_error_In; eauto).
  exists m0. split; [exact In0|]. split.
  - cbv zeta. f_equal.
    + rewrite (set_nth_map (map g l) j m _ ND1).
      2:{ rewrite nth_error_map, Hj. cbn. congruence. }
      rewrite map_map. apply map_ext_in. intros v Hv.
      subst m. unfold g at 1 2. cbn [v_addr set_prio].
      unfold stepf.
      destruct (bytes_eqb (v_addr v) (v_addr m0)) eqn:E.
      * apply bytes_eqb_eq in E. assert (v = m0) by (apply (addr_unique l); auto). subst v.
        reflexivity.
      * reflexivity.
    + subst m. unfold stepf. rewrite bytes_eqb_refl. reflexivity.
  - intros v Hv. specialize (Hmax (g v) (in_map g l v Hv)). subst m. cbn in Hmax. exact Hmax.
Qed.

(* ------------------------------------------------------------------ facts about [map (stepf T c)] *)

Lemma stepf_prio : forall T c v,
  v_prio (stepf T c v) =
  if bytes_eqb (v_addr v) c then v_prio v + v_power v - T else v_prio v + v_power v.
Proof. reflexivity. Qed.

Lemma sum_power_cons : forall v l, sum_power (v :: l) = v_power v + sum_power l.
Proof. reflexivity. Qed.
Lemma sum_prio_cons : forall v l, sum_prio (v :: l) = v_prio v + sum_prio l.
Proof. reflexivity. Qed.

Lemma sum_power_stepf : forall T c l, sum_power (map (stepf T c) l) = sum_power l.
Proof.
  induction l as [|v r IH]; [reflexivity|].
  cbn [map]. rewrite !sum_power_cons, stepf_power, IH. reflexivity.
Qed.

Lemma sum_prio_stepf_notin : forall T c l,
  ~ In c (addrs l) -> sum_prio (map (stepf T c) l) = sum_prio l + sum_power l.
Proof.
  induction l as [|v r IH]; intro N; [reflexivity|].
  cbn [map]. rewrite !sum_prio_cons, sum_power_cons, stepf_prio.
  cbn [addrs map In] in N.
  destruct (bytes_eqb (v_addr v) c) eqn:E.
  - apply bytes_eqb_eq in E. exfalso. apply N. left. exact E.
  - rewrite IH; [lia|]. intro H. apply N. right. exact H.
Qed.

Lemma sum_prio_stepf_in : forall T c l,
  NoDup (addrs l) -> In c (addrs l) ->
  sum_prio (map (stepf T c) l) = sum_prio l + sum_power l - T.
Proof.
  induction l as [|v r IH]; intros ND Hc; [destruct Hc|].
  cbn [addrs map] in ND. apply NoDup_cons_iff in ND as [N1 N2].
  cbn [map]. rewrite !sum_prio_cons, sum_power_cons, stepf_prio.
  destruct (bytes_eqb (v_addr v) c) eqn:E.
  - apply bytes_eqb_eq in E. subst c. rewrite sum_prio_stepf_notin by exact N1. lia.
  - apply bytes_eqb_neq in E. destruct Hc as [Hc|Hc]; [contradiction|].
    rewrite IH by assumption. lia.
Qed.

Lemma find_addr_stepf : forall T c a l,
  find_addr a (map (stepf T c) l) = option_map (stepf T c) (find_addr a l).
Proof.
  induction l as [|v r IH]; [reflexivity|].
  cbn [map find_addr]. rewrite stepf_addr.
  destruct (bytes_eqb (v_addr v) a); [reflexivity|exact IH].
Qed.

Lemma find_addr_some : forall a l v, find_addr a l = Some v -> In v l /\ v_addr v = a.
Proof.
  induction l as [|y r IH]; intros v H; [discriminate|].
  cbn [find_addr] in H. destruct (bytes_eqb (v_addr y) a) eqn:E.
  - injection H as <-. apply bytes_eqb_eq in E. split; [left; reflexivity|exact E].
  - apply IH in H as [H1 H2]. split; [right; exact H1|exact H2].
Qed.

Lemma find_addr_in : forall a l, In a (addrs l) -> exists v, find_addr a l = Some v.
Proof.
  induction l as [|y r IH]; intro H; [destruct H|].
  cbn [find_addr]. destruct (bytes_eqb (v_addr y) a) eqn:E; [eauto|].
  apply bytes_eqb_neq in E. destruct H as [H|H]; [contradiction|auto].
Qed.

Lemma prio_of_stepf : forall T c a l,
  In a (addrs l) ->
  prio_of a (map (stepf T c) l) = prio_of a l + pow_of a l - (if bytes_eqb a c then T else 0).
Proof.
  intros T c a l H. unfold prio_of, pow_of. rewrite find_addr_stepf.
  destruct (find_addr_in _ _ H) as [v Hv]. rewrite Hv. cbn [option_map].
  apply find_addr_some in Hv as [_ <-]. rewrite stepf_prio.
  destruct (bytes_eqb (v_addr v) c); lia.
Qed.

Lemma pow_of_stepf : forall T c a l, pow_of a (map (stepf T c) l) = pow_of a l.
Proof.
  intros. unfold pow_of. rewrite find_addr_stepf.
  destruct (find_addr a l); reflexivity.
Qed.

Lemma WF_stepf : forall T c l, WF T l -> WF T (map (stepf T c) l).
Proof.
  intros T c l (H1 & H2 & H3 & H4 & H5). repeat split.
  - destruct l; [contradiction|discriminate].
  - rewrite addrs_stepf. exact H2.
  - apply Forall_map. cbn. exact H3.
  - rewrite sum_power_stepf. exact H4.
  - exact H5.
Qed.

Lemma WF_power_le : forall T l, WF T l -> Forall (fun v => 0 < v_power v <= T) l.
Proof.
  intros T l (_ & _ & H3 & H4 & _). subst T.
  induction l as [|v r IH]; [constructor|].
  inversion H3; subst. specialize (IH H2).
  assert (0 <= sum_power r).
  { clear -H2. induction r as [|y r IH]; [cbn; lia|]. inversion H2; subst.
    rewrite sum_power_cons. specialize (IH H3). lia. }
  rewrite sum_power_cons. constructor; [lia|].
  eapply Forall_impl; [|exact IH]. cbn. intros; lia.
Qed.

(* one step of [run_raw] on a well-formed list *)
Lemma run_raw_S_inv : forall T l k lf ps,
  WF T l -> run_raw (S k) T l = (lf, ps) ->
  exists m0 ps', In m0 l /\ ps = v_addr m0 :: ps' /\
    run_raw k T (map (stepf T (v_addr m0)) l) = (lf, ps') /\
    (forall v, In v l -> v_prio v + v_power v <= v_prio m0 + v_power m0).
Proof.
  intros T l k lf ps W H.
  destruct W as (H1 & H2 & _).
  destruct (inc_raw_step T l H1 H2) as (m0 & In0 & E & Hmax).
  cbn [run_raw] in H. rewrite E in H.
  destruct (run_raw k T (map (stepf T (v_addr m0)) l)) as [lf' ps'] eqn:R.
  injection H as <- <-. exists m0, ps'. repeat split; auto.
Qed.

(* ------------------------------------------------------------------ 1. structure *)

Theorem run_raw_structure : forall k T l lf ps,
  WF T l -> run_raw k T l = (lf, ps) ->
  addrs lf = addrs l /\ map v_power lf = map v_power l /\ WF T lf /\
  length ps = k /\ Forall (fun a => In a (addrs l)) ps /\ sum_prio lf = sum_prio l /\
  (forall a, pow_of a lf = pow_of a l).
Proof.
  induction k as [|k IH]; intros T l lf ps W H.
  - cbn in H. injection H as <- <-. repeat split; auto; apply W.
  - destruct (run_raw_S_inv _ _ _ _ _ W H) as (m0 & ps' & In0 & -> & R & _).
    apply IH in R as (A1 & A2 & A3 & A4 & A5 & A6 & A7); [|apply WF_stepf; exact W].
    rewrite addrs_stepf in A1, A5. rewrite powers_stepf in A2.
    split; [exact A1|]. split; [exact A2|]. split; [exact A3|].
    split; [cbn; congruence|]. split.
    + constructor; [apply in_map; exact In0|exact A5].
    + split.
      * rewrite A6. destruct W as (_ & ND & _ & HT & _).
        rewrite sum_prio_stepf_in; [lia|exact ND|apply in_map; exact In0].
      * intro a. rewrite A7. apply pow_of_stepf.
Qed.

Corollary run_raw_WF : forall k T l lf ps, WF T l -> run_raw k T l = (lf, ps) -> WF T lf.
Proof. intros. eapply run_raw_structure; eauto. Qed.
Corollary run_raw_length : forall k T l lf (ps : list bytes),
  WF T l -> run_raw k T l = (lf, ps) -> length ps = k.
Proof. intros. eapply run_raw_structure; eauto. Qed.
Corollary run_raw_sum_prio : forall k T l lf ps,
  WF T l -> run_raw k T l = (lf, ps) -> sum_prio lf = sum_prio l.
Proof. intros. eapply run_raw_structure; eauto. Qed.

(* ------------------------------------------------------------------ 2. accounting identity *)

Lemma count_cons : forall a c ps,
  count a (c :: ps) = (if bytes_eqb a c then 1 else 0) + count a ps.
Proof.
  intros. unfold count. cbn [filter]. destruct (bytes_eqb a c); [|lia].
  cbn [length]. lia.
Qed.

Theorem turns_accounting : forall T l k lf ps a,
  WF T l -> run_raw k T l = (lf, ps) -> In a (addrs l) ->
  T * count a ps = Z.of_nat k * pow_of a l + prio_of a l - prio_of a lf.
Proof.
  intros T l k; revert l. induction k as [|k IH]; intros l lf ps a W H Ha.
  - cbn in H. injection H as <- <-. unfold count. cbn. lia.
  - destruct (run_raw_S_inv _ _ _ _ _ W H) as (m0 & ps' & In0 & -> & R & _).
    specialize (IH _ _ _ a (WF_stepf T (v_addr m0) l W) R).
    rewrite addrs_stepf in IH. specialize (IH Ha).
    rewrite pow_of_stepf, prio_of_stepf in IH by exact Ha.
    rewrite count_cons. rewrite Nat2Z.inj_succ.
    destruct (bytes_eqb a (v_addr m0)); lia.
Qed.

(* ------------------------------------------------------------------ 3. lower bound on priorities *)

Lemma sum_le_max : forall l M,
  (forall v, In v l -> v_prio v + v_power v <= M) ->
  sum_prio l + sum_power l <= Z.of_nat (length l) * M.
Proof.
  induction l as [|y r IH]; intros M H; [cbn; lia|].
  rewrite sum_prio_cons, sum_power_cons. cbn [length]. rewrite Nat2Z.inj_succ.
  assert (H1 := H y (or_introl eq_refl)).
  assert (H2 := IH M (fun v Hv => H v (or_intror Hv))). lia.
Qed.

(* the chosen validator's priority (after the addition) is at least the mean, hence positive *)
Lemma chosen_positive : forall T l M,
  WF T l -> 0 <= sum_prio l ->
  (forall v, In v l -> v_prio v + v_power v <= M) -> 0 < M.
Proof.
  intros T l M (_ & _ & _ & HT & HT0) HS H.
  apply sum_le_max in H.
  assert (0 <= Z.of_nat (length l)) by lia. nia.
Qed.

Lemma step_lower : forall T l L m0,
  WF T l -> 0 <= sum_prio l -> L <= 1 - T -> In m0 l ->
  (forall v, In v l -> v_prio v + v_power v <= v_prio m0 + v_power m0) ->
  Forall (fun v => L <= v_prio v) l ->
  Forall (fun v => L <= v_prio v) (map (stepf T (v_addr m0)) l).
Proof.
  intros T l L m0 W HS HL In0 Hmax HF.
  assert (HM := chosen_positive _ _ _ W HS Hmax).
  destruct W as (_ & ND & HP & _ & _).
  apply Forall_map. rewrite Forall_forall in *. intros v Hv. rewrite stepf_prio.
  destruct (bytes_eqb (v_addr v) (v_addr m0)) eqn:E.
  - apply bytes_eqb_eq in E. assert (v = m0) by (apply (addr_unique l); auto). subst v. lia.
  - specialize (HF v Hv). specialize (HP v Hv). cbn in HP. lia.
Qed.

(* strict form: the bound L may be as high as 1 - T *)
Theorem prio_lower_bound_strict : forall T l k lf ps L,
  WF T l -> 0 <= sum_prio l -> L <= 1 - T ->
  Forall (fun v => L <= v_prio v) l -> run_raw k T l = (lf, ps) ->
  Forall (fun v => L <= v_prio v) lf.
Proof.
  intros T l k; revert l. induction k as [|k IH]; intros l lf ps L W HS HL HF H.
  - cbn in H. injection H as <- <-. exact HF.
  - destruct (run_raw_S_inv _ _ _ _ _ W H) as (m0 & ps' & In0 & -> & R & Hmax).
    eapply IH; [| | |apply step_lower|exact R]; eauto.
    + apply WF_stepf; exact W.
    + destruct W as (_ & ND & _ & HT & _).
      rewrite sum_prio_stepf_in; [lia|exact ND|apply in_map; exact In0].
Qed.

Theorem prio_lower_bound : forall T l k lf ps L,
  WF T l -> 0 <= sum_prio l -> L <= - T ->
  Forall (fun v => L <= v_prio v) l -> run_raw k T l = (lf, ps) ->
  Forall (fun v => L <= v_prio v) lf.
Proof. intros. eapply prio_lower_bound_strict; eauto. lia. Qed.

(* the proposer's own new priority is strictly above -T *)
Lemma proposer_prio_gt : forall T l l' m,
  WF T l -> 0 <= sum_prio l -> inc_raw T l = (l', Some m) -> - T < v_prio m.
Proof.
  intros T l l' m W HS H.
  destruct (inc_raw_step T l (proj1 W) (proj1 (proj2 W))) as (m0 & In0 & E & Hmax).
  rewrite E in H. injection H as _ <-.
  assert (HM := chosen_positive _ _ _ W HS Hmax).
  rewrite stepf_prio, bytes_eqb_refl. lia.
Qed.

(* sums against bounds on the other elements *)
Lemma sum_prio_ge : forall l L,
  Forall (fun w => L <= v_prio w) l -> Z.of_nat (length l) * L <= sum_prio l.
Proof.
  induction l as [|y r IH]; intros L H; [cbn; lia|].
  inversion H; subst. rewrite sum_prio_cons. cbn [length]. rewrite Nat2Z.inj_succ.
  specialize (IH L H3). lia.
Qed.
Lemma sum_prio_le : forall l U,
  Forall (fun w => v_prio w <= U) l -> sum_prio l <= Z.of_nat (length l) * U.
Proof.
  induction l as [|y r IH]; intros U H; [cbn; lia|].
  inversion H; subst. rewrite sum_prio_cons. cbn [length]. rewrite Nat2Z.inj_succ.
  specialize (IH U H3). lia.
Qed.
Lemma sum_prio_lower_others : forall l v L,
  Forall (fun w => L <= v_prio w) l -> In v l ->
  v_prio v + (Z.of_nat (length l) - 1) * L <= sum_prio l.
Proof.
  induction l as [|y r IH]; intros v L H Hv; [destruct Hv|].
  inversion H; subst. rewrite sum_prio_cons. cbn [length]. rewrite Nat2Z.inj_succ.
  destruct Hv as [<-|Hv].
  - apply sum_prio_ge in H3. lia.
  - specialize (IH v L H3 Hv). lia.
Qed.
Lemma sum_prio_upper_others : forall l v U,
  Forall (fun w => v_prio w <= U) l -> In v l ->
  sum_prio l <= v_prio v + (Z.of_nat (length l) - 1) * U.
Proof.
  induction l as [|y r IH]; intros v U H Hv; [destruct Hv|].
  inversion H; subst. rewrite sum_prio_cons. cbn [length]. rewrite Nat2Z.inj_succ.
  destruct Hv as [<-|Hv].
  - apply sum_prio_le in H3. lia.
  - specialize (IH v U H3 Hv). lia.
Qed.

Lemma length_addrs : forall l l' : list validator, addrs l = addrs l' -> length l = length l'.
Proof. intros l l' H. unfold addrs in H. rewrite <- (map_length v_addr l), H. apply map_length. Qed.

(* an upper bound on priorities that follows from the lower bound and the constant sum
   (weak: grows with the number of validators) *)
Theorem prio_upper_bound_partial : forall T l k lf ps L,
  WF T l -> 0 <= sum_prio l -> L <= 1 - T ->
  Forall (fun v => L <= v_prio v) l -> run_raw k T l = (lf, ps) ->
  Forall (fun v => v_prio v <= sum_prio l - (Z.of_nat (length l) - 1) * L) lf.
Proof.
  intros T l k lf ps L W HS HL HF H.
  assert (HF' := prio_lower_bound_strict _ _ _ _ _ _ W HS HL HF H).
  destruct (run_raw_structure _ _ _ _ _ W H) as (A1 & _ & _ & _ & _ & A6 & _).
  apply length_addrs in A1. rewrite <- A6, <- A1.
  apply Forall_forall. intros v Hv.
  assert (X := sum_prio_lower_others lf v L HF' Hv). lia.
Qed.

(* ------------------------------------------------------------------ 4./5. turns vs share *)

Lemma Forall_and_l : forall (l : list validator) L U,
  Forall (fun v => L <= v_prio v <= U) l ->
  Forall (fun v => L <= v_prio v) l /\ Forall (fun v => v_prio v <= U) l.
Proof.
  intros l L U H. split; (eapply Forall_impl; [|exact H]); cbn; intros; lia.
Qed.

(* general form: priorities initially within [L, U], L <= 1 - T *)
Theorem turns_deviation_general : forall T l k lf ps a L U,
  WF T l -> 0 <= sum_prio l -> L <= 1 - T ->
  Forall (fun v => L <= v_prio v <= U) l -> run_raw k T l = (lf, ps) -> In a (addrs l) ->
  - (Z.of_nat (length l) - 1) * (U - L) <= T * count a ps - Z.of_nat k * pow_of a l <= U - L.
Proof.
  intros T l k lf ps a L U W HS HL HF H Ha.
  rewrite (turns_accounting _ _ _ _ _ _ W H Ha).
  destruct (Forall_and_l _ _ _ HF) as [HFl HFu].
  assert (HF' := prio_lower_bound_strict _ _ _ _ _ _ W HS HL HFl H).
  destruct (run_raw_structure _ _ _ _ _ W H) as (A1 & _ & _ & _ & _ & A6 & _).
  assert (Ha' : In a (addrs lf)) by (rewrite A1; exact Ha).
  apply length_addrs in A1.
  unfold prio_of.
  destruct (find_addr_in _ _ Ha) as [v Hv]. destruct (find_addr_in _ _ Ha') as [v' Hv'].
  rewrite Hv, Hv'. apply find_addr_some in Hv as [Hv _]. apply find_addr_some in Hv' as [Hv' _].
  assert (X1 := sum_prio_lower_others lf v' L HF' Hv').
  assert (X2 := sum_prio_upper_others l v U HFu Hv).
  rewrite Forall_forall in HF, HF'. specialize (HF v Hv). specialize (HF' v' Hv').
  rewrite A1 in X1. nia.
Qed.

Theorem turns_upper : forall T l k lf ps a U,
  WF T l -> 0 <= sum_prio l ->
  Forall (fun v => - (2*T+1) <= v_prio v <= U) l -> run_raw k T l = (lf, ps) ->
  In a (addrs l) ->
  T * count a ps <= Z.of_nat k * pow_of a l + U + 2*T + 1.
Proof.
  intros T l k lf ps a U W HS HF H Ha.
  assert (HL : - (2*T+1) <= 1 - T) by (destruct W as (_ & _ & _ & _ & ?); lia).
  assert (X := turns_deviation_general _ _ _ _ _ _ _ _ W HS HL HF H Ha). lia.
Qed.

(* Sharp statement NOT proved here (it needs a sharp upper bound on priorities, i.e. that
   priorities stay in a window whose width does not depend on the number of validators; only
   the lower bound -T is sharp above, the upper bound [prio_upper_bound_partial] grows with n):
     (a) exists C independent of length l, for every k,
           - C * T <= T * count a ps - Z.of_nat k * pow_of a l <= C * T.
   The other sharp statement,
     (b) from all-zero priorities, T rounds give validator a exactly pow_of a l turns and
         bring the list back to its start (so do j*T rounds, j*pow_of a l turns),
   only needs the strict lower bound and IS proved below: [turns_exact_period],
   [turns_exact_periods].
   Proved here: deviation bounded by a constant that grows with the number of validators. *)
Theorem turns_proportional_partial : forall T l k lf ps a,
  WF T l -> 0 <= sum_prio l ->
  Forall (fun v => - (2*T+1) <= v_prio v <= 2*T+1) l -> run_raw k T l = (lf, ps) ->
  In a (addrs l) ->
  - (Z.of_nat (length l) - 1) * (4*T + 2) <= T * count a ps - Z.of_nat k * pow_of a l <= 4*T + 2.
Proof.
  intros T l k lf ps a W HS HF H Ha.
  assert (HL : - (2*T+1) <= 1 - T) by (destruct W as (_ & _ & _ & _ & ?); lia).
  assert (X := turns_deviation_general _ _ _ _ _ _ _ _ W HS HL HF H Ha).
  replace (2*T+1 - - (2*T+1)) with (4*T+2) in X by lia. exact X.
Qed.

(* ------------------------------------------------------------------ 6. window lemma *)

Lemma count_pos_in : forall a (ps : list bytes), 0 < count a ps -> In a ps.
Proof.
  intros a ps H. unfold count in H.
  destruct (filter (bytes_eqb a) ps) as [|x r] eqn:E; [cbn in H; lia|].
  assert (Hx : In x (filter (bytes_eqb a) ps)) by (rewrite E; left; reflexivity).
  apply filter_In in Hx as [Hx1 Hx2]. apply bytes_eqb_eq in Hx2. subst x. exact Hx1.
Qed.

Theorem proposer_window_general : forall T l k lf ps a L U,
  WF T l -> 0 <= sum_prio l -> L <= 1 - T ->
  Forall (fun v => L <= v_prio v <= U) l -> run_raw k T l = (lf, ps) -> In a (addrs l) ->
  Z.of_nat k * pow_of a l > (Z.of_nat (length l) - 1) * (U - L) -> In a ps.
Proof.
  intros T l k lf ps a L U W HS HL HF H Ha Hk.
  assert (X := turns_deviation_general _ _ _ _ _ _ _ _ W HS HL HF H Ha).
  apply count_pos_in. destruct W as (_ & _ & _ & _ & HT). nia.
Qed.

Theorem proposer_window : forall T l k lf ps a,
  WF T l -> 0 <= sum_prio l ->
  Forall (fun v => - (2*T+1) <= v_prio v <= 2*T+1) l -> run_raw k T l = (lf, ps) ->
  In a (addrs l) ->
  Z.of_nat k * pow_of a l > (Z.of_nat (length l) - 1) * (4*T + 2) -> In a ps.
Proof.
  intros T l k lf ps a W HS HF H Ha Hk.
  assert (HL : - (2*T+1) <= 1 - T) by (destruct W as (_ & _ & _ & _ & ?); lia).
  eapply proposer_window_general; eauto.
  replace (2*T+1 - - (2*T+1)) with (4*T+2) by lia. exact Hk.
Qed.

(* the window lemma at any later time: the lower bound L and the sum S of the priorities are
   invariants of the iteration, and together they bound every priority by S - (n-1)*L *)
Theorem proposer_window_anytime : forall T l k0 l0 ps0 k lf ps a L,
  WF T l -> 0 <= sum_prio l -> L <= 1 - T ->
  Forall (fun v => L <= v_prio v) l ->
  run_raw k0 T l = (l0, ps0) -> run_raw k T l0 = (lf, ps) -> In a (addrs l) ->
  Z.of_nat k * pow_of a l >
    (Z.of_nat (length l) - 1) * (sum_prio l - Z.of_nat (length l) * L) ->
  In a ps.
Proof.
  intros T l k0 l0 ps0 k lf ps a L W HS HL HF H0 H Ha Hk.
  assert (HF0 := prio_lower_bound_strict _ _ _ _ _ _ W HS HL HF H0).
  assert (HU0 := prio_upper_bound_partial _ _ _ _ _ _ W HS HL HF H0).
  destruct (run_raw_structure _ _ _ _ _ W H0) as (A1 & _ & A3 & _ & _ & A6 & A7).
  assert (Hlen : length l0 = length l) by (apply length_addrs; exact A1).
  apply (proposer_window_general T l0 k lf ps a L
           (sum_prio l - (Z.of_nat (length l) - 1) * L)); auto.
  - lia.
  - rewrite Forall_forall in *. intros v Hv. split; [apply HF0|apply HU0]; exact Hv.
  - rewrite A1. exact Ha.
  - rewrite A7, Hlen. lia.
Qed.

(* ------------------------------------------------------------------ 7. connection to the model *)

Lemma add_clip_exact : forall a b,
  min_int64 <= a + b <= max_int64 -> add_clip a b = a + b.
Proof.
  intros a b H. unfold add_clip.
  replace ((b >? 0) && (a >? max_int64 - b)) with false.
  2:{ symmetry. apply andb_false_iff. right. rewrite Z.gtb_ltb. apply Z.ltb_ge. lia. }
  replace ((b <? 0) && (a <? min_int64 - b)) with false.
  2:{ symmetry. apply andb_false_iff. right. apply Z.ltb_ge. lia. }
  reflexivity.
Qed.

Lemma sub_clip_exact : forall a b,
  min_int64 <= a - b <= max_int64 -> sub_clip a b = a - b.
Proof.
  intros a b H. unfold sub_clip.
  replace ((b >? 0) && (a <? min_int64 + b)) with false.
  2:{ symmetry. apply andb_false_iff. right. apply Z.ltb_ge. lia. }
  replace ((b <? 0) && (a >? max_int64 + b)) with false.
  2:{ symmetry. apply andb_false_iff. right. rewrite Z.gtb_ltb. apply Z.ltb_ge. lia. }
  reflexivity.
Qed.

Lemma inc_once_raw : forall T l B,
  Forall (fun v => - B <= v_prio v <= B) l ->
  Forall (fun v => 0 < v_power v <= T) l ->
  B + T <= max_int64 -> min_int64 <= - B - T ->
  inc_once T l = inc_raw T l.
Proof.
  intros T l B HB HP H1 H2. unfold inc_once, inc_raw. cbv zeta.
  rewrite Forall_forall in HB, HP.
  rewrite (map_ext_in (fun v => set_prio v (add_clip (v_prio v) (v_power v)))
                      (fun v => set_prio v (v_prio v + v_power v)) l).
  2:{ intros v Hv. specialize (HB v Hv). specialize (HP v Hv). cbn in HB, HP.
      rewrite add_clip_exact; [reflexivity|lia]. }
  destruct (most_prio (map (fun v => set_prio v (v_prio v + v_power v)) l)) as [[i m]|] eqn:E;
    [|reflexivity].
  apply most_prio_spec in E as [E _]. apply nth_error_In in E.
  apply in_map_iff in E as (v & <- & Hv).
  specialize (HB v Hv). specialize (HP v Hv). cbn in HB, HP. cbn [v_prio set_prio].
  rewrite sub_clip_exact; [reflexivity|lia].
Qed.

Lemma step_bounds : forall T c l B,
  0 <= T ->
  Forall (fun v => - B <= v_prio v <= B) l ->
  Forall (fun v => 0 < v_power v <= T) l ->
  Forall (fun v => - (B + T) <= v_prio v <= B + T) (map (stepf T c) l).
Proof.
  intros T c l B HT HB HP. apply Forall_map. rewrite Forall_forall in *.
  intros v Hv. specialize (HB v Hv). specialize (HP v Hv). cbn in HB, HP.
  rewrite stepf_prio. destruct (bytes_eqb (v_addr v) c); lia.
Qed.

Lemma run_raw_bounds : forall k T l B lf ps,
  WF T l -> Forall (fun v => - B <= v_prio v <= B) l -> run_raw k T l = (lf, ps) ->
  Forall (fun v => - (B + Z.of_nat k * T) <= v_prio v <= B + Z.of_nat k * T) lf.
Proof.
  induction k as [|k IH]; intros T l B lf ps W HB H.
  - cbn in H. injection H as <- <-. eapply Forall_impl; [|exact HB]. cbn. intros; lia.
  - destruct (run_raw_S_inv _ _ _ _ _ W H) as (m0 & ps' & In0 & -> & R & _).
    assert (HT : 0 <= T) by (destruct W as (_ & _ & _ & _ & ?); lia).
    apply (IH _ _ (B + T)) in R.
    + rewrite Nat2Z.inj_succ. eapply Forall_impl; [|exact R]. cbv beta. intros; lia.
    + apply WF_stepf; exact W.
    + apply step_bounds; auto. apply WF_power_le; exact W.
Qed.

(* as long as B + k*T fits in int64, k steps of the model (clipped arithmetic) are k steps of
   the plain-arithmetic copy, and the proposer left by the model is the last one chosen *)
Theorem inc_times_raw_full : forall k T l B p,
  WF T l -> Forall (fun v => - B <= v_prio v <= B) l ->
  B + Z.of_nat k * T <= max_int64 ->
  fst (inc_times k T l p) = fst (run_raw k T l) /\
  (k <> O -> exists m, snd (inc_times k T l p) = Some m /\
                       v_addr m = last (snd (run_raw k T l)) [] /\
                       In m (fst (run_raw k T l))).
Proof.
  induction k as [|k IH]; intros T l B p W HB Hfit.
  - split; [reflexivity|]. intro N; contradiction.
  - assert (HT : 0 < T) by (destruct W as (_ & _ & _ & _ & ?); lia).
    assert (HP := WF_power_le _ _ W).
    assert (Hk : 0 <= Z.of_nat k * T) by nia.
    assert (E1 : inc_once T l = inc_raw T l).
    { apply (inc_once_raw T l B); auto; unfold max_int64, min_int64 in *; lia. }
    destruct (inc_raw_step T l (proj1 W) (proj1 (proj2 W))) as (m0 & In0 & E2 & _).
    cbn [inc_times run_raw]. rewrite E1, E2.
    set (l' := map (stepf T (v_addr m0)) l).
    assert (W' : WF T l') by (apply WF_stepf; exact W).
    assert (HB' : Forall (fun v => - (B + T) <= v_prio v <= B + T) l')
      by (apply step_bounds; auto; lia).
    assert (Hfit' : B + T + Z.of_nat k * T <= max_int64) by lia.
    destruct (IH T l' (B + T) (Some (stepf T (v_addr m0) m0)) W' HB' Hfit') as [I1 I2].
    destruct (run_raw k T l') as [lf ps] eqn:R. cbn [fst snd] in *.
    split; [exact I1|]. intros _.
    destruct k as [|k].
    + cbn in R. injection R as <- <-. cbn [inc_times snd last].
      exists (stepf T (v_addr m0) m0). repeat split. apply in_map. exact In0.
    + destruct (I2 ltac:(discriminate)) as (m & M1 & M2 & M3).
      exists m. split; [exact M1|]. split; [|exact M3].
      rewrite M2. assert (length ps = S k) by (eapply run_raw_length; eauto).
      destruct ps; [discriminate|]. reflexivity.
Qed.

Theorem inc_times_raw : forall k T l B p,
  WF T l -> Forall (fun v => - B <= v_prio v <= B) l ->
  B + Z.of_nat k * T <= max_int64 ->
  fst (inc_times k T l p) = fst (run_raw k T l).
Proof. intros. eapply inc_times_raw_full; eauto. Qed.

(* ------------------------------------------------------------------ 5'. exact shares over whole periods
   (the sharp statement for the all-zero start: it only needs the strict lower bound) *)

Lemma find_addr_self : forall l v,
  NoDup (addrs l) -> In v l -> find_addr (v_addr v) l = Some v.
Proof.
  intros l v ND Hv.
  destruct (find_addr_in (v_addr v) l (in_map v_addr l v Hv)) as [w Hw].
  rewrite Hw. f_equal. apply find_addr_some in Hw as [H1 H2]. apply (addr_unique l); auto.
Qed.

Lemma sum_zero_nonneg : forall l,
  Forall (fun v => 0 <= v_prio v) l -> sum_prio l = 0 -> Forall (fun v => v_prio v = 0) l.
Proof.
  induction l as [|y r IH]; intros H S; [constructor|].
  inversion H; subst. rewrite sum_prio_cons in S.
  assert (X := sum_prio_ge r 0 H3).
  constructor; [lia|apply IH; auto; lia].
Qed.

Lemma sum_prio_zero : forall l, Forall (fun v => v_prio v = 0) l -> sum_prio l = 0.
Proof.
  induction l as [|y r IH]; intro H; [reflexivity|].
  inversion H; subst. rewrite sum_prio_cons, IH by assumption. lia.
Qed.

Lemma prio_of_zero : forall a l, Forall (fun v => v_prio v = 0) l -> prio_of a l = 0.
Proof.
  intros a l H. unfold prio_of. destruct (find_addr a l) as [v|] eqn:E; [|reflexivity].
  apply find_addr_some in E as [E _]. rewrite Forall_forall in H. apply H. exact E.
Qed.

Lemma val_list_eq_zero : forall l l',
  map v_addr l = map v_addr l' -> map v_power l = map v_power l' ->
  Forall (fun v => v_prio v = 0) l -> Forall (fun v => v_prio v = 0) l' -> l = l'.
Proof.
  induction l as [|x r IH]; intros [|y r'] A P Z1 Z2; try discriminate; [reflexivity|].
  cbn [map] in A, P. injection A as A1 A2. injection P as P1 P2.
  inversion Z1; subst. inversion Z2; subst.
  f_equal; [|apply IH; auto].
  destruct x, y; cbn in *; congruence.
Qed.

Theorem turns_exact_period : forall T l lf ps,
  WF T l -> Forall (fun v => v_prio v = 0) l -> run_raw (Z.to_nat T) T l = (lf, ps) ->
  lf = l /\ forall a, In a (addrs l) -> count a ps = pow_of a l.
Proof.
  intros T l lf ps W HZ H.
  assert (HT : 0 < T) by (destruct W as (_ & _ & _ & _ & ?); lia).
  assert (HS : sum_prio l = 0) by (apply sum_prio_zero; exact HZ).
  assert (HL : Forall (fun v => 1 - T <= v_prio v) l).
  { eapply Forall_impl; [|exact HZ]. cbv beta. intros; lia. }
  assert (HS0 : 0 <= sum_prio l) by lia.
  assert (HL' := prio_lower_bound_strict _ _ _ _ _ _ W HS0 (Z.le_refl _) HL H).
  destruct (run_raw_structure _ _ _ _ _ W H) as (A1 & A2 & A3 & _ & _ & A6 & _).
  assert (Acc : forall a, In a (addrs l) -> T * count a ps = T * pow_of a l - prio_of a lf).
  { intros a Ha. rewrite (turns_accounting _ _ _ _ _ _ W H Ha).
    rewrite Z2Nat.id by lia. rewrite (prio_of_zero a l HZ). lia. }
  assert (HZ' : Forall (fun v => v_prio v = 0) lf).
  { apply sum_zero_nonneg; [|lia].
    apply Forall_forall. intros v Hv.
    assert (Ha : In (v_addr v) (addrs l)) by (rewrite <- A1; apply in_map; exact Hv).
    specialize (Acc _ Ha). unfold prio_of in Acc.
    rewrite (find_addr_self lf v (proj1 (proj2 A3)) Hv) in Acc.
    rewrite Forall_forall in HL'. specialize (HL' v Hv). cbv beta in HL'.
    set (d := pow_of (v_addr v) l - count (v_addr v) ps).
    assert (D : v_prio v = T * d) by (unfold d; lia).
    rewrite D in *. destruct (Z_lt_le_dec d 0); nia. }
  assert (E : lf = l) by (apply val_list_eq_zero; auto).
  split; [exact E|]. intros a Ha. specialize (Acc a Ha).
  rewrite (prio_of_zero a lf HZ') in Acc. nia.
Qed.

Lemma run_raw_add : forall k1 k2 T l l1 ps1 l2 ps2,
  WF T l -> run_raw k1 T l = (l1, ps1) -> run_raw k2 T l1 = (l2, ps2) ->
  run_raw (k1 + k2) T l = (l2, ps1 ++ ps2).
Proof.
  induction k1 as [|k1 IH]; intros k2 T l l1 ps1 l2 ps2 W H1 H2.
  - cbn in H1. injection H1 as <- <-. exact H2.
  - destruct (inc_raw_step T l (proj1 W) (proj1 (proj2 W))) as (m0 & In0 & E & _).
    cbn [run_raw] in H1. rewrite E in H1.
    destruct (run_raw k1 T (map (stepf T (v_addr m0)) l)) as [lf' ps'] eqn:R.
    injection H1 as <- <-.
    cbn [Nat.add run_raw]. rewrite E.
    rewrite (IH k2 T _ _ _ _ _ (WF_stepf T (v_addr m0) l W) R H2). reflexivity.
Qed.

Lemma count_app : forall a ps1 ps2, count a (ps1 ++ ps2) = count a ps1 + count a ps2.
Proof. intros. unfold count. rewrite filter_app, app_length. lia. Qed.

(* from all-zero priorities the schedule is periodic with period T, and in j whole periods
   validator a gets exactly j * power(a) turns *)
Theorem turns_exact_periods : forall j T l lf ps,
  WF T l -> Forall (fun v => v_prio v = 0) l ->
  run_raw (j * Z.to_nat T) T l = (lf, ps) ->
  lf = l /\ forall a, In a (addrs l) -> count a ps = Z.of_nat j * pow_of a l.
Proof.
  induction j as [|j IH]; intros T l lf ps W HZ H.
  - cbn in H. injection H as <- <-. split; [reflexivity|]. intros. unfold count. cbn. lia.
  - cbn [Nat.mul] in H.
    destruct (run_raw (Z.to_nat T) T l) as [l1 ps1] eqn:R1.
    destruct (turns_exact_period _ _ _ _ W HZ R1) as [E1 C1]. subst l1.
    destruct (run_raw (j * Z.to_nat T) T l) as [l2 ps2] eqn:R2.
    destruct (IH _ _ _ _ W HZ R2) as [E2 C2]. subst l2.
    rewrite (run_raw_add _ _ _ _ _ _ _ _ W R1 R2) in H. injection H as <- <-.
    split; [reflexivity|]. intros a Ha.
    rewrite count_app, C1, C2 by exact Ha. lia.
Qed.

(* ------------------------------------------------------------------ non-vacuity examples *)

Definition ex_l : list validator :=
  [mkVal [1%N] 5 0; mkVal [2%N] 3 0; mkVal [3%N] 1 0].

Lemma ex_WF : WF 9 ex_l.
Proof.
  unfold WF. split; [discriminate|]. split.
  - cbn. repeat constructor; cbn; intuition discriminate.
  - split; [repeat constructor|]. split; [reflexivity|reflexivity].
Qed.

Lemma ex_bounds : Forall (fun v => - (2*9+1) <= v_prio v <= 2*9+1) ex_l.
Proof. repeat constructor; cbn; discriminate. Qed.

Lemma ex_sum : 0 <= sum_prio ex_l.
Proof. vm_compute. discriminate. Qed.

(* 18 = 2T rounds: the counts are 10, 6, 2 = 2 * powers, and the list is back at its start *)
Example ex_counts :
  let '(lf, ps) := run_raw 18 9 ex_l in
  (count [1%N] ps, count [2%N] ps, count [3%N] ps) = (10, 6, 2) /\ lf = ex_l /\
  ps = [[1%N];[2%N];[1%N];[3%N];[1%N];[2%N];[1%N];[2%N];[1%N];
        [1%N];[2%N];[1%N];[3%N];[1%N];[2%N];[1%N];[2%N];[1%N]].
Proof. vm_compute. repeat split; reflexivity. Qed.

(* the accounting identity, numerically, on a window where priorities do not return to 0 *)
Example ex_accounting :
  let '(lf, ps) := run_raw 7 9 ex_l in
  map (fun a => (9 * count a ps, 7 * pow_of a ex_l + prio_of a ex_l - prio_of a lf))
      (addrs ex_l) = [(36, 36); (18, 18); (9, 9)] /\
  map v_prio lf = [-1; 3; -2].
Proof. vm_compute. split; reflexivity. Qed.

Example ex_accounting_thm :
  9 * count [2%N] (snd (run_raw 7 9 ex_l)) =
  7 * pow_of [2%N] ex_l + prio_of [2%N] ex_l - prio_of [2%N] (fst (run_raw 7 9 ex_l)).
Proof.
  apply (turns_accounting 9 ex_l 7 _ _ [2%N] ex_WF).
  - destruct (run_raw 7 9 ex_l); reflexivity.
  - vm_compute. auto.
Qed.

(* the lower bound is about something: priorities do go negative, but stay above -T *)
Example ex_lower :
  map v_prio (fst (run_raw 1 9 ex_l)) = [-4; 3; 1] /\
  Forall (fun v => - 9 <= v_prio v) (fst (run_raw 100 9 ex_l)).
Proof.
  split; [vm_compute; reflexivity|].
  apply (prio_lower_bound 9 ex_l 100 _ (snd (run_raw 100 9 ex_l)) (-9) ex_WF ex_sum).
  - lia.
  - repeat constructor; cbn; discriminate.
  - destruct (run_raw 100 9 ex_l); reflexivity.
Qed.

Example ex_structure :
  let '(lf, ps) := run_raw 5 9 ex_l in
  addrs lf = addrs ex_l /\ map v_power lf = [5; 3; 1] /\ length ps = 5%nat /\ sum_prio lf = 0.
Proof. vm_compute. repeat split; reflexivity. Qed.

Example ex_turns_upper :
  9 * count [1%N] (snd (run_raw 7 9 ex_l)) <= 7 * pow_of [1%N] ex_l + 19 + 2*9 + 1.
Proof.
  apply (turns_upper 9 ex_l 7 (fst (run_raw 7 9 ex_l)) _ [1%N] 19 ex_WF ex_sum ex_bounds).
  - destruct (run_raw 7 9 ex_l); reflexivity.
  - vm_compute. auto.
Qed.

Example ex_turns_proportional :
  - (3 - 1) * (4*9 + 2) <= 9 * count [3%N] (snd (run_raw 40 9 ex_l)) - 40 * pow_of [3%N] ex_l
    <= 4*9 + 2 /\
  9 * count [3%N] (snd (run_raw 40 9 ex_l)) - 40 * pow_of [3%N] ex_l = 5.
Proof.
  split; [|vm_compute; reflexivity].
  apply (turns_proportional_partial 9 ex_l 40 (fst (run_raw 40 9 ex_l)) _ [3%N]
           ex_WF ex_sum ex_bounds).
  - destruct (run_raw 40 9 ex_l); reflexivity.
  - vm_compute. auto.
Qed.

(* window: 16 * 5 = 80 > (3-1) * 38 = 76, so validator 1 proposes within any 16 rounds;
   77 * 1 > 76, so validator 3 proposes within any 77 rounds (in fact within 4) *)
Example ex_window :
  In [1%N] (snd (run_raw 16 9 ex_l)) /\ In [3%N] (snd (run_raw 77 9 ex_l)).
Proof.
  split.
  - apply (proposer_window 9 ex_l 16 (fst (run_raw 16 9 ex_l)) _ [1%N] ex_WF ex_sum ex_bounds).
    + destruct (run_raw 16 9 ex_l); reflexivity.
    + vm_compute. auto.
    + vm_compute. reflexivity.
  - apply (proposer_window 9 ex_l 77 (fst (run_raw 77 9 ex_l)) _ [3%N] ex_WF ex_sum ex_bounds).
    + destruct (run_raw 77 9 ex_l); reflexivity.
    + vm_compute. auto.
    + vm_compute. reflexivity.
Qed.
(* the window hypothesis cannot simply be dropped: in 3 rounds validator 3 does not propose *)
Example ex_window_needed : ~ In [3%N] (snd (run_raw 3 9 ex_l)).
Proof. vm_compute. intuition discriminate. Qed.

(* any window of 10 rounds, here the one after 4 rounds: 10 * 5 = 50 > (3-1) * (0 + 3*8) = 48 *)
Example ex_window_anytime :
  In [1%N] (snd (run_raw 10 9 (fst (run_raw 4 9 ex_l)))).
Proof.
  apply (proposer_window_anytime 9 ex_l 4 (fst (run_raw 4 9 ex_l)) (snd (run_raw 4 9 ex_l)) 10
           (fst (run_raw 10 9 (fst (run_raw 4 9 ex_l)))) _ [1%N] (-8) ex_WF ex_sum).
  - lia.
  - repeat constructor; cbn; discriminate.
  - destruct (run_raw 4 9 ex_l); reflexivity.
  - destruct (run_raw 10 9 (fst (run_raw 4 9 ex_l))); reflexivity.
  - vm_compute. auto.
  - vm_compute. reflexivity.
Qed.

(* one period computed directly (cf. turns_exact_period): T rounds from zero *)
Example ex_sharp_evidence :
  let '(lf, ps) := run_raw 9 9 ex_l in
  (count [1%N] ps, count [2%N] ps, count [3%N] ps) = (5, 3, 1) /\ lf = ex_l.
Proof. vm_compute. split; reflexivity. Qed.

(* whole periods from zero priorities: exact shares (theorem instance, 3 periods = 27 rounds) *)
Lemma ex_zero : Forall (fun v => v_prio v = 0) ex_l.
Proof. repeat constructor. Qed.
Example ex_exact_periods :
  fst (run_raw 27 9 ex_l) = ex_l /\
  (count [1%N] (snd (run_raw 27 9 ex_l)), count [2%N] (snd (run_raw 27 9 ex_l)),
   count [3%N] (snd (run_raw 27 9 ex_l))) = (15, 9, 3).
Proof.
  destruct (turns_exact_periods 3 9 ex_l (fst (run_raw 27 9 ex_l)) (snd (run_raw 27 9 ex_l))
              ex_WF ex_zero) as [E C].
  - change (3 * Z.to_nat 9)%nat with 27%nat. destruct (run_raw 27 9 ex_l); reflexivity.
  - split; [exact E|].
    rewrite (C [1%N]), (C [2%N]), (C [3%N]) by (vm_compute; auto). vm_compute. reflexivity.
Qed.
Example ex_exact_period_thm :
  forall a, In a (addrs ex_l) -> count a (snd (run_raw (Z.to_nat 9) 9 ex_l)) = pow_of a ex_l.
Proof.
  apply (turns_exact_period 9 ex_l (fst (run_raw (Z.to_nat 9) 9 ex_l)) _ ex_WF ex_zero).
  destruct (run_raw (Z.to_nat 9) 9 ex_l); reflexivity.
Qed.

(* model connection: the model's clipped iteration coincides with the raw one here ... *)
Example ex_inc_times :
  inc_times 18 9 ex_l None = (ex_l, Some (mkVal [1%N] 5 0)) /\
  fst (inc_times 18 9 ex_l None) = fst (run_raw 18 9 ex_l).
Proof. vm_compute. split; reflexivity. Qed.
Example ex_inc_times_thm : fst (inc_times 18 9 ex_l None) = fst (run_raw 18 9 ex_l).
Proof.
  apply (inc_times_raw 18 9 ex_l 0 None ex_WF).
  - repeat constructor; cbn; discriminate.
  - vm_compute. discriminate.
Qed.
Example ex_inc_once_thm : inc_once 9 ex_l = inc_raw 9 ex_l.
Proof.
  apply (inc_once_raw 9 ex_l 0).
  - repeat constructor; cbn; discriminate.
  - repeat constructor; cbn; discriminate.
  - vm_compute. discriminate.
  - vm_compute. discriminate.
Qed.
(* ... and the bound hypothesis of inc_once_raw is needed: near max_int64 the model clips *)
Example ex_clip_differs :
  let l := [mkVal [1%N] 5 (max_int64 - 2)] in
  fst (inc_once 5 l) = [mkVal [1%N] 5 (max_int64 - 5)] /\
  fst (inc_raw 5 l) = [mkVal [1%N] 5 (max_int64 - 2)].
Proof. vm_compute. split; reflexivity. Qed.
