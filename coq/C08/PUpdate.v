(* C08 — proofs about the validator-set update batch (update_with_change_set, update,
   new_validator_set) of C08/Model.v. *)
From Coq Require Import List ZArith NArith Bool Lia Permutation Sorted.
From TM Require Import Common.Hex Generated.Consts C08.Model.
Import ListNotations.
Open Scope Z_scope.

(* ------------------------------------------------------------------ bytes_cmp is a total order *)

Lemma bytes_cmp_eq : forall a b, bytes_cmp a b = Eq <-> a = b.
Proof.
  induction a as [|x a IH]; destruct b as [|y b]; cbn [bytes_cmp]; split; intro H;
    try reflexivity; try discriminate.
  - destruct (N.compare x y) eqn:E; try discriminate.
    apply N.compare_eq in E. apply IH in H. congruence.
  - inversion H; subst. rewrite N.compare_refl. apply IH. reflexivity.
Qed.

Lemma bytes_cmp_opp : forall a b, bytes_cmp b a = CompOpp (bytes_cmp a b).
Proof.
  induction a as [|x a IH]; destruct b as [|y b]; cbn [bytes_cmp]; try reflexivity.
  rewrite (N.compare_antisym x y). destruct (N.compare x y); cbn [CompOpp]; auto.
Qed.

Lemma bytes_cmp_lt_trans : forall a b c,
  bytes_cmp a b = Lt -> bytes_cmp b c = Lt -> bytes_cmp a c = Lt.
Proof.
  induction a as [|x a IH]; destruct b as [|y b]; destruct c as [|z c]; cbn [bytes_cmp];
    intros H1 H2; try discriminate; try reflexivity.
  destruct (N.compare x y) eqn:E1; try discriminate;
    destruct (N.compare y z) eqn:E2; try discriminate.
  - apply N.compare_eq in E1. apply N.compare_eq in E2. subst. rewrite N.compare_refl.
    eapply IH; eauto.
  - apply N.compare_eq in E1. subst. rewrite E2. reflexivity.
  - apply N.compare_eq in E2. subst. rewrite E1. reflexivity.
  - rewrite N.compare_lt_iff in E1, E2. assert (L : (x < z)%N) by lia.
    apply N.compare_lt_iff in L. rewrite L. reflexivity.
Qed.

Lemma bytes_cmp_refl : forall a, bytes_cmp a a = Eq.
Proof. intro a. apply bytes_cmp_eq. reflexivity. Qed.

Lemma bytes_eqb_neq : forall a b, bytes_eqb a b = false <-> a <> b.
Proof.
  intros a b. split.
  - intros H E. apply bytes_eqb_eq in E. congruence.
  - intro H. destruct (bytes_eqb a b) eqn:E; auto. apply bytes_eqb_eq in E. contradiction.
Qed.

Lemma addr_ltb_irrefl : forall a, addr_ltb a a = false.
Proof. intro a. unfold addr_ltb. rewrite bytes_cmp_refl. reflexivity. Qed.

Lemma addr_ltb_asym : forall a b, addr_ltb a b = true -> addr_ltb b a = false.
Proof.
  intros a b. unfold addr_ltb. rewrite (bytes_cmp_opp a b).
  destruct (bytes_cmp a b); cbn [CompOpp]; congruence.
Qed.

Lemma addr_ltb_trans : forall a b c, addr_ltb a b = true -> addr_ltb b c = true -> addr_ltb a c = true.
Proof.
  intros a b c. unfold addr_ltb.
  destruct (bytes_cmp a b) eqn:E1; try discriminate.
  destruct (bytes_cmp b c) eqn:E2; try discriminate.
  rewrite (bytes_cmp_lt_trans _ _ _ E1 E2). reflexivity.
Qed.

Lemma addr_ltb_total : forall a b, addr_ltb b a = false -> a <> b -> addr_ltb a b = true.
Proof.
  intros a b. unfold addr_ltb. rewrite (bytes_cmp_opp a b).
  destruct (bytes_cmp a b) eqn:E; cbn [CompOpp]; try congruence.
  apply bytes_cmp_eq in E. intros _ N. contradiction.
Qed.

Lemma addr_ltb_neq : forall a b, addr_ltb a b = true -> a <> b.
Proof. intros a b H E. subst. rewrite addr_ltb_irrefl in H. discriminate. Qed.

Lemma bytes_eq_dec : forall a b : bytes, {a = b} + {a <> b}.
Proof. apply list_eq_dec. apply N.eq_dec. Qed.

(* ------------------------------------------------------------------ insertion sort, generically *)

Section SortFacts.
Context {A : Type} (ltb : A -> A -> bool).
Hypothesis ltb_asym : forall a b, ltb a b = true -> ltb b a = false.

Definition leb_of (a b : A) : Prop := ltb b a = false.

Lemma insert_by_perm : forall x l, Permutation (x :: l) (insert_by ltb x l).
Proof.
  intros x l. induction l as [|y r IH]; cbn [insert_by]; auto.
  destruct (ltb y x); auto.
  eapply perm_trans; [apply perm_swap|]. apply perm_skip. exact IH.
Qed.

Lemma sort_by_perm : forall l, Permutation l (sort_by ltb l).
Proof.
  induction l as [|x r IH]; cbn [sort_by]; auto.
  eapply perm_trans; [|apply insert_by_perm]. apply perm_skip. exact IH.
Qed.

Lemma insert_by_sorted : forall x l, Sorted leb_of l -> Sorted leb_of (insert_by ltb x l).
Proof.
  intros x l. induction l as [|y r IH]; intro S; cbn [insert_by].
  - repeat constructor.
  - destruct (ltb y x) eqn:E.
    + inversion S as [|? ? Sr Hd]; subst. constructor; [apply IH; exact Sr|].
      destruct r as [|z r']; cbn [insert_by].
      * constructor. unfold leb_of. apply ltb_asym. exact E.
      * destruct (ltb z x).
        -- inversion Hd; subst. constructor. assumption.
        -- constructor. unfold leb_of. apply ltb_asym. exact E.
    + constructor; [exact S|]. constructor. exact E.
Qed.

Lemma sort_by_sorted : forall l, Sorted leb_of (sort_by ltb l).
Proof.
  induction l as [|x r IH]; cbn [sort_by]; [constructor|]. apply insert_by_sorted. exact IH.
Qed.
End SortFacts.

(* strictly sorted lists that are permutations of each other are equal *)
Lemma ssorted_perm_eq : forall {A} (R : A -> A -> Prop),
  (forall a b, R a b -> R b a -> False) ->
  forall l1 l2, StronglySorted R l1 -> StronglySorted R l2 -> Permutation l1 l2 -> l1 = l2.
Proof.
  intros A R asym. induction l1 as [|a l1 IH]; intros l2 S1 S2 P.
  - apply Permutation_nil in P. congruence.
  - destruct l2 as [|b l2].
    + apply Permutation_sym in P. apply Permutation_nil in P. discriminate.
    + inversion S1 as [|? ? S1' F1]; subst. inversion S2 as [|? ? S2' F2]; subst.
      assert (E : a = b).
      { assert (Ia : In a (b :: l2)) by (eapply Permutation_in; [exact P|left; reflexivity]).
        assert (Ib : In b (a :: l1))
          by (eapply Permutation_in; [apply Permutation_sym; exact P|left; reflexivity]).
        destruct Ia as [Ea|Ia]; [congruence|]. destruct Ib as [Eb|Ib]; [congruence|].
        rewrite Forall_forall in F1, F2. exfalso. eapply asym; [apply F1|apply F2]; eauto. }
      subst b. f_equal. apply IH; auto. eapply Permutation_cons_inv; exact P.
Qed.

(* ------------------------------------------------------------------ definitions *)

Definition addrs (l : list validator) := map v_addr l.
Definition sum_power (l : list validator) : Z := fold_right (fun v s => v_power v + s) 0 l.
Definition Inv (l : list validator) : Prop :=
  NoDup (addrs l) /\ Forall (fun v => 0 < v_power v) l /\
  StronglySorted (fun a b => by_power a b = true) l /\
  0 < sum_power l <= max_total_voting_power /\ l <> [].

Definition lta (x y : validator) : Prop := by_addr x y = true.
Definition ASorted (l : list validator) : Prop := StronglySorted lta l.

Lemma lta_asym : forall a b, lta a b -> lta b a -> False.
Proof.
  unfold lta, by_addr. intros a b H1 H2. apply addr_ltb_asym in H1. congruence.
Qed.

Lemma lta_trans : forall a b c, lta a b -> lta b c -> lta a c.
Proof. unfold lta, by_addr. intros a b c. apply addr_ltb_trans. Qed.

Lemma by_addr_asym : forall a b, by_addr a b = true -> by_addr b a = false.
Proof. unfold by_addr. intros. apply addr_ltb_asym. assumption. Qed.

(* a non-strictly sorted list without duplicate addresses is strictly sorted *)
Section Strict.
Variable ltb : validator -> validator -> bool.
Hypothesis ltb_total : forall a b, ltb b a = false -> v_addr a <> v_addr b -> ltb a b = true.
Hypothesis ltb_trans : forall a b c, ltb a b = true -> ltb b c = true -> ltb a c = true.

Lemma le_sorted_strict : forall l,
  Sorted (leb_of ltb) l -> NoDup (addrs l) -> StronglySorted (fun a b => ltb a b = true) l.
Proof.
  intros l S N. apply Sorted_StronglySorted.
  { intros a b c. apply ltb_trans. }
  induction S as [|a l S IH Hd]; [constructor|].
  cbn [addrs map] in N. inversion N as [|? ? Nin N']; subst.
  constructor; [apply IH; exact N'|].
  destruct Hd as [|b l' Hab]; constructor.
  apply ltb_total; [exact Hab|]. intro E. apply Nin. cbn [map]. left. congruence.
Qed.
End Strict.

Lemma by_addr_total : forall a b, by_addr b a = false -> v_addr a <> v_addr b -> by_addr a b = true.
Proof. unfold by_addr. intros a b. apply addr_ltb_total. Qed.

Lemma sort_addr_asorted : forall l, NoDup (addrs l) -> ASorted (sort_by by_addr l).
Proof.
  intros l N. unfold ASorted, lta.
  apply (le_sorted_strict by_addr by_addr_total).
  - unfold by_addr. intros a b c. apply addr_ltb_trans.
  - apply sort_by_sorted. exact by_addr_asym.
  - eapply Permutation_NoDup; [|exact N]. unfold addrs. apply Permutation_map.
    apply sort_by_perm.
Qed.

Lemma asorted_nodup : forall l, ASorted l -> NoDup (addrs l).
Proof.
  induction 1 as [|a l S IH F]; cbn [addrs map]; constructor; [|exact IH].
  intro I. apply in_map_iff in I. destruct I as [x [E I]].
  rewrite Forall_forall in F. specialize (F x I). unfold lta, by_addr in F.
  rewrite E in F. rewrite addr_ltb_irrefl in F. discriminate.
Qed.

(* ------------------------------------------------------------------ processChanges *)

Lemma scan_cons_ok : forall prev c r res,
  scan_changes prev (c :: r) = Ok res ->
  bytes_eqb (v_addr c) prev = false /\ 0 <= v_power c <= max_total_voting_power /\
  exists u d, scan_changes (v_addr c) r = Ok (u, d) /\
              res = if v_power c =? 0 then (u, c :: d) else (c :: u, d).
Proof.
  intros prev c r res. cbn [scan_changes].
  destruct (bytes_eqb (v_addr c) prev); [discriminate|].
  destruct (v_power c <? 0) eqn:E1; [discriminate|].
  destruct (v_power c >? max_total_voting_power) eqn:E2; [discriminate|].
  destruct (scan_changes (v_addr c) r) as [[u d]|e]; [|discriminate].
  intro H. split; [reflexivity|]. split.
  - apply Z.ltb_ge in E1. rewrite Z.gtb_ltb in E2. apply Z.ltb_ge in E2. lia.
  - exists u, d. split; [reflexivity|]. destruct (v_power c =? 0); congruence.
Qed.

Lemma scan_strict : forall l prev res,
  scan_changes prev l = Ok res -> Sorted (leb_of by_addr) l ->
  Sorted lta l /\ match l with c :: _ => v_addr c <> prev | [] => True end.
Proof.
  induction l as [|c l IH]; intros prev res H S; [split; [constructor|exact I]|].
  apply scan_cons_ok in H. destruct H as [Hne [_ [u [d [Hs _]]]]].
  inversion S as [|? ? S' Hd]; subst.
  destruct (IH _ _ Hs S') as [IS Ihd]. split.
  - constructor; [exact IS|]. destruct l as [|c' l']; constructor.
    inversion Hd; subst. apply by_addr_total; auto.
  - apply bytes_eqb_neq. exact Hne.
Qed.

Lemma process_changes_asorted : forall cs r,
  process_changes cs = Ok r -> ASorted (sort_by by_addr cs).
Proof.
  intros cs r H. unfold process_changes in H.
  apply scan_strict in H; [|apply sort_by_sorted; exact by_addr_asym].
  destruct H as [H _]. apply Sorted_StronglySorted; [|exact H].
  intros a b c. apply lta_trans.
Qed.

Lemma process_changes_nodup : forall cs r, process_changes cs = Ok r -> NoDup (addrs cs).
Proof.
  intros cs r H. apply process_changes_asorted in H. apply asorted_nodup in H.
  eapply Permutation_NoDup; [|exact H]. unfold addrs. apply Permutation_map.
  apply Permutation_sym. apply sort_by_perm.
Qed.

Lemma sort_addr_perm_eq : forall cs cs',
  NoDup (addrs cs) -> Permutation cs cs' -> sort_by by_addr cs = sort_by by_addr cs'.
Proof.
  intros cs cs' N P. apply (ssorted_perm_eq lta lta_asym).
  - apply sort_addr_asorted. exact N.
  - apply sort_addr_asorted. eapply Permutation_NoDup; [|exact N].
    unfold addrs. apply Permutation_map. exact P.
  - eapply perm_trans; [apply Permutation_sym; apply sort_by_perm|].
    eapply perm_trans; [exact P|]. apply sort_by_perm.
Qed.

Lemma process_changes_perm : forall cs cs' r,
  Permutation cs cs' -> process_changes cs = Ok r -> process_changes cs' = Ok r.
Proof.
  intros cs cs' r P H. unfold process_changes in *.
  rewrite <- (sort_addr_perm_eq cs cs'); auto. eapply process_changes_nodup. exact H.
Qed.

(* everything after processChanges *)
Definition update_tail (vs : valset) (r : list validator * list validator) (allow_deletes : bool)
  : res valset :=
  let vals := vs_vals vs in
  match r with
  | (ups, dels) =>
    if negb allow_deletes && negb (Nat.eqb (length dels) 0) then Err EDelNotAllowed
    else if Nat.eqb (num_new ups vals) 0 && Nat.eqb (length vals) (length dels) then Err EEmpty
    else match verify_removals dels vals with
    | Err e => Err e
    | Ok removed =>
      match verify_updates ups vals removed with
      | Err e => Err e
      | Ok tvp =>
        let ups' := compute_new_priorities ups vals tvp in
        let merged := apply_removals (merge_upd (sort_by by_addr vals) ups') dels in
        match total_power merged with
        | None => Err EPanic
        | Some total =>
          let l := shift_avg (rescale (priority_window_size_factor * total) merged) in
          Ok (mkVS (sort_by by_power l) (vs_prop vs))
        end
      end
    end
  end.

Lemma update_unfold : forall vs cs b,
  update_with_change_set vs cs b =
  match cs with
  | [] => Ok vs
  | _ => match process_changes cs with
         | Err e => Err e
         | Ok r => update_tail vs r b
         end
  end.
Proof.
  intros vs cs b. destruct cs; [reflexivity|]. unfold update_with_change_set, update_tail.
  destruct (process_changes (v :: cs)) as [[ups dels]|e]; reflexivity.
Qed.

Lemma update_perm_ok : forall vs cs cs' b vs',
  Permutation cs cs' ->
  update_with_change_set vs cs b = Ok vs' -> update_with_change_set vs cs' b = Ok vs'.
Proof.
  intros vs cs cs' b vs' P H. rewrite update_unfold in *.
  destruct cs as [|c cs0].
  - apply Permutation_nil in P. subst. exact H.
  - destruct cs' as [|c' cs0'].
    + apply Permutation_sym in P. apply Permutation_nil in P. discriminate.
    + destruct (process_changes (c :: cs0)) as [r|e] eqn:E; [|discriminate].
      rewrite (process_changes_perm _ _ _ P E). exact H.
Qed.

(* 1. Order independence *)
Theorem update_order_independent : forall vs cs cs' b vs',
  Permutation cs cs' ->
  (update_with_change_set vs cs b = Ok vs' <-> update_with_change_set vs cs' b = Ok vs').
Proof.
  intros vs cs cs' b vs' P. split; apply update_perm_ok; [exact P|apply Permutation_sym; exact P].
Qed.

Corollary update_order_independent_err : forall vs cs cs' b,
  Permutation cs cs' ->
  ((exists e, update_with_change_set vs cs b = Err e) <->
   (exists e, update_with_change_set vs cs' b = Err e)).
Proof.
  assert (K : forall vs cs cs' b, Permutation cs cs' ->
            (exists e, update_with_change_set vs cs b = Err e) ->
            (exists e, update_with_change_set vs cs' b = Err e)).
  { intros vs cs cs' b P [e H].
    destruct (update_with_change_set vs cs' b) as [v|e'] eqn:E; [|eauto].
    apply (update_perm_ok _ _ _ _ _ (Permutation_sym P)) in E. congruence. }
  intros vs cs cs' b P. split; apply K; [exact P|apply Permutation_sym; exact P].
Qed.

(* ------------------------------------------------------------------ find_addr *)

Lemma find_addr_cons : forall a v r,
  find_addr a (v :: r) = if bytes_eqb (v_addr v) a then Some v else find_addr a r.
Proof. reflexivity. Qed.

Lemma find_addr_some : forall a l v, find_addr a l = Some v -> In v l /\ v_addr v = a.
Proof.
  intros a. induction l as [|x r IH]; intros v H; [discriminate|].
  rewrite find_addr_cons in H. destruct (bytes_eqb (v_addr x) a) eqn:E.
  - inversion H; subst. apply bytes_eqb_eq in E. split; [left; reflexivity|exact E].
  - destruct (IH _ H). split; [right; assumption|assumption].
Qed.

Lemma find_addr_none : forall a l, find_addr a l = None <-> ~ In a (addrs l).
Proof.
  intros a. induction l as [|x r IH]; cbn [addrs map In]; [tauto|].
  rewrite find_addr_cons. destruct (bytes_eqb (v_addr x) a) eqn:E.
  - apply bytes_eqb_eq in E. split; [discriminate|]. intro H. exfalso. apply H. left. exact E.
  - apply bytes_eqb_neq in E. fold (addrs r). rewrite IH. tauto.
Qed.

Lemma find_addr_in_addrs : forall a l, In a (addrs l) -> exists v, find_addr a l = Some v.
Proof.
  intros a l H. destruct (find_addr a l) eqn:E; [eauto|]. apply find_addr_none in E. contradiction.
Qed.

Lemma find_addr_in : forall l v, NoDup (addrs l) -> In v l -> find_addr (v_addr v) l = Some v.
Proof.
  induction l as [|x r IH]; intros v N I; [contradiction|].
  cbn [addrs map] in N. inversion N as [|? ? Nin N']; subst.
  rewrite find_addr_cons. destruct I as [E|I].
  - subst. rewrite bytes_eqb_refl. reflexivity.
  - destruct (bytes_eqb (v_addr x) (v_addr v)) eqn:E.
    + apply bytes_eqb_eq in E. exfalso. apply Nin. rewrite E. apply in_map. exact I.
    + apply IH; assumption.
Qed.

Lemma perm_addrs : forall l l', Permutation l l' -> Permutation (addrs l) (addrs l').
Proof. intros. unfold addrs. apply Permutation_map. assumption. Qed.

Lemma find_addr_perm : forall a l l',
  NoDup (addrs l) -> Permutation l l' -> find_addr a l = find_addr a l'.
Proof.
  intros a l l' N P. destruct (find_addr a l) as [v|] eqn:E.
  - apply find_addr_some in E. destruct E as [I E]. subst a. symmetry. apply find_addr_in.
    + eapply Permutation_NoDup; [apply perm_addrs; exact P|exact N].
    + eapply Permutation_in; eauto.
  - symmetry. apply find_addr_none. apply find_addr_none in E. intro H. apply E.
    eapply Permutation_in; [apply Permutation_sym; apply perm_addrs; exact P|exact H].
Qed.

Definition all_gt (a : bytes) (l : list validator) : Prop :=
  Forall (fun x => addr_ltb a (v_addr x) = true) l.

Lemma all_gt_notin : forall a l, all_gt a l -> ~ In a (addrs l).
Proof.
  intros a l F I. apply in_map_iff in I. destruct I as [x [E I]].
  unfold all_gt in F. rewrite Forall_forall in F. specialize (F x I).
  rewrite E in F. rewrite addr_ltb_irrefl in F. discriminate.
Qed.

Lemma all_gt_find : forall a l, all_gt a l -> find_addr a l = None.
Proof. intros. apply find_addr_none. apply all_gt_notin. assumption. Qed.

Lemma all_gt_trans : forall a b l, addr_ltb a b = true -> all_gt b l -> all_gt a l.
Proof.
  intros a b l L F. unfold all_gt in *. eapply Forall_impl; [|exact F].
  intros x Hx. cbv beta in Hx. eapply addr_ltb_trans; eauto.
Qed.

Lemma asorted_inv : forall e l, ASorted (e :: l) -> ASorted l /\ all_gt (v_addr e) l.
Proof. intros e l S. inversion S; subst. split; assumption. Qed.

Lemma has_addr_true : forall a l, has_addr a l = true <-> In a (addrs l).
Proof.
  intros a l. unfold has_addr. destruct (find_addr a l) eqn:E.
  - split; [|reflexivity]. intros _. apply find_addr_some in E. destruct E as [I E].
    subst. apply in_map. exact I.
  - apply find_addr_none in E. split; [discriminate|contradiction].
Qed.

Lemma has_addr_false : forall a l, has_addr a l = false <-> ~ In a (addrs l).
Proof.
  intros a l. rewrite <- has_addr_true. destruct (has_addr a l); split; congruence.
Qed.

(* ------------------------------------------------------------------ merge_upd *)

Lemma merge_nil_l : forall up, merge_upd [] up = up.
Proof. destruct up; reflexivity. Qed.
Lemma merge_nil_r : forall ex, merge_upd ex [] = ex.
Proof. destruct ex; reflexivity. Qed.
Lemma merge_cons : forall e ex u up,
  merge_upd (e :: ex) (u :: up) =
  if addr_ltb (v_addr e) (v_addr u) then e :: merge_upd ex (u :: up)
  else if bytes_eqb (v_addr e) (v_addr u) then u :: merge_upd ex up
  else u :: merge_upd (e :: ex) up.
Proof. reflexivity. Qed.

Lemma merge_in : forall ex up x, In x (merge_upd ex up) -> In x ex \/ In x up.
Proof.
  induction ex as [|e ex IHex]; intros up x; [rewrite merge_nil_l; auto|].
  induction up as [|u up IHup]; [rewrite merge_nil_r; auto|].
  rewrite merge_cons. destruct (addr_ltb (v_addr e) (v_addr u));
    [|destruct (bytes_eqb (v_addr e) (v_addr u))]; intros [E|H].
  - left; left; exact E.
  - apply IHex in H. destruct H as [H|H]; [left; right; exact H|right; exact H].
  - right; left; exact E.
  - apply IHex in H. destruct H as [H|H]; [left; right; exact H|right; right; exact H].
  - right; left; exact E.
  - apply IHup in H. destruct H as [H|H]; [left; exact H|right; right; exact H].
Qed.

Lemma merge_find : forall a ex up, ASorted ex -> ASorted up ->
  find_addr a (merge_upd ex up) =
  match find_addr a up with Some u => Some u | None => find_addr a ex end.
Proof.
  intros a. induction ex as [|e ex IHex]; intros up Sex Sup.
  - rewrite merge_nil_l. destruct (find_addr a up); reflexivity.
  - induction up as [|u up IHup]; [rewrite merge_nil_r; reflexivity|].
    destruct (asorted_inv _ _ Sex) as [Sex' Fe]. destruct (asorted_inv _ _ Sup) as [Sup' Fu].
    rewrite merge_cons. destruct (addr_ltb (v_addr e) (v_addr u)) eqn:L.
    + rewrite (find_addr_cons a e (merge_upd ex (u :: up))), (IHex (u :: up) Sex' Sup),
        (find_addr_cons a e ex).
      destruct (bytes_eqb (v_addr e) a) eqn:Ea; [|reflexivity].
      apply bytes_eqb_eq in Ea. subst a.
      rewrite (all_gt_find (v_addr e) (u :: up)); [reflexivity|].
      constructor; [exact L|]. eapply all_gt_trans; eauto.
    + destruct (bytes_eqb (v_addr e) (v_addr u)) eqn:E.
      * apply bytes_eqb_eq in E.
        rewrite (find_addr_cons a u (merge_upd ex up)), (IHex up Sex' Sup'),
          (find_addr_cons a u up), (find_addr_cons a e ex). rewrite E.
        destruct (bytes_eqb (v_addr u) a); reflexivity.
      * rewrite (find_addr_cons a u (merge_upd (e :: ex) up)), (IHup Sup'),
          (find_addr_cons a u up).
        destruct (bytes_eqb (v_addr u) a); reflexivity.
Qed.

Lemma all_gt_merge : forall a ex up, all_gt a ex -> all_gt a up -> all_gt a (merge_upd ex up).
Proof.
  intros a ex up F1 F2. unfold all_gt in *. rewrite Forall_forall in *.
  intros x I. apply merge_in in I. destruct I; auto.
Qed.

Lemma asorted_cons : forall e l, all_gt (v_addr e) l -> ASorted l -> ASorted (e :: l).
Proof. intros e l F S. constructor; assumption. Qed.

Lemma merge_asorted : forall ex up, ASorted ex -> ASorted up -> ASorted (merge_upd ex up).
Proof.
  induction ex as [|e ex IHex]; intros up Sex Sup; [rewrite merge_nil_l; exact Sup|].
  induction up as [|u up IHup]; [rewrite merge_nil_r; exact Sex|].
  destruct (asorted_inv _ _ Sex) as [Sex' Fe]. destruct (asorted_inv _ _ Sup) as [Sup' Fu].
  rewrite merge_cons. destruct (addr_ltb (v_addr e) (v_addr u)) eqn:L.
  - apply asorted_cons; [|apply IHex; assumption].
    apply all_gt_merge; [exact Fe|]. constructor; [exact L|]. eapply all_gt_trans; eauto.
  - destruct (bytes_eqb (v_addr e) (v_addr u)) eqn:E.
    + apply bytes_eqb_eq in E. apply asorted_cons; [|apply IHex; assumption].
      apply all_gt_merge; [rewrite <- E; exact Fe|exact Fu].
    + apply bytes_eqb_neq in E. apply asorted_cons; [|apply IHup; assumption].
      assert (L' : addr_ltb (v_addr u) (v_addr e) = true)
        by (apply addr_ltb_total; [exact L|congruence]).
      apply all_gt_merge; [|exact Fu]. constructor; [exact L'|]. eapply all_gt_trans; eauto.
Qed.

(* ------------------------------------------------------------------ apply_removals *)

Lemma rem_nil_l : forall d, apply_removals [] d = [].
Proof. reflexivity. Qed.
Lemma rem_nil_r : forall ex, apply_removals ex [] = ex.
Proof. destruct ex; reflexivity. Qed.
Lemma rem_cons : forall e ex d ds,
  apply_removals (e :: ex) (d :: ds) =
  if bytes_eqb (v_addr e) (v_addr d) then apply_removals ex ds
  else e :: apply_removals ex (d :: ds).
Proof. reflexivity. Qed.

Lemma rem_in : forall ex ds x, In x (apply_removals ex ds) -> In x ex.
Proof.
  induction ex as [|e ex IH]; intros ds x H; [exact H|].
  destruct ds as [|d ds]; [rewrite rem_nil_r in H; exact H|].
  rewrite rem_cons in H. destruct (bytes_eqb (v_addr e) (v_addr d)).
  - right. eapply IH; eauto.
  - destruct H as [E|H]; [left; exact E|right; eapply IH; eauto].
Qed.

Lemma all_gt_rem : forall a ex ds, all_gt a ex -> all_gt a (apply_removals ex ds).
Proof.
  intros a ex ds F. unfold all_gt in *. rewrite Forall_forall in *.
  intros x I. apply rem_in in I. auto.
Qed.

Lemma rem_asorted : forall ex ds, ASorted ex -> ASorted (apply_removals ex ds).
Proof.
  induction ex as [|e ex IH]; intros ds S; [constructor|].
  destruct ds as [|d ds]; [rewrite rem_nil_r; exact S|].
  destruct (asorted_inv _ _ S) as [S' F].
  rewrite rem_cons. destruct (bytes_eqb (v_addr e) (v_addr d)); [apply IH; exact S'|].
  apply asorted_cons; [apply all_gt_rem; exact F|apply IH; exact S'].
Qed.

(* the side conditions of the removal pass are stable along its recursion *)
Lemma rem_step_eq : forall e ex d ds,
  ASorted (e :: ex) -> ASorted (d :: ds) -> incl (addrs (d :: ds)) (addrs (e :: ex)) ->
  v_addr e = v_addr d -> incl (addrs ds) (addrs ex).
Proof.
  intros e ex d ds Se Sd I E a Ia.
  destruct (asorted_inv _ _ Sd) as [_ Fd].
  assert (Ia' : In a (addrs (e :: ex))) by (apply I; right; exact Ia).
  destruct Ia' as [Ea|Ia']; [|exact Ia'].
  exfalso. apply (all_gt_notin _ _ Fd). rewrite <- E, Ea. exact Ia.
Qed.

Lemma rem_step_neq : forall e ex d ds,
  ASorted (e :: ex) -> ASorted (d :: ds) -> incl (addrs (d :: ds)) (addrs (e :: ex)) ->
  v_addr e <> v_addr d -> incl (addrs (d :: ds)) (addrs ex) /\ all_gt (v_addr e) (d :: ds).
Proof.
  intros e ex d ds Se Sd I N.
  destruct (asorted_inv _ _ Sd) as [_ Fd]. destruct (asorted_inv _ _ Se) as [_ Fe].
  assert (Id : In (v_addr d) (addrs ex)).
  { assert (H : In (v_addr d) (addrs (e :: ex))) by (apply I; left; reflexivity).
    destruct H as [H|H]; [contradiction|exact H]. }
  assert (L : addr_ltb (v_addr e) (v_addr d) = true).
  { apply in_map_iff in Id. destruct Id as [x [Ex Ix]].
    unfold all_gt in Fe. rewrite Forall_forall in Fe. rewrite <- Ex. apply Fe. exact Ix. }
  assert (G : all_gt (v_addr e) (d :: ds)).
  { constructor; [exact L|]. eapply all_gt_trans; eauto. }
  split; [|exact G].
  intros a Ia. assert (H : In a (addrs (e :: ex))) by (apply I; exact Ia).
  destruct H as [H|H]; [|exact H]. exfalso. apply (all_gt_notin _ _ G). rewrite H. exact Ia.
Qed.

Lemma rem_find : forall a ex ds,
  ASorted ex -> ASorted ds -> incl (addrs ds) (addrs ex) ->
  find_addr a (apply_removals ex ds) = if has_addr a ds then None else find_addr a ex.
Proof.
  intros a. induction ex as [|e ex IH]; intros ds Se Sd I.
  - rewrite rem_nil_l. destruct (has_addr a ds); reflexivity.
  - destruct ds as [|d ds]; [rewrite rem_nil_r; reflexivity|].
    destruct (asorted_inv _ _ Se) as [Se' Fe]. destruct (asorted_inv _ _ Sd) as [Sd' Fd].
    rewrite rem_cons. destruct (bytes_eqb (v_addr e) (v_addr d)) eqn:E.
    + apply bytes_eqb_eq in E. rewrite (IH ds Se' Sd' (rem_step_eq _ _ _ _ Se Sd I E)).
      unfold has_addr. rewrite (find_addr_cons a d ds), (find_addr_cons a e ex). rewrite <- E.
      destruct (bytes_eqb (v_addr e) a) eqn:Ea; [|reflexivity].
      apply bytes_eqb_eq in Ea. subst a.
      rewrite (all_gt_find _ _ Fe). rewrite E. rewrite (all_gt_find _ _ Fd). reflexivity.
    + apply bytes_eqb_neq in E. destruct (rem_step_neq _ _ _ _ Se Sd I E) as [I' G].
      rewrite (find_addr_cons a e (apply_removals ex (d :: ds))), (IH (d :: ds) Se' Sd I'),
        (find_addr_cons a e ex).
      destruct (bytes_eqb (v_addr e) a) eqn:Ea; [|reflexivity].
      apply bytes_eqb_eq in Ea. subst a. unfold has_addr. rewrite (all_gt_find _ _ G). reflexivity.
Qed.

(* ------------------------------------------------------------------ the two halves of a batch *)

Definition is_del (c : validator) : bool := v_power c =? 0.
Definition is_upd (c : validator) : bool := negb (v_power c =? 0).

Lemma scan_filter : forall l prev u d,
  scan_changes prev l = Ok (u, d) ->
  u = filter is_upd l /\ d = filter is_del l /\
  Forall (fun c => 0 <= v_power c <= max_total_voting_power) l.
Proof.
  induction l as [|c l IH]; intros prev u d H.
  - cbn [scan_changes] in H. inversion H; subst. repeat split; constructor.
  - apply scan_cons_ok in H. destruct H as [_ [Hp [u0 [d0 [Hs Hr]]]]].
    destruct (IH _ _ _ Hs) as [Eu [Ed F]]. cbn [filter]. unfold is_upd at 1, is_del at 1.
    destruct (v_power c =? 0); cbn [negb]; inversion Hr; subst;
      (split; [reflexivity|split; [reflexivity|constructor; assumption]]).
Qed.

Lemma filter_asorted : forall f l, ASorted l -> ASorted (filter f l).
Proof.
  intros f l S. induction S as [|a l S IH F]; cbn [filter]; [constructor|].
  destruct (f a); [|exact IH]. constructor; [exact IH|].
  rewrite Forall_forall in *. intros x I. apply filter_In in I. apply F. tauto.
Qed.

Lemma find_addr_filter : forall f a l, NoDup (addrs l) ->
  find_addr a (filter f l) =
  match find_addr a l with Some c => if f c then Some c else None | None => None end.
Proof.
  intros f a. induction l as [|c l IH]; intro N; [reflexivity|].
  cbn [addrs map] in N. inversion N as [|? ? Nin N']; subst.
  rewrite (find_addr_cons a c l). cbn [filter].
  destruct (bytes_eqb (v_addr c) a) eqn:E.
  - destruct (f c); [rewrite find_addr_cons, E; reflexivity|].
    apply find_addr_none. apply bytes_eqb_eq in E. subst a. intro I. apply Nin.
    apply in_map_iff in I. destruct I as [x [Ex Ix]]. apply filter_In in Ix.
    rewrite <- Ex. apply in_map. tauto.
  - destruct (f c); [rewrite find_addr_cons, E|]; apply IH; exact N'.
Qed.

Lemma process_changes_facts : forall cs ups dels,
  process_changes cs = Ok (ups, dels) ->
  let S := sort_by by_addr cs in
  ASorted S /\ NoDup (addrs cs) /\ Permutation cs S /\
  ups = filter is_upd S /\ dels = filter is_del S /\
  Forall (fun c => 0 <= v_power c <= max_total_voting_power) S.
Proof.
  intros cs ups dels H S.
  split; [eapply process_changes_asorted; exact H|].
  split; [eapply process_changes_nodup; exact H|].
  split; [apply sort_by_perm|].
  unfold process_changes in H. apply scan_filter in H. exact H.
Qed.

(* ------------------------------------------------------------------ (address, power) views *)

Definition ap (v : validator) : bytes * Z := (v_addr v, v_power v).
Definition aps (l : list validator) : list (bytes * Z) := map ap l.

Lemma aps_set_prio : forall (f : validator -> Z) l, aps (map (fun v => set_prio v (f v)) l) = aps l.
Proof. intros f l. unfold aps. rewrite map_map. apply map_ext. reflexivity. Qed.

Lemma aps_rescale : forall d l, aps (rescale d l) = aps l.
Proof.
  intros d l. unfold rescale. destruct (d <=? 0); [reflexivity|].
  match goal with |- aps (if ?c then _ else _) = _ => destruct c end; [|reflexivity].
  apply (aps_set_prio (fun v => Z.quot (v_prio v) _)).
Qed.

Lemma aps_shift_avg : forall l, aps (shift_avg l) = aps l.
Proof. intro l. unfold shift_avg. apply (aps_set_prio (fun v => sub_clip (v_prio v) _)). Qed.

Lemma aps_cnp : forall ups vals tvp, aps (compute_new_priorities ups vals tvp) = aps ups.
Proof.
  intros. unfold compute_new_priorities, aps. rewrite map_map. apply map_ext.
  intro u. destruct (find_addr (v_addr u) vals); reflexivity.
Qed.

Lemma aps_addrs : forall l l', aps l = aps l' -> addrs l = addrs l'.
Proof.
  induction l as [|x l IH]; destruct l' as [|y l']; intro H; try discriminate; [reflexivity|].
  cbn [aps map] in H. injection H as Ea Ep E2. cbn [addrs map]. f_equal; [exact Ea|apply IH; exact E2].
Qed.

Lemma aps_sum : forall l l', aps l = aps l' -> sum_power l = sum_power l'.
Proof.
  induction l as [|x l IH]; destruct l' as [|y l']; intro H; try discriminate; [reflexivity|].
  cbn [aps map] in H. injection H as Ea Ep E2.
  cbn [sum_power fold_right]. fold (sum_power l). fold (sum_power l').
  rewrite (IH _ E2). lia.
Qed.

Lemma aps_pos : forall l l', aps l = aps l' ->
  Forall (fun v => 0 < v_power v) l -> Forall (fun v => 0 < v_power v) l'.
Proof.
  induction l as [|x l IH]; destruct l' as [|y l']; intros H F; try discriminate; [constructor|].
  cbn [aps map] in H. injection H as Ea Ep E2.
  inversion F; subst. constructor; [lia|apply IH; assumption].
Qed.

Lemma power_of_cons : forall x l a,
  power_of (x :: l) a = if bytes_eqb (v_addr x) a then Some (v_power x) else power_of l a.
Proof.
  intros. unfold power_of. rewrite find_addr_cons. destruct (bytes_eqb (v_addr x) a); reflexivity.
Qed.

Lemma aps_power_of : forall l l' a, aps l = aps l' -> power_of l a = power_of l' a.
Proof.
  induction l as [|x l IH]; destruct l' as [|y l']; intros a H; try discriminate; [reflexivity|].
  cbn [aps map] in H. injection H as Ea Ep E2.
  rewrite !power_of_cons. rewrite Ea, Ep. rewrite (IH _ a E2). reflexivity.
Qed.

Lemma all_gt_addrs : forall a l l', addrs l = addrs l' -> all_gt a l -> all_gt a l'.
Proof.
  intros a. induction l as [|x l IH]; destruct l' as [|y l']; intros H F; try discriminate;
    [constructor|].
  cbn [addrs map] in H. injection H as E1 E2. inversion F; subst.
  constructor; [rewrite <- E1; assumption|apply IH; assumption].
Qed.

Lemma asorted_addrs : forall l l', addrs l = addrs l' -> ASorted l -> ASorted l'.
Proof.
  induction l as [|x l IH]; destruct l' as [|y l']; intros H S; try discriminate; [constructor|].
  cbn [addrs map] in H. injection H as E1 E2. destruct (asorted_inv _ _ S) as [S' F].
  apply asorted_cons; [|apply IH; assumption].
  rewrite <- E1. eapply all_gt_addrs; eauto.
Qed.

Lemma power_of_perm : forall a l l',
  NoDup (addrs l) -> Permutation l l' -> power_of l a = power_of l' a.
Proof. intros a l l' N P. unfold power_of. rewrite (find_addr_perm a l l' N P). reflexivity. Qed.

(* ------------------------------------------------------------------ the list after merge and removals *)

Definition rlist (vals ups dels : list validator) (tvp : Z) : list validator :=
  apply_removals (merge_upd (sort_by by_addr vals) (compute_new_priorities ups vals tvp)) dels.

Definition mlist (vals ups : list validator) (tvp : Z) : list validator :=
  merge_upd (sort_by by_addr vals) (compute_new_priorities ups vals tvp).

Lemma cnp_asorted : forall ups vals tvp, ASorted ups -> ASorted (compute_new_priorities ups vals tvp).
Proof.
  intros. eapply asorted_addrs; [|eassumption]. apply aps_addrs. symmetry. apply aps_cnp.
Qed.

Lemma mlist_asorted : forall vals ups tvp,
  NoDup (addrs vals) -> ASorted ups -> ASorted (mlist vals ups tvp).
Proof.
  intros. unfold mlist. apply merge_asorted; [apply sort_addr_asorted; assumption|].
  apply cnp_asorted. assumption.
Qed.

Lemma mlist_find : forall vals ups tvp a,
  NoDup (addrs vals) -> ASorted ups ->
  find_addr a (mlist vals ups tvp) =
  match find_addr a (compute_new_priorities ups vals tvp) with
  | Some u => Some u
  | None => find_addr a vals
  end.
Proof.
  intros vals ups tvp a N S. unfold mlist.
  rewrite merge_find; [|apply sort_addr_asorted; assumption|apply cnp_asorted; assumption].
  rewrite <- (find_addr_perm a vals (sort_by by_addr vals) N (sort_by_perm _ _)). reflexivity.
Qed.

Lemma mlist_incl : forall vals ups tvp,
  NoDup (addrs vals) -> ASorted ups -> incl (addrs vals) (addrs (mlist vals ups tvp)).
Proof.
  intros vals ups tvp N S a I. apply has_addr_true. unfold has_addr.
  rewrite mlist_find; auto. destruct (find_addr a (compute_new_priorities ups vals tvp)); auto.
  apply find_addr_in_addrs in I. destruct I as [v E]. rewrite E. reflexivity.
Qed.

Lemma rlist_power_of : forall vals ups dels tvp a,
  NoDup (addrs vals) -> ASorted ups -> ASorted dels -> incl (addrs dels) (addrs vals) ->
  power_of (rlist vals ups dels tvp) a =
  if has_addr a dels then None
  else match power_of ups a with Some p => Some p | None => power_of vals a end.
Proof.
  intros vals ups dels tvp a N Su Sd I. unfold rlist. fold (mlist vals ups tvp).
  unfold power_of at 1. rewrite rem_find.
  - destruct (has_addr a dels); [reflexivity|]. rewrite mlist_find; auto.
    rewrite <- (aps_power_of _ _ a (aps_cnp ups vals tvp)). unfold power_of.
    destruct (find_addr a (compute_new_priorities ups vals tvp)); reflexivity.
  - apply mlist_asorted; assumption.
  - exact Sd.
  - intros x Ix. apply mlist_incl; auto.
Qed.

(* ------------------------------------------------------------------ verifyRemovals *)

Definition zsum (l : list Z) : Z := fold_right Z.add 0 l.
Definition pw (l : list validator) (a : bytes) : Z :=
  match find_addr a l with Some v => v_power v | None => 0 end.

Lemma removed_power_ok : forall vals dels acc r,
  removed_power dels vals acc = Ok r ->
  incl (addrs dels) (addrs vals) /\ r = acc + zsum (map (fun d => pw vals (v_addr d)) dels).
Proof.
  intros vals. induction dels as [|d dels IH]; intros acc r H.
  - cbn [removed_power] in H. inversion H; subst. split; [intros x []|cbn; lia].
  - cbn [removed_power] in H. destruct (find_addr (v_addr d) vals) as [v|] eqn:E; [|discriminate].
    apply IH in H. destruct H as [I Hr]. split.
    + intros x [Ex|Ix]; [|apply I; exact Ix]. subst x.
      apply find_addr_some in E. destruct E as [Iv Ea]. rewrite <- Ea. apply in_map. exact Iv.
    + cbn [map zsum fold_right]. fold (zsum (map (fun d => pw vals (v_addr d)) dels)).
      unfold pw at 1. rewrite E. lia.
Qed.

Lemma removed_power_err : forall vals dels acc e,
  removed_power dels vals acc = Err e -> e = ENotFound.
Proof.
  intros vals. induction dels as [|d dels IH]; intros acc e H; cbn [removed_power] in H;
    [discriminate|].
  destruct (find_addr (v_addr d) vals); [eapply IH; eauto|congruence].
Qed.

Lemma verify_removals_ok : forall vals dels r,
  verify_removals dels vals = Ok r ->
  incl (addrs dels) (addrs vals) /\ r = zsum (map (fun d => pw vals (v_addr d)) dels).
Proof.
  intros vals dels r H. unfold verify_removals in H.
  destruct (removed_power dels vals 0) as [p|e] eqn:E; [|discriminate].
  destruct (length vals <? length dels)%nat; [discriminate|]. inversion H; subst.
  apply removed_power_ok in E. destruct E as [I E]. split; [exact I|lia].
Qed.

(* ------------------------------------------------------------------ decomposition of a success *)

Lemma update_tail_ok : forall vs ups dels b vs',
  update_tail vs (ups, dels) b = Ok vs' ->
  exists removed tvp total,
    verify_removals dels (vs_vals vs) = Ok removed /\
    verify_updates ups (vs_vals vs) removed = Ok tvp /\
    total_power (rlist (vs_vals vs) ups dels tvp) = Some total /\
    vs' = mkVS (sort_by by_power
                 (shift_avg (rescale (priority_window_size_factor * total)
                                     (rlist (vs_vals vs) ups dels tvp)))) (vs_prop vs) /\
    (Nat.eqb (num_new ups (vs_vals vs)) 0 && Nat.eqb (length (vs_vals vs)) (length dels)) = false.
Proof.
  intros vs ups dels b vs' H. unfold update_tail in H.
  destruct (negb b && negb (Nat.eqb (length dels) 0)); [discriminate|].
  destruct (Nat.eqb (num_new ups (vs_vals vs)) 0 && Nat.eqb (length (vs_vals vs)) (length dels))
    eqn:E2; [discriminate|].
  destruct (verify_removals dels (vs_vals vs)) as [removed|e] eqn:E3; [|discriminate].
  destruct (verify_updates ups (vs_vals vs) removed) as [tvp|e] eqn:E4; [|discriminate].
  fold (rlist (vs_vals vs) ups dels tvp) in H.
  destruct (total_power (rlist (vs_vals vs) ups dels tvp)) as [total|] eqn:E5; [|discriminate].
  inversion H; subst. exists removed, tvp, total. repeat split; auto.
Qed.

Lemma final_aps : forall d l, Permutation (aps l) (aps (sort_by by_power (shift_avg (rescale d l)))).
Proof.
  intros d l. rewrite <- (aps_rescale d l) at 1. rewrite <- (aps_shift_avg (rescale d l)).
  unfold aps. apply Permutation_map. apply sort_by_perm.
Qed.

Lemma final_power_of : forall d l a, NoDup (addrs l) ->
  power_of (sort_by by_power (shift_avg (rescale d l))) a = power_of l a.
Proof.
  intros d l a N.
  rewrite (aps_power_of l (shift_avg (rescale d l)) a)
    by (rewrite aps_shift_avg, aps_rescale; reflexivity).
  symmetry. apply power_of_perm; [|apply sort_by_perm].
  rewrite <- (aps_addrs l (shift_avg (rescale d l))); [exact N|].
  rewrite aps_shift_avg, aps_rescale; reflexivity.
Qed.

(* 3. Map refinement *)
Theorem update_refines_map : forall vs cs b vs',
  NoDup (addrs (vs_vals vs)) ->
  update_with_change_set vs cs b = Ok vs' -> cs <> [] ->
  forall a, power_of (vs_vals vs') a = expected_power (vs_vals vs) cs a.
Proof.
  intros vs cs b vs' N H Hne a. rewrite update_unfold in H.
  destruct cs as [|c0 cs0]; [congruence|]. set (cs := c0 :: cs0) in *.
  destruct (process_changes cs) as [[ups dels]|e] eqn:E; [|discriminate].
  destruct (process_changes_facts _ _ _ E) as [SS [Ncs [Pcs [Eu [Ed _]]]]].
  apply update_tail_ok in H. destruct H as [removed [tvp [total [Hr [_ [_ [Hvs _]]]]]]].
  apply verify_removals_ok in Hr. destruct Hr as [Idel _].
  assert (Su : ASorted ups) by (rewrite Eu; apply filter_asorted; exact SS).
  assert (Sd : ASorted dels) by (rewrite Ed; apply filter_asorted; exact SS).
  assert (NS : NoDup (addrs (sort_by by_addr cs))) by (apply asorted_nodup; exact SS).
  rewrite Hvs. cbn [vs_vals].
  rewrite final_power_of.
  2:{ apply asorted_nodup. apply rem_asorted. apply mlist_asorted; assumption. }
  rewrite rlist_power_of; auto.
  unfold expected_power. rewrite (find_addr_perm a cs _ Ncs Pcs).
  unfold has_addr, power_of at 1. rewrite Ed, Eu. rewrite !find_addr_filter; auto.
  destruct (find_addr a (sort_by by_addr cs)) as [c|]; [|reflexivity].
  unfold is_del, is_upd. destruct (v_power c =? 0); reflexivity.
Qed.

(* ------------------------------------------------------------------ sums of powers *)

Lemma sum_power_cons : forall x l, sum_power (x :: l) = v_power x + sum_power l.
Proof. reflexivity. Qed.
Lemma zsum_cons : forall x l, zsum (x :: l) = x + zsum l.
Proof. reflexivity. Qed.

Lemma sum_power_perm : forall l l', Permutation l l' -> sum_power l = sum_power l'.
Proof.
  induction 1; try reflexivity.
  - rewrite !sum_power_cons. lia.
  - rewrite !sum_power_cons. lia.
  - congruence.
Qed.

Lemma zsum_perm : forall l l', Permutation l l' -> zsum l = zsum l'.
Proof.
  induction 1; try reflexivity.
  - rewrite !zsum_cons. lia.
  - rewrite !zsum_cons. lia.
  - congruence.
Qed.

Lemma max_tvp_lt_int64 : max_total_voting_power < max_int64.
Proof. unfold max_total_voting_power, max_int64. lia. Qed.

Lemma add_clip_small : forall a p, 0 <= a -> 0 < p -> a + p <= max_total_voting_power ->
  add_clip a p = a + p.
Proof.
  intros a p Ha Hp H. pose proof max_tvp_lt_int64 as M. unfold add_clip.
  replace (a >? max_int64 - p) with false by (symmetry; rewrite Z.gtb_ltb; apply Z.ltb_ge; lia).
  replace (p <? 0) with false by (symmetry; apply Z.ltb_ge; lia).
  rewrite andb_false_r. reflexivity.
Qed.

Lemma total_from_ok : forall l acc,
  Forall (fun v => 0 < v_power v) l -> 0 <= acc -> acc + sum_power l <= max_total_voting_power ->
  total_from acc l = Some (acc + sum_power l).
Proof.
  induction l as [|x l IH]; intros acc F Ha H.
  - cbn [total_from sum_power fold_right]. f_equal. lia.
  - inversion F as [|? ? Px F']; subst. rewrite sum_power_cons in H.
    assert (S0 : 0 <= sum_power l).
    { clear -F'. induction F'; [cbn; lia|rewrite sum_power_cons; lia]. }
    cbn [total_from]. rewrite add_clip_small by lia.
    replace (acc + v_power x >? max_total_voting_power) with false
      by (symmetry; rewrite Z.gtb_ltb; apply Z.ltb_ge; lia).
    rewrite IH by (try assumption; lia). rewrite sum_power_cons. f_equal. lia.
Qed.

(* safeAddClip never clips and the panic branch is not taken *)
Lemma total_power_ok : forall l,
  Forall (fun v => 0 < v_power v) l -> sum_power l <= max_total_voting_power ->
  total_power l = Some (sum_power l).
Proof. intros l F H. unfold total_power. rewrite total_from_ok; auto; lia. Qed.

Lemma sum_power_nonneg : forall l, Forall (fun v => 0 < v_power v) l -> 0 <= sum_power l.
Proof. induction 1; [cbn; lia|rewrite sum_power_cons; lia]. Qed.

Lemma sum_power_pos : forall l, Forall (fun v => 0 < v_power v) l -> l <> [] -> 0 < sum_power l.
Proof.
  intros l F N. destruct l as [|x l]; [congruence|]. inversion F; subst.
  rewrite sum_power_cons. pose proof (sum_power_nonneg l H2). lia.
Qed.

(* deltas *)
Lemma delta_nil : forall up, zsum (map (delta []) up) = sum_power up.
Proof.
  induction up as [|u up IH]; [reflexivity|]. cbn [map]. rewrite zsum_cons, sum_power_cons, IH.
  reflexivity.
Qed.

Lemma delta_skip : forall e ex l, all_gt (v_addr e) l -> map (delta (e :: ex)) l = map (delta ex) l.
Proof.
  intros e ex l F. apply map_ext_in. intros x I. unfold all_gt in F. rewrite Forall_forall in F.
  specialize (F x I). unfold delta. rewrite find_addr_cons.
  replace (bytes_eqb (v_addr e) (v_addr x)) with false; [reflexivity|].
  symmetry. apply bytes_eqb_neq. apply addr_ltb_neq. exact F.
Qed.

Lemma merge_sum : forall ex up, ASorted ex -> ASorted up ->
  sum_power (merge_upd ex up) = sum_power ex + zsum (map (delta ex) up).
Proof.
  induction ex as [|e ex IHex]; intros up Sex Sup.
  - rewrite merge_nil_l, delta_nil. cbn [sum_power fold_right]. lia.
  - induction up as [|u up IHup]; [rewrite merge_nil_r; cbn [map zsum fold_right]; lia|].
    destruct (asorted_inv _ _ Sex) as [Sex' Fe]. destruct (asorted_inv _ _ Sup) as [Sup' Fu].
    rewrite merge_cons. destruct (addr_ltb (v_addr e) (v_addr u)) eqn:L.
    + rewrite sum_power_cons, (IHex (u :: up) Sex' Sup), sum_power_cons.
      rewrite (delta_skip e ex (u :: up)); [lia|].
      constructor; [exact L|]. eapply all_gt_trans; eauto.
    + destruct (bytes_eqb (v_addr e) (v_addr u)) eqn:E.
      * rewrite sum_power_cons, (IHex up Sex' Sup'), sum_power_cons. cbn [map].
        rewrite zsum_cons. rewrite (delta_skip e ex up).
        2:{ apply bytes_eqb_eq in E. rewrite E. exact Fu. }
        unfold delta at 2. rewrite find_addr_cons, E. lia.
      * rewrite sum_power_cons, (IHup Sup'). cbn [map]. rewrite zsum_cons.
        apply bytes_eqb_neq in E.
        assert (L' : addr_ltb (v_addr u) (v_addr e) = true)
          by (apply addr_ltb_total; [exact L|congruence]).
        unfold delta at 2. rewrite (all_gt_find (v_addr u) (e :: ex)); [lia|].
        constructor; [exact L'|]. eapply all_gt_trans; eauto.
Qed.

Lemma pw_skip : forall e ex l, all_gt (v_addr e) l ->
  map (fun d => pw (e :: ex) (v_addr d)) l = map (fun d => pw ex (v_addr d)) l.
Proof.
  intros e ex l F. apply map_ext_in. intros x I. unfold all_gt in F. rewrite Forall_forall in F.
  specialize (F x I). unfold pw. rewrite find_addr_cons.
  replace (bytes_eqb (v_addr e) (v_addr x)) with false; [reflexivity|].
  symmetry. apply bytes_eqb_neq. apply addr_ltb_neq. exact F.
Qed.

Lemma rem_sum : forall ex ds,
  ASorted ex -> ASorted ds -> incl (addrs ds) (addrs ex) ->
  sum_power (apply_removals ex ds) = sum_power ex - zsum (map (fun d => pw ex (v_addr d)) ds).
Proof.
  induction ex as [|e ex IH]; intros ds Se Sd I.
  - destruct ds as [|d ds]; [reflexivity|]. exfalso. apply (I (v_addr d)). left. reflexivity.
  - destruct ds as [|d ds]; [rewrite rem_nil_r; cbn [map zsum fold_right]; lia|].
    destruct (asorted_inv _ _ Se) as [Se' Fe]. destruct (asorted_inv _ _ Sd) as [Sd' Fd].
    rewrite rem_cons. destruct (bytes_eqb (v_addr e) (v_addr d)) eqn:E.
    + pose proof E as E'. apply bytes_eqb_eq in E'.
      rewrite (IH ds Se' Sd' (rem_step_eq _ _ _ _ Se Sd I E')).
      cbn [map]. rewrite zsum_cons, sum_power_cons. rewrite (pw_skip e ex ds).
      2:{ rewrite E'. exact Fd. }
      unfold pw at 2. rewrite find_addr_cons, E. lia.
    + apply bytes_eqb_neq in E. destruct (rem_step_neq _ _ _ _ Se Sd I E) as [I' G].
      rewrite sum_power_cons, (IH (d :: ds) Se' Sd I'), sum_power_cons.
      rewrite (pw_skip e ex (d :: ds) G). lia.
Qed.

(* ------------------------------------------------------------------ verifyUpdates *)

Lemma scan_deltas_ok : forall ds t0 t,
  t0 <= max_total_voting_power -> scan_deltas t0 ds = Ok t ->
  t = t0 + zsum ds /\ t <= max_total_voting_power.
Proof.
  induction ds as [|d ds IH]; intros t0 t H0 H.
  - cbn [scan_deltas] in H. inversion H; subst. cbn [zsum fold_right]. lia.
  - cbn [scan_deltas] in H. destruct (t0 + d >? max_total_voting_power) eqn:E; [discriminate|].
    rewrite Z.gtb_ltb in E. apply Z.ltb_ge in E. apply IH in H; [|exact E].
    rewrite zsum_cons. lia.
Qed.

Lemma scan_deltas_err : forall ds t0 e, scan_deltas t0 ds = Err e -> e = EOverflow.
Proof.
  induction ds as [|d ds IH]; intros t0 e H; cbn [scan_deltas] in H; [discriminate|].
  destruct (t0 + d >? max_total_voting_power); [congruence|eapply IH; eauto].
Qed.

Lemma Zltb_asym : forall a b : Z, (a <? b) = true -> (b <? a) = false.
Proof. intros a b H. apply Z.ltb_lt in H. apply Z.ltb_ge. lia. Qed.

Definition WeakInv (vals : list validator) : Prop :=
  NoDup (addrs vals) /\ Forall (fun v => 0 < v_power v) vals /\
  sum_power vals <= max_total_voting_power.

Lemma inv_weak : forall vals, vals = [] \/ Inv vals -> WeakInv vals.
Proof.
  intros vals [E|[N [F [_ [[_ S] _]]]]].
  - subst. repeat split; [constructor|constructor|]. cbn. unfold max_total_voting_power. lia.
  - repeat split; assumption.
Qed.

Lemma pw_nonneg : forall vals a, Forall (fun v => 0 < v_power v) vals -> 0 <= pw vals a.
Proof.
  intros vals a F. unfold pw. destruct (find_addr a vals) as [v|] eqn:E; [|lia].
  apply find_addr_some in E. destruct E as [I _]. rewrite Forall_forall in F.
  specialize (F v I). lia.
Qed.

Lemma zsum_pw_nonneg : forall vals dels, Forall (fun v => 0 < v_power v) vals ->
  0 <= zsum (map (fun d => pw vals (v_addr d)) dels).
Proof.
  intros vals dels F. induction dels as [|d dels IH]; [cbn; lia|].
  cbn [map]. rewrite zsum_cons. pose proof (pw_nonneg vals (v_addr d) F). lia.
Qed.

Lemma verify_updates_ok : forall vals ups removed tvp,
  WeakInv vals -> 0 <= removed ->
  verify_updates ups vals removed = Ok tvp ->
  tvp - removed = sum_power vals + zsum (map (delta vals) ups) - removed /\
  tvp - removed <= max_total_voting_power.
Proof.
  intros vals ups removed tvp [N [F S]] Hr H. unfold verify_updates in H.
  rewrite (total_power_ok vals F S) in H.
  destruct (scan_deltas (sum_power vals - removed) (sort_by Z.ltb (map (delta vals) ups)))
    as [t|e] eqn:E; [|discriminate].
  inversion H; subst. apply scan_deltas_ok in E; [|lia]. destruct E as [Et Hle].
  rewrite <- (zsum_perm _ _ (sort_by_perm Z.ltb (map (delta vals) ups))) in Et. lia.
Qed.

Lemma aps_delta : forall vals l l', aps l = aps l' -> map (delta vals) l = map (delta vals) l'.
Proof.
  intros vals. induction l as [|x l IH]; destruct l' as [|y l']; intro H; try discriminate;
    [reflexivity|].
  cbn [aps map] in H. injection H as Ea Ep E2. cbn [map]. f_equal; [|apply IH; exact E2].
  unfold delta. rewrite Ea, Ep. reflexivity.
Qed.

(* ------------------------------------------------------------------ by_power is a strict total order *)

Lemma by_power_cases : forall a b,
  by_power a b = true <->
  (v_power b < v_power a \/ (v_power a = v_power b /\ addr_ltb (v_addr a) (v_addr b) = true)).
Proof.
  intros a b. unfold by_power. rewrite Z.gtb_ltb.
  destruct (Z.eqb_spec (v_power a) (v_power b)) as [E|E].
  - split; [intro H; right; split; assumption|]. intros [H|[_ H]]; [lia|exact H].
  - destruct (Z.ltb_spec (v_power b) (v_power a)) as [L|L].
    + split; [intros _; left; exact L|reflexivity].
    + split; [discriminate|]. intros [H|[H _]]; [lia|contradiction].
Qed.

Lemma by_power_asym : forall a b, by_power a b = true -> by_power b a = false.
Proof.
  intros a b H. destruct (by_power b a) eqn:E; [|reflexivity].
  apply by_power_cases in H. apply by_power_cases in E.
  destruct H as [H|[H1 H2]]; destruct E as [E|[E1 E2]]; try lia.
  apply addr_ltb_asym in H2. congruence.
Qed.

Lemma by_power_trans : forall a b c,
  by_power a b = true -> by_power b c = true -> by_power a c = true.
Proof.
  intros a b c H1 H2. apply by_power_cases in H1. apply by_power_cases in H2.
  apply by_power_cases.
  destruct H1 as [H1|[H1 L1]]; destruct H2 as [H2|[H2 L2]]; try (left; lia).
  right. split; [lia|]. eapply addr_ltb_trans; eauto.
Qed.

Lemma by_power_total : forall a b,
  by_power b a = false -> v_addr a <> v_addr b -> by_power a b = true.
Proof.
  intros a b H N. apply by_power_cases.
  destruct (Z.lt_trichotomy (v_power a) (v_power b)) as [L|[E|L]].
  - exfalso. assert (K : by_power b a = true) by (apply by_power_cases; left; exact L).
    congruence.
  - right. split; [exact E|]. apply addr_ltb_total; [|exact N].
    destruct (addr_ltb (v_addr b) (v_addr a)) eqn:A; [|reflexivity].
    exfalso. assert (K : by_power b a = true) by (apply by_power_cases; right; split; auto).
    congruence.
  - left. exact L.
Qed.

Lemma sort_power_ssorted : forall l, NoDup (addrs l) ->
  StronglySorted (fun a b => by_power a b = true) (sort_by by_power l).
Proof.
  intros l N. apply (le_sorted_strict by_power by_power_total by_power_trans).
  - apply sort_by_sorted. exact by_power_asym.
  - eapply Permutation_NoDup; [|exact N]. apply perm_addrs. apply sort_by_perm.
Qed.

(* ------------------------------------------------------------------ the core of the batch *)

Lemma halves_disjoint : forall S a,
  NoDup (addrs S) -> In a (addrs (filter is_del S)) -> ~ In a (addrs (filter is_upd S)).
Proof.
  intros S a N I. apply has_addr_false. apply has_addr_true in I. unfold has_addr in *.
  rewrite find_addr_filter in * by exact N.
  destruct (find_addr a S) as [c|]; [|reflexivity].
  unfold is_del, is_upd in *. destruct (v_power c =? 0); [reflexivity|discriminate].
Qed.

Lemma rlist_core : forall vals cs ups dels removed tvp,
  WeakInv vals -> process_changes cs = Ok (ups, dels) ->
  verify_removals dels vals = Ok removed -> verify_updates ups vals removed = Ok tvp ->
  ASorted (rlist vals ups dels tvp) /\
  Forall (fun v => 0 < v_power v) (rlist vals ups dels tvp) /\
  sum_power (rlist vals ups dels tvp) = tvp - removed /\
  sum_power (rlist vals ups dels tvp) <= max_total_voting_power.
Proof.
  intros vals cs ups dels removed tvp W Hp Hr Hu.
  pose proof W as [N [F S]].
  destruct (process_changes_facts _ _ _ Hp) as [SS [Ncs [Pcs [Eu [Ed Fb]]]]].
  apply verify_removals_ok in Hr. destruct Hr as [Idel Er].
  assert (Su : ASorted ups) by (rewrite Eu; apply filter_asorted; exact SS).
  assert (Sd : ASorted dels) by (rewrite Ed; apply filter_asorted; exact SS).
  assert (NS : NoDup (addrs (sort_by by_addr cs))) by (apply asorted_nodup; exact SS).
  assert (R0 : 0 <= removed) by (rewrite Er; apply zsum_pw_nonneg; exact F).
  destruct (verify_updates_ok _ _ _ _ W R0 Hu) as [Et Hle].
  assert (SM : ASorted (mlist vals ups tvp)) by (apply mlist_asorted; assumption).
  assert (IM : incl (addrs dels) (addrs (mlist vals ups tvp))).
  { intros x Ix. apply mlist_incl; auto. }
  assert (Fu : Forall (fun v => 0 < v_power v) ups).
  { rewrite Eu. rewrite Forall_forall in *. intros x Ix. apply filter_In in Ix.
    destruct Ix as [Ix Hx]. specialize (Fb x Ix). unfold is_upd in Hx.
    destruct (Z.eqb_spec (v_power x) 0); [discriminate|]. lia. }
  unfold rlist. fold (mlist vals ups tvp).
  split; [apply rem_asorted; exact SM|].
  split.
  { rewrite Forall_forall. intros x Ix. apply rem_in in Ix. unfold mlist in Ix.
    apply merge_in in Ix. destruct Ix as [Ix|Ix].
    - rewrite Forall_forall in F. apply F.
      eapply Permutation_in; [apply Permutation_sym; apply sort_by_perm|exact Ix].
    - pose proof (aps_pos _ _ (eq_sym (aps_cnp ups vals tvp)) Fu) as Fu'.
      rewrite Forall_forall in Fu'. apply Fu'. exact Ix. }
  assert (Esum : sum_power (apply_removals (mlist vals ups tvp) dels) = tvp - removed).
  { rewrite rem_sum; auto. unfold mlist at 1.
    rewrite merge_sum; [|apply sort_addr_asorted; exact N|apply cnp_asorted; exact Su].
    rewrite <- (sum_power_perm _ _ (sort_by_perm by_addr vals)).
    rewrite (map_ext (delta (sort_by by_addr vals)) (delta vals)).
    2:{ intro u. unfold delta.
        rewrite <- (find_addr_perm (v_addr u) vals _ N (sort_by_perm by_addr vals)). reflexivity. }
    rewrite (aps_delta vals _ _ (aps_cnp ups vals tvp)).
    rewrite (map_ext_in (fun d => pw (mlist vals ups tvp) (v_addr d))
                        (fun d => pw vals (v_addr d))).
    2:{ intros d Id. unfold pw. rewrite mlist_find; auto.
        replace (find_addr (v_addr d) (compute_new_priorities ups vals tvp)) with
          (@None validator); [reflexivity|].
        symmetry. apply find_addr_none.
        rewrite (aps_addrs _ _ (aps_cnp ups vals tvp)). rewrite Eu.
        apply halves_disjoint; [exact NS|]. rewrite <- Ed. apply in_map. exact Id. }
    rewrite <- Er. lia. }
  split; [exact Esum|]. rewrite Esum. exact Hle.
Qed.

Lemma power_of_some_nonempty : forall l a p, power_of l a = Some p -> l <> [].
Proof. intros l a p H E. subst. discriminate. Qed.

Lemma length_addrs : forall l, length (addrs l) = length l.
Proof. intro l. unfold addrs. apply map_length. Qed.

Lemma dels_le_vals : forall vals dels,
  NoDup (addrs dels) -> incl (addrs dels) (addrs vals) -> (length dels <= length vals)%nat.
Proof.
  intros vals dels N I. rewrite <- (length_addrs dels), <- (length_addrs vals).
  apply NoDup_incl_length; assumption.
Qed.

Lemma exists_not_in : forall (l l' : list bytes),
  NoDup l -> (length l' < length l)%nat -> exists a, In a l /\ ~ In a l'.
Proof.
  intros l l' N L.
  destruct (Forall_Exists_dec (fun a => In a l') (fun a => in_dec bytes_eq_dec a l') l)
    as [F|E].
  - exfalso. rewrite Forall_forall in F.
    assert (K : (length l <= length l')%nat) by (apply NoDup_incl_length; [exact N|exact F]).
    lia.
  - apply Exists_exists in E. exact E.
Qed.

Lemma rlist_nonempty : forall vals cs ups dels tvp,
  NoDup (addrs vals) -> process_changes cs = Ok (ups, dels) ->
  incl (addrs dels) (addrs vals) ->
  (Nat.eqb (num_new ups vals) 0 && Nat.eqb (length vals) (length dels)) = false ->
  rlist vals ups dels tvp <> [].
Proof.
  intros vals cs ups dels tvp N Hp Idel E2.
  destruct (process_changes_facts _ _ _ Hp) as [SS [Ncs [Pcs [Eu [Ed Fb]]]]].
  assert (Su : ASorted ups) by (rewrite Eu; apply filter_asorted; exact SS).
  assert (Sd : ASorted dels) by (rewrite Ed; apply filter_asorted; exact SS).
  assert (NS : NoDup (addrs (sort_by by_addr cs))) by (apply asorted_nodup; exact SS).
  apply andb_false_iff in E2. destruct E2 as [E2|E2].
  - apply Nat.eqb_neq in E2. unfold num_new in E2.
    destruct (filter (fun u => negb (has_addr (v_addr u) vals)) ups) as [|u r] eqn:Ef;
      [cbn in E2; congruence|].
    assert (Iu : In u (filter (fun u => negb (has_addr (v_addr u) vals)) ups))
      by (rewrite Ef; left; reflexivity).
    apply filter_In in Iu. destruct Iu as [Iu _].
    apply (power_of_some_nonempty _ (v_addr u) (v_power u)).
    rewrite rlist_power_of; auto.
    replace (has_addr (v_addr u) dels) with false.
    2:{ symmetry. apply has_addr_false. intro I. rewrite Ed in I.
        apply (halves_disjoint _ _ NS I). rewrite <- Eu. apply in_map. exact Iu. }
    unfold power_of at 1. rewrite (find_addr_in ups u (asorted_nodup _ Su) Iu). reflexivity.
  - apply Nat.eqb_neq in E2.
    pose proof (dels_le_vals vals dels (asorted_nodup _ Sd) Idel) as Hle.
    destruct (exists_not_in (addrs vals) (addrs dels) N) as [a [Ia Na]];
      [rewrite !length_addrs; lia|].
    apply find_addr_in_addrs in Ia. destruct Ia as [v Ev].
    destruct (power_of ups a) as [p|] eqn:Ep.
    + apply (power_of_some_nonempty _ a p). rewrite rlist_power_of; auto.
      apply has_addr_false in Na. rewrite Na, Ep. reflexivity.
    + apply (power_of_some_nonempty _ a (v_power v)). rewrite rlist_power_of; auto.
      apply has_addr_false in Na. rewrite Na, Ep. unfold power_of. rewrite Ev. reflexivity.
Qed.

Lemma final_inv : forall d l,
  ASorted l -> Forall (fun v => 0 < v_power v) l -> sum_power l <= max_total_voting_power ->
  l <> [] -> Inv (sort_by by_power (shift_avg (rescale d l))).
Proof.
  intros d l S F Hs Hne.
  set (L := shift_avg (rescale d l)).
  assert (EL : aps l = aps L) by (unfold L; rewrite aps_shift_avg, aps_rescale; reflexivity).
  assert (P : Permutation L (sort_by by_power L)) by apply sort_by_perm.
  assert (NL : NoDup (addrs L)).
  { rewrite <- (aps_addrs _ _ EL). apply asorted_nodup. exact S. }
  assert (FL : Forall (fun v => 0 < v_power v) L) by (eapply aps_pos; eauto).
  assert (Ne : sort_by by_power L <> []).
  { intro E. rewrite E in P. apply Permutation_sym in P. apply Permutation_nil in P.
    rewrite P in EL. destruct l; [congruence|discriminate]. }
  assert (FF : Forall (fun v => 0 < v_power v) (sort_by by_power L)).
  { rewrite Forall_forall in *. intros x Ix. apply FL.
    eapply Permutation_in; [apply Permutation_sym; exact P|exact Ix]. }
  split; [eapply Permutation_NoDup; [apply perm_addrs; exact P|exact NL]|].
  split; [exact FF|].
  split; [apply sort_power_ssorted; exact NL|].
  split; [|exact Ne].
  split; [apply sum_power_pos; assumption|].
  rewrite <- (sum_power_perm _ _ P). rewrite <- (aps_sum _ _ EL). exact Hs.
Qed.

(* 2. Invariants *)
Theorem update_invariants : forall vs cs b vs',
  (vs_vals vs = [] \/ Inv (vs_vals vs)) -> cs <> [] ->
  update_with_change_set vs cs b = Ok vs' -> Inv (vs_vals vs').
Proof.
  intros vs cs b vs' HI Hne H. apply inv_weak in HI. rewrite update_unfold in H.
  destruct cs as [|c0 cs0]; [congruence|]. set (cs := c0 :: cs0) in *.
  destruct (process_changes cs) as [[ups dels]|e] eqn:E; [|discriminate].
  apply update_tail_ok in H. destruct H as [removed [tvp [total [Hr [Hu [_ [Hvs E2]]]]]]].
  destruct (rlist_core _ _ _ _ _ _ HI E Hr Hu) as [S [F [_ Hs]]].
  rewrite Hvs. cbn [vs_vals]. apply final_inv; auto.
  apply verify_removals_ok in Hr. destruct Hr as [Idel _].
  destruct HI as [N _]. eapply rlist_nonempty; eauto.
Qed.

Theorem update_nil : forall vs b, update_with_change_set vs [] b = Ok vs.
Proof. reflexivity. Qed.

(* the total voting power of the result is what verifyUpdates computed *)
Theorem update_total : forall vs cs b vs',
  (vs_vals vs = [] \/ Inv (vs_vals vs)) -> cs <> [] ->
  update_with_change_set vs cs b = Ok vs' ->
  total_power (vs_vals vs') = Some (sum_power (vs_vals vs')).
Proof.
  intros vs cs b vs' HI Hne H. destruct (update_invariants _ _ _ _ HI Hne H) as [_ [F [_ [[_ S] _]]]].
  apply total_power_ok; assumption.
Qed.

(* 4. No panic *)
Lemma scan_no_panic : forall l prev, scan_changes prev l <> Err EPanic.
Proof.
  induction l as [|c l IH]; intros prev; cbn [scan_changes]; [discriminate|].
  destruct (bytes_eqb (v_addr c) prev); [discriminate|].
  destruct (v_power c <? 0); [discriminate|].
  destruct (v_power c >? max_total_voting_power); [discriminate|].
  specialize (IH (v_addr c)). destruct (scan_changes (v_addr c) l) as [[u d]|e].
  - destruct (v_power c =? 0); discriminate.
  - congruence.
Qed.

Theorem update_no_panic : forall vs cs b,
  (vs_vals vs = [] \/ Inv (vs_vals vs)) -> update_with_change_set vs cs b <> Err EPanic.
Proof.
  intros vs cs b HI H. apply inv_weak in HI. rewrite update_unfold in H.
  destruct cs as [|c0 cs0]; [discriminate|]. set (cs := c0 :: cs0) in *.
  destruct (process_changes cs) as [[ups dels]|e] eqn:E.
  2:{ unfold process_changes in E. assert (He : e = EPanic) by congruence; rewrite He in *; clear He H. eapply scan_no_panic; eauto. }
  destruct (process_changes_facts _ _ _ E) as [SS [_ [_ [_ [Ed _]]]]].
  assert (Sd : ASorted dels) by (rewrite Ed; apply filter_asorted; exact SS).
  unfold update_tail in H.
  destruct (negb b && negb (Nat.eqb (length dels) 0)); [discriminate|].
  destruct (Nat.eqb (num_new ups (vs_vals vs)) 0 && Nat.eqb (length (vs_vals vs)) (length dels));
    [discriminate|].
  destruct (verify_removals dels (vs_vals vs)) as [removed|e] eqn:E3.
  2:{ assert (He : e = EPanic) by congruence; rewrite He in *; clear He H. unfold verify_removals in E3.
      destruct (removed_power dels (vs_vals vs) 0) as [p|e'] eqn:E4.
      - apply removed_power_ok in E4. destruct E4 as [I _].
        pose proof (dels_le_vals _ _ (asorted_nodup _ Sd) I) as Hle.
        destruct (Nat.ltb_spec (length (vs_vals vs)) (length dels)); [lia|discriminate].
      - apply removed_power_err in E4. congruence. }
  destruct (verify_updates ups (vs_vals vs) removed) as [tvp|e] eqn:E4.
  2:{ assert (He : e = EPanic) by congruence; rewrite He in *; clear He H. unfold verify_updates in E4. destruct HI as [_ [F S]].
      rewrite (total_power_ok _ F S) in E4.
      match type of E4 with context [scan_deltas ?t ?d] =>
        destruct (scan_deltas t d) as [t'|e'] eqn:E5 end; [discriminate|].
      apply scan_deltas_err in E5. congruence. }
  fold (rlist (vs_vals vs) ups dels tvp) in H.
  destruct (rlist_core _ _ _ _ _ _ HI E E3 E4) as [_ [F [_ Hs]]].
  rewrite (total_power_ok _ F Hs) in H. discriminate.
Qed.

(* ------------------------------------------------------------------ corollaries for [update] *)

Corollary update_order_independent' : forall vs cs cs' vs',
  Permutation cs cs' -> (update vs cs = Ok vs' <-> update vs cs' = Ok vs').
Proof. intros. unfold update. apply update_order_independent. assumption. Qed.

Corollary update_perm_eq : forall vs cs cs' b,
  Permutation cs cs' ->
  match update_with_change_set vs cs b, update_with_change_set vs cs' b with
  | Ok v, Ok v' => v = v'
  | Err _, Err _ => True
  | _, _ => False
  end.
Proof.
  intros vs cs cs' b P.
  destruct (update_with_change_set vs cs b) as [v|e] eqn:E.
  - rewrite (update_perm_ok _ _ _ _ _ P E). reflexivity.
  - destruct (update_with_change_set vs cs' b) as [v'|e'] eqn:E'; [|exact I].
    rewrite (update_perm_ok _ _ _ _ _ (Permutation_sym P) E') in E. discriminate.
Qed.

Corollary update_invariants' : forall vs cs vs',
  (vs_vals vs = [] \/ Inv (vs_vals vs)) -> cs <> [] -> update vs cs = Ok vs' -> Inv (vs_vals vs').
Proof. intros vs cs vs'. unfold update. apply update_invariants. Qed.

(* the proposer field is not touched by a batch *)
Theorem update_keeps_proposer : forall vs cs b vs',
  update_with_change_set vs cs b = Ok vs' -> vs_prop vs' = vs_prop vs.
Proof.
  intros vs cs b vs' H. rewrite update_unfold in H. destruct cs as [|c0 cs0]; [congruence|].
  destruct (process_changes (c0 :: cs0)) as [[ups dels]|e]; [|discriminate].
  apply update_tail_ok in H. destruct H as [? [? [? [_ [_ [_ [Hvs _]]]]]]]. rewrite Hvs. reflexivity.
Qed.

(* ------------------------------------------------------------------ 5. the deltas: any sort will do *)

Lemma zsum_nonneg : forall l, Forall (fun x => 0 <= x) l -> 0 <= zsum l.
Proof. induction 1; [cbn; lia|rewrite zsum_cons; lia]. Qed.

Theorem scan_deltas_closed : forall ds t0,
  Sorted Z.le ds -> t0 <= max_total_voting_power ->
  scan_deltas t0 ds =
  if t0 + zsum ds >? max_total_voting_power then Err EOverflow else Ok (t0 + zsum ds).
Proof.
  intros ds t0 S. apply Sorted_StronglySorted in S; [|intros a b c; apply Z.le_trans].
  revert t0. induction S as [|d ds S IH F]; intros t0 H0.
  - cbn [scan_deltas zsum fold_right]. rewrite Z.add_0_r.
    replace (t0 >? max_total_voting_power) with false; [reflexivity|].
    symmetry. rewrite Z.gtb_ltb. apply Z.ltb_ge. exact H0.
  - cbn [scan_deltas]. rewrite zsum_cons.
    destruct (t0 + d >? max_total_voting_power) eqn:E.
    + rewrite Z.gtb_ltb in E. apply Z.ltb_lt in E.
      assert (P : 0 <= zsum ds).
      { apply zsum_nonneg. eapply Forall_impl; [|exact F]. cbv beta. intros; lia. }
      replace (t0 + (d + zsum ds) >? max_total_voting_power) with true; [reflexivity|].
      symmetry. rewrite Z.gtb_ltb. apply Z.ltb_lt. lia.
    + rewrite Z.gtb_ltb in E. apply Z.ltb_ge in E. rewrite (IH _ E).
      rewrite Z.add_assoc. reflexivity.
Qed.

Theorem scan_deltas_sort_independent : forall t0 ds ds',
  t0 <= max_total_voting_power -> Permutation ds ds' -> Sorted Z.le ds -> Sorted Z.le ds' ->
  scan_deltas t0 ds = scan_deltas t0 ds'.
Proof.
  intros t0 ds ds' H0 P S S'. rewrite !scan_deltas_closed by assumption.
  rewrite (zsum_perm _ _ P). reflexivity.
Qed.

Lemma sort_ltb_sorted : forall l, Sorted Z.le (sort_by Z.ltb l).
Proof.
  intro l. pose proof (sort_by_sorted Z.ltb Zltb_asym l) as S.
  induction S as [|a r S IH Hd]; constructor; [exact IH|].
  destruct Hd as [|b r' Hab]; constructor. unfold leb_of in Hab. apply Z.ltb_ge in Hab. exact Hab.
Qed.

(* verifyUpdates in closed form: only the sum of the deltas matters *)
Theorem verify_updates_closed : forall ups vals removed total,
  total_power vals = Some total -> total - removed <= max_total_voting_power ->
  verify_updates ups vals removed =
  if total + zsum (map (delta vals) ups) - removed >? max_total_voting_power
  then Err EOverflow else Ok (total + zsum (map (delta vals) ups)).
Proof.
  intros ups vals removed total Ht H0. unfold verify_updates. rewrite Ht.
  rewrite scan_deltas_closed; [|apply sort_ltb_sorted|exact H0].
  rewrite <- (zsum_perm _ _ (sort_by_perm Z.ltb (map (delta vals) ups))).
  replace (total - removed + zsum (map (delta vals) ups))
    with (total + zsum (map (delta vals) ups) - removed) by lia.
  destruct (total + zsum (map (delta vals) ups) - removed >? max_total_voting_power);
    [reflexivity|]. f_equal. lia.
Qed.

(* ------------------------------------------------------------------ 6. an error leaves the set as it was *)

Definition update_in_place (vs : valset) (cs : list validator) : valset * option upd_err :=
  match update vs cs with Ok v => (v, None) | Err e => (vs, Some e) end.

Theorem update_error_unchanged : forall vs cs,
  snd (update_in_place vs cs) <> None -> fst (update_in_place vs cs) = vs.
Proof.
  intros vs cs. unfold update_in_place. destruct (update vs cs); cbn [fst snd]; congruence.
Qed.

(* ------------------------------------------------------------------ NewValidatorSet *)

Theorem new_validator_set_order_independent : forall valz valz',
  Permutation valz valz' -> new_validator_set valz = new_validator_set valz'.
Proof.
  intros valz valz' P. unfold new_validator_set.
  pose proof (update_perm_eq (mkVS [] None) valz valz' false P) as K.
  destruct (update_with_change_set (mkVS [] None) valz false) as [v|e];
    destruct (update_with_change_set (mkVS [] None) valz' false) as [v'|e']; try contradiction;
    [|reflexivity].
  subst v'. destruct valz as [|x r].
  - apply Permutation_nil in P. subst. reflexivity.
  - destruct valz' as [|x' r']; [|reflexivity].
    apply Permutation_sym in P. apply Permutation_nil in P. discriminate.
Qed.

Theorem new_validator_set_batch : forall valz vs,
  valz <> [] -> new_validator_set valz = Some vs ->
  exists vs0, update_with_change_set (mkVS [] None) valz false = Ok vs0 /\
              Inv (vs_vals vs0) /\
              (forall a, power_of (vs_vals vs0) a = expected_power [] valz a) /\
              ipp 1 vs0 = Some vs.
Proof.
  intros valz vs Hne H. unfold new_validator_set in H.
  destruct (update_with_change_set (mkVS [] None) valz false) as [vs0|e] eqn:E; [|discriminate].
  exists vs0. split; [reflexivity|]. split.
  - apply (update_invariants (mkVS [] None) valz false vs0); [left; reflexivity|exact Hne|exact E].
  - split.
    + intro a. apply (update_refines_map (mkVS [] None) valz false vs0); auto. constructor.
    + destruct valz; [congruence|exact H].
Qed.

(* a genesis list is accepted exactly when its addresses are distinct, its powers positive and
   their sum within the maximum *)
Theorem genesis_batch_requires : forall valz vs0,
  update_with_change_set (mkVS [] None) valz false = Ok vs0 -> valz <> [] ->
  NoDup (addrs valz) /\ Forall (fun v => 0 < v_power v) valz /\
  sum_power valz <= max_total_voting_power /\ Permutation (aps valz) (aps (vs_vals vs0)).
Proof.
  intros valz vs0 H Hne. rewrite update_unfold in H. destruct valz as [|c0 cs0]; [congruence|].
  set (cs := c0 :: cs0) in *.
  destruct (process_changes cs) as [[ups dels]|e] eqn:E; [|discriminate].
  destruct (process_changes_facts _ _ _ E) as [SS [Ncs [Pcs [Eu [Ed Fb]]]]].
  pose proof H as H'. unfold update_tail in H'. cbn [negb andb vs_vals] in H'.
  destruct (negb (Nat.eqb (length dels) 0)) eqn:E1; [discriminate|]. clear H'.
  apply negb_false_iff in E1. apply Nat.eqb_eq in E1.
  assert (D0 : dels = []) by (destruct dels; [reflexivity|discriminate]).
  assert (Fall : forall x, In x (sort_by by_addr cs) -> is_upd x = true).
  { intros x Ix. destruct (is_upd x) eqn:Ux; [reflexivity|]. exfalso.
    assert (Ix' : In x dels).
    { rewrite Ed. apply filter_In. split; [exact Ix|]. unfold is_upd, is_del in *.
      destruct (v_power x =? 0); [reflexivity|discriminate]. }
    rewrite D0 in Ix'. contradiction. }
  assert (Eups : ups = sort_by by_addr cs).
  { rewrite Eu. clear -Fall. induction (sort_by by_addr cs) as [|x l IH]; [reflexivity|].
    cbn [filter]. rewrite (Fall x) by (left; reflexivity). f_equal. apply IH.
    intros y Iy. apply Fall. right. exact Iy. }
  apply update_tail_ok in H. destruct H as [removed [tvp [total [Hr [Hu [_ [Hvs _]]]]]]].
  cbn [vs_vals] in *.
  assert (W : WeakInv []).
  { repeat split; try constructor. cbn. unfold max_total_voting_power. lia. }
  destruct (rlist_core _ _ _ _ _ _ W E Hr Hu) as [SR [FR [_ HsR]]].
  assert (ER : aps (rlist [] ups dels tvp) = aps ups).
  { unfold rlist. rewrite D0, rem_nil_r. cbn [sort_by]. rewrite merge_nil_l. apply aps_cnp. }
  assert (Fups : Forall (fun v => 0 < v_power v) ups) by (eapply aps_pos; [exact ER|exact FR]).
  split; [exact Ncs|]. split.
  { rewrite Forall_forall in *. intros x Ix. apply Fups. rewrite Eups.
    eapply Permutation_in; [exact Pcs|exact Ix]. }
  split.
  { rewrite (sum_power_perm _ _ Pcs). rewrite <- Eups. rewrite <- (aps_sum _ _ ER). exact HsR. }
  rewrite Hvs. cbn [vs_vals]. eapply perm_trans; [|apply final_aps].
  rewrite ER, Eups. unfold aps. apply Permutation_map. exact Pcs.
Qed.

(* ------------------------------------------------------------------ IncrementProposerPriority keeps
   addresses, powers and the order of the list; hence NewValidatorSet returns a set with [Inv] *)

Lemma most_from_nth : forall r pre bi best i,
  nth_error (pre ++ r) bi = Some best -> i = length pre ->
  nth_error (pre ++ r) (fst (most_from bi best i r)) = Some (snd (most_from bi best i r)).
Proof.
  induction r as [|v r IH]; intros pre bi best i Hb Hi; cbn [most_from].
  - exact Hb.
  - assert (EA : pre ++ v :: r = (pre ++ [v]) ++ r) by (rewrite <- app_assoc; reflexivity).
    assert (EL : S i = length (pre ++ [v])) by (rewrite app_length; cbn [length]; lia).
    rewrite EA in *. destruct (keeps best v).
    + apply IH; [exact Hb|exact EL].
    + apply IH; [|exact EL]. rewrite <- app_assoc. cbn [app].
      rewrite nth_error_app2 by lia. rewrite Hi, Nat.sub_diag. reflexivity.
Qed.

Lemma set_nth_aps : forall l n x y,
  nth_error l n = Some y -> ap x = ap y -> aps (set_nth n x l) = aps l.
Proof.
  induction l as [|z l IH]; intros n x y Hn Hxy; [destruct n; reflexivity|].
  destruct n as [|n]; cbn [nth_error] in Hn; cbn [set_nth aps map].
  - inversion Hn; subst. rewrite Hxy. reflexivity.
  - f_equal. apply (IH n x y); assumption.
Qed.

Lemma inc_once_aps : forall total l, aps (fst (inc_once total l)) = aps l.
Proof.
  intros total l. unfold inc_once.
  set (l1 := map (fun v => set_prio v (add_clip (v_prio v) (v_power v))) l).
  assert (E1 : aps l1 = aps l)
    by (apply (aps_set_prio (fun v => add_clip (v_prio v) (v_power v)))).
  destruct (most_prio l1) as [[i m]|] eqn:Em; cbn [fst]; [|exact E1].
  rewrite <- E1. unfold most_prio in Em. destruct l1 as [|v r]; [discriminate|].
  inversion Em as [Em'].
  pose proof (most_from_nth r [v] 0%nat v 1%nat eq_refl eq_refl) as K.
  rewrite Em' in K. cbn [fst snd app] in K.
  apply (set_nth_aps _ _ _ m K). reflexivity.
Qed.

Lemma inc_times_aps : forall n total l p, aps (fst (inc_times n total l p)) = aps l.
Proof.
  induction n as [|n IH]; intros total l p; cbn [inc_times]; [reflexivity|].
  pose proof (inc_once_aps total l) as K.
  destruct (inc_once total l) as [l' p']. cbn [fst] in K. rewrite IH. exact K.
Qed.

Theorem ipp_aps : forall t vs vs', ipp t vs = Some vs' -> aps (vs_vals vs') = aps (vs_vals vs).
Proof.
  intros t vs vs' H. unfold ipp in H. destruct (vs_vals vs) as [|x r] eqn:Ev; [discriminate|].
  destruct (t <=? 0); [discriminate|].
  destruct (total_power (x :: r)) as [total|]; [|discriminate].
  match type of H with context [inc_times ?n ?tt ?l ?p] =>
    pose proof (inc_times_aps n tt l p) as K; destruct (inc_times n tt l p) as [l' p'] end.
  inversion H; subst. cbn [vs_vals fst] in *. rewrite K, aps_shift_avg, aps_rescale. reflexivity.
Qed.

Lemma forall_by_power_aps : forall a a' l l',
  ap a = ap a' -> aps l = aps l' ->
  Forall (fun b => by_power a b = true) l -> Forall (fun b => by_power a' b = true) l'.
Proof.
  intros a a' l. induction l as [|x l IH]; destruct l' as [|y l']; intros Ha H F;
    try discriminate; [constructor|].
  cbn [aps map] in H. injection H as Ea Ep E2. injection Ha as Ha Hp.
  inversion F as [|? ? Fx F']; subst. constructor; [|apply IH; auto; unfold ap; congruence].
  unfold by_power in *. rewrite <- Ha, <- Hp, <- Ea, <- Ep. exact Fx.
Qed.

Lemma ssorted_power_aps : forall l l', aps l = aps l' ->
  StronglySorted (fun a b => by_power a b = true) l ->
  StronglySorted (fun a b => by_power a b = true) l'.
Proof.
  induction l as [|x l IH]; destruct l' as [|y l']; intros H S; try discriminate; [constructor|].
  pose proof H as H0. cbn [aps map] in H. injection H as Ea Ep E2.
  inversion S as [|? ? S' F]; subst. constructor; [apply IH; assumption|].
  eapply forall_by_power_aps; [|exact E2|exact F]. unfold ap. congruence.
Qed.

Lemma inv_aps : forall l l', aps l = aps l' -> Inv l -> Inv l'.
Proof.
  intros l l' E [N [F [S [Hs Hne]]]].
  split; [rewrite <- (aps_addrs _ _ E); exact N|].
  split; [eapply aps_pos; eauto|].
  split; [eapply ssorted_power_aps; eauto|].
  split; [rewrite <- (aps_sum _ _ E); exact Hs|].
  intro E0. subst l'. destruct l; [congruence|discriminate].
Qed.

Theorem ipp_keeps_inv : forall t vs vs', ipp t vs = Some vs' -> Inv (vs_vals vs) -> Inv (vs_vals vs').
Proof. intros t vs vs' H. apply inv_aps. symmetry. eapply ipp_aps. exact H. Qed.

Theorem new_validator_set_inv : forall valz vs,
  valz <> [] -> new_validator_set valz = Some vs ->
  Inv (vs_vals vs) /\ forall a, power_of (vs_vals vs) a = expected_power [] valz a.
Proof.
  intros valz vs Hne H. destruct (new_validator_set_batch _ _ Hne H) as [vs0 [_ [HI [Hp Hipp]]]].
  split; [eapply ipp_keeps_inv; eauto|].
  intro a. rewrite <- Hp. apply aps_power_of. eapply ipp_aps. exact Hipp.
Qed.

(* ------------------------------------------------------------------ non-vacuity *)

Definition ex_vals : list validator :=
  [mkVal [3%N] 30 0; mkVal [2%N] 20 0; mkVal [1%N] 10 0].
Definition ex_vs : valset := mkVS ex_vals None.
(* an add, a removal and a power change *)
Definition ex_cs : list validator := [mkVal [4%N] 5 0; mkVal [1%N] 0 0; mkVal [2%N] 50 0].
Definition ex_out : valset :=
  mkVS [mkVal [2%N] 50 36; mkVal [3%N] 30 36; mkVal [4%N] 5 (-70)] None.

Example ex_inv : Inv ex_vals.
Proof.
  unfold Inv, ex_vals. split; [|split; [|split; [|split]]].
  - cbn [addrs map]. repeat constructor; cbn [In]; intuition discriminate.
  - repeat constructor; cbn [v_power]; lia.
  - repeat constructor.
  - vm_compute. split; [reflexivity|discriminate].
  - discriminate.
Qed.

Example ex_order_1 : update_with_change_set ex_vs ex_cs true = Ok ex_out.
Proof. vm_compute. reflexivity. Qed.
Example ex_order_2 : update_with_change_set ex_vs (rev ex_cs) true = Ok ex_out.
Proof. vm_compute. reflexivity. Qed.
Example ex_order_perm : Permutation ex_cs (rev ex_cs).
Proof. apply Permutation_rev. Qed.
(* ... and theorem 1 gives the second from the first *)
Example ex_order_by_theorem : update_with_change_set ex_vs (rev ex_cs) true = Ok ex_out.
Proof. apply (update_order_independent _ _ _ _ _ ex_order_perm). exact ex_order_1. Qed.

(* a duplicate makes both orders fail *)
Example ex_dup_1 :
  update_with_change_set ex_vs [mkVal [4%N] 5 0; mkVal [2%N] 7 0; mkVal [4%N] 6 0] true = Err EDup.
Proof. vm_compute. reflexivity. Qed.
Example ex_dup_2 :
  update_with_change_set ex_vs [mkVal [4%N] 6 0; mkVal [2%N] 7 0; mkVal [4%N] 5 0] true = Err EDup.
Proof. vm_compute. reflexivity. Qed.

(* theorem 2 on the example: the result satisfies the invariant (and it is a different set) *)
Example ex_out_inv : Inv (vs_vals ex_out).
Proof.
  apply (update_invariants ex_vs ex_cs true ex_out);
    [right; exact ex_inv|discriminate|exact ex_order_1].
Qed.
Example ex_out_total : total_power (vs_vals ex_out) = Some 85.
Proof. vm_compute. reflexivity. Qed.

(* theorem 3 on the example: changed, removed, added, untouched, unknown *)
Example ex_map :
  map (power_of (vs_vals ex_out)) [[1%N]; [2%N]; [3%N]; [4%N]; [5%N]] =
  [None; Some 50; Some 30; Some 5; None] /\
  map (expected_power ex_vals ex_cs) [[1%N]; [2%N]; [3%N]; [4%N]; [5%N]] =
  [None; Some 50; Some 30; Some 5; None].
Proof. split; vm_compute; reflexivity. Qed.

(* theorem 4: errors occur under the invariant, but they are not panics *)
Example ex_overflow :
  update ex_vs [mkVal [4%N] max_total_voting_power 0] = Err EOverflow.
Proof. vm_compute. reflexivity. Qed.
Example ex_empty :
  update ex_vs [mkVal [1%N] 0 0; mkVal [2%N] 0 0; mkVal [3%N] 0 0] = Err EEmpty.
Proof. vm_compute. reflexivity. Qed.
Example ex_not_found : update ex_vs [mkVal [7%N] 0 0] = Err ENotFound.
Proof. vm_compute. reflexivity. Qed.
Example ex_del_not_allowed :
  update_with_change_set ex_vs [mkVal [1%N] 0 0] false = Err EDelNotAllowed.
Proof. vm_compute. reflexivity. Qed.
(* without the invariant the panic is reachable: a set whose total is above the maximum *)
Example ex_panic_without_inv :
  update (mkVS [mkVal [1%N] max_total_voting_power 0; mkVal [2%N] 1 0] None) [mkVal [3%N] 1 0]
  = Err EPanic.
Proof. vm_compute. reflexivity. Qed.

(* theorem 5: deltas 40, -10, 5 in two sorted presentations / closed form *)
Example ex_deltas :
  scan_deltas 60 [-10; 5; 40] = Ok 95 /\
  scan_deltas (max_total_voting_power - 30) [-10; 5; 40] = Err EOverflow /\
  (* an unsorted presentation can fail where the sorted one succeeds: the sort matters *)
  scan_deltas (max_total_voting_power - 30) [-10; 30; 5] = Ok (max_total_voting_power - 5) /\
  scan_deltas (max_total_voting_power - 30) [30; 5; -10] = Err EOverflow.
Proof. repeat split; vm_compute; reflexivity. Qed.

(* theorem 6 *)
Example ex_in_place_err :
  update_in_place ex_vs [mkVal [7%N] 0 0] = (ex_vs, Some ENotFound).
Proof. vm_compute. reflexivity. Qed.
Example ex_in_place_ok : update_in_place ex_vs ex_cs = (ex_out, None).
Proof. vm_compute. reflexivity. Qed.

(* NewValidatorSet in two orders *)
Example ex_new_1 :
  new_validator_set (rev ex_vals) =
  Some (mkVS [mkVal [3%N] 30 (-30); mkVal [2%N] 20 20; mkVal [1%N] 10 10]
             (Some (mkVal [3%N] 30 (-30)))).
Proof. vm_compute. reflexivity. Qed.
Example ex_new_2 : new_validator_set ex_vals = new_validator_set (rev ex_vals).
Proof. vm_compute. reflexivity. Qed.
Example ex_new_dup : new_validator_set [mkVal [1%N] 5 0; mkVal [1%N] 6 0] = None.
Proof. vm_compute. reflexivity. Qed.

(* ------------------------------------------------------------------ which batches are accepted
   (the converse direction: theorems 1-4 are not satisfied by refusing everything) *)

Lemma filter_perm : forall {A} (f : A -> bool) l l',
  Permutation l l' -> Permutation (filter f l) (filter f l').
Proof.
  intros A f l l' P. induction P; cbn [filter].
  - constructor.
  - destruct (f x); auto.
  - destruct (f x), (f y); try apply Permutation_refl. apply perm_swap.
  - eapply perm_trans; eauto.
Qed.

Lemma scan_ok : forall l prev,
  ASorted l -> Forall (fun c => 0 <= v_power c <= max_total_voting_power) l ->
  match l with c :: _ => v_addr c <> prev | [] => True end ->
  scan_changes prev l = Ok (filter is_upd l, filter is_del l).
Proof.
  induction l as [|c l IH]; intros prev S F Hd; [reflexivity|].
  destruct (asorted_inv _ _ S) as [S' G]. inversion F as [|? ? Fc F']; subst.
  cbn [scan_changes filter].
  replace (bytes_eqb (v_addr c) prev) with false by (symmetry; apply bytes_eqb_neq; exact Hd).
  replace (v_power c <? 0) with false by (symmetry; apply Z.ltb_ge; lia).
  replace (v_power c >? max_total_voting_power) with false
    by (symmetry; rewrite Z.gtb_ltb; apply Z.ltb_ge; lia).
  rewrite (IH (v_addr c) S' F').
  2:{ destruct l as [|c' l']; [exact I|]. inversion G as [|? ? L _]; subst.
      apply addr_ltb_neq in L. congruence. }
  unfold is_upd, is_del. destruct (v_power c =? 0); reflexivity.
Qed.

Lemma removed_power_complete : forall vals dels acc,
  incl (addrs dels) (addrs vals) ->
  removed_power dels vals acc = Ok (acc + zsum (map (fun d => pw vals (v_addr d)) dels)).
Proof.
  intros vals. induction dels as [|d dels IH]; intros acc I.
  - cbn [removed_power map zsum fold_right]. f_equal. lia.
  - assert (Id : In (v_addr d) (addrs vals)) by (apply I; left; reflexivity).
    apply find_addr_in_addrs in Id. destruct Id as [v Ev].
    cbn [removed_power]. rewrite Ev. rewrite IH by (intros x Ix; apply I; right; exact Ix).
    cbn [map]. rewrite zsum_cons. unfold pw at 2. rewrite Ev. f_equal. lia.
Qed.

Lemma addr_ltb_nil_r : forall a, addr_ltb a [] = false.
Proof. intro a. unfold addr_ltb. destruct a; reflexivity. Qed.

(* [processChanges] starts its scan with prev = nil, and bytes.Equal(x, nil) holds for the empty
   x: a change with an empty address is refused as a "duplicate".  Real addresses have 20 bytes. *)
Definition batch_ok (vals cs : list validator) (allow_deletes : bool) : Prop :=
  NoDup (addrs cs) /\
  Forall (fun c => v_addr c <> []) cs /\
  Forall (fun c => 0 <= v_power c <= max_total_voting_power) cs /\
  (allow_deletes = false -> Forall (fun c => v_power c <> 0) cs) /\
  (forall c, In c cs -> v_power c = 0 -> In (v_addr c) (addrs vals)) /\
  (exists a, expected_power vals cs a <> None) /\
  sum_power vals + zsum (map (delta vals) (filter is_upd cs))
    - zsum (map (fun d => pw vals (v_addr d)) (filter is_del cs)) <= max_total_voting_power.

Lemma zsum_map_perm : forall {A} (f : A -> Z) l l',
  Permutation l l' -> zsum (map f l) = zsum (map f l').
Proof. intros. apply zsum_perm. apply Permutation_map. assumption. Qed.

Lemma process_changes_nonempty_addrs : forall cs r,
  process_changes cs = Ok r -> Forall (fun c => v_addr c <> []) cs.
Proof.
  intros cs r H. pose proof (process_changes_asorted _ _ H) as SS.
  unfold process_changes in H.
  apply scan_strict in H; [|apply sort_by_sorted; exact by_addr_asym]. destruct H as [_ Hd].
  rewrite Forall_forall. intros x Ix.
  assert (Ix' : In x (sort_by by_addr cs))
    by (eapply Permutation_in; [apply sort_by_perm|exact Ix]).
  destruct (sort_by by_addr cs) as [|c l]; [contradiction|].
  destruct Ix' as [Ex|Ix']; [subst; exact Hd|].
  destruct (asorted_inv _ _ SS) as [_ G]. unfold all_gt in G. rewrite Forall_forall in G.
  specialize (G x Ix'). intro E0. rewrite E0, addr_ltb_nil_r in G. discriminate.
Qed.

Theorem update_accepted_sound : forall vs cs b vs',
  (vs_vals vs = [] \/ Inv (vs_vals vs)) -> cs <> [] ->
  update_with_change_set vs cs b = Ok vs' -> batch_ok (vs_vals vs) cs b.
Proof.
  intros vs cs b vs' HI Hne H. pose proof H as H0. pose proof HI as HI0. apply inv_weak in HI.
  rewrite update_unfold in H.
  destruct cs as [|c0 cs0]; [congruence|]. set (cs := c0 :: cs0) in *.
  destruct (process_changes cs) as [[ups dels]|e] eqn:E; [|discriminate].
  destruct (process_changes_facts _ _ _ E) as [SS [Ncs [Pcs [Eu [Ed Fb]]]]].
  assert (Hb : b = false -> dels = []).
  { intro Eb. unfold update_tail in H. rewrite Eb in H. cbn [negb andb] in H.
    destruct dels; [reflexivity|discriminate]. }
  apply update_tail_ok in H. destruct H as [removed [tvp [total [Hr [Hu [_ [Hvs E2]]]]]]].
  pose proof Hr as Hr0. apply verify_removals_ok in Hr. destruct Hr as [Idel Er].
  pose proof HI as [N [F S]].
  assert (R0 : 0 <= removed) by (rewrite Er; apply zsum_pw_nonneg; exact F).
  destruct (verify_updates_ok _ _ _ _ HI R0 Hu) as [Et Hle].
  split; [exact Ncs|].
  split; [eapply process_changes_nonempty_addrs; exact E|].
  split.
  { rewrite Forall_forall in *. intros x Ix. apply Fb. eapply Permutation_in; eauto. }
  split.
  { intro Eb. specialize (Hb Eb). rewrite Forall_forall. intros x Ix Hx.
    assert (Ix' : In x dels).
    { rewrite Ed. apply filter_In. split; [eapply Permutation_in; eauto|].
      unfold is_del. rewrite Hx. reflexivity. }
    rewrite Hb in Ix'. contradiction. }
  split.
  { intros c Ic Hc. apply Idel. apply in_map. rewrite Ed. apply filter_In.
    split; [eapply Permutation_in; eauto|]. unfold is_del. rewrite Hc. reflexivity. }
  split.
  { destruct (update_invariants _ _ _ _ HI0 Hne H0) as [_ [_ [_ [_ Hn]]]].
    destruct (vs_vals vs') as [|x r] eqn:Ev; [congruence|]. exists (v_addr x).
    rewrite <- (update_refines_map _ _ _ _ N H0 Hne). rewrite Ev, power_of_cons, bytes_eqb_refl.
    discriminate. }
  rewrite (zsum_map_perm (delta (vs_vals vs)) _ _ (filter_perm is_upd _ _ Pcs)).
  rewrite (zsum_map_perm (fun d => pw (vs_vals vs) (v_addr d)) _ _ (filter_perm is_del _ _ Pcs)).
  rewrite <- Eu, <- Ed, <- Er. lia.
Qed.

Lemma nodup_filter_addrs : forall f l, NoDup (addrs l) -> NoDup (addrs (filter f l)).
Proof.
  intros f. induction l as [|x l IH]; intro N; [constructor|].
  cbn [addrs map] in N. inversion N as [|? ? Nin N']; subst. cbn [filter].
  destruct (f x); [|apply IH; exact N'].
  cbn [addrs map]. constructor; [|apply IH; exact N'].
  intro I. apply Nin. apply in_map_iff in I. destruct I as [y [Ey Iy]].
  apply filter_In in Iy. rewrite <- Ey. apply in_map. tauto.
Qed.

Lemma empty_check_complete : forall vals S,
  NoDup (addrs vals) -> NoDup (addrs S) ->
  incl (addrs (filter is_del S)) (addrs vals) ->
  (Nat.eqb (num_new (filter is_upd S) vals) 0
   && Nat.eqb (length vals) (length (filter is_del S))) = true ->
  forall a, expected_power vals S a = None.
Proof.
  intros vals S N NS Idel E a.
  apply andb_true_iff in E. destruct E as [E1 E2].
  apply Nat.eqb_eq in E1. apply Nat.eqb_eq in E2.
  assert (Iv : incl (addrs vals) (addrs (filter is_del S))).
  { apply NoDup_length_incl; [|rewrite !length_addrs; lia|exact Idel].
    apply nodup_filter_addrs. exact NS. }
  unfold expected_power. destruct (find_addr a S) as [c|] eqn:Ec.
  - destruct (v_power c =? 0) eqn:Ep; [reflexivity|]. exfalso.
    apply find_addr_some in Ec. destruct Ec as [Ic Ea].
    assert (Iu : In c (filter is_upd S)).
    { apply filter_In. split; [exact Ic|]. unfold is_upd. rewrite Ep. reflexivity. }
    unfold num_new in E1. apply length_zero_iff_nil in E1.
    assert (Hv : has_addr (v_addr c) vals = true).
    { destruct (has_addr (v_addr c) vals) eqn:Hh; [reflexivity|]. exfalso.
      assert (K : In c (filter (fun u => negb (has_addr (v_addr u) vals)) (filter is_upd S))).
      { apply filter_In. split; [exact Iu|]. rewrite Hh. reflexivity. }
      rewrite E1 in K. contradiction. }
    apply has_addr_true in Hv. apply Iv in Hv.
    apply (halves_disjoint S (v_addr c) NS Hv). apply in_map. exact Iu.
  - destruct (find_addr a vals) as [v|] eqn:Ev; [|reflexivity]. exfalso.
    apply find_addr_some in Ev. destruct Ev as [Iv' Ea].
    assert (Ia : In a (addrs vals)) by (rewrite <- Ea; apply in_map; exact Iv').
    apply Iv in Ia. apply find_addr_none in Ec. apply Ec.
    apply in_map_iff in Ia. destruct Ia as [y [Ey Iy]]. apply filter_In in Iy.
    rewrite <- Ey. apply in_map. tauto.
Qed.

Lemma expected_power_perm : forall vals cs cs' a,
  NoDup (addrs cs) -> Permutation cs cs' -> expected_power vals cs a = expected_power vals cs' a.
Proof.
  intros vals cs cs' a N P. unfold expected_power. rewrite (find_addr_perm a cs cs' N P).
  reflexivity.
Qed.

Theorem update_accepted_complete : forall vs cs b,
  (vs_vals vs = [] \/ Inv (vs_vals vs)) -> cs <> [] ->
  batch_ok (vs_vals vs) cs b -> exists vs', update_with_change_set vs cs b = Ok vs'.
Proof.
  intros vs cs b HI Hne [Ncs [Anz [Fcs [Hdel [Hfound [[a0 Ha0] Hsum]]]]]].
  apply inv_weak in HI. pose proof HI as [N [F Sv]].
  set (vals := vs_vals vs) in *. set (S := sort_by by_addr cs).
  assert (Pcs : Permutation cs S) by apply sort_by_perm.
  assert (SS : ASorted S) by (apply sort_addr_asorted; exact Ncs).
  assert (NS : NoDup (addrs S)) by (apply asorted_nodup; exact SS).
  assert (InS : forall x, In x S -> In x cs).
  { intros x Ix. eapply Permutation_in; [apply Permutation_sym; exact Pcs|exact Ix]. }
  assert (FS : Forall (fun c => 0 <= v_power c <= max_total_voting_power) S).
  { rewrite Forall_forall in *. intros x Ix. apply Fcs. apply InS. exact Ix. }
  assert (Ep : process_changes cs = Ok (filter is_upd S, filter is_del S)).
  { unfold process_changes. fold S. apply scan_ok; auto.
    destruct S as [|c l] eqn:ES; [exact I|].
    rewrite Forall_forall in Anz. apply Anz. apply InS. left. reflexivity. }
  set (ups := filter is_upd S) in *. set (dels := filter is_del S) in *.
  assert (Idel : incl (addrs dels) (addrs vals)).
  { intros a Ia. apply in_map_iff in Ia. destruct Ia as [d [Ed Id]]. unfold dels in Id.
    apply filter_In in Id. destruct Id as [Id Hd]. rewrite <- Ed. apply Hfound; [apply InS; exact Id|].
    unfold is_del in Hd. apply Z.eqb_eq in Hd. exact Hd. }
  assert (Sd : ASorted dels) by (apply filter_asorted; exact SS).
  set (removed := zsum (map (fun d => pw vals (v_addr d)) dels)).
  assert (Hr : verify_removals dels vals = Ok removed).
  { unfold verify_removals. rewrite (removed_power_complete vals dels 0 Idel).
    pose proof (dels_le_vals vals dels (asorted_nodup _ Sd) Idel) as Hle.
    destruct (Nat.ltb_spec (length vals) (length dels)); [lia|]. reflexivity. }
  assert (R0 : 0 <= removed) by (apply zsum_pw_nonneg; exact F).
  assert (Hsum' : sum_power vals + zsum (map (delta vals) ups) - removed <= max_total_voting_power).
  { unfold removed, ups, dels.
    rewrite <- (zsum_map_perm (delta vals) _ _ (filter_perm is_upd _ _ Pcs)).
    rewrite <- (zsum_map_perm (fun d => pw vals (v_addr d)) _ _ (filter_perm is_del _ _ Pcs)).
    exact Hsum. }
  assert (Hu : verify_updates ups vals removed = Ok (sum_power vals + zsum (map (delta vals) ups))).
  { rewrite (verify_updates_closed ups vals removed (sum_power vals));
      [|apply total_power_ok; assumption|lia].
    replace (sum_power vals + zsum (map (delta vals) ups) - removed >? max_total_voting_power)
      with false; [reflexivity|].
    symmetry. rewrite Z.gtb_ltb. apply Z.ltb_ge. exact Hsum'. }
  destruct (rlist_core _ _ _ _ _ _ HI Ep Hr Hu) as [_ [FR [_ HsR]]].
  rewrite update_unfold. destruct cs as [|c0 cs0]; [congruence|].
  rewrite Ep. unfold update_tail. fold vals.
  assert (C1 : negb b && negb (Nat.eqb (length dels) 0) = false).
  { destruct b; [reflexivity|]. cbn [negb andb].
    replace dels with (@nil validator); [reflexivity|].
    symmetry. unfold dels. specialize (Hdel eq_refl). rewrite Forall_forall in Hdel.
    destruct (filter is_del S) as [|d r] eqn:Ef; [reflexivity|]. exfalso.
    assert (Id : In d (filter is_del S)) by (rewrite Ef; left; reflexivity).
    apply filter_In in Id. destruct Id as [Id Hd]. apply (Hdel d (InS d Id)).
    unfold is_del in Hd. apply Z.eqb_eq in Hd. exact Hd. }
  rewrite C1.
  assert (C2 : Nat.eqb (num_new ups vals) 0 && Nat.eqb (length vals) (length dels) = false).
  { destruct (Nat.eqb (num_new ups vals) 0 && Nat.eqb (length vals) (length dels)) eqn:C;
      [|reflexivity]. exfalso. apply Ha0.
    rewrite (expected_power_perm vals _ S a0 Ncs Pcs).
    apply empty_check_complete; assumption. }
  rewrite C2, Hr, Hu.
  fold (rlist vals ups dels (sum_power vals + zsum (map (delta vals) ups))).
  rewrite (total_power_ok _ FR HsR). eexists. reflexivity.
Qed.

(* acceptance, exactly *)
Theorem update_accepted_iff : forall vs cs b,
  (vs_vals vs = [] \/ Inv (vs_vals vs)) -> cs <> [] ->
  ((exists vs', update_with_change_set vs cs b = Ok vs') <-> batch_ok (vs_vals vs) cs b).
Proof.
  intros vs cs b HI Hne. split.
  - intros [vs' H]. eapply update_accepted_sound; eauto.
  - apply update_accepted_complete; assumption.
Qed.

Example ex_batch_ok : batch_ok ex_vals ex_cs true.
Proof.
  apply (update_accepted_sound ex_vs ex_cs true ex_out);
    [right; exact ex_inv|discriminate|exact ex_order_1].
Qed.
Example ex_batch_not_ok : ~ batch_ok ex_vals [mkVal [7%N] 0 0] true.
Proof.
  intro H. apply (update_accepted_complete ex_vs) in H; [|right; exact ex_inv|discriminate].
  destruct H as [v H]. vm_compute in H. discriminate.
Qed.
(* an empty address is refused as a duplicate *)
Example ex_empty_addr : update ex_vs [mkVal [] 5 0] = Err EDup.
Proof. vm_compute. reflexivity. Qed.
