(* C08 — proofs.  The lemmas live in one file per group of clauses; this file only collects them:
     PUpdate.v    update batches (order independence, invariants, finite-map refinement, acceptance)
     PStore.v     historical lookup (LoadValidators after the F1 repair, checkpoints, prunes)
     PRotation.v  priority arithmetic: window after rescale+centre, no saturation, = specification
     PTurns.v     fairness of the weighted round-robin (accounting identity, exact periods, windows)
     PChain.v     the bounds along every chain history
   They are Required (not Imported): several define the same short names (addrs, sum_power, WF). *)
From TM Require Export C08.Model.
From TM Require C08.PUpdate C08.PStore C08.PRotation C08.PTurns C08.PChain.
