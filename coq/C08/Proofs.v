(* C08 — proofs.  The lemmas live in four files (one per group of clauses); this file collects
   them and adds the small glue lemmas used by Props.v. *)
From Coq Require Import List ZArith NArith Bool Lia.
From TM Require Import Common.Hex Generated.Consts C08.Model.
Import ListNotations.
Open Scope Z_scope.

(* UpdateWithChangeSet as the caller sees it: the receiver after the call and the error *)
Definition update_in_place (vs : valset) (cs : list validator) : valset * option upd_err :=
  match update vs cs with Ok v => (v, None) | Err e => (vs, Some e) end.

Lemma update_error_unchanged : forall vs cs,
  snd (update_in_place vs cs) <> None -> fst (update_in_place vs cs) = vs.
Proof.
  intros vs cs. unfold update_in_place. destruct (update vs cs); cbn; [congruence | reflexivity].
Qed.
