(* C08 — Validator-set updates, proposer rotation and historical lookup are exact.
   Only the property statements; each is closed by [exact] of a lemma of the proof files
   (PUpdate, PStore, PRotation, PTurns, PChain) and followed by Print Assumptions.
   Predicates used in the statements (defined in the proof files, all plain first-order):
     PUpdate.Inv l      unique addresses, powers > 0, sorted by (power desc, address asc),
                        0 < total <= MaxTotalVotingPower, non-empty
     PRotation.WF T l   non-empty, unique addresses, powers > 0, total = T, 0 < T <= Max
     PRotation.PB B l   every priority within [-B, B];  PRotation.Bmax = 3*Max+1 (< 2^62)
     PTurns.WF T l      as PRotation.WF without the upper limit on T *)
From Coq Require Import List ZArith NArith Bool Permutation Sorted.
From TM Require Import Common.Hex Generated.Consts C08.Model C08.Proofs.
From TM Require C08.PUpdate C08.PStore C08.PRotation C08.PTurns C08.PChain.
Import ListNotations.
Open Scope Z_scope.

(* ================================================================ update batches *)

(* "either fails leaving the set untouched": in the model every check precedes every mutation,
   so this holds by construction; on the Go object it is monitored by the run (clause 1). *)
Theorem C08_update_error_unchanged : forall vs cs,
  snd (PUpdate.update_in_place vs cs) <> None -> fst (PUpdate.update_in_place vs cs) = vs.
Proof. exact PUpdate.update_error_unchanged. Qed.
Print Assumptions C08_update_error_unchanged.

(* "yields the same set regardless of the order of the batch": any permutation of the batch,
   any starting set (no invariant needed), with and without deletions allowed *)
Theorem C08_update_order_independent : forall vs cs cs' b vs',
  Permutation cs cs' ->
  (update_with_change_set vs cs b = Ok vs' <-> update_with_change_set vs cs' b = Ok vs').
Proof. exact PUpdate.update_order_independent. Qed.
Print Assumptions C08_update_order_independent.

Theorem C08_update_order_independent_err : forall vs cs cs' b,
  Permutation cs cs' ->
  ((exists e, update_with_change_set vs cs b = Err e) <-> (exists e, update_with_change_set vs cs' b = Err e)).
Proof. exact PUpdate.update_order_independent_err. Qed.
Print Assumptions C08_update_order_independent_err.

Theorem C08_new_validator_set_order_independent : forall valz valz',
  Permutation valz valz' -> new_validator_set valz = new_validator_set valz'.
Proof. exact PUpdate.new_validator_set_order_independent. Qed.
Print Assumptions C08_new_validator_set_order_independent.

(* "unique addresses, no zero-power members, canonical order, total power within the limit,
   never empty" — from the empty set (NewValidatorSet) or any set with the invariant *)
Theorem C08_update_invariants : forall vs cs b vs',
  (vs_vals vs = [] \/ PUpdate.Inv (vs_vals vs)) -> cs <> [] ->
  update_with_change_set vs cs b = Ok vs' -> PUpdate.Inv (vs_vals vs').
Proof. exact PUpdate.update_invariants. Qed.
Print Assumptions C08_update_invariants.

Theorem C08_new_validator_set_invariants : forall valz vs,
  valz <> [] -> new_validator_set valz = Some vs ->
  PUpdate.Inv (vs_vals vs) /\ forall a, power_of (vs_vals vs) a = expected_power [] valz a.
Proof. exact PUpdate.new_validator_set_inv. Qed.
Print Assumptions C08_new_validator_set_invariants.

(* IncrementProposerPriority changes priorities only *)
Theorem C08_increment_keeps_invariants : forall t vs vs',
  ipp t vs = Some vs' -> PUpdate.Inv (vs_vals vs) -> PUpdate.Inv (vs_vals vs').
Proof. exact PUpdate.ipp_keeps_inv. Qed.
Print Assumptions C08_increment_keeps_invariants.

(* the set after the batch is the finite-map semantics of the batch (the "map-based reference") *)
Theorem C08_update_refines_map : forall vs cs b vs',
  NoDup (PUpdate.addrs (vs_vals vs)) ->
  update_with_change_set vs cs b = Ok vs' -> cs <> [] ->
  forall a, power_of (vs_vals vs') a = expected_power (vs_vals vs) cs a.
Proof. exact PUpdate.update_refines_map. Qed.
Print Assumptions C08_update_refines_map.

(* exactly the well-formed batches are accepted (so the theorems above are not about a model
   that refuses everything), and no panic branch is reachable *)
Theorem C08_update_accepted_iff : forall vs cs b,
  (vs_vals vs = [] \/ PUpdate.Inv (vs_vals vs)) -> cs <> [] ->
  ((exists vs', update_with_change_set vs cs b = Ok vs') <-> PUpdate.batch_ok (vs_vals vs) cs b).
Proof. exact PUpdate.update_accepted_iff. Qed.
Print Assumptions C08_update_accepted_iff.

Theorem C08_update_no_panic : forall vs cs b,
  (vs_vals vs = [] \/ PUpdate.Inv (vs_vals vs)) -> update_with_change_set vs cs b <> Err EPanic.
Proof. exact PUpdate.update_no_panic. Qed.
Print Assumptions C08_update_no_panic.

(* verifyUpdates sorts the deltas with an unstable sort: the outcome does not depend on how
   equal deltas are ordered, and equals the closed form *)
Theorem C08_verify_updates_closed : forall ups vals removed total,
  total_power vals = Some total -> total - removed <= max_total_voting_power ->
  verify_updates ups vals removed =
  if total + PUpdate.zsum (map (delta vals) ups) - removed >? max_total_voting_power
  then Err EOverflow else Ok (total + PUpdate.zsum (map (delta vals) ups)).
Proof. exact PUpdate.verify_updates_closed. Qed.
Print Assumptions C08_verify_updates_closed.

(* ================================================================ historical lookup *)

(* "asking the node for the validator set of any retained past height returns exactly the set,
   including the proposer, that was in force there": every genesis, every sequence of blocks
   (arbitrary update batches, refused ones included) and prunes (forward = each PruneStates
   retains a height not below the current base), every checkpoint interval K, every recorded
   height at or above the base.  Holds for the repaired LoadValidators (fix F1). *)
Theorem C08_load_validators_exact : forall K valz initial n0 ops,
  0 < K <= max_int32 -> 0 < initial -> start K valz initial = Some n0 -> PStore.forward K n0 ops ->
  let n := run K n0 ops in
  forall h vs, In (h, vs) (n_sets n) -> n_base n <= h -> load_validators K (n_db n) h = LvOk vs.
Proof. exact PStore.load_exact. Qed.
Print Assumptions C08_load_validators_exact.

Theorem C08_load_validators_exact_blocks : forall K valz initial n0 ops,
  0 < K <= max_int32 -> 0 < initial -> start K valz initial = Some n0 ->
  Forall (fun o => match o with OBlock _ => True | OPrune _ _ => False end) ops ->
  let n := run K n0 ops in
  forall h vs, In (h, vs) (n_sets n) -> load_validators K (n_db n) h = LvOk vs.
Proof. exact PStore.load_exact_blocks. Qed.
Print Assumptions C08_load_validators_exact_blocks.

(* the unrepaired code (one IncrementProposerPriority(k) instead of k calls with 1) is refuted *)
Theorem C08_load_validators_unfixed_refuted : exists vs k, replay_unfixed k vs <> replay k vs.
Proof. exact PStore.replay_differs. Qed.
Print Assumptions C08_load_validators_unfixed_refuted.

(* ================================================================ rotation = specification, no overflow *)

(* one IncrementProposerPriority(1) — the step from height to height — IS the specification's
   ProposerSelection in plain integers: no saturating operation saturates, no int64 wraps *)
Theorem C08_rotation_is_spec : forall T l p, PRotation.WF T l -> PRotation.PB PRotation.Bmax l ->
  ipp 1 (mkVS l p) = Some (mkVS (fst (spec_selection T l)) (snd (spec_selection T l))).
Proof. exact PRotation.rotation_is_spec. Qed.
Print Assumptions C08_rotation_is_spec.

(* ... and leaves every priority within 3T+1 (<= Bmax), so the hypotheses hold again *)
Theorem C08_priorities_bounded_step : forall T l p vs',
  PRotation.WF T l -> PRotation.PB PRotation.Bmax l -> ipp 1 (mkVS l p) = Some vs' ->
  PRotation.WF T (vs_vals vs') /\ PRotation.PB (3 * T + 1) (vs_vals vs') /\
  PRotation.PB PRotation.Bmax (vs_vals vs') /\
  (exists m, vs_prop vs' = Some m /\ In m (vs_vals vs')).
Proof. exact PRotation.ipp1_bound. Qed.
Print Assumptions C08_priorities_bounded_step.

(* along every chain history: every set ever in force has the invariants, priorities within
   3T+1, a proposer that is a member *)
Theorem C08_priorities_no_clip_chain : forall K valz initial n0 ops,
  start K valz initial = Some n0 ->
  let n := run K n0 ops in
  forall h vs, In (h, vs) (n_sets n) ->
    PUpdate.Inv (vs_vals vs) /\
    PRotation.PB (3 * PUpdate.sum_power (vs_vals vs) + 1) (vs_vals vs) /\
    (exists m, vs_prop vs = Some m /\ In m (vs_vals vs)).
Proof. exact PChain.chain_sets_bounded. Qed.
Print Assumptions C08_priorities_no_clip_chain.

(* ... and the next height's set is the specification's selection applied to it *)
Theorem C08_chain_step_is_spec : forall K valz initial n0 ops,
  start K valz initial = Some n0 ->
  let n := run K n0 ops in
  forall h vs, In (h, vs) (n_sets n) ->
    let T := PUpdate.sum_power (vs_vals vs) in
    PRotation.WF T (vs_vals vs) /\ PRotation.PB PRotation.Bmax (vs_vals vs) /\
    ipp 1 vs = Some (mkVS (fst (spec_selection T (vs_vals vs))) (snd (spec_selection T (vs_vals vs)))).
Proof. exact PChain.chain_step_is_spec. Qed.
Print Assumptions C08_chain_step_is_spec.

(* k rounds inside one height (IncrementProposerPriority(k)): no saturation as long as
   (k+2)*T+1 fits in int64.  PARTIAL: the full statement
     forall k, 1 <= k -> ipp k (mkVS l p) = Some vs' -> PB (c*T) (vs_vals vs')   (c independent of k, n)
   needs the sharp bound on the priorities of the weighted round-robin, which is not proved. *)
Theorem C08_priorities_no_clip_rounds_partial : forall T l p k vs',
  PRotation.WF T l -> PRotation.PB PRotation.Bmax l -> 1 <= k ->
  (k + 2) * T + 1 <= max_int64 -> ipp k (mkVS l p) = Some vs' ->
  PRotation.PB ((k + 2) * T + 1) (vs_vals vs') /\ PRotation.WF T (vs_vals vs') /\
  (exists m, vs_prop vs' = Some m /\ In m (vs_vals vs')) /\
  0 <= sum_prio (vs_vals vs') < Z.of_nat (length (vs_vals vs')).
Proof. exact PRotation.ippk_no_clip_partial. Qed.
Print Assumptions C08_priorities_no_clip_rounds_partial.

(* ================================================================ turns proportional to power
   (static set, k successive increments in plain integers = the model's inc_times as long as
   nothing saturates: C08_rounds_are_plain) *)

Theorem C08_rounds_are_plain : forall k T l B p,
  PTurns.WF T l -> Forall (fun v => - B <= v_prio v <= B) l -> B + Z.of_nat k * T <= max_int64 ->
  fst (inc_times k T l p) = fst (PTurns.run_raw k T l) /\
  (k <> O -> exists m, snd (inc_times k T l p) = Some m /\
                       v_addr m = last (snd (PTurns.run_raw k T l)) [] /\
                       In m (fst (PTurns.run_raw k T l))).
Proof. exact PTurns.inc_times_raw_full. Qed.
Print Assumptions C08_rounds_are_plain.

(* exact accounting: T * (turns of a in k rounds) = k * power(a) + priority before - priority after *)
Theorem C08_turns_accounting : forall T l k lf ps a,
  PTurns.WF T l -> PTurns.run_raw k T l = (lf, ps) -> In a (PTurns.addrs l) ->
  T * PTurns.count a ps = Z.of_nat k * PTurns.pow_of a l + PTurns.prio_of a l - PTurns.prio_of a lf.
Proof. exact PTurns.turns_accounting. Qed.
Print Assumptions C08_turns_accounting.

(* [R2] of the specification: from zero priorities, in j*T rounds validator a is elected exactly
   j*power(a) times and the priorities are back at zero (the sequence repeats) *)
Theorem C08_turns_exact_periods : forall j T l lf ps,
  PTurns.WF T l -> Forall (fun v => v_prio v = 0) l ->
  PTurns.run_raw (j * Z.to_nat T) T l = (lf, ps) ->
  lf = l /\ forall a, In a (PTurns.addrs l) -> PTurns.count a ps = Z.of_nat j * PTurns.pow_of a l.
Proof. exact PTurns.turns_exact_periods. Qed.
Print Assumptions C08_turns_exact_periods.

(* priorities never fall below -(T-1) / the starting minimum *)
Theorem C08_priority_lower_bound : forall T l k lf ps L,
  PTurns.WF T l -> 0 <= sum_prio l -> L <= 1 - T ->
  Forall (fun v => L <= v_prio v) l -> PTurns.run_raw k T l = (lf, ps) ->
  Forall (fun v => L <= v_prio v) lf.
Proof. exact PTurns.prio_lower_bound_strict. Qed.
Print Assumptions C08_priority_lower_bound.

(* from any windowed start (what a set looks like after RescalePriorities + shiftByAvg):
   bounded deviation from the proportional share.  PARTIAL: the lower side carries the factor
   (n-1); the sharp statement
     | T * count a ps - k * power(a) | <= c * T      (c independent of the number of validators)
   needs the n-independent upper bound on priorities and is not proved. *)
Theorem C08_turns_proportional_partial : forall T l k lf ps a,
  PTurns.WF T l -> 0 <= sum_prio l ->
  Forall (fun v => - (2 * T + 1) <= v_prio v <= 2 * T + 1) l ->
  PTurns.run_raw k T l = (lf, ps) -> In a (PTurns.addrs l) ->
  - (Z.of_nat (length l) - 1) * (4 * T + 2) <=
    T * PTurns.count a ps - Z.of_nat k * PTurns.pow_of a l <= 4 * T + 2.
Proof. exact PTurns.turns_proportional_partial. Qed.
Print Assumptions C08_turns_proportional_partial.

(* exported for C03: every validator proposes within a bounded window *)
Theorem C08_proposer_window : forall T l k lf ps a,
  PTurns.WF T l -> 0 <= sum_prio l ->
  Forall (fun v => - (2 * T + 1) <= v_prio v <= 2 * T + 1) l ->
  PTurns.run_raw k T l = (lf, ps) -> In a (PTurns.addrs l) ->
  Z.of_nat k * PTurns.pow_of a l > (Z.of_nat (length l) - 1) * (4 * T + 2) -> In a ps.
Proof. exact PTurns.proposer_window. Qed.
Print Assumptions C08_proposer_window.

(* ================================================================ non-vacuity *)

(* a 3-validator set with the invariant; a batch with an add, a removal and a power change is
   accepted, gives the same set in the reverse order; a duplicate fails in both orders *)
Example C08_update_nonvacuous :
  PUpdate.Inv PUpdate.ex_vals /\ Permutation PUpdate.ex_cs (rev PUpdate.ex_cs) /\
  update_with_change_set PUpdate.ex_vs PUpdate.ex_cs true = Ok PUpdate.ex_out /\
  update_with_change_set PUpdate.ex_vs (rev PUpdate.ex_cs) true = Ok PUpdate.ex_out /\
  PUpdate.Inv (vs_vals PUpdate.ex_out) /\ PUpdate.batch_ok PUpdate.ex_vals PUpdate.ex_cs true /\
  map (power_of (vs_vals PUpdate.ex_out)) [[1%N]; [2%N]; [3%N]; [4%N]] = [None; Some 50; Some 30; Some 5].
Proof.
  split; [exact PUpdate.ex_inv|]. split; [exact PUpdate.ex_order_perm|].
  split; [exact PUpdate.ex_order_1|]. split; [exact PUpdate.ex_order_2|].
  split; [exact PUpdate.ex_out_inv|]. split; [exact PUpdate.ex_batch_ok|].
  vm_compute; reflexivity.
Qed.

(* K = 4: thirteen blocks (two with updates, one refused), two prunes; pointer entries at
   retained heights, the pruned heights are gone, every retained height reads back exactly *)
Example C08_load_nonvacuous :
  exists n0, start 4 PStore.ex_valz 3 = Some n0 /\ PStore.forward 4 n0 PStore.ex_ops2 /\
    let n := run 4 n0 PStore.ex_ops2 in
    n_base n = 14 /\
    map (PStore.is_ptr (n_db n)) [13; 14; 15; 16; 17] = [false; true; true; false; true] /\
    let kept := filter (fun hv => n_base n <=? fst hv) (n_sets n) in
    map fst kept = [17; 16; 15; 14] /\
    map (fun hv => load_validators 4 (n_db n) (fst hv)) kept = map (fun hv => LvOk (snd hv)) kept.
Proof.
  eexists. split; [vm_compute; reflexivity|].
  split; [vm_compute; repeat split; intro H; discriminate H|].
  vm_compute. repeat split; reflexivity.
Qed.

(* 5/3/1: one step equals the specification; a start with spread 200 > 2*9 is rescaled; after 9
   heights the priorities are back at zero; 18 rounds give 10, 6, 2 turns *)
Example C08_rotation_nonvacuous :
  PRotation.WF 9 PRotation.ex_l3 /\ PRotation.PB PRotation.Bmax PRotation.ex_l3r /\
  ipp 1 (mkVS PRotation.ex_l3 None)
  = Some (mkVS [mkVal [1%N] 5 (-4); mkVal [2%N] 3 3; mkVal [3%N] 1 1] (Some (mkVal [1%N] 5 (-4)))) /\
  ipp 1 (mkVS PRotation.ex_l3r None)
  = Some (mkVS [mkVal [1%N] 5 4; mkVal [2%N] 3 (-5); mkVal [3%N] 1 1] (Some (mkVal [1%N] 5 4))) /\
  (let '(lf, ps) := PTurns.run_raw 18 9 PTurns.ex_l in
   (PTurns.count [1%N] ps, PTurns.count [2%N] ps, PTurns.count [3%N] ps) = (10, 6, 2) /\ lf = PTurns.ex_l).
Proof.
  split; [exact PRotation.ex_WF|]. split; [exact PRotation.ex_PBr|].
  vm_compute. repeat split; reflexivity.
Qed.
