(* C08 — Validator-set updates, proposer rotation and historical lookup are exact.
   Only the property statements; each is closed by [exact] of a lemma of the proof files. *)
From Coq Require Import List ZArith NArith Bool.
From TM Require Import Common.Hex Generated.Consts C08.Model C08.Proofs.
Import ListNotations.
Open Scope Z_scope.

Theorem C08_update_error_unchanged : forall vs cs,
  snd (update_in_place vs cs) <> None -> fst (update_in_place vs cs) = vs.
Proof. exact update_error_unchanged. Qed.
Print Assumptions C08_update_error_unchanged.
