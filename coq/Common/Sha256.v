(* Executable SHA-256 over [bytes], used ONLY to run models next to the implementation
   (the theorems are parametric in the hash function and never mention this file).
   Written with Coq's primitive 63-bit integers so that vm_compute evaluates it quickly.
   Its agreement with Go's crypto/sha256 is not trusted: every correspondence case compares
   roots/hashes computed by the real code with the ones computed here. *)
From Coq Require Import String List NArith ZArith Uint63.
From TM Require Import Common.Hex.
Import ListNotations.
Open Scope uint63_scope.

Definition m32 : int := 0xFFFFFFFF.
Definition add32 (a b : int) : int := (a + b) land m32.
Definition rotr (x n : int) : int := ((x >> n) lor (x << (32 - n))) land m32.
Definition shr (x n : int) : int := x >> n.

Definition K : list int :=
 [0x428a2f98;0x71374491;0xb5c0fbcf;0xe9b5dba5;0x3956c25b;0x59f111f1;0x923f82a4;0xab1c5ed5;
  0xd807aa98;0x12835b01;0x243185be;0x550c7dc3;0x72be5d74;0x80deb1fe;0x9bdc06a7;0xc19bf174;
  0xe49b69c1;0xefbe4786;0x0fc19dc6;0x240ca1cc;0x2de92c6f;0x4a7484aa;0x5cb0a9dc;0x76f988da;
  0x983e5152;0xa831c66d;0xb00327c8;0xbf597fc7;0xc6e00bf3;0xd5a79147;0x06ca6351;0x14292967;
  0x27b70a85;0x2e1b2138;0x4d2c6dfc;0x53380d13;0x650a7354;0x766a0abb;0x81c2c92e;0x92722c85;
  0xa2bfe8a1;0xa81a664b;0xc24b8b70;0xc76c51a3;0xd192e819;0xd6990624;0xf40e3585;0x106aa070;
  0x19a4c116;0x1e376c08;0x2748774c;0x34b0bcb5;0x391c0cb3;0x4ed8aa4a;0x5b9cca4f;0x682e6ff3;
  0x748f82ee;0x78a5636f;0x84c87814;0x8cc70208;0x90befffa;0xa4506ceb;0xbef9a3f7;0xc67178f2].

Definition H0 : list int :=
 [0x6a09e667;0xbb67ae85;0x3c6ef372;0xa54ff53a;0x510e527f;0x9b05688c;0x1f83d9ab;0x5be0cd19].

Definition s0 x := (rotr x 7) lxor (rotr x 18) lxor (shr x 3).
Definition s1 x := (rotr x 17) lxor (rotr x 19) lxor (shr x 10).
Definition S0 x := (rotr x 2) lxor (rotr x 13) lxor (rotr x 22).
Definition S1 x := (rotr x 6) lxor (rotr x 11) lxor (rotr x 25).
Definition ch e f g := (e land f) lxor ((m32 lxor e) land g).
Definition maj a b c := (a land b) lxor (a land c) lxor (b land c).

(* message schedule: window of the last 16 words, oldest first *)
Fixpoint schedule (n : nat) (win : list int) : list int :=
  match n with
  | O => []
  | S n' =>
    match win with
    | w0 :: rest =>
      let w1 := nth 0 rest 0 in
      let w9 := nth 8 rest 0 in
      let w14 := nth 13 rest 0 in
      let w := add32 (add32 (s1 w14) w9) (add32 (s0 w1) w0) in
      w0 :: schedule n' (rest ++ [w])
    | [] => []
    end
  end.

Record regs := { ra : int; rb : int; rc : int; rd : int; re : int; rf : int; rg : int; rh : int }.

Fixpoint rounds (ws ks : list int) (r : regs) : regs :=
  match ws, ks with
  | w :: ws', k :: ks' =>
    let t1 := add32 (add32 (add32 (rh r) (S1 (re r))) (add32 (ch (re r) (rf r) (rg r)) k)) w in
    let t2 := add32 (S0 (ra r)) (maj (ra r) (rb r) (rc r)) in
    rounds ws' ks'
      {| ra := add32 t1 t2; rb := ra r; rc := rb r; rd := rc r;
         re := add32 (rd r) t1; rf := re r; rg := rf r; rh := rg r |}
  | _, _ => r
  end.

Definition compress (h : list int) (block16 : list int) : list int :=
  match h with
  | [a;b;c;d;e;f;g;hh] =>
    let r := rounds (schedule 64 block16) K
               {| ra := a; rb := b; rc := c; rd := d; re := e; rf := f; rg := g; rh := hh |} in
    [add32 a (ra r); add32 b (rb r); add32 c (rc r); add32 d (rd r);
     add32 e (re r); add32 f (rf r); add32 g (rg r); add32 hh (rh r)]
  | _ => h
  end.

Fixpoint words (bs : list int) : list int :=
  match bs with
  | a :: b :: c :: d :: r => ((a << 24) lor (b << 16) lor (c << 8) lor d) :: words r
  | _ => []
  end.

Fixpoint blocks (fuel : nat) (h : list int) (ws : list int) : list int :=
  match fuel with
  | O => h
  | S f =>
    match ws with
    | [] => h
    | _ => blocks f (compress h (firstn 16 ws)) (skipn 16 ws)
    end
  end.

Definition int_of_N (n : N) : int := Uint63.of_Z (Z.of_N n).
Definition N_of_int (i : int) : N := Z.to_N (Uint63.to_Z i).

Definition pad (len : nat) : list int :=
  let l := Z.of_nat len in
  let zeros := Z.to_nat ((55 - l) mod 64)%Z in
  let bits := Uint63.of_Z (8 * l) in
  0x80 :: repeat 0 zeros ++
  [0;0;0; (bits >> 32) land 0xFF; (bits >> 24) land 0xFF; (bits >> 16) land 0xFF;
   (bits >> 8) land 0xFF; bits land 0xFF].

Definition unword (w : int) : list N :=
  [N_of_int ((w >> 24) land 0xFF); N_of_int ((w >> 16) land 0xFF);
   N_of_int ((w >> 8) land 0xFF); N_of_int (w land 0xFF)].

Definition sha256 (msg : bytes) : bytes :=
  let bs := map int_of_N msg ++ pad (length msg) in
  let ws := words bs in
  flat_map unword (blocks (S (length ws)) H0 ws).

(* two standard test vectors, checked at compile time *)
Example sha256_empty :
  sha256 [] = unhex "e3b0c44298fc1c149afbf4c8996fb92427ae41e4649b934ca495991b7852b855"%string.
Proof. vm_compute. reflexivity. Qed.
Example sha256_abc :
  sha256 [97;98;99]%N = unhex "ba7816bf8f01cfea414140de5dae2223b00361a396177a9cb410ff61f20015ad"%string.
Proof. vm_compute. reflexivity. Qed.
