(* Bytes as lists of N (each < 256) and hex-string literals, used by the harness-written
   cases files: the Go side prints byte strings as "0a1b…"%string literals. No proofs here. *)
From Coq Require Import String Ascii List NArith Bool.
Import ListNotations.
Open Scope N_scope.

Definition bytes := list N.

Definition nib (c : ascii) : N :=
  let n := N_of_ascii c in
  if n <? 58 then n - 48 else if n <? 71 then n - 55 else n - 87.

Fixpoint unhex (s : string) : bytes :=
  match s with
  | String a (String b r) => (16 * nib a + nib b) :: unhex r
  | _ => []
  end.

Fixpoint bytes_eqb (a b : bytes) : bool :=
  match a, b with
  | [], [] => true
  | x :: a', y :: b' => (x =? y) && bytes_eqb a' b'
  | _, _ => false
  end.

Lemma bytes_eqb_eq : forall a b, bytes_eqb a b = true <-> a = b.
Proof.
  induction a as [|x a IH]; destruct b as [|y b]; cbn; split; intro E;
    try reflexivity; try discriminate.
  - apply andb_true_iff in E as [E1 E2]. apply N.eqb_eq in E1. apply IH in E2. congruence.
  - inversion E; subst. apply andb_true_iff; split; [apply N.eqb_refl | apply IH; reflexivity].
Qed.

Lemma bytes_eqb_refl : forall a, bytes_eqb a a = true.
Proof. intro a; apply bytes_eqb_eq; reflexivity. Qed.

(* Verdicts of one correspondence case; see bin/check.
   kind 1 = model and implementation disagree on observable [code]
   kind 2 = the property's monitor fails on the implementation's own trace, clause [code]
   kind 3 = as 2, but the failing input is in the class of known finding [code] *)
Inductive verdict :=
| V_ok
| V_mismatch (code : N)
| V_violation (clause : N)
| V_known (finding : N).

Definition verdict_row (idv : N * verdict) : list (N * N * N) :=
  match idv with
  | (_, V_ok) => []
  | (i, V_mismatch c) => [(i, 1, c)]
  | (i, V_violation c) => [(i, 2, c)]
  | (i, V_known c) => [(i, 3, c)]
  end.

Definition report (l : list (N * verdict)) : list (N * N * N) := flat_map verdict_row l.

(* first non-ok verdict of a list of checks, violations before mismatches *)
Definition is_violation v := match v with V_violation _ => true | _ => false end.
Definition is_known v := match v with V_known _ => true | _ => false end.
Definition is_mismatch v := match v with V_mismatch _ => true | _ => false end.
Definition first_of (l : list verdict) : verdict :=
  match filter is_violation l with
  | v :: _ => v
  | [] => match filter is_known l with
          | v :: _ => v
          | [] => match filter is_mismatch l with v :: _ => v | [] => V_ok end
          end
  end.
