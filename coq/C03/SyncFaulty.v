(* C03 — the synchronous round on the code model WITH the faulty validators voting during the
   round: between the correct validators' prevotes (resp. precommits) a machine may be handed
   any number of further prevotes (resp. precommits) for this height and round — for any block
   id or nil, equivocating, duplicated, with bad signatures or addresses, from any peer — as long
   as none verifies under a correct validator's key.  The machine still locks and precommits the
   proposal at the prevote that completes +2/3 and decides at the precommit that completes +2/3.
   (Votes for other rounds or heights are not interleaved.) *)
From Coq Require Import List ZArith NArith Bool Lia.
From TM Require Import C02.Model C02.Setters C02.ProofsVoteSet C02.ProofsHVS C02.ProofsOrder.
From TM Require Import C03.Commit C03.Round C03.Tally C03.FaultyTally C03.SyncModel.
Import ListNotations.
Open Scope Z_scope.

Inductive item := Correct (d : delivery) | Faulty (v : vote) (peer : N).
Definition item_input (it : item) : input :=
  match it with Correct d => d_input d | Faulty v peer => IVote v peer end.
Definition correct_part (l : list item) : list delivery :=
  flat_map (fun it => match it with Correct d => [d] | Faulty _ _ => [] end) l.

Section F.
Variable E : env.
Variables h r : Z.
Variable p : proposal.
Variable b : block.
Variable hb : N.
Variable ph : psh.
Hypothesis Hbid : pr_bid p = (hb, ph).
Hypothesis Hhash : b_hash b = hb.
Hypothesis Hvalid : b_valid b = true.
Hypothesis Hone : fst ph = 1%N.
Hypothesis Hme : is_validator E = true.
Variable vals : valset.
Variable cor : list nat.                        (* the correct validators *)
Hypothesis cor_nodup : NoDup cor.
Hypothesis cor_bound : forall j, In j cor -> (j < length vals)%nat.
Hypothesis Hcap : total_power vals - pw_of vals cor < quorum vals.   (* the others are below the quorum *)

Local Notation B := (Bid hb ph).

(* a vote of the round that does not verify under a correct validator's key *)
Definition faulty_vote (ty : N) (v : vote) : Prop :=
  is_vote_at h r ty v /\ (v_ok v = true -> 0 <= v_idx v -> ~ In (Z.to_nat (v_idx v)) cor).

Definition item_ok (ty : N) (it : item) : Prop :=
  match it with
  | Correct d => vote_from h r hb ph vals ty d /\ In (d_idx d) cor
  | Faulty v _ => faulty_vote ty v
  end.

Definition vs_ok (rem : list nat) (vs : voteset) : Prop :=
  round_inv B cor rem vs /\ vs_vals vs = vals /\ (forall j, In j rem -> In j cor).

Lemma remove_head i rem : ~ In i rem -> remove Nat.eq_dec i (i :: rem) = rem.
Proof. intro H. cbn. destruct (Nat.eq_dec i i); [|congruence]. apply notin_remove. exact H. Qed.

(* the vote-set facts for one more vote, correct or not *)
Lemma vs_step rem vs v :
  vs_ok rem vs ->
  (v_ok v = true -> 0 <= v_idx v -> In (Z.to_nat (v_idx v)) cor -> v_bid v = B) ->
  forall vs' added e, vs_add vs v = (vs', added, e) ->
  round_inv B cor (remove Nat.eq_dec (Z.to_nat (v_idx v)) rem) vs' /\ tally B vs <= tally B vs' /\
  same_frame vs vs' /\ (forall m, vs_maj23 vs = Some m -> vs_maj23 vs' = Some m) /\
  (added = false -> vs_maj23 vs' = vs_maj23 vs /\ open_for B rem vs').
Proof.
  intros (RI & Ev & Sub) Unf vs' added e Ea.
  pose proof (vs_add_any B cor cor_nodup rem vs v RI Sub ltac:(rewrite Ev; exact cor_bound) ltac:(rewrite Ev; exact Hcap) Unf) as H.
  cbv zeta in H. rewrite Ea in H. destruct H as (H1 & H2 & H3 & H4 & H5).
  split; [exact H1|]. split; [exact H2|]. split; [exact H3|]. split; [exact H4|].
  intro Hf. subst added. split; [apply H5; reflexivity|].
  destruct RI as (_ & _ & Op & _). eapply vs_add_not_added; eassumption.
Qed.

(* ---------------------------------------------------------------- phase 2 *)

Lemma P2F_faulty rem pv pc s v peer s' o :
  P2 h r p b hb ph rem pv pc s -> vs_ok rem pv -> faulty_vote PREVOTE v ->
  handle E s (IVote v peer) = (s', o) ->
  exists pv', P2 h r p b hb ph rem pv' pc s' /\ vs_ok rem pv' /\ tally B pv <= tally B pv' /\
              p2_outcome h r hb ph pv pv' o.
Proof.
  intros HP Ok [At Unf] Eq.
  destruct (vs_add pv v) as [[pv' added] e] eqn:Ea.
  destruct (vs_step rem pv v Ok ltac:(intros A1 A2 A3; exfalso; exact (Unf A1 A2 A3)) pv' added e Ea)
    as (RI' & T & Sf & Mono & NA).
  destruct Ok as (RI & Ev & Sub).
  exists pv'. destruct added.
  - (* added: a vote that verifies, hence from outside cor: rem is untouched *)
    assert (Hrem : remove Nat.eq_dec (Z.to_nat (v_idx v)) rem = rem \/ True) by (right; exact I).
    assert (Op' : open_for B rem pv').
    { destruct RI' as (_ & _ & Op' & _).
      (* either the index is not in rem, or the vote did not verify (then it was not added) *)
      destruct (in_dec Nat.eq_dec (Z.to_nat (v_idx v)) rem) as [Hin|Hni]; [|rewrite notin_remove in Op' by exact Hni; exact Op'].
      exfalso. (* added = true requires v_ok and idx >= 0 *)
      unfold vs_add in Ea.
      destruct (v_idx v <? 0) eqn:Ei; [discriminate|]. destruct ((v_addr v =? 0)%N); [discriminate|].
      destruct (negb _); [discriminate|]. destruct (nth_error (vs_vals pv) (Z.to_nat (v_idx v))) as [[ad pw]|]; [|discriminate].
      destruct (negb (v_addr v =? ad)%N); [discriminate|].
      destruct (get_vote pv (v_idx v) (v_bid v)) as [ev|]; [destruct ((v_sig ev =? v_sig v)%N); discriminate|].
      destruct (v_ok v) eqn:Eok; [|discriminate]. apply Z.ltb_ge in Ei.
      exact (Unf eq_refl Ei (Sub _ Hin)). }
    destruct (P2_core E h r p b hb ph Hhash Hvalid Hone Hme rem rem pv pv' pc s v peer e s' o HP At Ea Op' Sf Mono Eq) as [HP' Out].
    split; [exact HP'|]. split; [|split; [exact T | exact Out]].
    destruct RI' as (R1 & R2 & _ & R4). split; [split; [exact R1 | split; [exact R2 | split; [exact Op' | exact R4]]]|].
    split; [destruct Sf as (S1 & _); congruence | exact Sub].
  - destruct (NA eq_refl) as [Mj Op'].
    destruct (P2_skip E h r p b hb ph Hhash Hone rem rem pv pv' pc s v peer e s' o HP At Ea Op' Sf Mj Eq) as [HP' Out].
    split; [exact HP'|]. split; [|split; [exact T | exact Out]].
    destruct RI' as (R1 & R2 & _ & R4). split; [split; [exact R1 | split; [exact R2 | split; [exact Op' | exact R4]]]|].
    split; [destruct Sf as (S1 & _); congruence | exact Sub].
Qed.

Lemma P2F_correct rem pv pc s d s' o :
  P2 h r p b hb ph (d_idx d :: rem) pv pc s -> vs_ok (d_idx d :: rem) pv -> ~ In (d_idx d) rem ->
  vote_from h r hb ph vals PREVOTE d ->
  handle E s (d_input d) = (s', o) ->
  exists pv', P2 h r p b hb ph rem pv' pc s' /\ vs_ok rem pv' /\ tally B pv' = tally B pv + d_power d /\
              p2_outcome h r hb ph pv pv' o.
Proof.
  intros HP Ok Hni Vf Eq. pose proof Ok as (RI & Ev & Sub).
  destruct (P2_step E h r p b hb ph Hhash Hvalid Hone Hme rem pv pc s d s' o HP Hni ltac:(rewrite Ev; exact Vf) Eq)
    as (pv' & HP' & Ta & Sf & (V1 & Ea) & Out).
  exists pv'. split; [exact HP'|]. split; [|split; [exact Ta | exact Out]].
  pose proof Vf as (G1 & G2 & _).
  destruct (vs_step (d_idx d :: rem) pv (d_vote d) Ok ltac:(intros _ _ _; exact G2) pv' true E_none Ea) as (RI' & _).
  rewrite G1, Nat2Z.id, remove_head in RI' by exact Hni.
  split; [exact RI'|]. split; [congruence|]. intros j Hj. apply Sub. right. exact Hj.
Qed.

Lemma P2F_run : forall items pv pc s s' os,
  P2 h r p b hb ph (map d_idx (correct_part items)) pv pc s -> vs_ok (map d_idx (correct_part items)) pv ->
  NoDup (map d_idx (correct_part items)) -> Forall (item_ok PREVOTE) items ->
  run E s (map item_input items) = (s', os) ->
  exists pv', P2 h r p b hb ph [] pv' pc s' /\ vs_vals pv' = vals /\
    tally B pv + powers_of (correct_part items) <= tally B pv' /\
    p2_outcome h r hb ph pv pv' (concat os).
Proof.
  induction items as [|it items IH]; intros pv pc s s' os HP Ok Hnd Hall Er.
  - cbn in Er. injection Er as <- <-. exists pv. split; [exact HP|]. split; [apply Ok|]. split; [cbn; lia|].
    destruct HP as (_ & _ & _ & _ & O & _). exact (p2_outcome_refl h r hb ph _ _ O).
  - cbn [map run] in Er. destruct (handle E s (item_input it)) as [s1 o1] eqn:E1.
    destruct (run E s1 (map item_input items)) as [s2 os2] eqn:E2. injection Er as <- <-.
    inversion Hall as [|x l Hi Hall']; subst x l. cbn [concat].
    destruct it as [d|v peer]; cbn [correct_part flat_map app map item_input] in *.
    + fold (correct_part items) in *. inversion Hnd as [|x l Hni Hnd']; subst x l. destruct Hi as [Vf _].
      destruct (P2F_correct _ _ _ _ _ _ _ HP Ok Hni Vf E1) as (pv1 & HP1 & Ok1 & T1 & C1).
      destruct (IH pv1 pc s1 s2 os2 HP1 Ok1 Hnd' Hall' E2) as (pv2 & HP2 & V2 & T2 & C2).
      exists pv2. split; [exact HP2|]. split; [exact V2|].
      split; [cbn [powers_of fold_right]; fold (powers_of (correct_part items)); lia|].
      eapply p2_outcome_trans; eassumption.
    + fold (correct_part items) in *.
      destruct (P2F_faulty _ _ _ _ _ _ _ _ HP Ok Hi E1) as (pv1 & HP1 & Ok1 & T1 & C1).
      destruct (IH pv1 pc s1 s2 os2 HP1 Ok1 Hnd Hall' E2) as (pv2 & HP2 & V2 & T2 & C2).
      exists pv2. split; [exact HP2|]. split; [exact V2|]. split; [lia|].
      eapply p2_outcome_trans; eassumption.
Qed.

(* ---------------------------------------------------------------- phase 3 *)

Lemma P3F_faulty rem pc s v peer s' o :
  P3 h r b hb ph rem pc s -> vs_ok rem pc -> faulty_vote PRECOMMIT v ->
  handle E s (IVote v peer) = (s', o) ->
  In (ODecide h r hb) o \/
  exists pc', P3 h r b hb ph rem pc' s' /\ vs_ok rem pc' /\ tally B pc <= tally B pc'.
Proof.
  intros HP Ok [At Unf] Eq.
  destruct (vs_add pc v) as [[pc' added] e] eqn:Ea.
  destruct (vs_step rem pc v Ok ltac:(intros A1 A2 A3; exfalso; exact (Unf A1 A2 A3)) pc' added e Ea)
    as (RI' & T & Sf & Mono & NA).
  destruct Ok as (RI & Ev & Sub).
  assert (OkOf : open_for B rem pc' -> vs_ok rem pc').
  { intro Op'. destruct RI' as (R1 & R2 & _ & R4). split; [split; [exact R1 | split; [exact R2 | split; [exact Op' | exact R4]]]|].
    split; [destruct Sf as (S1 & _); congruence | exact Sub]. }
  destruct added.
  - assert (Op' : open_for B rem pc').
    { destruct RI' as (_ & _ & Op' & _).
      destruct (in_dec Nat.eq_dec (Z.to_nat (v_idx v)) rem) as [Hin|Hni]; [|rewrite notin_remove in Op' by exact Hni; exact Op'].
      exfalso. unfold vs_add in Ea.
      destruct (v_idx v <? 0) eqn:Ei; [discriminate|]. destruct ((v_addr v =? 0)%N); [discriminate|].
      destruct (negb _); [discriminate|]. destruct (nth_error (vs_vals pc) (Z.to_nat (v_idx v))) as [[ad pw]|]; [|discriminate].
      destruct (negb (v_addr v =? ad)%N); [discriminate|].
      destruct (get_vote pc (v_idx v) (v_bid v)) as [ev|]; [destruct ((v_sig ev =? v_sig v)%N); discriminate|].
      destruct (v_ok v) eqn:Eok; [|discriminate]. apply Z.ltb_ge in Ei.
      exact (Unf eq_refl Ei (Sub _ Hin)). }
    destruct (P3_core E h r b hb ph Hhash Hvalid Hone rem rem pc pc' s v peer e s' o HP At Ea Op' Sf Eq) as [D|HP'];
      [left; exact D | right; exists pc'; auto].
  - destruct (NA eq_refl) as [Mj Op']. right. exists pc'.
    split; [exact (P3_skip E h r b hb ph Hhash Hone rem rem pc pc' s v peer e s' o HP At Ea Op' Sf Mj Eq) | auto].
Qed.

Lemma P3F_correct rem pc s d s' o :
  P3 h r b hb ph (d_idx d :: rem) pc s -> vs_ok (d_idx d :: rem) pc -> ~ In (d_idx d) rem ->
  vote_from h r hb ph vals PRECOMMIT d ->
  handle E s (d_input d) = (s', o) ->
  In (ODecide h r hb) o \/
  exists pc', P3 h r b hb ph rem pc' s' /\ vs_ok rem pc' /\ tally B pc' = tally B pc + d_power d.
Proof.
  intros HP Ok Hni Vf Eq. pose proof Ok as (RI & Ev & Sub).
  pose proof HP as (_ & _ & _ & _ & _ & _ & _ & _ & Op & Fr & _).
  pose proof Vf as (G1 & G2 & _).
  destruct (vs_add_open B (d_idx d) rem pc (d_power d) (d_vote d) Op Hni
              (vote_from_good h r hb ph _ _ _ _ Fr Ev Vf)) as (pc' & Ea & Op' & Ta & Sf & Mono).
  destruct (P3_core E h r b hb ph Hhash Hvalid Hone (d_idx d :: rem) rem pc pc' s (d_vote d) (d_peer d) E_none s' o HP
              ltac:(destruct Vf as (_ & _ & _ & A & B0 & C & _); unfold is_vote_at; auto) Ea Op' Sf Eq) as [D|HP'];
    [left; exact D|].
  right. exists pc'. split; [exact HP'|]. split; [|exact Ta].
  destruct (vs_step (d_idx d :: rem) pc (d_vote d) Ok ltac:(intros _ _ _; exact G2) pc' true E_none Ea) as (RI' & _).
  rewrite G1, Nat2Z.id, remove_head in RI' by exact Hni.
  split; [exact RI'|]. split; [destruct Sf as (S1 & _); congruence|]. intros j Hj. apply Sub. right. exact Hj.
Qed.

Lemma P3F_run : forall items pc s s' os,
  P3 h r b hb ph (map d_idx (correct_part items)) pc s -> vs_ok (map d_idx (correct_part items)) pc ->
  NoDup (map d_idx (correct_part items)) -> Forall (item_ok PRECOMMIT) items ->
  quorum vals <= tally B pc + powers_of (correct_part items) ->
  run E s (map item_input items) = (s', os) ->
  In (ODecide h r hb) (concat os).
Proof.
  induction items as [|it items IH]; intros pc s s' os HP Ok Hnd Hall Q Er.
  - exfalso. destruct HP as (_ & _ & _ & _ & _ & _ & _ & _ & (_ & _ & _ & _ & T) & _ & Mn).
    specialize (T Mn). destruct Ok as (_ & Ev & _). rewrite Ev in T. cbn in Q. lia.
  - cbn [map run] in Er. destruct (handle E s (item_input it)) as [s1 o1] eqn:E1.
    destruct (run E s1 (map item_input items)) as [s2 os2] eqn:E2. injection Er as <- <-.
    inversion Hall as [|x l Hi Hall']; subst x l. cbn [concat]. apply in_or_app.
    destruct it as [d|v peer]; cbn [correct_part flat_map app map item_input] in *.
    + fold (correct_part items) in *. inversion Hnd as [|x l Hni Hnd']; subst x l. destruct Hi as [Vf _].
      destruct (P3F_correct _ _ _ _ _ _ HP Ok Hni Vf E1) as [D | (pc1 & HP1 & Ok1 & T1)]; [left; exact D|].
      right. apply (IH pc1 s1 s2 os2 HP1 Ok1 Hnd' Hall'); [|exact E2].
      cbn [powers_of fold_right] in Q. fold (powers_of (correct_part items)) in Q. lia.
    + fold (correct_part items) in *.
      destruct (P3F_faulty _ _ _ _ _ _ _ HP Ok Hi E1) as [D | (pc1 & HP1 & Ok1 & T1)]; [left; exact D|].
      right. apply (IH pc1 s1 s2 os2 HP1 Ok1 Hnd Hall'); [lia | exact E2].
Qed.

(* ---------------------------------------------------------------- the phases of a machine *)

Definition extra (vs : voteset) : Prop := VSInv vs /\ others_closed B cor vs.

Definition ready2F (s : cstate) : Prop :=
  exists pv pc, P2 h r p b hb ph cor pv pc s /\
    round_open h r hb ph cor vals PREVOTE pv /\ round_open h r hb ph cor vals PRECOMMIT pc /\
    extra pv /\ extra pc.
Definition ready3F (s : cstate) : Prop :=
  exists pc, P3 h r b hb ph cor pc s /\ round_open h r hb ph cor vals PRECOMMIT pc /\ extra pc.

Hypothesis vals_nonneg : powers_nonneg vals.

Lemma phase2F s items s' os :
  ready2F s ->
  NoDup (map d_idx (correct_part items)) -> Forall (item_ok PREVOTE) items ->
  quorum vals <= powers_of (correct_part items) ->
  run E s (map item_input items) = (s', os) ->
  signed PRECOMMIT (concat os) = [(h, r, B)] /\ ready3F s'.
Proof.
  intros (pv & pc & HP & (Ov & Fv & Mv & Vv & Tv) & Rc & (Iv & Cv) & Xc) Hnd Hall Q Er.
  assert (Hin : forall j, In j (map d_idx (correct_part items)) -> In j cor).
  { intros j Hj. apply in_map_iff in Hj as (d & <- & Hd). unfold correct_part in Hd. apply in_flat_map in Hd as (it & Hit & Hd).
    rewrite Forall_forall in Hall. specialize (Hall it Hit). destruct it as [d0|]; [|contradiction].
    destruct Hd as [<-|[]]. apply Hall. }
  assert (Ov' : open_for B (map d_idx (correct_part items)) pv) by (eapply open_for_sub; [exact Hin | exact Ov]).
  assert (HP' : P2 h r p b hb ph (map d_idx (correct_part items)) pv pc s).
  { destruct HP as (X1 & X2 & X3 & X4 & X5 & X6). split; [exact X1|]. split; [exact X2|]. split; [exact X3|].
    split; [exact X4|]. split; [exact Ov' | exact X6]. }
  assert (Ok : vs_ok (map d_idx (correct_part items)) pv).
  { split; [split; [exact Iv | split; [rewrite Vv; exact vals_nonneg | split; [exact Ov' | exact Cv]]]|]. split; [exact Vv | exact Hin]. }
  destruct (P2F_run items pv pc s s' os HP' Ok Hnd Hall Er) as (pv' & HP2 & V & T & C).
  assert (Mj : vs_maj23 pv' = Some B).
  { destruct HP2 as (_ & _ & _ & _ & O & _). apply (open_for_majority B [] pv' O). rewrite V. lia. }
  destruct C as [(_ & X & _) | [(_ & _ & X) | (X & _ & _)]]; try congruence.
  split; [exact X|].
  destruct HP2 as ((B1 & B2 & B3 & B4 & B5 & B6) & L2 & _ & _ & _ & _ & _ & Ms).
  destruct (Ms Mj) as [St Lk].
  exists pc. split; [|split; [exact Rc | exact Xc]]. destruct Rc as (Oc & Fc & Mc & _).
  unfold P3. do 6 (split; [assumption|]). split; [exact Lk|]. split; [exists pv'; exact L2|].
  split; [exact Oc|]. split; assumption.
Qed.

Lemma phase3F s items s' os :
  ready3F s ->
  NoDup (map d_idx (correct_part items)) -> Forall (item_ok PRECOMMIT) items ->
  quorum vals <= powers_of (correct_part items) ->
  run E s (map item_input items) = (s', os) ->
  In (ODecide h r hb) (concat os).
Proof.
  intros (pc & HP & (Oc & Fc & Mc & Vc & Tc) & (Ic & Cc)) Hnd Hall Q Er.
  assert (Hin : forall j, In j (map d_idx (correct_part items)) -> In j cor).
  { intros j Hj. apply in_map_iff in Hj as (d & <- & Hd). unfold correct_part in Hd. apply in_flat_map in Hd as (it & Hit & Hd).
    rewrite Forall_forall in Hall. specialize (Hall it Hit). destruct it as [d0|]; [|contradiction].
    destruct Hd as [<-|[]]. apply Hall. }
  assert (Oc' : open_for B (map d_idx (correct_part items)) pc) by (eapply open_for_sub; [exact Hin | exact Oc]).
  assert (HP' : P3 h r b hb ph (map d_idx (correct_part items)) pc s).
  { destruct HP as (X1 & X2 & X3 & X4 & X5 & X6 & X7 & X8 & X9 & X10).
    do 8 (split; [assumption|]). split; [exact Oc' | exact X10]. }
  assert (Ok : vs_ok (map d_idx (correct_part items)) pc).
  { split; [split; [exact Ic | split; [rewrite Vc; exact vals_nonneg | split; [exact Oc' | exact Cc]]]|]. split; [exact Vc | exact Hin]. }
  apply (P3F_run items pc s s' os HP' Ok Hnd Hall ltac:(lia) Er).
Qed.

End F.
