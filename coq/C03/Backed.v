(* C03 — part of Sync.v's invariant discharged from reachability, for ONE machine of the code
   model: in every state reachable from the initial state,
     - the lock is backed by a polka the machine HOLDS: +2/3 prevotes of the lock round for the
       locked block are recorded in its vote sets (clause inv_lock of Inv / Inv', with pol = the
       polkas the machine holds);
     - likewise the valid block and the valid round (clause inv_valid).
   The recorded +2/3 majority of a round's prevotes never changes once set (maj_keeps), so
   what backs a lock keeps backing it.  Not covered: "valid round >= lock round or same block"
   (inv'_lock_valid) and "one polka per round" across machines (C01's quorum intersection). *)
From Coq Require Import List ZArith NArith Bool Lia.
From TM Require Import C02.Model C02.Setters C02.ProofsVoteSet C02.ProofsHVS C02.ProofsOrder C03.Commit C03.Round.
Import ListNotations.
Open Scope Z_scope.

Ltac cs := autorewrite with cs in *.

(* ---------------------------------------------------------------- a recorded majority stays *)

Lemma vs_add_maj_keeps s v m : vs_maj23 s = Some m -> vs_maj23 (fst (fst (vs_add s v))) = Some m.
Proof.
  intro H. unfold vs_add.
  destruct (v_idx v <? 0); [exact H|]. destruct ((v_addr v =? 0)%N); [exact H|].
  destruct (negb _); [exact H|].
  destruct (nth_error (vs_vals s) (Z.to_nat (v_idx v))) as [[addr power]|]; [|exact H].
  destruct (negb (v_addr v =? addr)%N); [exact H|].
  destruct (get_vote s (v_idx v) (v_bid v)) as [e|]; [destruct ((v_sig e =? v_sig v)%N); exact H|].
  destruct (negb (v_ok v)); [exact H|].
  unfold add_verified.
  assert (C : forall votes1 sum1 key old bv', vs_maj23 (commit_entry s votes1 sum1 key old bv') = Some m).
  { intros. cbn [commit_entry vs_maj23]. rewrite H. destruct (_ && _); reflexivity. }
  destruct (lookup_bv (v_bid v) (vs_byblock s)) as [bv|].
  - destruct (_ && negb (bv_peermaj bv)); cbn [fst]; [exact H | apply C].
  - destruct (match get_slot (vs_votes s) (v_idx v) with Some _ => true | None => false end); cbn [fst]; [exact H | apply C].
Qed.

Lemma vs_set_peer_maj23_maj s peer key : vs_maj23 (vs_set_peer_maj23 s peer key) = vs_maj23 s.
Proof. unfold vs_set_peer_maj23. destruct (lookup_peer peer (vs_peermaj s)); reflexivity. Qed.

Definition maj_keeps (hv hv' : hvs) : Prop :=
  forall r x, o_maj23 (prevotes hv r) = Some x -> o_maj23 (prevotes hv' r) = Some x.

Lemma maj_keeps_refl hv : maj_keeps hv hv. Proof. intros r x H. exact H. Qed.
Lemma maj_keeps_trans a b c : maj_keeps a b -> maj_keeps b c -> maj_keeps a c.
Proof. intros H1 H2 r x H. apply H2, H1, H. Qed.

Lemma prevotes_unfold hv r :
  prevotes hv r = match lookup_round r (hv_sets hv) with Some (pv, _) => Some pv | None => None end.
Proof. unfold prevotes, hv_get. destruct (lookup_round r (hv_sets hv)) as [[pv pc]|]; reflexivity. Qed.

Lemma maj_keeps_add_round hv r0 :
  lookup_round r0 (hv_sets hv) = None -> maj_keeps hv (hv_add_round hv r0).
Proof.
  intros Hn r x H. rewrite prevotes_unfold in H |- *. cbn [hv_add_round hv_sets].
  destruct (Z.eq_dec r r0) as [->|Hne]; [rewrite Hn in H; discriminate|].
  rewrite lookup_update_round_other by exact Hne. exact H.
Qed.

Lemma maj_keeps_put hv r0 ty s0 s1 :
  hv_get hv r0 ty = Some s0 -> (forall m, vs_maj23 s0 = Some m -> vs_maj23 s1 = Some m) ->
  maj_keeps hv (hv_put hv r0 ty s1).
Proof.
  intros Hg Hm r x H. rewrite prevotes_unfold in H |- *. unfold hv_get in Hg. unfold hv_put.
  destruct (lookup_round r0 (hv_sets hv)) as [[pv pc]|] eqn:L0; [|discriminate]. cbn [hv_sets].
  destruct (Z.eq_dec r r0) as [->|Hne].
  - rewrite lookup_update_round_same. rewrite L0 in H. cbn [o_maj23] in H.
    destruct ((ty =? PREVOTE)%N); [|exact H]. injection Hg as <-. cbn [o_maj23]. apply Hm. exact H.
  - rewrite lookup_update_round_other by exact Hne. exact H.
Qed.

Lemma maj_keeps_add_vote hv v peer : maj_keeps hv (fst (fst (hv_add_vote hv v peer))).
Proof.
  unfold hv_add_vote.
  destruct (negb ((v_type v =? PREVOTE)%N || (v_type v =? PRECOMMIT)%N)); [apply maj_keeps_refl|].
  match goal with |- context [let '(h1, ok) := ?X in _] => destruct X as [h1 ok] eqn:E1 end.
  assert (K1 : maj_keeps hv h1).
  { destruct (hv_get hv (v_round v) (v_type v)) eqn:Hg.
    - injection E1 as <- <-. apply maj_keeps_refl.
    - destruct (length (lookup_catchup peer (hv_catchup hv)) <? 2)%nat.
      + injection E1 as <- <-. intros r x H. rewrite prevotes_unfold in H |- *. cbn [hv_sets].
        assert (Ln : lookup_round (v_round v) (hv_sets hv) = None).
        { unfold hv_get in Hg. destruct (lookup_round (v_round v) (hv_sets hv)) as [[pv pc]|]; [|reflexivity].
          destruct ((v_type v =? PREVOTE)%N); discriminate. }
        pose proof (maj_keeps_add_round hv (v_round v) Ln r x) as K. rewrite !prevotes_unfold in K. apply K. exact H.
      + injection E1 as <- <-. apply maj_keeps_refl. }
  destruct (negb ok); [apply maj_keeps_refl|].
  destruct (hv_get h1 (v_round v) (v_type v)) as [s|] eqn:G; [|exact K1].
  pose proof (vs_add_maj_keeps s v) as M.
  destruct (vs_add s v) as [[s' added] e]. cbn [fst] in *.
  eapply maj_keeps_trans; [exact K1 | eapply maj_keeps_put; [exact G | exact M]].
Qed.

Lemma maj_keeps_add_rounds n : forall hv from, maj_keeps hv (add_rounds hv from n).
Proof.
  induction n as [|n IH]; intros hv from; cbn [add_rounds]; [apply maj_keeps_refl|].
  destruct (lookup_round from (hv_sets hv)) eqn:L; [apply IH|].
  eapply maj_keeps_trans; [apply maj_keeps_add_round; exact L | apply IH].
Qed.

Lemma maj_keeps_set_round hv round : maj_keeps hv (hv_set_round hv round).
Proof.
  unfold hv_set_round. intros r x H.
  pose proof (maj_keeps_add_rounds (Z.to_nat (round - (hv_round hv - 1) + 1)) hv (hv_round hv - 1) r x H) as K.
  rewrite prevotes_unfold in K |- *. exact K.
Qed.

Lemma maj_keeps_peer hv r ty peer bb : maj_keeps hv (hv_set_peer_maj23 hv r ty peer bb).
Proof.
  unfold hv_set_peer_maj23. destruct (negb _); [apply maj_keeps_refl|].
  destruct (hv_get hv r ty) as [s|] eqn:G; [|apply maj_keeps_refl].
  eapply maj_keeps_put; [exact G|]. intros m Hm. rewrite vs_set_peer_maj23_maj. exact Hm.
Qed.

(* ---------------------------------------------------------------- the invariant *)

Definition backed (hv : hvs) (rd : Z) (blk : option block) : Prop :=
  forall x, blk = Some x -> exists ph, o_maj23 (prevotes hv rd) = Some (Some (b_hash x, ph)).

Definition Backed (s : cstate) : Prop :=
  backed (cs_votes s) (cs_lround s) (cs_lblock s) /\ backed (cs_votes s) (cs_vround s) (cs_vblock s).

Lemma backed_keeps hv hv' rd blk : maj_keeps hv hv' -> backed hv rd blk -> backed hv' rd blk.
Proof. intros K Bk x Hx. destruct (Bk x Hx) as (ph & H). exists ph. apply K. exact H. Qed.

Lemma backed_none hv rd : backed hv rd None.
Proof. intros x H. discriminate. Qed.

(* the lock / valid fields and the votes did not change (votes may have grown) *)
Definition BQuiet (a b : cstate) : Prop :=
  maj_keeps (cs_votes a) (cs_votes b) /\
  cs_lround b = cs_lround a /\ cs_lblock b = cs_lblock a /\ cs_vround b = cs_vround a /\ cs_vblock b = cs_vblock a.

Lemma bquiet_refl a : BQuiet a a. Proof. split; [apply maj_keeps_refl | auto]. Qed.

Lemma backed_bquiet a b : BQuiet a b -> Backed a -> Backed b.
Proof.
  intros (K & A1 & A2 & A3 & A4) [L V]. unfold Backed. rewrite A1, A2, A3, A4.
  split; eapply backed_keeps; eassumption.
Qed.

Ltac bq := unfold BQuiet; cs; split; [apply maj_keeps_refl | auto].

Lemma seq_backed (f g : M) s s' o :
  seq f g s = (s', o) ->
  (forall s1 o1, f s = (s1, o1) -> Backed s1) ->
  (forall s1 s2 o2, cs_halted s1 = false -> Backed s1 -> g s1 = (s2, o2) -> Backed s2) ->
  Backed s'.
Proof.
  intros Eq Hf Hg. unfold seq in Eq. destruct (f s) as [s1 o1] eqn:Ef.
  pose proof (Hf s1 o1 eq_refl) as P1.
  destruct (cs_halted s1) eqn:Hh1.
  - injection Eq as <- <-. exact P1.
  - destruct (g s1) as [s2 o2] eqn:Eg. injection Eq as <- <-. eapply Hg; eassumption.
Qed.

Lemma panic_backed c s s' o : panic c s = (s', o) -> Backed s -> Backed s'.
Proof. intros Eq P. unfold panic in Eq. injection Eq as <- <-. eapply backed_bquiet; [|exact P]. bq. Qed.

Lemma hashes_to_backed hv rd blk h ph :
  o_maj23 (prevotes hv rd) = Some (Some (h, ph)) -> hashes_to blk h = true -> backed hv rd blk.
Proof.
  intros Hm Hh x Hx. subst blk. cbn in Hh. apply N.eqb_eq in Hh. subst h. exists ph. exact Hm.
Qed.

Section WithEnv.
Variable E : env.

Lemma enter_prevote_backed height round s s' o :
  cs_halted s = false -> Backed s -> enter_prevote E height round s = (s', o) -> Backed s'.
Proof.
  intros Hh P Eq. unfold enter_prevote in Eq.
  destruct (_ || _); [injection Eq as <- <-; exact P|].
  unfold seq in Eq. rewrite do_prevote_eq in Eq. autorewrite with cs in Eq. rewrite Hh in Eq. unfold modify in Eq. injection Eq as <- <-.
  destruct P as [PL PV]. destruct (unlock_known_lock round s) as (U1 & U2 & U3).
  unfold Backed. cs. rewrite U1, U3. split; [|exact PV].
  destruct (unlock_fires round s); [apply backed_none | exact PL].
Qed.

Lemma enter_propose_backed height round s s' o :
  cs_halted s = false -> Backed s -> enter_propose E height round s = (s', o) -> Backed s'.
Proof.
  intros Hh P Eq. unfold enter_propose in Eq.
  destruct (_ || _); [injection Eq as <- <-; exact P|].
  set (s1 := add_sched {| ti_height := height; ti_round := round; ti_step := SPropose |} s) in *.
  assert (Hh1 : cs_halted s1 = false) by (subst s1; cs; exact Hh).
  assert (Dec : exists od, (match e_me E with
                   | Some me => if me =? e_proposer E (cs_height s1) (cs_round s1) then decide_proposal E height round s1 else (s1, [])
                   | None => (s1, []) end) = (s1, od)).
  { destruct (e_me E) as [me|]; [|exists []; reflexivity].
    destruct (me =? e_proposer E (cs_height s1) (cs_round s1)); [|exists []; reflexivity].
    pose proof (decide_proposal_state E height round s1) as A.
    destruct (decide_proposal E height round s1) as [x od]. cbn [fst] in A. subst x. exists od. reflexivity. }
  destruct Dec as (od & Ed).
  unfold seq at 1 in Eq. rewrite seq_schedule in Eq by exact Hh. fold s1 in Eq. rewrite Ed in Eq.
  rewrite Hh1 in Eq. rewrite seq_modify in Eq by (cs; exact Hh1).
  set (s2 := set_rs round SPropose s1) in *.
  assert (P2 : Backed s2) by (eapply backed_bquiet; [|exact P]; subst s2 s1; bq).
  assert (Hh2 : cs_halted s2 = false) by (subst s2; cs; exact Hh1).
  destruct (is_proposal_complete s2).
  - destruct (enter_prevote E height (cs_round s2) s2) as [s3 o3] eqn:E3. injection Eq as <- <-.
    eapply enter_prevote_backed; eassumption.
  - injection Eq as <- <-. exact P2.
Qed.

Lemma enter_new_round_backed height round s s' o :
  cs_halted s = false -> Backed s -> enter_new_round E height round s = (s', o) -> Backed s'.
Proof.
  intros Hh P Eq. unfold enter_new_round in Eq.
  destruct (_ || _); [injection Eq as <- <-; exact P|].
  match type of Eq with enter_propose E height round ?x = _ => set (s3 := x) in * end.
  assert (Q : BQuiet s s3 /\ cs_halted s3 = false).
  { subst s3. destruct (round =? 0); unfold BQuiet; cs; (split; [split; [apply maj_keeps_set_round | auto] | exact Hh]). }
  destruct Q as [Q Hh3].
  eapply enter_propose_backed; [exact Hh3 | eapply backed_bquiet; eassumption | exact Eq].
Qed.

Lemma enter_prevote_wait_backed height round s s' o :
  cs_halted s = false -> Backed s -> enter_prevote_wait height round s = (s', o) -> Backed s'.
Proof.
  intros Hh P Eq. unfold enter_prevote_wait in Eq.
  destruct (_ || _); [injection Eq as <- <-; exact P|].
  destruct (negb _); [eapply panic_backed; eassumption|].
  rewrite seq_schedule in Eq by exact Hh. unfold modify in Eq. injection Eq as <- <-.
  eapply backed_bquiet; [|exact P]. bq.
Qed.

Lemma enter_precommit_backed height round s s' o :
  cs_halted s = false -> Backed s -> enter_precommit E height round s = (s', o) -> Backed s'.
Proof.
  intros Hh [PL PV] Eq. unfold enter_precommit in Eq.
  destruct (_ || _); [injection Eq as <- <-; split; assumption|].
  (* the tail: a state x with the same votes and valid fields as s, lock backed *)
  assert (Tail : forall (f : cstate -> cstate) bb,
            cs_halted (f s) = false -> cs_votes (f s) = cs_votes s ->
            backed (cs_votes s) (cs_vround (f s)) (cs_vblock (f s)) ->
            backed (cs_votes s) (cs_lround (f s)) (cs_lblock (f s)) ->
            seq (modify f) (seq (sign_add_vote E PRECOMMIT bb) (modify (set_rs round SPrecommit))) s = (s', o) ->
            Backed s').
  { intros f bb F1 F2 F3 F5 Eq'. rewrite seq_modify in Eq' by exact F1.
    unfold seq, sign_add_vote, modify in Eq'.
    destruct (is_validator E); rewrite F1 in Eq'; injection Eq' as <- <-; unfold Backed; cs; rewrite F2; split; assumption. }
  destruct (o_maj23 (prevotes (cs_votes s) round)) as [polka|] eqn:Maj.
  2:{ apply (Tail (fun x => x) None); auto.
      unfold seq at 1, modify at 1. rewrite Hh. cbn [app].
      destruct (seq (sign_add_vote E PRECOMMIT None) (modify (set_rs round SPrecommit)) s) as [a bb] eqn:Es. exact Eq. }
  destruct (fst (pol_info (cs_votes s)) <? round); [eapply panic_backed; [exact Eq | split; assumption]|].
  destruct polka as [[hh ph]|].
  2:{ refine (Tail _ _ _ _ _ _ Eq); cbv beta; destruct (cs_lblock s) eqn:El; cs; auto; try apply backed_none; rewrite El; apply backed_none. }
  destruct (hashes_to (cs_lblock s) hh) eqn:HL.
  { refine (Tail _ _ _ _ _ _ Eq); cbv beta; cs; auto; [|eapply hashes_to_backed; eassumption].
    destruct (cs_vround s <? round); [eapply hashes_to_backed; eassumption | exact PV]. }
  destruct (hashes_to (cs_pblock s) hh) eqn:HP.
  { destruct (cs_pblock s) as [pb|] eqn:Ep; [|injection Eq as <- <-; split; assumption].
    destruct (negb (b_valid pb)); [eapply panic_backed; [exact Eq | split; assumption]|].
    refine (Tail _ _ _ _ _ _ Eq); cbv beta; cs; auto. rewrite Ep. eapply hashes_to_backed; eassumption. }
  refine (Tail _ _ _ _ _ _ Eq); cbv beta zeta;
    destruct (has_header (cs_pparts (set_locked (-1) None None s)) ph); cs; auto; apply backed_none.
Qed.

Lemma enter_precommit_wait_backed height round s s' o :
  cs_halted s = false -> Backed s -> enter_precommit_wait height round s = (s', o) -> Backed s'.
Proof.
  intros Hh P Eq. unfold enter_precommit_wait in Eq.
  destruct (_ || _); [injection Eq as <- <-; exact P|].
  destruct (negb _); [eapply panic_backed; eassumption|].
  rewrite seq_schedule in Eq by exact Hh. unfold modify in Eq. injection Eq as <- <-.
  eapply backed_bquiet; [|exact P]. bq.
Qed.

Lemma update_to_next_height_backed s s' o :
  Backed s -> update_to_next_height E s = (s', o) -> Backed s'.
Proof.
  intros P Eq. unfold update_to_next_height in Eq.
  destruct (negb _); [eapply panic_backed; eassumption|].
  rewrite seq_modify in Eq by reflexivity. unfold schedule in Eq. injection Eq as <- <-.
  unfold Backed. cs. cbn. split; apply backed_none.
Qed.

Lemma finalize_commit_backed height s s' o :
  cs_halted s = false -> Backed s -> finalize_commit E height s = (s', o) -> Backed s'.
Proof.
  intros Hh P Eq. unfold finalize_commit in Eq.
  destruct (_ || _); [injection Eq as <- <-; exact P|].
  destruct (o_maj23 (precommits (cs_votes s) (cs_commit_round s))) as [[[h ph]|]|]; try (eapply panic_backed; eassumption).
  destruct (negb (has_header (cs_pparts s) ph)); [eapply panic_backed; eassumption|].
  destruct (negb (hashes_to (cs_pblock s) h)); [eapply panic_backed; eassumption|].
  destruct (cs_pblock s) as [pb|]; [|eapply panic_backed; eassumption].
  destruct (negb (b_valid pb)); [eapply panic_backed; eassumption|].
  destruct (negb _); [eapply panic_backed; eassumption|].
  unfold seq, emit in Eq. rewrite Hh in Eq.
  destruct (update_to_next_height E s) as [s2 o2] eqn:Eu. injection Eq as <- <-.
  eapply update_to_next_height_backed; eassumption.
Qed.

Lemma try_finalize_commit_backed height s s' o :
  cs_halted s = false -> Backed s -> try_finalize_commit E height s = (s', o) -> Backed s'.
Proof.
  intros Hh P Eq. unfold try_finalize_commit in Eq.
  destruct (negb _); [eapply panic_backed; eassumption|].
  destruct (o_maj23 (precommits (cs_votes s) (cs_commit_round s))) as [[[h ph]|]|];
    try (injection Eq as <- <-; exact P).
  destruct (hashes_to (cs_pblock s) h); [|injection Eq as <- <-; exact P].
  eapply finalize_commit_backed; eassumption.
Qed.

Lemma enter_commit_backed height cr s s' o :
  cs_halted s = false -> Backed s -> enter_commit E height cr s = (s', o) -> Backed s'.
Proof.
  intros Hh P Eq. unfold enter_commit in Eq.
  destruct (_ || _); [injection Eq as <- <-; exact P|].
  destruct (o_maj23 (precommits (cs_votes s) cr)) as [polka|]; [|eapply panic_backed; eassumption].
  match type of Eq with try_finalize_commit E height ?x = _ => set (s3 := x) in * end.
  assert (Q : BQuiet s s3 /\ cs_halted s3 = false).
  { subst s3. repeat match goal with |- context [if ?c then _ else _] => destruct c end;
      unfold BQuiet; cs; (split; [split; [apply maj_keeps_refl | auto] | exact Hh]). }
  destruct Q as [Q Hh3].
  eapply try_finalize_commit_backed; [exact Hh3 | eapply backed_bquiet; eassumption | exact Eq].
Qed.

Lemma handle_complete_proposal_backed height s s' o :
  cs_halted s = false -> Backed s -> handle_complete_proposal E height s = (s', o) -> Backed s'.
Proof.
  intros Hh [PL PV] Eq. unfold handle_complete_proposal in Eq.
  match type of Eq with context [is_proposal_complete ?x] => set (s1 := x) in * end.
  assert (Q : Backed s1 /\ cs_halted s1 = false).
  { subst s1. destruct (o_maj23 (prevotes (cs_votes s) (cs_round s))) as [[[hh pp]|]|] eqn:Maj; try (split; [split; assumption | exact Hh]).
    destruct ((cs_vround s <? cs_round s) && hashes_to (cs_pblock s) hh) eqn:C; [|split; [split; assumption | exact Hh]].
    apply andb_true_iff in C as [_ C]. split; [|cs; exact Hh]. unfold Backed. cs. split; [exact PL|].
    eapply hashes_to_backed; eassumption. }
  destruct Q as [P1 Hh1].
  destruct (step_le (cs_step s1) SPropose && is_proposal_complete s1).
  - eapply (seq_backed _ _ s1 s' o Eq).
    + intros s2 o2 E2. eapply enter_prevote_backed; eassumption.
    + intros s2 s3 o3 Hh2 P2 E3.
      destruct (o_maj23 (prevotes (cs_votes s) (cs_round s))); [|injection E3 as <- <-; exact P2].
      eapply enter_precommit_backed; eassumption.
  - destruct (step_eqb (cs_step s1) SCommit).
    + eapply try_finalize_commit_backed; eassumption.
    + injection Eq as <- <-. exact P1.
Qed.

Lemma set_proposal_backed p s s' o : Backed s -> set_proposal E p s = (s', o) -> Backed s'.
Proof.
  intros P Eq. unfold set_proposal in Eq.
  assert (Q : BQuiet s s').
  { repeat match type of Eq with
           | context [if ?c then _ else _] => destruct c
           | context [match ?x with _ => _ end] => destruct x
           end; injection Eq as <- <-; bq. }
  eapply backed_bquiet; eassumption.
Qed.

Lemma add_part_backed height ph idx d s s' o :
  cs_halted s = false -> Backed s -> add_part E height ph idx d s = (s', o) -> Backed s'.
Proof.
  intros Hh P Eq. unfold add_part in Eq.
  destruct (negb (cs_height s =? height)); [injection Eq as <- <-; exact P|].
  destruct (cs_pparts s) as [pp|]; [|injection Eq as <- <-; exact P].
  destruct (negb (psh_eqb (pt_header pp) ph)); [injection Eq as <- <-; exact P|].
  destruct ((fst ph <=? idx)%N); [injection Eq as <- <-; exact P|].
  destruct (existsb (N.eqb idx) (pt_have pp)); [injection Eq as <- <-; exact P|].
  match type of Eq with context [pt_complete ?x] => set (pp' := x) in * end.
  assert (Qp : forall bb, BQuiet s (set_prop (cs_proposal s) bb (Some pp') s)) by (intro; bq).
  destruct (pt_complete pp').
  - destruct d as [b|]; (eapply handle_complete_proposal_backed; [| eapply backed_bquiet; [apply Qp | exact P] | exact Eq]; cs; exact Hh).
  - injection Eq as <- <-. eapply backed_bquiet; [apply Qp | exact P].
Qed.

Lemma polka_update_backed vr s : Backed s -> Backed (polka_update vr s) /\ cs_halted (polka_update vr s) = cs_halted s.
Proof.
  intros [PL PV]. unfold polka_update.
  destruct (o_maj23 (prevotes (cs_votes s) vr)) as [polka|] eqn:Maj; [|split; [split; assumption | reflexivity]].
  (* after the possible unlock *)
  match goal with |- context [match polka with Some _ => _ | None => ?su end] => set (s_u := su) end.
  assert (U : Backed s_u /\ cs_halted s_u = cs_halted s /\ cs_votes s_u = cs_votes s /\ cs_pblock s_u = cs_pblock s).
  { assert (PS : Backed s) by (split; assumption).
    subst s_u. destruct (cs_lblock s) eqn:El; [|split; [exact PS | auto]].
    destruct (_ && _); [|split; [exact PS | auto]].
    cs. split; [|auto]. unfold Backed. cs. split; [apply backed_none | exact PV]. }
  destruct U as ([UL UV] & U2 & U3 & U4).
  destruct polka as [[h ph]|]; [|split; [split; assumption | exact U2]].
  destruct ((cs_vround s_u <? vr) && (vr =? cs_round s_u)); [|split; [split; assumption | exact U2]].
  rewrite <- U3 in Maj.
  destruct (hashes_to (cs_pblock s_u) h) eqn:HP.
  - assert (V' : backed (cs_votes s_u) vr (cs_pblock s_u)) by (eapply hashes_to_backed; eassumption).
    destruct (negb (has_header (cs_pparts (set_valid vr (cs_pblock s_u) (cs_pparts s_u) s_u)) ph));
      unfold Backed; cs; (split; [split; assumption | exact U2]).
  - destruct (negb (has_header (cs_pparts (set_prop (cs_proposal s_u) None (cs_pparts s_u) s_u)) ph));
      unfold Backed; cs; (split; [split; assumption | exact U2]).
Qed.

Lemma add_vote_backed v peer s s' o :
  cs_halted s = false -> Backed s -> add_vote E v peer s = (s', o) -> Backed s'.
Proof.
  intros Hh P Eq. unfold add_vote in Eq.
  destruct ((v_height v + 1 =? cs_height s) && (v_type v =? PRECOMMIT)%N).
  { destruct (negb (step_eqb (cs_step s) SNewHeight)); [injection Eq as <- <-; exact P|].
    destruct (cs_last_commit s) as [lc|]; [|eapply panic_backed; eassumption].
    destruct (vs_add lc v) as [[lc' added] e].
    set (s1 := set_last_commit (Some lc') s) in *.
    assert (P1 : Backed s1) by (eapply backed_bquiet; [|exact P]; subst s1; bq).
    assert (Hh1 : cs_halted s1 = false) by (subst s1; cs; exact Hh).
    destruct (negb added); [injection Eq as <- <-; exact P1|].
    destruct (e_skip_timeout_commit E && has_all lc').
    - destruct (enter_new_round E (cs_height s1) 0 s1) as [s2 o2] eqn:E2. injection Eq as <- <-.
      eapply enter_new_round_backed; eassumption.
    - injection Eq as <- <-. exact P1. }
  destruct (negb (v_height v =? cs_height s)); [injection Eq as <- <-; exact P|].
  pose proof (maj_keeps_add_vote (cs_votes s) v peer) as K.
  destruct (hv_add_vote (cs_votes s) v peer) as [[hv' added] e]. cbn [fst] in K.
  set (s1 := set_votes hv' s) in *.
  assert (P1 : Backed s1) by (eapply backed_bquiet; [|exact P]; subst s1; unfold BQuiet; cs; auto).
  assert (Hh1 : cs_halted s1 = false) by (subst s1; cs; exact Hh).
  destruct (negb added); [injection Eq as <- <-; exact P1|].
  match type of Eq with (let '(s9, o9) := ?body in _) = _ => destruct body as [s9 o9] eqn:Eb end.
  injection Eq as <- <-.
  destruct ((v_type v =? PREVOTE)%N).
  - set (s2 := polka_update (v_round v) s1) in *.
    destruct (polka_update_backed (v_round v) s1 P1) as [P2 H2]. fold s2 in P2, H2.
    assert (Hh2 : cs_halted s2 = false) by (rewrite H2; exact Hh1).
    destruct (_ && o_has_any _); [eapply enter_new_round_backed; eassumption|].
    destruct ((cs_round s2 =? v_round v) && step_le SPrevote (cs_step s2)).
    { destruct (o_maj23 (prevotes (cs_votes s2) (v_round v))) as [polka|].
      - destruct (is_proposal_complete s2 || _).
        + eapply enter_precommit_backed; eassumption.
        + destruct (o_has_any _); [|injection Eb as <- <-; exact P2].
          eapply enter_prevote_wait_backed; eassumption.
      - destruct (o_has_any _); [|injection Eb as <- <-; exact P2].
        eapply enter_prevote_wait_backed; eassumption. }
    destruct (cs_proposal s2) as [p|]; [|injection Eb as <- <-; exact P2].
    destruct (_ && is_proposal_complete s2); [|injection Eb as <- <-; exact P2].
    eapply enter_prevote_backed; eassumption.
  - destruct (o_maj23 (precommits (cs_votes s1) (v_round v))) as [polka|].
    + eapply (seq_backed _ _ s1 s9 o9 Eb).
      * intros sa oa Ea. eapply enter_new_round_backed; eassumption.
      * intros sa sb ob Hha Pa Eb2.
        eapply (seq_backed _ _ sa sb ob Eb2).
        -- intros sc oc Ec. eapply enter_precommit_backed; eassumption.
        -- intros sc sd od Hhc Pc Ed. destruct polka as [bb|].
           ++ eapply (seq_backed _ _ sc sd od Ed).
              ** intros se oe Ee. eapply enter_commit_backed; eassumption.
              ** intros se sf of Hhe Pe Ef.
                 destruct (_ && _); [|injection Ef as <- <-; exact Pe].
                 eapply enter_new_round_backed; eassumption.
           ++ eapply enter_precommit_wait_backed; eassumption.
    + destruct (_ && _); [|injection Eb as <- <-; exact P1].
      eapply (seq_backed _ _ s1 s9 o9 Eb).
      * intros sa oa Ea. eapply enter_new_round_backed; eassumption.
      * intros sa sb ob Hha Pa Eb2. eapply enter_precommit_wait_backed; eassumption.
Qed.

Lemma handle_timeout_backed ti s s' o :
  cs_halted s = false -> Backed s -> handle_timeout E ti s = (s', o) -> Backed s'.
Proof.
  intros Hh P Eq. unfold handle_timeout in Eq.
  destruct (negb _); [injection Eq as <- <-; exact P|].
  destruct (_ || _); [injection Eq as <- <-; exact P|].
  destruct (ti_step ti).
  - eapply enter_new_round_backed; eassumption.
  - eapply enter_propose_backed; eassumption.
  - eapply enter_prevote_backed; eassumption.
  - eapply panic_backed; eassumption.
  - eapply enter_precommit_backed; eassumption.
  - eapply panic_backed; eassumption.
  - eapply (seq_backed _ _ s s' o Eq).
    + intros s1 o1 E1. eapply enter_precommit_backed; eassumption.
    + intros s1 s2 o2 Hh1 P1 E2. eapply enter_new_round_backed; eassumption.
  - eapply panic_backed; eassumption.
Qed.

Lemma handle_backed i s s' o : Backed s -> handle E s i = (s', o) -> Backed s'.
Proof.
  intros P Eq. unfold handle in Eq.
  destruct (cs_halted s) eqn:Hh; [injection Eq as <- <-; exact P|].
  destruct i.
  - eapply set_proposal_backed; eassumption.
  - eapply add_part_backed; eassumption.
  - eapply add_vote_backed; eassumption.
  - eapply handle_timeout_backed; eassumption.
  - destruct (height =? cs_height s); injection Eq as <- <-; [|exact P].
    eapply backed_bquiet; [|exact P]. unfold BQuiet. cs. split; [apply maj_keeps_peer | auto].
Qed.

Lemma run_backed : forall ins s s' os, Backed s -> run E s ins = (s', os) -> Backed s'.
Proof.
  induction ins as [|i ins IH]; intros s s' os P Eq; cbn [run] in Eq.
  - injection Eq as <- <-. exact P.
  - destruct (handle E s i) as [s1 o1] eqn:E1. destruct (run E s1 ins) as [s2 os2] eqn:E2.
    injection Eq as <- <-. eapply IH; [eapply handle_backed; eassumption | exact E2].
Qed.

Theorem reachable_backed height lc ins : Backed (fst (run E (init_state E height lc) ins)).
Proof.
  destruct (run E (init_state E height lc) ins) as [s' os] eqn:Er. cbn [fst].
  eapply run_backed; [|exact Er]. unfold Backed, init_state. cbn. split; apply backed_none.
Qed.

End WithEnv.
