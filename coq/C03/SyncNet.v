(* C03 — a synchronous round of a NETWORK of correct validators' machines (C02/Model.v), closed
   loop: what is delivered in each phase is exactly what the machines signed in the phase
   before.
     phase 1  every machine handles the proposal and its part;
     phase 2  every machine handles the prevotes all machines signed in phase 1;
     phase 3  every machine handles the precommits all machines signed in phase 2.
   Every machine outputs ODecide for the proposed block in this round.  Faulty validators are
   silent during the round (their earlier votes may sit in the vote sets: [round_open]).
   Then the link to the value-level argument of C03/Sync.v through the abstraction [abs]. *)
From Coq Require Import List ZArith NArith Bool Lia.
From TM Require Import C02.Model C02.Setters C02.ProofsVoteSet C02.ProofsLock.
From TM Require Import C03.Round C03.Tally C03.SyncModel.
From TM Require C03.Sync C03.SyncWeak.
Import ListNotations.
Open Scope Z_scope.

Record machine := { m_idx : nat; m_env : env; m_state : cstate }.

Lemma flat_map_single {A B} (f : A -> list B) (g : A -> B) l :
  (forall x, In x l -> f x = [g x]) -> flat_map f l = map g l.
Proof.
  induction l as [|x l IH]; intro H; [reflexivity|]. cbn [flat_map map].
  rewrite (H x (or_introl eq_refl)), IH; [reflexivity|]. intros y Hy. apply H. right. exact Hy.
Qed.

Lemma run_fst_app E : forall a s b, fst (run E s (a ++ b)) = fst (run E (fst (run E s a)) b).
Proof.
  induction a as [|i a IH]; intros s b; [reflexivity|].
  cbn [run app]. destruct (handle E s i) as [s1 o1]. specialize (IH s1 b).
  destruct (run E s1 (a ++ b)) as [s2 os2]. destruct (run E s1 a) as [s3 os3]. cbn [fst] in *. exact IH.
Qed.

Section Net.
Variable vals : valset.
Variables h r : Z.
Variable p : proposal.
Variable b : block.
Variable hb : N.
Variable ph : psh.
Variable sig : nat -> N -> N.          (* signature identities, by signer and vote type *)
Variable peer : nat -> N.              (* the peer id under which validator i's votes arrive *)

Definition addr_of (i : nat) : N := fst (nth i vals (0%N, 0)).
Definition power_of (i : nat) : Z := snd (nth i vals (0%N, 0)).

(* the vote message for what validator i signed *)
Definition mk_delivery (i : nat) (ty : N) (k : Z * Z * blockid) : delivery :=
  {| d_idx := i; d_power := power_of i;
     d_vote := {| v_type := ty; v_height := fst (fst k); v_round := snd (fst k); v_bid := snd k;
                  v_idx := Z.of_nat i; v_addr := addr_of i; v_sig := sig i ty; v_ok := true |};
     d_peer := peer i |}.

(* everything of type ty the machines signed, as deliveries, in machine order *)
Definition broadcast (ty : N) (outs : machine -> list output) (ms : list machine) : list delivery :=
  flat_map (fun m => map (mk_delivery (m_idx m) ty) (signed ty (outs m))) ms.

Definition correct_power (ms : list machine) : Z := fold_right (fun m acc => power_of (m_idx m) + acc) 0 ms.

Variable ms : list machine.
Definition idxs : list nat := map m_idx ms.

Definition st1 (m : machine) := fst (run (m_env m) (m_state m) (proposal_inputs h p b ph)).
Definition out1 (m : machine) := concat (snd (run (m_env m) (m_state m) (proposal_inputs h p b ph))).
Definition PV : list delivery := broadcast PREVOTE out1 ms.
Definition st2 (m : machine) := fst (run (m_env m) (st1 m) (map d_input PV)).
Definition out2 (m : machine) := concat (snd (run (m_env m) (st1 m) (map d_input PV))).
Definition PC : list delivery := broadcast PRECOMMIT out2 ms.
Definition out3 (m : machine) := concat (snd (run (m_env m) (st2 m) (map d_input PC))).

(* the whole schedule of a machine, as one input list *)
Definition schedule : list input := proposal_inputs h p b ph ++ map d_input PV ++ map d_input PC.

Lemma schedule_outputs m :
  concat (snd (run (m_env m) (m_state m) schedule)) = out1 m ++ out2 m ++ out3 m.
Proof.
  unfold schedule, out1, out2, out3, st2, st1.
  rewrite run_app, concat_app, run_app, concat_app. reflexivity.
Qed.

Hypothesis Hbid : pr_bid p = (hb, ph).
Hypothesis Hhash : b_hash b = hb.
Hypothesis Hvalid : b_valid b = true.
Hypothesis Hone : fst ph = 1%N.
Hypothesis Hnd : NoDup idxs.
Hypothesis Hval : forall m, In m ms -> is_validator (m_env m) = true.
Hypothesis Hentry : forall m, In m ms ->
  exists a pw, nth_error vals (m_idx m) = Some (a, pw) /\ a <> 0%N /\ 0 <= pw.
Hypothesis Hready : forall m, In m ms -> ready (m_env m) h r p b hb ph idxs vals (m_state m).
Hypothesis Hquorum : quorum vals <= correct_power ms.

Definition dv (ty : N) (m : machine) : delivery := mk_delivery (m_idx m) ty (h, r, Bid hb ph).

Lemma dv_idx ty : map d_idx (map (dv ty) ms) = idxs.
Proof. rewrite map_map. reflexivity. Qed.

Lemma dv_power_gen ty (l : list machine) : powers_of (map (dv ty) l) = correct_power l.
Proof. unfold powers_of, correct_power. induction l as [|m l IH]; [reflexivity|]. cbn [map fold_right]. rewrite IH. reflexivity. Qed.
Lemma dv_power ty : powers_of (map (dv ty) ms) = correct_power ms.
Proof. apply dv_power_gen. Qed.

Lemma dv_good ty : Forall (vote_from h r hb ph vals ty) (map (dv ty) ms).
Proof.
  apply Forall_forall. intros d Hd. apply in_map_iff in Hd as (m & <- & Hm).
  destruct (Hentry m Hm) as (a & pw & Hn & Ha & Hp).
  assert (En : nth (m_idx m) vals (0%N, 0) = (a, pw)) by (apply nth_error_nth; exact Hn).
  unfold vote_from, dv, mk_delivery, addr_of, power_of. cbn [d_vote d_idx d_power v_idx v_bid v_ok v_height v_round v_type v_addr fst snd].
  rewrite En. cbn [fst snd]. repeat split; auto.
Qed.

Lemma step1 m : In m ms -> out1 m = [OSignVote PREVOTE h r (Bid hb ph)] /\ ready2 h r p b hb ph idxs vals (st1 m).
Proof.
  intro Hm. unfold out1, st1.
  destruct (run (m_env m) (m_state m) (proposal_inputs h p b ph)) as [s' os] eqn:Er. cbn [fst snd].
  destruct (phase1 (m_env m) h r p b hb ph Hbid Hhash Hone (Hval m Hm) idxs vals (m_state m) s' os (Hready m Hm) Er) as (A & B0 & _).
  auto.
Qed.

Lemma PV_eq : PV = map (dv PREVOTE) ms.
Proof.
  unfold PV, broadcast. apply flat_map_single. intros m Hm.
  rewrite (proj1 (step1 m Hm)). reflexivity.
Qed.

Lemma step2 m : In m ms -> signed PRECOMMIT (out2 m) = [(h, r, Bid hb ph)] /\ ready3 h r b hb ph idxs vals (st2 m).
Proof.
  intro Hm. unfold out2, st2.
  destruct (run (m_env m) (st1 m) (map d_input PV)) as [s' os] eqn:Er. cbn [fst snd].
  refine (phase2 (m_env m) h r p b hb ph Hhash Hvalid Hone (Hval m Hm) idxs vals (st1 m) PV s' os
            (proj2 (step1 m Hm)) _ _ _ _ Er); rewrite PV_eq.
  - rewrite dv_idx. exact Hnd.
  - rewrite dv_idx. auto.
  - apply dv_good.
  - rewrite dv_power. exact Hquorum.
Qed.

Lemma PC_eq : PC = map (dv PRECOMMIT) ms.
Proof.
  unfold PC, broadcast. apply flat_map_single. intros m Hm.
  rewrite (proj1 (step2 m Hm)). reflexivity.
Qed.

Theorem sync_round_decides m : In m ms -> In (ODecide h r hb) (out3 m).
Proof.
  intro Hm. unfold out3.
  destruct (run (m_env m) (st2 m) (map d_input PC)) as [s' os] eqn:Er. cbn [snd].
  refine (phase3 (m_env m) h r b hb ph Hhash Hvalid Hone idxs vals (st2 m) PC s' os
            (proj2 (step2 m Hm)) _ _ _ _ Er); rewrite PC_eq.
  - rewrite dv_idx. exact Hnd.
  - rewrite dv_idx. auto.
  - apply dv_good.
  - rewrite dv_power. exact Hquorum.
Qed.

(* one input list per machine: proposal, part, all prevotes, all precommits *)
Corollary sync_schedule_decides m :
  In m ms -> In (ODecide h r hb) (concat (snd (run (m_env m) (m_state m) schedule))).
Proof.
  intro Hm. rewrite schedule_outputs. apply in_or_app. right. apply in_or_app. right.
  apply sync_round_decides. exact Hm.
Qed.

End Net.

(* ---------------------------------------------------------------- the link to C03/Sync.v *)

(* what Sync.v sees of a machine: its power, its lock (round, block hash), its valid block *)
Definition abs (power : Z) (s : cstate) : Sync.node :=
  {| Sync.n_power := power;
     Sync.n_lock := match cs_lblock s with Some lb => Some (cs_lround s, b_hash lb) | None => None end;
     Sync.n_valid := match cs_vblock s with Some vb => Some (cs_vround s, b_hash vb) | None => None end |}.

Section Link.
Variable vals : valset.
Variables h r : Z.
Variable p : proposal.
Variable b : block.
Variable hb : N.
Variable ph : psh.
Variable sig : nat -> N -> N.
Variable peer : nat -> N.
Variable ms : list machine.

Definition nodes : list Sync.node := map (fun m => abs (power_of vals (m_idx m)) (m_state m)) ms.

(* a lock on a block with the proposal's hash is a lock on the proposal block, with its
   complete part set, taken in an earlier round (block ids identify blocks; the model keeps
   them abstract, so this is stated) *)
Definition lock_wf (s : cstate) : Prop :=
  forall lb, cs_lblock s = Some lb -> b_hash lb = hb ->
    lb = b /\ cs_lparts s = Some (one_part ph) /\ cs_lround s < r.

(* the machine holds polka q: +2/3 prevotes of round (fst q) for (snd q) are recorded in its vote sets *)
Definition holds_polka (s : cstate) (q : Sync.polka) : Prop :=
  exists bid, o_maj23 (prevotes (cs_votes s) (fst q)) = Some bid /\ bhash bid = snd q.

(* the prevote step of the code (repair of F70) applies Sync.v's unlock rule: if the machine holds
   the polkas of pol (all of rounds <= r) and Sync.v's node, after its unlock rule, prevotes the
   proposal, then the machine after ITS unlock rule is unlocked or locked on the proposal *)
Lemma sync_lock_ok (pol : list Sync.polka) (pw : Z) (s : cstate) :
  lock_wf s ->
  (forall q, In q pol -> fst q <= r /\ holds_polka s q) ->
  Sync.prevote_of hb (Sync.unlock pol (abs pw s)) = hb ->
  lock_ok r b ph (unlock_known r s).
Proof.
  intros Wf Held Un. destruct (unlock_known_lock r s) as (U1 & U2 & U3).
  destruct (cs_lblock s) as [lb|] eqn:El.
  2:{ left. rewrite U1. unfold unlock_fires. rewrite El. reflexivity. }
  unfold Sync.unlock, abs in Un. cbn [Sync.n_lock] in Un. rewrite El in Un.
  destruct (existsb (Sync.releases (cs_lround s) (b_hash lb)) pol) eqn:Ex.
  - (* Sync.v releases the lock: so does the code *)
    apply existsb_exists in Ex as (q & Hq & Rq). destruct (Held q Hq) as (Hle & bid & Hm & Hb).
    unfold Sync.releases in Rq. apply andb_true_iff in Rq as [R1 R2]. apply Z.ltb_lt in R1. apply negb_true_iff in R2.
    assert (Hne : bhash bid <> Some (b_hash lb)).
    { rewrite Hb. destruct (snd q) as [v|]; [|discriminate]. apply N.eqb_neq in R2. congruence. }
    assert (Fu : (Z.to_nat (r - cs_lround s) <= S (Z.to_nat (r - cs_lround s)))%nat) by lia.
    pose proof (later_polka_other_complete (cs_votes s) lb (cs_lround s) _ r (fst q) bid ltac:(lia) Fu Hm Hne) as Fires.
    left. rewrite U1. unfold unlock_fires. rewrite El, Fires. reflexivity.
  - (* Sync.v keeps the lock: it is on the proposal *)
    unfold Sync.prevote_of in Un. cbn [Sync.n_lock] in Un.
    destruct (Wf lb El Un) as (-> & L2 & L3).
    apply lock_ok_unlock_known. right. auto.
Qed.

Lemma total_power_nodes (l : list machine) :
  Sync.total_power (map (fun m => abs (power_of vals (m_idx m)) (m_state m)) l) = correct_power vals l.
Proof. induction l as [|m l IH]; [reflexivity|]. cbn [map Sync.total_power fold_right correct_power Sync.n_power abs]. 
  fold (Sync.total_power (map (fun m => abs (power_of vals (m_idx m)) (m_state m)) l)). rewrite IH. reflexivity. Qed.

Theorem sync_round_decides_on_model (pol : list Sync.polka) (fresh : Sync.value) (mp : machine) (faulty_power : Z) :
  pr_bid p = (hb, ph) -> b_hash b = hb -> b_valid b = true -> fst ph = 1%N ->
  NoDup (map m_idx ms) ->
  (forall m, In m ms -> is_validator (m_env m) = true) ->
  (forall m, In m ms -> exists a pw, nth_error vals (m_idx m) = Some (a, pw) /\ a <> 0%N /\ 0 <= pw) ->
  (forall m, In m ms -> ready_core (m_env m) h r p b hb ph (map m_idx ms) vals (m_state m) /\ lock_wf (m_state m)) ->
  (* Sync.v's picture of the configuration *)
  SyncWeak.InvL pol nodes ->
  (* every machine holds the polkas of pol, all from rounds up to r (idealised gossip) *)
  (forall m q, In m ms -> In q pol -> fst q <= r /\ holds_polka (m_state m) q) ->
  In mp ms ->
  hb = Sync.proposal_of fresh (Sync.unlock pol (abs (power_of vals (m_idx mp)) (m_state mp))) ->
  total_power vals = Sync.total_power nodes + faulty_power -> 0 <= faulty_power ->
  3 * faulty_power < total_power vals ->
  ((forall n, In n (map (Sync.unlock pol) nodes) -> Sync.n_lock n = None) \/
   (exists star, Sync.is_latest pol star /\ snd star = Some hb)) ->
  forall m, In m ms ->
    In (ODecide h r hb) (concat (snd (run (m_env m) (m_state m) (schedule vals h p b ph sig peer ms)))).
Proof.
  intros Hbid Hhash Hvalid Hone Hnd Hval Hentry Hrdy HInv Hset Hmp Hprop Htot Hf H3 Hprem m Hm.
  assert (Hpn : In (abs (power_of vals (m_idx mp)) (m_state mp)) nodes).
  { unfold nodes. apply in_map_iff. exists mp. auto. }
  pose proof (SyncWeak.good_round_prevotes pol nodes hb HInv Hprem) as Un.
  assert (Hlock : forall m0, In m0 ms -> lock_ok r b ph (unlock_known r (m_state m0))).
  { intros m0 Hm0.
    assert (Hn : In (Sync.unlock pol (abs (power_of vals (m_idx m0)) (m_state m0))) (map (Sync.unlock pol) nodes)).
    { apply in_map. unfold nodes. apply in_map_iff. exists m0. auto. }
    apply (sync_lock_ok pol (power_of vals (m_idx m0)) (m_state m0) (proj2 (Hrdy m0 Hm0)));
      [intros q Hq; exact (Hset m0 q Hm0 Hq) | exact (Un _ Hn)]. }
  apply sync_schedule_decides; try assumption.
  - intros m0 Hm0. split; [exact (proj1 (Hrdy m0 Hm0)) | exact (Hlock m0 Hm0)].
  - unfold nodes in Htot. rewrite total_power_nodes in Htot. unfold quorum.
    assert (total_power vals * 2 / 3 < correct_power vals ms) by (apply Z.div_lt_upper_bound; lia). lia.
Qed.

End Link.
