(* C03 — the repaired re-lock of enterPrecommit (finding F83): what it establishes, over ARBITRARY
   states of the model of record.

   enterPrecommit at round r, holding the polka of round r for the block it is locked on: it
   re-locks (LockedRound := r) AND - the repair - takes the locked block as valid block with
   ValidRound := r when ValidRound < r.  If the valid block is backed by the polka of its valid
   round (an invariant of all runs: C03/Backed.v) and ValidRound <= r, then after the step the
   VALID BLOCK IS THE LOCKED BLOCK (same hash) and ValidRound = LockedRound = r: the clause
   inv_lock_valid of Sync.Inv (and the weaker one of SyncWeak.Inv') holds of the machine.
   The unrepaired step (Model.relock_unfixed) leaves ValidBlock as it is (C03/TermLV.v). *)
From Coq Require Import List ZArith NArith Bool Lia.
From TM Require Import C02.Model C02.Setters C02.ProofsVoteSet C02.ProofsHVS C02.ProofsOrder C03.Commit C03.Round C03.Backed.
Import ListNotations.
Open Scope Z_scope.

Ltac cs := autorewrite with cs in *.

Lemma relock_lock_valid r s lb hb ph :
  cs_lblock s = Some lb -> b_hash lb = hb ->
  o_maj23 (prevotes (cs_votes s) r) = Some (Some (hb, ph)) ->
  backed (cs_votes s) (cs_vround s) (cs_vblock s) -> cs_vround s <= r ->
  (cs_vblock s = None -> cs_vround s < r) ->
  cs_lblock (relock r s) = Some lb /\ cs_lround (relock r s) = r /\ cs_vround (relock r s) = r /\
  exists vb, cs_vblock (relock r s) = Some vb /\ b_hash vb = hb.
Proof.
  intros El Eh Hm Bk Hle Hnone. cs. split; [exact El|]. split; [reflexivity|].
  destruct (cs_vround s <? r) eqn:Lt.
  - split; [reflexivity|]. exists lb. auto.
  - apply Z.ltb_ge in Lt. assert (Ev : cs_vround s = r) by lia. split; [exact Ev|].
    destruct (cs_vblock s) as [vb|] eqn:Evb; [|specialize (Hnone eq_refl); lia].
    exists vb. split; [reflexivity|]. destruct (Bk vb eq_refl) as (ph' & Hm'). rewrite Ev, Hm in Hm'. congruence.
Qed.

Section WithEnv.
Variable E : env.

(* enterPrecommit on the polka of its round for the block it is locked on *)
Theorem relock_sets_valid h r s lb hb ph s' o :
  cs_halted s = false -> cs_height s = h -> cs_round s = r -> step_rank (cs_step s) < 6 ->
  o_maj23 (prevotes (cs_votes s) r) = Some (Some (hb, ph)) -> 0 <= r <= hv_round (cs_votes s) ->
  cs_lblock s = Some lb -> b_hash lb = hb ->
  backed (cs_votes s) (cs_vround s) (cs_vblock s) -> cs_vround s <= r ->
  (cs_vblock s = None -> cs_vround s < r) ->
  enter_precommit E h r s = (s', o) ->
  o = (if is_validator E then [OSignVote PRECOMMIT h r (Some (hb, ph))] else []) /\
  cs_step s' = SPrecommit /\ cs_lblock s' = Some lb /\ cs_lround s' = r /\ cs_vround s' = r /\
  exists vb, cs_vblock s' = Some vb /\ b_hash vb = hb.
Proof.
  intros Hh H1 H2 H3 Hm Hr El Eh Bk Hle Hnone Eq.
  unfold enter_precommit, step_le in Eq.
  rewrite H1, H2, !Z.eqb_refl, Z.ltb_irrefl in Eq. cbn [negb orb andb step_rank] in Eq.
  replace (6 <=? step_rank (cs_step s)) with false in Eq by (symmetry; apply Z.leb_gt; exact H3).
  rewrite Hm in Eq.
  replace (fst (pol_info (cs_votes s)) <? r) with false in Eq
    by (symmetry; apply Z.ltb_ge; eapply pol_info_ge; eassumption).
  rewrite El in Eq. cbn [hashes_to] in Eq. rewrite Eh, N.eqb_refl in Eq.
  rewrite seq_modify in Eq by (cs; exact Hh).
  destruct (relock_lock_valid r s lb hb ph El Eh Hm Bk Hle Hnone) as (A1 & A2 & A3 & A4).
  assert (Hh' : cs_halted (relock r s) = false) by (autorewrite with cs; exact Hh).
  assert (Hp : cs_height (relock r s) = h /\ cs_round (relock r s) = r) by (autorewrite with cs; auto).
  destruct Hp as [Hp1 Hp2].
  unfold seq, sign_add_vote, modify in Eq.
  destruct (is_validator E); rewrite Hh' in Eq; injection Eq as <- <-;
    cbn [cs_step cs_lblock cs_lround cs_vround cs_vblock set_rs app]; rewrite ?Hp1, ?Hp2; rewrite ?cs_step_set_rs, ?cs_lblock_set_rs, ?cs_lround_set_rs, ?cs_vround_set_rs, ?cs_vblock_set_rs; repeat split; assumption || reflexivity.
Qed.

End WithEnv.
