(* C03 — a concrete network for the theorems of SyncNet.v (non-vacuity): four validators of
   power 10, three correct machines (indices 0..2) that entered round 0 of height 1 through the
   real timeout path, validator 3 faulty and silent; validator 0 proposes block 7. *)
From Coq Require Import List ZArith NArith Bool Lia.
From TM Require Import C02.Model C02.ProofsVoteSet C03.Round C03.Tally C03.SyncModel C03.SyncNet.
Import ListNotations.
Open Scope Z_scope.

Definition ex_vals : valset := [(11%N, 10); (12%N, 10); (13%N, 10); (14%N, 10)].
Definition ex_env (i : Z) : env :=
  {| e_vals := ex_vals; e_me := Some i; e_proposer := fun _ _ => 0; e_skip_timeout_commit := false;
     e_initial_height := 1 |}.
Definition ex_start (i : Z) : cstate :=
  fst (handle (ex_env i) (init_state (ex_env i) 1 None)
              (ITimeout {| ti_height := 1; ti_round := 0; ti_step := SNewHeight |})).
Definition ex_machine (i : nat) : machine :=
  {| m_idx := i; m_env := ex_env (Z.of_nat i); m_state := ex_start (Z.of_nat i) |}.
Definition ex_ms : list machine := [ex_machine 0; ex_machine 1; ex_machine 2].

Definition ex_p : proposal :=
  {| pr_height := 1; pr_round := 0; pr_polr := -1; pr_bid := (7%N, (1%N, 70%N)); pr_signer := 0; pr_sigvalid := true |}.
Definition ex_b : block := {| b_hash := 7%N; b_valid := true |}.
Definition ex_sig (i : nat) (ty : N) : N := (N.of_nat i * 10 + ty)%N.
Definition ex_peer (i : nat) : N := N.of_nat (100 + i).

Definition is_decide (o : output) : bool :=
  match o with ODecide 1 0 7%N => true | _ => false end.

(* the conclusion, computed: every machine decides block 7 in round 0 of height 1 *)
Example ex_all_decide :
  forallb (fun m => existsb is_decide
                      (concat (snd (run (m_env m) (m_state m) (schedule ex_vals 1 ex_p ex_b (1%N, 70%N) ex_sig ex_peer ex_ms)))))
          ex_ms = true.
Proof. vm_compute. reflexivity. Qed.

(* the schedule has 2 + 3 + 3 inputs: what was signed was delivered *)
Example ex_schedule_length : length (schedule ex_vals 1 ex_p ex_b (1%N, 70%N) ex_sig ex_peer ex_ms) = 8%nat.
Proof. vm_compute. reflexivity. Qed.

(* the hypotheses of sync_round_decides hold of this network *)
Example ex_ready : forall m, In m ex_ms ->
  ready (m_env m) 1 0 ex_p ex_b 7%N (1%N, 70%N) (map m_idx ex_ms) ex_vals (m_state m).
Proof.
  assert (RO : forall ty, round_open 1 0 7%N (1%N, 70%N) [0%nat; 1%nat; 2%nat] ex_vals ty (new_voteset 1 0 ty ex_vals)).
  { intro ty. split; [apply new_voteset_open; vm_compute; discriminate|].
    split; [repeat split|]. split; [reflexivity|]. split; [reflexivity|]. vm_compute. discriminate. }
  intros m [<-|[<-|[<-|[]]]]; (split; [|left; reflexivity]);
    (split; [reflexivity|]); (split; [reflexivity|]); (split; [reflexivity|]); (split; [vm_compute; discriminate|]);
    (split; [reflexivity|]); (split; [left; reflexivity|]);
    (split; [unfold good_proposal; vm_compute; repeat split; try discriminate; left; reflexivity|]);
    (split; [vm_compute; split; discriminate|]);
    exists (new_voteset 1 0 PREVOTE ex_vals), (new_voteset 1 0 PRECOMMIT ex_vals);
    (split; [vm_compute; reflexivity|]); split; apply RO.
Qed.

Example ex_quorum : quorum ex_vals <= correct_power ex_vals ex_ms.
Proof. vm_compute. discriminate. Qed.
