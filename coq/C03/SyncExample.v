(* C03 — a concrete network for the theorems of SyncNet.v (non-vacuity): four validators of
   power 10, three correct machines (indices 0..2) that entered round 0 of height 1 through the
   real timeout path, validator 3 faulty and silent; validator 0 proposes block 7. *)
From Coq Require Import List ZArith NArith Bool Lia.
From TM Require Import C02.Model C02.ProofsVoteSet C03.Round C03.Tally C03.SyncModel C03.SyncNet.
Import ListNotations.
Open Scope Z_scope.

Definition ex_vals : valset := [(11%N, 10); (12%N, 10); (13%N, 10); (14%N, 10)].
Definition ex_env (i : Z) : env :=
  {| e_vals := ex_vals; e_me := Some i; e_proposer := fun _ _ => 0; e_skip_timeout_commit := false;
     e_initial_height := 1 |}.
Definition ex_start (i : Z) : cstate :=
  fst (handle (ex_env i) (init_state (ex_env i) 1 None)
              (ITimeout {| ti_height := 1; ti_round := 0; ti_step := SNewHeight |})).
Definition ex_machine (i : nat) : machine :=
  {| m_idx := i; m_env := ex_env (Z.of_nat i); m_state := ex_start (Z.of_nat i) |}.
Definition ex_ms : list machine := [ex_machine 0; ex_machine 1; ex_machine 2].

Definition ex_p : proposal :=
  {| pr_height := 1; pr_round := 0; pr_polr := -1; pr_bid := (7%N, (1%N, 70%N)); pr_signer := 0; pr_sigvalid := true |}.
Definition ex_b : block := {| b_hash := 7%N; b_valid := true |}.
Definition ex_sig (i : nat) (ty : N) : N := (N.of_nat i * 10 + ty)%N.
Definition ex_peer (i : nat) : N := N.of_nat (100 + i).

Definition is_decide (o : output) : bool :=
  match o with ODecide 1 0 7%N => true | _ => false end.

(* the conclusion, computed: every machine decides block 7 in round 0 of height 1 *)
Example ex_all_decide :
  forallb (fun m => existsb is_decide
                      (concat (snd (run (m_env m) (m_state m) (schedule ex_vals 1 ex_p ex_b (1%N, 70%N) ex_sig ex_peer ex_ms)))))
          ex_ms = true.
Proof. vm_compute. reflexivity. Qed.

(* the schedule has 2 + 3 + 3 inputs: what was signed was delivered *)
Example ex_schedule_length : length (schedule ex_vals 1 ex_p ex_b (1%N, 70%N) ex_sig ex_peer ex_ms) = 8%nat.
Proof. vm_compute. reflexivity. Qed.

(* the hypotheses of sync_round_decides hold of this network *)
Example ex_ready : forall m, In m ex_ms ->
  ready (m_env m) 1 0 ex_p ex_b 7%N (1%N, 70%N) (map m_idx ex_ms) ex_vals (m_state m).
Proof.
  assert (RO : forall ty, round_open 1 0 7%N (1%N, 70%N) [0%nat; 1%nat; 2%nat] ex_vals ty (new_voteset 1 0 ty ex_vals)).
  { intro ty. split; [apply new_voteset_open; vm_compute; discriminate|].
    split; [repeat split|]. split; [reflexivity|]. split; [reflexivity|]. vm_compute. discriminate. }
  intros m [<-|[<-|[<-|[]]]]; (split; [|left; reflexivity]);
    (split; [reflexivity|]); (split; [reflexivity|]); (split; [reflexivity|]); (split; [vm_compute; discriminate|]);
    (split; [reflexivity|]); (split; [left; reflexivity|]);
    (split; [unfold good_proposal; vm_compute; repeat split; try discriminate; left; reflexivity|]);
    (split; [vm_compute; split; discriminate|]);
    exists (new_voteset 1 0 PREVOTE ex_vals), (new_voteset 1 0 PRECOMMIT ex_vals);
    (split; [vm_compute; reflexivity|]); split; apply RO.
Qed.

Example ex_quorum : quorum ex_vals <= correct_power ex_vals ex_ms.
Proof. vm_compute. discriminate. Qed.

(* ---------------------------------------------------------------- the same network with the faulty
   validator 3 voting during the round: a nil prevote, an equivocating prevote for another block,
   and a forged prevote claiming validator 0 (bad signature), interleaved with the correct
   prevotes; likewise for the precommits. *)
From TM Require Import C03.FaultyTally C03.SyncFaulty C03.SyncNetF.

Definition ex_fvote (ty : N) (x : blockid) (i : Z) (ok : bool) : vote :=
  {| v_type := ty; v_height := 1; v_round := 0; v_bid := x; v_idx := i; v_addr := N.of_nat (11 + Z.to_nat i);
     v_sig := (900 + Z.to_N i * 10 + ty + match x with None => 0 | Some _ => 5 end)%N; v_ok := ok |}.
Definition ex_other : blockid := Some (9%N, (1%N, 90%N)).

Definition ex_weave (ty : N) (ds : list delivery) : list item :=
  match ds with
  | [a; b; c] => [Faulty (ex_fvote ty None 3 true) 9%N; Correct a; Faulty (ex_fvote ty ex_other 3 true) 9%N; Correct b;
                  Faulty (ex_fvote ty ex_other 0 false) 9%N; Correct c]
  | _ => map Correct ds
  end.
Definition ex_L2 (m : machine) : list item := ex_weave PREVOTE (PV ex_vals 1 ex_p ex_b (1%N, 70%N) ex_sig ex_peer ex_ms).
Definition ex_L3 (m : machine) : list item :=
  ex_weave PRECOMMIT (PCF ex_vals 1 ex_p ex_b (1%N, 70%N) ex_sig ex_peer ex_ms ex_L2).

Example ex_all_decide_faulty :
  forallb (fun m => existsb is_decide
                      (concat (snd (run (m_env m) (m_state m) (scheduleF 1 ex_p ex_b (1%N, 70%N) ex_L2 ex_L3 m)))))
          ex_ms = true /\
  length (scheduleF 1 ex_p ex_b (1%N, 70%N) ex_L2 ex_L3 (ex_machine 0)) = 14%nat.
Proof. vm_compute. split; reflexivity. Qed.

Example ex_faulty_hyps :
  (forall m, In m ex_ms ->
     correct_part (ex_L2 m) = PV ex_vals 1 ex_p ex_b (1%N, 70%N) ex_sig ex_peer ex_ms /\
     forall v pr, In (Faulty v pr) (ex_L2 m) -> faulty_vote 1 0 (idxs ex_ms) PREVOTE v) /\
  (forall m, In m ex_ms ->
     correct_part (ex_L3 m) = PCF ex_vals 1 ex_p ex_b (1%N, 70%N) ex_sig ex_peer ex_ms ex_L2 /\
     forall v pr, In (Faulty v pr) (ex_L3 m) -> faulty_vote 1 0 (idxs ex_ms) PRECOMMIT v) /\
  (forall m, In m ex_ms -> forall pv pc,
     lookup_round 0 (hv_sets (cs_votes (m_state m))) = Some (pv, pc) ->
     extra 7%N (1%N, 70%N) (idxs ex_ms) pv /\ extra 7%N (1%N, 70%N) (idxs ex_ms) pc) /\
  total_power ex_vals - pw_of ex_vals (idxs ex_ms) < quorum ex_vals.
Proof.
  assert (EI : idxs ex_ms = [0%nat; 1%nat; 2%nat]) by (vm_compute; reflexivity).
  rewrite EI.
  assert (FV : forall ty v, In v [ex_fvote ty None 3 true; ex_fvote ty ex_other 3 true; ex_fvote ty ex_other 0 false] ->
                            faulty_vote 1 0 [0%nat; 1%nat; 2%nat] ty v).
  { intros ty v [<-|[<-|[<-|[]]]]; (split; [split; [reflexivity | split; reflexivity]|]);
      unfold ex_fvote; cbn [v_ok v_idx]; intros A _ C; try discriminate A;
      change (Z.to_nat 3) with 3%nat in C; destruct C as [C|[C|[C|[]]]]; discriminate C. }
  assert (E2 : forall m, ex_L2 m = ex_weave PREVOTE (PV ex_vals 1 ex_p ex_b (1%N, 70%N) ex_sig ex_peer ex_ms)) by reflexivity.
  assert (E3 : forall m, ex_L3 m = ex_weave PRECOMMIT (PCF ex_vals 1 ex_p ex_b (1%N, 70%N) ex_sig ex_peer ex_ms ex_L2)) by reflexivity.
  assert (W : forall ty a b c,
            correct_part (ex_weave ty [a; b; c]) = [a; b; c] /\
            forall v pr, In (Faulty v pr) (ex_weave ty [a; b; c]) ->
                         In v [ex_fvote ty None 3 true; ex_fvote ty ex_other 3 true; ex_fvote ty ex_other 0 false]).
  { intros ty a b c. split; [reflexivity|]. intros v pr Hin. cbn [ex_weave In] in Hin.
    destruct Hin as [H|[H|[H|[H|[H|[H|[]]]]]]]; try discriminate H; injection H as <- _; cbn [In]; auto. }
  assert (PVl : exists a b c, PV ex_vals 1 ex_p ex_b (1%N, 70%N) ex_sig ex_peer ex_ms = [a; b; c]) by (vm_compute; eauto).
  assert (PCl : exists a b c, PCF ex_vals 1 ex_p ex_b (1%N, 70%N) ex_sig ex_peer ex_ms ex_L2 = [a; b; c]) by (vm_compute; eauto).
  destruct PVl as (a2 & b2 & c2 & EPV). destruct PCl as (a3 & b3 & c3 & EPC).
  split; [|split; [|split]].
  - intros m _. rewrite E2, EPV. destruct (W PREVOTE a2 b2 c2) as [W1 W2]. split; [exact W1|].
    intros v pr Hin. apply FV. exact (W2 v pr Hin).
  - intros m _. rewrite E3, EPC. destruct (W PRECOMMIT a3 b3 c3) as [W1 W2]. split; [exact W1|].
    intros v pr Hin. apply FV. exact (W2 v pr Hin).
  - intros m Hm pv pc L.
    assert (EL : lookup_round 0 (hv_sets (cs_votes (m_state m))) =
                 Some (new_voteset 1 0 PREVOTE ex_vals, new_voteset 1 0 PRECOMMIT ex_vals)).
    { destruct Hm as [<-|[<-|[<-|[]]]]; vm_compute; reflexivity. }
    rewrite EL in L. injection L as <- <-.
    split; (split; [apply new_voteset_inv | intros K bv Lk; cbn in Lk; discriminate]).
  - vm_compute. reflexivity.
Qed.

(* ---------------------------------------------------------------- a second network: round 1, every machine LOCKED on
   the proposed block since round 0 (no decision in round 0: only two precommits for it arrived),
   the proposer re-proposes it with POL round 0: the locked / POL-round path of the theorems. *)
Definition ex2_env (i : Z) : env :=
  {| e_vals := ex_vals; e_me := Some i; e_proposer := fun _ r => if r =? 0 then 0 else 1; e_skip_timeout_commit := false;
     e_initial_height := 1 |}.
Definition ex2_vote (ty : N) (x : blockid) (i : Z) : input :=
  IVote {| v_type := ty; v_height := 1; v_round := 0; v_bid := x; v_idx := i; v_addr := N.of_nat (11 + Z.to_nat i);
           v_sig := (500 + Z.to_N i * 10 + ty)%N; v_ok := true |} 9%N.
Definition ex2_B : blockid := Some (7%N, (1%N, 70%N)).
Definition ex2_prefix : list input :=
  [ ITimeout {| ti_height := 1; ti_round := 0; ti_step := SNewHeight |};
    IProposal ex_p; IPart 1 (1%N, 70%N) 0%N (Some ex_b);
    ex2_vote PREVOTE ex2_B 0; ex2_vote PREVOTE ex2_B 1; ex2_vote PREVOTE ex2_B 2;
    ex2_vote PRECOMMIT ex2_B 0; ex2_vote PRECOMMIT ex2_B 1; ex2_vote PRECOMMIT None 3;
    ITimeout {| ti_height := 1; ti_round := 0; ti_step := SPrecommitWait |} ].
Definition ex2_start (i : Z) : cstate := fst (run (ex2_env i) (init_state (ex2_env i) 1 None) ex2_prefix).
Definition ex2_machine (i : nat) : machine :=
  {| m_idx := i; m_env := ex2_env (Z.of_nat i); m_state := ex2_start (Z.of_nat i) |}.
Definition ex2_ms : list machine := [ex2_machine 0; ex2_machine 1; ex2_machine 2].
Definition ex2_p : proposal :=
  {| pr_height := 1; pr_round := 1; pr_polr := 0; pr_bid := (7%N, (1%N, 70%N)); pr_signer := 1; pr_sigvalid := true |}.
Definition is_decide1 (o : output) : bool := match o with ODecide 1 1 7%N => true | _ => false end.

Example ex2_locked_states :
  map (fun m => (cs_round (m_state m), cs_step (m_state m), cs_lround (m_state m), cs_lblock (m_state m), cs_proposal (m_state m)))
      ex2_ms =
  [(1, SPropose, 0, Some ex_b, None); (1, SPropose, 0, Some ex_b, None); (1, SPropose, 0, Some ex_b, None)].
Proof. vm_compute. reflexivity. Qed.

Example ex2_all_decide :
  forallb (fun m => existsb is_decide1
                      (concat (snd (run (m_env m) (m_state m) (schedule ex_vals 1 ex2_p ex_b (1%N, 70%N) ex_sig ex_peer ex2_ms)))))
          ex2_ms = true.
Proof. vm_compute. reflexivity. Qed.

Example ex2_ready : forall m, In m ex2_ms ->
  ready (m_env m) 1 1 ex2_p ex_b 7%N (1%N, 70%N) (map m_idx ex2_ms) ex_vals (m_state m).
Proof.
  assert (RO : forall ty, round_open 1 1 7%N (1%N, 70%N) [0%nat; 1%nat; 2%nat] ex_vals ty (new_voteset 1 1 ty ex_vals)).
  { intro ty. split; [apply new_voteset_open; vm_compute; discriminate|].
    split; [repeat split|]. split; [reflexivity|]. split; [reflexivity|]. vm_compute. discriminate. }
  intros m [<-|[<-|[<-|[]]]]; (split; [|right; vm_compute; repeat split]);
    (split; [reflexivity|]); (split; [reflexivity|]); (split; [reflexivity|]); (split; [vm_compute; discriminate|]);
    (split; [reflexivity|]); (split; [left; reflexivity|]);
    (split; [unfold good_proposal; vm_compute; repeat split; try discriminate; right; reflexivity|]);
    (split; [vm_compute; split; discriminate|]);
    exists (new_voteset 1 1 PREVOTE ex_vals), (new_voteset 1 1 PRECOMMIT ex_vals);
    (split; [vm_compute; reflexivity|]); split; apply RO.
Qed.
