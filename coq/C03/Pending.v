(* C03 — every step that waits for a timeout HAS that timeout in the ticker: an invariant of all
   runs of the state-machine model (C02/Model.v) from the initial state.  Together with
   Round.timeouts_never_stuck: in a reachable, non-halted state whose step is NewHeight,
   Propose or PrevoteWait, or whose precommit-wait flag is set, the ticker holds a timeout whose
   handling moves (height, round, step) strictly forward. *)
From Coq Require Import List ZArith NArith Bool Lia.
From TM Require Import C02.Model C02.Setters C02.ProofsVoteSet C02.ProofsHVS C02.ProofsOrder C03.Commit C03.Round.
Import ListNotations.
Open Scope Z_scope.

Ltac cs := autorewrite with cs in *.

Definition tmo (h r : Z) (st : step) : tinfo := {| ti_height := h; ti_round := r; ti_step := st |}.

Definition Pend (s : cstate) : Prop :=
  0 <= cs_round s /\
  (cs_step s = SNewHeight -> cs_round s = 0 /\ In (tmo (cs_height s) 0 SNewHeight) (cs_scheduled s)) /\
  (cs_step s = SPropose -> In (tmo (cs_height s) (cs_round s) SPropose) (cs_scheduled s)) /\
  (cs_step s = SPrevoteWait -> In (tmo (cs_height s) (cs_round s) SPrevoteWait) (cs_scheduled s)) /\
  (cs_triggered s = true -> In (tmo (cs_height s) (cs_round s) SPrecommitWait) (cs_scheduled s)).

(* nothing the invariant looks at changed, except that timeouts may have been added *)
Definition TQuiet (a b : cstate) : Prop :=
  cs_height b = cs_height a /\ cs_round b = cs_round a /\ cs_step b = cs_step a /\
  cs_triggered b = cs_triggered a /\ (forall ti, In ti (cs_scheduled a) -> In ti (cs_scheduled b)).

Lemma tquiet_refl a : TQuiet a a. Proof. repeat split; auto. Qed.
Lemma tquiet_trans a b c : TQuiet a b -> TQuiet b c -> TQuiet a c.
Proof. intros (A1 & A2 & A3 & A4 & A5) (B1 & B2 & B3 & B4 & B5). repeat split; try congruence. auto. Qed.

Lemma pend_tquiet a b : TQuiet a b -> Pend a -> Pend b.
Proof.
  intros (A1 & A2 & A3 & A4 & A5) (P0 & P1 & P2 & P3 & P4). unfold Pend. rewrite A1, A2, A3, A4.
  split; [exact P0|]. split; [intro H; destruct (P1 H); auto|]. split; [auto|]. split; auto.
Qed.

Ltac tquiet_solve :=
  repeat match goal with
         | |- context [if ?c then _ else _] => destruct c
         | |- context [match ?x with _ => _ end] => destruct x
         end; unfold TQuiet; cs; repeat split; auto.

Lemma seq_pend (f g : M) s s' o (Q : cstate -> Prop) :
  seq f g s = (s', o) ->
  (forall s1 o1, f s = (s1, o1) -> Pend s1 /\ (cs_halted s1 = false -> Q s1)) ->
  (forall s1 s2 o2, cs_halted s1 = false -> Pend s1 -> Q s1 -> g s1 = (s2, o2) -> Pend s2) ->
  Pend s'.
Proof.
  intros Eq Hf Hg. unfold seq in Eq. destruct (f s) as [s1 o1] eqn:Ef.
  destruct (Hf s1 o1 eq_refl) as [P1 Q1].
  destruct (cs_halted s1) eqn:Hh1.
  - injection Eq as <- <-. exact P1.
  - destruct (g s1) as [s2 o2] eqn:Eg. injection Eq as <- <-.
    eapply Hg; [exact Hh1 | exact P1 | apply Q1; reflexivity | exact Eg].
Qed.

Lemma panic_pend c s s' o : panic c s = (s', o) -> Pend s -> Pend s'.
Proof. intros Eq P. unfold panic in Eq. injection Eq as <- <-. eapply pend_tquiet; [|exact P]. unfold TQuiet. cs. repeat split; auto. Qed.

Section WithEnv.
Variable E : env.

Lemma enter_prevote_pend height round s s' o :
  cs_halted s = false -> round_ok height round s -> Pend s ->
  enter_prevote E height round s = (s', o) -> Pend s'.
Proof.
  intros Hh Hr P Eq. unfold enter_prevote in Eq.
  destruct (negb (cs_height s =? height) || (round <? cs_round s) || ((cs_round s =? round) && step_le SPrevote (cs_step s))) eqn:G.
  - injection Eq as <- <-. exact P.
  - unfold step_le in G. bool_to_prop. specialize (Hr ltac:(lia)). assert (round = cs_round s) by lia. subst round.
    unfold seq in Eq. rewrite do_prevote_eq in Eq. autorewrite with cs in Eq. rewrite Hh in Eq. unfold modify in Eq. injection Eq as <- <-.
    destruct P as (P0 & P1 & P2 & P3 & P4). unfold Pend. cs.
    split; [exact P0|]. do 3 (split; [intro X; discriminate X|]). exact P4.
Qed.

Lemma enter_propose_pend height round s s' o :
  cs_halted s = false -> Pend s ->
  (cs_height s = height -> cs_round s < round -> cs_triggered s = false) ->
  enter_propose E height round s = (s', o) -> Pend s'.
Proof.
  intros Hh P Ht Eq. unfold enter_propose in Eq.
  destruct (negb (cs_height s =? height) || (round <? cs_round s) || ((cs_round s =? round) && step_le SPropose (cs_step s))) eqn:G.
  - injection Eq as <- <-. exact P.
  - unfold step_le in G. bool_to_prop.
    set (s1 := add_sched {| ti_height := height; ti_round := round; ti_step := SPropose |} s) in *.
    assert (Hh1 : cs_halted s1 = false) by (subst s1; cs; exact Hh).
    assert (Dec : exists od, (match e_me E with
                     | Some me => if me =? e_proposer E (cs_height s1) (cs_round s1) then decide_proposal E height round s1 else (s1, [])
                     | None => (s1, []) end) = (s1, od)).
    { destruct (e_me E) as [me|]; [|exists []; reflexivity].
      destruct (me =? e_proposer E (cs_height s1) (cs_round s1)); [|exists []; reflexivity].
      pose proof (decide_proposal_state E height round s1) as A.
      destruct (decide_proposal E height round s1) as [x od]. cbn [fst] in A. subst x. exists od. reflexivity. }
    destruct Dec as (od & Ed).
    unfold seq at 1 in Eq. rewrite seq_schedule in Eq by exact Hh. fold s1 in Eq. rewrite Ed in Eq.
    rewrite Hh1 in Eq. rewrite seq_modify in Eq by (cs; exact Hh1).
    set (s2 := set_rs round SPropose s1) in *.
    assert (Hh2 : cs_halted s2 = false) by (subst s2; cs; exact Hh1).
    assert (P2' : Pend s2).
    { destruct P as (P0 & P1 & P2 & P3 & P4). unfold Pend. subst s2 s1. cs.
      split; [lia|]. split; [intro; discriminate|]. split; [intros _; left; unfold tmo; congruence|].
      split; [intro; discriminate|].
      intro Tr. right. destruct (Z.eq_dec (cs_round s) round) as [e|n]; [rewrite <- e; auto|].
      rewrite (Ht ltac:(lia) ltac:(lia)) in Tr. discriminate. }
    destruct (is_proposal_complete s2).
    + destruct (enter_prevote E height (cs_round s2) s2) as [s3 o3] eqn:E3. injection Eq as <- <-.
      refine (enter_prevote_pend height (cs_round s2) s2 s3 o3 Hh2 _ P2' E3). intro; lia.
    + injection Eq as <- <-. exact P2'.
Qed.

Lemma enter_new_round_pend height round s s' o :
  cs_halted s = false -> Pend s -> enter_new_round E height round s = (s', o) -> Pend s'.
Proof.
  intros Hh P Eq. unfold enter_new_round in Eq.
  destruct (negb (cs_height s =? height) || (round <? cs_round s) || ((cs_round s =? round) && negb (step_eqb (cs_step s) SNewHeight))) eqn:G.
  - injection Eq as <- <-. exact P.
  - unfold step_eqb in G. bool_to_prop.
    match type of Eq with enter_propose E height round ?x = _ => set (s3 := x) in * end.
    assert (A : cs_halted s3 = false /\ cs_height s3 = cs_height s /\ cs_round s3 = round /\ cs_step s3 = SNewRound /\
                cs_triggered s3 = false /\ cs_scheduled s3 = cs_scheduled s).
    { subst s3. destruct (round =? 0); cs; repeat split; auto. }
    destruct A as (A1 & A2 & A3 & A4 & A5 & A6).
    assert (P3' : Pend s3).
    { destruct P as (P0 & _). unfold Pend. rewrite A3, A4, A5. split; [lia|]. do 3 (split; [intro X; discriminate X|]). intro X; discriminate X. }
    eapply enter_propose_pend; [exact A1 | exact P3' | intros; exact A5 | exact Eq].
Qed.

Lemma enter_prevote_wait_pend height round s s' o :
  cs_halted s = false -> round_ok height round s -> Pend s ->
  enter_prevote_wait height round s = (s', o) -> Pend s'.
Proof.
  intros Hh Hr P Eq. unfold enter_prevote_wait in Eq.
  destruct (negb (cs_height s =? height) || (round <? cs_round s) || ((cs_round s =? round) && step_le SPrevoteWait (cs_step s))) eqn:G.
  - injection Eq as <- <-. exact P.
  - unfold step_le in G. bool_to_prop. specialize (Hr ltac:(lia)). assert (round = cs_round s) by lia. subst round.
    destruct (negb (o_has_any (prevotes (cs_votes s) (cs_round s)))); [eapply panic_pend; eassumption|].
    rewrite seq_schedule in Eq by exact Hh. unfold modify in Eq. injection Eq as <- <-.
    destruct P as (P0 & P1 & P2 & P3 & P4). unfold Pend. cs.
    split; [exact P0|]. split; [intro; discriminate|]. split; [intro; discriminate|].
    split; [intros _; left; unfold tmo; congruence|]. intro Tr. right. auto.
Qed.

Lemma enter_precommit_pend height round s s' o :
  cs_halted s = false -> round_ok height round s -> Pend s ->
  enter_precommit E height round s = (s', o) -> Pend s'.
Proof.
  intros Hh Hr P Eq.
  destruct (negb (cs_height s =? height) || (round <? cs_round s) || ((cs_round s =? round) && step_le SPrecommit (cs_step s))) eqn:G.
  - unfold enter_precommit in Eq. rewrite G in Eq. injection Eq as <- <-. exact P.
  - unfold step_le in G. bool_to_prop. specialize (Hr ltac:(lia)). assert (round = cs_round s) by lia. subst round.
    destruct (enter_precommit_adv E height (cs_round s) s s' o Hh ltac:(lia) eq_refl ltac:(cbn in *; lia) Eq)
      as [(A1 & A2 & A3 & A4 & A5 & A6 & A7) | (A1 & A2 & A3)].
    + destruct P as (P0 & P1 & P2 & P3 & P4). unfold Pend. rewrite A2, A3, A4, A6, A7.
      split; [exact P0|]. do 3 (split; [intro X; discriminate X|]). replace height with (cs_height s) by lia. exact P4.
    + (* a panic: the state is the old one, halted *)
      destruct A2 as [_ Es].
      subst s'. eapply pend_tquiet; [|exact P]. unfold TQuiet. cs. repeat split; auto.
Qed.

Lemma enter_precommit_wait_pend height round s s' o :
  cs_halted s = false -> round_ok height round s -> Pend s ->
  enter_precommit_wait height round s = (s', o) -> Pend s'.
Proof.
  intros Hh Hr P Eq. unfold enter_precommit_wait in Eq.
  destruct (negb (cs_height s =? height) || (round <? cs_round s) || ((cs_round s =? round) && cs_triggered s)) eqn:G.
  - injection Eq as <- <-. exact P.
  - bool_to_prop. specialize (Hr ltac:(lia)). assert (round = cs_round s) by lia. subst round.
    destruct (negb (o_has_any (precommits (cs_votes s) (cs_round s)))); [eapply panic_pend; eassumption|].
    rewrite seq_schedule in Eq by exact Hh. unfold modify in Eq. injection Eq as <- <-.
    destruct P as (P0 & P1 & P2 & P3 & P4). unfold Pend. cs.
    split; [exact P0|]. split; [intro HH; destruct (P1 HH) as [Ha Hb]; split; [exact Ha | right; exact Hb]|].
    split; [intro HH; right; exact (P2 HH)|]. split; [intro HH; right; exact (P3 HH)|].
    intros _. left. unfold tmo. congruence.
Qed.

Lemma update_to_next_height_pend s s' o :
  Pend s -> update_to_next_height E s = (s', o) -> Pend s'.
Proof.
  intros P Eq. unfold update_to_next_height in Eq.
  destruct (negb (o_has_maj23 (precommits (cs_votes s) (cs_commit_round s)))); [eapply panic_pend; eassumption|].
  rewrite seq_modify in Eq by reflexivity. unfold schedule in Eq. injection Eq as <- <-.
  unfold Pend. cs. cbn. split; [lia|]. split; [intros _; split; [reflexivity | left; reflexivity]|].
  do 2 (split; [intro X; discriminate X|]). intro X; discriminate X.
Qed.

Lemma finalize_commit_pend height s s' o :
  cs_halted s = false -> Pend s -> finalize_commit E height s = (s', o) -> Pend s'.
Proof.
  intros Hh P Eq. unfold finalize_commit in Eq.
  destruct (negb (cs_height s =? height) || negb (step_eqb (cs_step s) SCommit)); [injection Eq as <- <-; exact P|].
  destruct (o_maj23 (precommits (cs_votes s) (cs_commit_round s))) as [[[h ph]|]|]; try (eapply panic_pend; eassumption).
  destruct (negb (has_header (cs_pparts s) ph)); [eapply panic_pend; eassumption|].
  destruct (negb (hashes_to (cs_pblock s) h)); [eapply panic_pend; eassumption|].
  destruct (cs_pblock s) as [pb|]; [|eapply panic_pend; eassumption].
  destruct (negb (b_valid pb)); [eapply panic_pend; eassumption|].
  destruct (negb (match cs_pparts s with Some p => pt_complete p | None => false end)); [eapply panic_pend; eassumption|].
  unfold seq, emit in Eq. rewrite Hh in Eq.
  destruct (update_to_next_height E s) as [s2 o2] eqn:Eu. injection Eq as <- <-.
  eapply update_to_next_height_pend; eassumption.
Qed.

Lemma try_finalize_commit_pend height s s' o :
  cs_halted s = false -> Pend s -> try_finalize_commit E height s = (s', o) -> Pend s'.
Proof.
  intros Hh P Eq. unfold try_finalize_commit in Eq.
  destruct (negb (cs_height s =? height)); [eapply panic_pend; eassumption|].
  destruct (o_maj23 (precommits (cs_votes s) (cs_commit_round s))) as [[[h ph]|]|];
    try (injection Eq as <- <-; exact P).
  destruct (hashes_to (cs_pblock s) h); [|injection Eq as <- <-; exact P].
  eapply finalize_commit_pend; eassumption.
Qed.

Lemma enter_commit_pend height cr s s' o :
  cs_halted s = false -> Pend s -> enter_commit E height cr s = (s', o) -> Pend s'.
Proof.
  intros Hh P Eq. unfold enter_commit in Eq.
  destruct (negb (cs_height s =? height) || step_le SCommit (cs_step s)) eqn:G; [injection Eq as <- <-; exact P|].
  destruct (o_maj23 (precommits (cs_votes s) cr)) as [polka|]; [|eapply panic_pend; eassumption].
  match type of Eq with try_finalize_commit E height ?x = _ => set (s3 := x) in * end.
  assert (Q : cs_halted s3 = false /\ cs_height s3 = cs_height s /\ cs_round s3 = cs_round s /\ cs_step s3 = SCommit /\
              cs_triggered s3 = cs_triggered s /\ cs_scheduled s3 = cs_scheduled s).
  { subst s3. repeat match goal with |- context [if ?c then _ else _] => destruct c end; cs; repeat split; auto. }
  destruct Q as (Q1 & Q2 & Q3 & Q4 & Q5 & Q6).
  assert (P3' : Pend s3).
  { destruct P as (P0 & P1 & P2 & P3 & P4). unfold Pend. rewrite Q2, Q3, Q4, Q5, Q6.
    split; [exact P0|]. do 3 (split; [intro X; discriminate X|]). exact P4. }
  eapply try_finalize_commit_pend; eassumption.
Qed.

Lemma handle_complete_proposal_pend height s s' o :
  cs_halted s = false -> Pend s -> handle_complete_proposal E height s = (s', o) -> Pend s'.
Proof.
  intros Hh P Eq. unfold handle_complete_proposal in Eq.
  match type of Eq with context [is_proposal_complete ?x] => set (s1 := x) in * end.
  assert (Q : TQuiet s s1 /\ cs_halted s1 = false).
  { subst s1. destruct (o_maj23 (prevotes (cs_votes s) (cs_round s))) as [[[hh pp]|]|];
      [destruct ((cs_vround s <? cs_round s) && hashes_to (cs_pblock s) hh)| |]; unfold TQuiet; cs; repeat split; auto. }
  destruct Q as [Q Hh1]. pose proof (pend_tquiet _ _ Q P) as P1.
  destruct (step_le (cs_step s1) SPropose && is_proposal_complete s1).
  - eapply (seq_pend _ _ s1 s' o (fun x => cs_height x = cs_height s1 /\ cs_round s1 <= cs_round x) Eq).
    + intros s2 o2 E2.
      destruct (enter_prevote_good E height (cs_round s1) s1 s2 o2 Hh1 ltac:(intro; lia) E2) as [(_ & G2 & G3) _].
      split; [exact (enter_prevote_pend height (cs_round s1) s1 s2 o2 Hh1 ltac:(intro; lia) P1 E2) | auto].
    + intros s2 s3 o3 Hh2 P2 [Q1 Q2] E3.
      destruct (o_maj23 (prevotes (cs_votes s) (cs_round s))); [|injection E3 as <- <-; exact P2].
      refine (enter_precommit_pend height (cs_round s2) s2 s3 o3 Hh2 _ P2 E3). intro; lia.
  - destruct (step_eqb (cs_step s1) SCommit).
    + eapply try_finalize_commit_pend; eassumption.
    + injection Eq as <- <-. exact P1.
Qed.

Lemma set_proposal_pend p s s' o : Pend s -> set_proposal E p s = (s', o) -> Pend s'.
Proof.
  intros P Eq. unfold set_proposal in Eq.
  assert (Q : TQuiet s s').
  { repeat match type of Eq with
           | context [if ?c then _ else _] => destruct c
           | context [match ?x with _ => _ end] => destruct x
           end; injection Eq as <- <-; unfold TQuiet; cs; repeat split; auto. }
  eapply pend_tquiet; eassumption.
Qed.

Lemma add_part_pend height ph idx d s s' o :
  cs_halted s = false -> Pend s -> add_part E height ph idx d s = (s', o) -> Pend s'.
Proof.
  intros Hh P Eq. unfold add_part in Eq.
  destruct (negb (cs_height s =? height)); [injection Eq as <- <-; exact P|].
  destruct (cs_pparts s) as [pp|]; [|injection Eq as <- <-; exact P].
  destruct (negb (psh_eqb (pt_header pp) ph)); [injection Eq as <- <-; exact P|].
  destruct ((fst ph <=? idx)%N); [injection Eq as <- <-; exact P|].
  destruct (existsb (N.eqb idx) (pt_have pp)); [injection Eq as <- <-; exact P|].
  match type of Eq with context [pt_complete ?x] => set (pp' := x) in * end.
  assert (Qp : forall bb, TQuiet s (set_prop (cs_proposal s) bb (Some pp') s)) by (intro; unfold TQuiet; cs; repeat split; auto).
  destruct (pt_complete pp').
  - destruct d as [b|]; (eapply handle_complete_proposal_pend; [| eapply pend_tquiet; [apply Qp | exact P] | exact Eq]; cs; exact Hh).
  - injection Eq as <- <-. eapply pend_tquiet; [apply Qp | exact P].
Qed.

Lemma polka_update_tquiet vr s : TQuiet s (polka_update vr s) /\ cs_halted (polka_update vr s) = cs_halted s.
Proof.
  unfold polka_update.
  destruct (o_maj23 (prevotes (cs_votes s) vr)) as [[[hh pp]|]|]; [| |split; [apply tquiet_refl | reflexivity]].
  - destruct (cs_lblock s);
      repeat match goal with |- context [if ?c then _ else _] => destruct c end; unfold TQuiet; cs; repeat split; auto.
  - destruct (cs_lblock s);
      repeat match goal with |- context [if ?c then _ else _] => destruct c end; unfold TQuiet; cs; repeat split; auto.
Qed.

Lemma add_vote_pend v peer s s' o :
  cs_halted s = false -> Pend s -> add_vote E v peer s = (s', o) -> Pend s'.
Proof.
  intros Hh P Eq. unfold add_vote in Eq.
  destruct ((v_height v + 1 =? cs_height s) && (v_type v =? PRECOMMIT)%N).
  { destruct (negb (step_eqb (cs_step s) SNewHeight)); [injection Eq as <- <-; exact P|].
    destruct (cs_last_commit s) as [lc|]; [|eapply panic_pend; eassumption].
    destruct (vs_add lc v) as [[lc' added] e].
    set (s1 := set_last_commit (Some lc') s) in *.
    assert (Q : TQuiet s s1) by (subst s1; unfold TQuiet; cs; repeat split; auto).
    assert (Hh1 : cs_halted s1 = false) by (subst s1; cs; exact Hh).
    pose proof (pend_tquiet _ _ Q P) as P1.
    destruct (negb added); [injection Eq as <- <-; exact P1|].
    destruct (e_skip_timeout_commit E && has_all lc').
    - destruct (enter_new_round E (cs_height s1) 0 s1) as [s2 o2] eqn:E2. injection Eq as <- <-.
      eapply enter_new_round_pend; eassumption.
    - injection Eq as <- <-. exact P1. }
  destruct (negb (v_height v =? cs_height s)); [injection Eq as <- <-; exact P|].
  destruct (hv_add_vote (cs_votes s) v peer) as [[hv' added] e].
  set (s1 := set_votes hv' s) in *.
  assert (Q1 : TQuiet s s1) by (subst s1; unfold TQuiet; cs; repeat split; auto).
  assert (Hh1 : cs_halted s1 = false) by (subst s1; cs; exact Hh).
  pose proof (pend_tquiet _ _ Q1 P) as P1.
  destruct (negb added); [injection Eq as <- <-; exact P1|].
  match type of Eq with (let '(s9, o9) := ?body in _) = _ => destruct body as [s9 o9] eqn:Eb end.
  injection Eq as <- <-.
  destruct ((v_type v =? PREVOTE)%N).
  - set (s2 := polka_update (v_round v) s1) in *.
    destruct (polka_update_tquiet (v_round v) s1) as [Q2 H2]. fold s2 in Q2, H2.
    assert (Hh2 : cs_halted s2 = false) by (rewrite H2; exact Hh1).
    pose proof (pend_tquiet _ _ Q2 P1) as P2.
    destruct ((cs_round s2 <? v_round v) && o_has_any (prevotes (cs_votes s2) (v_round v))).
    { eapply enter_new_round_pend; eassumption. }
    destruct ((cs_round s2 =? v_round v) && step_le SPrevote (cs_step s2)) eqn:Cur.
    { bool_to_prop.
      assert (Rk : round_ok (cs_height s) (v_round v) s2) by (intro; lia).
      destruct (o_maj23 (prevotes (cs_votes s2) (v_round v))) as [polka|].
      - destruct (is_proposal_complete s2 || match polka with None => true | Some _ => false end).
        + eapply enter_precommit_pend; eassumption.
        + destruct (o_has_any (prevotes (cs_votes s2) (v_round v))); [|injection Eb as <- <-; exact P2].
          eapply enter_prevote_wait_pend; eassumption.
      - destruct (o_has_any (prevotes (cs_votes s2) (v_round v))); [|injection Eb as <- <-; exact P2].
        eapply enter_prevote_wait_pend; eassumption. }
    destruct (cs_proposal s2) as [p|]; [|injection Eb as <- <-; exact P2].
    destruct ((0 <=? pr_polr p) && (pr_polr p =? v_round v) && is_proposal_complete s2); [|injection Eb as <- <-; exact P2].
    refine (enter_prevote_pend _ _ _ _ _ Hh2 _ P2 Eb). intro; lia.
  - destruct (o_maj23 (precommits (cs_votes s1) (v_round v))) as [polka|].
    + eapply (seq_pend _ _ s1 s9 o9 (round_ok (cs_height s) (v_round v)) Eb).
      * intros sa oa Ea. destruct (enter_new_round_good E _ _ _ _ _ Hh1 Ea) as (G & _ & R).
        split; [eapply enter_new_round_pend; eassumption | intros _; exact R].
      * intros sa sb ob Hha Pa Ra Eb2.
        eapply (seq_pend _ _ sa sb ob (round_ok (cs_height s) (v_round v)) Eb2).
        -- intros sc oc Ec. pose proof (enter_precommit_good E _ _ _ _ _ Hha Ra Ec) as G.
           split; [eapply enter_precommit_pend; eassumption | intros _; eapply round_ok_rgood; eassumption].
        -- intros sc sd od Hhc Pc Rc Ed. destruct polka as [bb|].
           ++ eapply (seq_pend _ _ sc sd od (fun _ => True) Ed).
              ** intros se oe Ee. split; [eapply enter_commit_pend; eassumption | auto].
              ** intros se sf of Hhe Pe _ Ef.
                 destruct (e_skip_timeout_commit E && o_has_all (precommits (cs_votes s1) (v_round v)));
                   [|injection Ef as <- <-; exact Pe].
                 eapply enter_new_round_pend; eassumption.
           ++ eapply enter_precommit_wait_pend; eassumption.
    + destruct ((cs_round s1 <=? v_round v) && o_has_any (precommits (cs_votes s1) (v_round v))); [|injection Eb as <- <-; exact P1].
      eapply (seq_pend _ _ s1 s9 o9 (round_ok (cs_height s) (v_round v)) Eb).
      * intros sa oa Ea. destruct (enter_new_round_good E _ _ _ _ _ Hh1 Ea) as (G & _ & R).
        split; [eapply enter_new_round_pend; eassumption | intros _; exact R].
      * intros sa sb ob Hha Pa Ra Eb2. eapply enter_precommit_wait_pend; eassumption.
Qed.

Lemma handle_timeout_pend ti s s' o :
  cs_halted s = false -> SchedInv s -> Pend s -> handle_timeout E ti s = (s', o) -> Pend s'.
Proof.
  intros Hh SI P Eq. unfold handle_timeout in Eq.
  destruct (negb (existsb (tinfo_eqb ti) (cs_scheduled s))) eqn:Ex; [injection Eq as <- <-; exact P|].
  destruct (negb (ti_height ti =? cs_height s) || (ti_round ti <? cs_round s)
            || ((ti_round ti =? cs_round s) && (step_rank (ti_step ti) <? step_rank (cs_step s)))) eqn:G;
    [injection Eq as <- <-; exact P|].
  bool_to_prop.
  assert (Rk : round_ok (ti_height ti) (ti_round ti) s).
  { apply existsb_exists in Ex. destruct Ex as (tj & Hin & Et). unfold tinfo_eqb in Et. bool_to_prop.
    specialize (SI tj Hin). intro. lia. }
  destruct (ti_step ti).
  - eapply enter_new_round_pend; eassumption.
  - eapply enter_propose_pend; [exact Hh | exact P | | exact Eq].
    intros Hs Hlt. destruct P as (P0 & _). lia.
  - eapply enter_prevote_pend; eassumption.
  - eapply panic_pend; eassumption.
  - eapply enter_precommit_pend; eassumption.
  - eapply panic_pend; eassumption.
  - eapply (seq_pend _ _ s s' o (fun _ => True) Eq).
    + intros s1 o1 E1. split; [eapply enter_precommit_pend; eassumption | auto].
    + intros s1 s2 o2 Hh1 P1 _ E2. eapply enter_new_round_pend; eassumption.
  - eapply panic_pend; eassumption.
Qed.

Lemma handle_pend i s s' o : SchedInv s -> Pend s -> handle E s i = (s', o) -> Pend s'.
Proof.
  intros SI P Eq. unfold handle in Eq.
  destruct (cs_halted s) eqn:Hh; [injection Eq as <- <-; exact P|].
  destruct i.
  - eapply set_proposal_pend; eassumption.
  - eapply add_part_pend; eassumption.
  - eapply add_vote_pend; eassumption.
  - eapply handle_timeout_pend; eassumption.
  - destruct (height =? cs_height s); injection Eq as <- <-; [|exact P].
    eapply pend_tquiet; [|exact P]. unfold TQuiet. cs. repeat split; auto.
Qed.

Lemma run_pend : forall ins s s' os,
  SchedInv s -> Pend s -> run E s ins = (s', os) -> Pend s' /\ SchedInv s'.
Proof.
  induction ins as [|i ins IH]; intros s s' os SI P Eq; cbn [run] in Eq.
  - injection Eq as <- <-. auto.
  - destruct (handle E s i) as [s1 o1] eqn:E1. destruct (run E s1 ins) as [s2 os2] eqn:E2.
    injection Eq as <- <-.
    apply (IH s1 s2 os2); [apply (handle_good E i s s1 o1 SI E1); exact SI | eapply handle_pend; eassumption | exact E2].
Qed.

Lemma init_pend height lc : Pend (init_state E height lc).
Proof.
  unfold Pend, init_state. cbn. split; [lia|]. split; [intros _; split; [reflexivity | left; reflexivity]|].
  do 2 (split; [intro X; discriminate X|]). intro X; discriminate X.
Qed.

(* every reachable state holds the timeouts its step waits for *)
Theorem pending_timeouts height lc ins :
  Pend (fst (run E (init_state E height lc) ins)).
Proof.
  destruct (run E (init_state E height lc) ins) as [s' os] eqn:Er. cbn [fst].
  exact (proj1 (run_pend ins _ _ _ (init_sched E height lc) (init_pend height lc) Er)).
Qed.

(* ... and handling it moves the machine strictly forward (or stops it on one of
   enterPrecommit's two consensus-failure panics) *)
Theorem reachable_never_stuck height lc ins :
  let s := fst (run E (init_state E height lc) ins) in
  cs_halted s = false ->
  (cs_step s = SNewHeight \/ cs_step s = SPropose \/ cs_step s = SPrevoteWait \/
   (cs_triggered s = true /\ cs_step s <> SCommit)) ->
  exists ti, live_timeout s ti /\
    forall s' o, handle E s (ITimeout ti) = (s', o) ->
      lt3 (pos s) (pos s') \/ (cs_halted s' = true /\ exists o1, precommit_failure (cs_round s) s o1).
Proof.
  intros s Hh Hst. pose proof (pending_timeouts height lc ins) as P. fold s in P.
  destruct P as (P0 & P1 & P2 & P3 & P4).
  assert (Ex : exists ti, live_timeout s ti).
  { destruct Hst as [H|[H|[H|[H1 H2]]]].
    - destruct (P1 H) as [R0 Hin]. exists (tmo (cs_height s) 0 SNewHeight).
      unfold live_timeout. cbn. repeat split; auto.
    - exists (tmo (cs_height s) (cs_round s) SPropose). unfold live_timeout. cbn. rewrite H. repeat split; auto. cbn. lia.
    - exists (tmo (cs_height s) (cs_round s) SPrevoteWait). unfold live_timeout. cbn. rewrite H. repeat split; auto. cbn. lia.
    - exists (tmo (cs_height s) (cs_round s) SPrecommitWait). unfold live_timeout. cbn. repeat split; auto.
      destruct (cs_step s); cbn; try lia. congruence. }
  destruct Ex as (ti & L). exists ti. split; [exact L|].
  intros s' o Eq. exact (timeouts_never_stuck E s ti s' o Hh L Eq).
Qed.

End WithEnv.
