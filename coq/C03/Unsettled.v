(* C03 — finding F70 (repaired): the regression witness.  BEFORE the repair the hypothesis "the
   unlock rule has been applied" of C03_sync_round_decides_on_model could not be dropped:
   REFUTATION of the statement without it, on the model of the unrepaired defaultDoPrevote
   (Model.do_prevote_unfixed); the repaired step (Model.do_prevote) prevotes the proposal.

   Sync.v applies the unlock rule with every polka a node knows.  consensus/state.go applies it
   only at two moments: in addVote when a prevote is ADDED for a round vr with
   LockedRound < vr <= cs.Round ("NOTE: If vote.Round > cs.Round, we'll deal with it when we get
   to vote.Round"), and in enterPrecommit of the node's own round.  A node that learns the polka
   of round vr while it is still in an earlier round jumps to vr (+2/3-any), and if +2/3-any of
   a later round arrives before it prevotes in vr it jumps on, past every point where the
   polka of vr would be looked at again.  It then is in a round >= vr, holds the polka of vr
   for block Y among its prevotes, and is still locked on X from a round < vr: defaultDoPrevote
   makes it prevote X on every proposal, also on the proposal (Y, POLRound = vr) that Sync.v's
   good round needs it to prevote.  The witness below is a run of the model from the initial
   state (13 inputs), found by reading addVote; every step is replayed on the real
   consensus.State (see the report / fixes/F70). *)
From Coq Require Import List ZArith NArith Bool Lia.
From TM Require Import C02.Model C03.Round C03.SyncNet C03.UnfixedF83.
From TM Require C03.Sync C03.SyncWeak.
Import ListNotations.
Open Scope Z_scope.

Definition w_vals : valset := [(11%N, 10); (12%N, 10); (13%N, 10); (14%N, 10)].
(* validator 0 is the machine; proposers: round 1 -> validator 2, every other round -> validator 1 *)
Definition w_env : env :=
  {| e_vals := w_vals; e_me := Some 0; e_proposer := fun _ r => if r =? 1 then 2 else 1;
     e_skip_timeout_commit := false; e_initial_height := 1 |}.
Definition w_vote (ty : N) (r : Z) (x : blockid) (i : Z) : input :=
  IVote {| v_type := ty; v_height := 1; v_round := r; v_bid := x; v_idx := i;
           v_addr := N.of_nat (11 + Z.to_nat i); v_sig := (Z.to_N i * 100 + Z.to_N r * 10 + ty)%N; v_ok := true |} 9%N.
Definition w_X : blockid := Some (5%N, (1%N, 50%N)).
Definition w_Y : blockid := Some (7%N, (1%N, 70%N)).

(* the asynchronous prefix *)
Definition w_prefix : list input :=
  [ ITimeout {| ti_height := 1; ti_round := 0; ti_step := SNewHeight |};
    (* round 0: proposal X, polka for X: the machine locks X and precommits it *)
    IProposal {| pr_height := 1; pr_round := 0; pr_polr := -1; pr_bid := (5%N, (1%N, 50%N)); pr_signer := 1; pr_sigvalid := true |};
    IPart 1 (1%N, 50%N) 0%N (Some {| b_hash := 5%N; b_valid := true |});
    w_vote PREVOTE 0 w_X 0; w_vote PREVOTE 0 w_X 1; w_vote PREVOTE 0 w_X 3;
    w_vote PRECOMMIT 0 w_X 0;
    (* still in round 0: the prevotes of round 1 for Y (polka; the machine jumps to round 1) *)
    w_vote PREVOTE 1 w_Y 1; w_vote PREVOTE 1 w_Y 2; w_vote PREVOTE 1 w_Y 3;
    (* at once: +2/3-any prevotes of round 2 (no polka; the machine jumps to round 2) *)
    w_vote PREVOTE 2 w_Y 1; w_vote PREVOTE 2 w_Y 2; w_vote PREVOTE 2 None 3 ].

Definition w_state : cstate := fst (run w_env (init_state w_env 1 None) w_prefix).

(* the good proposal of round 2: block Y with POL round 1 *)
Definition w_p : proposal :=
  {| pr_height := 1; pr_round := 2; pr_polr := 1; pr_bid := (7%N, (1%N, 70%N)); pr_signer := 1; pr_sigvalid := true |}.
Definition w_b : block := {| b_hash := 7%N; b_valid := true |}.
Definition w_pol : list Sync.polka := [(0, Some 5%N); (1, Some 7%N)].

Theorem sync_without_settled_refuted :
  exists (E : env) (ins : list input) (pol : list Sync.polka) (p : proposal) (b : block),
    let s := fst (run E (init_state E 1 None) ins) in
    let n := abs 10 s in
    (* the machine is reachable, not halted, in round 2 at step Propose, the proposal is acceptable *)
    cs_halted s = false /\ (cs_height s, cs_round s, cs_step s) = (1, 2, SPropose) /\
    cs_proposal s = None /\ cs_pparts s = None /\ good_proposal E s p b /\
    (* it holds every polka of pol among its prevotes, and Sync.v's invariant holds *)
    (forall rr v, In (rr, Some v) pol -> exists ph, o_maj23 (prevotes (cs_votes s) rr) = Some (Some (v, ph))) /\
    Sync.Inv pol [n] /\
    (* Sync.v: the unlock rule releases the lock, the block of the latest polka is proposed,
       the node prevotes it *)
    Sync.n_lock (Sync.unlock pol n) = None /\
    Sync.is_latest pol (1, Some (b_hash b)) /\
    Sync.prevote_of (b_hash b) (Sync.unlock pol n) = b_hash b /\
    (* the code model: still locked; the UNREPAIRED prevote step prevotes the locked block ... *)
    Sync.n_lock n = Some (0, 5%N) /\
    snd (do_prevote_unfixed E (set_prop (Some p) (Some b) (Some (one_part (snd (pr_bid p)))) s)) =
      [OSignVote PREVOTE 1 2 (Some (5%N, (1%N, 50%N)))] /\
    (* ... the repaired one (the model of record) unlocks and prevotes the proposal *)
    concat (snd (run E s [IProposal p; IPart 1 (snd (pr_bid p)) 0%N (Some b)])) =
      [OSignVote PREVOTE 1 2 (Some (7%N, (1%N, 70%N)))].
Proof.
  exists w_env, w_prefix, w_pol, w_p, w_b. cbv zeta.
  split; [vm_compute; reflexivity|]. split; [vm_compute; reflexivity|].
  split; [vm_compute; reflexivity|]. split; [vm_compute; reflexivity|].
  split; [unfold good_proposal; vm_compute; repeat split; try discriminate; right; reflexivity|].
  split.
  { intros rr v [H|[H|[]]]; injection H as <- <-; eexists; vm_compute; reflexivity. }
  split.
  { assert (En : abs 10 (fst (run w_env (init_state w_env 1 None) w_prefix)) =
                 {| Sync.n_power := 10; Sync.n_lock := Some (0, 5%N); Sync.n_valid := Some (0, 5%N) |})
      by (vm_compute; reflexivity).
    rewrite En. constructor.
    - intros n lr lv [<-|[]] H. injection H as <- <-. left. reflexivity.
    - intros n vr vv [<-|[]] H. injection H as <- <-. left. reflexivity.
    - intros n lr lv [<-|[]] H. injection H as <- <-. exists 0, 5%N. split; [reflexivity | lia].
    - intros rr x y [H1|[H1|[]]] [H2|[H2|[]]]; congruence. }
  split; [vm_compute; reflexivity|].
  split.
  { split; [right; left; reflexivity|]. intros q [<-|[<-|[]]]; cbn; lia. }
  split; [vm_compute; reflexivity|]. split; [vm_compute; reflexivity|]. split; vm_compute; reflexivity.
Qed.

(* With the repaired step the same machine, in the synchronous round 2 (proposal Y with POL
   round 1 from the correct proposer, the prevotes of the two other correct validators for Y, its
   own votes as it signs them, the faulty validator silent): it prevotes Y, locks Y on the polka,
   precommits Y and decides when the two other precommits arrive. *)
Definition w_round2_fixed : list input :=
  [ IProposal w_p; IPart 1 (1%N, 70%N) 0%N (Some w_b);
    w_vote PREVOTE 2 w_Y 0;                              (* its own prevote; C's and D's are already in *)
    w_vote PRECOMMIT 2 w_Y 0; w_vote PRECOMMIT 2 w_Y 1; w_vote PRECOMMIT 2 w_Y 2 ].

Definition w_signed_votes (os : list (list output)) : list (N * Z * Z * blockid) :=
  flat_map (fun o => match o with OSignVote ty hh rr x => [(ty, hh, rr, x)] | _ => [] end) (concat os).

Example w_round2_decides_when_repaired :
  let '(s', os) := run w_env w_state w_round2_fixed in
  w_signed_votes os = [(PREVOTE, 1, 2, w_Y); (PRECOMMIT, 1, 2, w_Y)] /\
  existsb (fun o => match o with ODecide 1 2 7%N => true | _ => false end) (concat os) = true /\
  (cs_halted s', cs_height s') = (false, 2).
Proof. vm_compute. repeat split. Qed.

(* ---------------------------------------------------------------- lock round above valid round

   (BEFORE the repair of F83; the statement is about run_u83, the unrepaired re-lock.)
   Sync.Inv's clause inv_lock_valid (valid round >= lock round) was NOT an invariant of the code:
   the machine locked on X in round 0 (valid block X, valid round 0) learns the polka for X of
   round 1 without holding round 1's proposal; enterPrecommit re-locks X with LockedRound = 1,
   the valid round stays 0.  The weaker clause of SyncWeak.Inv' (or: valid block = locked block)
   holds. *)
Definition w_prefix2 : list input :=
  firstn 7 w_prefix ++
  [ w_vote PREVOTE 1 w_X 1; w_vote PREVOTE 1 w_X 2; w_vote PREVOTE 1 w_X 3;
    ITimeout {| ti_height := 1; ti_round := 1; ti_step := SPropose |};
    w_vote PREVOTE 1 w_X 0;
    ITimeout {| ti_height := 1; ti_round := 1; ti_step := SPrevoteWait |} ].

Theorem lock_above_valid_reachable :
  exists (E : env) (ins : list input),
    let s := fst (run_u83 E (init_state E 1 None) ins) in
    let n := abs 10 s in
    let pol : list Sync.polka := [(0, Some 5%N); (1, Some 5%N)] in
    cs_halted s = false /\
    (forall rr v, In (rr, Some v) pol -> exists ph, o_maj23 (prevotes (cs_votes s) rr) = Some (Some (v, ph))) /\
    Sync.n_lock n = Some (1, 5%N) /\ Sync.n_valid n = Some (0, 5%N) /\
    ~ Sync.Inv pol [n] /\ SyncWeak.Inv' pol [n].
Proof.
  exists w_env, w_prefix2. cbv zeta.
  assert (En : abs 10 (fst (run_u83 w_env (init_state w_env 1 None) w_prefix2)) =
               {| Sync.n_power := 10; Sync.n_lock := Some (1, 5%N); Sync.n_valid := Some (0, 5%N) |})
    by (vm_compute; reflexivity).
  rewrite En.
  split; [vm_compute; reflexivity|].
  split.
  { intros rr v [H|[H|[]]]; injection H as <- <-; eexists; vm_compute; reflexivity. }
  split; [reflexivity|]. split; [reflexivity|]. split.
  - intros [_ _ C _]. destruct (C _ 1 5%N (or_introl eq_refl) eq_refl) as (vr & vv & Ev & Hle).
    cbn in Ev. injection Ev as <- <-. lia.
  - constructor.
    + intros n lr lv [<-|[]] H. injection H as <- <-. right. left. reflexivity.
    + intros n vr vv [<-|[]] H. injection H as <- <-. left. reflexivity.
    + intros n lr lv [<-|[]] H. injection H as <- <-. exists 0, 5%N. split; [reflexivity | right; reflexivity].
    + intros rr x y [H1|[H1|[]]] [H2|[H2|[]]]; congruence.
Qed.


(* since the repair of F83 (the re-lock also moves the valid block) the same run ends with valid
   round 1 on the model of record: the witness above is stated on the unrepaired re-lock (run_u83) *)
Example lock_above_valid_repaired :
  abs 10 (fst (run w_env (init_state w_env 1 None) w_prefix2)) =
  {| Sync.n_power := 10; Sync.n_lock := Some (1, 5%N); Sync.n_valid := Some (1, 5%N) |}.
Proof. vm_compute. reflexivity. Qed.
