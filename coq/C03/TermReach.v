(* C03 — Sync.v's invariant for the abstraction of REACHABLE machines (F70 and F83 repaired):
   clauses "lock backed", "valid block backed" (Backed.v) and "locked => valid round not below the
   lock round" (LockValidInv.v) are consequences of reachability of each single machine; what
   remains an assumption about the configuration is
     - pol contains the polkas the machines hold (it is the set of known polkas), and
     - one polka per round in pol ACROSS machines (quorum intersection under 3 * faulty < total:
       C01, not a single-machine fact).
   With these, the value-level termination statement and the preservation of the invariant by
   synchronous rounds start from reachable machines. *)
From Coq Require Import List ZArith NArith Bool Lia.
From TM Require Import C02.Model C03.Round C03.SyncNet C03.SyncNetF C03.Backed C03.LockValidInv.
From TM Require Import C03.Sync C03.SyncWeak C03.TermValue.
Import ListNotations.
Open Scope Z_scope.

Definition reachable_machine (h : Z) (m : machine) : Prop :=
  exists lc ins, m_state m = fst (run (m_env m) (init_state (m_env m) h lc) ins).

Definition knows_held (pol : list polka) (ms : list machine) : Prop :=
  forall m rr v ph, In m ms ->
    o_maj23 (prevotes (cs_votes (m_state m)) rr) = Some (Some (v, ph)) -> In (rr, Some v) pol.

Definition one_per_round (pol : list polka) : Prop :=
  forall r x y, In (r, x) pol -> In (r, y) pol -> x = y.

Theorem reachable_Inv vals h ms pol :
  (forall m, In m ms -> reachable_machine h m) -> knows_held pol ms -> one_per_round pol ->
  Inv pol (nodes vals ms).
Proof.
  intros Hre Hk H1.
  assert (Src : forall n, In n (nodes vals ms) -> exists m, In m ms /\ n = abs (power_of vals (m_idx m)) (m_state m)).
  { intros n Hn. unfold nodes in Hn. apply in_map_iff in Hn as (m & <- & Hm). eauto. }
  constructor.
  - intros n lr lv Hn Hl. destruct (Src n Hn) as (m & Hm & ->). destruct (Hre m Hm) as (lc & ins & Es).
    pose proof (reachable_abs_backed (m_env m) h lc ins (power_of vals (m_idx m)) pol) as R. cbv zeta in R.
    rewrite <- Es in R. refine (proj1 (R _) lr lv Hl). intros rr v ph. apply Hk. exact Hm.
  - intros n vr vv Hn Hv. destruct (Src n Hn) as (m & Hm & ->). destruct (Hre m Hm) as (lc & ins & Es).
    pose proof (reachable_abs_backed (m_env m) h lc ins (power_of vals (m_idx m)) pol) as R. cbv zeta in R.
    rewrite <- Es in R. refine (proj2 (R _) vr vv Hv). intros rr v ph. apply Hk. exact Hm.
  - intros n lr lv Hn Hl. destruct (Src n Hn) as (m & Hm & ->). destruct (Hre m Hm) as (lc & ins & Es).
    pose proof (reachable_lock_is_valid (m_env m) h lc ins) as R. cbv zeta in R. rewrite <- Es in R.
    destruct R as (_ & _ & R). unfold abs in Hl |- *. cbn [n_lock n_valid] in *.
    destruct (cs_lblock (m_state m)) as [lb|] eqn:El; [|discriminate]. injection Hl as <- <-.
    destruct (R lb eq_refl) as (vb & Ev & Hle & _). rewrite Ev. exists (cs_vround (m_state m)), (b_hash vb). auto.
  - exact H1.
Qed.

Corollary reachable_Inv' vals h ms pol :
  (forall m, In m ms -> reachable_machine h m) -> knows_held pol ms -> one_per_round pol ->
  Inv' pol (nodes vals ms).
Proof. intros. apply Inv_weaken. eapply reachable_Inv; eassumption. Qed.

Theorem sync_step_preserves_Inv'_reachable vals h ms pol r c' :
  (forall m, In m ms -> reachable_machine h m) -> knows_held pol ms -> one_per_round pol ->
  sync_step r (pol, nodes vals ms) c' -> Inv' (fst c') (snd c').
Proof.
  intros Hre Hk H1 S. apply (sync_step_preserves_Inv' r (pol, nodes vals ms) c'); [|exact S].
  cbn [fst snd]. eapply reachable_Inv'; eassumption.
Qed.

Theorem termination_value_level_reachable vals h ms pol r0 k c' proposer fresh total faulty_power :
  (forall m, In m ms -> reachable_machine h m) -> knows_held pol ms -> one_per_round pol ->
  sync_reach r0 k (pol, nodes vals ms) c' -> In proposer (snd c') ->
  total = Sync.total_power (snd c') + faulty_power -> 0 <= faulty_power -> 3 * faulty_power < total ->
  ((forall n, In n (map (unlock (fst c')) (snd c')) -> n_lock n = None) \/
   (exists lr lv, n_lock (unlock (fst c') proposer) = Some (lr, lv))) ->
  (exists star, is_latest (fst c') star) ->
  let prop := proposal_of fresh (unlock (fst c') proposer) in
  (forall n, In n (map (unlock (fst c')) (snd c')) -> prevote_of prop n = prop) /\
  3 * power_for prop (map (fun n => (n, prevote_of prop n)) (map (unlock (fst c')) (snd c'))) > 2 * total.
Proof.
  intros Hre Hk H1 R. apply (termination_value_level r0 k (pol, nodes vals ms) c'); [|exact R].
  cbn [fst snd]. eapply reachable_Inv'; eassumption.
Qed.

(* non-vacuity: the network of TermSim.fw_net *)
From TM Require Import C03.Unsettled C03.TermLV C03.TermSim.

Lemma lookup_round_in r : forall l x, lookup_round r l = Some x -> In (r, x) l.
Proof.
  induction l as [|[r' y] l IH]; intros x H; cbn in H; [discriminate|].
  destruct (r =? r') eqn:Er.
  - apply Z.eqb_eq in Er. subst r'. injection H as <-. left. reflexivity.
  - right. apply IH. exact H.
Qed.

(* the polkas a vote bookkeeping holds are all for (round 0, block 5): decidable *)
Definition only_polka_0_5 (hv : hvs) : bool :=
  forallb (fun e => match vs_maj23 (fst (snd e)) with
                    | Some (Some (v, _)) => (fst e =? 0) && (v =? 5)%N
                    | _ => true
                    end) (hv_sets hv).

Lemma only_polka_sound hv rr v ph :
  only_polka_0_5 hv = true -> o_maj23 (prevotes hv rr) = Some (Some (v, ph)) -> rr = 0 /\ v = 5%N.
Proof.
  intros Hb H. unfold prevotes, hv_get in H.
  destruct (lookup_round rr (hv_sets hv)) as [[pv pc]|] eqn:L; [|discriminate].
  change ((PREVOTE =? PREVOTE)%N) with true in H. cbn [o_maj23] in H.
  unfold only_polka_0_5 in Hb. rewrite forallb_forall in Hb.
  specialize (Hb _ (lookup_round_in _ _ _ L)). cbn [fst snd] in Hb. rewrite H in Hb.
  apply andb_true_iff in Hb as [A B]. apply Z.eqb_eq in A. apply N.eqb_eq in B. auto.
Qed.

Lemma fw_reachable :
  let ms := map fst fw_net in
  (forall m, In m ms -> reachable_machine 1 m) /\ knows_held [(0, Some 5%N)] ms /\ one_per_round [(0, Some 5%N)] /\
  nodes w_vals ms = fw_nodes.
Proof.
  cbv zeta. split; [|split; [|split]].
  - intros m [<-|[<-|[<-|[]]]]; exists None.
    + exists fw_prefix_A. vm_compute. reflexivity.
    + exists fw_prefix_B. vm_compute. reflexivity.
    + exists fw_prefix_C. vm_compute. reflexivity.
  - intros m rr v ph Hm H.
    assert (Hb : only_polka_0_5 (cs_votes (m_state m)) = true)
      by (destruct Hm as [<-|[<-|[<-|[]]]]; vm_compute; reflexivity).
    destruct (only_polka_sound _ rr v ph Hb H) as [-> ->]. left. reflexivity.
  - intros r x y [H1|[]] [H2|[]]. congruence.
  - vm_compute. reflexivity.
Qed.
