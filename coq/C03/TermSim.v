(* C03 — synchronous rounds IN SEQUENCE on the code model (C02/Model.v), closed loop, including the
   NON-deciding outcome: an executable definition ([sync_round]) and what it computes on concrete
   networks (the general theorems about deciding rounds are SyncNet.v / SyncNetF.v; the value-level
   argument over all configurations is TermValue.v).

   One synchronous round r of a list of correct validators' machines that have all entered round r:
     1. the proposal the round's proposer signed when it entered the round (OSignProposal among
        ITS outputs; a re-proposed valid block keeps its identity, a new block gets [fresh_hash r])
        and its single part are handled by every machine; then the propose timeout fires
        (a machine that already prevoted ignores it; one that found the proposal incomplete, or got
        none because the proposer is not a correct machine of the list, prevotes now);
     2. the prevotes ALL machines signed are handled by every machine; then the prevote-wait
        timeout fires (ignored by a machine that already precommitted);
     3. the precommits ALL machines signed are handled by every machine; then the precommit-wait
        timeout fires: a machine that did not decide enters round r+1 (and signs its proposal if
        it is the proposer of r+1).
   Faulty validators are silent.  Timeouts that the ticker does not hold are ignored by
   handleTimeout, so the schedule never forces a step the code would not take. *)
From Coq Require Import List ZArith NArith Bool Lia.
From TM Require Import C02.Model C03.Round C03.SyncModel C03.SyncNet C03.Unsettled C03.UnfixedF83 C03.TermLV.
From TM Require C03.Sync.
Import ListNotations.
Open Scope Z_scope.

Definition fresh_hash (r : Z) : N := (100 + Z.to_N r)%N.
Definition ph_of (hb : N) : psh := (1%N, (hb * 10)%N).

Definition find_proposal (h r : Z) (o : list output) : option (Z * option N) :=
  match flat_map (fun x => match x with
                           | OSignProposal h' r' polr reuse => if (h' =? h) && (r' =? r) then [(polr, reuse)] else []
                           | _ => []
                           end) o with
  | x :: _ => Some x
  | [] => None
  end.

(* a machine together with the outputs of its last step *)
Definition mo := (machine * list output)%type.

(* [runf]: the state machine's run function - Model.run (the model of record), or run_u83 (the
   re-lock of enterPrecommit before the repair of F83) for the regression witness *)
Definition runfun := env -> cstate -> list input -> cstate * list (list output).

Definition step_all (runf : runfun) (ins : machine -> list input) (ms : list machine) : list mo :=
  map (fun m => let '(s', os) := runf (m_env m) (m_state m) (ins m) in
                ({| m_idx := m_idx m; m_env := m_env m; m_state := s' |}, concat os)) ms.

Section Sim.
Variable runf : runfun.
Variable vals : valset.
Variable sig : nat -> N -> N.
Variable peer : nat -> N.
Variable h : Z.

Definition tmo_in (r : Z) (st : step) : input := ITimeout {| ti_height := h; ti_round := r; ti_step := st |}.

Definition votes_of (ty : N) (l : list mo) : list input :=
  map d_input (flat_map (fun x => map (mk_delivery vals sig peer (m_idx (fst x)) ty) (signed ty (snd x))) l).

(* the proposal of round r, from the outputs with which the machines entered the round *)
Definition round_proposal (r : Z) (ent : list mo) : option (proposal * block) :=
  match flat_map (fun x => if Z.of_nat (m_idx (fst x)) =? e_proposer (m_env (fst x)) h r
                           then match find_proposal h r (snd x) with Some y => [(m_idx (fst x), y)] | None => [] end
                           else []) ent with
  | (i, (polr, reuse)) :: _ =>
    let hb := match reuse with Some x => x | None => fresh_hash r end in
    Some ({| pr_height := h; pr_round := r; pr_polr := polr; pr_bid := (hb, ph_of hb);
             pr_signer := Z.of_nat i; pr_sigvalid := true |},
          {| b_hash := hb; b_valid := true |})
  | [] => None
  end.

Definition phase1_inputs (r : Z) (ent : list mo) : list input :=
  match round_proposal r ent with
  | Some (p, b) => [IProposal p; IPart h (snd (pr_bid p)) 0%N (Some b); tmo_in r SPropose]
  | None => [tmo_in r SPropose]
  end.

(* result: the machines with the outputs of phase 3 (with which they entered round r+1), and
   per machine everything it output during the round *)
Definition sync_round (r : Z) (ent : list mo) : list mo * list (list output) :=
  let l1 := step_all runf (fun _ => phase1_inputs r ent) (map fst ent) in
  let l2 := step_all runf (fun _ => votes_of PREVOTE l1 ++ [tmo_in r SPrevoteWait]) (map fst l1) in
  let pcs := votes_of PRECOMMIT l1 ++ votes_of PRECOMMIT l2 in
  let l3 := step_all runf (fun _ => pcs ++ [tmo_in r SPrecommitWait]) (map fst l2) in
  (l3, map (fun x => snd (fst (fst x)) ++ snd (snd (fst x)) ++ snd (snd x)) (combine (combine l1 l2) l3)).

(* n rounds r, r+1, ...; the outputs of every round *)
Fixpoint sync_rounds (n : nat) (r : Z) (ent : list mo) : list mo * list (list (list output)) :=
  match n with
  | O => (ent, [])
  | S n' => let '(l, o) := sync_round r ent in
            let '(l', os) := sync_rounds n' (r + 1) l in (l', o :: os)
  end.

End Sim.

Definition decides (o : output) : bool := match o with ODecide _ _ _ => true | _ => false end.
Definition any_decision (os : list (list (list output))) : bool :=
  existsb (fun rd => existsb (fun o => existsb decides o) rd) os.
Definition all_decide_in (rd : list (list output)) : bool := forallb (fun o => existsb decides o) rd.

Definition view (x : mo) :=
  (m_idx (fst x), cs_height (m_state (fst x)), cs_round (m_state (fst x)), cs_step (m_state (fst x)),
   (cs_lround (m_state (fst x)), option_map b_hash (cs_lblock (m_state (fst x)))),
   (cs_vround (m_state (fst x)), option_map b_hash (cs_vblock (m_state (fst x))))).

Definition sim_sig (i : nat) (ty : N) : N := (N.of_nat i * 10 + ty)%N.
Definition sim_peer (i : nat) : N := N.of_nat (100 + i).

(* ================================================================== the livelock (finding F83, REPAIRED: on the
   unrepaired re-lock, run_u83; the model of record decides - lv_fixed_decides below)

   A = the machine of TermLV.v (locked X = 5 since round 6, valid block Y = 7 of round 2), at
   round 7 as its proposer.  B and C: correct machines, reachable from the initial state, that
   are in round 7 too, not locked, without valid block: they were carried to round 6 by the
   +2/3-any precommits of that round (A: X, the other correct one: nil, D: nil), precommitted nil
   at the precommit-wait timeout and entered round 7.  D (faulty) is silent.  Proposers rotate
   A, B, C, D, A, ...  Every message signed is delivered to everybody in every round. *)
Definition lv_other (i j : Z) : list input :=
  [ lv_tmo 0 SNewHeight;
    w_vote PRECOMMIT 6 w_X 0; w_vote PRECOMMIT 6 None j; w_vote PRECOMMIT 6 None 3;
    lv_tmo 6 SPrecommitWait;
    w_vote PRECOMMIT 6 None i ].

Definition lv_mo_gen (runf : runfun) (i : nat) (ins : list input) : mo :=
  let E := lv_env (Z.of_nat i) in
  let '(s, os) := runf E (init_state E 1 None) ins in
  ({| m_idx := i; m_env := E; m_state := s |}, concat os).

Definition lv_net_gen (runf : runfun) : list mo :=
  [lv_mo_gen runf 0 (lv_prefix); lv_mo_gen runf 1 (lv_other 1 2); lv_mo_gen runf 2 (lv_other 2 1)].
(* the network on the UNREPAIRED state machine (regression witness), and on the model of record *)
Definition lv_net : list mo := lv_net_gen run_u83.
Definition lv_net_fixed : list mo := lv_net_gen run.

Example lv_net_entry :
  map view lv_net =
  [ (0%nat, 1, 7, SPropose, (6, Some 5%N), (2, Some 7%N));
    (1%nat, 1, 7, SPropose, (-1, None), (-1, None));
    (2%nat, 1, 7, SPropose, (-1, None), (-1, None)) ].
Proof. vm_compute. reflexivity. Qed.

(* 16 synchronous rounds (7 .. 22: four full turns of the proposer rotation; A proposes in rounds
   7, 11, 15, 19, B in 8, 12, 16, 20, C in 9, 13, 17, 21): NO machine decides; A stays locked on
   X with valid block Y, B and C stay unlocked; everybody is in round 23 *)
Example lv_livelock_16_rounds :
  any_decision (snd (sync_rounds run_u83 w_vals sim_sig sim_peer 1 16 7 lv_net)) = false /\
  map view (fst (sync_rounds run_u83 w_vals sim_sig sim_peer 1 16 7 lv_net)) =
  [ (0%nat, 1, 23, SPropose, (6, Some 5%N), (2, Some 7%N));
    (1%nat, 1, 23, SPropose, (-1, None), (-1, None));
    (2%nat, 1, 23, SPropose, (-1, None), (-1, None)) ].
Proof. vm_compute. split; reflexivity. Qed.

(* what is signed in the rounds: in A's rounds A proposes Y (POL round 2) and prevotes X (B and C prevote Y), in B's
   and C's rounds they propose a new block which they prevote and A prevotes X; all precommit nil *)
Definition signed_votes (o : list output) : list (N * Z * option N) :=
  flat_map (fun x => match x with
                     | OSignVote ty _ r b => [(ty, r, option_map fst b)]
                     | _ => []
                     end) o.

Example lv_livelock_first_turn :
  let '(_, os) := sync_rounds run_u83 w_vals sim_sig sim_peer 1 4 7 lv_net in
  map (map signed_votes) os =
  [ (* round 7, proposer A: (Y, POL round 2): B and C do not hold the polka of round 2, the proposal
       stays incomplete; at the propose timeout they prevote the block they hold, Y *)
    [ [(PREVOTE, 7, Some 5%N); (PRECOMMIT, 7, None)]; [(PREVOTE, 7, Some 7%N); (PRECOMMIT, 7, None)]; [(PREVOTE, 7, Some 7%N); (PRECOMMIT, 7, None)] ];
    (* round 8, proposer B: new block 108 *)
    [ [(PREVOTE, 8, Some 5%N); (PRECOMMIT, 8, None)]; [(PREVOTE, 8, Some 108%N); (PRECOMMIT, 8, None)]; [(PREVOTE, 8, Some 108%N); (PRECOMMIT, 8, None)] ];
    (* round 9, proposer C: new block 109 *)
    [ [(PREVOTE, 9, Some 5%N); (PRECOMMIT, 9, None)]; [(PREVOTE, 9, Some 109%N); (PRECOMMIT, 9, None)]; [(PREVOTE, 9, Some 109%N); (PRECOMMIT, 9, None)] ];
    (* round 10, proposer D: silent *)
    [ [(PREVOTE, 10, Some 5%N); (PRECOMMIT, 10, None)]; [(PREVOTE, 10, None); (PRECOMMIT, 10, None)]; [(PREVOTE, 10, None); (PRECOMMIT, 10, None)] ] ].
Proof. vm_compute. reflexivity. Qed.

(* the model of record (F83 repaired): the same three input lists, the same closed loop.  A enters
   round 7 locked on X with valid block X of round 6 and proposes (X, POL round 6); B and C do
   not hold that polka, at the propose timeout they prevote the block they hold, X: polka,
   everybody locks and precommits X, EVERY machine decides X in round 7. *)
Example lv_fixed_decides :
  map view lv_net_fixed =
  [ (0%nat, 1, 7, SPropose, (6, Some 5%N), (6, Some 5%N));
    (1%nat, 1, 7, SPropose, (-1, None), (-1, None));
    (2%nat, 1, 7, SPropose, (-1, None), (-1, None)) ] /\
  map all_decide_in (snd (sync_rounds run w_vals sim_sig sim_peer 1 1 7 lv_net_fixed)) = [true] /\
  forallb (fun o => existsb (fun x => match x with ODecide 1 7 5%N => true | _ => false end) o)
          (nth 0 (snd (sync_rounds run w_vals sim_sig sim_peer 1 1 7 lv_net_fixed)) []) = true.
Proof. vm_compute. repeat split. Qed.

(* ================================================================== rounds in sequence that END in a decision,
   and: the FIRST correct proposer's round may be wasted.

   Proposers by round: D, B, C, A, D, B, ...  Round 0 (asynchronous prefix, each machine's run from
   the initial state): the faulty D proposes X = 5 to A and B; A sees the polka (A, B, D) and locks
   X; B prevotes X, C nil, both precommit nil without having seen a polka; all enter round 1.
   Then synchronous rounds, D silent:
     round 1, proposer B (unlocked, no valid block): new block 101 - A prevotes X, B and C 101: no polka;
     round 2, proposer C: new block 102 - the same;
     round 3, proposer A (locked): re-proposes X with POL round 0 - B and C do not hold that polka, the
       proposal stays incomplete for them, at the propose timeout they prevote the block they hold,
       X: polka, everybody locks and precommits X, everybody decides. *)
Definition fw_env (i : Z) : env :=
  {| e_vals := w_vals; e_me := Some i; e_proposer := fun _ r => nth (Z.to_nat (r mod 4)) [3; 1; 2; 0] 0;
     e_skip_timeout_commit := false; e_initial_height := 1 |}.
Definition fw_propX : input :=
  IProposal {| pr_height := 1; pr_round := 0; pr_polr := -1; pr_bid := (5%N, (1%N, 50%N)); pr_signer := 3; pr_sigvalid := true |}.
Definition fw_prefix_A : list input :=
  [ lv_tmo 0 SNewHeight; fw_propX; IPart 1 (1%N, 50%N) 0%N (Some lv_bX);
    w_vote PREVOTE 0 w_X 0; w_vote PREVOTE 0 w_X 1; w_vote PREVOTE 0 w_X 3;
    w_vote PRECOMMIT 0 w_X 0; w_vote PRECOMMIT 0 None 1; w_vote PRECOMMIT 0 None 2;
    lv_tmo 0 SPrecommitWait ].
Definition fw_prefix_B : list input :=
  [ lv_tmo 0 SNewHeight; fw_propX; IPart 1 (1%N, 50%N) 0%N (Some lv_bX);
    w_vote PREVOTE 0 w_X 1; w_vote PREVOTE 0 w_X 0; w_vote PREVOTE 0 None 2;
    lv_tmo 0 SPrevoteWait;
    w_vote PRECOMMIT 0 None 1; w_vote PRECOMMIT 0 w_X 0; w_vote PRECOMMIT 0 None 2;
    lv_tmo 0 SPrecommitWait ].
Definition fw_prefix_C : list input :=
  [ lv_tmo 0 SNewHeight; lv_tmo 0 SPropose;
    w_vote PREVOTE 0 None 2; w_vote PREVOTE 0 w_X 0; w_vote PREVOTE 0 w_X 1;
    lv_tmo 0 SPrevoteWait;
    w_vote PRECOMMIT 0 None 2; w_vote PRECOMMIT 0 w_X 0; w_vote PRECOMMIT 0 None 1;
    lv_tmo 0 SPrecommitWait ].

Definition fw_mo (i : nat) (ins : list input) : mo :=
  let E := fw_env (Z.of_nat i) in
  let '(s, os) := run E (init_state E 1 None) ins in
  ({| m_idx := i; m_env := E; m_state := s |}, concat os).
Definition fw_net : list mo := [fw_mo 0 fw_prefix_A; fw_mo 1 fw_prefix_B; fw_mo 2 fw_prefix_C].

Example fw_net_entry :
  map view fw_net =
  [ (0%nat, 1, 1, SPropose, (0, Some 5%N), (0, Some 5%N));
    (1%nat, 1, 1, SPropose, (-1, None), (-1, None));
    (2%nat, 1, 1, SPropose, (-1, None), (-1, None)) ].
Proof. vm_compute. reflexivity. Qed.

Example fw_first_correct_proposer_wastes_third_decides :
  let os := snd (sync_rounds run w_vals sim_sig sim_peer 1 3 1 fw_net) in
  let l := fst (sync_rounds run w_vals sim_sig sim_peer 1 3 1 fw_net) in
  map all_decide_in os = [false; false; true] /\
  map (fun rd => existsb (fun o => existsb decides o) rd) os = [false; false; true] /\
  map (map signed_votes) (firstn 2 os) =
    [ [ [(PREVOTE, 1, Some 5%N); (PRECOMMIT, 1, None)]; [(PREVOTE, 1, Some 101%N); (PRECOMMIT, 1, None)]; [(PREVOTE, 1, Some 101%N); (PRECOMMIT, 1, None)] ];
      [ [(PREVOTE, 2, Some 5%N); (PRECOMMIT, 2, None)]; [(PREVOTE, 2, Some 102%N); (PRECOMMIT, 2, None)]; [(PREVOTE, 2, Some 102%N); (PRECOMMIT, 2, None)] ] ] /\
  map (fun x => cs_height (m_state (fst x))) l = [2; 2; 2] /\
  forallb (fun o => existsb (fun x => match x with ODecide 1 3 5%N => true | _ => false end) o) (nth 2 os []) = true.
Proof. vm_compute. repeat split. Qed.
