(* C03 — a synchronous round on the CODE MODEL (C02/Model.v), one validator's machine at a time:
   phase 1  the proposal and its part arrive                  => the machine prevotes (Round.v (a));
   phase 2  the prevotes of the correct validators arrive     => at the vote that completes +2/3 the
            (in any order, each validator once)                  machine locks the block and precommits it;
   phase 3  the precommits of the correct validators arrive   => at the vote that completes +2/3 the
                                                                 machine decides (ODecide).
   The vote sets of the round may already hold votes of other (faulty) validators; what is
   required of them is [open_for] (C03/Tally.v).  No further faulty votes are interleaved. *)
From Coq Require Import List ZArith NArith Bool Lia.
From TM Require Import C02.Model C02.Setters C02.ProofsVoteSet C02.ProofsHVS C02.ProofsOrder C02.ProofsLock.
From TM Require Import C03.Commit C03.Round C03.Tally.
Import ListNotations.
Open Scope Z_scope.

Ltac cs := autorewrite with cs in *.

(* a vote handed to the machine: who signed it (index, power), the message, the peer it came from *)
Record delivery := { d_idx : nat; d_power : Z; d_vote : vote; d_peer : N }.
Definition d_input (d : delivery) : input := IVote (d_vote d) (d_peer d).
Definition powers_of (ds : list delivery) : Z := fold_right (fun d acc => d_power d + acc) 0 ds.

(* what a machine signed, by vote type: (height, round, block id) in signing order *)
Definition signed (ty : N) (o : list output) : list (Z * Z * blockid) :=
  flat_map (fun x => match x with
                     | OSignVote ty' hh rr x => if (ty' =? ty)%N then [(hh, rr, x)] else []
                     | _ => []
                     end) o.
Lemma signed_app ty a b : signed ty (a ++ b) = signed ty a ++ signed ty b.
Proof. apply flat_map_app. Qed.

Definition errs (e : verr) : list output := match e with E_none => [] | _ => [OVoteErr e] end.
Lemma signed_errs ty e o : signed ty (errs e ++ o) = signed ty o.
Proof. rewrite signed_app. destruct e; reflexivity. Qed.

Section Phases.
Variable E : env.
Variables h r : Z.
Variable p : proposal.
Variable b : block.
Variable hb : N.
Variable ph : psh.
Hypothesis Hbid : pr_bid p = (hb, ph).
Hypothesis Hhash : b_hash b = hb.
Hypothesis Hvalid : b_valid b = true.
Hypothesis Hone : fst ph = 1%N.
Hypothesis Hme : is_validator E = true.

Definition Bid : blockid := Some (hb, ph).

(* a verifiable vote of type ty for the proposed block at (h, r) by validator d_idx *)
Definition vote_from (vals : valset) (ty : N) (d : delivery) : Prop :=
  let v := d_vote d in
  v_idx v = Z.of_nat (d_idx d) /\ v_bid v = Bid /\ v_ok v = true /\
  v_height v = h /\ v_round v = r /\ v_type v = ty /\
  v_addr v <> 0%N /\ nth_error vals (d_idx d) = Some (v_addr v, d_power d) /\ 0 <= d_power d.

Definition vs_frame (ty : N) (vs : voteset) : Prop :=
  vs_height vs = h /\ vs_round vs = r /\ vs_type vs = ty.

Lemma vote_from_good vals ty vs d :
  vs_frame ty vs -> vs_vals vs = vals -> vote_from vals ty d -> good_vote vs Bid (d_idx d) (d_power d) (d_vote d).
Proof.
  intros (F1 & F2 & F3) Fv (G1 & G2 & G3 & G4 & G5 & G6 & G7 & G8 & _).
  unfold good_vote. rewrite F1, F2, F3, Fv. repeat split; assumption.
Qed.

Definition holds_proposal (s : cstate) : Prop :=
  cs_halted s = false /\ cs_height s = h /\ cs_round s = r /\
  cs_proposal s = Some p /\ cs_pblock s = Some b /\ cs_pparts s = Some (one_part ph).

(* unlocked, or locked on the proposed block since an earlier round *)
Definition lock_ok (s : cstate) : Prop :=
  cs_lblock s = None \/ (cs_lblock s = Some b /\ cs_lparts s = Some (one_part ph) /\ cs_lround s < r).
Definition locked_now (s : cstate) : Prop :=
  cs_lblock s = Some b /\ cs_lparts s = Some (one_part ph).

Definition pol_known (s : cstate) : Prop :=
  pr_polr p < 0 \/ (pr_polr p < r /\ o_has_maj23 (prevotes (cs_votes s) (pr_polr p)) = true).

(* phase 2: between the own prevote and the end of the prevote deliveries *)
Definition P2 (rem : list nat) (pv pc : voteset) (s : cstate) : Prop :=
  holds_proposal s /\
  lookup_round r (hv_sets (cs_votes s)) = Some (pv, pc) /\ 0 <= r <= hv_round (cs_votes s) /\
  pol_known s /\
  open_for Bid rem pv /\ vs_frame PREVOTE pv /\
  (vs_maj23 pv = None -> (cs_step s = SPrevote \/ cs_step s = SPrevoteWait) /\ lock_ok s) /\
  (vs_maj23 pv = Some Bid -> cs_step s = SPrecommit /\ locked_now s).

Definition same_core (s s' : cstate) : Prop :=
  cs_halted s' = cs_halted s /\ cs_height s' = cs_height s /\ cs_round s' = cs_round s /\
  cs_proposal s' = cs_proposal s /\ cs_pblock s' = cs_pblock s /\ cs_pparts s' = cs_pparts s /\
  cs_lround s' = cs_lround s /\ cs_lblock s' = cs_lblock s /\ cs_lparts s' = cs_lparts s /\
  cs_votes s' = cs_votes s.

(* ---------------------------------------------------------------- addVote, prevote branch *)

Definition prevote_tail (v : vote) (s2 : cstate) : cstate * list output :=
  let height := cs_height s2 in
  let pv2 := prevotes (cs_votes s2) (v_round v) in
  if (cs_round s2 <? v_round v) && o_has_any pv2 then enter_new_round E height (v_round v) s2
  else if (cs_round s2 =? v_round v) && step_le SPrevote (cs_step s2) then
    match o_maj23 pv2 with
    | Some polka =>
      if is_proposal_complete s2 || match polka with None => true | Some _ => false end
      then enter_precommit E height (v_round v) s2
      else if o_has_any pv2 then enter_prevote_wait height (v_round v) s2 else (s2, [])
    | None => if o_has_any pv2 then enter_prevote_wait height (v_round v) s2 else (s2, [])
    end
  else match cs_proposal s2 with
       | Some p => if (0 <=? pr_polr p) && (pr_polr p =? v_round v) && is_proposal_complete s2
                   then enter_prevote E height (cs_round s2) s2 else (s2, [])
       | None => (s2, [])
       end.

Lemma polka_update_height vr s : cs_height (polka_update vr s) = cs_height s.
Proof.
  unfold polka_update. destruct (o_maj23 (prevotes (cs_votes s) vr)) as [[[hh pp]|]|]; [| |reflexivity].
  - repeat match goal with |- context [if ?c then _ else _] => destruct c end;
      destruct (cs_lblock s); repeat match goal with |- context [if ?c then _ else _] => destruct c end; cs; reflexivity.
  - destruct (cs_lblock s); repeat match goal with |- context [if ?c then _ else _] => destruct c end; cs; reflexivity.
Qed.

Lemma add_prevote_eq s v peer hv' e :
  cs_halted s = false -> cs_height s = v_height v -> v_type v = PREVOTE ->
  hv_add_vote (cs_votes s) v peer = (hv', true, e) ->
  handle E s (IVote v peer) =
  (let '(s9, o9) := prevote_tail v (polka_update (v_round v) (set_votes hv' s)) in (s9, errs e ++ o9)).
Proof.
  intros Hh H1 Ty Ea. unfold handle. rewrite Hh. unfold add_vote.
  replace (v_height v + 1 =? cs_height s) with false by (symmetry; apply Z.eqb_neq; lia).
  cbn [andb]. rewrite <- H1, Z.eqb_refl. cbn [negb]. rewrite Ea. cbn [negb].
  rewrite Ty. change (PREVOTE =? PREVOTE)%N with true. cbv iota.
  unfold prevote_tail. rewrite polka_update_height. cs. reflexivity.
Qed.

(* a vote that VoteSet.AddVote does not add changes nothing but the vote bookkeeping *)
Lemma add_vote_skip s v peer hv' e :
  cs_halted s = false -> cs_height s = v_height v ->
  hv_add_vote (cs_votes s) v peer = (hv', false, e) ->
  handle E s (IVote v peer) = (set_votes hv' s, errs e).
Proof.
  intros Hh H1 Ea. unfold handle. rewrite Hh. unfold add_vote.
  replace (v_height v + 1 =? cs_height s) with false by (symmetry; apply Z.eqb_neq; lia).
  cbn [andb]. rewrite <- H1, Z.eqb_refl. cbn [negb]. rewrite Ea. reflexivity.
Qed.

Lemma add_prevote_hv s v peer pv pc pv' added e :
  lookup_round r (hv_sets (cs_votes s)) = Some (pv, pc) ->
  v_round v = r -> v_type v = PREVOTE ->
  vs_add pv v = (pv', added, e) ->
  hv_add_vote (cs_votes s) v peer = (hv_put (cs_votes s) r PREVOTE pv', added, e).
Proof.
  intros L Hr Ty Ea. rewrite (hv_add_vote_existing _ _ _ pv pc) by (try rewrite Hr; auto).
  rewrite Ty. change (PREVOTE =? PREVOTE)%N with true. cbv iota. rewrite Ea, Hr. reflexivity.
Qed.

Lemma has_header_one : has_header (Some (one_part ph)) ph = true.
Proof. cbn. apply psh_eqb_refl'. Qed.

Lemma enter_prevote_wait_res s :
  cs_halted s = false -> cs_height s = h -> cs_round s = r ->
  (cs_step s = SPrevote \/ cs_step s = SPrevoteWait) ->
  o_has_any (prevotes (cs_votes s) r) = true ->
  exists s' o, enter_prevote_wait h r s = (s', o) /\ signed PRECOMMIT o = [] /\ same_core s s' /\
               (cs_step s' = SPrevote \/ cs_step s' = SPrevoteWait).
Proof.
  intros Hh H1 H2 Hst Ha. unfold enter_prevote_wait, step_le.
  rewrite H1, H2, !Z.eqb_refl, Z.ltb_irrefl. cbn [negb orb andb].
  destruct Hst as [Hst|Hst]; rewrite Hst; cbn [step_rank Z.leb Z.compare].
  - rewrite Ha. cbn [negb]. rewrite seq_schedule by exact Hh. unfold modify.
    eexists _, _. split; [reflexivity|]. split; [reflexivity|]. unfold same_core. cs. repeat split; auto.
  - exists s, []. split; [reflexivity|]. split; [reflexivity|]. unfold same_core. repeat split; auto.
Qed.

Lemma P2_transfer rem pv pc s s' :
  P2 rem pv pc s -> same_core s s' ->
  (cs_step s' = cs_step s \/ (vs_maj23 pv = None /\ (cs_step s' = SPrevote \/ cs_step s' = SPrevoteWait))) ->
  P2 rem pv pc s'.
Proof.
  intros ((A1 & A2 & A3 & A4 & A5 & A6) & L & Hr & Pk & Op & Fr & Mn & Ms)
         (C1 & C2 & C3 & C4 & C5 & C6 & C7 & C8 & C9 & C10) Hst.
  split; [unfold holds_proposal; repeat split; congruence|].
  split; [congruence|]. split; [rewrite C10; exact Hr|].
  split; [unfold pol_known in *; rewrite C10; exact Pk|].
  split; [exact Op|]. split; [exact Fr|]. split.
  - intro Hn. destruct (Mn Hn) as [S1 S2]. split.
    + destruct Hst as [-> | [_ Hst]]; assumption.
    + unfold lock_ok in *. rewrite C7, C8, C9. exact S2.
  - intro Hsm. destruct (Ms Hsm) as [S1 S2]. split.
    + destruct Hst as [-> | [Hn _]]; [exact S1 | congruence].
    + unfold locked_now in *. rewrite C8, C9. exact S2.
Qed.

Lemma P2_intro rem pv' pc s' hv' :
  cs_halted s' = false -> cs_height s' = h -> cs_round s' = r -> cs_proposal s' = Some p ->
  cs_pblock s' = Some b -> cs_pparts s' = Some (one_part ph) -> cs_votes s' = hv' ->
  lookup_round r (hv_sets hv') = Some (pv', pc) -> 0 <= r <= hv_round hv' ->
  (pr_polr p < 0 \/ (pr_polr p < r /\ o_has_maj23 (prevotes hv' (pr_polr p)) = true)) ->
  open_for Bid rem pv' -> vs_frame PREVOTE pv' ->
  (vs_maj23 pv' = None -> (cs_step s' = SPrevote \/ cs_step s' = SPrevoteWait) /\ lock_ok s') ->
  (vs_maj23 pv' = Some Bid -> cs_step s' = SPrecommit /\ locked_now s') ->
  P2 rem pv' pc s'.
Proof.
  intros. subst hv'. unfold P2, holds_proposal, pol_known.
  split; [repeat split; assumption|]. do 5 (split; [assumption|]). split; assumption.
Qed.

Lemma enter_precommit_noop s :
  cs_height s = h -> cs_round s = r -> 6 <= step_rank (cs_step s) -> enter_precommit E h r s = (s, []).
Proof.
  intros H1 H2 H3. unfold enter_precommit, step_le. rewrite H1, H2, !Z.eqb_refl, Z.ltb_irrefl.
  cbn [negb orb andb step_rank]. replace (6 <=? step_rank (cs_step s)) with true by (symmetry; apply Z.leb_le; exact H3).
  reflexivity.
Qed.

(* ---------------------------------------------------------------- phase 2, one prevote *)

(* a prevote for (h, r) — whoever signed it — that the round's vote set ADDS *)
Definition is_vote_at (ty : N) (v : vote) : Prop := v_height v = h /\ v_round v = r /\ v_type v = ty.

Definition p2_outcome (pv pv' : voteset) (o : list output) : Prop :=
  (vs_maj23 pv = None /\ vs_maj23 pv' = None /\ signed PRECOMMIT o = []) \/
  (vs_maj23 pv = None /\ vs_maj23 pv' = Some Bid /\ signed PRECOMMIT o = [(h, r, Bid)]) \/
  (vs_maj23 pv = Some Bid /\ vs_maj23 pv' = Some Bid /\ signed PRECOMMIT o = []).

Lemma P2_core rem rem' pv pv' pc s v peer e s' o :
  P2 rem pv pc s -> is_vote_at PREVOTE v ->
  vs_add pv v = (pv', true, e) -> open_for Bid rem' pv' -> same_frame pv pv' ->
  (forall m, vs_maj23 pv = Some m -> vs_maj23 pv' = Some m) ->
  handle E s (IVote v peer) = (s', o) ->
  P2 rem' pv' pc s' /\ p2_outcome pv pv' o.
Proof.
  intros ((A1 & A2 & A3 & A4 & A5 & A6) & L & Hr & Pk & Op & Fr & Mn & Ms) (G4 & G5 & G6) Ea Op' Sf Mono Eq.
  destruct Sf as (Sf1 & Sf2 & Sf3 & Sf4).
  assert (Fr' : vs_frame PREVOTE pv') by (destruct Fr as (F1 & F2 & F3); unfold vs_frame; repeat split; congruence).
  pose proof (add_prevote_hv s v peer pv pc pv' true e L G5 G6 Ea) as Ehv.
  set (hv' := hv_put (cs_votes s) r PREVOTE pv') in *.
  assert (L' : lookup_round r (hv_sets hv') = Some (pv', pc)).
  { subst hv'. rewrite (hv_put_lookup_same _ _ _ _ pv pc L). reflexivity. }
  assert (Hr' : 0 <= r <= hv_round hv') by (subst hv'; rewrite hv_put_round; exact Hr).
  assert (Pv' : prevotes hv' r = Some pv') by (eapply prevotes_lookup; exact L').
  assert (Pk' : pr_polr p < 0 \/ (pr_polr p < r /\ o_has_maj23 (prevotes hv' (pr_polr p)) = true)).
  { destruct Pk as [Pk|[Pk1 Pk2]]; [left; exact Pk|]. right. split; [exact Pk1|].
    subst hv'. rewrite prevotes_put_other by lia. exact Pk2. }
  assert (Cases : (vs_maj23 pv = Some Bid /\ vs_maj23 pv' = Some Bid) \/
                  (vs_maj23 pv = None /\ vs_maj23 pv' = Some Bid) \/
                  (vs_maj23 pv = None /\ vs_maj23 pv' = None)).
  { destruct (vs_maj23 pv) as [m|] eqn:Em.
    - assert (m = Bid) by (destruct Op as (_ & _ & _ & [D|D] & _); congruence). subst m.
      left. rewrite (Mono _ eq_refl). auto.
    - destruct Op' as (_ & _ & _ & [D|D] & _); rewrite D; auto. }
  unfold p2_outcome.
  destruct Cases as [[M M'] | [[M M'] | [M M']]].
  - (* the polka was already known: nothing happens *)
    destruct (Ms M) as [St [Lk1 Lk2]].
    rewrite (add_prevote_eq s v peer hv' e A1 ltac:(congruence) G6 Ehv) in Eq. rewrite G5 in Eq.
    set (s1 := set_votes hv' s) in *.
    assert (Hm1 : o_maj23 (prevotes (cs_votes s1) r) = Some (Some (hb, ph))) by (subst s1; cs; rewrite Pv'; exact M').
    destruct (polka_update_polka r s1 hb ph b Hm1 ltac:(subst s1; cs; auto) ltac:(subst s1; cs; auto) Hhash
                ltac:(left; subst s1; cs; rewrite Lk1; cbn; rewrite Hhash; apply N.eqb_refl)) as (F & Lk & PP).
    cbv zeta in F, Lk, PP. set (s2 := polka_update r s1) in *.
    destruct F as (F1 & F2 & F3 & F4 & F5 & F6 & F7 & F8 & F9 & F10 & F11).
    replace (hashes_to (cs_lblock s1) hb) with true in Lk
      by (subst s1; cs; rewrite Lk1; cbn; rewrite Hhash; symmetry; apply N.eqb_refl).
    destruct Lk as (K1 & K2 & K3).
    specialize (PP ltac:(subst s1; cs; rewrite A6; apply has_header_one)).
    subst s1. cs.
    assert (PC : is_proposal_complete s2 = true).
    { unfold is_proposal_complete. rewrite F5, F6, F7, A4. destruct (pr_polr p <? 0) eqn:Ep; [reflexivity|].
      apply Z.ltb_ge in Ep. destruct Pk' as [Q|[_ Q]]; [lia | exact Q]. }
    unfold prevote_tail in Eq. rewrite G5, F2, F3, F7, F4, Pv', St in Eq.
    rewrite Z.ltb_irrefl, Z.eqb_refl in Eq. cbn [andb step_le step_rank Z.leb Z.compare o_maj23] in Eq.
    rewrite M', PC in Eq. cbn [orb] in Eq. rewrite A2 in Eq.
    rewrite enter_precommit_noop in Eq by (try congruence; rewrite F4, St; cbn; lia).
    injection Eq as <- <-.
    split; [|right; right; rewrite signed_errs; auto].
    apply (P2_intro rem' pv' pc s2 hv'); auto; try congruence.
    intros _. split; [congruence|]. unfold locked_now. split; congruence.
  - (* this prevote completes the polka: lock and precommit *)
    destruct (Mn M) as [St Lk].
    destruct (progress_precommit_full E s v peer hv' e hb ph p b s' o) as
      (Ho & B1 & B2 & B3 & B4 & B5 & B6 & B7 & B8 & B9 & (K1 & K2) & PP); auto; try congruence.
    + rewrite G5, Pv'. exact M'.
    + destruct Pk' as [Q|[_ Q]]; auto.
    + destruct Lk as [Q|(_ & _ & Q)]; [left; exact Q | right; congruence].
    + specialize (PP ltac:(rewrite A6; apply has_header_one)).
      rewrite Hme in Ho. rewrite A2, A3 in Ho.
      split; [|right; left; split; [exact M | split; [exact M'|]]].
      2:{ rewrite Ho. change (match e with E_none => [] | _ => [OVoteErr e] end) with (errs e). rewrite signed_errs. reflexivity. }
      apply (P2_intro rem' pv' pc s' hv'); auto; try congruence.
      intros _. split; [exact B4|]. unfold locked_now.
        destruct Lk as [Q|(Q1 & Q2 & _)].
        * rewrite Q in K2. cbn [hashes_to] in K2. destruct K2 as [K2 K3]. split; congruence.
        * rewrite Q1 in K2. cbn [hashes_to] in K2. rewrite Hhash, N.eqb_refl in K2. destruct K2 as [K2 K3]. split; congruence.
  - (* still no polka: at most the prevote-wait timeout is scheduled *)
    destruct (Mn M) as [St Lk].
    rewrite (add_prevote_eq s v peer hv' e A1 ltac:(congruence) G6 Ehv) in Eq. rewrite G5 in Eq.
    set (s1 := set_votes hv' s) in *.
    assert (PU : polka_update r s1 = s1).
    { unfold polka_update. subst s1. cs. rewrite Pv'. cbn [o_maj23]. rewrite M'. reflexivity. }
    rewrite PU in Eq.
    assert (S1 : cs_halted s1 = false /\ cs_height s1 = h /\ cs_round s1 = r /\ cs_step s1 = cs_step s /\ cs_votes s1 = hv')
      by (subst s1; cs; auto).
    destruct S1 as (S1 & S2 & S3 & S4 & S5).
    assert (Base : P2 rem' pv' pc s1).
    { apply (P2_intro rem' pv' pc s1 hv'); subst s1; cs; auto; try congruence. }
    unfold prevote_tail in Eq. rewrite G5, S2, S3, S5, S4, Pv' in Eq.
    rewrite Z.ltb_irrefl, Z.eqb_refl in Eq. cbn [andb o_maj23] in Eq.
    replace (step_le SPrevote (cs_step s)) with true in Eq by (destruct St as [-> | ->]; reflexivity).
    rewrite M' in Eq.
    destruct (o_has_any (Some pv')) eqn:Any.
    + destruct (enter_prevote_wait_res s1 S1 S2 S3 ltac:(rewrite S4; exact St) ltac:(rewrite S5, Pv'; exact Any))
        as (sx & ox & Ex & Px & Cx & Stx).
      rewrite Ex in Eq. injection Eq as <- <-.
      split; [|left; rewrite signed_errs; auto].
      eapply P2_transfer; [exact Base | exact Cx | right; auto].
    + injection Eq as <- <-.
      split; [|left; rewrite signed_errs; auto]. exact Base.
Qed.

(* a prevote for (h, r) that the vote set does not add (duplicate, conflicting, invalid, ...) *)
Lemma P2_skip rem rem' pv pv' pc s v peer e s' o :
  P2 rem pv pc s -> is_vote_at PREVOTE v ->
  vs_add pv v = (pv', false, e) -> open_for Bid rem' pv' -> same_frame pv pv' ->
  vs_maj23 pv' = vs_maj23 pv ->
  handle E s (IVote v peer) = (s', o) ->
  P2 rem' pv' pc s' /\ p2_outcome pv pv' o.
Proof.
  intros ((A1 & A2 & A3 & A4 & A5 & A6) & L & Hr & Pk & Op & Fr & Mn & Ms) (G4 & G5 & G6) Ea Op' Sf Mj Eq.
  destruct Sf as (Sf1 & Sf2 & Sf3 & Sf4).
  assert (Fr' : vs_frame PREVOTE pv') by (destruct Fr as (F1 & F2 & F3); unfold vs_frame; repeat split; congruence).
  pose proof (add_prevote_hv s v peer pv pc pv' false e L G5 G6 Ea) as Ehv.
  set (hv' := hv_put (cs_votes s) r PREVOTE pv') in *.
  assert (L' : lookup_round r (hv_sets hv') = Some (pv', pc)).
  { subst hv'. rewrite (hv_put_lookup_same _ _ _ _ pv pc L). reflexivity. }
  assert (Hr' : 0 <= r <= hv_round hv') by (subst hv'; rewrite hv_put_round; exact Hr).
  assert (Pk' : pr_polr p < 0 \/ (pr_polr p < r /\ o_has_maj23 (prevotes hv' (pr_polr p)) = true)).
  { destruct Pk as [Pk|[Pk1 Pk2]]; [left; exact Pk|]. right. split; [exact Pk1|].
    subst hv'. rewrite prevotes_put_other by lia. exact Pk2. }
  rewrite (add_vote_skip s v peer hv' e A1 ltac:(congruence) Ehv) in Eq. injection Eq as <- <-.
  split.
  - apply (P2_intro rem' pv' pc (set_votes hv' s) hv'); cs; auto.
    + intro Hn. rewrite Mj in Hn. destruct (Mn Hn) as [St Lk]. split; [exact St|]. unfold lock_ok in *. cs. exact Lk.
    + intro Hs. rewrite Mj in Hs. destruct (Ms Hs) as [St Lk]. split; [exact St|]. unfold locked_now in *. cs. exact Lk.
  - unfold p2_outcome. rewrite Mj. assert (Es : signed PRECOMMIT (errs e) = []) by (destruct e; reflexivity).
    destruct Op as (_ & _ & _ & [D|D] & _); rewrite D; [left | right; right]; auto.
Qed.

Lemma P2_step rem pv pc s d s' o :
  P2 (d_idx d :: rem) pv pc s -> ~ In (d_idx d) rem -> vote_from (vs_vals pv) PREVOTE d ->
  handle E s (d_input d) = (s', o) ->
  exists pv', P2 rem pv' pc s' /\ tally Bid pv' = tally Bid pv + d_power d /\ same_frame pv pv' /\
    (vs_vals pv' = vs_vals pv /\ vs_add pv (d_vote d) = (pv', true, E_none)) /\ p2_outcome pv pv' o.
Proof.
  intros HP Hni Vf Eq.
  pose proof HP as (_ & _ & _ & _ & Op & Fr & _).
  pose proof Vf as (G1 & G2 & G3 & G4 & G5 & G6 & G7 & G8 & G9).
  destruct (vs_add_open Bid (d_idx d) rem pv (d_power d) (d_vote d) Op Hni
              (vote_from_good _ _ _ _ Fr eq_refl Vf)) as (pv' & Ea & Op' & Ta & Sf & Mono).
  exists pv'.
  destruct (P2_core (d_idx d :: rem) rem pv pv' pc s (d_vote d) (d_peer d) E_none s' o HP
              ltac:(unfold is_vote_at; auto) Ea Op' Sf Mono Eq) as [HP' Out].
  split; [exact HP'|]. split; [exact Ta|]. split; [exact Sf|]. split; [split; [apply Sf | exact Ea]|]. exact Out.
Qed.

(* ---------------------------------------------------------------- phase 2, all prevotes *)

Lemma pcs_precommit : signed PRECOMMIT [OSignVote PRECOMMIT h r Bid] = [(h, r, Bid)].
Proof. reflexivity. Qed.

Lemma p2_outcome_trans pv pv1 pv2 o1 o2 :
  p2_outcome pv pv1 o1 -> p2_outcome pv1 pv2 o2 -> p2_outcome pv pv2 (o1 ++ o2).
Proof.
  unfold p2_outcome. rewrite signed_app.
  intros [(X1 & X2 & X3) | [(X1 & X2 & X3) | (X1 & X2 & X3)]] [(Y1 & Y2 & Y3) | [(Y1 & Y2 & Y3) | (Y1 & Y2 & Y3)]];
    try congruence; rewrite X3, Y3; cbn [app];
    first [left; repeat split; (assumption || reflexivity)
          | right; left; repeat split; (assumption || reflexivity)
          | right; right; repeat split; (assumption || reflexivity)].
Qed.

Lemma p2_outcome_refl rem pv : open_for Bid rem pv -> p2_outcome pv pv [].
Proof. intros (_ & _ & _ & [D|D] & _); unfold p2_outcome; rewrite D; [left | right; right]; auto. Qed.

Lemma P2_run : forall ds pv pc s s' os,
  P2 (map d_idx ds) pv pc s -> NoDup (map d_idx ds) -> Forall (vote_from (vs_vals pv) PREVOTE) ds ->
  run E s (map d_input ds) = (s', os) ->
  exists pv', P2 [] pv' pc s' /\ tally Bid pv' = tally Bid pv + powers_of ds /\ vs_vals pv' = vs_vals pv /\
    p2_outcome pv pv' (concat os).
Proof.
  induction ds as [|d ds IH]; intros pv pc s s' os HP Hnd Hall Er.
  - cbn in Er. injection Er as <- <-. exists pv. split; [exact HP|]. split; [cbn; lia|]. split; [reflexivity|].
    destruct HP as (_ & _ & _ & _ & O & _). exact (p2_outcome_refl _ _ O).
  - cbn [map run] in Er. destruct (handle E s (d_input d)) as [s1 o1] eqn:E1.
    destruct (run E s1 (map d_input ds)) as [s2 os2] eqn:E2. injection Er as <- <-.
    cbn [map] in HP, Hnd. inversion Hnd as [|x l Hni Hnd']; subst x l. inversion Hall as [|x l Hv Hall']; subst x l.
    destruct (P2_step _ _ _ _ _ _ _ HP Hni Hv E1) as (pv1 & HP1 & T1 & _ & (V1 & _) & C1).
    destruct (IH pv1 pc s1 s2 os2 HP1 Hnd' ltac:(rewrite V1; exact Hall') E2) as (pv2 & HP2 & T2 & V2 & C2).
    exists pv2. split; [exact HP2|]. split; [cbn [powers_of fold_right]; fold (powers_of ds); lia|]. split; [congruence|].
    cbn [concat]. eapply p2_outcome_trans; eassumption.
Qed.

(* ---------------------------------------------------------------- phase 3 *)

Definition P3 (rem : list nat) (pc : voteset) (s : cstate) : Prop :=
  cs_halted s = false /\ cs_height s = h /\ cs_round s = r /\ cs_step s = SPrecommit /\
  cs_pblock s = Some b /\ cs_pparts s = Some (one_part ph) /\ locked_now s /\
  (exists pv, lookup_round r (hv_sets (cs_votes s)) = Some (pv, pc)) /\
  open_for Bid rem pc /\ vs_frame PRECOMMIT pc /\ vs_maj23 pc = None.

Definition precommit_tail (v : vote) (s1 : cstate) : cstate * list output :=
  let height := cs_height s1 in
  let pc := precommits (cs_votes s1) (v_round v) in
  match o_maj23 pc with
  | Some polka =>
    seq (enter_new_round E height (v_round v))
      (seq (enter_precommit E height (v_round v))
        (match polka with
         | Some _ =>
           seq (enter_commit E height (v_round v))
               (fun x => if e_skip_timeout_commit E && o_has_all pc
                         then enter_new_round E (cs_height x) 0 x else (x, []))
         | None => enter_precommit_wait height (v_round v)
         end)) s1
  | None =>
    if (cs_round s1 <=? v_round v) && o_has_any pc
    then seq (enter_new_round E height (v_round v)) (enter_precommit_wait height (v_round v)) s1
    else (s1, [])
  end.

Lemma add_precommit_eq s v peer hv' e :
  cs_halted s = false -> cs_height s = v_height v -> v_type v = PRECOMMIT ->
  hv_add_vote (cs_votes s) v peer = (hv', true, e) ->
  handle E s (IVote v peer) = (let '(s9, o9) := precommit_tail v (set_votes hv' s) in (s9, errs e ++ o9)).
Proof.
  intros Hh H1 Ty Ea. unfold handle. rewrite Hh. unfold add_vote.
  replace (v_height v + 1 =? cs_height s) with false by (symmetry; apply Z.eqb_neq; lia).
  cbn [andb]. rewrite <- H1, Z.eqb_refl. cbn [negb]. rewrite Ea. cbn [negb].
  rewrite Ty. change (PRECOMMIT =? PREVOTE)%N with false. cbv iota.
  unfold precommit_tail. cs. reflexivity.
Qed.

Lemma add_precommit_hv s v peer pv pc pc' added e :
  lookup_round r (hv_sets (cs_votes s)) = Some (pv, pc) ->
  v_round v = r -> v_type v = PRECOMMIT ->
  vs_add pc v = (pc', added, e) ->
  hv_add_vote (cs_votes s) v peer = (hv_put (cs_votes s) r PRECOMMIT pc', added, e).
Proof.
  intros L Hr Ty Ea. rewrite (hv_add_vote_existing _ _ _ pv pc) by (try rewrite Hr; auto).
  rewrite Ty. change (PRECOMMIT =? PREVOTE)%N with false. cbv iota. rewrite Ea, Hr. reflexivity.
Qed.

Lemma enter_new_round_noop s :
  cs_height s = h -> cs_round s = r -> cs_step s = SPrecommit -> enter_new_round E h r s = (s, []).
Proof. intros H1 H2 H3. unfold enter_new_round. rewrite H1, H2, H3, !Z.eqb_refl, Z.ltb_irrefl. reflexivity. Qed.

Lemma enter_precommit_wait_res s :
  cs_halted s = false -> cs_height s = h -> cs_round s = r ->
  o_has_any (precommits (cs_votes s) r) = true ->
  exists s' o, enter_precommit_wait h r s = (s', o) /\ same_core s s' /\ cs_step s' = cs_step s.
Proof.
  intros Hh H1 H2 Ha. unfold enter_precommit_wait.
  rewrite H1, H2, !Z.eqb_refl, Z.ltb_irrefl. cbn [negb orb andb].
  destruct (cs_triggered s).
  - exists s, []. split; [reflexivity|]. unfold same_core. repeat split; auto.
  - rewrite Ha. cbn [negb]. rewrite seq_schedule by exact Hh. unfold modify.
    eexists _, _. split; [reflexivity|]. unfold same_core. cs. repeat split; auto.
Qed.

Lemma P3_core rem rem' pc pc' s v peer e s' o :
  P3 rem pc s -> is_vote_at PRECOMMIT v ->
  vs_add pc v = (pc', true, e) -> open_for Bid rem' pc' -> same_frame pc pc' ->
  handle E s (IVote v peer) = (s', o) ->
  In (ODecide h r hb) o \/ P3 rem' pc' s'.
Proof.
  intros (A1 & A2 & A3 & A4 & A5 & A6 & (K1 & K2) & (pv & L) & Op & Fr & Mn) (G4 & G5 & G6) Ea Op' Sf Eq.
  destruct Sf as (Sf1 & Sf2 & Sf3 & Sf4).
  assert (Fr' : vs_frame PRECOMMIT pc') by (destruct Fr as (F1 & F2 & F3); unfold vs_frame; repeat split; congruence).
  pose proof (add_precommit_hv s v peer pv pc pc' true e L G5 G6 Ea) as Ehv.
  set (hv' := hv_put (cs_votes s) r PRECOMMIT pc') in *.
  assert (L' : lookup_round r (hv_sets hv') = Some (pv, pc')).
  { subst hv'. rewrite (hv_put_lookup_same _ _ _ _ pv pc L). reflexivity. }
  assert (Pc' : precommits hv' r = Some pc') by (eapply precommits_lookup; exact L').
  pose proof Op' as (O1 & O2 & O3 & [M'|M'] & O5).
  - (* no majority yet *)
    right.
    rewrite (add_precommit_eq s v peer hv' e A1 ltac:(congruence) G6 Ehv) in Eq.
    set (s1 := set_votes hv' s) in *.
    assert (S : cs_halted s1 = false /\ cs_height s1 = h /\ cs_round s1 = r /\ cs_step s1 = SPrecommit /\ cs_votes s1 = hv')
      by (subst s1; cs; auto).
    destruct S as (S1 & S2 & S3 & S4 & S5).
    assert (Base : P3 rem' pc' s1).
    { unfold P3. subst s1. cs. do 6 (split; [auto|]). split; [unfold locked_now; cs; split; auto|].
      split; [exists pv; exact L'|]. split; [exact Op'|]. split; [exact Fr' | exact M']. }
    unfold precommit_tail in Eq. rewrite G5, S2, S3, S5, Pc' in Eq. cbn [o_maj23] in Eq. rewrite M' in Eq.
    destruct ((r <=? r) && o_has_any (Some pc')) eqn:Any.
    + apply andb_true_iff in Any as [_ Any].
      unfold seq in Eq. rewrite (enter_new_round_noop s1 S2 S3 S4), S1 in Eq.
      destruct (enter_precommit_wait_res s1 S1 S2 S3 ltac:(rewrite S5, Pc'; exact Any)) as (sx & ox & Ex & Cx & Stx).
      rewrite Ex in Eq. injection Eq as <- <-.
      destruct Base as (B1 & B2 & B3 & B4 & B5 & B6 & (B7 & B8) & (pvx & B9) & B10 & B11 & B12).
      destruct Cx as (C1 & C2 & C3 & C4 & C5 & C6 & C7 & C8 & C9 & C10).
      unfold P3. do 6 (split; [congruence|]). split; [unfold locked_now; split; congruence|].
      split; [exists pvx; congruence|]. split; [exact B10|]. split; assumption.
    + injection Eq as <- <-. exact Base.
  - (* this precommit completes +2/3: decide *)
    left. assert (Em : o_maj23 (precommits hv' (v_round v)) = Some (Some (hb, ph))) by (rewrite G5, Pc'; exact M').
    pose proof (progress_decide E s v peer hv' e hb ph b (one_part ph) s' o
                  A1 ltac:(congruence) ltac:(congruence) A4 G6 Ehv Em A5 Hhash Hvalid A6 eq_refl
                  (one_part_complete ph Hone) ltac:(intros _; split; assumption) Eq) as D.
    rewrite A2, A3 in D. exact D.
Qed.

Lemma P3_skip rem rem' pc pc' s v peer e s' o :
  P3 rem pc s -> is_vote_at PRECOMMIT v ->
  vs_add pc v = (pc', false, e) -> open_for Bid rem' pc' -> same_frame pc pc' ->
  vs_maj23 pc' = vs_maj23 pc ->
  handle E s (IVote v peer) = (s', o) -> P3 rem' pc' s'.
Proof.
  intros (A1 & A2 & A3 & A4 & A5 & A6 & (K1 & K2) & (pv & L) & Op & Fr & Mn) (G4 & G5 & G6) Ea Op' Sf Mj Eq.
  destruct Sf as (Sf1 & Sf2 & Sf3 & Sf4).
  assert (Fr' : vs_frame PRECOMMIT pc') by (destruct Fr as (F1 & F2 & F3); unfold vs_frame; repeat split; congruence).
  pose proof (add_precommit_hv s v peer pv pc pc' false e L G5 G6 Ea) as Ehv.
  set (hv' := hv_put (cs_votes s) r PRECOMMIT pc') in *.
  assert (L' : lookup_round r (hv_sets hv') = Some (pv, pc')).
  { subst hv'. rewrite (hv_put_lookup_same _ _ _ _ pv pc L). reflexivity. }
  rewrite (add_vote_skip s v peer hv' e A1 ltac:(congruence) Ehv) in Eq. injection Eq as <- <-.
  unfold P3. cs. do 6 (split; [auto|]). split; [unfold locked_now; cs; split; auto|].
  split; [exists pv; exact L'|]. split; [exact Op'|]. split; [exact Fr' | congruence].
Qed.

Lemma P3_step rem pc s d s' o :
  P3 (d_idx d :: rem) pc s -> ~ In (d_idx d) rem -> vote_from (vs_vals pc) PRECOMMIT d ->
  handle E s (d_input d) = (s', o) ->
  In (ODecide h r hb) o \/
  exists pc', P3 rem pc' s' /\ tally Bid pc' = tally Bid pc + d_power d /\ vs_vals pc' = vs_vals pc.
Proof.
  intros HP Hni Vf Eq.
  pose proof HP as (_ & _ & _ & _ & _ & _ & _ & _ & Op & Fr & _).
  pose proof Vf as (G1 & G2 & G3 & G4 & G5 & G6 & G7 & G8 & G9).
  destruct (vs_add_open Bid (d_idx d) rem pc (d_power d) (d_vote d) Op Hni
              (vote_from_good _ _ _ _ Fr eq_refl Vf)) as (pc' & Ea & Op' & Ta & Sf & Mono).
  destruct (P3_core (d_idx d :: rem) rem pc pc' s (d_vote d) (d_peer d) E_none s' o HP
              ltac:(unfold is_vote_at; auto) Ea Op' Sf Eq) as [D|HP']; [left; exact D|].
  right. exists pc'. split; [exact HP'|]. split; [exact Ta | apply Sf].
Qed.

Lemma P3_run : forall ds pc s s' os,
  P3 (map d_idx ds) pc s -> NoDup (map d_idx ds) -> Forall (vote_from (vs_vals pc) PRECOMMIT) ds ->
  quorum (vs_vals pc) <= tally Bid pc + powers_of ds ->
  run E s (map d_input ds) = (s', os) ->
  In (ODecide h r hb) (concat os).
Proof.
  induction ds as [|d ds IH]; intros pc s s' os HP Hnd Hall Q Er.
  - exfalso. destruct HP as (_ & _ & _ & _ & _ & _ & _ & _ & (_ & _ & _ & _ & T) & _ & Mn).
    specialize (T Mn). cbn in Q. lia.
  - cbn [map run] in Er. destruct (handle E s (d_input d)) as [s1 o1] eqn:E1.
    destruct (run E s1 (map d_input ds)) as [s2 os2] eqn:E2. injection Er as <- <-.
    cbn [map] in HP, Hnd. inversion Hnd as [|x l Hni Hnd']; subst x l. inversion Hall as [|x l Hv Hall']; subst x l.
    cbn [concat]. apply in_or_app.
    destruct (P3_step _ _ _ _ _ _ HP Hni Hv E1) as [D | (pc1 & HP1 & T1 & V1)]; [left; exact D|].
    right. apply (IH pc1 s1 s2 os2 HP1 Hnd'); [rewrite V1; exact Hall' | | exact E2].
    rewrite V1, T1. cbn [powers_of fold_right] in Q. fold (powers_of ds) in Q. lia.
Qed.

(* ---------------------------------------------------------------- the three phases of a machine *)

Lemma open_for_incl B rem rem' vs : (forall j, In j rem' -> In j rem) -> open_for B rem vs -> open_for B rem' vs.
Proof.
  intros Hi (A & B1 & C & D & F). split; [exact A|]. split; [intros j Hj; apply B1, Hi, Hj|].
  split; [|split; assumption].
  intros bv L. destruct (C bv L) as [C1 C2]. split; [exact C1 | intros j Hj; apply C2, Hi, Hj].
Qed.

(* the vote sets of round r before the correct validators [idxs] have voted in it *)
Definition round_open (idxs : list nat) (vals : valset) (ty : N) (vs : voteset) : Prop :=
  open_for Bid idxs vs /\ vs_frame ty vs /\ vs_maj23 vs = None /\ vs_vals vs = vals /\ 0 <= tally Bid vs.

(* a machine at the start of the round: at (h, r), step Propose or earlier, no proposal yet,
   the proposal acceptable, unlocked or locked on the proposed block *)
Definition ready_core (idxs : list nat) (vals : valset) (s : cstate) : Prop :=
  cs_halted s = false /\ cs_height s = h /\ cs_round s = r /\ step_rank (cs_step s) <= 3 /\
  cs_proposal s = None /\ (cs_pparts s = None \/ cs_pparts s = Some (new_parts ph)) /\
  good_proposal E s p b /\ 0 <= r <= hv_round (cs_votes s) /\
  exists pv pc, lookup_round r (hv_sets (cs_votes s)) = Some (pv, pc) /\
    round_open idxs vals PREVOTE pv /\ round_open idxs vals PRECOMMIT pc.
(* after the unlock rule of the prevote step (repair of F70): unlocked, or locked on the proposal *)
Definition ready (idxs : list nat) (vals : valset) (s : cstate) : Prop :=
  ready_core idxs vals s /\ lock_ok (unlock_known r s).

Lemma lock_ok_unlock_known s : lock_ok s -> lock_ok (unlock_known r s).
Proof.
  intro Lk. destruct (unlock_known_lock r s) as (U1 & U2 & U3). unfold lock_ok. rewrite U1, U2, U3.
  destruct (unlock_fires r s); [left; reflexivity | exact Lk].
Qed.

Definition ready2 (idxs : list nat) (vals : valset) (s : cstate) : Prop :=
  exists pv pc, P2 idxs pv pc s /\ round_open idxs vals PREVOTE pv /\ round_open idxs vals PRECOMMIT pc.

Definition ready3 (idxs : list nat) (vals : valset) (s : cstate) : Prop :=
  exists pc, P3 idxs pc s /\ round_open idxs vals PRECOMMIT pc.

Definition proposal_inputs : list input := [IProposal p; IPart h ph 0%N (Some b)].

Lemma phase1 idxs vals s s' os :
  ready idxs vals s -> run E s proposal_inputs = (s', os) ->
  concat os = [OSignVote PREVOTE h r Bid] /\ ready2 idxs vals s' /\ cs_votes s' = cs_votes s.
Proof.
  intros ((A1 & A2 & A3 & A4 & A5 & A6 & G & Hr & pv & pc & L & Rv & Rc) & Lk) Er.
  unfold proposal_inputs in Er. cbn [run] in Er.
  destruct (handle E s (IProposal p)) as [s1 o1] eqn:E1.
  destruct (handle E s1 (IPart h ph 0%N (Some b))) as [s2 o2] eqn:E2. injection Er as <- <-.
  assert (Eph : snd (pr_bid p) = ph) by (rewrite Hbid; reflexivity).
  pose proof (progress_prevote E s p b s1 o1 s2 o2 A1 A4 A5 ltac:(rewrite Eph; exact A6) G E1
                ltac:(rewrite Eph, A2; exact E2)) as (Ho1 & rest & Ho2 & Post).
  assert (Mj : o_maj23 (prevotes (cs_votes s) (cs_round s)) = None).
  { rewrite A3, (prevotes_lookup _ _ _ _ L). destruct Rv as (_ & _ & M & _). exact M. }
  destruct (Post Mj) as (-> & B1 & B2 & B3 & B4 & B5 & B6 & B7 & B8 & SL).
  destruct SL as (S1 & S2 & S3 & S4 & S5 & S6 & S7 & S8 & S9 & S10).
  autorewrite with cs in S7.
  rewrite Hme, app_nil_r in Ho2. subst o1 o2. cbn [concat app]. split.
  - f_equal. rewrite A2, A3. f_equal. unfold Bid.
    destruct Lk as [Q|(Q1 & Q2 & _)].
    + rewrite Q, Hbid. reflexivity.
    + rewrite Q1, Q2. unfold block_id_of, one_part. cbn. rewrite Hhash. reflexivity.
  - split; [|exact S7]. exists pv, pc. split; [|split; assumption].
    destruct G as (_ & _ & Gp & _ & _ & _ & _ & _ & Gk).
    destruct Rv as (Ov & Fv & Mv & _).
    apply (P2_intro idxs pv pc s2 (cs_votes s)); auto; try congruence.
    + destruct Gk as [Gk|Gk]; [left; lia|].
      destruct (Z_lt_le_dec (pr_polr p) 0); [left; assumption | right; split; [lia | exact Gk]].
    + intros _. split; [left; exact B4|]. unfold lock_ok in *. rewrite S1, S2, S3, A3. exact Lk.
Qed.

Lemma phase2 idxs vals s ds s' os :
  ready2 idxs vals s ->
  NoDup (map d_idx ds) -> (forall j, In j (map d_idx ds) -> In j idxs) ->
  Forall (vote_from vals PREVOTE) ds -> quorum vals <= powers_of ds ->
  run E s (map d_input ds) = (s', os) ->
  signed PRECOMMIT (concat os) = [(h, r, Bid)] /\ ready3 idxs vals s'.
Proof.
  intros (pv & pc & HP & (Ov & Fv & Mv & Vv & Tv) & Rc) Hnd Hin Hall Q Er.
  assert (HP' : P2 (map d_idx ds) pv pc s).
  { destruct HP as (X1 & X2 & X3 & X4 & X5 & X6). split; [exact X1|]. split; [exact X2|]. split; [exact X3|].
    split; [exact X4|]. split; [eapply open_for_incl; [exact Hin | exact X5] | exact X6]. }
  destruct (P2_run ds pv pc s s' os HP' Hnd ltac:(rewrite Vv; exact Hall) Er) as (pv' & HP2 & T & V & C).
  assert (Mj : vs_maj23 pv' = Some Bid).
  { destruct HP2 as (_ & _ & _ & _ & O & _). apply (open_for_majority Bid [] pv' O). rewrite V, Vv, T. lia. }
  destruct C as [(_ & X & _) | [(_ & _ & X) | (X & _ & _)]]; try congruence.
  split; [exact X|].
  destruct HP2 as ((B1 & B2 & B3 & B4 & B5 & B6) & L2 & _ & _ & _ & _ & _ & Ms).
  destruct (Ms Mj) as [St Lk].
  exists pc. split; [|exact Rc]. destruct Rc as (Oc & Fc & Mc & _).
  unfold P3. do 6 (split; [assumption|]). split; [exact Lk|]. split; [exists pv'; exact L2|].
  split; [exact Oc|]. split; assumption.
Qed.

Lemma phase3 idxs vals s ds s' os :
  ready3 idxs vals s ->
  NoDup (map d_idx ds) -> (forall j, In j (map d_idx ds) -> In j idxs) ->
  Forall (vote_from vals PRECOMMIT) ds -> quorum vals <= powers_of ds ->
  run E s (map d_input ds) = (s', os) ->
  In (ODecide h r hb) (concat os).
Proof.
  intros (pc & HP & (Oc & Fc & Mc & Vc & Tc)) Hnd Hin Hall Q Er.
  assert (HP' : P3 (map d_idx ds) pc s).
  { destruct HP as (X1 & X2 & X3 & X4 & X5 & X6 & X7 & X8 & X9 & X10).
    do 8 (split; [assumption|]). split; [eapply open_for_incl; [exact Hin | exact X9] | exact X10]. }
  apply (P3_run ds pc s s' os HP' Hnd ltac:(rewrite Vc; exact Hall) ltac:(rewrite Vc; lia) Er).
Qed.

End Phases.
