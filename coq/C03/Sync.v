(* C03 — the decision logic behind termination, at the level of values.
   After synchrony begins every correct node knows every polka formed so far (idealised gossip:
   the prevotes a correct node holds reach every other correct node before timeouts fire).
   The rules below are the value-level reading of consensus/state.go:
     unlock   addVote: a polka in a round later than the lock round for another value unlocks;
     propose  defaultDecideProposal: the proposer re-proposes its valid block, else a new one;
     prevote  defaultDoPrevote: the locked block if locked, else the (valid) proposal;
     precommit/commit: +2/3 prevotes for v => lock and precommit v; +2/3 precommits => decide.
   Their transcription in the code's state machine is C02/Model.v (tied to the code by the C02
   correspondence run); this file proves what they imply for a synchronous round. *)
From Coq Require Import List ZArith NArith Bool Lia.
Import ListNotations.
Open Scope Z_scope.

Definition value := N.                              (* a block, by hash *)

Record node := {
  n_power : Z;
  n_lock : option (Z * value);                      (* locked round, locked block *)
  n_valid : option (Z * value)                      (* valid round, valid block *)
}.

Definition polka := (Z * option value)%type.        (* round, value (None = nil) *)

(* the unlock rule applied with all known polkas *)
Definition releases (lr : Z) (lv : value) (p : polka) : bool :=
  (lr <? fst p) && negb (match snd p with Some v => (v =? lv)%N | None => false end).
Definition unlock (pol : list polka) (n : node) : node :=
  match n_lock n with
  | Some (lr, lv) => if existsb (releases lr lv) pol
                     then {| n_power := n_power n; n_lock := None; n_valid := n_valid n |} else n
  | None => n
  end.

Definition proposal_of (fresh : value) (p : node) : value :=
  match n_valid p with Some (_, v) => v | None => fresh end.

Definition prevote_of (prop : value) (n : node) : value :=
  match n_lock n with Some (_, lv) => lv | None => prop end.

(* the polka with the highest round among the known ones *)
Definition is_latest (pol : list polka) (p : polka) : Prop :=
  In p pol /\ forall q, In q pol -> fst q <= fst p.

(* what holds of the correct nodes and the known polkas in every reachable configuration
   (consequences of C02: a lock is backed by the polka of its round, the valid block by the
   polka of the valid round, one polka per round by quorum intersection) *)
Record Inv (pol : list polka) (nodes : list node) : Prop := {
  inv_lock : forall n lr lv, In n nodes -> n_lock n = Some (lr, lv) -> In (lr, Some lv) pol;
  inv_valid : forall n vr vv, In n nodes -> n_valid n = Some (vr, vv) -> In (vr, Some vv) pol;
  inv_lock_valid : forall n lr lv, In n nodes -> n_lock n = Some (lr, lv) ->
                     exists vr vv, n_valid n = Some (vr, vv) /\ lr <= vr;
  inv_one_per_round : forall r x y, In (r, x) pol -> In (r, y) pol -> x = y
}.

(* L1: after the unlock step every node that is still locked is locked on the block of the
   latest polka, and so is its valid block *)
Theorem unlock_convergence pol nodes n lr lv star :
  Inv pol nodes -> is_latest pol star -> In n nodes ->
  n_lock (unlock pol n) = Some (lr, lv) ->
  snd star = Some lv /\ exists vr, n_valid (unlock pol n) = Some (vr, lv).
Proof.
  intros I [Hs Hmax] Hn Hl. unfold unlock in Hl |- *.
  destruct (n_lock n) as [[lr0 lv0]|] eqn:El; [|rewrite El in Hl; discriminate].
  destruct (existsb (releases lr0 lv0) pol) eqn:Ex; [cbn in Hl; discriminate|].
  rewrite El in Hl. injection Hl as <- <-.
  assert (NoRel : forall q, In q pol -> releases lr0 lv0 q = false).
  { intros q Hq. destruct (releases lr0 lv0 q) eqn:R; [|reflexivity].
    assert (existsb (releases lr0 lv0) pol = true) by (apply existsb_exists; exists q; auto). congruence. }
  pose proof (inv_lock pol nodes I n lr0 lv0 Hn El) as Hown.
  assert (Hstar : snd star = Some lv0).
  { pose proof (NoRel star Hs) as R. unfold releases in R.
    destruct star as [rs xs]. cbn in *.
    apply andb_false_iff in R as [R|R].
    - apply Z.ltb_ge in R. pose proof (Hmax _ Hown) as M. cbn in M.
      assert (rs = lr0) by lia. subst rs.
      exact (inv_one_per_round pol nodes I lr0 xs (Some lv0) Hs Hown).
    - apply negb_false_iff in R. destruct xs as [v|]; [|discriminate]. apply N.eqb_eq in R. subst v. reflexivity. }
  split; [exact Hstar|].
  destruct (inv_lock_valid pol nodes I n lr0 lv0 Hn El) as (vr & vv & Ev & Hle).
  exists vr. rewrite Ev. f_equal. f_equal.
  pose proof (inv_valid pol nodes I n vr vv Hn Ev) as Hv.
  pose proof (NoRel _ Hv) as R. unfold releases in R. cbn in R.
  apply andb_false_iff in R as [R|R].
  - apply Z.ltb_ge in R. assert (vr = lr0) by lia. subst vr.
    pose proof (inv_one_per_round pol nodes I lr0 (Some vv) (Some lv0) Hv Hown) as E. injection E as ->. reflexivity.
  - apply negb_false_iff in R. apply N.eqb_eq in R. exact R.
Qed.

(* power that prevotes v among the correct nodes *)
Definition power_for (v : value) (votes : list (node * value)) : Z :=
  fold_right (fun nv acc => (if (snd nv =? v)%N then n_power (fst nv) else 0) + acc) 0 votes.
Definition total_power (nodes : list node) : Z := fold_right (fun n acc => n_power n + acc) 0 nodes.

Lemma unanimous_power v nodes prop :
  (forall n, In n nodes -> prevote_of prop n = v) ->
  power_for v (map (fun n => (n, prevote_of prop n)) nodes) = total_power nodes.
Proof.
  induction nodes as [|n nodes IH]; intro H; [reflexivity|].
  cbn [map power_for fold_right total_power snd fst].
  rewrite (H n (or_introl eq_refl)), N.eqb_refl.
  fold (power_for v (map (fun n => (n, prevote_of prop n)) nodes)). fold (total_power nodes).
  rewrite IH; [reflexivity|]. intros m Hm. apply H. right. exact Hm.
Qed.

(* L2: a synchronous round whose proposer is correct and proposes the block of the latest polka
   (or in which nobody is locked after the unlock step) ends with +2/3 prevotes, hence
   +2/3 precommits, for the proposal from the correct nodes alone: every correct node decides. *)
Theorem good_round_decides pol nodes proposer fresh total faulty_power :
  Inv pol nodes -> In proposer nodes ->
  total = total_power nodes + faulty_power -> 0 <= faulty_power -> 3 * faulty_power < total ->
  let nodes' := map (unlock pol) nodes in
  let prop := proposal_of fresh (unlock pol proposer) in
  ((forall n, In n nodes' -> n_lock n = None) \/
   (exists star, is_latest pol star /\ snd star = Some prop)) ->
  (forall n, In n nodes' -> prevote_of prop n = prop) /\
  3 * power_for prop (map (fun n => (n, prevote_of prop n)) nodes') > 2 * total.
Proof.
  intros I Hp Ht Hf Hthird nodes' prop Hprem.
  assert (Un : forall n, In n nodes' -> prevote_of prop n = prop).
  { intros n Hn. unfold prevote_of. destruct (n_lock n) as [[lr lv]|] eqn:El; [|reflexivity].
    destruct Hprem as [Hnone | (star & Hlat & Hval)].
    - rewrite (Hnone n Hn) in El. discriminate.
    - subst nodes'. apply in_map_iff in Hn as (n0 & <- & Hn0).
      destruct (unlock_convergence pol nodes n0 lr lv star I Hlat Hn0 El) as [Hs _].
      rewrite Hval in Hs. injection Hs as ->. reflexivity. }
  split; [exact Un|].
  rewrite (unanimous_power prop nodes' prop Un).
  assert (Etot : total_power nodes' = total_power nodes).
  { subst nodes'. clear. induction nodes as [|n nodes IH]; [reflexivity|].
    cbn [map total_power fold_right]. fold (total_power (map (unlock pol) nodes)). fold (total_power nodes).
    rewrite IH. f_equal.
    unfold unlock. destruct (n_lock n) as [[lr lv]|]; [destruct (existsb _ _)|]; reflexivity. }
  rewrite Etot. lia.
Qed.

(* L3: the proposer condition of L2 holds for every correct node that is still locked after the
   unlock step, and for every correct proposer when nobody is: so a deciding round comes as soon
   as the rotation reaches such a validator (C08_proposer_window bounds that). *)
Theorem locked_node_is_good_proposer pol nodes n lr lv fresh star :
  Inv pol nodes -> is_latest pol star -> In n nodes ->
  n_lock (unlock pol n) = Some (lr, lv) ->
  snd star = Some (proposal_of fresh (unlock pol n)).
Proof.
  intros I Hlat Hn Hl.
  destruct (unlock_convergence pol nodes n lr lv star I Hlat Hn Hl) as [Hs (vr & Ev)].
  unfold proposal_of. rewrite Ev. exact Hs.
Qed.

(* the first round, in a sequence of synchronous rounds, whose proposer meets the condition
   decides; rounds before it leave a configuration in which Inv holds again (new polkas may have
   been formed with the help of faulty validators — they are known to everybody by the end of
   the round).  Stated over an abstract successor relation for the non-deciding rounds. *)
Section Rounds.
Variable step_ok : list polka * list node -> list polka * list node -> Prop.
Hypothesis step_inv : forall c c', Inv (fst c) (snd c) -> step_ok c c' -> Inv (fst c') (snd c').

Inductive reach : nat -> list polka * list node -> list polka * list node -> Prop :=
| reach_0 c : reach 0 c c
| reach_S k c c1 c2 : step_ok c c1 -> reach k c1 c2 -> reach (S k) c c2.

Lemma reach_inv k c c' : Inv (fst c) (snd c) -> reach k c c' -> Inv (fst c') (snd c').
Proof. intros I R. induction R as [|k c c1 c2 S R IH]; [exact I | apply IH; eapply step_inv; eassumption]. Qed.

Theorem termination_partial k c c' proposer fresh total faulty_power :
  Inv (fst c) (snd c) -> reach k c c' -> In proposer (snd c') ->
  total = total_power (snd c') + faulty_power -> 0 <= faulty_power -> 3 * faulty_power < total ->
  let prop := proposal_of fresh (unlock (fst c') proposer) in
  ((forall n, In n (map (unlock (fst c')) (snd c')) -> n_lock n = None) \/
   (exists star, is_latest (fst c') star /\ snd star = Some prop)) ->
  3 * power_for prop (map (fun n => (n, prevote_of prop n)) (map (unlock (fst c')) (snd c'))) > 2 * total.
Proof.
  intros I R Hp Ht Hf H3 prop Hprem.
  exact (proj2 (good_round_decides (fst c') (snd c') proposer fresh total faulty_power
                 (reach_inv k c c' I R) Hp Ht Hf H3 Hprem)).
Qed.
End Rounds.
