(* C03 — finding F83 (REPAIRED): the regression witness.  Question (1) of the termination programme:
   is "a locked machine holds its locked block as its valid block" an invariant of the code model?
   Of the F70-repaired model BEFORE the repair of F83 (C03/UnfixedF83.v: run_u83, the state machine
   with enterPrecommit's re-lock as it was): NO.  Of the model of record (F83 repaired: the re-lock
   also updates the valid block): YES, proved in C03/LockValid.v; the same inputs end with valid
   block X of round 6 (lv_repaired below).

   REFUTED on the unrepaired model, by a run of ONE machine from the initial state (29 inputs):
   the machine ends, not halted, in round 7 at step Propose, LOCKED on block X (hash 5) with
   LockedRound = 6 while its VALID block is Y (hash 7) with ValidRound = 2 - different blocks,
   valid round below the lock round: clause inv'_lock_valid of SyncWeak.Inv' fails for every
   pol, and the unlock rule of the prevote step (repair of F70) never releases this lock (it
   only looks at rounds above LockedRound = 6).

   Two steps of consensus/state.go combine:
   (a) handleCompleteProposal updates ValidBlock to the proposal block when the node holds the
       current round's polka for it (ValidRound < Round) WITHOUT looking at the lock: a node
       that learnt the polka of round 2 (for Y) while still in round 1, was carried to round 2 by
       it (addVote does not apply the unlock rule to a polka of a future round), and receives
       the proposal (Y, POLRound 1) whose POL it does not hold, gets ValidBlock = Y, ValidRound
       = 2 and stays locked on X from round 0 at step Propose (transient: the next prevote step
       would release the lock);
   (b) enterPrecommit RE-LOCKS the locked block on a polka of the current round
       (LockedRound = round) WITHOUT updating ValidBlock/ValidRound - also when the node is at
       step Propose (addVote calls enterPrecommit on a +2/3 precommit majority, here for nil,
       before any prevote step of the round).  The node, carried from round 2 to round 6 by the
       polka of round 6 for X, re-locks X with LockedRound = 6: now the polka of round 2 for Y
       is below the lock round and the lock is permanent; ValidBlock stays Y.

   Liveness consequence (C03/TermSim.v, C03/TermValue.v): such a node prevotes X on every
   proposal and PROPOSES Y (defaultDecideProposal proposes ValidBlock); if the other correct
   validators are not locked on X and do not hold X as valid block, nobody ever proposes X and
   no block ever gets +2/3 prevotes from the correct validators alone: with the faulty
   validators silent NO round decides although every message is delivered. *)
From Coq Require Import List ZArith NArith Bool Lia.
From TM Require Import C02.Model C03.Round C03.SyncNet C03.Unsettled C03.UnfixedF83.
From TM Require C03.Sync C03.SyncWeak.
Import ListNotations.
Open Scope Z_scope.

(* validators A = 0 (the machine), B = 1, C = 2, D = 3 (faulty); proposer of round r: (r+1) mod 4,
   i.e. B, C, D, A, B, C, D, A, ... *)
Definition lv_env (i : Z) : env :=
  {| e_vals := w_vals; e_me := Some i; e_proposer := fun _ r => (r + 1) mod 4;
     e_skip_timeout_commit := false; e_initial_height := 1 |}.

Definition lv_tmo (r : Z) (st : step) : input := ITimeout {| ti_height := 1; ti_round := r; ti_step := st |}.
Definition lv_bX : block := {| b_hash := 5%N; b_valid := true |}.
Definition lv_bY : block := {| b_hash := 7%N; b_valid := true |}.
Definition lv_prop (r polr : Z) (h : N) : input :=
  IProposal {| pr_height := 1; pr_round := r; pr_polr := polr; pr_bid := (h, (1%N, (h * 10)%N));
               pr_signer := (r + 1) mod 4; pr_sigvalid := true |}.

Definition lv_prefix : list input :=
  [ lv_tmo 0 SNewHeight;
    (* round 0 (proposer B): proposal X; polka for X from A, B, D: A locks X, precommits X *)
    lv_prop 0 (-1) 5%N; IPart 1 (1%N, 50%N) 0%N (Some lv_bX);
    w_vote PREVOTE 0 w_X 0; w_vote PREVOTE 0 w_X 1; w_vote PREVOTE 0 w_X 3;
    w_vote PRECOMMIT 0 w_X 0; w_vote PRECOMMIT 0 None 1; w_vote PRECOMMIT 0 None 2;
    lv_tmo 0 SPrecommitWait;
    (* round 1 (proposer C proposes Y; A does not get it): A prevotes X, sees B:Y C:Y, no polka *)
    lv_tmo 1 SPropose;
    w_vote PREVOTE 1 w_X 0; w_vote PREVOTE 1 w_Y 1; w_vote PREVOTE 1 w_Y 2;
    lv_tmo 1 SPrevoteWait;
    w_vote PRECOMMIT 1 None 0;
    (* still in round 1: the prevotes of round 2 for Y (polka): A is carried to round 2 *)
    w_vote PREVOTE 2 w_Y 1; w_vote PREVOTE 2 w_Y 2; w_vote PREVOTE 2 w_Y 3;
    (* round 2 (proposer D): proposal (Y, POL round 1) - A does not hold the polka of round 1 *)
    lv_prop 2 1 7%N; IPart 1 (1%N, 70%N) 0%N (Some lv_bY);
    (* still at step Propose of round 2: the prevotes of round 6 for X (polka): carried to round 6 *)
    w_vote PREVOTE 6 w_X 1; w_vote PREVOTE 6 w_X 2; w_vote PREVOTE 6 w_X 3;
    (* +2/3 precommits of round 6 for nil: addVote runs enterPrecommit(6) at step Propose *)
    w_vote PRECOMMIT 6 None 1; w_vote PRECOMMIT 6 None 2; w_vote PRECOMMIT 6 None 3;
    w_vote PRECOMMIT 6 w_X 0;
    lv_tmo 6 SPrecommitWait ].

Definition lv_state : cstate := fst (run_u83 (lv_env 0) (init_state (lv_env 0) 1 None) lv_prefix).

(* the stations of the run *)
Definition lv_after (n : nat) : cstate := fst (run_u83 (lv_env 0) (init_state (lv_env 0) 1 None) (firstn n lv_prefix)).
Definition lv_view (s : cstate) :=
  (cs_round s, cs_step s, (cs_lround s, option_map b_hash (cs_lblock s)), (cs_vround s, option_map b_hash (cs_vblock s))).

Example lv_stations :
  lv_view (lv_after 7)  = (0, SPrecommit, (0, Some 5%N), (0, Some 5%N)) /\    (* locked X in round 0 *)
  lv_view (lv_after 16) = (1, SPrecommit, (0, Some 5%N), (0, Some 5%N)) /\    (* round 1: prevoted X, precommitted nil *)
  lv_view (lv_after 19) = (2, SPropose,   (0, Some 5%N), (0, Some 5%N)) /\    (* carried to round 2 by the polka for Y *)
  lv_view (lv_after 21) = (2, SPropose,   (0, Some 5%N), (2, Some 7%N)) /\    (* (a): valid block Y, still locked on X *)
  lv_view (lv_after 24) = (6, SPropose,   (0, Some 5%N), (2, Some 7%N)) /\    (* carried to round 6 by the polka for X *)
  lv_view (lv_after 27) = (6, SPrecommit, (6, Some 5%N), (2, Some 7%N)) /\    (* (b): re-locked X in round 6 *)
  lv_view lv_state      = (7, SPropose,   (6, Some 5%N), (2, Some 7%N)).
Proof. vm_compute. repeat split. Qed.

(* the machine proposes in round 7: its VALID block Y with POL round 2 (the last output of the run);
   handling its own proposal it prevotes its LOCKED block X *)
Example lv_proposes_valid_prevotes_locked :
  In (OSignProposal 1 7 2 (Some 7%N)) (last (snd (run_u83 (lv_env 0) (init_state (lv_env 0) 1 None) lv_prefix)) []) /\
  concat (snd (run_u83 (lv_env 0) lv_state [lv_prop 7 2 7%N; IPart 1 (1%N, 70%N) 0%N (Some lv_bY)])) =
    [OSignVote PREVOTE 1 7 w_X].
Proof. vm_compute. split; [right; left; reflexivity | reflexivity]. Qed.

Theorem lock_differs_from_valid_reachable :
  exists (E : env) (ins : list input),
    let s := fst (run_u83 E (init_state E 1 None) ins) in
    let n := abs 10 s in
    cs_halted s = false /\ (cs_height s, cs_round s, cs_step s) = (1, 7, SPropose) /\
    (* locked on X since round 6, valid block Y of round 2 *)
    Sync.n_lock n = Some (6, 5%N) /\ Sync.n_valid n = Some (2, 7%N) /\
    (* both backed by polkas the machine holds; it also holds the polka of round 0 *)
    (forall q, In q [(0, Some 5%N); (2, Some 7%N); (6, Some 5%N)] -> holds_polka s q) /\
    (* the unlock rule of the prevote step does not release the lock, in this and any later round,
       as long as no polka of a round above 6 for something else arrives *)
    (forall r, unlock_fires r s = false \/ exists r' x, 6 < r' <= r /\ o_maj23 (prevotes (cs_votes s) r') = Some x) /\
    (* Sync.v's (weak) invariant fails of this machine whatever the known polkas *)
    (forall pol, ~ SyncWeak.Inv' pol [n]).
Proof.
  exists (lv_env 0), lv_prefix. cbv zeta. fold lv_state.
  assert (En : abs 10 lv_state =
               {| Sync.n_power := 10; Sync.n_lock := Some (6, 5%N); Sync.n_valid := Some (2, 7%N) |})
    by (vm_compute; reflexivity).
  rewrite En.
  split; [vm_compute; reflexivity|]. split; [vm_compute; reflexivity|].
  split; [reflexivity|]. split; [reflexivity|]. split.
  { intros q [<-|[<-|[<-|[]]]]; eexists; (split; [vm_compute; reflexivity | reflexivity]). }
  split.
  { intro r. destruct (unlock_fires r lv_state) eqn:F; [right | left; reflexivity].
    unfold unlock_fires in F.
    assert (El : cs_lblock lv_state = Some lv_bX) by (vm_compute; reflexivity).
    assert (Er : cs_lround lv_state = 6) by (vm_compute; reflexivity).
    rewrite El, Er in F.
    assert (G : forall fuel r0, later_polka_other (cs_votes lv_state) lv_bX 6 r0 fuel = true ->
                exists r' x, 6 < r' <= r0 /\ o_maj23 (prevotes (cs_votes lv_state) r') = Some x).
    { induction fuel as [|f IH]; intros r0 H; cbn [later_polka_other] in H; [discriminate|].
      destruct (r0 <=? 6) eqn:Le; [discriminate|]. apply Z.leb_gt in Le.
      destruct (o_maj23 (prevotes (cs_votes lv_state) r0)) as [pk|] eqn:Em.
      - exists r0, pk. split; [lia | exact Em].
      - destruct (IH (r0 - 1) H) as (r' & x & Hr & Hx). exists r', x. split; [lia | exact Hx]. }
    exact (G _ r F). }
  intros pol [_ _ C _].
  destruct (C _ 6 5%N (or_introl eq_refl) eq_refl) as (vr & vv & Ev & Hle).
  cbn in Ev. injection Ev as <- <-. destruct Hle as [Hle|Hle]; [lia | discriminate].
Qed.

(* ---------------------------------------------------------------- the model of record (F83 repaired): the same 29
   inputs.  The two machines agree up to the re-lock (input 27); there the repaired enterPrecommit
   also sets ValidBlock := LockedBlock = X, ValidRound := 6.  In round 7 the machine proposes X with
   POL round 6 and prevotes X on its own proposal. *)
Definition lv_state_fixed : cstate := fst (run (lv_env 0) (init_state (lv_env 0) 1 None) lv_prefix).

Example lv_repaired :
  fst (run (lv_env 0) (init_state (lv_env 0) 1 None) (firstn 26 lv_prefix)) = lv_after 26 /\
  lv_view (fst (run (lv_env 0) (init_state (lv_env 0) 1 None) (firstn 27 lv_prefix))) = (6, SPrecommit, (6, Some 5%N), (6, Some 5%N)) /\
  lv_view lv_state_fixed = (7, SPropose, (6, Some 5%N), (6, Some 5%N)) /\
  In (OSignProposal 1 7 6 (Some 5%N)) (last (snd (run (lv_env 0) (init_state (lv_env 0) 1 None) lv_prefix)) []) /\
  concat (snd (run (lv_env 0) lv_state_fixed [lv_prop 7 6 5%N; IPart 1 (1%N, 50%N) 0%N (Some lv_bX)])) =
    [OSignVote PREVOTE 1 7 w_X].
Proof. vm_compute. repeat split. right; left; reflexivity. Qed.
