(* C03 — "a decision seen without its block": a node that entered the Commit step knowing the
   +2/3 precommits but not the block finalises as soon as the block's parts arrive (shown for a
   one-part block; the state-machine model is C02/Model.v). *)
From Coq Require Import List ZArith NArith Bool Lia.
From TM Require Import C02.Model C02.Setters C02.ProofsVoteSet.
Import ListNotations.
Open Scope Z_scope.

Ltac cs := autorewrite with cs in *.

Lemma psh_eqb_refl p : psh_eqb p p = true.
Proof. apply psh_eqb_eq. reflexivity. Qed.

Theorem commit_without_block E s h ph b :
  cs_halted s = false -> cs_step s = SCommit ->
  o_maj23 (precommits (cs_votes s) (cs_commit_round s)) = Some (Some (h, ph)) ->
  cs_pparts s = Some (new_parts ph) -> fst ph = 1%N ->
  b_hash b = h -> b_valid b = true ->
  In (ODecide (cs_height s) (cs_commit_round s) h)
     (snd (handle E s (IPart (cs_height s) ph 0%N (Some b)))).
Proof.
  intros Hh Hst Hmaj Hpp Htot Hb Hv.
  unfold handle. rewrite Hh. unfold add_part. rewrite Z.eqb_refl. cbn [negb].
  rewrite Hpp. cbn [pt_header pt_have new_parts]. rewrite psh_eqb_refl. cbn [negb].
  rewrite Htot. cbn [N.leb N.compare pt_have existsb].
  unfold pt_complete. cbn [pt_have pt_header length]. rewrite Htot. cbn [N.of_nat N.eqb Pos.of_succ_nat Pos.eqb].
  set (pp' := {| pt_header := ph; pt_have := [0%N] |}).
  set (s0 := set_prop (cs_proposal s) (Some b) (Some pp') s).
  unfold handle_complete_proposal.
  match goal with |- context [is_proposal_complete ?x] => set (s1 := x) end.
  assert (Q : cs_height s1 = cs_height s /\ cs_step s1 = SCommit /\ cs_votes s1 = cs_votes s /\
              cs_commit_round s1 = cs_commit_round s /\ cs_pblock s1 = Some b /\ cs_pparts s1 = Some pp' /\
              cs_halted s1 = false).
  { subst s1 s0.
    destruct (o_maj23 (prevotes (cs_votes (set_prop (cs_proposal s) (Some b) (Some pp') s))
                                (cs_round (set_prop (cs_proposal s) (Some b) (Some pp') s)))) as [[[hh pp]|]|];
      try (cs; repeat split; assumption).
    match goal with |- context [if ?c then _ else _] => destruct c end; cs; repeat split; assumption. }
  destruct Q as (Q1 & Q2 & Q3 & Q4 & Q5 & Q6 & Q7).
  rewrite Q2. cbn [step_le step_rank Z.leb Z.compare andb step_eqb Z.eqb].
  unfold try_finalize_commit. rewrite Q1, Z.eqb_refl. cbn [negb].
  rewrite Q3, Q4, Hmaj, Q5. cbn [hashes_to]. rewrite Hb, N.eqb_refl.
  unfold finalize_commit. rewrite Q1, Z.eqb_refl, Q2. cbn [negb orb step_eqb step_rank Z.eqb].
  rewrite Q3, Q4, Hmaj, Q6. cbn [has_header pt_header]. rewrite psh_eqb_refl. cbn [negb].
  rewrite Q5. cbn [hashes_to]. rewrite Hb, N.eqb_refl. cbn [negb]. rewrite Hv. cbn [negb].
  replace (pt_complete pp') with true
    by (unfold pt_complete, pp'; cbn [pt_have pt_header length]; rewrite Htot; reflexivity).
  cbn [negb].
  unfold seq, emit. rewrite Q7.
  destruct (update_to_next_height E s1) as [s2 o2]. cbn [snd app]. left. reflexivity.
Qed.
