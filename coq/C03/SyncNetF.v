(* C03 — the synchronous round of a network of correct validators' machines, closed loop, with
   the faulty validators voting during the round: every machine m handles the proposal and its
   part, then a list L2 m in which the prevotes ALL machines signed in phase 1 occur (in machine
   order) interleaved with arbitrary further prevotes of the round that do not verify under a
   correct validator's key, then a list L3 m with the precommits all machines signed in phase 2
   interleaved likewise.  The interleavings may differ from machine to machine.  Every machine
   decides the proposed block in this round. *)
From Coq Require Import List ZArith NArith Bool Lia.
From TM Require Import C02.Model C02.Setters C02.ProofsVoteSet C02.ProofsLock.
From TM Require Import C03.Round C03.Tally C03.FaultyTally C03.SyncModel C03.SyncFaulty C03.SyncNet.
Import ListNotations.
Open Scope Z_scope.

Lemma in_correct_part d l : In (Correct d) l -> In d (correct_part l).
Proof. intro H. unfold correct_part. apply in_flat_map. exists (Correct d). split; [exact H | left; reflexivity]. Qed.

Lemma correct_part_in d l : In d (correct_part l) -> In (Correct d) l.
Proof.
  intro H. unfold correct_part in H. apply in_flat_map in H as (it & Hit & Hd).
  destruct it as [d0|]; [|contradiction]. destruct Hd as [<-|[]]. exact Hit.
Qed.

Lemma pw_of_power_of vals (l : list machine) :
  pw_of vals (map m_idx l) = fold_right (fun m acc => power_at vals (m_idx m) + acc) 0 l.
Proof. induction l as [|m l IH]; [reflexivity|]. cbn [map pw_of fold_right]. fold (pw_of vals (map m_idx l)). rewrite IH. reflexivity. Qed.

Section NetF.
Variable vals : valset.
Variables h r : Z.
Variable p : proposal.
Variable b : block.
Variable hb : N.
Variable ph : psh.
Variable sig : nat -> N -> N.
Variable peer : nat -> N.
Variable ms : list machine.
Variables L2 L3 : machine -> list item.          (* what each machine is handed in phases 2 and 3 *)

Local Notation cor := (idxs ms).

Definition st2F (m : machine) := fst (run (m_env m) (st1 h p b ph m) (map item_input (L2 m))).
Definition out2F (m : machine) := concat (snd (run (m_env m) (st1 h p b ph m) (map item_input (L2 m)))).
Definition PCF : list delivery := broadcast vals sig peer PRECOMMIT out2F ms.
Definition out3F (m : machine) := concat (snd (run (m_env m) (st2F m) (map item_input (L3 m)))).

Definition scheduleF (m : machine) : list input :=
  proposal_inputs h p b ph ++ map item_input (L2 m) ++ map item_input (L3 m).

Lemma scheduleF_outputs m :
  concat (snd (run (m_env m) (m_state m) (scheduleF m))) = out1 h p b ph m ++ out2F m ++ out3F m.
Proof.
  unfold scheduleF, out1, out2F, out3F, st2F, st1.
  rewrite run_app, concat_app, run_app, concat_app. reflexivity.
Qed.

Hypothesis Hbid : pr_bid p = (hb, ph).
Hypothesis Hhash : b_hash b = hb.
Hypothesis Hvalid : b_valid b = true.
Hypothesis Hone : fst ph = 1%N.
Hypothesis Hnd : NoDup cor.
Hypothesis Hval : forall m, In m ms -> is_validator (m_env m) = true.
Hypothesis Hentry : forall m, In m ms ->
  exists a pw, nth_error vals (m_idx m) = Some (a, pw) /\ a <> 0%N /\ 0 <= pw.
Hypothesis Hready : forall m, In m ms -> ready (m_env m) h r p b hb ph cor vals (m_state m).
Hypothesis Hquorum : quorum vals <= correct_power vals ms.
Hypothesis vals_nonneg : powers_nonneg vals.
(* the validators outside the machines have less than the quorum *)
Hypothesis Hcap : total_power vals - pw_of vals cor < quorum vals.
(* the vote sets of the round satisfy the vote-set invariant, and no correct validator has a vote
   in them for another block id (true of fresh sets, and of reachable ones when the correct
   validators have not voted in the round yet) *)
Hypothesis Hextra : forall m, In m ms -> forall pv pc,
  lookup_round r (hv_sets (cs_votes (m_state m))) = Some (pv, pc) ->
  extra hb ph cor pv /\ extra hb ph cor pc.
(* what is handed to the machines: the correct votes, and faulty votes of the round *)
Hypothesis HL2 : forall m, In m ms ->
  correct_part (L2 m) = PV vals h p b ph sig peer ms /\
  forall v pr, In (Faulty v pr) (L2 m) -> faulty_vote h r cor PREVOTE v.
Hypothesis HL3 : forall m, In m ms ->
  correct_part (L3 m) = PCF /\
  forall v pr, In (Faulty v pr) (L3 m) -> faulty_vote h r cor PRECOMMIT v.

Lemma cor_bound : forall j, In j cor -> (j < length vals)%nat.
Proof.
  intros j Hj. apply in_map_iff in Hj as (m & <- & Hm). destruct (Hentry m Hm) as (a & pw & Hn & _).
  apply nth_error_Some. rewrite Hn. discriminate.
Qed.

Lemma items_ok ty (l : list item) :
  correct_part l = map (dv vals h r hb ph sig peer ty) ms ->
  (forall v pr, In (Faulty v pr) l -> faulty_vote h r cor ty v) ->
  Forall (item_ok h r hb ph vals cor ty) l.
Proof.
  intros Hc Hf. apply Forall_forall. intros [d|v pr] Hit; cbn.
  - pose proof (in_correct_part d l Hit) as Hd. rewrite Hc in Hd.
    pose proof (dv_good vals h r hb ph sig peer ms Hentry ty) as G. rewrite Forall_forall in G.
    split; [apply G; exact Hd|]. apply in_map_iff in Hd as (m & <- & Hm). apply in_map_iff. exists m. auto.
  - exact (Hf v pr Hit).
Qed.

Lemma step1F m : In m ms ->
  out1 h p b ph m = [OSignVote PREVOTE h r (Bid hb ph)] /\ ready2F h r p b hb ph vals cor (st1 h p b ph m).
Proof.
  intro Hm. unfold out1, st1.
  destruct (run (m_env m) (m_state m) (proposal_inputs h p b ph)) as [s' os] eqn:Er. cbn [fst snd].
  destruct (phase1 (m_env m) h r p b hb ph Hbid Hhash Hone (Hval m Hm) cor vals (m_state m) s' os (Hready m Hm) Er)
    as (A & (pv & pc & HP & Rv & Rc) & Ev).
  split; [exact A|]. exists pv, pc. split; [exact HP|]. split; [exact Rv|]. split; [exact Rc|].
  destruct HP as (_ & L & _). rewrite Ev in L. exact (Hextra m Hm pv pc L).
Qed.

Lemma PV_eqF : PV vals h p b ph sig peer ms = map (dv vals h r hb ph sig peer PREVOTE) ms.
Proof.
  unfold PV, broadcast. apply flat_map_single. intros m Hm. rewrite (proj1 (step1F m Hm)). reflexivity.
Qed.

Lemma step2F m : In m ms ->
  signed PRECOMMIT (out2F m) = [(h, r, Bid hb ph)] /\ ready3F h r b hb ph vals cor (st2F m).
Proof.
  intro Hm. unfold out2F, st2F.
  destruct (run (m_env m) (st1 h p b ph m) (map item_input (L2 m))) as [s' os] eqn:Er. cbn [fst snd].
  destruct (HL2 m Hm) as [Hc Hf]. rewrite PV_eqF in Hc.
  refine (phase2F (m_env m) h r p b hb ph Hhash Hvalid Hone (Hval m Hm) vals cor Hnd cor_bound Hcap vals_nonneg
            (st1 h p b ph m) (L2 m) s' os (proj2 (step1F m Hm)) _ (items_ok PREVOTE (L2 m) Hc Hf) _ Er); rewrite Hc.
  - rewrite dv_idx. exact Hnd.
  - rewrite dv_power. exact Hquorum.
Qed.

Lemma PC_eqF : PCF = map (dv vals h r hb ph sig peer PRECOMMIT) ms.
Proof.
  unfold PCF, broadcast. apply flat_map_single. intros m Hm. rewrite (proj1 (step2F m Hm)). reflexivity.
Qed.

Theorem sync_round_decides_faulty m : In m ms -> In (ODecide h r hb) (out3F m).
Proof.
  intro Hm. unfold out3F.
  destruct (run (m_env m) (st2F m) (map item_input (L3 m))) as [s' os] eqn:Er. cbn [snd].
  destruct (HL3 m Hm) as [Hc Hf]. rewrite PC_eqF in Hc.
  refine (phase3F (m_env m) h r b hb ph Hhash Hvalid Hone vals cor Hnd cor_bound Hcap vals_nonneg
            (st2F m) (L3 m) s' os (proj2 (step2F m Hm)) _ (items_ok PRECOMMIT (L3 m) Hc Hf) _ Er); rewrite Hc.
  - rewrite dv_idx. exact Hnd.
  - rewrite dv_power. exact Hquorum.
Qed.

Corollary sync_schedule_decides_faulty m :
  In m ms -> In (ODecide h r hb) (concat (snd (run (m_env m) (m_state m) (scheduleF m)))).
Proof.
  intro Hm. rewrite scheduleF_outputs. apply in_or_app. right. apply in_or_app. right.
  apply sync_round_decides_faulty. exact Hm.
Qed.

End NetF.
