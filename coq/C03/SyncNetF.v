(* C03 — the synchronous round of a network of correct validators' machines, closed loop, with
   the faulty validators voting during the round: every machine m handles the proposal and its
   part, then a list L2 m in which the prevotes ALL machines signed in phase 1 occur (in machine
   order) interleaved with arbitrary further prevotes of the round that do not verify under a
   correct validator's key, then a list L3 m with the precommits all machines signed in phase 2
   interleaved likewise.  The interleavings may differ from machine to machine.  Every machine
   decides the proposed block in this round. *)
From Coq Require Import List ZArith NArith Bool Lia.
From TM Require Import C02.Model C02.Setters C02.ProofsVoteSet C02.ProofsLock.
From TM Require Import C03.Round C03.Tally C03.FaultyTally C03.SyncModel C03.SyncFaulty C03.SyncNet.
Import ListNotations.
Open Scope Z_scope.

Lemma in_correct_part d l : In (Correct d) l -> In d (correct_part l).
Proof. intro H. unfold correct_part. apply in_flat_map. exists (Correct d). split; [exact H | left; reflexivity]. Qed.

Lemma correct_part_in d l : In d (correct_part l) -> In (Correct d) l.
Proof.
  intro H. unfold correct_part in H. apply in_flat_map in H as (it & Hit & Hd).
  destruct it as [d0|]; [|contradiction]. destruct Hd as [<-|[]]. exact Hit.
Qed.

Lemma pw_of_power_of vals (l : list machine) :
  pw_of vals (map m_idx l) = fold_right (fun m acc => power_at vals (m_idx m) + acc) 0 l.
Proof. induction l as [|m l IH]; [reflexivity|]. cbn [map pw_of fold_right]. fold (pw_of vals (map m_idx l)). rewrite IH. reflexivity. Qed.

Section NetF.
Variable vals : valset.
Variables h r : Z.
Variable p : proposal.
Variable b : block.
Variable hb : N.
Variable ph : psh.
Variable sig : nat -> N -> N.
Variable peer : nat -> N.
Variable ms : list machine.
Variables L2 L3 : machine -> list item.          (* what each machine is handed in phases 2 and 3 *)

Local Notation cor := (idxs ms).

Definition st2F (m : machine) := fst (run (m_env m) (st1 h p b ph m) (map item_input (L2 m))).
Definition out2F (m : machine) := concat (snd (run (m_env m) (st1 h p b ph m) (map item_input (L2 m)))).
Definition PCF : list delivery := broadcast vals sig peer PRECOMMIT out2F ms.
Definition out3F (m : machine) := concat (snd (run (m_env m) (st2F m) (map item_input (L3 m)))).

Definition scheduleF (m : machine) : list input :=
  proposal_inputs h p b ph ++ map item_input (L2 m) ++ map item_input (L3 m).

Lemma scheduleF_outputs m :
  concat (snd (run (m_env m) (m_state m) (scheduleF m))) = out1 h p b ph m ++ out2F m ++ out3F m.
Proof.
  unfold scheduleF, out1, out2F, out3F, st2F, st1.
  rewrite run_app, concat_app, run_app, concat_app. reflexivity.
Qed.

Hypothesis Hbid : pr_bid p = (hb, ph).
Hypothesis Hhash : b_hash b = hb.
Hypothesis Hvalid : b_valid b = true.
Hypothesis Hone : fst ph = 1%N.
Hypothesis Hnd : NoDup cor.
Hypothesis Hval : forall m, In m ms -> is_validator (m_env m) = true.
Hypothesis Hentry : forall m, In m ms ->
  exists a pw, nth_error vals (m_idx m) = Some (a, pw) /\ a <> 0%N /\ 0 <= pw.
Hypothesis Hready : forall m, In m ms -> ready (m_env m) h r p b hb ph cor vals (m_state m).
Hypothesis Hquorum : quorum vals <= correct_power vals ms.
Hypothesis vals_nonneg : powers_nonneg vals.
(* the validators outside the machines have less than the quorum *)
Hypothesis Hcap : total_power vals - pw_of vals cor < quorum vals.
(* the vote sets of the round satisfy the vote-set invariant, and no correct validator has a vote
   in them for another block id (true of fresh sets, and of reachable ones when the correct
   validators have not voted in the round yet) *)
Hypothesis Hextra : forall m, In m ms -> forall pv pc,
  lookup_round r (hv_sets (cs_votes (m_state m))) = Some (pv, pc) ->
  extra hb ph cor pv /\ extra hb ph cor pc.
(* what is handed to the machines: the correct votes, and faulty votes of the round *)
Hypothesis HL2 : forall m, In m ms ->
  correct_part (L2 m) = PV vals h p b ph sig peer ms /\
  forall v pr, In (Faulty v pr) (L2 m) -> faulty_vote h r cor PREVOTE v.
Hypothesis HL3 : forall m, In m ms ->
  correct_part (L3 m) = PCF /\
  forall v pr, In (Faulty v pr) (L3 m) -> faulty_vote h r cor PRECOMMIT v.

Lemma cor_bound : forall j, In j cor -> (j < length vals)%nat.
Proof.
  intros j Hj. apply in_map_iff in Hj as (m & <- & Hm). destruct (Hentry m Hm) as (a & pw & Hn & _).
  apply nth_error_Some. rewrite Hn. discriminate.
Qed.

Lemma items_ok ty (l : list item) :
  correct_part l = map (dv vals h r hb ph sig peer ty) ms ->
  (forall v pr, In (Faulty v pr) l -> faulty_vote h r cor ty v) ->
  Forall (item_ok h r hb ph vals cor ty) l.
Proof.
  intros Hc Hf. apply Forall_forall. intros [d|v pr] Hit; cbn.
  - pose proof (in_correct_part d l Hit) as Hd. rewrite Hc in Hd.
    pose proof (dv_good vals h r hb ph sig peer ms Hentry ty) as G. rewrite Forall_forall in G.
    split; [apply G; exact Hd|]. apply in_map_iff in Hd as (m & <- & Hm). apply in_map_iff. exists m. auto.
  - exact (Hf v pr Hit).
Qed.

Lemma step1F m : In m ms ->
  out1 h p b ph m = [OSignVote PREVOTE h r (Bid hb ph)] /\ ready2F h r p b hb ph vals cor (st1 h p b ph m).
Proof.
  intro Hm. unfold out1, st1.
  destruct (run (m_env m) (m_state m) (proposal_inputs h p b ph)) as [s' os] eqn:Er. cbn [fst snd].
  destruct (phase1 (m_env m) h r p b hb ph Hbid Hhash Hone (Hval m Hm) cor vals (m_state m) s' os (Hready m Hm) Er)
    as (A & (pv & pc & HP & Rv & Rc) & Ev).
  split; [exact A|]. exists pv, pc. split; [exact HP|]. split; [exact Rv|]. split; [exact Rc|].
  destruct HP as (_ & L & _). rewrite Ev in L. exact (Hextra m Hm pv pc L).
Qed.

Lemma PV_eqF : PV vals h p b ph sig peer ms = map (dv vals h r hb ph sig peer PREVOTE) ms.
Proof.
  unfold PV, broadcast. apply flat_map_single. intros m Hm. rewrite (proj1 (step1F m Hm)). reflexivity.
Qed.

Lemma step2F m : In m ms ->
  signed PRECOMMIT (out2F m) = [(h, r, Bid hb ph)] /\ ready3F h r b hb ph vals cor (st2F m).
Proof.
  intro Hm. unfold out2F, st2F.
  destruct (run (m_env m) (st1 h p b ph m) (map item_input (L2 m))) as [s' os] eqn:Er. cbn [fst snd].
  destruct (HL2 m Hm) as [Hc Hf]. rewrite PV_eqF in Hc.
  refine (phase2F (m_env m) h r p b hb ph Hhash Hvalid Hone (Hval m Hm) vals cor Hnd cor_bound Hcap vals_nonneg
            (st1 h p b ph m) (L2 m) s' os (proj2 (step1F m Hm)) _ (items_ok PREVOTE (L2 m) Hc Hf) _ Er); rewrite Hc.
  - rewrite dv_idx. exact Hnd.
  - rewrite dv_power. exact Hquorum.
Qed.

Lemma PC_eqF : PCF = map (dv vals h r hb ph sig peer PRECOMMIT) ms.
Proof.
  unfold PCF, broadcast. apply flat_map_single. intros m Hm. rewrite (proj1 (step2F m Hm)). reflexivity.
Qed.

Theorem sync_round_decides_faulty m : In m ms -> In (ODecide h r hb) (out3F m).
Proof.
  intro Hm. unfold out3F.
  destruct (run (m_env m) (st2F m) (map item_input (L3 m))) as [s' os] eqn:Er. cbn [snd].
  destruct (HL3 m Hm) as [Hc Hf]. rewrite PC_eqF in Hc.
  refine (phase3F (m_env m) h r b hb ph Hhash Hvalid Hone vals cor Hnd cor_bound Hcap vals_nonneg
            (st2F m) (L3 m) s' os (proj2 (step2F m Hm)) _ (items_ok PRECOMMIT (L3 m) Hc Hf) _ Er); rewrite Hc.
  - rewrite dv_idx. exact Hnd.
  - rewrite dv_power. exact Hquorum.
Qed.

Corollary sync_schedule_decides_faulty m :
  In m ms -> In (ODecide h r hb) (concat (snd (run (m_env m) (m_state m) (scheduleF m)))).
Proof.
  intro Hm. rewrite scheduleF_outputs. apply in_or_app. right. apply in_or_app. right.
  apply sync_round_decides_faulty. exact Hm.
Qed.

End NetF.

(* ---------------------------------------------------------------- the link to C03/Sync.v, faulty votes included *)
From TM Require C03.Sync C03.SyncWeak.

Section LinkF.
Variable vals : valset.
Variables h r : Z.
Variable p : proposal.
Variable b : block.
Variable hb : N.
Variable ph : psh.
Variable sig : nat -> N -> N.
Variable peer : nat -> N.
Variable ms : list machine.
Variables L2 L3 : machine -> list item.

Theorem sync_round_decides_on_model_faulty (pol : list Sync.polka) (fresh : Sync.value) (mp : machine) (faulty_power : Z) :
  pr_bid p = (hb, ph) -> b_hash b = hb -> b_valid b = true -> fst ph = 1%N ->
  NoDup (map m_idx ms) ->
  (forall m, In m ms -> is_validator (m_env m) = true) ->
  (forall m, In m ms -> exists a pw, nth_error vals (m_idx m) = Some (a, pw) /\ a <> 0%N /\ 0 <= pw) ->
  (forall m, In m ms -> ready_core (m_env m) h r p b hb ph (map m_idx ms) vals (m_state m) /\ lock_wf r b hb ph (m_state m)) ->
  SyncWeak.InvL pol (nodes vals ms) ->
  (forall m q, In m ms -> In q pol -> fst q <= r /\ holds_polka (m_state m) q) ->
  In mp ms ->
  hb = Sync.proposal_of fresh (Sync.unlock pol (abs (power_of vals (m_idx mp)) (m_state mp))) ->
  total_power vals = Sync.total_power (nodes vals ms) + faulty_power -> 0 <= faulty_power ->
  3 * faulty_power < total_power vals ->
  ((forall n, In n (map (Sync.unlock pol) (nodes vals ms)) -> Sync.n_lock n = None) \/
   (exists star, Sync.is_latest pol star /\ snd star = Some hb)) ->
  (* the faulty validators vote during the round *)
  powers_nonneg vals ->
  (forall m, In m ms -> forall pv pc,
     lookup_round r (hv_sets (cs_votes (m_state m))) = Some (pv, pc) ->
     extra hb ph (idxs ms) pv /\ extra hb ph (idxs ms) pc) ->
  (forall m, In m ms ->
     correct_part (L2 m) = PV vals h p b ph sig peer ms /\
     (forall v pr, In (Faulty v pr) (L2 m) -> faulty_vote h r (idxs ms) PREVOTE v)) ->
  (forall m, In m ms ->
     correct_part (L3 m) = PCF vals h p b ph sig peer ms L2 /\
     (forall v pr, In (Faulty v pr) (L3 m) -> faulty_vote h r (idxs ms) PRECOMMIT v)) ->
  forall m, In m ms ->
    In (ODecide h r hb) (concat (snd (run (m_env m) (m_state m) (scheduleF h p b ph L2 L3 m)))).
Proof.
  intros Hbid Hhash Hvalid Hone Hnd Hval Hentry Hrdy HInv Hset Hmp Hprop Htot Hf H3 Hprem Hnn Hextra HL2 HL3 m Hm.
  assert (Hpn : In (abs (power_of vals (m_idx mp)) (m_state mp)) (nodes vals ms)).
  { unfold nodes. apply in_map_iff. exists mp. auto. }
  pose proof (SyncWeak.good_round_prevotes pol (nodes vals ms) hb HInv Hprem) as Un.
  assert (Hlock : forall m0, In m0 ms -> lock_ok r b ph (unlock_known r (m_state m0))).
  { intros m0 Hm0.
    assert (Hn : In (Sync.unlock pol (abs (power_of vals (m_idx m0)) (m_state m0))) (map (Sync.unlock pol) (nodes vals ms))).
    { apply in_map. unfold nodes. apply in_map_iff. exists m0. auto. }
    apply (sync_lock_ok r b hb ph pol (power_of vals (m_idx m0)) (m_state m0) (proj2 (Hrdy m0 Hm0)));
      [intros q Hq; exact (Hset m0 q Hm0 Hq) | exact (Un _ Hn)]. }
  assert (Hcp : correct_power vals ms = total_power vals - faulty_power).
  { unfold nodes in Htot. rewrite total_power_nodes in Htot. lia. }
  assert (Epw : pw_of vals (idxs ms) = correct_power vals ms).
  { unfold idxs. rewrite pw_of_power_of. unfold correct_power.
    assert (forall l : list machine, (forall m0, In m0 l -> In m0 ms) ->
              fold_right (fun m0 acc => power_at vals (m_idx m0) + acc) 0 l =
              fold_right (fun m0 acc => power_of vals (m_idx m0) + acc) 0 l) as A.
    { induction l as [|m0 l IH]; intro Hl; [reflexivity|]. cbn [fold_right]. rewrite IH by (intros; apply Hl; right; assumption).
      f_equal. destruct (Hentry m0 (Hl m0 (or_introl eq_refl))) as (a & pw & Hn & _).
      unfold power_at, power_of. rewrite Hn. rewrite (nth_error_nth _ _ (0%N, 0) Hn). reflexivity. }
    apply A. auto. }
  assert (Q : total_power vals * 2 / 3 < correct_power vals ms) by (apply Z.div_lt_upper_bound; lia).
  apply (sync_schedule_decides_faulty vals h r p b hb ph sig peer ms L2 L3); try assumption.
  - intros m0 Hm0. split; [exact (proj1 (Hrdy m0 Hm0)) | exact (Hlock m0 Hm0)].
  - unfold quorum. lia.
  - rewrite Epw. unfold quorum. assert (0 <= total_power vals * 2 / 3) by (apply Z.div_pos; lia). 
    assert (total_power vals - correct_power vals ms = faulty_power) by lia.
    (* faulty_power < 2/3 total + 1 because 3 * faulty_power < total *)
    assert (faulty_power <= total_power vals * 2 / 3) by (apply Z.div_le_lower_bound; lia). lia.
Qed.

End LinkF.

(* ---------------------------------------------------------------- Sync.v's clauses inv_lock / inv_valid from reachability *)
From TM Require Import C03.Backed.

Theorem reachable_abs_backed (E : env) (height : Z) (lc : option voteset) (ins : list input) (pw : Z) (pol : list Sync.polka) :
  let s := fst (run E (init_state E height lc) ins) in
  (* pol contains the polkas the machine holds *)
  (forall rr v ph, o_maj23 (prevotes (cs_votes s) rr) = Some (Some (v, ph)) -> In (rr, Some v) pol) ->
  (forall lr lv, Sync.n_lock (abs pw s) = Some (lr, lv) -> In (lr, Some lv) pol) /\
  (forall vr vv, Sync.n_valid (abs pw s) = Some (vr, vv) -> In (vr, Some vv) pol).
Proof.
  intros s Hpol. destruct (reachable_backed E height lc ins) as [BL BV]. fold s in BL, BV.
  unfold abs. cbn [Sync.n_lock Sync.n_valid]. split.
  - intros lr lv H. destruct (cs_lblock s) as [lb|] eqn:El; [|discriminate]. injection H as <- <-.
    destruct (BL lb eq_refl) as (ph & Hm). eapply Hpol. exact Hm.
  - intros vr vv H. destruct (cs_vblock s) as [vb|] eqn:Ev; [|discriminate]. injection H as <- <-.
    destruct (BV vb eq_refl) as (ph & Hm). eapply Hpol. exact Hm.
Qed.
