(* C03 — synchronous rounds IN SEQUENCE at the value level (Sync.v / SyncWeak.v): a concrete
   round relation that includes the NON-deciding outcomes, the discharge of the hypothesis
   [step_inv] of Sync.termination_partial for it, the termination statement, and the
   configuration of finding F83 in which no round ever decides.

   One synchronous round r from configuration (pol, nodes):
     - every correct node applies the unlock rule with the known polkas (prevote step, F70);
     - the proposer sent [prop] (None: silent); node i received it iff [recv i] (a correct
       proposer reaches everybody, a faulty one whom it likes);
     - a node prevotes its locked value if locked, else the proposal if it received it, else nil;
     - [pk]: the polka of the round, if any, as seen by every correct node before the prevote-wait
       timeout (None: none; Some None: for nil; Some (Some v): for v) - which polkas are possible
       depends on the faulty validators' votes: the relation allows ANY, so what is proved holds
       against every adversary;
     - on a polka for v: a node that received the proposal v locks v and takes it as valid block
       (round r); a node locked on v that did not receive it RE-LOCKS v (round r) and KEEPS its
       valid block (enterPrecommit, the code as it is - the step of finding F83); a node
       locked on something else, or not holding v, ends unlocked; on a polka for nil everybody
       ends unlocked; without polka only the unlock rule has been applied. *)
From Coq Require Import List ZArith NArith Bool Lia.
From TM Require Import C03.Sync C03.SyncWeak.
Import ListNotations.
Open Scope Z_scope.

Definition config := (list polka * list node)%type.

Definition set_lock (l : option (Z * value)) (n : node) : node :=
  {| n_power := n_power n; n_lock := l; n_valid := n_valid n |}.

Definition prevote_opt (prop : option value) (ng : node * bool) : option value :=
  match n_lock (fst ng) with
  | Some (_, lv) => Some lv
  | None => if snd ng then prop else None
  end.

Definition opt_is (x : option value) (v : value) : bool :=
  match x with Some y => (y =? v)%N | None => false end.

Definition update (r : Z) (prop : option value) (pk : option (option value)) (ng : node * bool) : node :=
  let n := fst ng in
  match pk with
  | None => n
  | Some None => set_lock None n
  | Some (Some v) =>
    if snd ng && opt_is prop v
    then {| n_power := n_power n; n_lock := Some (r, v); n_valid := Some (r, v) |}
    else match n_lock n with
         | Some (_, lv) => if (lv =? v)%N then set_lock (Some (r, v)) n else set_lock None n
         | None => n
         end
  end.

Definition next_pol (r : Z) (pk : option (option value)) (pol : list polka) : list polka :=
  match pk with Some x => (r, x) :: pol | None => pol end.

Inductive sync_step (r : Z) : config -> config -> Prop :=
| sync_step_intro pol nodes prop recv pk :
    length recv = length nodes ->
    (forall q, In q pol -> fst q < r) ->
    sync_step r (pol, nodes)
              (next_pol r pk pol, map (update r prop pk) (combine (map (unlock pol) nodes) recv)).

(* ---------------------------------------------------------------- the invariant is preserved *)

Lemma unlock_cases pol n :
  unlock pol n = n \/ (unlock pol n = set_lock None n /\ n_lock n <> None).
Proof.
  unfold unlock. destruct (n_lock n) as [[lr lv]|] eqn:El; [|left; reflexivity].
  destruct (existsb (releases lr lv) pol); [right; split; [reflexivity | discriminate] | left; reflexivity].
Qed.

(* after the unlock rule, a node that is still locked holds its locked value as valid value *)
Lemma still_locked_valid pol nodes n lr lv :
  Inv' pol nodes -> In n nodes -> n_lock (unlock pol n) = Some (lr, lv) ->
  n_lock n = Some (lr, lv) /\ exists vr, n_valid n = Some (vr, lv).
Proof.
  intros I Hn Hl. unfold unlock in Hl.
  destruct (n_lock n) as [[lr0 lv0]|] eqn:El; [|rewrite El in Hl; discriminate].
  destruct (existsb (releases lr0 lv0) pol) eqn:Ex; [cbn in Hl; discriminate|].
  rewrite El in Hl. injection Hl as <- <-. split; [reflexivity|].
  destruct (inv'_lock_valid pol nodes I n lr0 lv0 Hn El) as (vr & vv & Ev & Hle).
  exists vr. rewrite Ev. f_equal. f_equal.
  destruct Hle as [Hle|Hle]; [|exact Hle].
  pose proof (inv'_valid pol nodes I n vr vv Hn Ev) as Hv.
  pose proof (inv'_lock pol nodes I n lr0 lv0 Hn El) as Hown.
  assert (R : releases lr0 lv0 (vr, Some vv) = false).
  { destruct (releases lr0 lv0 (vr, Some vv)) eqn:R; [|reflexivity].
    assert (existsb (releases lr0 lv0) pol = true) by (apply existsb_exists; exists (vr, Some vv); auto). congruence. }
  unfold releases in R. cbn in R. apply andb_false_iff in R as [R|R].
  - apply Z.ltb_ge in R. assert (vr = lr0) by lia. subst vr.
    pose proof (inv'_one_per_round pol nodes I lr0 (Some vv) (Some lv0) Hv Hown) as E. injection E as ->. reflexivity.
  - apply negb_false_iff in R. apply N.eqb_eq in R. exact R.
Qed.

Lemma in_combine_map_l {A B C} (f : A -> B) (l : list A) (l' : list C) x y :
  In (x, y) (combine (map f l) l') -> exists a, In a l /\ x = f a.
Proof.
  intro H. apply in_combine_l in H. apply in_map_iff in H as (a & <- & Ha). eauto.
Qed.

Theorem sync_step_preserves_Inv' r c c' :
  Inv' (fst c) (snd c) -> sync_step r c c' -> Inv' (fst c') (snd c').
Proof.
  intros I S. destruct S as [pol nodes prop recv pk Hlen Hfresh]. cbn [fst snd] in *.
  assert (Sub : forall q, In q pol -> In q (next_pol r pk pol)).
  { intros q Hq. unfold next_pol. destruct pk; [right|]; exact Hq. }
  (* every node of the new configuration comes from a node n0 of the old one *)
  assert (Src : forall n', In n' (map (update r prop pk) (combine (map (unlock pol) nodes) recv)) ->
                exists n0 got, In n0 nodes /\ n' = update r prop pk (unlock pol n0, got)).
  { intros n' Hn'. apply in_map_iff in Hn' as ([n1 got] & <- & Hc).
    destruct (in_combine_map_l _ _ _ _ _ Hc) as (n0 & Hn0 & ->). exists n0, got. auto. }
  (* the valid value never changes except to (r, v) under a polka for v *)
  assert (Val : forall n0 got vr vv, In n0 nodes -> n_valid (update r prop pk (unlock pol n0, got)) = Some (vr, vv) ->
                  In (vr, Some vv) (next_pol r pk pol)).
  { intros n0 got vr vv Hn0 Hv.
    assert (Vu : n_valid (unlock pol n0) = n_valid n0) by (destruct (unlock_cases pol n0) as [-> | [-> _]]; reflexivity).
    unfold update in Hv. cbn [fst snd] in Hv.
    destruct pk as [[v|]|]; cbn [next_pol].
    - destruct (got && opt_is prop v).
      + cbn in Hv. injection Hv as <- <-. left. reflexivity.
      + right. apply (inv'_valid pol nodes I n0 vr vv Hn0).
        destruct (n_lock (unlock pol n0)) as [[lr lv]|]; [destruct ((lv =? v)%N)|]; cbn in Hv; congruence.
    - right. apply (inv'_valid pol nodes I n0 vr vv Hn0). cbn in Hv. congruence.
    - apply (inv'_valid pol nodes I n0 vr vv Hn0). congruence. }
  constructor.
  - (* locks are backed *)
    intros n' lr lv Hn' Hl. destruct (Src n' Hn') as (n0 & got & Hn0 & ->).
    unfold update in Hl. cbn [fst snd] in Hl.
    destruct pk as [[v|]|]; cbn [next_pol].
    + destruct (got && opt_is prop v).
      * cbn in Hl. injection Hl as <- <-. left. reflexivity.
      * destruct (n_lock (unlock pol n0)) as [[lr0 lv0]|] eqn:El.
        -- destruct ((lv0 =? v)%N) eqn:Ev; cbn in Hl; [|discriminate]. injection Hl as <- <-. left. reflexivity.
        -- rewrite El in Hl. discriminate.
    + cbn in Hl. discriminate.
    + destruct (still_locked_valid pol nodes n0 lr lv I Hn0 Hl) as [El _].
      exact (inv'_lock pol nodes I n0 lr lv Hn0 El).
  - (* valid values are backed *)
    intros n' vr vv Hn' Hv. destruct (Src n' Hn') as (n0 & got & Hn0 & ->). eapply Val; eassumption.
  - (* locked => valid round not below, or same value *)
    intros n' lr lv Hn' Hl. destruct (Src n' Hn') as (n0 & got & Hn0 & ->).
    unfold update in Hl |- *. cbn [fst snd] in Hl |- *.
    destruct pk as [[v|]|].
    + destruct (got && opt_is prop v).
      * cbn in Hl |- *. injection Hl as <- <-. exists r, v. split; [reflexivity | left; lia].
      * destruct (n_lock (unlock pol n0)) as [[lr0 lv0]|] eqn:El.
        -- destruct ((lv0 =? v)%N) eqn:Ev; cbn in Hl |- *; [|discriminate]. injection Hl as <- <-.
           apply N.eqb_eq in Ev. subst lv0.
           destruct (still_locked_valid pol nodes n0 lr0 v I Hn0 El) as [_ (vr & Evv)].
           assert (Vu : n_valid (unlock pol n0) = n_valid n0) by (destruct (unlock_cases pol n0) as [-> | [-> _]]; reflexivity).
           exists vr, v. split; [congruence | right; reflexivity].
        -- rewrite El in Hl. discriminate.
    + cbn in Hl. discriminate.
    + destruct (still_locked_valid pol nodes n0 lr lv I Hn0 Hl) as [_ (vr & Evv)].
      assert (Vu : n_valid (unlock pol n0) = n_valid n0) by (destruct (unlock_cases pol n0) as [-> | [-> _]]; reflexivity).
      exists vr, lv. split; [congruence | right; reflexivity].
  - (* one polka per round: the new one is for a round above all known ones *)
    intros rr x y Hx Hy. unfold next_pol in Hx, Hy. destruct pk as [z|].
    + destruct Hx as [Hx|Hx], Hy as [Hy|Hy].
      * congruence.
      * injection Hx as <- <-. pose proof (Hfresh _ Hy). cbn in *. lia.
      * injection Hy as <- <-. pose proof (Hfresh _ Hx). cbn in *. lia.
      * exact (inv'_one_per_round pol nodes I rr x y Hx Hy).
    + exact (inv'_one_per_round pol nodes I rr x y Hx Hy).
Qed.

(* ---------------------------------------------------------------- termination, value level *)

Inductive sync_reach : Z -> nat -> config -> config -> Prop :=
| sync_reach_0 r c : sync_reach r 0 c c
| sync_reach_S r k c c1 c2 : sync_step r c c1 -> sync_reach (r + 1) k c1 c2 -> sync_reach r (S k) c c2.

Lemma sync_reach_Inv' r k c c' : Inv' (fst c) (snd c) -> sync_reach r k c c' -> Inv' (fst c') (snd c').
Proof.
  intros I R. induction R as [|r k c c1 c2 S R IH]; [exact I|]. apply IH. eapply sync_step_preserves_Inv'; eassumption.
Qed.

(* after any k synchronous rounds r0 .. r0+k-1 (whatever the proposers and the faulty validators
   did in them), round r0+k decides if its proposer is a correct node that is still locked after
   the unlock rule, or any correct node when nobody is: all correct nodes prevote its proposal,
   +2/3 from the correct nodes alone *)
Theorem termination_value_level r0 k c c' proposer fresh total faulty_power :
  Inv' (fst c) (snd c) -> sync_reach r0 k c c' -> In proposer (snd c') ->
  total = total_power (snd c') + faulty_power -> 0 <= faulty_power -> 3 * faulty_power < total ->
  ((forall n, In n (map (unlock (fst c')) (snd c')) -> n_lock n = None) \/
   (exists lr lv, n_lock (unlock (fst c') proposer) = Some (lr, lv))) ->
  (exists star, is_latest (fst c') star) ->
  let prop := proposal_of fresh (unlock (fst c') proposer) in
  (forall n, In n (map (unlock (fst c')) (snd c')) -> prevote_of prop n = prop) /\
  3 * power_for prop (map (fun n => (n, prevote_of prop n)) (map (unlock (fst c')) (snd c'))) > 2 * total.
Proof.
  intros I R Hp Ht Hf H3 Hgood (star & Hstar) prop.
  pose proof (sync_reach_Inv' r0 k c c' I R) as I'.
  apply (good_round_decides' (fst c') (snd c') proposer fresh total faulty_power I' Hp Ht Hf H3).
  destruct Hgood as [Hn | (lr & lv & Hl)]; [left; exact Hn|].
  right. exists star. split; [exact Hstar|].
  exact (locked_node_is_good_proposer' (fst c') (snd c') proposer lr lv fresh star I' Hstar Hp Hl).
Qed.

(* ---------------------------------------------------------------- a correct proposer's round, faulty silent:
   it decides or it changes nothing *)

Definition power_opt (x : option value) (votes : list (node * option value)) : Z :=
  fold_right (fun nv acc => (if match snd nv, x with
                                   | Some a, Some b => (a =? b)%N
                                   | None, None => true
                                   | _, _ => false
                                   end then n_power (fst nv) else 0) + acc) 0 votes.

Definition prevotes_of (prop : option value) (l : list (node * bool)) : list (node * option value) :=
  map (fun ng => (fst ng, prevote_opt prop ng)) l.

(* no polka: the configuration after the round is the configuration after the unlock rule, and
   the unlock rule is idempotent: a second round without polka changes nothing at all *)
Lemma unlock_idem pol n : unlock pol (unlock pol n) = unlock pol n.
Proof.
  destruct (unlock_cases pol n) as [E | [E _]]; rewrite E; [exact E | reflexivity].
Qed.

Lemma map_fst_combine {A B} (l : list A) (l' : list B) : length l' = length l -> map fst (combine l l') = l.
Proof.
  revert l'. induction l as [|a l IH]; intros [|b l'] H; cbn in *; try reflexivity; try discriminate.
  f_equal. apply IH. lia.
Qed.

Theorem quiet_round_only_unlocks r pol nodes c' :
  sync_step r (pol, nodes) c' -> fst c' = pol -> c' = (pol, map (unlock pol) nodes) \/ exists x, fst c' = (r, x) :: pol.
Proof.
  intros S _. inversion S as [pol0 nodes0 prop recv pk Hlen Hfresh E1 E2]. subst.
  destruct pk as [x|]; [right; exists x; reflexivity|]. left. cbn [next_pol]. f_equal.
  unfold update. rewrite <- (map_map fst (fun n => n)), map_id.
  apply map_fst_combine. rewrite map_length. exact Hlen.
Qed.

(* ================================================================== finding F83 at the value level

   The configuration the replay produces (X = 5, Y = 7; total power 40, faulty power 10):
   A locked on X since round 6 with valid value Y of round 2, B and C unlocked with valid value
   Y of round 1.  Inv' fails (clause lock/valid).  Whoever of A, B, C proposes - they all propose
   Y - A prevotes X and B, C prevote Y; when the faulty D is proposer (silent) A prevotes X and
   B, C nil: in every case no value, nor nil, has +2/3 of the total from the correct nodes; with
   the faulty validator silent no polka forms, the configuration is unchanged, and the next round
   is the same: no round ever decides. *)
Definition f83_pol : list polka := [(6, Some 5%N); (3, None); (2, Some 7%N); (1, Some 7%N); (0, Some 5%N)].
Definition f83_A := {| n_power := 10; n_lock := Some (6, 5%N); n_valid := Some (2, 7%N) |}.
Definition f83_B := {| n_power := 10; n_lock := None; n_valid := Some (1, 7%N) |}.
Definition f83_nodes : list node := [f83_A; f83_B; f83_B].

Theorem f83_not_Inv' : ~ Inv' f83_pol f83_nodes.
Proof.
  intros [_ _ C _]. destruct (C f83_A 6 5%N (or_introl eq_refl) eq_refl) as (vr & vv & Ev & Hle).
  cbn in Ev. injection Ev as <- <-. destruct Hle as [Hle|Hle]; [lia | discriminate].
Qed.

(* the unlock rule changes nothing; every correct proposer proposes Y; no value and not nil reaches
   +2/3 of 40 among the correct prevotes, with a correct proposer (everybody receives the
   proposal) or with a silent one *)
Theorem f83_no_quorum :
  map (unlock f83_pol) f83_nodes = f83_nodes /\
  (forall p fresh, In p f83_nodes -> proposal_of fresh (unlock f83_pol p) = 7%N) /\
  (forall x, 3 * power_opt x (prevotes_of (Some 7%N) (combine f83_nodes [true; true; true])) <= 2 * 40) /\
  (forall x, 3 * power_opt x (prevotes_of None (combine f83_nodes [true; true; true])) <= 2 * 40).
Proof.
  split; [reflexivity|]. split.
  { intros p fresh [<-|[<-|[<-|[]]]]; reflexivity. }
  split; (intros [x|]; [|vm_compute; discriminate]);
    (destruct (N.eq_dec x 5) as [->|N5]; [vm_compute; discriminate|]);
    (destruct (N.eq_dec x 7) as [->|N7]; [vm_compute; discriminate|]);
    unfold power_opt, prevotes_of, f83_nodes, f83_A, f83_B, prevote_opt;
    cbn [map combine fold_right fst snd n_lock n_power];
    rewrite ?(proj2 (N.eqb_neq 5 x)) by congruence; rewrite ?(proj2 (N.eqb_neq 7 x)) by congruence; lia.
Qed.

(* hence: a round without polka leaves the configuration exactly as it is - for ever *)
Theorem f83_livelock : forall k r c',
  (forall q, In q f83_pol -> fst q < r) ->
  sync_reach r k (f83_pol, f83_nodes) c' ->
  fst c' = f83_pol -> c' = (f83_pol, f83_nodes).
Proof.
  induction k as [|k IH]; intros r c' Hr R Hp.
  - inversion R; subst. reflexivity.
  - inversion R as [|r0 k0 c0 c1 c2 S R' E1 E2 E3]; subst.
    assert (Mono : forall r1 k1 a b, sync_reach r1 k1 a b -> forall q, In q (fst a) -> In q (fst b)).
    { intros r1 k1 a b Rab. induction Rab as [|r2 k2 a a1 a2 S2 R2 IH2]; [auto|].
      intros q Hq. apply IH2. destruct S2 as [pol nodes prop recv pk Hlen Hfresh]. cbn [fst] in *.
      unfold next_pol. destruct pk; [right|]; exact Hq. }
    assert (P1 : fst c1 = f83_pol).
    { inversion S as [pol nodes prop recv pk Hlen Hfresh E1 E2]. subst. cbn [fst]. destruct pk as [x|]; [|reflexivity].
      exfalso. pose proof (Mono _ _ _ _ R' (r, x) (or_introl eq_refl)) as Hin. rewrite Hp in Hin.
      pose proof (Hr _ Hin). cbn in *. lia. }
    destruct (quiet_round_only_unlocks r f83_pol f83_nodes c1 S P1) as [E|(x & E)].
    + rewrite E in R'. change (map (unlock f83_pol) f83_nodes) with f83_nodes in R'.
      apply (IH (r + 1) c' ltac:(intros q Hq; pose proof (Hr q Hq); lia) R' Hp).
    + rewrite P1 in E. exfalso. assert (L : length f83_pol = length ((r, x) :: f83_pol)) by (rewrite <- E; reflexivity).
      cbn in L. lia.
Qed.

(* ================================================================== the first correct proposer may waste
   its round (Inv' holds): A locked on X = 5 since round 0 (valid X), B and C unlocked without
   valid value, one polka known.  B's round: B proposes a new value 9, A prevotes X: no value
   reaches +2/3; A's round: A proposes X, everybody prevotes X: decision. *)
Definition fw_pol : list polka := [(0, Some 5%N)].
Definition fw_A := {| n_power := 10; n_lock := Some (0, 5%N); n_valid := Some (0, 5%N) |}.
Definition fw_B := {| n_power := 10; n_lock := None; n_valid := None |}.
Definition fw_nodes : list node := [fw_A; fw_B; fw_B].

Theorem first_correct_proposer_may_waste :
  Inv' fw_pol fw_nodes /\
  (let prop := proposal_of 9%N (unlock fw_pol fw_B) in
   prop = 9%N /\ forall v, 3 * power_for v (map (fun n => (n, prevote_of prop n)) (map (unlock fw_pol) fw_nodes)) <= 2 * 40) /\
  (let prop := proposal_of 9%N (unlock fw_pol fw_A) in
   prop = 5%N /\ 3 * power_for prop (map (fun n => (n, prevote_of prop n)) (map (unlock fw_pol) fw_nodes)) > 2 * 40).
Proof.
  split.
  { constructor.
    - intros n lr lv [<-|[<-|[<-|[]]]] H; try discriminate. injection H as <- <-. left. reflexivity.
    - intros n vr vv [<-|[<-|[<-|[]]]] H; try discriminate. injection H as <- <-. left. reflexivity.
    - intros n lr lv [<-|[<-|[<-|[]]]] H; try discriminate. injection H as <- <-. exists 0, 5%N. split; [reflexivity | left; lia].
    - intros rr x y [H1|[]] [H2|[]]. congruence. }
  split; cbv zeta.
  - split; [reflexivity|]. intro v.
    destruct (N.eq_dec v 5) as [->|N5]; [vm_compute; discriminate|].
    destruct (N.eq_dec v 9) as [->|N9]; [vm_compute; discriminate|].
    change (map (unlock fw_pol) fw_nodes) with fw_nodes. change (proposal_of 9%N (unlock fw_pol fw_B)) with 9%N.
    unfold power_for, fw_nodes, fw_A, fw_B, prevote_of.
    cbn [map fold_right fst snd n_lock n_power].
    rewrite ?(proj2 (N.eqb_neq 5 v)) by congruence. rewrite ?(proj2 (N.eqb_neq 9 v)) by congruence. lia.
  - split; [reflexivity|]. vm_compute. reflexivity.
Qed.

(* non-vacuity of the round relation and of termination_value_level: from the configuration above,
   B's wasted round 1 (no polka), then C's wasted round 2 in which the faulty validator completes a
   polka for C's value 8 that everybody received: all three lock 8; round 3 decides with any
   correct proposer *)
Example fw_two_rounds :
  sync_reach 1 2 (fw_pol, fw_nodes)
             ([(2, Some 8%N); (0, Some 5%N)],
              [ {| n_power := 10; n_lock := Some (2, 8%N); n_valid := Some (2, 8%N) |};
                {| n_power := 10; n_lock := Some (2, 8%N); n_valid := Some (2, 8%N) |};
                {| n_power := 10; n_lock := Some (2, 8%N); n_valid := Some (2, 8%N) |} ]).
Proof.
  eapply sync_reach_S.
  - apply (sync_step_intro 1 fw_pol fw_nodes (Some 9%N) [true; true; true] None); [reflexivity|].
    intros q [<-|[]]; cbn; lia.
  - cbn [next_pol]. eapply sync_reach_S.
    + apply (sync_step_intro 2 fw_pol _ (Some 8%N) [true; true; true] (Some (Some 8%N))); [reflexivity|].
      intros q [<-|[]]; cbn; lia.
    + vm_compute. apply sync_reach_0.
Qed.
