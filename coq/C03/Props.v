(* C03 — Termination: correct nodes decide once the network behaves.  Statements only.

   What is proved is the decision logic: from ANY configuration satisfying the reachable
   invariant (locks backed by polkas, valid blocks backed by polkas, one polka per round — the
   consequences of C02/C01; "regardless of what happened before"), in a synchronous round
   (every correct node knows every polka formed so far):
     - C03_unlock_convergence: every node still locked after the unlock rule is locked on the
       block of the latest polka and holds it as its valid block;
     - C03_good_round_decides: if the (correct) proposer proposes that block, or nobody is
       locked, all correct nodes prevote the proposal: +2/3 from the correct nodes alone,
       whatever the faulty validators do, hence precommits and decision in that round;
     - C03_locked_node_is_good_proposer: every still-locked correct validator (and any correct
       validator when nobody is locked) is such a proposer, so the wait is bounded by the
       proposer rotation (C08_proposer_window; C08_turns_exact_periods);
     - C03_termination_partial: the first round whose proposer meets the condition decides,
       given that the rounds before it preserve the invariant;
     - C03_commit_without_block: a node that saw the commit but not the block finalises when
       the block arrives (proved on the code's state-machine model, one-part block).
   PARTIAL, named: real time (that messages arrive before timeouts is the schedule's
   assumption; growth of timeouts with the round is not modelled), the gossip reactor, the
   preservation of the invariant by non-deciding rounds in the full state machine
   (a hypothesis of C03_termination_partial), and the mechanised link between the value-level
   rules of Sync.v and C02/Model.v.  The simulation harness (C03/Exec.v) runs real
   consensus.State objects through adversarial prefixes followed by a synchronous suffix and
   checks that every correct node decides within 2n+2 rounds. *)
From Coq Require Import List ZArith NArith Bool.
From TM Require Import C02.Model C03.Sync C03.Commit C03.Exec.
Import ListNotations.
Open Scope Z_scope.

Theorem C03_unlock_convergence :
  forall (pol : list polka) (nodes : list node) (n : node) (lr : Z) (lv : value) (star : polka),
    Inv pol nodes -> is_latest pol star -> In n nodes ->
    n_lock (unlock pol n) = Some (lr, lv) ->
    snd star = Some lv /\ exists vr, n_valid (unlock pol n) = Some (vr, lv).
Proof. exact unlock_convergence. Qed.
Print Assumptions C03_unlock_convergence.

Theorem C03_good_round_decides :
  forall (pol : list polka) (nodes : list node) (proposer : node) (fresh : value) (total faulty_power : Z),
    Inv pol nodes -> In proposer nodes ->
    total = Sync.total_power nodes + faulty_power -> 0 <= faulty_power -> 3 * faulty_power < total ->
    let nodes' := map (unlock pol) nodes in
    let prop := proposal_of fresh (unlock pol proposer) in
    ((forall n, In n nodes' -> n_lock n = None) \/
     (exists star, is_latest pol star /\ snd star = Some prop)) ->
    (forall n, In n nodes' -> prevote_of prop n = prop) /\
    3 * power_for prop (map (fun n => (n, prevote_of prop n)) nodes') > 2 * total.
Proof. exact good_round_decides. Qed.
Print Assumptions C03_good_round_decides.

Theorem C03_locked_node_is_good_proposer :
  forall (pol : list polka) (nodes : list node) (n : node) (lr : Z) (lv fresh : value) (star : polka),
    Inv pol nodes -> is_latest pol star -> In n nodes ->
    n_lock (unlock pol n) = Some (lr, lv) ->
    snd star = Some (proposal_of fresh (unlock pol n)).
Proof. exact locked_node_is_good_proposer. Qed.
Print Assumptions C03_locked_node_is_good_proposer.

Theorem C03_termination_partial :
  forall (step_ok : list polka * list node -> list polka * list node -> Prop),
    (forall c c', Inv (fst c) (snd c) -> step_ok c c' -> Inv (fst c') (snd c')) ->
  forall (k : nat) (c c' : list polka * list node) (proposer : node) (fresh : value) (total faulty_power : Z),
    Inv (fst c) (snd c) -> reach step_ok k c c' -> In proposer (snd c') ->
    total = Sync.total_power (snd c') + faulty_power -> 0 <= faulty_power -> 3 * faulty_power < total ->
    let prop := proposal_of fresh (unlock (fst c') proposer) in
    ((forall n, In n (map (unlock (fst c')) (snd c')) -> n_lock n = None) \/
     (exists star, is_latest (fst c') star /\ snd star = Some prop)) ->
    3 * power_for prop (map (fun n => (n, prevote_of prop n)) (map (unlock (fst c')) (snd c'))) > 2 * total.
Proof. exact termination_partial. Qed.
Print Assumptions C03_termination_partial.

Theorem C03_commit_without_block :
  forall (E : env) (s : cstate) (h : N) (ph : psh) (b : block),
    cs_halted s = false -> cs_step s = SCommit ->
    o_maj23 (precommits (cs_votes s) (cs_commit_round s)) = Some (Some (h, ph)) ->
    cs_pparts s = Some (new_parts ph) -> fst ph = 1%N ->
    b_hash b = h -> b_valid b = true ->
    In (ODecide (cs_height s) (cs_commit_round s) h)
       (snd (handle E s (IPart (cs_height s) ph 0%N (Some b)))).
Proof. exact commit_without_block. Qed.
Print Assumptions C03_commit_without_block.

(* non-vacuity: three correct nodes of power 10 (one locked on block 5 in round 1, one locked
   on block 7 in round 3, one unlocked) and one faulty validator of power 10; polkas for 5 in
   round 1 and for 7 in round 3.  After the unlock rule only the lock on 7 survives; with the
   node locked on 7 as proposer all three prevote 7: 30 of 40. *)
Definition ex_pol : list polka := [(1, Some 5%N); (3, Some 7%N)].
Definition ex_n1 := {| n_power := 10; n_lock := Some (1, 5%N); n_valid := Some (1, 5%N) |}.
Definition ex_n2 := {| n_power := 10; n_lock := Some (3, 7%N); n_valid := Some (3, 7%N) |}.
Definition ex_n3 := {| n_power := 10; n_lock := None; n_valid := None |}.

Example C03_good_round_nonvacuous :
  map (fun n => n_lock (unlock ex_pol n)) [ex_n1; ex_n2; ex_n3] = [None; Some (3, 7%N); None] /\
  let prop := proposal_of 9%N (unlock ex_pol ex_n2) in
  prop = 7%N /\
  3 * power_for prop (map (fun n => (n, prevote_of prop n)) (map (unlock ex_pol) [ex_n1; ex_n2; ex_n3])) > 2 * 40.
Proof. vm_compute. repeat split. Qed.
