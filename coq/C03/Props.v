(* C03 — Termination: correct nodes decide once the network behaves.  Statements only.

   What is proved is the decision logic: from ANY configuration satisfying the reachable
   invariant (locks backed by polkas, valid blocks backed by polkas, one polka per round — the
   consequences of C02/C01; "regardless of what happened before"), in a synchronous round
   (every correct node knows every polka formed so far):
     - C03_unlock_convergence: every node still locked after the unlock rule is locked on the
       block of the latest polka and holds it as its valid block;
     - C03_good_round_decides: if the (correct) proposer proposes that block, or nobody is
       locked, all correct nodes prevote the proposal: +2/3 from the correct nodes alone,
       whatever the faulty validators do, hence precommits and decision in that round;
     - C03_locked_node_is_good_proposer: every still-locked correct validator (and any correct
       validator when nobody is locked) is such a proposer, so the wait is bounded by the
       proposer rotation (C08_proposer_window; C08_turns_exact_periods);
     - C03_termination_partial: the first round whose proposer meets the condition decides,
       given that the rounds before it preserve the invariant;
     - C03_commit_without_block: a node that saw the commit but not the block finalises when
       the block arrives (proved on the code's state-machine model, one-part block).
   PARTIAL, named: real time (that messages arrive before timeouts is the schedule's
   assumption; growth of timeouts with the round is not modelled), the gossip reactor, the
   preservation of the invariant by non-deciding rounds in the full state machine
   (a hypothesis of C03_termination_partial), and the mechanised link between the value-level
   rules of Sync.v and C02/Model.v.  The simulation harness (C03/Exec.v) runs real
   consensus.State objects through adversarial prefixes followed by a synchronous suffix and
   checks that every correct node decides within 2n+2 rounds. *)
From Coq Require Import List ZArith NArith Bool.
From TM Require Import C02.Model C03.Sync C03.Commit C03.Exec.
Import ListNotations.
Open Scope Z_scope.

Theorem C03_unlock_convergence :
  forall (pol : list polka) (nodes : list node) (n : node) (lr : Z) (lv : value) (star : polka),
    Inv pol nodes -> is_latest pol star -> In n nodes ->
    n_lock (unlock pol n) = Some (lr, lv) ->
    snd star = Some lv /\ exists vr, n_valid (unlock pol n) = Some (vr, lv).
Proof. exact unlock_convergence. Qed.
Print Assumptions C03_unlock_convergence.

Theorem C03_good_round_decides :
  forall (pol : list polka) (nodes : list node) (proposer : node) (fresh : value) (total faulty_power : Z),
    Inv pol nodes -> In proposer nodes ->
    total = Sync.total_power nodes + faulty_power -> 0 <= faulty_power -> 3 * faulty_power < total ->
    let nodes' := map (unlock pol) nodes in
    let prop := proposal_of fresh (unlock pol proposer) in
    ((forall n, In n nodes' -> n_lock n = None) \/
     (exists star, is_latest pol star /\ snd star = Some prop)) ->
    (forall n, In n nodes' -> prevote_of prop n = prop) /\
    3 * power_for prop (map (fun n => (n, prevote_of prop n)) nodes') > 2 * total.
Proof. exact good_round_decides. Qed.
Print Assumptions C03_good_round_decides.

Theorem C03_locked_node_is_good_proposer :
  forall (pol : list polka) (nodes : list node) (n : node) (lr : Z) (lv fresh : value) (star : polka),
    Inv pol nodes -> is_latest pol star -> In n nodes ->
    n_lock (unlock pol n) = Some (lr, lv) ->
    snd star = Some (proposal_of fresh (unlock pol n)).
Proof. exact locked_node_is_good_proposer. Qed.
Print Assumptions C03_locked_node_is_good_proposer.

Theorem C03_termination_partial :
  forall (step_ok : list polka * list node -> list polka * list node -> Prop),
    (forall c c', Inv (fst c) (snd c) -> step_ok c c' -> Inv (fst c') (snd c')) ->
  forall (k : nat) (c c' : list polka * list node) (proposer : node) (fresh : value) (total faulty_power : Z),
    Inv (fst c) (snd c) -> reach step_ok k c c' -> In proposer (snd c') ->
    total = Sync.total_power (snd c') + faulty_power -> 0 <= faulty_power -> 3 * faulty_power < total ->
    let prop := proposal_of fresh (unlock (fst c') proposer) in
    ((forall n, In n (map (unlock (fst c')) (snd c')) -> n_lock n = None) \/
     (exists star, is_latest (fst c') star /\ snd star = Some prop)) ->
    3 * power_for prop (map (fun n => (n, prevote_of prop n)) (map (unlock (fst c')) (snd c'))) > 2 * total.
Proof. exact termination_partial. Qed.
Print Assumptions C03_termination_partial.

Theorem C03_commit_without_block :
  forall (E : env) (s : cstate) (h : N) (ph : psh) (b : block),
    cs_halted s = false -> cs_step s = SCommit ->
    o_maj23 (precommits (cs_votes s) (cs_commit_round s)) = Some (Some (h, ph)) ->
    cs_pparts s = Some (new_parts ph) -> fst ph = 1%N ->
    b_hash b = h -> b_valid b = true ->
    In (ODecide (cs_height s) (cs_commit_round s) h)
       (snd (handle E s (IPart (cs_height s) ph 0%N (Some b)))).
Proof. exact commit_without_block. Qed.
Print Assumptions C03_commit_without_block.

(* non-vacuity: three correct nodes of power 10 (one locked on block 5 in round 1, one locked
   on block 7 in round 3, one unlocked) and one faulty validator of power 10; polkas for 5 in
   round 1 and for 7 in round 3.  After the unlock rule only the lock on 7 survives; with the
   node locked on 7 as proposer all three prevote 7: 30 of 40. *)
Definition ex_pol : list polka := [(1, Some 5%N); (3, Some 7%N)].
Definition ex_n1 := {| n_power := 10; n_lock := Some (1, 5%N); n_valid := Some (1, 5%N) |}.
Definition ex_n2 := {| n_power := 10; n_lock := Some (3, 7%N); n_valid := Some (3, 7%N) |}.
Definition ex_n3 := {| n_power := 10; n_lock := None; n_valid := None |}.

Example C03_good_round_nonvacuous :
  map (fun n => n_lock (unlock ex_pol n)) [ex_n1; ex_n2; ex_n3] = [None; Some (3, 7%N); None] /\
  let prop := proposal_of 9%N (unlock ex_pol ex_n2) in
  prop = 7%N /\
  3 * power_for prop (map (fun n => (n, prevote_of prop n)) (map (unlock ex_pol) [ex_n1; ex_n2; ex_n3])) > 2 * 40.
Proof. vm_compute. repeat split. Qed.

(* ================================================================== progress on the code model
   (C03/Round.v): one validator's state machine (C02/Model.v) over ARBITRARY states. *)
From Coq Require Import Lia.
From TM Require Import C02.ProofsVoteSet C02.ProofsOrder C02.ProofsLock C03.SyncWeak C03.Round C03.Pending C03.Tally C03.SyncModel C03.SyncNet C03.UnfixedF83 C03.Unsettled C03.SyncExample.

(* (d) no step is a dead end: a timeout the ticker holds for the current height and round and
   for a step not yet passed (NewHeight / Propose / PrevoteWait / PrecommitWait) moves
   (height, round, step) strictly forward — or the machine stops on one of enterPrecommit's two
   consensus-failure panics, which C03_timeouts_no_failure excludes *)
Theorem C03_timeouts_never_stuck :
  forall (E : env) (s : cstate) (ti : tinfo) (s' : cstate) (o : list output),
    cs_halted s = false -> live_timeout s ti ->
    handle E s (ITimeout ti) = (s', o) ->
    lt3 (pos s) (pos s') \/
    (cs_halted s' = true /\ exists o1, precommit_failure (cs_round s) s o1).
Proof. exact timeouts_never_stuck. Qed.
Print Assumptions C03_timeouts_never_stuck.

Theorem C03_timeouts_no_failure :
  forall (s : cstate) (o1 : list output),
    0 <= cs_round s <= hv_round (cs_votes s) ->
    (forall pb ph, cs_pblock s = Some pb -> b_valid pb = false ->
                   o_maj23 (prevotes (cs_votes s) (cs_round s)) <> Some (Some (b_hash pb, ph))) ->
    precommit_failure (cs_round s) s o1 -> False.
Proof. exact no_precommit_failure. Qed.
Print Assumptions C03_timeouts_no_failure.

(* non-vacuity of (d): the initial state holds the NewHeight timeout; handling it moves on *)
Example C03_timeouts_nonvacuous :
  let E := ex_env 0 in
  let s := init_state E 1 None in
  let ti := {| ti_height := 1; ti_round := 0; ti_step := SNewHeight |} in
  cs_halted s = false /\ live_timeout s ti /\
  pos (fst (handle E s (ITimeout ti))) = (1, 0, 3).
Proof. vm_compute. repeat split; auto. Qed.

(* (a) the complete valid proposal (message, then its single part) at step Propose or earlier
   makes the machine sign a prevote, after the unlock rule of the prevote step (unlock_known, the
   repair of F70): for the proposal when unlocked, for its locked block when still locked (so: for
   the proposal when locked on it) *)
Theorem C03_progress_prevote :
  forall (E : env) (s : cstate) (p : proposal) (b : block) (s1 : cstate) (o1 : list output) (s2 : cstate) (o2 : list output),
    cs_halted s = false -> step_rank (cs_step s) <= 3 ->
    cs_proposal s = None ->
    (cs_pparts s = None \/ cs_pparts s = Some (new_parts (snd (pr_bid p)))) ->
    good_proposal E s p b ->
    handle E s (IProposal p) = (s1, o1) ->
    handle E s1 (IPart (cs_height s) (snd (pr_bid p)) 0%N (Some b)) = (s2, o2) ->
    let u := unlock_known (cs_round s) s in
    let target := match cs_lblock u with
                  | Some lb => block_id_of lb (cs_lparts u)
                  | None => Some (pr_bid p)
                  end in
    o1 = [] /\
    exists rest,
      o2 = (if is_validator E then [OSignVote PREVOTE (cs_height s) (cs_round s) target] else []) ++ rest /\
      (o_maj23 (prevotes (cs_votes s) (cs_round s)) = None ->
         rest = [] /\ cs_halted s2 = false /\ cs_height s2 = cs_height s /\ cs_round s2 = cs_round s /\
         cs_step s2 = SPrevote /\ cs_proposal s2 = Some p /\ cs_pblock s2 = Some b /\
         cs_pparts s2 = Some (one_part (snd (pr_bid p))) /\ cs_scheduled s2 = cs_scheduled s /\ same_locks u s2).
Proof. exact progress_prevote. Qed.
Print Assumptions C03_progress_prevote.

(* (b) at step Prevote / PrevoteWait, holding the complete proposal: the prevote that completes
   +2/3 for the proposal block makes the machine lock it in this round and sign a precommit for
   it (whatever it was locked on before, from an earlier round) *)
Theorem C03_progress_precommit :
  forall (E : env) (s : cstate) (v : vote) (peer : N) (hv' : hvs) (e : verr) (hb : N) (ph : psh)
         (p : proposal) (b : block) (s' : cstate) (o : list output),
    cs_halted s = false -> cs_height s = v_height v -> cs_round s = v_round v ->
    (cs_step s = SPrevote \/ cs_step s = SPrevoteWait) ->
    v_type v = PREVOTE ->
    hv_add_vote (cs_votes s) v peer = (hv', true, e) ->
    o_maj23 (prevotes hv' (v_round v)) = Some (Some (hb, ph)) ->
    cs_proposal s = Some p -> (pr_polr p < 0 \/ o_has_maj23 (prevotes hv' (pr_polr p)) = true) ->
    cs_pblock s = Some b -> b_hash b = hb -> b_valid b = true ->
    (cs_lblock s = None \/ cs_lround s < cs_round s) ->
    0 <= cs_round s <= hv_round hv' ->
    is_validator E = true ->
    handle E s (IVote v peer) = (s', o) ->
    In (OSignVote PRECOMMIT (cs_height s) (cs_round s) (Some (hb, ph))) o /\
    cs_halted s' = false /\ cs_step s' = SPrecommit /\ cs_lround s' = cs_round s /\
    exists lb, cs_lblock s' = Some lb /\ b_hash lb = hb.
Proof. exact progress_precommit. Qed.
Print Assumptions C03_progress_precommit.

(* (c) at step Precommit, holding the block with its complete part set: the precommit that
   completes +2/3 for it makes the machine decide it (C03_commit_without_block is the variant
   in which the block arrives after the precommits) *)
Theorem C03_progress_decide :
  forall (E : env) (s : cstate) (v : vote) (peer : N) (hv' : hvs) (e : verr) (hb : N) (ph : psh)
         (b : block) (pp : partset) (s' : cstate) (o : list output),
    cs_halted s = false -> cs_height s = v_height v -> cs_round s = v_round v ->
    cs_step s = SPrecommit -> v_type v = PRECOMMIT ->
    hv_add_vote (cs_votes s) v peer = (hv', true, e) ->
    o_maj23 (precommits hv' (v_round v)) = Some (Some (hb, ph)) ->
    cs_pblock s = Some b -> b_hash b = hb -> b_valid b = true ->
    cs_pparts s = Some pp -> pt_header pp = ph -> pt_complete pp = true ->
    (hashes_to (cs_lblock s) hb = true -> cs_lblock s = Some b /\ cs_lparts s = Some pp) ->
    handle E s (IVote v peer) = (s', o) ->
    In (ODecide (cs_height s) (cs_round s) hb) o.
Proof. exact progress_decide. Qed.
Print Assumptions C03_progress_decide.

(* the votes of validators that have not voted yet in a vote set, all for one block id: each
   is added, the block's tally grows by the voter's power, the recorded majority is that block
   as soon as the tally reaches the quorum (C03/Tally.v) *)
Theorem C03_tally_step :
  forall (B : blockid) (i : nat) (rem : list nat) (vs : voteset) (power : Z) (v : vote),
    open_for B (i :: rem) vs -> ~ In i rem -> good_vote vs B i power v ->
    exists vs', vs_add vs v = (vs', true, E_none) /\ open_for B rem vs' /\
      tally B vs' = tally B vs + power /\ same_frame vs vs' /\
      (forall m, vs_maj23 vs = Some m -> vs_maj23 vs' = Some m).
Proof. exact vs_add_open. Qed.
Print Assumptions C03_tally_step.

Theorem C03_tally_majority :
  forall (B : blockid) (rem : list nat) (vs : voteset),
    open_for B rem vs -> quorum (vs_vals vs) <= tally B vs -> vs_maj23 vs = Some B.
Proof. exact open_for_majority. Qed.
Print Assumptions C03_tally_majority.

(* ================================================================== a synchronous round of a
   network of correct validators' machines, closed loop (C03/SyncNet.v): every machine handles
   the proposal and its part, then the prevotes ALL machines signed in that phase, then the
   precommits ALL machines signed in the second phase ([schedule] is computed from the machines'
   own outputs).  Every machine decides the proposed block in this round.  Faulty validators
   are silent during the round; votes they cast before may sit in the vote sets. *)
Theorem C03_sync_round_decides_network :
  forall (vals : valset) (h r : Z) (p : proposal) (b : block) (hb : N) (ph : psh)
         (sig : nat -> N -> N) (peer : nat -> N) (ms : list machine),
    pr_bid p = (hb, ph) -> b_hash b = hb -> b_valid b = true -> fst ph = 1%N ->
    NoDup (idxs ms) ->
    (forall m, In m ms -> is_validator (m_env m) = true) ->
    (forall m, In m ms -> exists a pw, nth_error vals (m_idx m) = Some (a, pw) /\ a <> 0%N /\ 0 <= pw) ->
    (forall m, In m ms -> ready (m_env m) h r p b hb ph (idxs ms) vals (m_state m)) ->
    quorum vals <= correct_power vals ms ->
    forall m, In m ms ->
      In (ODecide h r hb) (concat (snd (run (m_env m) (m_state m) (schedule vals h p b ph sig peer ms)))).
Proof. exact sync_schedule_decides. Qed.
Print Assumptions C03_sync_round_decides_network.

(* the link to the value-level argument: the machines abstracted by [abs] (power, lock round /
   locked block hash, valid round / valid block hash) satisfy the part InvL of Sync.v's invariant that the prevote step needs (locks backed by
   polkas — discharged from reachability by C03_reachable_inv_partial — and one polka per round) with the known polkas, every machine holds the polkas of pol (idealised gossip; the
   prevote step applies the unlock rule itself since the repair of F70: C03_prevote_applies_unlock_rule,
   C03_sync_lock_ok - before the repair "the unlock rule has been applied" was a hypothesis that the
   code did not guarantee, C03_sync_without_settled_refuted), and the proposal is the one Sync.v's
   good round asks for (premise of C03_good_round_decides) *)
Theorem C03_sync_round_decides_on_model :
  forall (vals : valset) (h r : Z) (p : proposal) (b : block) (hb : N) (ph : psh)
         (sig : nat -> N -> N) (peer : nat -> N) (ms : list machine)
         (pol : list polka) (fresh : value) (mp : machine) (faulty_power : Z),
    pr_bid p = (hb, ph) -> b_hash b = hb -> b_valid b = true -> fst ph = 1%N ->
    NoDup (map m_idx ms) ->
    (forall m, In m ms -> is_validator (m_env m) = true) ->
    (forall m, In m ms -> exists a pw, nth_error vals (m_idx m) = Some (a, pw) /\ a <> 0%N /\ 0 <= pw) ->
    (forall m, In m ms -> ready_core (m_env m) h r p b hb ph (map m_idx ms) vals (m_state m) /\
                          lock_wf r b hb ph (m_state m)) ->
    InvL pol (nodes vals ms) ->
    (forall m q, In m ms -> In q pol -> fst q <= r /\ holds_polka (m_state m) q) ->
    In mp ms ->
    hb = proposal_of fresh (unlock pol (abs (power_of vals (m_idx mp)) (m_state mp))) ->
    Model.total_power vals = Sync.total_power (nodes vals ms) + faulty_power -> 0 <= faulty_power ->
    3 * faulty_power < Model.total_power vals ->
    ((forall n, In n (map (unlock pol) (nodes vals ms)) -> n_lock n = None) \/
     (exists star, is_latest pol star /\ snd star = Some hb)) ->
    forall m, In m ms ->
      In (ODecide h r hb) (concat (snd (run (m_env m) (m_state m) (schedule vals h p b ph sig peer ms)))).
Proof. exact sync_round_decides_on_model. Qed.
Print Assumptions C03_sync_round_decides_on_model.

(* non-vacuity: four validators of power 10, three correct machines that entered round 0 of
   height 1 through the timeout path; the hypotheses hold and the decision is computed *)
Example C03_sync_round_nonvacuous :
  (forall m, In m ex_ms -> ready (m_env m) 1 0 ex_p ex_b 7%N (1%N, 70%N) (map m_idx ex_ms) ex_vals (m_state m)) /\
  quorum ex_vals <= correct_power ex_vals ex_ms /\
  length (schedule ex_vals 1 ex_p ex_b (1%N, 70%N) ex_sig ex_peer ex_ms) = 8%nat /\
  forallb (fun m => existsb is_decide
                      (concat (snd (run (m_env m) (m_state m) (schedule ex_vals 1 ex_p ex_b (1%N, 70%N) ex_sig ex_peer ex_ms)))))
          ex_ms = true.
Proof. exact (conj ex_ready (conj ex_quorum (conj ex_schedule_length ex_all_decide))). Qed.

(* Finding F70, REPAIRED; the regression witness.  A reachable machine that holds the polka of round 1
   for block 7 among its prevotes, is in round 2, and is still locked on block 5 from round 0
   (consensus/state.go applies the unlock rule in addVote only when the completing prevote is added
   while vote.Round <= cs.Round, and in enterPrecommit of that round; round skipping jumps over
   both).  Sync.v releases the lock and has it prevote the proposal (7, POL round 1).  The
   UNREPAIRED defaultDoPrevote (Model.do_prevote_unfixed) prevotes 5 - with 4 equal validators, one
   silent, the three correct ones then never decide (replayed on the real code; the C03 harness
   has the directed scenario) - the repaired step (the model of record) prevotes 7. *)
Theorem C03_sync_without_settled_refuted :
  exists (E : env) (ins : list input) (pol : list polka) (p : proposal) (b : block),
    let s := fst (run E (init_state E 1 None) ins) in
    let n := abs 10 s in
    cs_halted s = false /\ (cs_height s, cs_round s, cs_step s) = (1, 2, SPropose) /\
    cs_proposal s = None /\ cs_pparts s = None /\ good_proposal E s p b /\
    (forall rr v, In (rr, Some v) pol -> exists ph, o_maj23 (prevotes (cs_votes s) rr) = Some (Some (v, ph))) /\
    Inv pol [n] /\
    n_lock (unlock pol n) = None /\
    is_latest pol (1, Some (b_hash b)) /\
    prevote_of (b_hash b) (unlock pol n) = b_hash b /\
    n_lock n = Some (0, 5%N) /\
    snd (do_prevote_unfixed E (set_prop (Some p) (Some b) (Some (one_part (snd (pr_bid p)))) s)) =
      [OSignVote PREVOTE 1 2 (Some (5%N, (1%N, 50%N)))] /\
    concat (snd (run E s [IProposal p; IPart 1 (snd (pr_bid p)) 0%N (Some b)])) =
      [OSignVote PREVOTE 1 2 (Some (7%N, (1%N, 70%N)))].
Proof. exact sync_without_settled_refuted. Qed.
Print Assumptions C03_sync_without_settled_refuted.

(* ================================================================== Sync.v under the weaker
   invariant Inv' (valid round >= lock round OR valid block = locked block): the clause
   inv_lock_valid of Inv was not an invariant of the code BEFORE the repair of F83 (second theorem
   below, stated on the unrepaired re-lock run_u83: enterPrecommit re-locked with LockedRound = round
   without the round's proposal block, the valid round stayed behind; the repaired re-lock moves
   the valid block too), Inv' is implied by Inv and suffices for the three theorems. *)
Theorem C03_inv_weaken :
  forall (pol : list polka) (nodes : list node), Inv pol nodes -> Inv' pol nodes.
Proof. exact Inv_weaken. Qed.
Print Assumptions C03_inv_weaken.

Theorem C03_lock_above_valid_reachable :
  exists (E : env) (ins : list input),
    let s := fst (run_u83 E (init_state E 1 None) ins) in
    let n := abs 10 s in
    let pol : list polka := [(0, Some 5%N); (1, Some 5%N)] in
    cs_halted s = false /\
    (forall rr v, In (rr, Some v) pol -> exists ph, o_maj23 (prevotes (cs_votes s) rr) = Some (Some (v, ph))) /\
    n_lock n = Some (1, 5%N) /\ n_valid n = Some (0, 5%N) /\
    ~ Inv pol [n] /\ Inv' pol [n].
Proof. exact lock_above_valid_reachable. Qed.
Print Assumptions C03_lock_above_valid_reachable.

Theorem C03_unlock_convergence_weak :
  forall (pol : list polka) (nodes : list node) (n : node) (lr : Z) (lv : value) (star : polka),
    Inv' pol nodes -> is_latest pol star -> In n nodes ->
    n_lock (unlock pol n) = Some (lr, lv) ->
    snd star = Some lv /\ exists vr, n_valid (unlock pol n) = Some (vr, lv).
Proof. exact unlock_convergence'. Qed.
Print Assumptions C03_unlock_convergence_weak.

Theorem C03_good_round_decides_weak :
  forall (pol : list polka) (nodes : list node) (proposer : node) (fresh : value) (total faulty_power : Z),
    Inv' pol nodes -> In proposer nodes ->
    total = Sync.total_power nodes + faulty_power -> 0 <= faulty_power -> 3 * faulty_power < total ->
    let nodes' := map (unlock pol) nodes in
    let prop := proposal_of fresh (unlock pol proposer) in
    ((forall n, In n nodes' -> n_lock n = None) \/
     (exists star, is_latest pol star /\ snd star = Some prop)) ->
    (forall n, In n nodes' -> prevote_of prop n = prop) /\
    3 * power_for prop (map (fun n => (n, prevote_of prop n)) nodes') > 2 * total.
Proof. exact good_round_decides'. Qed.
Print Assumptions C03_good_round_decides_weak.

Theorem C03_locked_node_is_good_proposer_weak :
  forall (pol : list polka) (nodes : list node) (n : node) (lr : Z) (lv fresh : value) (star : polka),
    Inv' pol nodes -> is_latest pol star -> In n nodes ->
    n_lock (unlock pol n) = Some (lr, lv) ->
    snd star = Some (proposal_of fresh (unlock pol n)).
Proof. exact locked_node_is_good_proposer'. Qed.
Print Assumptions C03_locked_node_is_good_proposer_weak.

(* with the repaired prevote step the refutation's machine, in the synchronous round 2, prevotes the
   proposal, locks it on the polka, precommits it and decides *)
Example C03_repaired_round_decides :
  let '(s', os) := run w_env w_state w_round2_fixed in
  w_signed_votes os = [(PREVOTE, 1, 2, w_Y); (PRECOMMIT, 1, 2, w_Y)] /\
  existsb (fun o => match o with ODecide 1 2 7%N => true | _ => false end) (concat os) = true /\
  (cs_halted s', cs_height s') = (false, 2).
Proof. exact w_round2_decides_when_repaired. Qed.

(* ================================================================== every step that waits for a
   timeout has it in the ticker (C03/Pending.v): an invariant of ALL runs from the initial
   state; hence in every reachable non-halted state whose step is NewHeight, Propose or
   PrevoteWait, or whose precommit-wait flag is set (before Commit), there IS a timeout in the
   ticker whose handling moves (height, round, step) strictly forward. *)
Theorem C03_pending_timeouts :
  forall (E : env) (height : Z) (lc : option voteset) (ins : list input),
    Pend (fst (run E (init_state E height lc) ins)).
Proof. exact pending_timeouts. Qed.
Print Assumptions C03_pending_timeouts.

Theorem C03_reachable_never_stuck :
  forall (E : env) (height : Z) (lc : option voteset) (ins : list input),
    let s := fst (run E (init_state E height lc) ins) in
    cs_halted s = false ->
    (cs_step s = SNewHeight \/ cs_step s = SPropose \/ cs_step s = SPrevoteWait \/
     (cs_triggered s = true /\ cs_step s <> SCommit)) ->
    exists ti, live_timeout s ti /\
      forall s' o, handle E s (ITimeout ti) = (s', o) ->
        lt3 (pos s) (pos s') \/ (cs_halted s' = true /\ exists o1, precommit_failure (cs_round s) s o1).
Proof. exact reachable_never_stuck. Qed.
Print Assumptions C03_reachable_never_stuck.

(* ================================================================== the synchronous round WITH the
   faulty validators voting during it (C03/FaultyTally.v, SyncFaulty.v, SyncNetF.v): each machine m
   handles the proposal and its part, then a list L2 m in which the prevotes ALL machines signed
   occur interleaved with arbitrary further prevotes of this height and round that do not verify
   under a correct validator's key (any block id or nil, equivocations, duplicates, bad
   signatures or addresses, any peer), then a list L3 m with the precommits all machines signed,
   interleaved likewise; the interleavings may differ per machine.  Every machine decides. *)
From TM Require Import C03.FaultyTally C03.SyncFaulty C03.SyncNetF.

Theorem C03_sync_round_decides_network_faulty :
  forall (vals : valset) (h r : Z) (p : proposal) (b : block) (hb : N) (ph : psh)
         (sig : nat -> N -> N) (peer : nat -> N) (ms : list machine) (L2 L3 : machine -> list item),
    pr_bid p = (hb, ph) -> b_hash b = hb -> b_valid b = true -> fst ph = 1%N ->
    NoDup (idxs ms) ->
    (forall m, In m ms -> is_validator (m_env m) = true) ->
    (forall m, In m ms -> exists a pw, nth_error vals (m_idx m) = Some (a, pw) /\ a <> 0%N /\ 0 <= pw) ->
    (forall m, In m ms -> ready (m_env m) h r p b hb ph (idxs ms) vals (m_state m)) ->
    quorum vals <= correct_power vals ms ->
    powers_nonneg vals ->
    Model.total_power vals - pw_of vals (idxs ms) < quorum vals ->
    (forall m, In m ms -> forall pv pc,
       lookup_round r (hv_sets (cs_votes (m_state m))) = Some (pv, pc) ->
       extra hb ph (idxs ms) pv /\ extra hb ph (idxs ms) pc) ->
    (forall m, In m ms ->
       correct_part (L2 m) = PV vals h p b ph sig peer ms /\
       (forall v pr, In (Faulty v pr) (L2 m) -> faulty_vote h r (idxs ms) PREVOTE v)) ->
    (forall m, In m ms ->
       correct_part (L3 m) = PCF vals h p b ph sig peer ms L2 /\
       (forall v pr, In (Faulty v pr) (L3 m) -> faulty_vote h r (idxs ms) PRECOMMIT v)) ->
    forall m, In m ms ->
      In (ODecide h r hb) (concat (snd (run (m_env m) (m_state m) (scheduleF h p b ph L2 L3 m)))).
Proof. exact sync_schedule_decides_faulty. Qed.
Print Assumptions C03_sync_round_decides_network_faulty.

(* the vote-set fact behind it: whatever vote is handed to VoteSet.AddVote, the slots of the
   correct validators that have not voted stay empty, no majority other than B is recorded (the
   power outside the correct validators is below the quorum), B's tally does not decrease *)
Theorem C03_tally_any_vote :
  forall (B : blockid) (cor : list nat),
    NoDup cor ->
    forall (rem : list nat) (vs : voteset) (v : vote),
      round_inv B cor rem vs ->
      (forall j, In j rem -> In j cor) ->
      (forall j, In j cor -> (j < length (vs_vals vs))%nat) ->
      Model.total_power (vs_vals vs) - pw_of (vs_vals vs) cor < quorum (vs_vals vs) ->
      (v_ok v = true -> 0 <= v_idx v -> In (Z.to_nat (v_idx v)) cor -> v_bid v = B) ->
      let i := Z.to_nat (v_idx v) in
      let '(vs', added, _) := vs_add vs v in
      round_inv B cor (remove Nat.eq_dec i rem) vs' /\
      tally B vs <= tally B vs' /\
      same_frame vs vs' /\
      (forall m, vs_maj23 vs = Some m -> vs_maj23 vs' = Some m) /\
      (added = false -> vs_maj23 vs' = vs_maj23 vs).
Proof. exact vs_add_any. Qed.
Print Assumptions C03_tally_any_vote.

(* non-vacuity: the network of C03_sync_round_nonvacuous with validator 3 casting, during the
   round, a nil vote, an equivocating vote for another block and a forged vote in validator 0's
   name, in both phases: hypotheses proved, decision computed (14 inputs per machine) *)
Example C03_sync_round_faulty_nonvacuous :
  ((forall m, In m ex_ms ->
      correct_part (ex_L2 m) = PV ex_vals 1 ex_p ex_b (1%N, 70%N) ex_sig ex_peer ex_ms /\
      forall v pr, In (Faulty v pr) (ex_L2 m) -> faulty_vote 1 0 (idxs ex_ms) PREVOTE v) /\
   (forall m, In m ex_ms ->
      correct_part (ex_L3 m) = PCF ex_vals 1 ex_p ex_b (1%N, 70%N) ex_sig ex_peer ex_ms ex_L2 /\
      forall v pr, In (Faulty v pr) (ex_L3 m) -> faulty_vote 1 0 (idxs ex_ms) PRECOMMIT v) /\
   (forall m, In m ex_ms -> forall pv pc,
      lookup_round 0 (hv_sets (cs_votes (m_state m))) = Some (pv, pc) ->
      extra 7%N (1%N, 70%N) (idxs ex_ms) pv /\ extra 7%N (1%N, 70%N) (idxs ex_ms) pc) /\
   Model.total_power ex_vals - pw_of ex_vals (idxs ex_ms) < quorum ex_vals) /\
  (forallb (fun m => existsb is_decide
                       (concat (snd (run (m_env m) (m_state m) (scheduleF 1 ex_p ex_b (1%N, 70%N) ex_L2 ex_L3 m)))))
           ex_ms = true /\
   length (scheduleF 1 ex_p ex_b (1%N, 70%N) ex_L2 ex_L3 (ex_machine 0)) = 14%nat).
Proof. exact (conj ex_faulty_hyps ex_all_decide_faulty). Qed.

(* the link to Sync.v's good round (as C03_sync_round_decides_on_model) with the faulty validators
   voting during the round; the bound on the power outside the correct validators follows from
   3 * faulty_power < total *)
Theorem C03_sync_round_decides_on_model_faulty :
  forall (vals : valset) (h r : Z) (p : proposal) (b : block) (hb : N) (ph : psh)
         (sig : nat -> N -> N) (peer : nat -> N) (ms : list machine) (L2 L3 : machine -> list item)
         (pol : list polka) (fresh : value) (mp : machine) (faulty_power : Z),
    pr_bid p = (hb, ph) -> b_hash b = hb -> b_valid b = true -> fst ph = 1%N ->
    NoDup (map m_idx ms) ->
    (forall m, In m ms -> is_validator (m_env m) = true) ->
    (forall m, In m ms -> exists a pw, nth_error vals (m_idx m) = Some (a, pw) /\ a <> 0%N /\ 0 <= pw) ->
    (forall m, In m ms -> ready_core (m_env m) h r p b hb ph (map m_idx ms) vals (m_state m) /\
                          lock_wf r b hb ph (m_state m)) ->
    InvL pol (nodes vals ms) ->
    (forall m q, In m ms -> In q pol -> fst q <= r /\ holds_polka (m_state m) q) ->
    In mp ms ->
    hb = proposal_of fresh (unlock pol (abs (power_of vals (m_idx mp)) (m_state mp))) ->
    Model.total_power vals = Sync.total_power (nodes vals ms) + faulty_power -> 0 <= faulty_power ->
    3 * faulty_power < Model.total_power vals ->
    ((forall n, In n (map (unlock pol) (nodes vals ms)) -> n_lock n = None) \/
     (exists star, is_latest pol star /\ snd star = Some hb)) ->
    powers_nonneg vals ->
    (forall m, In m ms -> forall pv pc,
       lookup_round r (hv_sets (cs_votes (m_state m))) = Some (pv, pc) ->
       extra hb ph (idxs ms) pv /\ extra hb ph (idxs ms) pc) ->
    (forall m, In m ms ->
       correct_part (L2 m) = PV vals h p b ph sig peer ms /\
       (forall v pr, In (Faulty v pr) (L2 m) -> faulty_vote h r (idxs ms) PREVOTE v)) ->
    (forall m, In m ms ->
       correct_part (L3 m) = PCF vals h p b ph sig peer ms L2 /\
       (forall v pr, In (Faulty v pr) (L3 m) -> faulty_vote h r (idxs ms) PRECOMMIT v)) ->
    forall m, In m ms ->
      In (ODecide h r hb) (concat (snd (run (m_env m) (m_state m) (scheduleF h p b ph L2 L3 m)))).
Proof. exact sync_round_decides_on_model_faulty. Qed.
Print Assumptions C03_sync_round_decides_on_model_faulty.

(* non-vacuity of the locked / POL-round path: three machines that all locked block 7 in round 0
   (no decision there), at (1, 1, Propose); the proposer re-proposes it with POL round 0: the
   hypotheses of C03_sync_round_decides_network hold and every machine decides in round 1 *)
Example C03_sync_round_locked_nonvacuous :
  map (fun m => (cs_round (m_state m), cs_step (m_state m), cs_lround (m_state m), cs_lblock (m_state m), cs_proposal (m_state m)))
      ex2_ms =
  [(1, SPropose, 0, Some ex_b, None); (1, SPropose, 0, Some ex_b, None); (1, SPropose, 0, Some ex_b, None)] /\
  (forall m, In m ex2_ms ->
     ready (m_env m) 1 1 ex2_p ex_b 7%N (1%N, 70%N) (map m_idx ex2_ms) ex_vals (m_state m)) /\
  forallb (fun m => existsb is_decide1
                      (concat (snd (run (m_env m) (m_state m) (schedule ex_vals 1 ex2_p ex_b (1%N, 70%N) ex_sig ex_peer ex2_ms)))))
          ex2_ms = true.
Proof. exact (conj ex2_locked_states (conj ex2_ready ex2_all_decide)). Qed.

(* ================================================================== part of the invariant discharged
   from reachability (C03/Backed.v), for every machine of the code model and ALL its runs from
   the initial state: the lock is backed by a polka the machine holds (+2/3 prevotes of the lock
   round for the locked block recorded in its vote sets), and so is the valid block; in Sync.v's
   terms, clauses inv_lock and inv_valid of Inv / Inv' hold of the abstracted machine for every
   pol that contains the polkas it holds.  (Clause inv'_lock_valid and "one polka per round"
   across machines are not discharged.) *)
From TM Require Import C03.Backed.

Theorem C03_reachable_lock_backed :
  forall (E : env) (height : Z) (lc : option voteset) (ins : list input),
    let s := fst (run E (init_state E height lc) ins) in
    (forall lb, cs_lblock s = Some lb ->
       exists ph, o_maj23 (prevotes (cs_votes s) (cs_lround s)) = Some (Some (b_hash lb, ph))) /\
    (forall vb, cs_vblock s = Some vb ->
       exists ph, o_maj23 (prevotes (cs_votes s) (cs_vround s)) = Some (Some (b_hash vb, ph))).
Proof. exact reachable_backed. Qed.
Print Assumptions C03_reachable_lock_backed.

Theorem C03_reachable_inv_partial :
  forall (E : env) (height : Z) (lc : option voteset) (ins : list input) (pw : Z) (pol : list polka),
    let s := fst (run E (init_state E height lc) ins) in
    (forall rr v ph, o_maj23 (prevotes (cs_votes s) rr) = Some (Some (v, ph)) -> In (rr, Some v) pol) ->
    (forall lr lv, n_lock (abs pw s) = Some (lr, lv) -> In (lr, Some lv) pol) /\
    (forall vr vv, n_valid (abs pw s) = Some (vr, vv) -> In (vr, Some vv) pol).
Proof. exact reachable_abs_backed. Qed.
Print Assumptions C03_reachable_inv_partial.


(* what the prevote step of a good round needs of the invariant: locks backed by polkas and one
   polka per round (InvL, implied by Inv' and Inv); the valid-block clauses only concern what a
   proposer proposes, which is the premise *)
Theorem C03_good_round_prevotes :
  forall (pol : list polka) (nodes : list node) (prop : value),
    InvL pol nodes ->
    ((forall n, In n (map (unlock pol) nodes) -> n_lock n = None) \/
     (exists star, is_latest pol star /\ snd star = Some prop)) ->
    forall n, In n (map (unlock pol) nodes) -> prevote_of prop n = prop.
Proof. exact good_round_prevotes. Qed.
Print Assumptions C03_good_round_prevotes.

Theorem C03_inv_weaken_lock :
  forall (pol : list polka) (nodes : list node), Inv' pol nodes -> InvL pol nodes.
Proof. exact Inv'_InvL. Qed.
Print Assumptions C03_inv_weaken_lock.


(* ================================================================== the prevote step applies the unlock
   rule (repair of F70; C03/Round.v): after enterPrevote no polka the node holds for a round in
   (LockedRound, round] is for something else than its locked block.  Over arbitrary states. *)
Theorem C03_prevote_applies_unlock_rule :
  forall (E : env) (h r : Z) (s s' : cstate) (o : list output),
    cs_halted s = false -> cs_height s = h -> cs_round s = r -> step_rank (cs_step s) < 4 ->
    enter_prevote E h r s = (s', o) ->
    cs_step s' = SPrevote /\
    forall lb, cs_lblock s' = Some lb ->
    forall r' polka, cs_lround s' < r' <= r -> o_maj23 (prevotes (cs_votes s') r') = Some polka ->
                     ProofsLock.bhash polka = Some (b_hash lb).
Proof. exact prevote_applies_unlock_rule. Qed.
Print Assumptions C03_prevote_applies_unlock_rule.

(* ... and it is Sync.v's unlock rule: if the machine holds the polkas of pol (all of rounds <= r)
   and Sync.v's node, after ITS unlock rule, prevotes the proposal hb, then the machine after
   the unlock rule of its prevote step is unlocked or locked on the proposal block *)
Theorem C03_sync_lock_ok :
  forall (r : Z) (b : block) (hb : N) (ph : psh) (pol : list polka) (pw : Z) (s : cstate),
    lock_wf r b hb ph s ->
    (forall q, In q pol -> fst q <= r /\ holds_polka s q) ->
    prevote_of hb (unlock pol (abs pw s)) = hb ->
    lock_ok r b ph (unlock_known r s).
Proof. exact sync_lock_ok. Qed.
Print Assumptions C03_sync_lock_ok.

(* ================================================================== termination END TO END: what is true, what
   is refuted (C03/TermLV.v, TermSim.v, TermValue.v).

   (1) Finding F83, REPAIRED; the regression witnesses are stated on the state machine with the
   UNREPAIRED re-lock of enterPrecommit (C03/UnfixedF83.v: run_u83 = Model.run with Model.relock_unfixed
   for Model.relock, nothing else changed); C03_relock_repaired is the counterpart on the model of record.
   "A locked machine holds its locked block as its valid block" was NOT an invariant of the
   F70-repaired code model.  One machine, 29 inputs from the initial state: locked on X with
   LockedRound 6, valid block Y with ValidRound 2, not halted, at (1, 7, Propose); lock and valid
   block both backed by polkas it holds; the unlock rule of the prevote step never releases this
   lock (it only looks above round 6); SyncWeak.Inv' fails for every pol.  Finding F83:
   handleCompleteProposal sets ValidBlock from the current round's polka without looking at the
   lock, enterPrecommit re-locks (LockedRound := round) without updating ValidBlock - reachable
   even at step Propose through a +2/3 precommit majority for nil. *)
From TM Require Import C03.UnfixedF83 C03.TermLV C03.TermSim C03.TermValue.

Theorem C03_lock_on_other_than_valid_reachable :
  exists (E : env) (ins : list input),
    let s := fst (run_u83 E (init_state E 1 None) ins) in
    let n := abs 10 s in
    cs_halted s = false /\ (cs_height s, cs_round s, cs_step s) = (1, 7, SPropose) /\
    n_lock n = Some (6, 5%N) /\ n_valid n = Some (2, 7%N) /\
    (forall q, In q [(0, Some 5%N); (2, Some 7%N); (6, Some 5%N)] -> holds_polka s q) /\
    (forall r, unlock_fires r s = false \/ exists r' x, 6 < r' <= r /\ o_maj23 (prevotes (cs_votes s) r') = Some x) /\
    (forall pol, ~ Inv' pol [n]).
Proof. exact lock_differs_from_valid_reachable. Qed.
Print Assumptions C03_lock_on_other_than_valid_reachable.

(* ... and the liveness consequence ON THE CODE MODEL: that machine (A), with two correct machines B
   and C that are unlocked (each reachable from the initial state), all in round 7, the faulty
   validator silent, proposers rotating A, B, C, D: sixteen synchronous rounds in sequence, closed
   loop (TermSim.sync_round: the proposal the proposer's machine signed and its part to everybody,
   propose timeout, all signed prevotes to everybody, prevote-wait timeout, all signed
   precommits to everybody, precommit-wait timeout) - NO machine decides, A stays locked on X
   with valid block Y (it proposes Y and prevotes X), everybody ends in round 23.  Replayed on three
   real consensus.State nodes (work/deepen/C03b-replay; a DIRECTED scenario of the C03 harness,
   c03F83Prefix, cases k%20==19): same outcome on the unrepaired repository; with the repair
   fixes/F83 the same run decides in A's round 7. *)
Theorem C03_livelock_on_model :
  map view lv_net =
    [ (0%nat, 1, 7, SPropose, (6, Some 5%N), (2, Some 7%N));
      (1%nat, 1, 7, SPropose, (-1, None), (-1, None));
      (2%nat, 1, 7, SPropose, (-1, None), (-1, None)) ] /\
  any_decision (snd (sync_rounds run_u83 w_vals sim_sig sim_peer 1 16 7 lv_net)) = false /\
  map view (fst (sync_rounds run_u83 w_vals sim_sig sim_peer 1 16 7 lv_net)) =
    [ (0%nat, 1, 23, SPropose, (6, Some 5%N), (2, Some 7%N));
      (1%nat, 1, 23, SPropose, (-1, None), (-1, None));
      (2%nat, 1, 23, SPropose, (-1, None), (-1, None)) ].
Proof. exact (conj lv_net_entry lv_livelock_16_rounds). Qed.
Print Assumptions C03_livelock_on_model.

(* the counterpart on the MODEL OF RECORD (F83 repaired: enterPrecommit's re-lock also sets
   ValidRound/ValidBlock/ValidBlockParts when ValidRound < round): the same 29 inputs - the two
   machines agree on the first 26, at the re-lock (input 27) the valid block becomes X with valid
   round 6; the machine ends in round 7 locked on X with valid block X, proposes (X, POL round 6)
   and prevotes X; and the closed-loop network of C03_livelock_on_model (same three input lists)
   DECIDES X in A's proposer round 7, every machine *)
Theorem C03_relock_repaired :
  (fst (run (lv_env 0) (init_state (lv_env 0) 1 None) (firstn 26 lv_prefix)) = lv_after 26 /\
   lv_view (fst (run (lv_env 0) (init_state (lv_env 0) 1 None) (firstn 27 lv_prefix))) = (6, SPrecommit, (6, Some 5%N), (6, Some 5%N)) /\
   lv_view lv_state_fixed = (7, SPropose, (6, Some 5%N), (6, Some 5%N)) /\
   In (OSignProposal 1 7 6 (Some 5%N)) (last (snd (run (lv_env 0) (init_state (lv_env 0) 1 None) lv_prefix)) []) /\
   concat (snd (run (lv_env 0) lv_state_fixed [lv_prop 7 6 5%N; IPart 1 (1%N, 50%N) 0%N (Some lv_bX)])) =
     [OSignVote PREVOTE 1 7 w_X]) /\
  (map view lv_net_fixed =
   [ (0%nat, 1, 7, SPropose, (6, Some 5%N), (6, Some 5%N));
     (1%nat, 1, 7, SPropose, (-1, None), (-1, None));
     (2%nat, 1, 7, SPropose, (-1, None), (-1, None)) ] /\
   map all_decide_in (snd (sync_rounds run w_vals sim_sig sim_peer 1 1 7 lv_net_fixed)) = [true] /\
   forallb (fun o => existsb (fun x => match x with ODecide 1 7 5%N => true | _ => false end) o)
           (nth 0 (snd (sync_rounds run w_vals sim_sig sim_peer 1 1 7 lv_net_fixed)) []) = true).
Proof. exact (conj lv_repaired lv_fixed_decides). Qed.
Print Assumptions C03_relock_repaired.

(* at the value level the configuration is a FIXED POINT: Inv' fails, the unlock rule changes
   nothing, every correct proposer proposes Y, no value and not nil reaches +2/3 among the correct
   prevotes (proposal received by all, or no proposal), and any number of rounds in which no new
   polka appears leaves the configuration exactly as it is: no round ever decides *)
Theorem C03_livelock_value_level :
  ~ Inv' f83_pol f83_nodes /\
  (map (unlock f83_pol) f83_nodes = f83_nodes /\
   (forall p fresh, In p f83_nodes -> proposal_of fresh (unlock f83_pol p) = 7%N) /\
   (forall x, 3 * power_opt x (prevotes_of (Some 7%N) (combine f83_nodes [true; true; true])) <= 2 * 40) /\
   (forall x, 3 * power_opt x (prevotes_of None (combine f83_nodes [true; true; true])) <= 2 * 40)) /\
  (forall k r c', (forall q, In q f83_pol -> fst q < r) ->
     sync_reach r k (f83_pol, f83_nodes) c' -> fst c' = f83_pol -> c' = (f83_pol, f83_nodes)).
Proof. exact (conj f83_not_Inv' (conj f83_no_quorum f83_livelock)). Qed.
Print Assumptions C03_livelock_value_level.

(* (2) value level: the hypothesis step_inv of C03_termination_partial DISCHARGED for a concrete
   synchronous round that includes the non-deciding outcomes (TermValue.sync_step: unlock rule,
   any proposal to any subset of the nodes, ANY polka the adversary can produce or none, lock /
   re-lock / unlock and valid-block update as the code does them, the re-lock WITHOUT valid-block
   update included): Inv' is preserved.  (Inv' at the entry is what an asynchronous prefix can
   break - (1); within synchronous rounds the re-lock is harmless because the unlock rule has been
   applied with all polkas first.) *)
Theorem C03_sync_round_preserves_invariant :
  forall (r : Z) (c c' : config), Inv' (fst c) (snd c) -> sync_step r c c' -> Inv' (fst c') (snd c').
Proof. exact sync_step_preserves_Inv'. Qed.
Print Assumptions C03_sync_round_preserves_invariant.

(* (3) termination, value level, no hypothesis on the rounds in between: from any configuration
   satisfying Inv', after ANY k synchronous rounds, the next round decides (all correct nodes
   prevote the proposal, +2/3 from them alone) as soon as its proposer is a correct node that is
   still locked after the unlock rule - or any correct node when nobody is.  So the bound is the
   proposer rotation reaching such a node (C08_proposer_window), NOT the first correct proposer:
   C03_first_correct_proposer_may_waste. *)
Theorem C03_termination_value_level :
  forall (r0 : Z) (k : nat) (c c' : config) (proposer : node) (fresh : value) (total faulty_power : Z),
    Inv' (fst c) (snd c) -> sync_reach r0 k c c' -> In proposer (snd c') ->
    total = Sync.total_power (snd c') + faulty_power -> 0 <= faulty_power -> 3 * faulty_power < total ->
    ((forall n, In n (map (unlock (fst c')) (snd c')) -> n_lock n = None) \/
     (exists lr lv, n_lock (unlock (fst c') proposer) = Some (lr, lv))) ->
    (exists star, is_latest (fst c') star) ->
    let prop := proposal_of fresh (unlock (fst c') proposer) in
    (forall n, In n (map (unlock (fst c')) (snd c')) -> prevote_of prop n = prop) /\
    3 * power_for prop (map (fun n => (n, prevote_of prop n)) (map (unlock (fst c')) (snd c'))) > 2 * total.
Proof. exact termination_value_level. Qed.
Print Assumptions C03_termination_value_level.

(* a round without polka only applies the unlock rule (so locks persist until the rotation
   reaches a locked node) *)
Theorem C03_quiet_round_only_unlocks :
  forall (r : Z) (pol : list polka) (nodes : list node) (c' : config),
    sync_step r (pol, nodes) c' -> fst c' = pol ->
    c' = (pol, map (unlock pol) nodes) \/ exists x, fst c' = (r, x) :: pol.
Proof. exact quiet_round_only_unlocks. Qed.
Print Assumptions C03_quiet_round_only_unlocks.

Theorem C03_first_correct_proposer_may_waste :
  Inv' fw_pol fw_nodes /\
  (let prop := proposal_of 9%N (unlock fw_pol fw_B) in
   prop = 9%N /\ forall v, 3 * power_for v (map (fun n => (n, prevote_of prop n)) (map (unlock fw_pol) fw_nodes)) <= 2 * 40) /\
  (let prop := proposal_of 9%N (unlock fw_pol fw_A) in
   prop = 5%N /\ 3 * power_for prop (map (fun n => (n, prevote_of prop n)) (map (unlock fw_pol) fw_nodes)) > 2 * 40).
Proof. exact first_correct_proposer_may_waste. Qed.
Print Assumptions C03_first_correct_proposer_may_waste.

(* the same ON THE CODE MODEL, rounds in sequence ending in a decision (TermSim.sync_rounds, closed
   loop with the timeouts): A locked on X in round 0, B and C unlocked (each machine's run from
   the initial state), D silent; round 1 (proposer B, new block) and round 2 (proposer C, new
   block) end by the timeouts without polka, everybody enters the next round; round 3 (proposer A
   re-proposes X with POL round 0): every machine decides X in round 3 *)
Theorem C03_rounds_in_sequence_on_model :
  map view fw_net =
    [ (0%nat, 1, 1, SPropose, (0, Some 5%N), (0, Some 5%N));
      (1%nat, 1, 1, SPropose, (-1, None), (-1, None));
      (2%nat, 1, 1, SPropose, (-1, None), (-1, None)) ] /\
  let os := snd (sync_rounds run w_vals sim_sig sim_peer 1 3 1 fw_net) in
  let l := fst (sync_rounds run w_vals sim_sig sim_peer 1 3 1 fw_net) in
  map all_decide_in os = [false; false; true] /\
  map (fun rd => existsb (fun o => existsb decides o) rd) os = [false; false; true] /\
  map (map signed_votes) (firstn 2 os) =
    [ [ [(PREVOTE, 1, Some 5%N); (PRECOMMIT, 1, None)]; [(PREVOTE, 1, Some 101%N); (PRECOMMIT, 1, None)]; [(PREVOTE, 1, Some 101%N); (PRECOMMIT, 1, None)] ];
      [ [(PREVOTE, 2, Some 5%N); (PRECOMMIT, 2, None)]; [(PREVOTE, 2, Some 102%N); (PRECOMMIT, 2, None)]; [(PREVOTE, 2, Some 102%N); (PRECOMMIT, 2, None)] ] ] /\
  map (fun x => cs_height (m_state (fst x))) l = [2; 2; 2] /\
  forallb (fun o => existsb (fun x => match x with ODecide 1 3 5%N => true | _ => false end) o) (nth 2 os []) = true.
Proof. exact (conj fw_net_entry fw_first_correct_proposer_wastes_third_decides). Qed.
Print Assumptions C03_rounds_in_sequence_on_model.

(* non-vacuity of the value-level round relation: two rounds from the configuration of
   C03_first_correct_proposer_may_waste (no polka; then a polka for the correct proposer's value
   completed by the faulty validator): all three nodes end locked on it *)
Example C03_sync_reach_nonvacuous :
  sync_reach 1 2 (fw_pol, fw_nodes)
             ([(2, Some 8%N); (0, Some 5%N)],
              [ {| n_power := 10; n_lock := Some (2, 8%N); n_valid := Some (2, 8%N) |};
                {| n_power := 10; n_lock := Some (2, 8%N); n_valid := Some (2, 8%N) |};
                {| n_power := 10; n_lock := Some (2, 8%N); n_valid := Some (2, 8%N) |} ]).
Proof. exact fw_two_rounds. Qed.

(* ================================================================== the repaired re-lock (F83; C03/LockValid.v), over
   ARBITRARY states of the model of record: enterPrecommit at round r, holding the polka of round
   r for the block it is locked on, re-locks AND takes the locked block as valid block: afterwards
   ValidRound = LockedRound = r and the valid block IS the locked block (same hash) - given that
   the valid block is backed by the polka of its round (C03_reachable_lock_backed: every run)
   and ValidRound <= r with ValidRound < r when there is no valid block (ordering facts of the
   fields; both are derived from reachability, together with the invariant 'locked on X => valid
   block X or a later valid round' of ALL runs of the repaired model, in C03_reachable_lock_is_valid
   below). *)
From TM Require Import C03.LockValid.

Theorem C03_relock_sets_valid :
  forall (E : env) (h r : Z) (s : cstate) (lb : block) (hb : N) (ph : psh) (s' : cstate) (o : list output),
    cs_halted s = false -> cs_height s = h -> cs_round s = r -> step_rank (cs_step s) < 6 ->
    o_maj23 (prevotes (cs_votes s) r) = Some (Some (hb, ph)) -> 0 <= r <= hv_round (cs_votes s) ->
    cs_lblock s = Some lb -> b_hash lb = hb ->
    backed (cs_votes s) (cs_vround s) (cs_vblock s) -> cs_vround s <= r ->
    (cs_vblock s = None -> cs_vround s < r) ->
    enter_precommit E h r s = (s', o) ->
    o = (if is_validator E then [OSignVote PRECOMMIT h r (Some (hb, ph))] else []) /\
    cs_step s' = SPrecommit /\ cs_lblock s' = Some lb /\ cs_lround s' = r /\ cs_vround s' = r /\
    exists vb, cs_vblock s' = Some vb /\ b_hash vb = hb.
Proof. exact relock_sets_valid. Qed.
Print Assumptions C03_relock_sets_valid.

(* non-vacuity: the state of C03_relock_repaired just before the re-lock (26 inputs) with the third
   nil precommit's bookkeeping aside: enterPrecommit(1, 6) on it re-locks X and sets the valid block *)
Example C03_relock_sets_valid_nonvacuous :
  let s := lv_after 26 in
  cs_halted s = false /\ (cs_height s, cs_round s) = (1, 6) /\ step_rank (cs_step s) < 6 /\
  o_maj23 (prevotes (cs_votes s) 6) = Some w_X /\ cs_lblock s = Some lv_bX /\ cs_vround s = 2 /\
  lv_view (fst (enter_precommit (lv_env 0) 1 6 s)) = (6, SPrecommit, (6, Some 5%N), (6, Some 5%N)).
Proof. vm_compute. repeat split. Qed.

(* ================================================================== the lock / valid-block invariant of the
   repaired machine (F70, F83), over ALL runs from the initial state, one machine, arbitrary
   inputs (C03/LockValidInv.v: an invariant through every handler, together with Backed):
     (a) 0 <= Round, ValidRound <= Round, -1 <= LockedRound <= Round;
     (b) outside the Commit step, the current round's polka for the proposal block held has been
         taken as valid block (ValidRound = Round, ValidBlock has that hash);
     (c) locked on X => there is a valid block, ValidRound >= LockedRound, and the valid block is
         X (same hash) OR ValidRound > LockedRound.
   (c) is clause inv_lock_valid of Sync.Inv.  The second alternative of (c) cannot be dropped
   ('locked on X => valid block X' alone is FALSE also of the repaired model: C03_lock_valid_transient):
   handleCompleteProposal takes the proposal block as valid block on the current round's polka
   without looking at the lock.  That state is transient and harmless for liveness: the valid
   block is backed by a held polka of a round above the lock round for another block, which is
   exactly what the unlock rule of the next prevote step (F70) releases the lock on, and a
   re-lock before that moves the valid block too (F83). *)
From TM Require Import C03.LockValidInv C03.TermReach.

Theorem C03_reachable_lock_is_valid :
  forall (E : env) (height : Z) (lc : option voteset) (ins : list input),
    let s := fst (run E (init_state E height lc) ins) in
    (0 <= cs_round s /\ cs_vround s <= cs_round s /\ -1 <= cs_lround s <= cs_round s) /\
    (cs_step s <> SCommit -> forall h ph,
       o_maj23 (prevotes (cs_votes s) (cs_round s)) = Some (Some (h, ph)) -> hashes_to (cs_pblock s) h = true ->
       cs_vround s = cs_round s /\ hashes_to (cs_vblock s) h = true) /\
    (forall lb, cs_lblock s = Some lb ->
       exists vb, cs_vblock s = Some vb /\ cs_lround s <= cs_vround s /\
                  (b_hash vb = b_hash lb \/ cs_lround s < cs_vround s)).
Proof. exact reachable_lock_is_valid. Qed.
Print Assumptions C03_reachable_lock_is_valid.

(* the transient state on the model of record: the first 21 inputs of the F83 run (no re-lock among
   them: both machines agree) - locked on X = 5 since round 0, valid block Y = 7 of round 2, step
   Propose of round 2; the next prevote step releases the lock and prevotes the block held, Y *)
Theorem C03_lock_valid_transient :
  let s := fst (run (lv_env 0) (init_state (lv_env 0) 1 None) (firstn 21 lv_prefix)) in
  lv_view s = (2, SPropose, (0, Some 5%N), (2, Some 7%N)) /\
  concat (snd (run (lv_env 0) s [lv_tmo 2 SPropose])) = [OSignVote PREVOTE 1 2 w_Y] /\
  lv_view (fst (run (lv_env 0) s [lv_tmo 2 SPropose])) = (2, SPrevote, (-1, None), (2, Some 7%N)).
Proof. vm_compute. repeat split. Qed.
Print Assumptions C03_lock_valid_transient.

(* hence Sync.Inv (and Inv') holds of the abstraction of REACHABLE machines, given only what is not
   a single-machine fact: pol contains the polkas the machines hold (it is the set of known
   polkas) and has one polka per round ACROSS machines (quorum intersection under
   3 * faulty < total: C01) *)
Theorem C03_reachable_inv :
  forall (vals : valset) (h : Z) (ms : list machine) (pol : list polka),
    (forall m, In m ms -> reachable_machine h m) -> knows_held pol ms -> one_per_round pol ->
    Inv pol (nodes vals ms).
Proof. exact reachable_Inv. Qed.
Print Assumptions C03_reachable_inv.

(* C03_sync_round_preserves_invariant and C03_termination_value_level FROM REACHABLE MACHINES: the
   hypothesis "Inv' at entry" is gone.  Still assumed: knows_held (gossip has delivered the polkas:
   pol is what the machines hold), one_per_round (quorum intersection across machines), the
   synchrony relation sync_step itself (all prevotes of a round reach every correct node before its
   timeout; its link to the code model is C03_sync_round_decides_on_model_faulty for the deciding
   round and the closed-loop computations of TermSim.v for the others), 3 * faulty < total. *)
Theorem C03_sync_round_preserves_invariant_reachable :
  forall (vals : valset) (h : Z) (ms : list machine) (pol : list polka) (r : Z) (c' : config),
    (forall m, In m ms -> reachable_machine h m) -> knows_held pol ms -> one_per_round pol ->
    sync_step r (pol, nodes vals ms) c' -> Inv' (fst c') (snd c').
Proof. exact sync_step_preserves_Inv'_reachable. Qed.
Print Assumptions C03_sync_round_preserves_invariant_reachable.

Theorem C03_termination_value_level_reachable :
  forall (vals : valset) (h : Z) (ms : list machine) (pol : list polka) (r0 : Z) (k : nat) (c' : config)
         (proposer : node) (fresh : value) (total faulty_power : Z),
    (forall m, In m ms -> reachable_machine h m) -> knows_held pol ms -> one_per_round pol ->
    sync_reach r0 k (pol, nodes vals ms) c' -> In proposer (snd c') ->
    total = Sync.total_power (snd c') + faulty_power -> 0 <= faulty_power -> 3 * faulty_power < total ->
    ((forall n, In n (map (unlock (fst c')) (snd c')) -> n_lock n = None) \/
     (exists lr lv, n_lock (unlock (fst c') proposer) = Some (lr, lv))) ->
    (exists star, is_latest (fst c') star) ->
    let prop := proposal_of fresh (unlock (fst c') proposer) in
    (forall n, In n (map (unlock (fst c')) (snd c')) -> prevote_of prop n = prop) /\
    3 * power_for prop (map (fun n => (n, prevote_of prop n)) (map (unlock (fst c')) (snd c'))) > 2 * total.
Proof. exact termination_value_level_reachable. Qed.
Print Assumptions C03_termination_value_level_reachable.

(* non-vacuity: the three machines of C03_rounds_in_sequence_on_model (A locked on X in round 0, B and
   C unlocked; each a run from the initial state) with pol = the polka of round 0 for X *)
Example C03_reachable_inv_nonvacuous :
  let ms := map fst fw_net in
  (forall m, In m ms -> reachable_machine 1 m) /\ knows_held [(0, Some 5%N)] ms /\ one_per_round [(0, Some 5%N)] /\
  nodes w_vals ms = fw_nodes.
Proof. exact fw_reachable. Qed.
