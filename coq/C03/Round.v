(* C03 — progress of ONE validator's state machine (C02/Model.v, the transcription of
   consensus/state.go) through a round:
     (a) the complete valid proposal makes it prevote (the proposal, or its locked block);
     (b) the prevote that completes +2/3 for the block it holds makes it lock and precommit it;
     (c) the precommit that completes +2/3 for the block it holds makes it decide;
     (d) no step is a dead end: every timeout the ticker holds for the current (height, round)
         and a step not yet passed moves (height, round, step) strictly forward, or the machine
         stops on one of the two documented consensus-failure panics of enterPrecommit.
   All statements are over arbitrary states of the model (no samples). *)
From Coq Require Import List ZArith NArith Bool Lia.
From TM Require Import C02.Model C02.Setters C02.ProofsVoteSet C02.ProofsHVS C02.ProofsOrder C02.ProofsLock C03.Commit.
Import ListNotations.
Open Scope Z_scope.

Ltac cs := autorewrite with cs in *.

Lemma option_eq_dec_bhash (a b : option N) : {a = b} + {a <> b}.
Proof. decide equality. apply N.eq_dec. Qed.

(* ---------------------------------------------------------------- POLInfo finds a known polka *)

Lemma pol_info_f_ge hv r b : forall fuel top,
  0 <= r <= top -> (Z.to_nat (top - r) < fuel)%nat ->
  o_maj23 (prevotes hv r) = Some b -> r <= fst (pol_info_f hv top fuel).
Proof.
  induction fuel as [|f IH]; intros top Hr Hf Hm; [lia|].
  cbn [pol_info_f]. destruct (top <? 0) eqn:Et; [apply Z.ltb_lt in Et; lia|].
  destruct (o_maj23 (prevotes hv top)) as [b'|] eqn:Em; [cbn; lia|].
  assert (top <> r) by (intro; subst top; congruence).
  apply IH; [lia | lia | exact Hm].
Qed.

Lemma pol_info_ge hv r b :
  0 <= r <= hv_round hv -> o_maj23 (prevotes hv r) = Some b -> r <= fst (pol_info hv).
Proof. intros Hr Hm. unfold pol_info. eapply pol_info_f_ge; [exact Hr | lia | exact Hm]. Qed.

Section Progress.
Variable E : env.

(* ---------------------------------------------------------------- enterPrevote *)

(* what defaultDoPrevote votes for *)
Definition prevote_target (s : cstate) : blockid :=
  match cs_lblock s with
  | Some lb => block_id_of lb (cs_lparts s)
  | None => match cs_pblock s with
            | Some pb => if b_valid pb then block_id_of pb (cs_pparts s) else None
            | None => None
            end
  end.

Lemma do_prevote_unfixed_eq s :
  do_prevote_unfixed E s = (s, if is_validator E then [OSignVote PREVOTE (cs_height s) (cs_round s) (prevote_target s)] else []).
Proof.
  unfold do_prevote_unfixed, prevote_target, sign_add_vote.
  destruct (cs_lblock s); [destruct (is_validator E); reflexivity|].
  destruct (cs_pblock s) as [pb|]; [destruct (b_valid pb)|]; destruct (is_validator E); reflexivity.
Qed.

Lemma do_prevote_eq r s :
  do_prevote E r s =
  (unlock_known r s,
   if is_validator E then [OSignVote PREVOTE (cs_height s) (cs_round s) (prevote_target (unlock_known r s))] else []).
Proof. unfold do_prevote. rewrite do_prevote_unfixed_eq. autorewrite with cs. reflexivity. Qed.

Lemma enter_prevote_eq h r s :
  cs_halted s = false -> cs_height s = h -> cs_round s = r -> step_rank (cs_step s) < 4 ->
  enter_prevote E h r s =
  (set_rs r SPrevote (unlock_known r s),
   if is_validator E then [OSignVote PREVOTE h r (prevote_target (unlock_known r s))] else []).
Proof.
  intros Hh H1 H2 H3. unfold enter_prevote, step_le. rewrite H1, H2, !Z.eqb_refl, Z.ltb_irrefl. cbn [negb orb andb step_rank].
  replace (4 <=? step_rank (cs_step s)) with false by (symmetry; apply Z.leb_gt; exact H3).
  unfold seq. rewrite do_prevote_eq. autorewrite with cs. rewrite Hh, H1, H2. unfold modify. rewrite app_nil_r. reflexivity.
Qed.

(* ---- the unlock rule of defaultDoPrevote: when it fires, and what it leaves *)

Definition unlock_fires (r : Z) (s : cstate) : bool :=
  match cs_lblock s with
  | Some lb => later_polka_other (cs_votes s) lb (cs_lround s) r (S (Z.to_nat (r - cs_lround s)))
  | None => false
  end.

Lemma unlock_known_lock r s :
  cs_lblock (unlock_known r s) = (if unlock_fires r s then None else cs_lblock s) /\
  cs_lparts (unlock_known r s) = (if unlock_fires r s then None else cs_lparts s) /\
  cs_lround (unlock_known r s) = (if unlock_fires r s then -1 else cs_lround s).
Proof.
  unfold unlock_known, unlock_fires. destruct (cs_lblock s) eqn:El; [|rewrite El; auto].
  destruct (later_polka_other _ _ _ _ _); autorewrite with cs; rewrite ?El; auto.
Qed.

Lemma unlock_fires_ext r s s' :
  cs_lblock s' = cs_lblock s -> cs_lround s' = cs_lround s -> cs_votes s' = cs_votes s ->
  unlock_fires r s' = unlock_fires r s.
Proof. intros A B C. unfold unlock_fires. rewrite A, B, C. reflexivity. Qed.

(* ---------------------------------------------------------------- enterPrecommit *)

(* the two ways enterPrecommit stops the machine: the polka is for a round the vote bookkeeping
   has not reached (POLInfo), or +2/3 prevoted a block this node found invalid *)
Definition precommit_failure (r : Z) (s : cstate) (o : list output) : Prop :=
  (o = [OPanic 2] /\ fst (pol_info (cs_votes s)) < r /\ o_maj23 (prevotes (cs_votes s) r) <> None) \/
  (o = [OPanic 3] /\ exists pb ph, cs_pblock s = Some pb /\ b_valid pb = false /\
                     o_maj23 (prevotes (cs_votes s) r) = Some (Some (b_hash pb, ph))).

Lemma hashes_to_some b h : hashes_to b h = true -> exists lb, b = Some lb /\ b_hash lb = h.
Proof. destruct b as [lb|]; cbn; [|discriminate]. intro H. apply N.eqb_eq in H. eauto. Qed.

Lemma enter_precommit_adv h r s s' o :
  cs_halted s = false -> cs_height s = h -> cs_round s = r -> step_rank (cs_step s) < 6 ->
  enter_precommit E h r s = (s', o) ->
  (cs_halted s' = false /\ cs_height s' = h /\ cs_round s' = r /\ cs_step s' = SPrecommit /\
   cs_votes s' = cs_votes s /\ cs_scheduled s' = cs_scheduled s /\ cs_triggered s' = cs_triggered s)
  \/ (cs_halted s' = true /\ (pos s' = pos s /\ s' = set_halted s) /\ precommit_failure r s o).
Proof.
  intros Hh H1 H2 H3 Eq. unfold enter_precommit, step_le in Eq.
  rewrite H1, H2, !Z.eqb_refl, Z.ltb_irrefl in Eq. cbn [negb orb andb step_rank] in Eq.
  replace (6 <=? step_rank (cs_step s)) with false in Eq by (symmetry; apply Z.leb_gt; exact H3).
  assert (Tail : forall (f : cstate -> cstate) b,
            cs_halted (f s) = false -> cs_height (f s) = h -> cs_votes (f s) = cs_votes s ->
            cs_scheduled (f s) = cs_scheduled s -> cs_triggered (f s) = cs_triggered s ->
            seq (modify f) (seq (sign_add_vote E PRECOMMIT b) (modify (set_rs r SPrecommit))) s = (s', o) ->
            cs_halted s' = false /\ cs_height s' = h /\ cs_round s' = r /\ cs_step s' = SPrecommit /\
            cs_votes s' = cs_votes s /\ cs_scheduled s' = cs_scheduled s /\ cs_triggered s' = cs_triggered s).
  { intros f b F1 F2 F3 F4 F5 Eq'. rewrite seq_modify in Eq' by exact F1.
    unfold seq, sign_add_vote, modify in Eq'.
    destruct (is_validator E); rewrite F1 in Eq'; injection Eq' as <- <-; cs; repeat split; assumption. }
  destruct (o_maj23 (prevotes (cs_votes s) r)) as [polka|] eqn:Maj.
  2:{ left. apply (Tail (fun x => x) None); auto.
      unfold seq at 1, modify at 1. rewrite Hh. cbn [app].
      destruct (seq (sign_add_vote E PRECOMMIT None) (modify (set_rs r SPrecommit)) s) as [a b] eqn:Es.
      exact Eq. }
  destruct (fst (pol_info (cs_votes s)) <? r) eqn:Pi.
  { right. unfold panic in Eq. injection Eq as <- <-. cs. split; [reflexivity|]. split; [split; [apply pos_eq; cs; reflexivity | reflexivity]|].
    left. split; [reflexivity | split; [apply Z.ltb_lt; exact Pi | rewrite Maj; discriminate]]. }
  destruct polka as [[hh ph]|].
  2:{ left. refine (Tail _ _ _ _ _ _ _ Eq); cbv beta; destruct (cs_lblock s); cs; auto. }
  destruct (hashes_to (cs_lblock s) hh).
  { left. refine (Tail _ _ _ _ _ _ _ Eq); cbv beta; cs; auto. }
  destruct (hashes_to (cs_pblock s) hh) eqn:HP.
  { destruct (hashes_to_some _ _ HP) as (pb & Ep & Ehh). rewrite Ep in Eq.
    destruct (b_valid pb) eqn:Ev; cbn [negb] in Eq.
    - left. refine (Tail _ _ _ _ _ _ _ Eq); cbv beta; cs; auto.
    - right. unfold panic in Eq. injection Eq as <- <-. cs. split; [reflexivity|]. split; [split; [apply pos_eq; cs; reflexivity | reflexivity]|].
      right. split; [reflexivity|]. exists pb, ph. subst hh. auto. }
  left. refine (Tail _ _ _ _ _ _ _ Eq); cbv beta zeta;
    destruct (has_header (cs_pparts (set_locked (-1) None None s)) ph); cs; auto.
Qed.

(* ---------------------------------------------------------------- enterPropose / enterNewRound *)

Lemma decide_proposal_state h r s : fst (decide_proposal E h r s) = s.
Proof. exact (proj1 (decide_proposal_keys E h r s)). Qed.

Lemma enter_propose_adv h r s s' o :
  cs_halted s = false -> cs_height s = h -> cs_round s = r -> step_rank (cs_step s) < 3 ->
  enter_propose E h r s = (s', o) ->
  cs_halted s' = false /\ cs_height s' = h /\ cs_round s' = r /\
  (cs_step s' = SPropose \/ cs_step s' = SPrevote) /\
  In {| ti_height := h; ti_round := r; ti_step := SPropose |} (cs_scheduled s') /\
  cs_votes s' = cs_votes s.
Proof.
  intros Hh H1 H2 H3 Eq. unfold enter_propose, step_le in Eq.
  rewrite H1, H2, !Z.eqb_refl, Z.ltb_irrefl in Eq. cbn [negb orb andb step_rank] in Eq.
  replace (3 <=? step_rank (cs_step s)) with false in Eq by (symmetry; apply Z.leb_gt; exact H3).
  set (s1 := add_sched {| ti_height := h; ti_round := r; ti_step := SPropose |} s) in *.
  (* the body: schedule, then maybe sign a proposal; the state after it is s1 *)
  assert (Body : exists ob,
    seq (schedule h r SPropose)
        (fun s1 => match e_me E with
                   | Some me => if me =? e_proposer E (cs_height s1) (cs_round s1)
                                then decide_proposal E h r s1 else (s1, [])
                   | None => (s1, [])
                   end) s = (s1, ob)).
  { rewrite seq_schedule by exact Hh. fold s1.
    destruct (e_me E) as [me|]; [|eexists; reflexivity].
    destruct (me =? e_proposer E (cs_height s1) (cs_round s1)); [|eexists; reflexivity].
    pose proof (decide_proposal_state h r s1) as Ed. destruct (decide_proposal E h r s1) as [x ox]. cbn in Ed. subst x.
    eexists; reflexivity. }
  destruct Body as (ob & Eb). unfold seq at 1 in Eq. rewrite Eb in Eq.
  assert (Hh1 : cs_halted s1 = false) by (subst s1; cs; exact Hh). rewrite Hh1 in Eq.
  rewrite seq_modify in Eq by (cs; exact Hh1).
  set (s2 := set_rs r SPropose s1) in *.
  assert (In1 : In {| ti_height := h; ti_round := r; ti_step := SPropose |} (cs_scheduled s2)).
  { subst s2 s1. cs. left. reflexivity. }
  assert (A : cs_halted s2 = false /\ cs_height s2 = h /\ cs_round s2 = r /\ cs_step s2 = SPropose /\ cs_votes s2 = cs_votes s).
  { subst s2 s1. cs. auto. }
  destruct A as (A1 & A2 & A3 & A4 & A5).
  destruct (is_proposal_complete s2).
  - rewrite A3 in Eq. rewrite enter_prevote_eq in Eq by (auto; rewrite A4; cbn; lia).
    injection Eq as <- <-. cs. repeat split; auto.
  - injection Eq as <- <-. repeat split; auto.
Qed.

Lemma lookup_update_round_keep r x l r' y :
  lookup_round r' l = Some y -> r' <> r -> lookup_round r' (update_round r x l) = Some y.
Proof. intros H Hne. rewrite lookup_update_round_other by exact Hne. exact H. Qed.

Lemma enter_new_round_adv h r s s' o :
  cs_halted s = false -> cs_height s = h ->
  (cs_round s < r \/ (cs_round s = r /\ cs_step s = SNewHeight)) ->
  enter_new_round E h r s = (s', o) ->
  cs_halted s' = false /\ cs_height s' = h /\ cs_round s' = r /\
  (cs_step s' = SPropose \/ cs_step s' = SPrevote) /\
  In {| ti_height := h; ti_round := r; ti_step := SPropose |} (cs_scheduled s').
Proof.
  intros Hh H1 H2 Eq. unfold enter_new_round in Eq.
  replace (negb (cs_height s =? h) || (r <? cs_round s) || ((cs_round s =? r) && negb (step_eqb (cs_step s) SNewHeight)))
    with false in Eq.
  2:{ symmetry. rewrite H1, Z.eqb_refl. cbn [negb orb]. destruct H2 as [H2|[H2 H3]].
      - replace (r <? cs_round s) with false by (symmetry; apply Z.ltb_ge; lia).
        replace (cs_round s =? r) with false by (symmetry; apply Z.eqb_neq; lia). reflexivity.
      - rewrite H2, H3, Z.ltb_irrefl, Z.eqb_refl. reflexivity. }
  match type of Eq with enter_propose E h r ?x = _ => set (s3 := x) in * end.
  assert (A : cs_halted s3 = false /\ cs_height s3 = h /\ cs_round s3 = r /\ cs_step s3 = SNewRound).
  { subst s3. destruct (r =? 0); cs; auto. }
  destruct A as (A1 & A2 & A3 & A4).
  destruct (enter_propose_adv h r s3 s' o A1 A2 A3 ltac:(rewrite A4; cbn; lia) Eq) as (B1 & B2 & B3 & B4 & B5 & _).
  auto.
Qed.

(* ---------------------------------------------------------------- (d) timeouts are never stuck *)

(* a timeout that handleTimeout does not discard as stale *)
Definition live_timeout (s : cstate) (ti : tinfo) : Prop :=
  In ti (cs_scheduled s) /\ ti_height ti = cs_height s /\ ti_round ti = cs_round s /\
  match ti_step ti with
  | SNewHeight => cs_step s = SNewHeight /\ cs_round s = 0
  | SPropose => step_rank (cs_step s) <= 3
  | SPrevoteWait => step_rank (cs_step s) <= 5
  | SPrecommitWait => step_rank (cs_step s) <= 7
  | _ => False
  end.

Lemma in_existsb_tinfo ti l : In ti l -> existsb (tinfo_eqb ti) l = true.
Proof.
  intro H. apply existsb_exists. exists ti. split; [exact H|].
  unfold tinfo_eqb, step_eqb. rewrite !Z.eqb_refl. reflexivity.
Qed.

Theorem timeouts_never_stuck s ti s' o :
  cs_halted s = false -> live_timeout s ti ->
  handle E s (ITimeout ti) = (s', o) ->
  lt3 (pos s) (pos s') \/
  (cs_halted s' = true /\ exists o1, precommit_failure (cs_round s) s o1).
Proof.
  intros Hh (Hin & Th & Tr & Hst) Eq. unfold handle in Eq. rewrite Hh in Eq. unfold handle_timeout in Eq.
  rewrite (in_existsb_tinfo _ _ Hin) in Eq. cbn [negb] in Eq.
  rewrite Th, Tr, !Z.eqb_refl, Z.ltb_irrefl in Eq. cbn [negb orb andb] in Eq.
  destruct (ti_step ti) eqn:Es; try contradiction.
  - (* NewHeight: enterNewRound(height, 0) *)
    destruct Hst as [S1 S2].
    replace (step_rank SNewHeight <? step_rank (cs_step s)) with false in Eq by (rewrite S1; reflexivity). cbn [andb] in Eq.
    destruct (enter_new_round_adv (cs_height s) 0 s s' o Hh eq_refl ltac:(right; auto) Eq) as (A1 & A2 & A3 & A4 & _).
    left. unfold lt3, pos. rewrite A2, A3, S1, S2. destruct A4 as [-> | ->]; cbn; lia.
  - (* Propose: enterPrevote *)
    replace (step_rank SPropose <? step_rank (cs_step s)) with false in Eq by (symmetry; apply Z.ltb_ge; cbn; lia). cbn [andb] in Eq.
    rewrite enter_prevote_eq in Eq by (auto; lia). injection Eq as <- <-.
    left. unfold lt3, pos. cs. cbn [step_rank]. lia.
  - (* PrevoteWait: enterPrecommit *)
    replace (step_rank SPrevoteWait <? step_rank (cs_step s)) with false in Eq by (symmetry; apply Z.ltb_ge; cbn; lia). cbn [andb] in Eq.
    destruct (enter_precommit_adv (cs_height s) (cs_round s) s s' o Hh eq_refl eq_refl ltac:(lia) Eq)
      as [(A1 & A2 & A3 & A4 & _) | (A1 & _ & A3)].
    + left. unfold lt3, pos. rewrite A2, A3, A4. cbn [step_rank]. lia.
    + right. split; [exact A1 | exists o; exact A3].
  - (* PrecommitWait: enterPrecommit; enterNewRound(height, round + 1) *)
    replace (step_rank SPrecommitWait <? step_rank (cs_step s)) with false in Eq by (symmetry; apply Z.ltb_ge; cbn; lia). cbn [andb] in Eq.
    unfold seq in Eq. destruct (enter_precommit E (cs_height s) (cs_round s) s) as [s1 o1] eqn:E1.
    assert (Mid : (cs_halted s1 = false /\ cs_height s1 = cs_height s /\ cs_round s1 = cs_round s)
                  \/ (cs_halted s1 = true /\ precommit_failure (cs_round s) s o1)).
    { destruct (Z_lt_le_dec (step_rank (cs_step s)) 6) as [Lt|Ge].
      - destruct (enter_precommit_adv _ _ _ _ _ Hh eq_refl eq_refl Lt E1) as [(A1 & A2 & A3 & _) | (A1 & _ & A3)]; auto.
      - unfold enter_precommit, step_le in E1. rewrite !Z.eqb_refl, Z.ltb_irrefl in E1. cbn [negb orb andb step_rank] in E1.
        replace (6 <=? step_rank (cs_step s)) with true in E1 by (symmetry; apply Z.leb_le; exact Ge).
        injection E1 as <- <-. auto. }
    destruct Mid as [(M1 & M2 & M3) | (M1 & M2)].
    + rewrite M1 in Eq. destruct (enter_new_round E (cs_height s) (cs_round s + 1) s1) as [s2 o2] eqn:E2.
      injection Eq as <- <-.
      destruct (enter_new_round_adv (cs_height s) (cs_round s + 1) s1 s2 o2 M1 M2 ltac:(left; lia) E2) as (A1 & A2 & A3 & _).
      left. unfold lt3, pos. rewrite A2, A3. lia.
    + rewrite M1 in Eq. injection Eq as <- <-. right. split; [exact M1 | exists o1; exact M2].
Qed.

(* the two failures cannot occur when the vote bookkeeping has reached the node's round
   (HeightVoteSet.SetRound(round + 1) in enterNewRound) and no +2/3 prevoted a block this
   node holds and found invalid *)
Lemma no_precommit_failure s o1 :
  0 <= cs_round s <= hv_round (cs_votes s) ->
  (forall pb ph, cs_pblock s = Some pb -> b_valid pb = false ->
                 o_maj23 (prevotes (cs_votes s) (cs_round s)) <> Some (Some (b_hash pb, ph))) ->
  precommit_failure (cs_round s) s o1 -> False.
Proof.
  intros Hr Hv [[_ [Hp Hm]] | [_ (pb & ph & A & B & C)]].
  - destruct (o_maj23 (prevotes (cs_votes s) (cs_round s))) as [b|] eqn:Em; [|congruence].
    pose proof (pol_info_ge _ _ _ Hr Em). lia.
  - exact (Hv pb ph A B C).
Qed.

(* ---------------------------------------------------------------- (a) proposal => prevote *)

(* the proposal message and the block it announces, as defaultSetProposal / addProposalBlockPart
   accept them in state s: for this height and round, POL round in [-1, round), signed by the
   round's proposer, a one-part block that ValidateBlock accepts, and — when it carries a POL
   round — the polka of that round is among the prevotes this node holds *)
Definition good_proposal (s : cstate) (p : proposal) (b : block) : Prop :=
  pr_height p = cs_height s /\ pr_round p = cs_round s /\ -1 <= pr_polr p < cs_round s /\
  pr_sigvalid p = true /\ pr_signer p = e_proposer E (cs_height s) (cs_round s) /\
  fst (pr_bid p) = b_hash b /\ fst (snd (pr_bid p)) = 1%N /\ b_valid b = true /\
  (pr_polr p = -1 \/ o_has_maj23 (prevotes (cs_votes s) (pr_polr p)) = true).

Definition one_part (ph : psh) : partset := {| pt_header := ph; pt_have := [0%N] |}.

Lemma one_part_complete ph : fst ph = 1%N -> pt_complete (one_part ph) = true.
Proof. intro H. unfold pt_complete, one_part. cbn [pt_have pt_header length]. rewrite H. reflexivity. Qed.

(* everything but position, proposal fields and the scheduled timeouts is untouched *)
Definition same_locks (s s' : cstate) : Prop :=
  cs_lround s' = cs_lround s /\ cs_lblock s' = cs_lblock s /\ cs_lparts s' = cs_lparts s /\
  cs_vround s' = cs_vround s /\ cs_vblock s' = cs_vblock s /\ cs_vparts s' = cs_vparts s /\
  cs_votes s' = cs_votes s /\ cs_triggered s' = cs_triggered s /\ cs_commit_round s' = cs_commit_round s /\
  cs_last_commit s' = cs_last_commit s.

Lemma set_proposal_accepts s p b :
  cs_proposal s = None -> good_proposal s p b ->
  set_proposal E p s =
  (set_prop (Some p) (cs_pblock s)
            (match cs_pparts s with Some x => Some x | None => Some (new_parts (snd (pr_bid p))) end) s, []).
Proof.
  intros Hp (G1 & G2 & G3 & G4 & G5 & _). unfold set_proposal. rewrite Hp, G1, G2, !Z.eqb_refl. cbn [negb orb].
  replace (pr_polr p <? -1) with false by (symmetry; apply Z.ltb_ge; lia).
  replace (cs_round s <=? pr_polr p) with false by (symmetry; apply Z.leb_gt; lia).
  rewrite andb_false_r. cbn [orb]. rewrite G4, G5, Z.eqb_refl. reflexivity.
Qed.

Lemma psh_eqb_refl' p : psh_eqb p p = true.
Proof. apply psh_eqb_eq. reflexivity. Qed.

(* the part completes the set: handleCompleteProposal runs on the state holding the block *)
Lemma add_part_completes h ph b s :
  cs_height s = h -> cs_pparts s = Some (new_parts ph) -> fst ph = 1%N ->
  add_part E h ph 0%N (Some b) s =
  handle_complete_proposal E h (set_prop (cs_proposal s) (Some b) (Some (one_part ph)) s).
Proof.
  intros H1 Hpp Htot. unfold add_part. rewrite H1, Z.eqb_refl. cbn [negb].
  rewrite Hpp. cbn [pt_header pt_have new_parts]. rewrite psh_eqb_refl'. cbn [negb].
  rewrite Htot. cbn [N.leb N.compare pt_have existsb].
  unfold pt_complete. cbn [pt_have pt_header length]. rewrite Htot. cbn [N.of_nat N.eqb Pos.of_succ_nat Pos.eqb].
  reflexivity.
Qed.

Theorem progress_prevote s p b s1 o1 s2 o2 :
  cs_halted s = false -> step_rank (cs_step s) <= 3 ->
  cs_proposal s = None ->
  (cs_pparts s = None \/ cs_pparts s = Some (new_parts (snd (pr_bid p)))) ->
  good_proposal s p b ->
  handle E s (IProposal p) = (s1, o1) ->
  handle E s1 (IPart (cs_height s) (snd (pr_bid p)) 0%N (Some b)) = (s2, o2) ->
  let u := unlock_known (cs_round s) s in       (* the unlock rule of the prevote step, applied *)
  let target := match cs_lblock u with
                | Some lb => block_id_of lb (cs_lparts u)       (* still locked: the locked block *)
                | None => Some (pr_bid p)                        (* unlocked: the proposal *)
                end in
  o1 = [] /\
  exists rest,
    o2 = (if is_validator E then [OSignVote PREVOTE (cs_height s) (cs_round s) target] else []) ++ rest /\
    (o_maj23 (prevotes (cs_votes s) (cs_round s)) = None ->
       rest = [] /\ cs_halted s2 = false /\ cs_height s2 = cs_height s /\ cs_round s2 = cs_round s /\
       cs_step s2 = SPrevote /\ cs_proposal s2 = Some p /\ cs_pblock s2 = Some b /\
       cs_pparts s2 = Some (one_part (snd (pr_bid p))) /\ cs_scheduled s2 = cs_scheduled s /\ same_locks u s2).
Proof.
  intros Hh Hst Hp Hpp G E1 E2 u target.
  pose proof G as (G1 & G2 & G3 & G4 & G5 & G6 & G7 & G8 & G9).
  unfold handle in E1. rewrite Hh in E1. rewrite (set_proposal_accepts s p b Hp G) in E1.
  injection E1 as <- <-. split; [reflexivity|].
  set (ph := snd (pr_bid p)) in *.
  set (s1 := set_prop (Some p) (cs_pblock s) (match cs_pparts s with Some x => Some x | None => Some (new_parts ph) end) s) in *.
  assert (P1 : cs_pparts s1 = Some (new_parts ph)).
  { subst s1. cs. destruct Hpp as [-> | ->]; reflexivity. }
  unfold handle in E2. replace (cs_halted s1) with false in E2 by (subst s1; cs; auto).
  rewrite (add_part_completes (cs_height s) ph b s1 ltac:(subst s1; cs; reflexivity) P1 G7) in E2.
  set (s0 := set_prop (cs_proposal s1) (Some b) (Some (one_part ph)) s1) in *.
  assert (A : cs_halted s0 = false /\ cs_height s0 = cs_height s /\ cs_round s0 = cs_round s /\ cs_step s0 = cs_step s /\
              cs_proposal s0 = Some p /\ cs_pblock s0 = Some b /\ cs_pparts s0 = Some (one_part ph) /\
              cs_scheduled s0 = cs_scheduled s /\ same_locks s s0).
  { subst s0 s1. unfold same_locks. cs. repeat split; auto. }
  destruct A as (A1 & A2 & A3 & A4 & A5 & A6 & A7 & A8 & A9).
  pose proof A9 as (L1 & L2 & L3 & L4 & L5 & L6 & L7 & L8 & L9 & L10).
  unfold handle_complete_proposal in E2.
  rewrite L7, A3 in E2.
  set (maj := o_maj23 (prevotes (cs_votes s) (cs_round s))) in *.
  (* the state after the valid-block update keeps everything the prevote needs *)
  match type of E2 with (if step_le (cs_step ?x) _ && _ then _ else _) = _ => set (sv := x) in * end.
  assert (B : cs_halted sv = false /\ cs_height sv = cs_height s /\ cs_round sv = cs_round s /\ cs_step sv = cs_step s /\
              cs_proposal sv = Some p /\ cs_pblock sv = Some b /\ cs_pparts sv = Some (one_part ph) /\
              cs_lblock sv = cs_lblock s /\ cs_lparts sv = cs_lparts s /\ cs_votes sv = cs_votes s /\
              (maj = None -> sv = s0)).
  { subst sv. destruct maj as [[[hh pp]|]|]; [|repeat split; auto; try congruence..].
    destruct ((cs_vround s0 <? cs_round s) && hashes_to (cs_pblock s0) hh); cs; repeat split; auto; try congruence; discriminate. }
  destruct B as (B1 & B2 & B3 & B4 & B5 & B6 & B7 & B8 & B9 & B10 & B11).
  assert (PC : is_proposal_complete sv = true).
  { unfold is_proposal_complete. rewrite B5, B6, B10. destruct G9 as [-> | ->]; [reflexivity|].
    destruct (pr_polr p <? 0); reflexivity. }
  unfold step_le in E2. rewrite B4, PC in E2.
  replace (step_rank (cs_step s) <=? step_rank SPropose) with true in E2 by (symmetry; apply Z.leb_le; cbn; lia).
  cbn [andb] in E2. rewrite B3 in E2.
  unfold seq in E2. rewrite enter_prevote_eq in E2 by (auto; rewrite B4; lia).
  replace (cs_halted (set_rs (cs_round s) SPrevote (unlock_known (cs_round s) sv))) with false in E2 by (cs; auto).
  assert (Lr : cs_lround sv = cs_lround s).
  { subst sv. destruct maj as [[[hh pp]|]|]; try congruence.
    destruct ((cs_vround s0 <? cs_round s) && hashes_to (cs_pblock s0) hh); cs; congruence. }
  assert (Fx : unlock_fires (cs_round s) sv = unlock_fires (cs_round s) s) by (apply unlock_fires_ext; assumption).
  destruct (unlock_known_lock (cs_round s) sv) as (U1 & U2 & U3).
  destruct (unlock_known_lock (cs_round s) s) as (V1 & V2 & V3).
  rewrite Fx in U1, U2, U3. rewrite B8 in U1. rewrite B9 in U2. rewrite Lr in U3.
  assert (T : prevote_target (unlock_known (cs_round s) sv) = target).
  { unfold prevote_target, target, u. rewrite U1, U2, V1, V2. cs. rewrite B6, B7, G8.
    assert (Eb : block_id_of b (Some (one_part ph)) = Some (pr_bid p))
      by (unfold block_id_of; cbn; rewrite <- G6; unfold ph; destruct (pr_bid p) as [x y]; reflexivity).
    destruct (unlock_fires (cs_round s) s); [exact Eb|]. destruct (cs_lblock s); [reflexivity | exact Eb]. }
  rewrite T in E2.
  destruct maj as [pk|] eqn:Em.
  - match type of E2 with context [enter_precommit E ?a ?b0 ?c] => destruct (enter_precommit E a b0 c) as [s3 o3] end.
    injection E2 as <- <-. exists o3. split; [reflexivity|]. intro; discriminate.
  - injection E2 as <- <-. exists []. split; [reflexivity|]. intros _.
    cs. rewrite (B11 eq_refl) in *. repeat split; auto; try congruence.
    all: unfold u; cs; rewrite ?U1, ?U2, ?U3, ?V1, ?V2, ?V3; congruence.
Qed.
(* ---------------------------------------------------------------- vote bookkeeping helpers *)

Lemma hv_add_vote_existing hv v peer pv pc :
  lookup_round (v_round v) (hv_sets hv) = Some (pv, pc) -> (v_type v = PREVOTE \/ v_type v = PRECOMMIT) ->
  hv_add_vote hv v peer =
  (let '(s', added, e) := vs_add (if (v_type v =? PREVOTE)%N then pv else pc) v in
   (hv_put hv (v_round v) (v_type v) s', added, e)).
Proof.
  intros L Ty. unfold hv_add_vote.
  replace (negb ((v_type v =? PREVOTE)%N || (v_type v =? PRECOMMIT)%N)) with false
    by (destruct Ty as [-> | ->]; reflexivity).
  unfold hv_get. rewrite L. cbn [negb].
  destruct ((v_type v =? PREVOTE)%N); rewrite L; reflexivity.
Qed.

Lemma hv_put_round hv r ty x : hv_round (hv_put hv r ty x) = hv_round hv.
Proof. unfold hv_put. destruct (lookup_round r (hv_sets hv)) as [[pv pc]|]; reflexivity. Qed.

Lemma hv_put_lookup_same hv r ty x pv pc :
  lookup_round r (hv_sets hv) = Some (pv, pc) ->
  lookup_round r (hv_sets (hv_put hv r ty x)) = Some (if (ty =? PREVOTE)%N then (x, pc) else (pv, x)).
Proof. intro L. unfold hv_put. rewrite L. cbn [hv_sets]. apply lookup_update_round_same. Qed.

Lemma hv_put_lookup_other hv r ty x r' :
  r' <> r -> lookup_round r' (hv_sets (hv_put hv r ty x)) = lookup_round r' (hv_sets hv).
Proof.
  intro Hne. unfold hv_put. destruct (lookup_round r (hv_sets hv)) as [[pv pc]|]; [|reflexivity].
  cbn [hv_sets]. apply lookup_update_round_other. exact Hne.
Qed.

Lemma prevotes_lookup hv r pv pc : lookup_round r (hv_sets hv) = Some (pv, pc) -> prevotes hv r = Some pv.
Proof. intro L. unfold prevotes, hv_get. rewrite L. reflexivity. Qed.
Lemma precommits_lookup hv r pv pc : lookup_round r (hv_sets hv) = Some (pv, pc) -> precommits hv r = Some pc.
Proof. intro L. unfold precommits, hv_get. rewrite L. reflexivity. Qed.

Lemma prevotes_put_other hv r ty x r' : r' <> r -> prevotes (hv_put hv r ty x) r' = prevotes hv r'.
Proof. intro Hne. unfold prevotes, hv_get. rewrite hv_put_lookup_other by exact Hne. reflexivity. Qed.

(* ---------------------------------------------------------------- the polka bookkeeping of addVote *)

(* all fields but the valid block and the proposal's part set *)
Definition eq_mod_valid (s s' : cstate) : Prop :=
  cs_halted s' = cs_halted s /\ cs_height s' = cs_height s /\ cs_round s' = cs_round s /\ cs_step s' = cs_step s /\
  cs_proposal s' = cs_proposal s /\ cs_pblock s' = cs_pblock s /\
  cs_lround s' = cs_lround s /\ cs_lblock s' = cs_lblock s /\ cs_lparts s' = cs_lparts s /\
  cs_votes s' = cs_votes s /\ cs_scheduled s' = cs_scheduled s /\ cs_triggered s' = cs_triggered s /\
  cs_commit_round s' = cs_commit_round s /\ cs_last_commit s' = cs_last_commit s.

Lemma polka_valid_part r su hb ph b :
  cs_pblock su = Some b -> b_hash b = hb ->
  let s' := if (cs_vround su <? r) && (r =? cs_round su) then
              let s_v := if hashes_to (cs_pblock su) hb
                         then set_valid r (cs_pblock su) (cs_pparts su) su
                         else set_prop (cs_proposal su) None (cs_pparts su) su in
              if negb (has_header (cs_pparts s_v) ph)
              then set_prop (cs_proposal s_v) (cs_pblock s_v) (Some (new_parts ph)) s_v else s_v
            else su in
  eq_mod_valid su s' /\ (has_header (cs_pparts su) ph = true -> cs_pparts s' = cs_pparts su).
Proof.
  intros Hb Hh s'. subst s'. rewrite Hb. cbn [hashes_to]. rewrite Hh, N.eqb_refl.
  destruct ((cs_vround su <? r) && (r =? cs_round su)); [|split; [unfold eq_mod_valid; tauto | auto]].
  cs. destruct (has_header (cs_pparts su) ph) eqn:Hd; cbn [negb]; unfold eq_mod_valid; cs; split; auto; try tauto.
  discriminate.
Qed.

Lemma polka_update_polka r s hb ph b :
  o_maj23 (prevotes (cs_votes s) r) = Some (Some (hb, ph)) -> cs_round s = r ->
  cs_pblock s = Some b -> b_hash b = hb ->
  (hashes_to (cs_lblock s) hb = true \/ cs_lblock s = None \/ cs_lround s < r) ->
  let s' := polka_update r s in
  (cs_halted s' = cs_halted s /\ cs_height s' = cs_height s /\ cs_round s' = r /\ cs_step s' = cs_step s /\
   cs_proposal s' = cs_proposal s /\ cs_pblock s' = Some b /\ cs_votes s' = cs_votes s /\
   cs_scheduled s' = cs_scheduled s /\ cs_triggered s' = cs_triggered s /\
   cs_commit_round s' = cs_commit_round s /\ cs_last_commit s' = cs_last_commit s) /\
  (if hashes_to (cs_lblock s) hb
   then cs_lblock s' = cs_lblock s /\ cs_lparts s' = cs_lparts s /\ cs_lround s' = cs_lround s
   else cs_lblock s' = None) /\
  (has_header (cs_pparts s) ph = true -> cs_pparts s' = cs_pparts s).
Proof.
  intros Hm Hr Hb Hh Hl s'. subst s'. unfold polka_update. rewrite Hm. cbv beta iota zeta.
  match goal with |- context [if (cs_vround ?x <? r) && _ then _ else _] => set (su := x) end.
  assert (U : cs_pblock su = Some b /\ cs_pparts su = cs_pparts s /\
              (cs_halted su = cs_halted s /\ cs_height su = cs_height s /\ cs_round su = r /\ cs_step su = cs_step s /\
               cs_proposal su = cs_proposal s /\ cs_votes su = cs_votes s /\
               cs_scheduled su = cs_scheduled s /\ cs_triggered su = cs_triggered s /\
               cs_commit_round su = cs_commit_round s /\ cs_last_commit su = cs_last_commit s) /\
              (if hashes_to (cs_lblock s) hb
               then cs_lblock su = cs_lblock s /\ cs_lparts su = cs_lparts s /\ cs_lround su = cs_lround s
               else cs_lblock su = None)).
  { subst su. destruct (cs_lblock s) as [lb|] eqn:El.
    - destruct (hashes_to (Some lb) hb) eqn:Hl'.
      + cbn [andb negb]. rewrite andb_false_r. repeat split; auto.
      + destruct Hl as [Hl|[Hl|Hl]]; [discriminate|discriminate|].
        replace (cs_lround s <? r) with true by (symmetry; apply Z.ltb_lt; exact Hl).
        replace (r <=? cs_round s) with true by (symmetry; apply Z.leb_le; lia).
        cbn [andb negb]. cs. repeat split; auto.
    - rewrite El. cbn [hashes_to]. repeat split; auto. }
  destruct U as (U1 & U2 & U3 & U4).
  destruct (polka_valid_part r su hb ph b U1 Hh) as [V1 V2]. cbv zeta in V1, V2.
  match goal with |- context [if (cs_vround su <? r) && _ then ?a else ?c] => set (sf := if (cs_vround su <? r) && (r =? cs_round su) then a else c) in * end.
  destruct V1 as (W1 & W2 & W3 & W4 & W5 & W6 & W7 & W8 & W9 & W10 & W11 & W12 & W13 & W14).
  destruct U3 as (X1 & X2 & X3 & X4 & X5 & X6 & X7 & X8 & X9 & X10).
  split; [repeat split; congruence|]. split.
  - destruct (hashes_to (cs_lblock s) hb); [destruct U4 as (Y1 & Y2 & Y3); repeat split; congruence | congruence].
  - intro Hd. rewrite <- U2 in Hd |- *. apply V2. exact Hd.
Qed.

(* ---------------------------------------------------------------- (b) polka => lock and precommit *)

Lemma enter_precommit_polka h r s hb ph b :
  cs_halted s = false -> cs_height s = h -> cs_round s = r -> step_rank (cs_step s) < 6 ->
  o_maj23 (prevotes (cs_votes s) r) = Some (Some (hb, ph)) -> 0 <= r <= hv_round (cs_votes s) ->
  cs_pblock s = Some b -> b_hash b = hb -> b_valid b = true ->
  enter_precommit E h r s =
  (set_rs r SPrecommit
     (if hashes_to (cs_lblock s) hb then relock r s
      else set_locked r (Some b) (cs_pparts s) s),
   if is_validator E then [OSignVote PRECOMMIT h r (Some (hb, ph))] else []).
Proof.
  intros Hh H1 H2 H3 Hm Hr Hb Hbh Hv. unfold enter_precommit, step_le.
  rewrite H1, H2, !Z.eqb_refl, Z.ltb_irrefl. cbn [negb orb andb step_rank].
  replace (6 <=? step_rank (cs_step s)) with false by (symmetry; apply Z.leb_gt; exact H3).
  rewrite Hm.
  replace (fst (pol_info (cs_votes s)) <? r) with false
    by (symmetry; apply Z.ltb_ge; eapply pol_info_ge; eassumption).
  destruct (hashes_to (cs_lblock s) hb).
  - rewrite seq_modify by (cs; exact Hh). unfold seq, sign_add_vote, modify.
    destruct (is_validator E); cs; rewrite Hh, ?H1, ?H2; reflexivity.
  - rewrite Hb. cbn [hashes_to]. rewrite Hbh, N.eqb_refl, Hv. cbn [negb].
    rewrite seq_modify by (cs; exact Hh). unfold seq, sign_add_vote, modify. rewrite Hb.
    destruct (is_validator E); cs; rewrite Hh, ?H1, ?H2; reflexivity.
Qed.

(* the state after the prevote that completes the polka for the block held *)
Definition locked_on (r : Z) (b : block) (hb : N) (s0 s' : cstate) : Prop :=
  cs_lround s' = r /\
  (if hashes_to (cs_lblock s0) hb
   then cs_lblock s' = cs_lblock s0 /\ cs_lparts s' = cs_lparts s0
   else cs_lblock s' = Some b /\ cs_lparts s' = cs_pparts s').

Lemma in_errs_app (e : verr) (x : output) o : In x o -> In x ((match e with E_none => [] | _ => [OVoteErr e] end) ++ o).
Proof. intro H. apply in_or_app. right. exact H. Qed.

Lemma progress_precommit_full s v peer hv' e hb ph p b s' o :
  cs_halted s = false -> cs_height s = v_height v -> cs_round s = v_round v ->
  (cs_step s = SPrevote \/ cs_step s = SPrevoteWait) ->
  v_type v = PREVOTE ->
  hv_add_vote (cs_votes s) v peer = (hv', true, e) ->
  o_maj23 (prevotes hv' (v_round v)) = Some (Some (hb, ph)) ->
  cs_proposal s = Some p -> (pr_polr p < 0 \/ o_has_maj23 (prevotes hv' (pr_polr p)) = true) ->
  cs_pblock s = Some b -> b_hash b = hb -> b_valid b = true ->
  (cs_lblock s = None \/ cs_lround s < cs_round s) ->
  0 <= cs_round s <= hv_round hv' ->
  handle E s (IVote v peer) = (s', o) ->
  o = (match e with E_none => [] | _ => [OVoteErr e] end) ++
      (if is_validator E then [OSignVote PRECOMMIT (cs_height s) (cs_round s) (Some (hb, ph))] else []) /\
  cs_halted s' = false /\ cs_height s' = cs_height s /\ cs_round s' = cs_round s /\ cs_step s' = SPrecommit /\
  cs_proposal s' = Some p /\ cs_pblock s' = Some b /\ cs_votes s' = hv' /\
  cs_scheduled s' = cs_scheduled s /\ cs_triggered s' = cs_triggered s /\
  locked_on (cs_round s) b hb s s' /\
  (has_header (cs_pparts s) ph = true -> cs_pparts s' = cs_pparts s).
Proof.
  intros Hh H1 H2 Hst Ty Ea Hm Hp Hpol Hb Hbh Hv Hl Hr Eq.
  unfold handle in Eq. rewrite Hh in Eq. unfold add_vote in Eq.
  replace (v_height v + 1 =? cs_height s) with false in Eq by (symmetry; apply Z.eqb_neq; lia).
  cbn [andb] in Eq. rewrite <- H1, Z.eqb_refl in Eq. cbn [negb] in Eq.
  rewrite Ea in Eq. cbn [negb] in Eq. rewrite Ty in Eq. change (PREVOTE =? PREVOTE)%N with true in Eq. cbv iota in Eq.
  set (s1 := set_votes hv' s) in *.
  assert (Hm1 : o_maj23 (prevotes (cs_votes s1) (v_round v)) = Some (Some (hb, ph))) by (subst s1; cs; exact Hm).
  destruct (polka_update_polka (v_round v) s1 hb ph b Hm1 ltac:(subst s1; cs; auto) ltac:(subst s1; cs; auto) Hbh
              ltac:(subst s1; cs; rewrite <- H2; right; exact Hl)) as (F & L & PP).
  cbv zeta in F, L, PP. set (s2 := polka_update (v_round v) s1) in *.
  destruct F as (F1 & F2 & F3 & F4 & F5 & F6 & F7 & F8 & F9 & F10 & F11).
  subst s1. cs.
  rewrite F3, F7, F4 in Eq. cs. rewrite Z.ltb_irrefl, Z.eqb_refl in Eq. cbn [andb] in Eq.
  replace (step_le SPrevote (cs_step s)) with true in Eq by (destruct Hst as [-> | ->]; reflexivity).
  rewrite Hm in Eq.
  assert (PC : is_proposal_complete s2 = true).
  { unfold is_proposal_complete. rewrite F5, F6, F7, Hp. destruct (pr_polr p <? 0) eqn:Ep; [reflexivity|].
    apply Z.ltb_ge in Ep. destruct Hpol as [Hpol|Hpol]; [lia | exact Hpol]. }
  rewrite PC in Eq. cbn [orb] in Eq.
  rewrite (enter_precommit_polka (cs_height s) (v_round v) s2 hb ph b) in Eq; try assumption; try congruence.
  2:{ rewrite F4. destruct Hst as [-> | ->]; cbn; lia. }
  injection Eq as <- <-. rewrite H2. split; [reflexivity|].
  destruct (hashes_to (cs_lblock s2) hb) eqn:H2l; cs.
  - assert (Hs : hashes_to (cs_lblock s) hb = true).
    { destruct (hashes_to (cs_lblock s) hb); [reflexivity|]. rewrite L in H2l. discriminate. }
    rewrite Hs in L. destruct L as (L1 & L2 & L3).
    repeat split; try congruence; try exact PP; cs; rewrite ?Hs; repeat split; congruence.
  - assert (Hs : hashes_to (cs_lblock s) hb = false).
    { destruct (hashes_to (cs_lblock s) hb) eqn:Hs'; [|reflexivity]. destruct L as (L1 & _). rewrite L1, Hs' in H2l. discriminate. }
    repeat split; try congruence; try exact PP; cs; rewrite ?Hs; repeat split; congruence.
Qed.

Theorem progress_precommit s v peer hv' e hb ph p b s' o :
  cs_halted s = false -> cs_height s = v_height v -> cs_round s = v_round v ->
  (cs_step s = SPrevote \/ cs_step s = SPrevoteWait) ->
  v_type v = PREVOTE ->
  hv_add_vote (cs_votes s) v peer = (hv', true, e) ->
  o_maj23 (prevotes hv' (v_round v)) = Some (Some (hb, ph)) ->
  cs_proposal s = Some p -> (pr_polr p < 0 \/ o_has_maj23 (prevotes hv' (pr_polr p)) = true) ->
  cs_pblock s = Some b -> b_hash b = hb -> b_valid b = true ->
  (cs_lblock s = None \/ cs_lround s < cs_round s) ->
  0 <= cs_round s <= hv_round hv' ->
  is_validator E = true ->
  handle E s (IVote v peer) = (s', o) ->
  In (OSignVote PRECOMMIT (cs_height s) (cs_round s) (Some (hb, ph))) o /\
  cs_halted s' = false /\ cs_step s' = SPrecommit /\ cs_lround s' = cs_round s /\
  exists lb, cs_lblock s' = Some lb /\ b_hash lb = hb.
Proof.
  intros Hh H1 H2 Hst Ty Ea Hm Hp Hpol Hb Hbh Hv Hl Hr Hval Eq.
  destruct (progress_precommit_full s v peer hv' e hb ph p b s' o Hh H1 H2 Hst Ty Ea Hm Hp Hpol Hb Hbh Hv Hl Hr Eq)
    as (Ho & A1 & A2 & A3 & A4 & A5 & A6 & A7 & A8 & A9 & (L1 & L2) & _).
  split; [rewrite Ho, Hval; apply in_errs_app; left; reflexivity|].
  repeat split; auto.
  destruct (hashes_to (cs_lblock s) hb) eqn:Hs.
  - destruct (hashes_to_some _ _ Hs) as (lb & El & Ehb). exists lb. destruct L2 as [L2 _]. split; congruence.
  - exists b. destruct L2 as [L2 _]. split; assumption.
Qed.

(* ---------------------------------------------------------------- (c) +2/3 precommits => decide *)

Lemma seq_out_first (f g : M) s x : In x (snd (f s)) -> In x (snd (seq f g s)).
Proof.
  intro H. unfold seq. destruct (f s) as [s1 o1]. cbn [snd] in H.
  destruct (cs_halted s1); [exact H|]. destruct (g s1) as [s2 o2]. cbn [snd]. apply in_or_app. left. exact H.
Qed.

Lemma enter_commit_decides h r s hb ph b pp :
  cs_halted s = false -> cs_height s = h -> step_rank (cs_step s) < 8 ->
  o_maj23 (precommits (cs_votes s) r) = Some (Some (hb, ph)) ->
  cs_pblock s = Some b -> b_hash b = hb -> b_valid b = true ->
  cs_pparts s = Some pp -> pt_header pp = ph -> pt_complete pp = true ->
  (hashes_to (cs_lblock s) hb = true -> cs_lblock s = Some b /\ cs_lparts s = Some pp) ->
  In (ODecide h r hb) (snd (enter_commit E h r s)).
Proof.
  intros Hh H1 H3 Hm Hb Hbh Hv Hpp Hph Hc Hl. unfold enter_commit, step_le.
  rewrite H1, Z.eqb_refl. cbn [negb orb step_rank].
  replace (8 <=? step_rank (cs_step s)) with false by (symmetry; apply Z.leb_gt; exact H3).
  rewrite Hm. cbn [andb].
  match goal with |- context [try_finalize_commit E h ?x] => set (s3 := x) end.
  assert (Q : cs_height s3 = h /\ cs_step s3 = SCommit /\ cs_votes s3 = cs_votes s /\ cs_commit_round s3 = r /\
              cs_pblock s3 = Some b /\ cs_pparts s3 = Some pp /\ cs_halted s3 = false).
  { subst s3. destruct (hashes_to (cs_lblock s) hb) eqn:Hs.
    - destruct (Hl eq_refl) as [L1 L2]. cs. rewrite L1. cbn [hashes_to]. rewrite Hbh, N.eqb_refl. cbn [negb]. cs.
      repeat split; auto.
    - rewrite Hb. cbn [hashes_to]. rewrite Hbh, N.eqb_refl. cbn [negb]. cs. repeat split; auto. }
  destruct Q as (Q1 & Q2 & Q3 & Q4 & Q5 & Q6 & Q7).
  unfold try_finalize_commit. rewrite Q1, Z.eqb_refl. cbn [negb].
  rewrite Q3, Q4, Hm, Q5. cbn [hashes_to]. rewrite Hbh, N.eqb_refl.
  unfold finalize_commit. rewrite Q1, Z.eqb_refl, Q2. cbn [negb orb step_eqb step_rank Z.eqb].
  rewrite Q3, Q4, Hm, Q6. cbn [has_header]. rewrite Hph, psh_eqb_refl'. cbn [negb].
  rewrite Q5. cbn [hashes_to]. rewrite Hbh, N.eqb_refl. cbn [negb]. rewrite Hv, Hc. cbn [negb].
  apply seq_out_first. cbn. left. reflexivity.
Qed.

Theorem progress_decide s v peer hv' e hb ph b pp s' o :
  cs_halted s = false -> cs_height s = v_height v -> cs_round s = v_round v ->
  cs_step s = SPrecommit -> v_type v = PRECOMMIT ->
  hv_add_vote (cs_votes s) v peer = (hv', true, e) ->
  o_maj23 (precommits hv' (v_round v)) = Some (Some (hb, ph)) ->
  cs_pblock s = Some b -> b_hash b = hb -> b_valid b = true ->
  cs_pparts s = Some pp -> pt_header pp = ph -> pt_complete pp = true ->
  (hashes_to (cs_lblock s) hb = true -> cs_lblock s = Some b /\ cs_lparts s = Some pp) ->
  handle E s (IVote v peer) = (s', o) ->
  In (ODecide (cs_height s) (cs_round s) hb) o.
Proof.
  intros Hh H1 H2 Hst Ty Ea Hm Hb Hbh Hv Hpp Hph Hc Hl Eq.
  unfold handle in Eq. rewrite Hh in Eq. unfold add_vote in Eq.
  replace (v_height v + 1 =? cs_height s) with false in Eq by (symmetry; apply Z.eqb_neq; lia).
  cbn [andb] in Eq. rewrite <- H1, Z.eqb_refl in Eq. cbn [negb] in Eq.
  rewrite Ea in Eq. cbn [negb] in Eq. rewrite Ty in Eq. change (PRECOMMIT =? PREVOTE)%N with false in Eq. cbv iota in Eq.
  set (s1 := set_votes hv' s) in *.
  assert (A : cs_halted s1 = false /\ cs_height s1 = cs_height s /\ cs_round s1 = v_round v /\ cs_step s1 = SPrecommit /\
              cs_votes s1 = hv').
  { subst s1. cs. auto. }
  destruct A as (A1 & A2 & A3 & A4 & A5).
  rewrite A5, Hm in Eq.
  (* enterNewRound and enterPrecommit for the current round, already passed: nothing *)
  assert (N1 : enter_new_round E (cs_height s) (v_round v) s1 = (s1, [])).
  { unfold enter_new_round. rewrite A2, A3, A4, !Z.eqb_refl, Z.ltb_irrefl. reflexivity. }
  assert (N2 : enter_precommit E (cs_height s) (v_round v) s1 = (s1, [])).
  { unfold enter_precommit. rewrite A2, A3, A4, !Z.eqb_refl, Z.ltb_irrefl. reflexivity. }
  unfold seq at 1 in Eq. rewrite N1, A1 in Eq. unfold seq at 1 in Eq. rewrite N2, A1 in Eq. cbn [app] in Eq.
  assert (D0 : In (ODecide (cs_height s) (v_round v) hb) (snd (enter_commit E (cs_height s) (v_round v) s1))).
  { apply (enter_commit_decides (cs_height s) (v_round v) s1 hb ph b pp); subst s1; cs; auto.
    rewrite Hst. cbn. lia. }
  match type of Eq with context [seq (enter_commit E ?hh ?rr) ?g s1] =>
    pose proof (seq_out_first (enter_commit E hh rr) g s1 _ D0) as D;
    destruct (seq (enter_commit E hh rr) g s1) as [sa oa] end.
  cbn [snd] in D. injection Eq as <- <-. apply in_errs_app. rewrite H2. exact D.
Qed.

(* ---------------------------------------------------------------- the prevote step applies the unlock rule
   (the repair of finding F70): after enterPrevote no polka the node holds for a round in
   (LockedRound, round] is for something else than its locked block — "settled" *)

Lemma later_polka_other_complete hv lb lr : forall fuel r r' polka,
  lr < r' <= r -> (Z.to_nat (r - lr) <= fuel)%nat ->
  o_maj23 (prevotes hv r') = Some polka -> bhash polka <> Some (b_hash lb) ->
  later_polka_other hv lb lr r fuel = true.
Proof.
  induction fuel as [|f IH]; intros r r' polka Hr Hf Hm Hne; [lia|].
  cbn [later_polka_other]. replace (r <=? lr) with false by (symmetry; apply Z.leb_gt; lia).
  assert (Other : negb ((match polka with Some _ => true | None => false end) &&
                        hashes_to (Some lb) (match polka with Some (h, _) => h | None => 0%N end)) = true).
  { destruct polka as [[h ph]|]; [|reflexivity]. cbn. apply negb_true_iff, N.eqb_neq. cbn in Hne. congruence. }
  destruct (Z.eq_dec r r') as [->|Hn].
  - rewrite Hm, Other. reflexivity.
  - assert (Rec : later_polka_other hv lb lr (r - 1) f = true) by (apply (IH (r - 1) r' polka); try assumption; lia).
    destruct (o_maj23 (prevotes hv r)) as [pk|]; [|exact Rec].
    match goal with |- (if ?c then _ else _) = _ => destruct c end; [reflexivity | exact Rec].
Qed.

Definition settled_at (r : Z) (s : cstate) : Prop :=
  forall lb, cs_lblock s = Some lb ->
  forall r' polka, cs_lround s < r' <= r -> o_maj23 (prevotes (cs_votes s) r') = Some polka ->
                   bhash polka = Some (b_hash lb).

Lemma unlock_known_settled r s : settled_at r (unlock_known r s).
Proof.
  intros lb Hl r' polka Hr Hm. destruct (unlock_known_lock r s) as (U1 & U2 & U3). autorewrite with cs in Hm.
  unfold unlock_fires in *. destruct (cs_lblock s) as [lb0|] eqn:El; [|rewrite Hl in U1; discriminate].
  destruct (later_polka_other (cs_votes s) lb0 (cs_lround s) r (S (Z.to_nat (r - cs_lround s)))) eqn:Lp;
    [rewrite Hl in U1; discriminate|].
  rewrite Hl in U1. injection U1 as ->. rewrite U3 in Hr.
  destruct (option_eq_dec_bhash (bhash polka) (Some (b_hash lb0))) as [e|n]; [exact e|].
  assert (Fu : (Z.to_nat (r - cs_lround s) <= S (Z.to_nat (r - cs_lround s)))%nat) by lia.
  rewrite (later_polka_other_complete (cs_votes s) lb0 (cs_lround s) _ r r' polka Hr Fu Hm n) in Lp. discriminate.
Qed.

Theorem prevote_applies_unlock_rule h r s s' o :
  cs_halted s = false -> cs_height s = h -> cs_round s = r -> step_rank (cs_step s) < 4 ->
  enter_prevote E h r s = (s', o) ->
  cs_step s' = SPrevote /\ settled_at r s'.
Proof.
  intros Hh H1 H2 H3 Eq. rewrite enter_prevote_eq in Eq by assumption. injection Eq as <- <-.
  split; [autorewrite with cs; reflexivity|].
  pose proof (unlock_known_settled r s) as S. unfold settled_at in *. autorewrite with cs in *. exact S.
Qed.

End Progress.
