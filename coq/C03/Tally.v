(* C03 — what a vote set (types/vote_set.go, model C02/Model.v) does with the votes of validators
   that have not voted in it yet, all for one block id B: every vote is added, B's tally grows
   by the voter's power, and the recorded +2/3 majority is B as soon as the tally reaches the
   quorum.  Used for the prevotes and the precommits of the correct validators in a
   synchronous round (C03/SyncModel.v). *)
From Coq Require Import List ZArith NArith Bool Lia.
From TM Require Import C02.Model C02.ProofsVoteSet.
Import ListNotations.
Open Scope Z_scope.

Definition tally (B : blockid) (vs : voteset) : Z :=
  match lookup_bv B (vs_byblock vs) with Some bv => bv_sum bv | None => 0 end.

(* the validators in [rem] have no vote in the set (neither in the primary slots nor among B's
   votes), no majority other than B is recorded, and none is recorded only while B's tally is
   below the quorum *)
Definition open_for (B : blockid) (rem : list nat) (vs : voteset) : Prop :=
  length (vs_votes vs) = length (vs_vals vs) /\
  (forall j, In j rem -> nth j (vs_votes vs) None = None) /\
  (forall bv, lookup_bv B (vs_byblock vs) = Some bv ->
     length (bv_votes bv) = length (vs_vals vs) /\ forall j, In j rem -> nth j (bv_votes bv) None = None) /\
  (vs_maj23 vs = None \/ vs_maj23 vs = Some B) /\
  (vs_maj23 vs = None -> tally B vs < quorum (vs_vals vs)).

(* a verifiable vote for B by validator i (of the given power) for this set's height/round/type *)
Definition good_vote (vs : voteset) (B : blockid) (i : nat) (power : Z) (v : vote) : Prop :=
  v_idx v = Z.of_nat i /\ v_bid v = B /\ v_ok v = true /\
  v_height v = vs_height vs /\ v_round v = vs_round vs /\ v_type v = vs_type vs /\
  v_addr v <> 0%N /\ nth_error (vs_vals vs) i = Some (v_addr v, power).

Lemma open_for_weaken B i rem vs : open_for B (i :: rem) vs -> open_for B rem vs.
Proof.
  intros (A & B1 & C & D & F). split; [exact A|]. split; [intros j Hj; apply B1; right; exact Hj|].
  split; [|split; assumption].
  intros bv L. destruct (C bv L) as [C1 C2]. split; [exact C1 | intros j Hj; apply C2; right; exact Hj].
Qed.

Lemma open_for_majority B rem vs :
  open_for B rem vs -> quorum (vs_vals vs) <= tally B vs -> vs_maj23 vs = Some B.
Proof. intros (_ & _ & _ & [D|D] & F) Q; [specialize (F D); lia | exact D]. Qed.

Lemma new_voteset_open B rem h r ty vals :
  0 <= total_power vals -> open_for B rem (new_voteset h r ty vals).
Proof.
  intro Ht. unfold open_for, tally. cbn. split; [apply repeat_length|].
  split; [intros j _; apply nth_repeat_none|]. split; [intros bv L; discriminate|].
  split; [left; reflexivity|]. intros _. unfold quorum.
  assert (0 <= total_power vals * 2 / 3) by (apply Z.div_pos; lia). lia.
Qed.

Lemma nth_copy_over_none : forall (p b : list (option vote)) j,
  nth j b None = None -> nth j (copy_over p b) None = nth j p None.
Proof.
  induction p as [|x p IH]; intros b j H; [reflexivity|].
  destruct b as [|y b]; [reflexivity|]. cbn [copy_over].
  destruct j as [|j]; cbn [nth] in *.
  - subst y. reflexivity.
  - apply IH. exact H.
Qed.

Lemma copy_over_length : forall (p b : list (option vote)), length (copy_over p b) = length p.
Proof.
  induction p as [|x p IH]; intros b; [reflexivity|]. destruct b as [|y b]; [reflexivity|].
  cbn [copy_over length]. rewrite IH. reflexivity.
Qed.

Lemma vs_add_open B i rem vs power v :
  open_for B (i :: rem) vs -> ~ In i rem -> good_vote vs B i power v ->
  exists vs', vs_add vs v = (vs', true, E_none) /\ open_for B rem vs' /\
    tally B vs' = tally B vs + power /\ same_frame vs vs' /\
    (forall m, vs_maj23 vs = Some m -> vs_maj23 vs' = Some m).
Proof.
  intros (OL & OS & OB & OM & OT) Hni (G1 & G2 & G3 & G4 & G5 & G6 & G7 & G8).
  assert (Hi : (i < length (vs_vals vs))%nat) by (apply nth_error_Some; rewrite G8; discriminate).
  unfold vs_add. rewrite G1.
  replace (Z.of_nat i <? 0) with false by (symmetry; apply Z.ltb_ge; lia).
  replace (v_addr v =? 0)%N with false by (symmetry; apply N.eqb_neq; exact G7).
  rewrite G4, G5, G6, !Z.eqb_refl, N.eqb_refl. cbn [andb negb].
  rewrite Nat2Z.id, G8, N.eqb_refl. cbn [negb].
  assert (S0 : get_slot (vs_votes vs) (Z.of_nat i) = None).
  { unfold get_slot. rewrite Nat2Z.id. apply OS. left. reflexivity. }
  assert (GV : get_vote vs (Z.of_nat i) (v_bid v) = None).
  { unfold get_vote. rewrite S0, G2. destruct (lookup_bv B (vs_byblock vs)) as [bv|] eqn:L; [|reflexivity].
    unfold get_slot. rewrite Nat2Z.id. apply (OB bv eq_refl). left. reflexivity. }
  rewrite GV, G3. cbn [negb].
  unfold add_verified. rewrite G1, S0, G2, Nat2Z.id. cbn [andb].
  (* both cases end in commit_entry with B's entry extended by v *)
  set (votes1 := set_nth i (Some v) (vs_votes vs)).
  assert (Fin : forall old slots pm,
            old = tally B vs -> length slots = length (vs_vals vs) ->
            (forall j, In j (i :: rem) -> nth j slots None = None) ->
            let bv' := bv_add {| bv_peermaj := pm; bv_votes := slots; bv_sum := old |} v power in
            let vs' := commit_entry vs votes1 (vs_sum vs + power) B old bv' in
            open_for B rem vs' /\ tally B vs' = tally B vs + power /\ same_frame vs vs' /\
            (forall m, vs_maj23 vs = Some m -> vs_maj23 vs' = Some m)).
  { intros old slots pm Hold Hlen Hsl bv' vs'.
    assert (Ebv : bv' = {| bv_peermaj := pm; bv_votes := set_nth i (Some v) slots; bv_sum := old + power |}).
    { subst bv'. unfold bv_add, get_slot. cbn [bv_votes bv_peermaj bv_sum]. rewrite G1, Nat2Z.id.
      rewrite (Hsl i (or_introl eq_refl)). reflexivity. }
    assert (T' : tally B vs' = old + power).
    { unfold tally. subst vs'. cbn [vs_byblock commit_entry]. rewrite lookup_update_same, Ebv. reflexivity. }
    split; [|split; [rewrite T', Hold; reflexivity | split; [repeat split|]]].
    2:{ intros m Hm. subst vs'. cbn [vs_maj23 commit_entry]. rewrite Hm.
        destruct ((old <? quorum (vs_vals vs)) && (quorum (vs_vals vs) <=? bv_sum bv')); reflexivity. }
    assert (Rem : forall j, In j rem -> nth j votes1 None = None /\ nth j (set_nth i (Some v) slots) None = None).
    { intros j Hj. assert (i <> j) by (intro; subst j; contradiction).
      subst votes1. rewrite !nth_set_nth_other by assumption. split; [apply OS | apply Hsl]; right; exact Hj. }
    split; [|split; [|split; [|split]]].
    - subst vs'. cbn [vs_votes vs_vals commit_entry].
      assert (length votes1 = length (vs_vals vs)) by (subst votes1; rewrite set_nth_length; exact OL).
      destruct ((old <? quorum (vs_vals vs)) && (quorum (vs_vals vs) <=? bv_sum bv')); [|assumption].
      destruct (vs_maj23 vs); [assumption|]. rewrite copy_over_length. assumption.
    - intros j Hj. destruct (Rem j Hj) as [R1 R2]. subst vs'. cbn [vs_votes commit_entry].
      destruct ((old <? quorum (vs_vals vs)) && (quorum (vs_vals vs) <=? bv_sum bv')); [|exact R1].
      destruct (vs_maj23 vs); [exact R1|]. rewrite nth_copy_over_none; [exact R1|]. rewrite Ebv. exact R2.
    - intros bv L. subst vs'. cbn [vs_byblock vs_vals commit_entry] in L |- *. rewrite lookup_update_same in L.
      injection L as <-. rewrite Ebv. cbn [bv_votes]. split; [rewrite set_nth_length; exact Hlen|].
      intros j Hj. apply (Rem j Hj).
    - subst vs'. cbn [vs_maj23 commit_entry].
      destruct ((old <? quorum (vs_vals vs)) && (quorum (vs_vals vs) <=? bv_sum bv')).
      + destruct OM as [-> | ->]; right; reflexivity.
      + exact OM.
    - intro Hn. rewrite T'. change (vs_vals vs') with (vs_vals vs).
      subst vs'. cbn [vs_maj23 commit_entry] in Hn.
      destruct ((old <? quorum (vs_vals vs)) && (quorum (vs_vals vs) <=? bv_sum bv')) eqn:Cr.
      + destruct (vs_maj23 vs); discriminate.
      + specialize (OT Hn). rewrite Ebv in Cr. cbn [bv_sum] in Cr.
        apply andb_false_iff in Cr as [Cr|Cr]; [apply Z.ltb_ge in Cr | apply Z.leb_gt in Cr]; lia. }
  destruct (lookup_bv B (vs_byblock vs)) as [bv|] eqn:L.
  - destruct (OB bv eq_refl) as [B1 B2].
    eexists. split; [reflexivity|].
    destruct bv as [pm slots old]. cbn [bv_sum].
    apply (Fin old slots pm); [unfold tally; rewrite L; reflexivity | exact B1 | exact B2].
  - eexists. split; [reflexivity|].
    apply (Fin 0 (repeat None (length (vs_vals vs))) false);
      [unfold tally; rewrite L; reflexivity | apply repeat_length | intros j _; apply nth_repeat_none].
Qed.
