(* C03 — the repair proposed for finding F70 (fixes/F70-prevote-unlock-on-known-later-polka.diff),
   transcribed for the model: defaultDoPrevote first applies the unlock rule with the polkas the
   node HOLDS for rounds in (LockedRound, round]:

       for r := round; r > cs.LockedRound; r-- {
           blockID, ok := cs.Votes.Prevotes(r).TwoThirdsMajority()
           if ok && !cs.LockedBlock.HashesTo(blockID.Hash) { unlock; break }
       }

   This file only gives the transcription and evaluates it on the witnesses of Unsettled.v; the
   model of record (C02/Model.v) is unchanged until the fix is applied to the code. *)
From Coq Require Import List ZArith NArith Bool Lia.
From TM Require Import C02.Model C02.Setters C03.Round C03.SyncNet C03.Unsettled.
From TM Require C03.Sync.
Import ListNotations.
Open Scope Z_scope.

(* is there, among the rounds r, r-1, ..., lr+1, one whose recorded +2/3 prevote majority is for
   something else than the locked block (nil included)? *)
Fixpoint later_polka_other (hv : hvs) (lb : block) (lr r : Z) (fuel : nat) : bool :=
  match fuel with
  | O => false
  | S f =>
    if r <=? lr then false else
    match o_maj23 (prevotes hv r) with
    | Some polka =>
      let h := match polka with Some (h, _) => h | None => 0%N end in
      let nonnil := match polka with Some _ => true | None => false end in
      if negb (nonnil && hashes_to (Some lb) h) then true else later_polka_other hv lb lr (r - 1) f
    | None => later_polka_other hv lb lr (r - 1) f
    end
  end.

Definition unlock_known (round : Z) (s : cstate) : cstate :=
  match cs_lblock s with
  | Some lb =>
    if later_polka_other (cs_votes s) lb (cs_lround s) round (S (Z.to_nat (round - cs_lround s)))
    then set_locked (-1) None None s else s
  | None => s
  end.

(* defaultDoPrevote with the repair *)
Definition do_prevote_fixed (E : env) (round : Z) : M :=
  fun s => do_prevote E (unlock_known round s).

(* the refutation's machine (locked on 5 in round 0, holding the polka for 7 of round 1, in
   round 2) is unlocked by the repaired step and then prevotes the proposal *)
Example fixed_unlocks_witness :
  cs_lblock (unlock_known 2 w_state) = None /\
  Sync.n_lock (abs 10 (unlock_known 2 w_state)) = Sync.n_lock (Sync.unlock w_pol (abs 10 w_state)) /\
  snd (do_prevote_fixed w_env 2 (set_prop (Some w_p) (Some w_b) (Some (one_part (1%N, 70%N))) w_state)) =
    [OSignVote PREVOTE 1 2 (Some (7%N, (1%N, 70%N)))].
Proof. vm_compute. repeat split. Qed.

(* the other two witnesses keep their locks: the polkas after the lock round are for the locked block *)
Example fixed_keeps_consistent_locks :
  let s2 := fst (run w_env (init_state w_env 1 None) w_prefix2) in
  let s3 := fst (run w_env (init_state w_env 1 None) w_prefix3) in
  cs_lblock (unlock_known (cs_round s2) s2) = cs_lblock s2 /\
  cs_lblock (unlock_known (cs_round s3) s3) = cs_lblock s3.
Proof. vm_compute. split; reflexivity. Qed.
