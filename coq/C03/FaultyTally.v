(* C03 — a vote set of the synchronous round under ARBITRARY further votes: whatever else is
   handed to VoteSet.AddVote (votes of the faulty validators for any block id, equivocations,
   invalid or misaddressed votes, duplicates), as long as no vote verifies under a correct
   validator's key except that validator's own vote for B:
     - the slots of the correct validators that have not voted yet stay empty,
     - no majority other than B is ever recorded (the faulty power alone is below the quorum),
     - B's tally never decreases.
   This extends C03/Tally.v (which adds the correct votes) to interleaved faulty votes. *)
From Coq Require Import List ZArith NArith Bool Lia.
From TM Require Import C02.Model C02.ProofsVoteSet C03.Tally.
Import ListNotations.
Open Scope Z_scope.

(* ---------------------------------------------------------------- power behind occupied slots *)

Lemma skipn_nth_error {A} (l : list A) i x : nth_error l i = Some x -> skipn i l = x :: skipn (S i) l.
Proof.
  revert i. induction l as [|y l IH]; intros [|i] H; cbn in *; try discriminate.
  - injection H as ->. reflexivity.
  - apply IH. exact H.
Qed.

Lemma skipn_none {A} (l : list A) i : nth_error l i = None -> skipn i l = [].
Proof. intro H. apply skipn_all2. apply nth_error_None. exact H. Qed.

Lemma total_power_nonneg vals : powers_nonneg vals -> 0 <= total_power vals.
Proof.
  induction vals as [|[a p] vals IH]; intro H; [cbn; lia|]. apply Forall_cons_iff in H as [H1 H2].
  cbn [total_power fold_right snd]. fold (total_power vals). cbn in H1. specialize (IH H2). lia.
Qed.

Lemma powers_nonneg_skipn vals i : powers_nonneg vals -> powers_nonneg (skipn i vals).
Proof.
  unfold powers_nonneg. rewrite !Forall_forall. intros H x Hx. apply H.
  rewrite <- (firstn_skipn i vals). apply in_or_app. right. exact Hx.
Qed.

Lemma slots_power_le vals : powers_nonneg vals -> forall slots i0,
  slots_power vals slots i0 <= total_power (skipn i0 vals).
Proof.
  intros Hnn. induction slots as [|o r IH]; intro i0.
  - cbn. apply total_power_nonneg, powers_nonneg_skipn, Hnn.
  - cbn [slots_power]. specialize (IH (S i0)).
    destruct (nth_error vals i0) as [[a p]|] eqn:En.
    + rewrite (skipn_nth_error _ _ _ En). cbn [total_power fold_right snd]. fold (total_power (skipn (S i0) vals)).
      assert (0 <= p) by (pose proof (power_at_nonneg vals i0 Hnn) as Q; unfold power_at in Q; rewrite En in Q; exact Q).
      unfold power_at. rewrite En. destruct o; lia.
    + rewrite (skipn_none _ _ En). cbn.
      assert (nth_error vals (S i0) = None) by (apply nth_error_None; apply nth_error_None in En; lia).
      rewrite (skipn_none _ _ H) in IH. cbn in IH. unfold power_at. rewrite En. destruct o; lia.
Qed.

Definition pw_of (vals : valset) (l : list nat) : Z := fold_right (fun j acc => power_at vals j + acc) 0 l.

Definition dummy_vote : vote :=
  {| v_type := 0%N; v_height := 0; v_round := 0; v_bid := None; v_idx := 0; v_addr := 0%N; v_sig := 0%N; v_ok := false |}.

(* the validators of [cor] have empty slots: the occupied slots carry at most the rest of the power *)
Lemma slots_power_cap vals : powers_nonneg vals -> forall cor slots,
  NoDup cor -> (forall j, In j cor -> (j < length slots)%nat /\ nth j slots None = None) ->
  slots_power vals slots 0 + pw_of vals cor <= total_power vals.
Proof.
  intros Hnn. induction cor as [|j cor IH]; intros slots Hnd Hc.
  - cbn [pw_of fold_right]. pose proof (slots_power_le vals Hnn slots 0%nat) as H. cbn [skipn] in H. lia.
  - inversion Hnd as [|x l Hni Hnd']; subst x l.
    destruct (Hc j (or_introl eq_refl)) as [Hlt Hn].
    specialize (IH (set_nth j (Some dummy_vote) slots) Hnd').
    rewrite slots_power_set in IH by assumption. cbn [Nat.add] in IH.
    cbn [pw_of fold_right]. fold (pw_of vals cor).
    assert (forall k, In k cor -> (k < length (set_nth j (Some dummy_vote) slots))%nat /\ nth k (set_nth j (Some dummy_vote) slots) None = None).
    { intros k Hk. destruct (Hc k (or_intror Hk)) as [A B]. rewrite set_nth_length. split; [exact A|].
      rewrite nth_set_nth_other by (intro; subst k; contradiction). exact B. }
    specialize (IH H). lia.
Qed.

(* ---------------------------------------------------------------- the invariant of the round's vote set *)

Definition others_closed (B : blockid) (cor : list nat) (vs : voteset) : Prop :=
  forall K bv, lookup_bv K (vs_byblock vs) = Some bv -> K <> B ->
    forall j, In j cor -> nth j (bv_votes bv) None = None.

Definition round_inv (B : blockid) (cor rem : list nat) (vs : voteset) : Prop :=
  VSInv vs /\ powers_nonneg (vs_vals vs) /\ open_for B rem vs /\ others_closed B cor vs.

Lemma entry_cap B cor vs K bv :
  VSInv vs -> powers_nonneg (vs_vals vs) -> others_closed B cor vs ->
  NoDup cor -> (forall j, In j cor -> (j < length (vs_vals vs))%nat) ->
  lookup_bv K (vs_byblock vs) = Some bv -> K <> B ->
  bv_sum bv + pw_of (vs_vals vs) cor <= total_power (vs_vals vs).
Proof.
  intros [IB _] Hnn Oc Hnd Hb L Hk. destruct (IB K bv L) as (A & S & _). rewrite S.
  apply slots_power_cap; [exact Hnn | exact Hnd|]. intros j Hj. split; [rewrite A; apply Hb; exact Hj | eapply Oc; eassumption].
Qed.

Lemma new_voteset_round_inv B cor rem h r ty vals :
  powers_nonneg vals -> round_inv B cor rem (new_voteset h r ty vals).
Proof.
  intro Hnn. split; [apply new_voteset_inv|]. split; [exact Hnn|].
  split; [apply new_voteset_open; apply total_power_nonneg; exact Hnn|].
  intros K bv L. cbn in L. discriminate.
Qed.

Lemma open_for_sub B rem rem' vs : (forall j, In j rem' -> In j rem) -> open_for B rem vs -> open_for B rem' vs.
Proof.
  intros Hi (A & B1 & C & D & F). split; [exact A|]. split; [intros j Hj; apply B1, Hi, Hj|].
  split; [|split; assumption].
  intros bv L. destruct (C bv L) as [C1 C2]. split; [exact C1 | intros j Hj; apply C2, Hi, Hj].
Qed.

(* ---------------------------------------------------------------- any vote *)

Section Any.
Variable B : blockid.
Variable cor : list nat.
Hypothesis cor_nodup : NoDup cor.

(* what AddVote's effect on the recorded majority can be *)
Lemma commit_entry_maj s votes1 sum1 key old bv' :
  let s' := commit_entry s votes1 sum1 key old bv' in
  vs_maj23 s' = vs_maj23 s \/
  (vs_maj23 s = None /\ vs_maj23 s' = Some key /\ quorum (vs_vals s) <= bv_sum bv').
Proof.
  cbn [commit_entry vs_maj23].
  destruct ((old <? quorum (vs_vals s)) && (quorum (vs_vals s) <=? bv_sum bv')) eqn:Cr; [|left; reflexivity].
  destruct (vs_maj23 s); [left; reflexivity|]. right. apply andb_true_iff in Cr as [_ Cr]. apply Z.leb_le in Cr. auto.
Qed.

Lemma vs_add_any rem vs v :
  round_inv B cor rem vs -> (forall j, In j rem -> In j cor) ->
  (forall j, In j cor -> (j < length (vs_vals vs))%nat) ->
  total_power (vs_vals vs) - pw_of (vs_vals vs) cor < quorum (vs_vals vs) ->
  (* unforgeable: a vote that verifies under a correct validator's key is that validator's vote for B *)
  (v_ok v = true -> 0 <= v_idx v -> In (Z.to_nat (v_idx v)) cor -> v_bid v = B) ->
  let i := Z.to_nat (v_idx v) in
  let '(vs', added, e) := vs_add vs v in
  round_inv B cor (remove Nat.eq_dec i rem) vs' /\ tally B vs <= tally B vs' /\ same_frame vs vs' /\
  (forall m, vs_maj23 vs = Some m -> vs_maj23 vs' = Some m) /\
  (added = false -> vs_maj23 vs' = vs_maj23 vs).
Proof.
  intros (I & Hnn & Op & Oc) Hsub Hb Hcap Unf i.
  pose proof (vs_add_inv vs v I Hnn) as [I' F'].
  assert (Weak : open_for B (remove Nat.eq_dec i rem) vs).
  { eapply open_for_sub; [|exact Op]. intros j Hj. apply in_remove in Hj. tauto. }
  assert (Same : round_inv B cor (remove Nat.eq_dec i rem) vs /\ tally B vs <= tally B vs /\ same_frame vs vs /\
                 (forall m, vs_maj23 vs = Some m -> vs_maj23 vs = Some m) /\ (false = false -> vs_maj23 vs = vs_maj23 vs)).
  { split; [split; [exact I | split; [exact Hnn | split; [exact Weak | exact Oc]]]|]. split; [lia|]. split; [repeat split|]. auto. }
  unfold vs_add in *.
  destruct (v_idx v <? 0) eqn:Ei; [exact Same|].
  destruct ((v_addr v =? 0)%N); [exact Same|].
  destruct (negb ((v_height v =? vs_height vs) && (v_round v =? vs_round vs) && (v_type v =? vs_type vs)%N)); [exact Same|].
  destruct (nth_error (vs_vals vs) (Z.to_nat (v_idx v))) as [[addr power]|] eqn:Hnth; [|exact Same].
  destruct (negb (v_addr v =? addr)%N); [exact Same|].
  destruct (get_vote vs (v_idx v) (v_bid v)) as [ev|]; [destruct ((v_sig ev =? v_sig v)%N); exact Same|].
  destruct (v_ok v) eqn:Eok; [|exact Same]. cbn [negb] in *.
  apply Z.ltb_ge in Ei. specialize (Unf eq_refl Ei). fold i in Unf, Hnth.
  assert (Hp : 0 <= power).
  { pose proof (power_at_nonneg (vs_vals vs) i Hnn) as Q. unfold power_at in Q. rewrite Hnth in Q. exact Q. }
  assert (Hi : (i < length (vs_vals vs))%nat) by (apply nth_error_Some; rewrite Hnth; discriminate).
  (* slot i is the only one touched *)
  destruct Op as (OL & OS & OB & OM & OT).
  unfold add_verified in *. fold i in I', F' |- *.
  set (votes1 := match get_slot (vs_votes vs) (v_idx v) with
                 | Some _ => match vs_maj23 vs with
                             | Some m => if blockid_eqb m (v_bid v) then set_nth i (Some v) (vs_votes vs) else vs_votes vs
                             | None => vs_votes vs
                             end
                 | None => set_nth i (Some v) (vs_votes vs)
                 end) in *.
  set (sum1 := match get_slot (vs_votes vs) (v_idx v) with Some _ => vs_sum vs | None => vs_sum vs + power end) in *.
  assert (V1len : length votes1 = length (vs_vals vs)).
  { subst votes1. destruct (get_slot (vs_votes vs) (v_idx v)); [destruct (vs_maj23 vs) as [m|]; [destruct (blockid_eqb m (v_bid v))|]|];
      rewrite ?set_nth_length; exact OL. }
  assert (V1rem : forall j, In j (remove Nat.eq_dec i rem) -> nth j votes1 None = None).
  { intros j Hj. apply in_remove in Hj as [Hj Hne].
    subst votes1. destruct (get_slot (vs_votes vs) (v_idx v)); [destruct (vs_maj23 vs) as [m|]; [destruct (blockid_eqb m (v_bid v))|]|];
      rewrite ?nth_set_nth_other by (intro; apply Hne; congruence); apply OS; exact Hj. }
  (* the branch that only touches the primary slots *)
  assert (Quiet : forall s1,
            s1 = {| vs_height := vs_height vs; vs_round := vs_round vs; vs_type := vs_type vs; vs_vals := vs_vals vs;
                    vs_votes := votes1; vs_sum := sum1; vs_maj23 := vs_maj23 vs;
                    vs_byblock := vs_byblock vs; vs_peermaj := vs_peermaj vs |} ->
            VSInv s1 ->
            round_inv B cor (remove Nat.eq_dec i rem) s1 /\ tally B vs <= tally B s1 /\ same_frame vs s1 /\
            (forall m, vs_maj23 vs = Some m -> vs_maj23 s1 = Some m) /\ (false = false -> vs_maj23 s1 = vs_maj23 vs)).
  { intros s1 -> I1. split; [|split; [unfold tally; cbn; lia | split; [repeat split | split; auto]]].
    split; [exact I1|]. split; [exact Hnn|]. split; [|exact Oc].
    split; [exact V1len|]. split; [exact V1rem|]. split; [|split; [exact OM | exact OT]].
    intros bv L. destruct (OB bv L) as [C1 C2]. split; [exact C1|]. intros j Hj. apply in_remove in Hj as [Hj _]. apply C2. exact Hj. }
  (* the branch that extends the entry of the vote's key *)
  assert (Ext : forall old slots pm,
            (match lookup_bv (v_bid v) (vs_byblock vs) with Some bv => bv = {| bv_peermaj := pm; bv_votes := slots; bv_sum := old |}
                                                      | None => slots = repeat None (length (vs_vals vs)) /\ old = 0 end) ->
            let bv' := bv_add {| bv_peermaj := pm; bv_votes := slots; bv_sum := old |} v power in
            let vs' := commit_entry vs votes1 sum1 (v_bid v) old bv' in
            VSInv vs' ->
            round_inv B cor (remove Nat.eq_dec i rem) vs' /\ tally B vs <= tally B vs' /\ same_frame vs vs' /\
            (forall m, vs_maj23 vs = Some m -> vs_maj23 vs' = Some m)).
  { intros old slots pm Hlk bv' vs' Iv'.
    (* the old entry's slots: length, and closed where required *)
    assert (Hsl : length slots = length (vs_vals vs) /\
                  (v_bid v = B -> forall j, In j rem -> nth j slots None = None) /\
                  (v_bid v <> B -> forall j, In j cor -> nth j slots None = None) /\
                  (v_bid v = B -> old = tally B vs)).
    { destruct (lookup_bv (v_bid v) (vs_byblock vs)) as [bv|] eqn:L.
      - subst bv. destruct I as [IB _]. destruct (IB _ _ L) as (A & _ & _). cbn in A.
        split; [exact A|]. split; [intros Hk j Hj; rewrite Hk in L; apply (proj2 (OB _ L)); exact Hj|].
        split; [intros Hk j Hj; exact (Oc _ _ L Hk j Hj)|]. intro Hk. unfold tally. rewrite <- Hk, L. reflexivity.
      - destruct Hlk as [-> ->]. split; [apply repeat_length|]. split; [intros _ j _; apply nth_repeat_none|].
        split; [intros _ j _; apply nth_repeat_none|]. intro Hk. unfold tally. rewrite <- Hk, L. reflexivity. }
    destruct Hsl as (S1 & S2 & S3 & S4).
    assert (Ebv : bv_votes bv' = slots /\ bv_sum bv' = old \/
                  bv_votes bv' = set_nth i (Some v) slots /\ bv_sum bv' = old + power).
    { subst bv'. unfold bv_add, get_slot. cbn [bv_votes bv_sum bv_peermaj]. fold i.
      destruct (nth i slots None); [left | right]; auto. }
    assert (Bv'len : length (bv_votes bv') = length (vs_vals vs)).
    { destruct Ebv as [[-> _] | [-> _]]; rewrite ?set_nth_length; exact S1. }
    assert (Bv'slots : forall j, j <> i -> nth j (bv_votes bv') None = nth j slots None).
    { intros j Hj. destruct Ebv as [[-> _] | [-> _]]; [reflexivity | apply nth_set_nth_other; congruence]. }
    assert (Bv'sum : old <= bv_sum bv') by (destruct Ebv as [[_ ->] | [_ ->]]; lia).
    assert (Lk' : forall K, lookup_bv K (vs_byblock vs') =
                            if blockid_eqb K (v_bid v) then Some bv' else lookup_bv K (vs_byblock vs)).
    { intro K. subst vs'. cbn [vs_byblock commit_entry]. destruct (blockid_eqb K (v_bid v)) eqn:Ek.
      - apply blockid_eqb_eq in Ek. subst K. apply lookup_update_same.
      - apply blockid_eqb_neq in Ek. apply lookup_update_other. exact Ek. }
    assert (Oc' : others_closed B cor vs').
    { intros K bv L Hk j Hj. rewrite Lk' in L. destruct (blockid_eqb K (v_bid v)) eqn:Ek.
      - apply blockid_eqb_eq in Ek. subst K. injection L as <-.
        assert (j <> i) by (intro; subst j; apply Hk, Unf, Hj).
        rewrite Bv'slots by assumption. apply S3; assumption.
      - eapply Oc; eassumption. }
    assert (Ta : tally B vs <= tally B vs' /\ (v_bid v <> B -> tally B vs' = tally B vs) /\
                 (v_bid v = B -> tally B vs' = bv_sum bv')).
    { assert (TB : tally B vs' = if blockid_eqb B (v_bid v) then bv_sum bv' else tally B vs)
        by (unfold tally; rewrite Lk'; destruct (blockid_eqb B (v_bid v)); reflexivity).
      rewrite TB. destruct (blockid_eqb B (v_bid v)) eqn:Ek.
      - apply blockid_eqb_eq in Ek. split; [rewrite <- (S4 (eq_sym Ek)); exact Bv'sum|]. split; [congruence | reflexivity].
      - apply blockid_eqb_neq in Ek. split; [lia|]. split; [reflexivity | congruence]. }
    destruct Ta as (T1 & T2 & T3).
    pose proof (commit_entry_maj vs votes1 sum1 (v_bid v) old bv') as Mj. cbv zeta in Mj. fold vs' in Mj.
    (* no majority for another key: the faulty power is below the quorum *)
    assert (Mj' : vs_maj23 vs' = vs_maj23 vs \/ (vs_maj23 vs = None /\ vs_maj23 vs' = Some B /\ v_bid v = B /\ quorum (vs_vals vs) <= bv_sum bv')).
    { destruct Mj as [Mj|(M1 & M2 & M3)]; [left; exact Mj|]. right.
      destruct (blockid_eqb (v_bid v) B) eqn:Ek.
      - apply blockid_eqb_eq in Ek. rewrite Ek in M2. auto.
      - apply blockid_eqb_neq in Ek. exfalso.
        assert (L : lookup_bv (v_bid v) (vs_byblock vs') = Some bv') by (rewrite Lk', blockid_eqb_refl; reflexivity).
        pose proof (entry_cap B cor vs' (v_bid v) bv' Iv' Hnn Oc' cor_nodup Hb L Ek) as Cap.
        change (vs_vals vs') with (vs_vals vs) in Cap. lia. }
    split; [|split; [exact T1 | split; [repeat split|]]].
    2:{ intros m Hm. destruct Mj' as [-> | (M1 & _)]; congruence. }
    split; [exact Iv'|]. split; [exact Hnn|]. split; [|exact Oc'].
    (* open_for *)
    split; [|split; [|split; [|split]]].
    - subst vs'. cbn [vs_votes vs_vals commit_entry].
      destruct ((old <? quorum (vs_vals vs)) && (quorum (vs_vals vs) <=? bv_sum bv')); [|exact V1len].
      destruct (vs_maj23 vs); [exact V1len|]. rewrite copy_over_length. exact V1len.
    - intros j Hj. pose proof (V1rem j Hj) as R1. apply in_remove in Hj as [Hj Hne].
      subst vs'. cbn [vs_votes commit_entry].
      destruct ((old <? quorum (vs_vals vs)) && (quorum (vs_vals vs) <=? bv_sum bv')); [|exact R1].
      destruct (vs_maj23 vs); [exact R1|]. rewrite nth_copy_over_none; [exact R1|].
      rewrite Bv'slots by exact Hne.
      destruct (blockid_eqb (v_bid v) B) eqn:Ek.
      + apply blockid_eqb_eq in Ek. apply S2; assumption.
      + apply blockid_eqb_neq in Ek. apply S3; [exact Ek | apply Hsub; exact Hj].
    - intros bv L. change (vs_vals vs') with (vs_vals vs). rewrite Lk' in L. destruct (blockid_eqb B (v_bid v)) eqn:Ek.
      + apply blockid_eqb_eq in Ek. injection L as <-. split; [exact Bv'len|].
        intros j Hj. apply in_remove in Hj as [Hj Hne]. rewrite Bv'slots by exact Hne. apply S2; [congruence | exact Hj].
      + destruct (OB bv L) as [C1 C2]. split; [exact C1|]. intros j Hj. apply in_remove in Hj as [Hj _]. apply C2. exact Hj.
    - destruct Mj' as [-> | (_ & -> & _)]; [exact OM | right; reflexivity].
    - intro Hn. change (vs_vals vs') with (vs_vals vs).
      destruct Mj' as [Mj' | (_ & M2 & _)]; [|congruence]. rewrite Mj' in Hn. specialize (OT Hn).
      destruct (blockid_eqb (v_bid v) B) eqn:Ek.
      + apply blockid_eqb_eq in Ek. rewrite (T3 Ek).
        (* not crossed although the majority is still None *)
        subst vs'. cbn [vs_maj23 commit_entry] in Mj'. rewrite Hn in Mj'.
        destruct ((old <? quorum (vs_vals vs)) && (quorum (vs_vals vs) <=? bv_sum bv')) eqn:Cr; [discriminate|].
        rewrite (S4 Ek) in Cr. apply andb_false_iff in Cr as [Cr|Cr]; [apply Z.ltb_ge in Cr | apply Z.leb_gt in Cr]; lia.
      + apply blockid_eqb_neq in Ek. rewrite (T2 Ek). exact OT. }
  destruct (lookup_bv (v_bid v) (vs_byblock vs)) as [bv|] eqn:Track.
  - destruct ((match get_slot (vs_votes vs) (v_idx v) with Some _ => true | None => false end) && negb (bv_peermaj bv)).
    + cbn [fst] in I'. apply (Quiet _ eq_refl I').
    + cbn [fst] in I'. destruct bv as [pm slots old]. cbn [bv_sum] in *.
      destruct (Ext old slots pm eq_refl I') as (R1 & R2 & R3 & R4).
      split; [exact R1|]. split; [exact R2|]. split; [exact R3|]. split; [exact R4|]. intro; discriminate.
  - destruct (match get_slot (vs_votes vs) (v_idx v) with Some _ => true | None => false end).
    + cbn [fst] in I'. apply (Quiet _ eq_refl I').
    + cbn [fst] in I'.
      destruct (Ext 0 (repeat None (length (vs_vals vs))) false (conj eq_refl eq_refl) I') as (R1 & R2 & R3 & R4).
      split; [exact R1|]. split; [exact R2|]. split; [exact R3|]. split; [exact R4|]. intro; discriminate.
Qed.

End Any.

(* a vote that is not added leaves the open slots open *)
Lemma vs_add_not_added B rem vs v vs' e :
  open_for B rem vs -> vs_add vs v = (vs', false, e) -> open_for B rem vs'.
Proof.
  intros Op Ea. unfold vs_add in Ea.
  destruct (v_idx v <? 0); [injection Ea as <- _; exact Op|].
  destruct ((v_addr v =? 0)%N); [injection Ea as <- _; exact Op|].
  destruct (negb ((v_height v =? vs_height vs) && (v_round v =? vs_round vs) && (v_type v =? vs_type vs)%N)); [injection Ea as <- _; exact Op|].
  destruct (nth_error (vs_vals vs) (Z.to_nat (v_idx v))) as [[addr power]|]; [|injection Ea as <- _; exact Op].
  destruct (negb (v_addr v =? addr)%N); [injection Ea as <- _; exact Op|].
  destruct (get_vote vs (v_idx v) (v_bid v)) as [ev|]; [destruct ((v_sig ev =? v_sig v)%N); injection Ea as <- _; exact Op|].
  destruct (negb (v_ok v)); [injection Ea as <- _; exact Op|].
  unfold add_verified in Ea.
  destruct Op as (OL & OS & OB & OM & OT).
  assert (Q : forall s1,
            s1 = {| vs_height := vs_height vs; vs_round := vs_round vs; vs_type := vs_type vs; vs_vals := vs_vals vs;
                    vs_votes := match get_slot (vs_votes vs) (v_idx v) with
                                | Some _ => match vs_maj23 vs with
                                            | Some m => if blockid_eqb m (v_bid v) then set_nth (Z.to_nat (v_idx v)) (Some v) (vs_votes vs) else vs_votes vs
                                            | None => vs_votes vs
                                            end
                                | None => set_nth (Z.to_nat (v_idx v)) (Some v) (vs_votes vs)
                                end;
                    vs_sum := match get_slot (vs_votes vs) (v_idx v) with Some _ => vs_sum vs | None => vs_sum vs + power end;
                    vs_maj23 := vs_maj23 vs; vs_byblock := vs_byblock vs; vs_peermaj := vs_peermaj vs |} ->
            get_slot (vs_votes vs) (v_idx v) <> None -> open_for B rem s1).
  { intros s1 -> Hs. unfold get_slot in *.
    destruct (nth (Z.to_nat (v_idx v)) (vs_votes vs) None) as [w|] eqn:Ew; [|congruence].
    split; [|split; [|split; [exact OB | split; [exact OM | exact OT]]]]; cbn [vs_votes vs_vals].
    - destruct (vs_maj23 vs) as [m|]; [destruct (blockid_eqb m (v_bid v))|]; rewrite ?set_nth_length; exact OL.
    - intros j Hj. assert (j <> Z.to_nat (v_idx v)) by (intro; subst j; rewrite (OS _ Hj) in Ew; discriminate).
      destruct (vs_maj23 vs) as [m|]; [destruct (blockid_eqb m (v_bid v))|];
        rewrite ?nth_set_nth_other by congruence; apply OS; exact Hj. }
  destruct (lookup_bv (v_bid v) (vs_byblock vs)) as [bv|].
  - destruct (get_slot (vs_votes vs) (v_idx v)) eqn:Es; cbn [andb] in Ea.
    + destruct (negb (bv_peermaj bv)); [|discriminate]. injection Ea as <- _. apply (Q _ eq_refl). discriminate.
    + discriminate.
  - destruct (get_slot (vs_votes vs) (v_idx v)) eqn:Es.
    + injection Ea as <- _. apply (Q _ eq_refl). discriminate.
    + discriminate.
Qed.
