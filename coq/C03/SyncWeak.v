(* C03 — Sync.v's theorems under a WEAKER invariant, the one the code can have.

   Sync.Inv asks that a locked node's valid round is not below its lock round
   (inv_lock_valid).  The code does not guarantee that: enterPrecommit RE-locks the locked
   block on a polka of the current round (LockedRound := round) also when the node does not hold
   the round's proposal block, and then addVote / handleCompleteProposal do not move the valid
   block (they only do when ProposalBlock hashes to the polka) — C03/Unsettled.v has the run
   (lock_above_valid_reachable).  What remains true in that case is that the valid block IS the
   locked block.  The theorems of Sync.v only need: valid round >= lock round OR valid block =
   locked block. *)
From Coq Require Import List ZArith NArith Bool Lia.
From TM Require Import C03.Sync.
Import ListNotations.
Open Scope Z_scope.

Record Inv' (pol : list polka) (nodes : list node) : Prop := {
  inv'_lock : forall n lr lv, In n nodes -> n_lock n = Some (lr, lv) -> In (lr, Some lv) pol;
  inv'_valid : forall n vr vv, In n nodes -> n_valid n = Some (vr, vv) -> In (vr, Some vv) pol;
  inv'_lock_valid : forall n lr lv, In n nodes -> n_lock n = Some (lr, lv) ->
                     exists vr vv, n_valid n = Some (vr, vv) /\ (lr <= vr \/ vv = lv);
  inv'_one_per_round : forall r x y, In (r, x) pol -> In (r, y) pol -> x = y
}.

Lemma Inv_weaken pol nodes : Inv pol nodes -> Inv' pol nodes.
Proof.
  intros [A B C D]. constructor; auto.
  intros n lr lv Hn Hl. destruct (C n lr lv Hn Hl) as (vr & vv & E & H). exists vr, vv. auto.
Qed.

Theorem unlock_convergence' pol nodes n lr lv star :
  Inv' pol nodes -> is_latest pol star -> In n nodes ->
  n_lock (unlock pol n) = Some (lr, lv) ->
  snd star = Some lv /\ exists vr, n_valid (unlock pol n) = Some (vr, lv).
Proof.
  intros I [Hs Hmax] Hn Hl. unfold unlock in Hl |- *.
  destruct (n_lock n) as [[lr0 lv0]|] eqn:El; [|rewrite El in Hl; discriminate].
  destruct (existsb (releases lr0 lv0) pol) eqn:Ex; [cbn in Hl; discriminate|].
  rewrite El in Hl. injection Hl as <- <-.
  assert (NoRel : forall q, In q pol -> releases lr0 lv0 q = false).
  { intros q Hq. destruct (releases lr0 lv0 q) eqn:R; [|reflexivity].
    assert (existsb (releases lr0 lv0) pol = true) by (apply existsb_exists; exists q; auto). congruence. }
  pose proof (inv'_lock pol nodes I n lr0 lv0 Hn El) as Hown.
  assert (Hstar : snd star = Some lv0).
  { pose proof (NoRel star Hs) as R. unfold releases in R.
    destruct star as [rs xs]. cbn in *.
    apply andb_false_iff in R as [R|R].
    - apply Z.ltb_ge in R. pose proof (Hmax _ Hown) as M. cbn in M.
      assert (rs = lr0) by lia. subst rs.
      exact (inv'_one_per_round pol nodes I lr0 xs (Some lv0) Hs Hown).
    - apply negb_false_iff in R. destruct xs as [v|]; [|discriminate]. apply N.eqb_eq in R. subst v. reflexivity. }
  split; [exact Hstar|].
  destruct (inv'_lock_valid pol nodes I n lr0 lv0 Hn El) as (vr & vv & Ev & Hle).
  exists vr. rewrite Ev. f_equal. f_equal.
  destruct Hle as [Hle|Hle]; [|exact Hle].
  pose proof (inv'_valid pol nodes I n vr vv Hn Ev) as Hv.
  pose proof (NoRel _ Hv) as R. unfold releases in R. cbn in R.
  apply andb_false_iff in R as [R|R].
  - apply Z.ltb_ge in R. assert (vr = lr0) by lia. subst vr.
    pose proof (inv'_one_per_round pol nodes I lr0 (Some vv) (Some lv0) Hv Hown) as E. injection E as ->. reflexivity.
  - apply negb_false_iff in R. apply N.eqb_eq in R. exact R.
Qed.

Lemma total_power_unlock pol nodes : total_power (map (unlock pol) nodes) = total_power nodes.
Proof.
  induction nodes as [|n nodes IH]; [reflexivity|].
  cbn [map total_power fold_right]. fold (total_power (map (unlock pol) nodes)). fold (total_power nodes).
  rewrite IH. f_equal.
  unfold unlock. destruct (n_lock n) as [[lr lv]|]; [destruct (existsb _ _)|]; reflexivity.
Qed.

Theorem good_round_decides' pol nodes proposer fresh total faulty_power :
  Inv' pol nodes -> In proposer nodes ->
  total = total_power nodes + faulty_power -> 0 <= faulty_power -> 3 * faulty_power < total ->
  let nodes' := map (unlock pol) nodes in
  let prop := proposal_of fresh (unlock pol proposer) in
  ((forall n, In n nodes' -> n_lock n = None) \/
   (exists star, is_latest pol star /\ snd star = Some prop)) ->
  (forall n, In n nodes' -> prevote_of prop n = prop) /\
  3 * power_for prop (map (fun n => (n, prevote_of prop n)) nodes') > 2 * total.
Proof.
  intros I Hp Ht Hf Hthird nodes' prop Hprem.
  assert (Un : forall n, In n nodes' -> prevote_of prop n = prop).
  { intros n Hn. unfold prevote_of. destruct (n_lock n) as [[lr lv]|] eqn:El; [|reflexivity].
    destruct Hprem as [Hnone | (star & Hlat & Hval)].
    - rewrite (Hnone n Hn) in El. discriminate.
    - subst nodes'. apply in_map_iff in Hn as (n0 & <- & Hn0).
      destruct (unlock_convergence' pol nodes n0 lr lv star I Hlat Hn0 El) as [Hs _].
      rewrite Hval in Hs. injection Hs as ->. reflexivity. }
  split; [exact Un|].
  rewrite (unanimous_power prop nodes' prop Un).
  subst nodes'. rewrite total_power_unlock. lia.
Qed.

Theorem locked_node_is_good_proposer' pol nodes n lr lv fresh star :
  Inv' pol nodes -> is_latest pol star -> In n nodes ->
  n_lock (unlock pol n) = Some (lr, lv) ->
  snd star = Some (proposal_of fresh (unlock pol n)).
Proof.
  intros I Hlat Hn Hl.
  destruct (unlock_convergence' pol nodes n lr lv star I Hlat Hn Hl) as [Hs (vr & Ev)].
  unfold proposal_of. rewrite Ev. exact Hs.
Qed.

(* ---------------------------------------------------------------- what the prevote step really needs

   That every correct node prevotes the proposal in a good round only needs: locks backed by
   polkas, and one polka per round.  (The valid-block clauses only matter for what a proposer
   proposes, which enters as the premise "the proposal is the block of the latest polka".) *)
Record InvL (pol : list polka) (nodes : list node) : Prop := {
  invL_lock : forall n lr lv, In n nodes -> n_lock n = Some (lr, lv) -> In (lr, Some lv) pol;
  invL_one_per_round : forall r x y, In (r, x) pol -> In (r, y) pol -> x = y
}.

Lemma Inv'_InvL pol nodes : Inv' pol nodes -> InvL pol nodes.
Proof. intros [A _ _ D]. constructor; assumption. Qed.

Theorem still_locked_on_latest pol nodes n lr lv star :
  InvL pol nodes -> is_latest pol star -> In n nodes ->
  n_lock (unlock pol n) = Some (lr, lv) -> snd star = Some lv.
Proof.
  intros I [Hs Hmax] Hn Hl. unfold unlock in Hl.
  destruct (n_lock n) as [[lr0 lv0]|] eqn:El; [|rewrite El in Hl; discriminate].
  destruct (existsb (releases lr0 lv0) pol) eqn:Ex; [cbn in Hl; discriminate|].
  rewrite El in Hl. injection Hl as <- <-.
  assert (NoRel : forall q, In q pol -> releases lr0 lv0 q = false).
  { intros q Hq. destruct (releases lr0 lv0 q) eqn:R; [|reflexivity].
    assert (existsb (releases lr0 lv0) pol = true) by (apply existsb_exists; exists q; auto). congruence. }
  pose proof (invL_lock pol nodes I n lr0 lv0 Hn El) as Hown.
  pose proof (NoRel star Hs) as R. unfold releases in R.
  destruct star as [rs xs]. cbn in *.
  apply andb_false_iff in R as [R|R].
  - apply Z.ltb_ge in R. pose proof (Hmax _ Hown) as M. cbn in M.
    assert (rs = lr0) by lia. subst rs.
    exact (invL_one_per_round pol nodes I lr0 xs (Some lv0) Hs Hown).
  - apply negb_false_iff in R. destruct xs as [v|]; [|discriminate]. apply N.eqb_eq in R. subst v. reflexivity.
Qed.

Theorem good_round_prevotes pol nodes prop :
  InvL pol nodes ->
  ((forall n, In n (map (unlock pol) nodes) -> n_lock n = None) \/
   (exists star, is_latest pol star /\ snd star = Some prop)) ->
  forall n, In n (map (unlock pol) nodes) -> prevote_of prop n = prop.
Proof.
  intros I Hprem n Hn. unfold prevote_of. destruct (n_lock n) as [[lr lv]|] eqn:El; [|reflexivity].
  destruct Hprem as [Hnone | (star & Hlat & Hval)].
  - rewrite (Hnone n Hn) in El. discriminate.
  - apply in_map_iff in Hn as (n0 & <- & Hn0).
    pose proof (still_locked_on_latest pol nodes n0 lr lv star I Hlat Hn0 El) as Hs.
    rewrite Hval in Hs. injection Hs as ->. reflexivity.
Qed.
