(* C03 — the lock / valid-block invariant of the REPAIRED state machine (F70, F83), over ALL runs
   from the initial state (one machine, arbitrary inputs):
     (a) ValidRound <= Round and -1 <= LockedRound <= Round;
     (b) outside the Commit step: if the machine holds the current round's polka for the proposal
         block it holds, that block has been taken as valid block (ValidRound = Round);
     (c) locked on X  =>  there is a valid block, ValidRound >= LockedRound, and the valid block is X
         (same hash) OR ValidRound > LockedRound.
   (c) is clause inv_lock_valid of Sync.Inv (hence of SyncWeak.Inv').  The second alternative of (c)
   cannot be dropped: handleCompleteProposal takes the proposal block as valid block on the current
   round's polka without looking at the lock (C03/TermLV.v, station after 21 inputs: locked on X
   since round 0, valid block Y of round 2, step Propose) - a transient state: the valid block is
   backed by a polka of a round above the lock round for another block, so the unlock rule of the
   next prevote step (F70) releases the lock; before the repair of F83 the re-lock of
   enterPrecommit could turn it into a permanent one.
   Style of Backed.v / Pending.v: an invariant through every handler. *)
From Coq Require Import List ZArith NArith Bool Lia.
From TM Require Import C02.Model C02.Setters C02.ProofsVoteSet C02.ProofsHVS C02.ProofsOrder C03.Commit C03.Round C03.Backed.
Import ListNotations.
Open Scope Z_scope.

Ltac cs := autorewrite with cs in *.

(* ---------------------------------------------------------------- no recorded majority appears from nowhere *)

Definition maj_back (hv hv' : hvs) : Prop :=
  forall r x, o_maj23 (prevotes hv' r) = Some x -> o_maj23 (prevotes hv r) = Some x.

Lemma maj_back_refl hv : maj_back hv hv. Proof. intros r x H. exact H. Qed.
Lemma maj_back_trans a b c : maj_back a b -> maj_back b c -> maj_back a c.
Proof. intros H1 H2 r x H. apply H1, H2, H. Qed.

Lemma maj_back_add_round hv r0 : lookup_round r0 (hv_sets hv) = None -> maj_back hv (hv_add_round hv r0).
Proof.
  intros Hn r x H. rewrite prevotes_unfold in H |- *. cbn [hv_add_round hv_sets] in H.
  destruct (Z.eq_dec r r0) as [->|Hne].
  - rewrite lookup_update_round_same in H. cbn in H. discriminate.
  - rewrite lookup_update_round_other in H by exact Hne. exact H.
Qed.

Lemma maj_back_add_rounds n : forall hv from, maj_back hv (add_rounds hv from n).
Proof.
  induction n as [|n IH]; intros hv from; cbn [add_rounds]; [apply maj_back_refl|].
  destruct (lookup_round from (hv_sets hv)) eqn:L; [apply IH|].
  eapply maj_back_trans; [apply maj_back_add_round; exact L | apply IH].
Qed.

Lemma maj_back_set_round hv round : maj_back hv (hv_set_round hv round).
Proof.
  unfold hv_set_round. intros r x H.
  apply (maj_back_add_rounds (Z.to_nat (round - (hv_round hv - 1) + 1)) hv (hv_round hv - 1) r x).
  rewrite prevotes_unfold in H |- *. exact H.
Qed.

Lemma maj_back_put hv r0 ty s0 s1 :
  hv_get hv r0 ty = Some s0 ->
  ((ty =? PREVOTE)%N = true -> forall m, vs_maj23 s1 = Some m -> vs_maj23 s0 = Some m) ->
  maj_back hv (hv_put hv r0 ty s1).
Proof.
  intros Hg Hm r x H. rewrite prevotes_unfold in H |- *. unfold hv_get in Hg. unfold hv_put in H.
  destruct (lookup_round r0 (hv_sets hv)) as [[pv pc]|] eqn:L0; [|discriminate]. cbn [hv_sets] in H.
  destruct (Z.eq_dec r r0) as [->|Hne].
  - rewrite lookup_update_round_same in H. rewrite L0. cbn [o_maj23] in *.
    destruct ((ty =? PREVOTE)%N); [|exact H]. injection Hg as <-. apply (Hm eq_refl). exact H.
  - rewrite lookup_update_round_other in H by exact Hne. exact H.
Qed.

Lemma maj_back_peer hv r ty peer bb : maj_back hv (hv_set_peer_maj23 hv r ty peer bb).
Proof.
  unfold hv_set_peer_maj23. destruct (negb _); [apply maj_back_refl|].
  destruct (hv_get hv r ty) as [s|] eqn:G; [|apply maj_back_refl].
  eapply maj_back_put; [exact G|]. intros _ m Hm. rewrite vs_set_peer_maj23_maj in Hm. exact Hm.
Qed.

Lemma vs_add_not_added s v s' e : vs_add s v = (s', false, e) -> vs_maj23 s' = vs_maj23 s.
Proof.
  unfold vs_add. intro H.
  destruct (v_idx v <? 0); [now inversion H|]. destruct ((v_addr v =? 0)%N); [now inversion H|].
  destruct (negb _); [now inversion H|].
  destruct (nth_error (vs_vals s) (Z.to_nat (v_idx v))) as [[addr power]|]; [|now inversion H].
  destruct (negb (v_addr v =? addr)%N); [now inversion H|].
  destruct (get_vote s (v_idx v) (v_bid v)) as [e0|]; [destruct ((v_sig e0 =? v_sig v)%N); now inversion H|].
  destruct (negb (v_ok v)); [now inversion H|].
  destruct (add_verified s v power) as [[s2 added] confl] eqn:Ea.
  assert (E2 : s2 = s' /\ added = false) by (inversion H; auto). destruct E2 as [-> ->].
  unfold add_verified in Ea.
  destruct (lookup_bv (v_bid v) (vs_byblock s)) as [bv|].
  - destruct (_ && negb (bv_peermaj bv)); inversion Ea. reflexivity.
  - destruct (match get_slot (vs_votes s) (v_idx v) with Some _ => true | None => false end); inversion Ea. reflexivity.
Qed.

(* a prevote majority recorded after HeightVoteSet.AddVote was recorded before, unless the vote was
   added and is a prevote of that very round *)
Lemma hv_add_vote_maj hv v peer hv' added e :
  hv_add_vote hv v peer = (hv', added, e) ->
  forall r x, o_maj23 (prevotes hv' r) = Some x ->
    o_maj23 (prevotes hv r) = Some x \/ (added = true /\ r = v_round v /\ (v_type v =? PREVOTE)%N = true).
Proof.
  unfold hv_add_vote. intros Eq r x H.
  destruct (negb ((v_type v =? PREVOTE)%N || (v_type v =? PRECOMMIT)%N)); [inversion Eq; subst; left; exact H|].
  match type of Eq with context [let '(h1, ok) := ?X in _] => destruct X as [h1 ok] eqn:E1 end.
  assert (K1 : maj_back hv h1).
  { destruct (hv_get hv (v_round v) (v_type v)) eqn:Hg.
    - injection E1 as <- <-. apply maj_back_refl.
    - destruct (length (lookup_catchup peer (hv_catchup hv)) <? 2)%nat.
      + injection E1 as <- <-. intros r0 x0 H0. rewrite prevotes_unfold in H0 |- *. cbn [hv_sets] in H0.
        assert (Ln : lookup_round (v_round v) (hv_sets hv) = None).
        { unfold hv_get in Hg. destruct (lookup_round (v_round v) (hv_sets hv)) as [[pv pc]|]; [|reflexivity].
          destruct ((v_type v =? PREVOTE)%N); discriminate. }
        pose proof (maj_back_add_round hv (v_round v) Ln r0 x0) as K. rewrite !prevotes_unfold in K. apply K. exact H0.
      + injection E1 as <- <-. apply maj_back_refl. }
  destruct (negb ok); [inversion Eq; subst; left; exact H|].
  destruct (hv_get h1 (v_round v) (v_type v)) as [s|] eqn:G; [|inversion Eq; subst; left; apply K1; exact H].
  destruct (vs_add s v) as [[s' added'] e'] eqn:Ea. inversion Eq; subst hv' added' e'. clear Eq.
  destruct added.
  - destruct (Z.eq_dec r (v_round v)) as [->|Hne].
    + destruct ((v_type v =? PREVOTE)%N) eqn:Ty; [right; auto|].
      left. apply K1. revert H. apply (maj_back_put h1 (v_round v) (v_type v) s s' G). intro X. congruence.
    + left. apply K1. rewrite prevotes_unfold in H |- *. rewrite hv_put_lookup_other in H by exact Hne. exact H.
  - left. apply K1. revert H. apply (maj_back_put h1 (v_round v) (v_type v) s s' G).
    intros _ m Hm. rewrite (vs_add_not_added s v s' e Ea) in Hm. exact Hm.
Qed.

(* ---------------------------------------------------------------- the invariant *)

Definition LVI0 (s : cstate) : Prop :=
  0 <= cs_round s /\ cs_vround s <= cs_round s /\ -1 <= cs_lround s <= cs_round s /\
  (cs_vblock s = None -> cs_vround s = -1) /\
  (forall lb, cs_lblock s = Some lb ->
     cs_lround s <= cs_vround s /\ (hashes_to (cs_vblock s) (b_hash lb) = true \/ cs_lround s < cs_vround s)).

Definition J (s : cstate) : Prop :=
  cs_step s <> SCommit ->
  forall h ph, o_maj23 (prevotes (cs_votes s) (cs_round s)) = Some (Some (h, ph)) ->
    hashes_to (cs_pblock s) h = true -> cs_vround s = cs_round s /\ hashes_to (cs_vblock s) h = true.

Definition W (s : cstate) : Prop := Backed s /\ LVI0 s /\ J s.

(* frames: what LVI0 reads is unchanged (the lock may have been released) *)
Definition Fr0 (a b : cstate) : Prop :=
  cs_round b = cs_round a /\ cs_vround b = cs_vround a /\ cs_vblock b = cs_vblock a /\
  ((cs_lround b = cs_lround a /\ cs_lblock b = cs_lblock a) \/ (cs_lround b = -1 /\ cs_lblock b = None)).
(* ... and what J reads (the proposal block may have been dropped, the step may have moved but not out of Commit) *)
Definition FrJ (a b : cstate) : Prop :=
  cs_votes b = cs_votes a /\ (cs_pblock b = cs_pblock a \/ cs_pblock b = None) /\
  (cs_step a = SCommit -> cs_step b = SCommit).

Lemma lvi0_fr a b : Fr0 a b -> LVI0 a -> LVI0 b.
Proof.
  intros (F1 & F2 & F3 & F4) (A0 & A1 & A2 & A3 & A4). unfold LVI0. rewrite F1, F2, F3.
  destruct F4 as [[L1 L2]|[L1 L2]]; rewrite L1, L2.
  - split; [exact A0|]. split; [exact A1|]. split; [exact A2|]. split; [exact A3 | exact A4].
  - split; [exact A0|]. split; [exact A1|]. split; [lia|]. split; [exact A3|]. intros lb H; discriminate.
Qed.

Lemma j_fr a b : Fr0 a b -> FrJ a b -> J a -> J b.
Proof.
  intros (F1 & F2 & F3 & _) (G1 & G2 & G3) Ja Hst h ph Hm Hp. rewrite F1, F2, F3.
  rewrite G1, F1 in Hm. apply (Ja (fun X => Hst (G3 X)) h ph Hm).
  destruct G2 as [E|E]; rewrite E in Hp; [exact Hp | discriminate].
Qed.

Lemma hashes_to_eq (b : option block) h : hashes_to b h = true -> exists x, b = Some x /\ b_hash x = h.
Proof. destruct b as [x|]; cbn; [|discriminate]. intro H. apply N.eqb_eq in H. eauto. Qed.

Lemma seq_w (f g : M) s s' o (Q : cstate -> Prop) :
  seq f g s = (s', o) ->
  (forall s1 o1, f s = (s1, o1) -> W s1 /\ (cs_halted s1 = false -> Q s1)) ->
  (forall s1 s2 o2, cs_halted s1 = false -> W s1 -> Q s1 -> g s1 = (s2, o2) -> W s2) ->
  W s'.
Proof.
  intros Eq Hf Hg. unfold seq in Eq. destruct (f s) as [s1 o1] eqn:Ef.
  destruct (Hf s1 o1 eq_refl) as [P1 Q1].
  destruct (cs_halted s1) eqn:Hh1.
  - injection Eq as <- <-. exact P1.
  - destruct (g s1) as [s2 o2] eqn:Eg. injection Eq as <- <-.
    eapply Hg; [exact Hh1 | exact P1 | apply Q1; reflexivity | exact Eg].
Qed.

Lemma w_fr a b : Backed b -> Fr0 a b -> FrJ a b -> W a -> W b.
Proof.
  intros B F0 FJ (_ & L & Ja). split; [exact B|]. split; [eapply lvi0_fr; eassumption | eapply j_fr; eassumption].
Qed.

Ltac fr0 := unfold Fr0; cs; (split; [try reflexivity; lia|]); (split; [reflexivity|]); (split; [reflexivity|]); left; split; reflexivity.
Ltac frj := unfold FrJ; cs; (split; [reflexivity|]); (split; [left; reflexivity|]).

Lemma panic_w c s s' o : panic c s = (s', o) -> W s -> W s'.
Proof.
  intros Eq Wa. pose proof (panic_backed c s s' o Eq (proj1 Wa)) as B. unfold panic in Eq. injection Eq as <- <-.
  apply (w_fr s); [exact B | fr0 | frj; auto | exact Wa].
Qed.

Section WithEnv.
Variable E : env.

Lemma enter_prevote_w height round s s' o :
  cs_halted s = false -> round_ok height round s -> W s -> enter_prevote E height round s = (s', o) -> W s'.
Proof.
  intros Hh Hr Wa Eq. pose proof (enter_prevote_backed E height round s s' o Hh (proj1 Wa) Eq) as B.
  unfold enter_prevote in Eq.
  destruct (negb (cs_height s =? height) || (round <? cs_round s) || ((cs_round s =? round) && step_le SPrevote (cs_step s))) eqn:G.
  - injection Eq as <- <-. exact Wa.
  - unfold step_le in G. bool_to_prop. specialize (Hr ltac:(lia)). assert (round = cs_round s) by lia. subst round.
    unfold seq in Eq. rewrite do_prevote_eq in Eq. autorewrite with cs in Eq. rewrite Hh in Eq. unfold modify in Eq. injection Eq as <- <-.
    destruct (unlock_known_lock (cs_round s) s) as (U1 & U2 & U3).
    apply (w_fr s); [exact B | | | exact Wa].
    + unfold Fr0. cs. split; [reflexivity|]. split; [reflexivity|]. split; [reflexivity|].
      rewrite U1, U3. destruct (unlock_fires (cs_round s) s); [right | left]; split; reflexivity.
    + frj. intro X. rewrite X in *. cbn [step_rank] in *. lia.
Qed.

Lemma enter_propose_w height round s s' o :
  cs_halted s = false -> round_ok height round s -> W s -> enter_propose E height round s = (s', o) -> W s'.
Proof.
  intros Hh Hr Wa Eq. unfold enter_propose in Eq.
  destruct (negb (cs_height s =? height) || (round <? cs_round s) || ((cs_round s =? round) && step_le SPropose (cs_step s))) eqn:G.
  - injection Eq as <- <-. exact Wa.
  - unfold step_le in G. bool_to_prop. specialize (Hr ltac:(lia)). assert (Er : cs_round s = round) by lia.
    set (s1 := add_sched {| ti_height := height; ti_round := round; ti_step := SPropose |} s) in *.
    assert (Hh1 : cs_halted s1 = false) by (subst s1; cs; exact Hh).
    assert (Dec : exists od, (match e_me E with
                     | Some me => if me =? e_proposer E (cs_height s1) (cs_round s1) then decide_proposal E height round s1 else (s1, [])
                     | None => (s1, []) end) = (s1, od)).
    { destruct (e_me E) as [me|]; [|exists []; reflexivity].
      destruct (me =? e_proposer E (cs_height s1) (cs_round s1)); [|exists []; reflexivity].
      pose proof (decide_proposal_state E height round s1) as A.
      destruct (decide_proposal E height round s1) as [x od]. cbn [fst] in A. subst x. exists od. reflexivity. }
    destruct Dec as (od & Ed).
    unfold seq at 1 in Eq. rewrite seq_schedule in Eq by exact Hh. fold s1 in Eq. rewrite Ed in Eq.
    rewrite Hh1 in Eq. rewrite seq_modify in Eq by (cs; exact Hh1).
    set (s2 := set_rs round SPropose s1) in *.
    assert (Hh2 : cs_halted s2 = false) by (subst s2; cs; exact Hh1).
    assert (W2 : W s2).
    { apply (w_fr s); [eapply backed_bquiet; [|exact (proj1 Wa)]; subst s2 s1; bq | subst s2 s1; fr0 | | exact Wa].
      subst s2 s1. frj. intro X. rewrite X in *. cbn [step_rank] in *. lia. }
    destruct (is_proposal_complete s2).
    + destruct (enter_prevote E height (cs_round s2) s2) as [s3 o3] eqn:E3. injection Eq as <- <-.
      refine (enter_prevote_w height (cs_round s2) s2 s3 o3 Hh2 _ W2 E3). intro; lia.
    + injection Eq as <- <-. exact W2.
Qed.

Lemma enter_new_round_w height round s s' o :
  cs_halted s = false -> W s -> enter_new_round E height round s = (s', o) -> W s'.
Proof.
  intros Hh Wa Eq. unfold enter_new_round in Eq.
  destruct (negb (cs_height s =? height) || (round <? cs_round s) || ((cs_round s =? round) && negb (step_eqb (cs_step s) SNewHeight))) eqn:G.
  - injection Eq as <- <-. exact Wa.
  - assert (Hs : cs_round s = round -> cs_step s <> SCommit).
    { intros Er X. rewrite Er, X, Z.eqb_refl in G. cbn in G. rewrite !orb_true_r in G. discriminate. }
    unfold step_eqb in G. bool_to_prop.
    match type of Eq with enter_propose E height round ?x = _ => set (s3 := x) in * end.
    assert (A : cs_halted s3 = false /\ cs_round s3 = round /\ cs_step s3 = SNewRound /\
                cs_vround s3 = cs_vround s /\ cs_vblock s3 = cs_vblock s /\ cs_lround s3 = cs_lround s /\ cs_lblock s3 = cs_lblock s /\
                cs_votes s3 = hv_set_round (cs_votes s) (round + 1) /\ cs_pblock s3 = (if round =? 0 then cs_pblock s else None)).
    { subst s3. destruct (round =? 0); cs; repeat split; auto. }
    destruct A as (A1 & A3 & A4 & A5 & A6 & A7 & A8 & A9 & A10).
    destruct Wa as (Ba & (L0 & L1 & L2 & L3 & L4) & Ja).
    assert (B3 : Backed s3).
    { eapply backed_bquiet; [|exact Ba]. unfold BQuiet. rewrite A5, A6, A7, A8, A9. split; [apply maj_keeps_set_round | auto]. }
    assert (W3 : W s3).
    { split; [exact B3|]. split.
      - unfold LVI0. rewrite A3, A5, A6, A7, A8. split; [lia|]. split; [lia|]. split; [lia|]. split; [exact L3 | exact L4].
      - intros _ h ph Hm Hp. rewrite A3, A9 in Hm. apply maj_back_set_round in Hm. rewrite A10 in Hp. rewrite A3, A5, A6.
        destruct (round =? 0) eqn:R0; [|discriminate].
        apply Z.eqb_eq in R0. assert (Er : cs_round s = round) by lia. rewrite <- Er in Hm |- *.
        exact (Ja (Hs Er) h ph Hm Hp). }
    eapply (enter_propose_w height round s3 s' o); [exact A1 | unfold round_ok; intros _; rewrite A3; lia | exact W3 | exact Eq].
Qed.

Lemma enter_prevote_wait_w height round s s' o :
  cs_halted s = false -> round_ok height round s -> W s -> enter_prevote_wait height round s = (s', o) -> W s'.
Proof.
  intros Hh Hr Wa Eq. pose proof (enter_prevote_wait_backed height round s s' o Hh (proj1 Wa) Eq) as B.
  unfold enter_prevote_wait in Eq.
  destruct (negb (cs_height s =? height) || (round <? cs_round s) || ((cs_round s =? round) && step_le SPrevoteWait (cs_step s))) eqn:G.
  - injection Eq as <- <-. exact Wa.
  - unfold step_le in G. bool_to_prop. specialize (Hr ltac:(lia)). assert (Er : cs_round s = round) by lia.
    destruct (negb (o_has_any (prevotes (cs_votes s) round))); [eapply panic_w; eassumption|].
    rewrite seq_schedule in Eq by exact Hh. unfold modify in Eq. injection Eq as <- <-.
    apply (w_fr s); [exact B | fr0 | | exact Wa].
    frj. intro X. rewrite X in *. cbn [step_rank] in *. lia.
Qed.

Lemma enter_precommit_wait_w height round s s' o :
  cs_halted s = false -> W s -> enter_precommit_wait height round s = (s', o) -> W s'.
Proof.
  intros Hh Wa Eq. pose proof (enter_precommit_wait_backed height round s s' o Hh (proj1 Wa) Eq) as B.
  unfold enter_precommit_wait in Eq.
  destruct (_ || _); [injection Eq as <- <-; exact Wa|].
  destruct (negb _); [eapply panic_w; eassumption|].
  rewrite seq_schedule in Eq by exact Hh. unfold modify in Eq. injection Eq as <- <-.
  apply (w_fr s); [exact B | fr0 | frj; auto | exact Wa].
Qed.

Lemma enter_precommit_w height round s s' o :
  cs_halted s = false -> round_ok height round s -> W s -> enter_precommit E height round s = (s', o) -> W s'.
Proof.
  intros Hh Hr Wa Eq. pose proof (enter_precommit_backed E height round s s' o Hh (proj1 Wa) Eq) as B.
  unfold enter_precommit in Eq.
  destruct (negb (cs_height s =? height) || (round <? cs_round s) || ((cs_round s =? round) && step_le SPrecommit (cs_step s))) eqn:G.
  - injection Eq as <- <-. exact Wa.
  - unfold step_le in G. bool_to_prop. specialize (Hr ltac:(lia)). assert (round = cs_round s) by lia. subst round.
    assert (Hst : cs_step s <> SCommit) by (intro X; rewrite X in *; cbn [step_rank] in *; lia).
    (* the tail: the final state is set_rs (f s) *)
    assert (Tail : forall (f : cstate -> cstate) bb,
              cs_halted (f s) = false ->
              (LVI0 (set_rs (cs_round s) SPrecommit (f s)) /\ J (set_rs (cs_round s) SPrecommit (f s))) ->
              seq (modify f) (seq (sign_add_vote E PRECOMMIT bb) (modify (set_rs (cs_round s) SPrecommit))) s = (s', o) ->
              W s').
    { intros f bb F1 F2 Eq'. rewrite seq_modify in Eq' by exact F1.
      unfold seq, sign_add_vote, modify in Eq'.
      destruct (is_validator E); rewrite F1 in Eq'; injection Eq' as <- <-; (split; [exact B | exact F2]). }
    assert (Quiet : forall (f : cstate -> cstate),
              Fr0 s (set_rs (cs_round s) SPrecommit (f s)) ->
              cs_votes (f s) = cs_votes s -> (cs_pblock (f s) = cs_pblock s \/ cs_pblock (f s) = None) ->
              LVI0 (set_rs (cs_round s) SPrecommit (f s)) /\ J (set_rs (cs_round s) SPrecommit (f s))).
    { intros f F0 Fv Fp. destruct Wa as (_ & La & Ja). split; [eapply lvi0_fr; eassumption|].
      eapply j_fr; [exact F0 | | exact Ja]. unfold FrJ. cs. split; [exact Fv|]. split; [exact Fp|]. intro X; contradiction. }
    pose proof Wa as Wa0. destruct Wa as (Ba & (L0 & L1 & L2 & L3 & L4) & Ja).
    destruct (o_maj23 (prevotes (cs_votes s) (cs_round s))) as [polka|] eqn:Maj.
    2:{ apply (Tail (fun x => x) None); [exact Hh | apply Quiet; [fr0 | reflexivity | left; reflexivity] |].
        unfold seq at 1, modify at 1. rewrite Hh. cbn [app].
        destruct (seq (sign_add_vote E PRECOMMIT None) (modify (set_rs (cs_round s) SPrecommit)) s) as [a bb] eqn:Es. exact Eq. }
    destruct (fst (pol_info (cs_votes s)) <? cs_round s);
      [eapply panic_w; [exact Eq | exact Wa0]|].
    destruct polka as [[hh ph]|].
    2:{ set (f := fun x : cstate => match cs_lblock x with Some _ => set_locked (-1) None None x | None => x end).
        assert (Ff : f s = set_locked (-1) None None s \/ f s = s) by (unfold f; destruct (cs_lblock s); auto).
        refine (Tail f None _ _ Eq).
        - destruct Ff as [Ef | Ef]; rewrite Ef; cs; exact Hh.
        - apply Quiet.
          + destruct Ff as [Ef | Ef]; rewrite Ef;
              [unfold Fr0; cs; split; [reflexivity|]; split; [reflexivity|]; split; [reflexivity|]; right; split; reflexivity | fr0].
          + destruct Ff as [Ef | Ef]; rewrite Ef; cs; reflexivity.
          + destruct Ff as [Ef | Ef]; rewrite Ef; cs; left; reflexivity. }
    destruct (hashes_to (cs_lblock s) hh) eqn:HL.
    { (* re-lock: the valid block follows (repair of F83) *)
      destruct (hashes_to_eq _ _ HL) as (lb & El & Ehh).
      refine (Tail _ _ _ _ Eq); cbv beta; cs; [exact Hh|].
      assert (V : (if cs_vround s <? cs_round s then cs_round s else cs_vround s) = cs_round s /\
                  hashes_to (if cs_vround s <? cs_round s then cs_lblock s else cs_vblock s) hh = true).
      { destruct (cs_vround s <? cs_round s) eqn:Lt; [split; [reflexivity | exact HL]|].
        apply Z.ltb_ge in Lt. assert (Ev : cs_vround s = cs_round s) by lia. split; [exact Ev|].
        destruct (cs_vblock s) as [vb|] eqn:Evb; [|specialize (L3 eq_refl); lia].
        destruct Ba as [_ PV]. destruct (PV vb Evb) as (ph' & Hm'). rewrite Ev, Maj in Hm'.
        injection Hm' as E1 _. cbn. rewrite <- E1. apply N.eqb_refl. }
      destruct V as [V1 V2].
      split.
      - unfold LVI0. cs. rewrite V1. split; [exact L0|]. split; [lia|]. split; [lia|]. split.
        + intro X. rewrite X in V2. discriminate.
        + intros lb0 El0. rewrite El in El0. injection El0 as <-. split; [lia|]. left. rewrite Ehh. exact V2.
      - intros _ h ph0 Hm Hp. cs. rewrite Maj in Hm. injection Hm as <- <-. rewrite V1. split; [reflexivity | exact V2]. }
    destruct (hashes_to (cs_pblock s) hh) eqn:HP.
    { destruct (hashes_to_eq _ _ HP) as (pb & Ep & Ehh). rewrite Ep in Eq.
      destruct (negb (b_valid pb)); [eapply panic_w; [exact Eq | exact Wa0]|].
      destruct (Ja Hst hh ph Maj HP) as [JV1 JV2].
      refine (Tail _ _ _ _ Eq); cbv beta; cs; [exact Hh|].
      split.
      - unfold LVI0. cs. split; [exact L0|]. split; [exact L1|]. split; [lia|]. split; [exact L3|].
        intros lb0 El0. rewrite Ep in El0. injection El0 as <-. split; [lia|]. left. rewrite Ehh. exact JV2.
      - intros _ h ph0 Hm Hp. cs. rewrite Maj in Hm. injection Hm as <- <-. split; assumption. }
    (* polka for a block we do not have: unlock *)
    set (f := fun x : cstate => let x1 := set_locked (-1) None None x in
                       if has_header (cs_pparts x1) ph then x1 else set_prop (cs_proposal x1) None (Some (new_parts ph)) x1).
    assert (Ff : f s = set_locked (-1) None None s \/
                 f s = set_prop (cs_proposal (set_locked (-1) None None s)) None (Some (new_parts ph)) (set_locked (-1) None None s))
      by (unfold f; cbv zeta; destruct (has_header _ ph); auto).
    refine (Tail f None _ _ Eq).
    + destruct Ff as [Ef | Ef]; rewrite Ef; cs; exact Hh.
    + apply Quiet.
      * destruct Ff as [Ef | Ef]; rewrite Ef; unfold Fr0; cs; (split; [reflexivity|]); (split; [reflexivity|]); (split; [reflexivity|]); right; split; reflexivity.
      * destruct Ff as [Ef | Ef]; rewrite Ef; cs; reflexivity.
      * destruct Ff as [Ef | Ef]; rewrite Ef; cs; [left | right]; reflexivity.
Qed.

Lemma fresh_w s : cs_round s = 0 -> cs_vround s = -1 -> cs_lround s = -1 -> cs_vblock s = None -> cs_lblock s = None ->
  cs_pblock s = None -> Backed s -> W s.
Proof.
  intros A1 A2 A3 A4 A5 A6 B. split; [exact B|]. split.
  - unfold LVI0. rewrite A1, A2, A3, A4, A5. split; [lia|]. split; [lia|]. split; [lia|]. split; [reflexivity|]. intros lb X; discriminate.
  - intros _ h ph _ Hp. rewrite A6 in Hp. discriminate.
Qed.

Lemma update_to_next_height_w s s' o : W s -> update_to_next_height E s = (s', o) -> W s'.
Proof.
  intros Wa Eq. pose proof (update_to_next_height_backed E s s' o (proj1 Wa) Eq) as B.
  unfold update_to_next_height in Eq.
  destruct (negb _); [eapply panic_w; eassumption|].
  rewrite seq_modify in Eq by reflexivity. unfold schedule in Eq. injection Eq as <- <-.
  apply fresh_w; cs; try reflexivity. exact B.
Qed.

Lemma finalize_commit_w height s s' o :
  cs_halted s = false -> W s -> finalize_commit E height s = (s', o) -> W s'.
Proof.
  intros Hh P Eq. unfold finalize_commit in Eq.
  destruct (_ || _); [injection Eq as <- <-; exact P|].
  destruct (o_maj23 (precommits (cs_votes s) (cs_commit_round s))) as [[[h ph]|]|]; try (eapply panic_w; eassumption).
  destruct (negb (has_header (cs_pparts s) ph)); [eapply panic_w; eassumption|].
  destruct (negb (hashes_to (cs_pblock s) h)); [eapply panic_w; eassumption|].
  destruct (cs_pblock s) as [pb|]; [|eapply panic_w; eassumption].
  destruct (negb (b_valid pb)); [eapply panic_w; eassumption|].
  destruct (negb _); [eapply panic_w; eassumption|].
  unfold seq, emit in Eq. rewrite Hh in Eq.
  destruct (update_to_next_height E s) as [s2 o2] eqn:Eu. injection Eq as <- <-.
  eapply update_to_next_height_w; eassumption.
Qed.

Lemma try_finalize_commit_w height s s' o :
  cs_halted s = false -> W s -> try_finalize_commit E height s = (s', o) -> W s'.
Proof.
  intros Hh P Eq. unfold try_finalize_commit in Eq.
  destruct (negb _); [eapply panic_w; eassumption|].
  destruct (o_maj23 (precommits (cs_votes s) (cs_commit_round s))) as [[[h ph]|]|];
    try (injection Eq as <- <-; exact P).
  destruct (hashes_to (cs_pblock s) h); [|injection Eq as <- <-; exact P].
  eapply finalize_commit_w; eassumption.
Qed.

Lemma enter_commit_w height cr s s' o :
  cs_halted s = false -> W s -> enter_commit E height cr s = (s', o) -> W s'.
Proof.
  intros Hh Wa Eq. unfold enter_commit in Eq.
  destruct (_ || _); [injection Eq as <- <-; exact Wa|].
  destruct (o_maj23 (precommits (cs_votes s) cr)) as [polka|]; [|eapply panic_w; eassumption].
  match type of Eq with try_finalize_commit E height ?x = _ => set (s3 := x) in * end.
  assert (Q : BQuiet s s3 /\ cs_halted s3 = false /\ Fr0 s s3 /\ cs_step s3 = SCommit).
  { subst s3. repeat match goal with |- context [if ?c then _ else _] => destruct c end;
      unfold BQuiet, Fr0; cs; (split; [split; [apply maj_keeps_refl | auto] | split; [exact Hh | split; [|reflexivity]]]);
      (split; [reflexivity|]); (split; [reflexivity|]); (split; [reflexivity|]); left; split; reflexivity. }
  destruct Q as (Q & Hh3 & F0 & St).
  assert (W3 : W s3).
  { destruct Wa as (Ba & La & _). split; [eapply backed_bquiet; eassumption|]. split; [eapply lvi0_fr; eassumption|].
    intro X. rewrite St in X. contradiction. }
  eapply try_finalize_commit_w; eassumption.
Qed.

(* handleCompleteProposal: the proposal block has just changed, so (b) is re-established here *)
Lemma handle_complete_proposal_w height s s' o :
  cs_halted s = false -> Backed s -> LVI0 s -> handle_complete_proposal E height s = (s', o) -> W s'.
Proof.
  intros Hh Ba (L0 & L1 & L2 & L3 & L4) Eq. unfold handle_complete_proposal in Eq.
  match type of Eq with context [is_proposal_complete ?x] => set (s1 := x) in * end.
  assert (Q : W s1 /\ cs_halted s1 = false).
  { assert (Same : W s -> W s /\ cs_halted s = false) by auto.
    assert (L : LVI0 s) by exact (conj L0 (conj L1 (conj L2 (conj L3 L4)))).
    subst s1. destruct (o_maj23 (prevotes (cs_votes s) (cs_round s))) as [[[hh pp]|]|] eqn:Maj.
    - destruct ((cs_vround s <? cs_round s) && hashes_to (cs_pblock s) hh) eqn:C.
      + apply andb_true_iff in C as [C1 C2]. apply Z.ltb_lt in C1. split; [|cs; exact Hh].
        split; [|split].
        * destruct Ba as [PL PV]. unfold Backed. cs. split; [exact PL|]. eapply hashes_to_backed; eassumption.
        * unfold LVI0. cs. split; [exact L0|]. split; [lia|]. split; [exact L2|]. split.
          -- intro X. rewrite X in C2. discriminate.
          -- intros lb El. split; [lia|].
             destruct (Z.eq_dec (cs_lround s) (cs_round s)) as [e|n]; [|right; lia].
             left. destruct Ba as [PL _]. destruct (PL lb El) as (ph' & Hm'). rewrite e, Maj in Hm'.
             injection Hm' as E1 _. rewrite <- E1. exact C2.
        * intros _ h ph Hm Hp. cs. rewrite Maj in Hm. injection Hm as <- <-. split; [reflexivity | exact C2].
      + apply Same. split; [exact Ba|]. split; [exact L|].
        intros _ h ph Hm Hp. rewrite Maj in Hm. injection Hm as <- <-. rewrite Hp, andb_true_r in C.
        apply Z.ltb_ge in C. assert (Ev : cs_vround s = cs_round s) by lia. split; [exact Ev|].
        destruct (cs_vblock s) as [vb|] eqn:Evb; [|specialize (L3 eq_refl); lia].
        destruct Ba as [_ PV]. destruct (PV vb Evb) as (ph' & Hm'). rewrite Ev, Maj in Hm'.
        injection Hm' as E1 _. cbn. rewrite <- E1. apply N.eqb_refl.
    - apply Same. split; [exact Ba|]. split; [exact L|]. intros _ h ph Hm. rewrite Maj in Hm. discriminate.
    - apply Same. split; [exact Ba|]. split; [exact L|]. intros _ h ph Hm. rewrite Maj in Hm. discriminate. }
  destruct Q as [P1 Hh1].
  destruct (step_le (cs_step s1) SPropose && is_proposal_complete s1).
  - eapply (seq_w _ _ s1 s' o (fun _ => True) Eq).
    + intros s2 o2 E2. split; [|auto].
      refine (enter_prevote_w height (cs_round s1) s1 s2 o2 Hh1 _ P1 E2). intro; lia.
    + intros s2 s3 o3 Hh2 P2 _ E3.
      destruct (o_maj23 (prevotes (cs_votes s) (cs_round s))); [|injection E3 as <- <-; exact P2].
      refine (enter_precommit_w height (cs_round s2) s2 s3 o3 Hh2 _ P2 E3). intro; lia.
  - destruct (step_eqb (cs_step s1) SCommit).
    + eapply try_finalize_commit_w; eassumption.
    + injection Eq as <- <-. exact P1.
Qed.

Lemma set_proposal_w p s s' o : W s -> set_proposal E p s = (s', o) -> W s'.
Proof.
  intros Wa Eq. pose proof (set_proposal_backed E p s s' o (proj1 Wa) Eq) as B. unfold set_proposal in Eq.
  assert (Q : Fr0 s s' /\ FrJ s s').
  { repeat match type of Eq with
           | context [if ?c then _ else _] => destruct c
           | context [match ?x with _ => _ end] => destruct x
           end; injection Eq as <- <-; (split; [fr0 | frj; auto]). }
  destruct Q. eapply w_fr; eassumption.
Qed.

Lemma add_part_w height ph idx d s s' o :
  cs_halted s = false -> W s -> add_part E height ph idx d s = (s', o) -> W s'.
Proof.
  intros Hh Wa Eq. unfold add_part in Eq.
  destruct (negb (cs_height s =? height)); [injection Eq as <- <-; exact Wa|].
  destruct (cs_pparts s) as [pp|]; [|injection Eq as <- <-; exact Wa].
  destruct (negb (psh_eqb (pt_header pp) ph)); [injection Eq as <- <-; exact Wa|].
  destruct ((fst ph <=? idx)%N); [injection Eq as <- <-; exact Wa|].
  destruct (existsb (N.eqb idx) (pt_have pp)); [injection Eq as <- <-; exact Wa|].
  match type of Eq with context [pt_complete ?x] => set (pp' := x) in * end.
  assert (Qp : forall bb, BQuiet s (set_prop (cs_proposal s) bb (Some pp') s)) by (intro; bq).
  assert (Q0 : forall bb, Fr0 s (set_prop (cs_proposal s) bb (Some pp') s)) by (intro; fr0).
  destruct Wa as (Ba & La & Ja).
  destruct (pt_complete pp').
  - destruct d as [b|];
      (eapply handle_complete_proposal_w; [| eapply backed_bquiet; [apply Qp | exact Ba] | eapply lvi0_fr; [apply Q0 | exact La] | exact Eq]; cs; exact Hh).
  - injection Eq as <- <-. apply (w_fr s); [eapply backed_bquiet; [apply Qp | exact Ba] | apply Q0 | frj; auto | split; [exact Ba | split; assumption]].
Qed.

(* the polka bookkeeping of addVote, after the vote set has changed: (b) is re-established for a
   prevote of the current round; for other rounds it must have survived the vote *)
Lemma polka_update_w vr s :
  Backed s -> LVI0 s -> (vr <> cs_round s -> J s) -> W (polka_update vr s).
Proof.
  intros Ba La Jo. pose proof (proj1 (polka_update_backed vr s Ba)) as B.
  split; [exact B|]. clear B.
  pose proof La as (L0 & L1 & L2 & L3 & L4). destruct Ba as [PL PV].
  unfold polka_update.
  destruct (o_maj23 (prevotes (cs_votes s) vr)) as [polka|] eqn:Maj.
  2:{ split; [exact La|]. destruct (Z.eq_dec vr (cs_round s)) as [->|n]; [|exact (Jo n)].
      intros _ h ph Hm. rewrite Maj in Hm. discriminate. }
  (* after the possible unlock *)
  match goal with |- context [match polka with Some _ => _ | None => ?su end] => set (s_u := su) end.
  assert (U : Fr0 s s_u /\ cs_votes s_u = cs_votes s /\ cs_pblock s_u = cs_pblock s /\ cs_pparts s_u = cs_pparts s /\
              cs_step s_u = cs_step s /\ cs_proposal s_u = cs_proposal s /\
              (forall lb, cs_lblock s_u = Some lb -> cs_lblock s = Some lb /\ cs_lround s_u = cs_lround s /\
                 (hashes_to (Some lb) (match polka with Some (h, _) => h | None => 0%N end) = true /\ polka <> None \/
                  ~ (cs_lround s < vr <= cs_round s)))).
  { subst s_u. destruct (cs_lblock s) as [lb0|] eqn:El.
    - destruct ((cs_lround s <? vr) && (vr <=? cs_round s) &&
                negb (match polka with Some _ => true | None => false end && hashes_to (Some lb0) (match polka with Some (h, _) => h | None => 0%N end))) eqn:C.
      + cs. split; [unfold Fr0; cs; split; [reflexivity|]; split; [reflexivity|]; split; [reflexivity|]; right; split; reflexivity|].
        do 5 (split; [reflexivity|]). intros lb X; discriminate.
      + split; [fr0|]. do 5 (split; [reflexivity|]). intros lb H. rewrite El in H. injection H as <-.
        split; [reflexivity|]. split; [reflexivity|].
        apply andb_false_iff in C as [C|C].
        * right. apply andb_false_iff in C as [C|C]; [apply Z.ltb_ge in C | apply Z.leb_gt in C]; lia.
        * left. apply negb_false_iff in C. apply andb_true_iff in C as [C1 C2].
          split; [exact C2 | destruct polka; [discriminate | cbn in C1; discriminate]].
    - split; [fr0|]. do 5 (split; [reflexivity|]). intros lb X; rewrite El in X; discriminate. }
  destruct U as (F0 & Uv & Up & Upp & Ust & Upr & Ul).
  pose proof (lvi0_fr s s_u F0 La) as Lu.
  assert (Ju_other : vr <> cs_round s -> J s_u).
  { intro n. eapply j_fr; [exact F0 | | exact (Jo n)]. unfold FrJ. rewrite Uv, Up, Ust. auto. }
  destruct F0 as (R1 & R2 & R3 & R4).
  destruct polka as [[h ph]|].
  2:{ split; [exact Lu|]. destruct (Z.eq_dec vr (cs_round s)) as [->|n]; [|exact (Ju_other n)].
      intros _ h ph Hm. rewrite Uv, R1, Maj in Hm. discriminate. }
  destruct ((cs_vround s_u <? vr) && (vr =? cs_round s_u)) eqn:C.
  - apply andb_true_iff in C as [C1 C2]. apply Z.ltb_lt in C1. apply Z.eqb_eq in C2.
    destruct (hashes_to (cs_pblock s_u) h) eqn:HP.
    + (* the proposal block becomes the valid block *)
      assert (Core : LVI0 (set_valid vr (cs_pblock s_u) (cs_pparts s_u) s_u) /\ J (set_valid vr (cs_pblock s_u) (cs_pparts s_u) s_u)).
      { split.
        - unfold LVI0. cs. destruct Lu as (M0 & M1 & M2 & M3 & M4). split; [exact M0|]. split; [lia|]. split; [exact M2|]. split.
          + intro X. rewrite X in HP. discriminate.
          + intros lb El. destruct (Ul lb El) as (El0 & Er0 & Hcase). split; [lia|].
            left. destruct Hcase as [[Hh1 _] | Hn].
            * cbn in Hh1. apply N.eqb_eq in Hh1. rewrite Hh1. exact HP.
            * assert (Elr : cs_lround s = cs_round s) by lia.
              destruct (PL lb El0) as (ph' & Hm'). rewrite Elr, <- R1, <- C2, Maj in Hm'.
              injection Hm' as E1 _. rewrite <- E1. exact HP.
        - intros _ h0 ph0 Hm Hp. cs. rewrite Uv, <- C2, Maj in Hm. injection Hm as <- <-. split; [exact C2 | exact HP]. }
      destruct Core as [C0 CJ].
      destruct (negb (has_header (cs_pparts (set_valid vr (cs_pblock s_u) (cs_pparts s_u) s_u)) ph)); [|split; assumption].
      split; [eapply lvi0_fr; [|exact C0]; fr0 | eapply j_fr; [| |exact CJ]; [fr0 | frj; auto]].
    + (* the polka is for a block we do not hold: the proposal block is dropped *)
      assert (Core : LVI0 (set_prop (cs_proposal s_u) None (cs_pparts s_u) s_u) /\ J (set_prop (cs_proposal s_u) None (cs_pparts s_u) s_u)).
      { split; [eapply lvi0_fr; [|exact Lu]; fr0|]. intros _ h0 ph0 _ Hp. cs. discriminate. }
      destruct Core as [C0 CJ].
      destruct (negb (has_header (cs_pparts (set_prop (cs_proposal s_u) None (cs_pparts s_u) s_u)) ph)); [|split; assumption].
      split; [eapply lvi0_fr; [|exact C0]; fr0 | eapply j_fr; [| |exact CJ]; [fr0 | frj; auto]].
  - split; [exact Lu|]. destruct (Z.eq_dec vr (cs_round s)) as [e|n]; [|exact (Ju_other n)].
    intros _ h0 ph0 Hm Hp. rewrite Uv, R1, <- e, Maj in Hm. injection Hm as <- <-.
    apply andb_false_iff in C as [C|C]; [|apply Z.eqb_neq in C; lia].
    apply Z.ltb_ge in C. destruct Lu as (M0 & M1 & M2 & M3 & M4).
    assert (Ev : cs_vround s_u = cs_round s_u) by lia. split; [exact Ev|].
    rewrite R3. destruct (cs_vblock s) as [vb|] eqn:Evb; [|rewrite R3 in M3; specialize (M3 eq_refl); lia].
    destruct (PV vb eq_refl) as (ph' & Hm'). rewrite <- R2, Ev, R1, <- e, Maj in Hm'.
    injection Hm' as E1 _. cbn. rewrite <- E1. apply N.eqb_refl.
Qed.

Lemma add_vote_w v peer s s' o :
  cs_halted s = false -> W s -> add_vote E v peer s = (s', o) -> W s'.
Proof.
  intros Hh Wa Eq. unfold add_vote in Eq.
  destruct ((v_height v + 1 =? cs_height s) && (v_type v =? PRECOMMIT)%N).
  { destruct (negb (step_eqb (cs_step s) SNewHeight)); [injection Eq as <- <-; exact Wa|].
    destruct (cs_last_commit s) as [lc|]; [|eapply panic_w; eassumption].
    destruct (vs_add lc v) as [[lc' added] e].
    set (s1 := set_last_commit (Some lc') s) in *.
    assert (P1 : W s1) by (apply (w_fr s); [eapply backed_bquiet; [|exact (proj1 Wa)]; subst s1; bq | subst s1; fr0 | subst s1; frj; auto | exact Wa]).
    assert (Hh1 : cs_halted s1 = false) by (subst s1; cs; exact Hh).
    destruct (negb added); [injection Eq as <- <-; exact P1|].
    destruct (e_skip_timeout_commit E && has_all lc').
    - destruct (enter_new_round E (cs_height s1) 0 s1) as [s2 o2] eqn:E2. injection Eq as <- <-.
      eapply enter_new_round_w; eassumption.
    - injection Eq as <- <-. exact P1. }
  destruct (negb (v_height v =? cs_height s)); [injection Eq as <- <-; exact Wa|].
  pose proof (maj_keeps_add_vote (cs_votes s) v peer) as K.
  destruct (hv_add_vote (cs_votes s) v peer) as [[hv' added] e] eqn:Ea. cbn [fst] in K.
  pose proof (hv_add_vote_maj (cs_votes s) v peer hv' added e Ea) as MB.
  set (s1 := set_votes hv' s) in *.
  destruct Wa as (Ba & La & Ja).
  assert (B1 : Backed s1) by (eapply backed_bquiet; [|exact Ba]; subst s1; unfold BQuiet; cs; auto).
  assert (L1 : LVI0 s1) by (eapply lvi0_fr; [|exact La]; subst s1; fr0).
  assert (Hh1 : cs_halted s1 = false) by (subst s1; cs; exact Hh).
  (* (b) survives the vote unless it is an added prevote of the current round *)
  assert (J1 : ~ (added = true /\ cs_round s = v_round v /\ (v_type v =? PREVOTE)%N = true) -> J s1).
  { intros Hn Hst h ph Hm Hp. subst s1. cs. destruct (MB _ _ Hm) as [Hm0 | Hx]; [exact (Ja Hst h ph Hm0 Hp) | contradiction]. }
  destruct (negb added) eqn:Na.
  { injection Eq as <- <-. split; [exact B1|]. split; [exact L1|]. apply J1. intros [X _]. rewrite X in Na. discriminate. }
  match type of Eq with (let '(s9, o9) := ?body in _) = _ => destruct body as [s9 o9] eqn:Eb end.
  injection Eq as <- <-.
  destruct ((v_type v =? PREVOTE)%N) eqn:Ty.
  - set (s2 := polka_update (v_round v) s1) in *.
    assert (P2 : W s2).
    { apply polka_update_w; [exact B1 | exact L1|]. intro n. apply J1. intros (_ & X & _). subst s1. cs. congruence. }
    destruct (polka_update_backed (v_round v) s1 B1) as [_ H2]. fold s2 in H2.
    assert (Hh2 : cs_halted s2 = false) by (rewrite H2; exact Hh1).
    destruct ((cs_round s2 <? v_round v) && o_has_any (prevotes (cs_votes s2) (v_round v))).
    { eapply enter_new_round_w; eassumption. }
    destruct ((cs_round s2 =? v_round v) && step_le SPrevote (cs_step s2)) eqn:Cur.
    { bool_to_prop.
      assert (Rk : round_ok (cs_height s) (v_round v) s2) by (intro; lia).
      destruct (o_maj23 (prevotes (cs_votes s2) (v_round v))) as [polka|].
      - destruct (is_proposal_complete s2 || match polka with None => true | Some _ => false end).
        + eapply enter_precommit_w; eassumption.
        + destruct (o_has_any (prevotes (cs_votes s2) (v_round v))); [|injection Eb as <- <-; exact P2].
          eapply enter_prevote_wait_w; eassumption.
      - destruct (o_has_any (prevotes (cs_votes s2) (v_round v))); [|injection Eb as <- <-; exact P2].
        eapply enter_prevote_wait_w; eassumption. }
    destruct (cs_proposal s2) as [p|]; [|injection Eb as <- <-; exact P2].
    destruct ((0 <=? pr_polr p) && (pr_polr p =? v_round v) && is_proposal_complete s2); [|injection Eb as <- <-; exact P2].
    refine (enter_prevote_w _ _ _ _ _ Hh2 _ P2 Eb). intro; lia.
  - assert (P1 : W s1).
    { split; [exact B1|]. split; [exact L1|]. apply J1. intros (_ & _ & X). discriminate. }
    destruct (o_maj23 (precommits (cs_votes s1) (v_round v))) as [polka|].
    + eapply (seq_w _ _ s1 s9 o9 (round_ok (cs_height s) (v_round v)) Eb).
      * intros sa oa Ea'. destruct (enter_new_round_good E _ _ _ _ _ Hh1 Ea') as (G & _ & R).
        split; [eapply enter_new_round_w; eassumption | intros _; exact R].
      * intros sa sb ob Hha Pa Ra Eb2.
        eapply (seq_w _ _ sa sb ob (fun _ => True) Eb2).
        -- intros sc oc Ec. split; [eapply enter_precommit_w; eassumption | auto].
        -- intros sc sd od Hhc Pc _ Ed. destruct polka as [bb|].
           ++ eapply (seq_w _ _ sc sd od (fun _ => True) Ed).
              ** intros se oe Ee. split; [eapply enter_commit_w; eassumption | auto].
              ** intros se sf of Hhe Pe _ Ef.
                 destruct (e_skip_timeout_commit E && o_has_all (precommits (cs_votes s1) (v_round v)));
                   [|injection Ef as <- <-; exact Pe].
                 eapply enter_new_round_w; eassumption.
           ++ eapply enter_precommit_wait_w; eassumption.
    + destruct ((cs_round s1 <=? v_round v) && o_has_any (precommits (cs_votes s1) (v_round v))); [|injection Eb as <- <-; exact P1].
      eapply (seq_w _ _ s1 s9 o9 (fun _ => True) Eb).
      * intros sa oa Ea'. split; [eapply enter_new_round_w; eassumption | auto].
      * intros sa sb ob Hha Pa _ Eb2. eapply enter_precommit_wait_w; eassumption.
Qed.

Lemma handle_timeout_w ti s s' o :
  cs_halted s = false -> SchedInv s -> W s -> handle_timeout E ti s = (s', o) -> W s'.
Proof.
  intros Hh SI P Eq. unfold handle_timeout in Eq.
  destruct (negb (existsb (tinfo_eqb ti) (cs_scheduled s))) eqn:Ex; [injection Eq as <- <-; exact P|].
  destruct (negb (ti_height ti =? cs_height s) || (ti_round ti <? cs_round s)
            || ((ti_round ti =? cs_round s) && (step_rank (ti_step ti) <? step_rank (cs_step s)))) eqn:G;
    [injection Eq as <- <-; exact P|].
  bool_to_prop.
  assert (Rk : round_ok (ti_height ti) (ti_round ti) s).
  { apply existsb_exists in Ex. destruct Ex as (tj & Hin & Et). unfold tinfo_eqb in Et. bool_to_prop.
    specialize (SI tj Hin). intro. lia. }
  destruct (ti_step ti).
  - eapply enter_new_round_w; eassumption.
  - eapply enter_propose_w; [exact Hh | | exact P | exact Eq].
    intro. destruct P as (_ & (P0 & _) & _). lia.
  - eapply enter_prevote_w; eassumption.
  - eapply panic_w; eassumption.
  - eapply enter_precommit_w; eassumption.
  - eapply panic_w; eassumption.
  - eapply (seq_w _ _ s s' o (fun _ => True) Eq).
    + intros s1 o1 E1. split; [eapply enter_precommit_w; eassumption | auto].
    + intros s1 s2 o2 Hh1 P1 _ E2. eapply enter_new_round_w; eassumption.
  - eapply panic_w; eassumption.
Qed.

Lemma handle_w i s s' o : SchedInv s -> W s -> handle E s i = (s', o) -> W s'.
Proof.
  intros SI P Eq. unfold handle in Eq.
  destruct (cs_halted s) eqn:Hh; [injection Eq as <- <-; exact P|].
  destruct i.
  - eapply set_proposal_w; eassumption.
  - eapply add_part_w; eassumption.
  - eapply add_vote_w; eassumption.
  - eapply handle_timeout_w; eassumption.
  - destruct (height =? cs_height s); injection Eq as <- <-; [|exact P].
    destruct P as (Ba & La & Ja). split; [|split].
    + eapply backed_bquiet; [|exact Ba]. unfold BQuiet. cs. split; [apply maj_keeps_peer | auto].
    + eapply lvi0_fr; [|exact La]. fr0.
    + intros Hst h ph Hm Hp. cs. apply maj_back_peer in Hm. exact (Ja Hst h ph Hm Hp).
Qed.

Lemma run_w : forall ins s s' os,
  SchedInv s -> W s -> run E s ins = (s', os) -> W s' /\ SchedInv s'.
Proof.
  induction ins as [|i ins IH]; intros s s' os SI P Eq; cbn [run] in Eq.
  - injection Eq as <- <-. auto.
  - destruct (handle E s i) as [s1 o1] eqn:E1. destruct (run E s1 ins) as [s2 os2] eqn:E2.
    injection Eq as <- <-.
    apply (IH s1 s2 os2); [apply (handle_good E i s s1 o1 SI E1); exact SI | eapply handle_w; eassumption | exact E2].
Qed.

Theorem reachable_w height lc ins : W (fst (run E (init_state E height lc) ins)).
Proof.
  destruct (run E (init_state E height lc) ins) as [s' os] eqn:Er. cbn [fst].
  refine (proj1 (run_w ins _ _ _ (init_sched E height lc) _ Er)).
  apply fresh_w; try reflexivity. unfold Backed, init_state. cbn. split; apply backed_none.
Qed.

(* (a), (b), (c) for every reachable state *)
Theorem reachable_lock_is_valid height lc ins :
  let s := fst (run E (init_state E height lc) ins) in
  (0 <= cs_round s /\ cs_vround s <= cs_round s /\ -1 <= cs_lround s <= cs_round s) /\
  (cs_step s <> SCommit -> forall h ph,
     o_maj23 (prevotes (cs_votes s) (cs_round s)) = Some (Some (h, ph)) -> hashes_to (cs_pblock s) h = true ->
     cs_vround s = cs_round s /\ hashes_to (cs_vblock s) h = true) /\
  (forall lb, cs_lblock s = Some lb ->
     exists vb, cs_vblock s = Some vb /\ cs_lround s <= cs_vround s /\
                (b_hash vb = b_hash lb \/ cs_lround s < cs_vround s)).
Proof.
  cbv zeta. destruct (reachable_w height lc ins) as (_ & (L0 & L1 & L2 & L3 & L4) & Ja).
  split; [auto|]. split; [exact Ja|].
  intros lb El. destruct (L4 lb El) as [Le Hc].
  destruct (cs_vblock (fst (run E (init_state E height lc) ins))) as [vb|] eqn:Evb.
  - exists vb. split; [reflexivity|]. split; [exact Le|].
    destruct Hc as [Hc|Hc]; [left; cbn in Hc; apply N.eqb_eq in Hc; exact Hc | right; exact Hc].
  - exfalso. specialize (L3 eq_refl). destruct Hc as [Hc|Hc]; [discriminate | lia].
Qed.

End WithEnv.
