(* C03 - finding F83, REPAIRED: the state machine with the UNREPAIRED re-lock of enterPrecommit
   (Model.relock_unfixed: LockedRound := round, ValidBlock untouched), kept only for the regression
   witnesses of C03/TermLV.v and TermSim.v.  GENERATED from C02/Model.v: the text of enter_precommit and of
   everything that calls it (handle_complete_proposal, add_part, add_vote, handle_timeout, handle,
   run), renamed with the suffix _u83, [relock] replaced by [relock_unfixed]; all other functions
   are the model's. *)
From Coq Require Import List ZArith NArith Bool.
From TM Require Import C02.Model.
Import ListNotations.
Open Scope Z_scope.

Section U83.
Variable E : env.

(* enterPrecommit *)
Definition enter_precommit_u83 (height round : Z) : M :=
  fun s =>
    if negb (cs_height s =? height) || (round <? cs_round s)
       || ((cs_round s =? round) && step_le SPrecommit (cs_step s))
    then (s, [])
    else
      let finish := modify (set_rs round SPrecommit) in
      match o_maj23 (prevotes (cs_votes s) round) with
      | None => seq ((sign_add_vote E) PRECOMMIT None) finish s
      | Some polka =>
        if fst (pol_info (cs_votes s)) <? round then panic 2 s else
        match polka with
        | None =>
          (* +2/3 prevoted nil: unlock, precommit nil *)
          seq (modify (fun x => match cs_lblock x with Some _ => set_locked (-1) None None x | None => x end))
              (seq ((sign_add_vote E) PRECOMMIT None) finish) s
        | Some (h, ph) =>
          if hashes_to (cs_lblock s) h then
            (* re-lock; repair of finding F83: the polka of this round is for the locked block, which
               becomes the valid block as well (when ValidRound < round) *)
            seq (modify (relock_unfixed round))
                (seq ((sign_add_vote E) PRECOMMIT (Some (h, ph))) finish) s
          else if hashes_to (cs_pblock s) h then
            match cs_pblock s with
            | Some pb =>
              if negb (b_valid pb) then panic 3 s else
              seq (modify (fun x => set_locked round (cs_pblock x) (cs_pparts x) x))
                  (seq ((sign_add_vote E) PRECOMMIT (Some (h, ph))) finish) s
            | None => (s, [])
            end
          else
            (* polka for a block we do not have: unlock, fetch it, precommit nil *)
            seq (modify (fun x =>
                   let x1 := set_locked (-1) None None x in
                   if has_header (cs_pparts x1) ph then x1
                   else set_prop (cs_proposal x1) None (Some (new_parts ph)) x1))
                (seq ((sign_add_vote E) PRECOMMIT None) finish) s
        end
      end.


(* handleCompleteProposal *)
Definition handle_complete_proposal_u83 (height : Z) : M :=
  fun s =>
    let maj := o_maj23 (prevotes (cs_votes s) (cs_round s)) in
    let s1 :=
      match maj with
      | Some (Some (h, _)) =>
        if (cs_vround s <? cs_round s) && hashes_to (cs_pblock s) h
        then set_valid (cs_round s) (cs_pblock s) (cs_pparts s) s else s
      | _ => s
      end in
    if step_le (cs_step s1) SPropose && is_proposal_complete s1 then
      seq ((enter_prevote E) height (cs_round s1))
          (fun s2 => match maj with Some _ => enter_precommit_u83 height (cs_round s2) s2 | None => (s2, []) end) s1
    else if step_eqb (cs_step s1) SCommit then (try_finalize_commit E) height s1
    else (s1, []).


(* addProposalBlockPart + the completion branch of handleMsg.  [decoded]: what the complete
   set with this header decodes to (None: not a block). *)
Definition add_part_u83 (height : Z) (ph : psh) (idx : N) (decoded : option block) : M :=
  fun s =>
    if negb (cs_height s =? height) then (s, []) else
    match cs_pparts s with
    | None => (s, [])
    | Some pp =>
      if negb (psh_eqb (pt_header pp) ph) then (s, [])                 (* proof does not verify *)
      else if (fst ph <=? idx)%N then (s, [])                          (* unexpected index *)
      else if existsb (N.eqb idx) (pt_have pp) then (s, [])            (* already have it *)
      else
        let pp' := {| pt_header := pt_header pp; pt_have := idx :: pt_have pp |} in
        if pt_complete pp' then
          match decoded with
          | Some b =>
            handle_complete_proposal_u83 height (set_prop (cs_proposal s) (Some b) (Some pp') s)
          | None =>
            (* decode error: added = true and the set is complete, so handleMsg still calls
               handleCompleteProposal, with the old ProposalBlock *)
            handle_complete_proposal_u83 height (set_prop (cs_proposal s) (cs_pblock s) (Some pp') s)
          end
        else (set_prop (cs_proposal s) (cs_pblock s) (Some pp') s, [])
    end.


(* addVote (through tryAddVote) *)
Definition add_vote_u83 (v : vote) (peer : N) : M :=
  fun s =>
    if (v_height v + 1 =? cs_height s) && (v_type v =? PRECOMMIT)%N then
      (* precommit for the previous height *)
      if negb (step_eqb (cs_step s) SNewHeight) then (s, []) else
      match cs_last_commit s with
      | None => panic 12 s
      | Some lc =>
        let '(lc', added, e) := vs_add lc v in
        let s1 := set_last_commit (Some lc') s in
        let errs := match e with E_none => [] | _ => [OVoteErr e] end in
        if negb added then (s1, errs) else
        if e_skip_timeout_commit E && has_all lc'
        then let '(s2, o) := (enter_new_round E) (cs_height s1) 0 s1 in (s2, errs ++ o)
        else (s1, errs)
      end
    else if negb (v_height v =? cs_height s) then (s, [])
    else
      let height := cs_height s in
      let '(hv', added, e) := hv_add_vote (cs_votes s) v peer in
      let s1 := set_votes hv' s in
      let errs := match e with E_none => [] | _ => [OVoteErr e] end in
      if negb added then (s1, errs) else
      let '(s9, o9) :=
        if (v_type v =? PREVOTE)%N then
          let s2 := polka_update (v_round v) s1 in
          let pv2 := prevotes (cs_votes s2) (v_round v) in
          if (cs_round s2 <? v_round v) && o_has_any pv2 then (enter_new_round E) height (v_round v) s2
          else if (cs_round s2 =? v_round v) && step_le SPrevote (cs_step s2) then
            match o_maj23 pv2 with
            | Some polka =>
              if is_proposal_complete s2 || match polka with None => true | Some _ => false end
              then enter_precommit_u83 height (v_round v) s2
              else if o_has_any pv2 then enter_prevote_wait height (v_round v) s2 else (s2, [])
            | None => if o_has_any pv2 then enter_prevote_wait height (v_round v) s2 else (s2, [])
            end
          else match cs_proposal s2 with
               | Some p => if (0 <=? pr_polr p) && (pr_polr p =? v_round v) && is_proposal_complete s2
                           then (enter_prevote E) height (cs_round s2) s2 else (s2, [])
               | None => (s2, [])
               end
        else
          let pc := precommits (cs_votes s1) (v_round v) in
          match o_maj23 pc with
          | Some polka =>
            seq ((enter_new_round E) height (v_round v))
              (seq (enter_precommit_u83 height (v_round v))
                (match polka with
                 | Some _ =>
                   seq ((enter_commit E) height (v_round v))
                       (fun x => if e_skip_timeout_commit E && o_has_all pc
                                 then (enter_new_round E) (cs_height x) 0 x else (x, []))
                 | None => enter_precommit_wait height (v_round v)
                 end)) s1
          | None =>
            if (cs_round s1 <=? v_round v) && o_has_any pc
            then seq ((enter_new_round E) height (v_round v)) (enter_precommit_wait height (v_round v)) s1
            else (s1, [])
          end in
      (s9, errs ++ o9).

(* handleTimeout (rs is the round state before; the ticker only fires what was scheduled) *)
Definition handle_timeout_u83 (ti : tinfo) : M :=
  fun s =>
    if negb (existsb (tinfo_eqb ti) (cs_scheduled s)) then (s, []) else
    if negb (ti_height ti =? cs_height s) || (ti_round ti <? cs_round s)
       || ((ti_round ti =? cs_round s) && (step_rank (ti_step ti) <? step_rank (cs_step s)))
    then (s, [])
    else match ti_step ti with
    | SNewHeight => (enter_new_round E) (ti_height ti) 0 s
    | SNewRound => (enter_propose E) (ti_height ti) 0 s
    | SPropose => (enter_prevote E) (ti_height ti) (ti_round ti) s
    | SPrevoteWait => enter_precommit_u83 (ti_height ti) (ti_round ti) s
    | SPrecommitWait => seq (enter_precommit_u83 (ti_height ti) (ti_round ti))
                            ((enter_new_round E) (ti_height ti) (ti_round ti + 1)) s
    | _ => panic 13 s
    end.


(* one handleMsg / handleTimeout call; a halted machine handles nothing *)
Definition handle_u83 (s : cstate) (i : input) : cstate * list output :=
  if cs_halted s then (s, []) else
  match i with
  | IProposal p => (set_proposal E) p s
  | IPart h ph idx d => add_part_u83 h ph idx d s
  | IVote v peer => add_vote_u83 v peer s
  | ITimeout ti => handle_timeout_u83 ti s
  | IMaj23 h r ty peer b =>
    (* consensus/reactor.go Receive, VoteSetMaj23Message: under the state lock,
       votes.SetPeerMaj23 when the height is the current one *)
    if h =? cs_height s then (set_votes (hv_set_peer_maj23 (cs_votes s) r ty peer b) s, []) else (s, [])
  end.


(* a run_u83: the outputs of every step, in order *)
Fixpoint run_u83 (s : cstate) (ins : list input) : cstate * list (list output) :=
  match ins with
  | [] => (s, [])
  | i :: r => let '(s1, o) := handle_u83 s i in
              let '(s2, os) := run_u83 s1 r in (s2, o :: os)
  end.


End U83.
