(* C03 — executable side: networks of real consensus.State objects (correct validators) that
   first run under the adversarial asynchronous scheduler of C01 (loss, premature timeouts,
   equivocation, split-brain) and then synchronously: every message reaches every correct node
   before any timeout fires, while faulty validators keep voting.  The monitor checks that
   every correct node decides the height that was current when synchrony began within the
   bound (rounds), plus agreement and the C02 clauses; every node's trace is replayed through
   the state-machine model. *)
From Coq Require Import List ZArith NArith Bool.
From TM Require Import Common.Hex.
From TM Require Export C01.Exec.
Import ListNotations.
Open Scope Z_scope.

Inductive case :=
| CSync (vals : valset) (skip : bool) (initial_height : Z) (proposers : list (Z * list Z))
        (nodes : list (Z * list (input * obs)))
        (marks : list nat)          (* per node: number of inputs handled before synchrony *)
        (h0 : Z)                    (* the highest height any correct node was at *)
        (bound : Z)                 (* rounds *)
(* the timeout schedule of a configuration: base and per-round delta (ns) of the propose / prevote /
   precommit timeouts as configured, and what ConsensusConfig.Propose/Prevote/Precommit(r) answered
   for r = 0, 1, 2, ... *)
| CTimeouts (bases deltas : Z * Z * Z) (rows : list (Z * (Z * Z * Z))).

(* timeouts grow with the round: each of the three strictly increases from one round to the next
   whenever its configured delta is positive (and never decreases) *)
Fixpoint grows (d : Z * Z * Z) (rows : list (Z * (Z * Z * Z))) : bool :=
  match rows with
  | (r1, (p1, v1, c1)) :: (((r2, (p2, v2, c2)) :: _) as rest) =>
    let '(dp, dv, dc) := d in
    (r1 <? r2) && (if 0 <? dp then p1 <? p2 else p1 <=? p2) && (if 0 <? dv then v1 <? v2 else v1 <=? v2)
    && (if 0 <? dc then c1 <? c2 else c1 <=? c2) && grows d rest
  | _ => true
  end.

(* the round a node was in at height h0 when synchrony began (0 if it was below h0) *)
Definition round_at_mark (steps : list (input * obs)) (mark : nat) (h0 : Z) : Z :=
  match nth_error steps (mark - 1) with
  | Some (_, o) => if o_h o =? h0 then o_r o else 0
  | None => 0
  end.

(* the commit round with which the node decided h0, if it did *)
Definition decided_round (steps : list (input * obs)) (h0 : Z) : option Z :=
  fold_left (fun acc io =>
      fold_left (fun a o => match o with ODecide h r _ => if h =? h0 then Some r else a | _ => a end)
                (o_outs (snd io)) acc) steps None.

Definition last_panicked (steps : list (input * obs)) : bool :=
  match rev steps with (_, o) :: _ => o_panic o | [] => false end.

Definition mism (b : bool) (code : N) : verdict := if b then V_ok else V_mismatch code.

Definition check (c : case) : verdict :=
  match c with
  | CSync vals skip ih props nodes marks h0 bound =>
    let start_round :=
      fold_left Z.max (map (fun nm => round_at_mark (snd (fst nm)) (snd nm) h0) (combine nodes marks)) 0 in
    let live :=
      forallb (fun nd => last_panicked (snd nd) ||
                 match decided_round (snd nd) h0 with
                 | Some r => r <=? start_round + bound
                 | None => false
                 end) nodes in
    first_of (viol live 1
              :: viol (agree (flat_map (fun nd => decisions (snd nd)) nodes)) 2
              :: flat_map (node_verdict vals skip ih props) nodes)
  | CTimeouts bases deltas rows =>
    let '(bp, bv, bc) := bases in
    let '(dp, dv, dc) := deltas in
    first_of [
      viol (grows deltas rows) 3;
      (* model: base + delta * round, in nanoseconds *)
      mism (forallb (fun row => let '(r, (p, v, c)) := row in
                       (p =? bp + dp * r) && (v =? bv + dv * r) && (c =? bc + dc * r)) rows) 14 ]
  end.
