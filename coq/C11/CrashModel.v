(* C11 — a crash between the point where a block is durably stored and evpool.Update, followed by
   the restart (F95).  No proofs here.

   state/execution.go ApplyBlock calls evpool.Update(state, block.Evidence) after the ABCI
   execution and the application's Commit; consensus has saved the block in the block store
   before ApplyBlock.  After a crash in between, the handshake (consensus/replay.go) re-applies the
   block with sm.EmptyEvidencePool{} and saves its state; the real pool's Update for that block
   never runs.  evidence.NewPool then loads that state and the pending evidence of its own DB.

   [crash_restart fx95 en p st evs]: the pool [p] as the crash left its database, [st] the state
   of the block that was stored (what NewPool loads), [evs] the evidence that block carries.
     fx95 = false  the unrepaired NewPool: new state, nothing else - evidence committed by the
                   block stays pending and has no committed marker;
     fx95 = true   the repaired NewPool (fixes/F95-*.diff) marks the evidence of the block at
                   state.LastBlockHeight as committed (and removes it from pending) before it
                   prunes and loads the pending list: on the database this is what the lost
                   Update would have done (without the consensus buffer, which is in memory and
                   died with the process), followed by the ordinary start. *)
From Coq Require Import List ZArith NArith Bool.
From TM Require Import Generated.Consts C11.Model.
Import ListNotations.
Open Scope Z_scope.

Definition crash_restart (fx95 : bool) (en : env) (p : pool) (st : pstate) (evs : list evidence)
  : pool :=
  if fx95 then restart (fst (update true en (set_buffer p []) st evs))
  else restart (set_state (set_buffer p []) st).
