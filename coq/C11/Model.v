(* C11 — Gallina transcription of the evidence pool:
     evidence/verify.go   verify, VerifyDuplicateVote, VerifyLightClientAttack, validateABCIEvidence,
                          getSignedHeader
     types/evidence.go    NewDuplicateVoteEvidence (vote ordering), ValidateBasic (both kinds),
                          GetByzantineValidators, ConflictingHeaderIsInvalid,
                          LightClientAttackEvidence.ABCI
     evidence/pool.go     NewPool (restart), AddEvidence, CheckEvidence, Update,
                          ReportConflictingVotes / processConsensusBuffer, markEvidenceAsCommitted,
                          removeExpiredPendingEvidence, isExpired, PendingEvidence / listEvidence
                          (byte budget), Size, removeEvidenceFromList (gossip list)
   No proofs here.

   Abstractions.  Hashes / addresses / block ids are opaque identities [N] (the harness prints a
   48-bit order preserving prefix).  Times are [Z] nanoseconds, durations [Z] nanoseconds.  An
   evidence carries its own database key material: [e_hash] (Evidence.Hash()) and its
   contribution [e_size] to tmproto.EvidenceList.Size().  Signature checks and the two commit
   verifications of light-client-attack evidence (VerifyCommitLightTrusting, VerifyCommitLight:
   property C07) are boolean oracles recorded in the evidence.  The chain (block store, state
   store) is an immutable environment [env].

   The pool is modelled WITH two repairs (see fixes/F4-*.diff, fixes/F24-*.diff); the booleans
   [fx4] / [fx24] of [step_gen] switch a repair off so that the unrepaired behaviour can be
   exhibited (Props.v: C11_unrepaired_*_refuted).  GetByzantineValidators is modelled WITH the
   repair F57 (fixes/F57-*.diff: the equivocation branch counts a validator only when BOTH commits
   carry its signature FOR the block and reports it as a member of the validator set of the
   evidence's height; the unrepaired code counted every slot that is not absent, i.e. also
   precommits for nil, whose signatures nobody verifies); [byz_validators_gen false] is
   the unrepaired function (Props.v: C11_unrepaired_F57_refuted).  VerifyLightClientAttack is
   modelled WITH the repair F57-2 (every signature for the conflicting block is verified). *)
From Coq Require Import List ZArith NArith Bool.
From TM Require Import Generated.Consts.
Import ListNotations.
Open Scope Z_scope.

(* ------------------------------------------------------------------ validator sets *)

Record valinfo := { va_addr : N; va_power : Z }.
Definition valset := list valinfo.

Definition vs_total (vs : valset) : Z := fold_right (fun v a => va_power v + a) 0 vs.
(* ValidatorSet.GetByAddress *)
Definition vs_get (vs : valset) (a : N) : option valinfo :=
  find (fun v => N.eqb (va_addr v) a) vs.

(* ------------------------------------------------------------------ evidence *)

Record vote := {
  v_type : Z; v_height : Z; v_round : Z;
  v_bid : N;            (* BlockID: equal ids <-> BlockID.Equals, order = order of BlockID.Key() *)
  v_addr : N;
  v_basic_ok : bool     (* Vote.ValidateBasic() == nil *)
}.

Record dve := {
  d_a : vote; d_b : vote;
  d_total : Z; d_power : Z; d_time : Z;
  (* oracles: pubkey of the validator registered under d_a's address at the evidence height
     verifies the signature of vote A / vote B over VoteSignBytes(chainID, vote) *)
  d_sig_a : bool; d_sig_b : bool
}.

(* one CommitSig of the conflicting commit.  [cs_ok] is an oracle the CODE never reads (it is used
   by the specification, Spec.v): the slot's address is the address of the validator with the
   same index in the conflicting validator set and its signature verifies under that
   validator's key over the commit's sign bytes for that index (false for an absent slot) *)
Record csig := { cs_flag : Z; cs_addr : N; cs_ok : bool }.

Record lca := {
  l_common : Z;                       (* CommonHeight *)
  l_height : Z; l_ctime : Z; l_chash : N;          (* conflicting header: height, time, hash *)
  l_vh : N; l_nvh : N; l_ch : N; l_ah : N; l_lrh : N;  (* its five derived hashes *)
  l_round : Z; l_sigs : list csig;    (* conflicting commit *)
  l_cvals : valset;                   (* conflicting validator set *)
  l_byz : option (list valinfo);      (* ByzantineValidators; None = nil slice *)
  l_total : Z; l_time : Z;
  l_trusting_ok : bool;   (* commonVals.VerifyCommitLightTrusting(chain, commit, 1/3) == nil *)
  l_light_ok : bool;      (* cvals.VerifyCommitLight(chain, commit.BlockID, height, commit) == nil *)
  l_basic_ok : bool       (* ConflictingBlock.ValidateBasic(chainID) == nil, header present *)
}.

Inductive evbody := EvDup (d : dve) | EvLca (l : lca).
Record evidence := { e_hash : N; e_size : Z; e_body : evbody }.

Definition e_height (e : evidence) : Z :=
  match e_body e with EvDup d => v_height (d_a d) | EvLca l => l_common l end.
Definition e_time (e : evidence) : Z :=
  match e_body e with EvDup d => d_time d | EvLca l => l_time l end.
Definition is_lca (e : evidence) : bool :=
  match e_body e with EvLca _ => true | _ => false end.

(* database key suffix "%0.16X/%X" (height, hash): ordered by height, then hash *)
Definition key := (Z * N)%type.
Definition e_key (e : evidence) : key := (e_height e, e_hash e).
Definition key_eqb (a b : key) : bool := (fst a =? fst b) && (snd a =? snd b)%N.
Definition key_ltb (a b : key) : bool :=
  (fst a <? fst b) || ((fst a =? fst b) && (snd a <? snd b)%N).

(* ------------------------------------------------------------------ ValidateBasic *)

Definition dve_validate_basic (d : dve) : bool :=
  v_basic_ok (d_a d) && v_basic_ok (d_b d) && (v_bid (d_a d) <? v_bid (d_b d))%N.

Definition lca_validate_basic (l : lca) : bool :=
  (0 <? l_total l) && (0 <? l_common l) && (l_common l <=? l_height l) && l_basic_ok l.

Definition validate_basic (e : evidence) : bool :=
  match e_body e with EvDup d => dve_validate_basic d | EvLca l => lca_validate_basic l end.

(* ------------------------------------------------------------------ chain environment *)

Record header := {
  h_time : Z; h_hash : N;
  h_vh : N; h_nvh : N; h_ch : N; h_ah : N; h_lrh : N;
  h_has_commit : bool;                 (* LoadBlockCommit(h) != nil *)
  h_round : Z; h_flags : list Z        (* its commit: round, per signature BlockIDFlag *)
}.

Record env := {
  en_meta : Z -> option header;        (* blockStore.LoadBlockMeta (+ LoadBlockCommit) *)
  en_vals : Z -> option valset;        (* stateDB.LoadValidators *)
  en_store_height : Z                  (* blockStore.Height() *)
}.

(* sm.State as far as the pool reads it *)
Record pstate := {
  s_height : Z; s_time : Z;            (* LastBlockHeight, LastBlockTime *)
  s_max_blocks : Z; s_max_dur : Z;     (* ConsensusParams.Evidence.MaxAgeNumBlocks / MaxAgeDuration *)
  s_lastvals : valset                  (* LastValidators *)
}.

(* isExpired: BOTH limits exceeded *)
Definition expired (st : pstate) (height time : Z) : bool :=
  (s_height st - height >? s_max_blocks st) && (s_time st - time >? s_max_dur st).
Definition ev_expired (st : pstate) (e : evidence) : bool := expired st (e_height e) (e_time e).

(* ------------------------------------------------------------------ VerifyDuplicateVote *)

Definition verify_dup (d : dve) (vs : valset) : bool :=
  match vs_get vs (v_addr (d_a d)) with
  | None => false
  | Some val =>
    if negb ((v_height (d_a d) =? v_height (d_b d)) && (v_round (d_a d) =? v_round (d_b d))
             && (v_type (d_a d) =? v_type (d_b d))) then false
    else if negb (v_addr (d_a d) =? v_addr (d_b d))%N then false
    else if (v_bid (d_a d) =? v_bid (d_b d))%N then false
    else if negb (va_power val =? d_power d) then false
    else if negb (vs_total vs =? d_total d) then false
    else if negb (d_sig_a d) then false
    else d_sig_b d
  end.

(* ------------------------------------------------------------------ light client attack *)

(* ConflictingHeaderIsInvalid *)
Definition header_invalid (l : lca) (t : header) : bool :=
  negb (h_vh t =? l_vh l)%N || negb (h_nvh t =? l_nvh l)%N || negb (h_ch t =? l_ch l)%N
  || negb (h_ah t =? l_ah l)%N || negb (h_lrh t =? l_lrh l)%N.

(* ValidatorsByVotingPower: power descending, then address ascending *)
Definition val_before (a b : valinfo) : bool :=
  (va_power b <? va_power a) || ((va_power a =? va_power b) && (va_addr a <? va_addr b)%N).
Fixpoint val_insert (v : valinfo) (l : list valinfo) : list valinfo :=
  match l with
  | [] => [v]
  | x :: r => if val_before x v then x :: val_insert v r else v :: l
  end.
Definition val_sort (l : list valinfo) : list valinfo := fold_right val_insert [] l.

Definition opt_list {A} (o : option A) : list A := match o with Some x => [x] | None => [] end.

(* GetByzantineValidators.  [fx57] = true: the repaired equivocation branch (ForBlock() on both
   sides, the validator looked up in the validator set of the evidence's height and skipped when
   unknown, as the lunatic branch does); false: the unrepaired one (!Absent() on both sides,
   looked up in the conflicting validator set; an unknown address yields a nil *Validator there,
   which validateABCIEvidence dereferences - not modelled, [opt_list] drops it). *)
Definition byz_validators_gen (fx57 : bool) (l : lca) (common_vals : valset) (t : header)
  : list valinfo :=
  if header_invalid l t then
    val_sort (flat_map (fun s => if cs_flag s =? block_id_flag_commit
                                 then opt_list (vs_get common_vals (cs_addr s)) else [])
                       (l_sigs l))
  else if h_round t =? l_round l then
    val_sort (flat_map (fun '(s, fb) =>
                          if fx57 then
                            if (cs_flag s =? block_id_flag_commit) && (fb =? block_id_flag_commit)
                            then opt_list (vs_get common_vals (cs_addr s)) else []
                          else
                            if negb (cs_flag s =? block_id_flag_absent)
                               && negb (fb =? block_id_flag_absent)
                            then opt_list (vs_get (l_cvals l) (cs_addr s)) else [])
                       (combine (l_sigs l) (h_flags t)))
  else [].
Definition byz_validators := byz_validators_gen true.

Definition valinfo_eqb (a b : valinfo) : bool :=
  (va_addr a =? va_addr b)%N && (va_power a =? va_power b).
Fixpoint vals_eqb (a b : list valinfo) : bool :=
  match a, b with
  | [], [] => true
  | x :: a', y :: b' => valinfo_eqb x y && vals_eqb a' b'
  | _, _ => false
  end.

(* validateABCIEvidence *)
Definition validate_abci (l : lca) (common_vals : valset) (t : header) : bool :=
  if negb (l_total l =? vs_total common_vals) then false else
  let vals := byz_validators l common_vals t in
  match vals, l_byz l with
  | [], Some _ => false                 (* "expected nil validators" (non-nil, even if empty) *)
  | _, None => match vals with [] => true | _ => false end
  | _, Some b => vals_eqb vals b
  end.

(* LightClientAttackEvidence.ABCI(): one abci.Evidence per listed validator
   (type, validator address, validator power, height, time, total voting power) *)
Definition abci_lca_type : Z := 2.    (* abci.EvidenceType_LIGHT_CLIENT_ATTACK *)
Definition abci_of (l : lca) : list (Z * N * Z * Z * Z * Z) :=
  map (fun v => (abci_lca_type, va_addr v, va_power v, l_common l, l_time l, l_total l))
      (match l_byz l with Some b => b | None => [] end).

(* repair F57-2 (fixes/F57-2-*.diff): every signature FOR the conflicting block is verified (slot
   address = the conflicting validator of that index, signature under its key), not only those
   the two commit checks read before they have tallied enough power - GetByzantineValidators
   reads all of them.  Without the repair this check is absent (the unrepaired code admits
   evidence naming a validator through a signature that is not its own; the harness generates
   such commits only with VERIF_C11_FORGED=1). *)
Definition sigs_for_block_ok (l : lca) : bool :=
  forallb (fun s => negb (cs_flag s =? block_id_flag_commit) || cs_ok s) (l_sigs l).

(* VerifyLightClientAttack; headers come with the height they were loaded for *)
Definition verify_lca (l : lca) (common trusted : Z * header) (common_vals : valset) : bool :=
  let '(ch, _) := common in
  let '(th, t) := trusted in
  if (if negb (ch =? l_height l) then negb (l_trusting_ok l) else header_invalid l t) then false
  else if negb (l_light_ok l) then false
  else if negb (sigs_for_block_ok l) then false        (* repair F57-2 *)
  else if negb (l_total l =? vs_total common_vals) then false
  else if (l_height l >? th) && (l_ctime l >? h_time t) then false
  else if (h_hash t =? l_chash l)%N then false
  else validate_abci l common_vals t.

(* getSignedHeader *)
Definition signed_header (en : env) (h : Z) : option (Z * header) :=
  match en_meta en h with
  | Some m => if h_has_commit m then Some (h, m) else None
  | None => None
  end.

(* Pool.verify *)
Definition verify (en : env) (st : pstate) (e : evidence) : bool :=
  match en_meta en (e_height e) with
  | None => false
  | Some bm =>
    if negb (e_time e =? h_time bm) then false
    else if (s_time st - h_time bm >? s_max_dur st) && (s_height st - e_height e >? s_max_blocks st)
    then false
    else match e_body e with
    | EvDup d =>
      match en_vals en (e_height e) with
      | None => false
      | Some vs => verify_dup d vs
      end
    | EvLca l =>
      match signed_header en (e_height e) with
      | None => false
      | Some common =>
        match en_vals en (e_height e) with
        | None => false
        | Some cvals =>
          let trusted :=
            if e_height e =? l_height l then Some common
            else match signed_header en (l_height l) with
                 | Some t => Some t
                 | None =>
                   match signed_header en (en_store_height en) with
                   | None => None
                   | Some t => if h_time (snd t) <? l_ctime l then None else Some t
                   end
                 end in
          match trusted with
          | None => false
          | Some t => verify_lca l common t cvals
          end
        end
      end
    end
  end.

(* ------------------------------------------------------------------ the pool *)

Record hint := { hi_hash : N; hi_size : Z; hi_sa : bool; hi_sb : bool }.

Record pool := {
  p_pending : list evidence;      (* pending key space, in key order *)
  p_committed : list key;         (* committed key space *)
  p_size : Z;                     (* evidenceSize *)
  p_buffer : list (vote * vote * hint);   (* consensusBuffer *)
  p_clist : list evidence;        (* evidenceList (gossip) *)
  p_st : pstate;
  p_prune_h : Z; p_prune_t : Z    (* pruningHeight, pruningTime *)
}.

Definition set_pending (p : pool) (l : list evidence) (sz : Z) : pool :=
  {| p_pending := l; p_committed := p_committed p; p_size := sz; p_buffer := p_buffer p;
     p_clist := p_clist p; p_st := p_st p; p_prune_h := p_prune_h p; p_prune_t := p_prune_t p |}.
Definition set_committed (p : pool) (c : list key) : pool :=
  {| p_pending := p_pending p; p_committed := c; p_size := p_size p; p_buffer := p_buffer p;
     p_clist := p_clist p; p_st := p_st p; p_prune_h := p_prune_h p; p_prune_t := p_prune_t p |}.
Definition set_clist (p : pool) (c : list evidence) : pool :=
  {| p_pending := p_pending p; p_committed := p_committed p; p_size := p_size p;
     p_buffer := p_buffer p; p_clist := c; p_st := p_st p; p_prune_h := p_prune_h p;
     p_prune_t := p_prune_t p |}.
Definition set_buffer (p : pool) (b : list (vote * vote * hint)) : pool :=
  {| p_pending := p_pending p; p_committed := p_committed p; p_size := p_size p;
     p_buffer := b; p_clist := p_clist p; p_st := p_st p; p_prune_h := p_prune_h p;
     p_prune_t := p_prune_t p |}.
Definition set_state (p : pool) (st : pstate) : pool :=
  {| p_pending := p_pending p; p_committed := p_committed p; p_size := p_size p;
     p_buffer := p_buffer p; p_clist := p_clist p; p_st := st; p_prune_h := p_prune_h p;
     p_prune_t := p_prune_t p |}.
Definition set_prune (p : pool) (ht : Z * Z) : pool :=
  {| p_pending := p_pending p; p_committed := p_committed p; p_size := p_size p;
     p_buffer := p_buffer p; p_clist := p_clist p; p_st := p_st p; p_prune_h := fst ht;
     p_prune_t := snd ht |}.

Definition has_key (k : key) (l : list evidence) : bool :=
  existsb (fun e => key_eqb (e_key e) k) l.
Definition is_pending (p : pool) (e : evidence) : bool := has_key (e_key e) (p_pending p).
Definition is_committed (p : pool) (e : evidence) : bool :=
  existsb (key_eqb (e_key e)) (p_committed p).

(* evidenceStore.Set(keyPending(ev), bytes): insert in key order, overwrite an equal key *)
Fixpoint ins (e : evidence) (l : list evidence) : list evidence :=
  match l with
  | [] => [e]
  | x :: r => if key_eqb (e_key x) (e_key e) then e :: r
              else if key_ltb (e_key e) (e_key x) then e :: l
              else x :: ins e r
  end.
(* evidenceStore.Delete(keyPending(ev)) *)
Definition del (k : key) (l : list evidence) : list evidence :=
  filter (fun e => negb (key_eqb (e_key e) k)) l.

(* addPendingEvidence: Set, then evidenceSize++ *)
Definition add_pending (p : pool) (e : evidence) : pool :=
  set_pending p (ins e (p_pending p)) (p_size p + 1).
(* removePendingEvidence: Delete, then evidenceSize-- *)
Definition remove_pending (p : pool) (e : evidence) : pool :=
  set_pending p (del (e_key e) (p_pending p)) (p_size p - 1).

(* removeEvidenceFromList: by evidence hash *)
Definition clist_remove (hs : list N) (cl : list evidence) : list evidence :=
  filter (fun e => negb (existsb (N.eqb (e_hash e)) hs)) cl.

(* ---- AddEvidence *)
Inductive add_result := AddedNew | IgnoredPending | IgnoredCommitted | RejectedInvalid.

Definition add_evidence (en : env) (p : pool) (e : evidence) : pool * add_result :=
  if is_pending p e then (p, IgnoredPending)
  else if is_committed p e then (p, IgnoredCommitted)
  else if negb (verify en (p_st p) e) then (p, RejectedInvalid)
  else let p1 := add_pending p e in
       (set_clist p1 (p_clist p1 ++ [e]), AddedNew).

(* ---- CheckEvidence.  [fx4]: do not Set/count again what is already pending *)
Fixpoint check_loop (fx4 : bool) (en : env) (seen : list N) (evs : list evidence) (p : pool)
  : pool * bool :=
  match evs with
  | [] => (p, true)
  | e :: r =>
    let dup (p' : pool) :=
      if existsb (N.eqb (e_hash e)) seen then (p', false)
      else check_loop fx4 en (e_hash e :: seen) r p' in
    if is_lca e || negb (is_pending p e) then
      if is_committed p e then (p, false)
      else if negb (verify en (p_st p) e) then (p, false)
      else dup (if fx4 && is_pending p e then p else add_pending p e)
    else dup p
  end.
Definition check_evidence (fx4 : bool) (en : env) (p : pool) (evs : list evidence) : pool * bool :=
  check_loop fx4 en [] evs p.

(* ---- removeExpiredPendingEvidence: walks the pending keys in order, deletes while expired,
   stops at the first item that is not *)
Fixpoint expired_prefix (st : pstate) (l : list evidence) : list evidence * list evidence :=
  match l with
  | [] => ([], [])
  | e :: r => if ev_expired st e
              then let '(a, b) := expired_prefix st r in (e :: a, b)
              else ([], l)
  end.

Definition second_ns : Z := 1000000000.

Definition remove_expired (p : pool) : pool :=
  let st := p_st p in
  let '(gone, rest) := expired_prefix st (p_pending p) in
  let p1 := set_pending p rest (p_size p - Z.of_nat (length gone)) in
  let p2 := set_clist p1 (clist_remove (map e_hash gone) (p_clist p1)) in
  set_prune p2 (match rest with
                | e :: _ => (e_height e + s_max_blocks st + 1, e_time e + s_max_dur st + second_ns)
                | [] => (s_height st, s_time st)
                end).

(* ---- markEvidenceAsCommitted *)
Fixpoint mark_loop (evs : list evidence) (p : pool) (hs : list N) : pool * list N :=
  match evs with
  | [] => (p, hs)
  | e :: r =>
    let '(p1, hs1) := if is_pending p e then (remove_pending p e, e_hash e :: hs) else (p, hs) in
    mark_loop r (set_committed p1 (e_key e :: p_committed p1)) hs1
  end.
Definition mark_committed (evs : list evidence) (p : pool) : pool :=
  let '(p1, hs) := mark_loop evs p [] in
  set_clist p1 (clist_remove hs (p_clist p1)).

(* ---- NewDuplicateVoteEvidence (vote ordering by BlockID key) *)
Definition new_dve (v1 v2 : vote) (time : Z) (vs : valset) (hi : hint) : option evidence :=
  match vs_get vs (v_addr v1) with
  | None => None
  | Some val =>
    let '(a, b) := if (v_bid v1 <? v_bid v2)%N then (v1, v2) else (v2, v1) in
    Some {| e_hash := hi_hash hi; e_size := hi_size hi;
            e_body := EvDup {| d_a := a; d_b := b; d_total := vs_total vs;
                               d_power := va_power val; d_time := time;
                               d_sig_a := hi_sa hi; d_sig_b := hi_sb hi |} |}
  end.

(* ---- processConsensusBuffer (state = the NEW state handed to Update) *)
Definition buffer_evidence (en : env) (st : pstate) (it : vote * vote * hint) : option evidence :=
  let '(va, vb, hi) := it in
  if v_height va =? s_height st then new_dve va vb (s_time st) (s_lastvals st) hi
  else if v_height va <? s_height st then
    match en_vals en (v_height va), en_meta en (v_height va) with
    | Some vs, Some m => new_dve va vb (h_time m) vs hi
    | _, _ => None
    end
  else None.

Fixpoint buffer_loop (en : env) (st : pstate) (b : list (vote * vote * hint)) (p : pool) : pool :=
  match b with
  | [] => p
  | it :: r =>
    buffer_loop en st r
      match buffer_evidence en st it with
      | None => p
      | Some e =>
        if is_pending p e then p
        else if is_committed p e then p
        else let p1 := add_pending p e in set_clist p1 (p_clist p1 ++ [e])
      end
  end.
Definition process_buffer (en : env) (st : pstate) (p : pool) : pool :=
  set_buffer (buffer_loop en st (p_buffer p) p) [].

(* ---- Update.  [fx24]: prune whenever something is pending (without the repair: only when the
   new state is beyond pruningHeight AND pruningTime) *)
Definition update (fx24 : bool) (en : env) (p : pool) (st : pstate) (evs : list evidence)
  : pool * bool :=
  if s_height st <=? s_height (p_st p) then (p, false)           (* panic *)
  else
    let p1 := process_buffer en st p in
    let p2 := set_state p1 st in
    let p3 := mark_committed evs p2 in
    (if (p_size p3 >? 0) &&
        (fx24 || ((s_height st >? p_prune_h p3) && (s_time st >? p_prune_t p3)))
     then remove_expired p3 else p3, true).

(* ---- ReportConflictingVotes *)
Definition report (p : pool) (va vb : vote) (hi : hint) : pool :=
  set_buffer p (p_buffer p ++ [(va, vb, hi)]).

(* ---- NewPool over the same database (state store holds the state of the last Update) *)
Definition restart (p : pool) : pool :=
  let p0 := set_clist (set_buffer p []) [] in
  let p1 := remove_expired p0 in
  let p2 := set_pending p1 (p_pending p1) (Z.of_nat (length (p_pending p1))) in
  set_clist p2 (p_pending p2).

Definition new_pool (st : pstate) : pool :=
  {| p_pending := []; p_committed := []; p_size := 0; p_buffer := []; p_clist := [];
     p_st := st; p_prune_h := s_height st; p_prune_t := s_time st |}.

(* ---- PendingEvidence(maxBytes) / listEvidence *)
Fixpoint take_budget (maxb acc : Z) (l : list evidence) : list evidence * Z :=
  match l with
  | [] => ([], acc)
  | e :: r =>
    let acc' := acc + e_size e in
    if negb (maxb =? -1) && (acc' >? maxb) then ([], acc)
    else let '(es, tot) := take_budget maxb acc' r in (e :: es, tot)
  end.
Definition pending_evidence (p : pool) (maxb : Z) : list evidence * Z :=
  if p_size p =? 0 then ([], 0) else take_budget maxb 0 (p_pending p).

(* ------------------------------------------------------------------ operations *)

Inductive op :=
| OpAdd (e : evidence)
| OpCheck (evs : list evidence)
| OpUpdate (st : pstate) (evs : list evidence)
| OpReport (va vb : vote) (hi : hint)
| OpRestart.

Definition step_gen (fx4 fx24 : bool) (en : env) (p : pool) (o : op) : pool :=
  match o with
  | OpAdd e => fst (add_evidence en p e)
  | OpCheck evs => fst (check_evidence fx4 en p evs)
  | OpUpdate st evs => fst (update fx24 en p st evs)
  | OpReport va vb hi => report p va vb hi
  | OpRestart => restart p
  end.

Definition step := step_gen true true.
Definition run (en : env) (p : pool) (ops : list op) : pool := fold_left (step en) ops p.
