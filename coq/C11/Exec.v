(* C11 — executable side of the correspondence check.  One case = one operation history of a real
   evidence.Pool (memdb evidence store, real state store and block store holding a generated
   chain), with what the implementation showed after every operation.  [check] (a) evaluates the
   clauses of the property on the implementation's own answers (V_violation) and (b) compares
   every observable with the model (V_mismatch).  Depends on Model.v and Spec.v (the specification
   of light client attack evidence; no proofs) only.

   Evidence is written once per case in a table; operations and observations refer to table
   indices (an evidence the harness cannot find in the table is printed as an out-of-range index). *)
From Coq Require Import List ZArith NArith Bool.
From TM Require Import Common.Hex Generated.Consts C11.Model C11.Spec C11.CrashModel.
Import ListNotations.
Open Scope Z_scope.

(* ------------------------------------------------------------------ case syntax *)

Definition valt := (N * Z)%type.
Definition votet := (Z * Z * Z * N * N * bool)%type.       (* type, height, round, bid, addr, basic *)
Inductive evt :=
| TDup (hash : N) (size : Z) (a b : votet) (total power time : Z) (sa sb : bool)
(* sigs: BlockIDFlag, address, "genuine" (address of the conflicting validator of that index and a
   signature verifying under its key); abci: what ABCI() returns (type, validator address,
   validator power, height, time, total voting power); specl: the harness's own Go transcription
   of the specification says ByzantineValidators is the specified list *)
| TLca (hash : N) (size : Z) (common height ctime : Z) (chash : N) (hs : list N) (round : Z)
       (sigs : list (Z * N * bool)) (cvals : list valt) (byz : option (list valt)) (total time : Z)
       (trusting light basic : bool) (abci : list (Z * N * Z * Z * Z * Z)) (specl : bool).
(* height, time, hash, five hashes, has commit, commit round, BlockIDFlags, validators *)
Definition hdrt := (Z * Z * N * list N * bool * Z * list Z * list valt)%type.
Definition stt := (Z * Z * Z * Z * list valt)%type.   (* height, time, max blocks, max dur, last vals *)

Inductive xop :=
| XAdd (i : nat) (res : Z)                 (* 0 nil, 1 *ErrInvalidEvidence, 2 other error, 3 panic *)
| XCheck (l : list nat) (res : Z)          (* 0 nil, 1 error, 3 panic *)
| XUpdate (st : stt) (l : list nat) (res : Z)  (* 0 returned, 3 panicked *)
| XReport (va vb : votet) (expect : nat)   (* table index of the evidence these votes must become *)
| XRestart
| XCrash (st : stt) (l : list nat)        (* block carrying l stored and its state saved (handshake
                                            replay with EmptyEvidencePool), evpool.Update never ran,
                                            then NewPool over the same databases *)
| XPending (maxb : Z) (res : list nat) (total : Z).
Inductive obs := Obs (pend : list nat) (size : Z) (clist : list nat).

Inductive case :=
| CHist (chain : list hdrt) (store_height : Z) (st0 : stt) (tbl : list evt) (vbs : list bool)
        (steps : list (xop * obs)).

(* ------------------------------------------------------------------ decoding *)

Definition mk_val (v : valt) : valinfo := {| va_addr := fst v; va_power := snd v |}.
Definition mk_vote (v : votet) : vote :=
  let '(t, h, r, b, a, ok) := v in
  {| v_type := t; v_height := h; v_round := r; v_bid := b; v_addr := a; v_basic_ok := ok |}.
Definition nthN (l : list N) (i : nat) : N := nth i l 0%N.
Definition mk_ev (t : evt) : evidence :=
  match t with
  | TDup hash size a b total power time sa sb =>
    {| e_hash := hash; e_size := size;
       e_body := EvDup {| d_a := mk_vote a; d_b := mk_vote b; d_total := total; d_power := power;
                          d_time := time; d_sig_a := sa; d_sig_b := sb |} |}
  | TLca hash size common height ctime chash hs round sigs cvals byz total time tr li ba _ _ =>
    {| e_hash := hash; e_size := size;
       e_body := EvLca {| l_common := common; l_height := height; l_ctime := ctime;
                          l_chash := chash; l_vh := nthN hs 0; l_nvh := nthN hs 1;
                          l_ch := nthN hs 2; l_ah := nthN hs 3; l_lrh := nthN hs 4;
                          l_round := round;
                          l_sigs := map (fun s => let '(f, a, ok) := s in
                                                 {| cs_flag := f; cs_addr := a; cs_ok := ok |}) sigs;
                          l_cvals := map mk_val cvals;
                          l_byz := option_map (map mk_val) byz;
                          l_total := total; l_time := time;
                          l_trusting_ok := tr; l_light_ok := li; l_basic_ok := ba |} |}
  end.
Definition abci_obs (t : evt) : list (Z * N * Z * Z * Z * Z) :=
  match t with TLca _ _ _ _ _ _ _ _ _ _ _ _ _ _ _ _ abci _ => abci | _ => [] end.
Definition specl_obs (t : evt) : option bool :=
  match t with TLca _ _ _ _ _ _ _ _ _ _ _ _ _ _ _ _ _ b => Some b | _ => None end.
Definition mk_hdr (t : hdrt) : Z * header * valset :=
  let '(h, time, hash, hs, hc, round, ab, vals) := t in
  (h, {| h_time := time; h_hash := hash; h_vh := nthN hs 0; h_nvh := nthN hs 1; h_ch := nthN hs 2;
         h_ah := nthN hs 3; h_lrh := nthN hs 4; h_has_commit := hc; h_round := round;
         h_flags := ab |}, map mk_val vals).
Definition mk_st (t : stt) : pstate :=
  let '(h, time, mb, md, lv) := t in
  {| s_height := h; s_time := time; s_max_blocks := mb; s_max_dur := md;
     s_lastvals := map mk_val lv |}.

Definition mk_env (chain : list hdrt) (sh : Z) : env :=
  let c := map mk_hdr chain in
  {| en_meta := fun h => option_map (fun x => snd (fst x)) (find (fun x => fst (fst x) =? h) c);
     en_vals := fun h => option_map snd (find (fun x => fst (fst x) =? h) c);
     en_store_height := sh |}.

Definition dummy_ev : evidence :=
  {| e_hash := 0; e_size := 0;
     e_body := EvDup {| d_a := mk_vote (0, 0, 0, 0%N, 0%N, false);
                        d_b := mk_vote (0, 0, 0, 0%N, 0%N, false);
                        d_total := 0; d_power := 0; d_time := 0; d_sig_a := false;
                        d_sig_b := false |} |}.
Definition evof (tbl : list evidence) (i : nat) : evidence := nth i tbl dummy_ev.

(* ------------------------------------------------------------------ helpers *)

Definition mism (b : bool) (code : N) : verdict := if b then V_ok else V_mismatch code.
Definition viol (b : bool) (clause : N) : verdict := if b then V_ok else V_violation clause.

Fixpoint list_eqb {A} (eqb : A -> A -> bool) (a b : list A) : bool :=
  match a, b with
  | [], [] => true
  | x :: a', y :: b' => eqb x y && list_eqb eqb a' b'
  | _, _ => false
  end.
Fixpoint nodupN (l : list N) : bool :=
  match l with [] => true | x :: r => negb (existsb (N.eqb x) r) && nodupN r end.
Fixpoint is_prefix (a b : list nat) : bool :=
  match a, b with
  | [], _ => true
  | x :: a', y :: b' => Nat.eqb x y && is_prefix a' b'
  | _, [] => false
  end.

Definition vote_eqb (a b : vote) : bool :=
  (v_type a =? v_type b) && (v_height a =? v_height b) && (v_round a =? v_round b)
  && (v_bid a =? v_bid b)%N && (v_addr a =? v_addr b)%N.
(* projection of an evidence compared between model and implementation *)
Definition ev_eqb (x y : evidence) : bool :=
  (e_hash x =? e_hash y)%N && (e_size x =? e_size y) && (e_height x =? e_height y)
  && (e_time x =? e_time y)
  && match e_body x, e_body y with
     | EvDup a, EvDup b => vote_eqb (d_a a) (d_a b) && vote_eqb (d_b a) (d_b b)
                           && (d_total a =? d_total b) && (d_power a =? d_power b)
     | EvLca a, EvLca b => (l_total a =? l_total b)
     | _, _ => false
     end.

Definition keys_of (tbl : list evidence) (l : list nat) : list key := map (fun i => e_key (evof tbl i)) l.
Definition kmem (k : key) (l : list key) : bool := existsb (key_eqb k) l.

(* ------------------------------------------------------------------ the reference notion of
   validity used by the monitors, written as one conjunction (duplicate votes); light client
   attacks are judged by the model's verify *)
Definition dup_valid_spec (en : env) (st : pstate) (e : evidence) (d : dve) : bool :=
  match en_meta en (e_height e), en_vals en (e_height e) with
  | Some m, Some vs =>
    match vs_get vs (v_addr (d_a d)) with
    | Some val =>
      (d_time d =? h_time m)                                   (* evidence time = block time *)
      && negb (ev_expired st e)                                (* not expired by BOTH limits *)
      && (v_height (d_a d) =? v_height (d_b d)) && (v_round (d_a d) =? v_round (d_b d))
      && (v_type (d_a d) =? v_type (d_b d)) && (v_addr (d_a d) =? v_addr (d_b d))%N
      && negb (v_bid (d_a d) =? v_bid (d_b d))%N               (* different blocks *)
      && (d_power d =? va_power val) && (d_total d =? vs_total vs)
      && d_sig_a d && d_sig_b d
    | None => false
    end
  | _, _ => false
  end.
Definition valid_spec (en : env) (st : pstate) (e : evidence) : bool :=
  match e_body e with
  | EvDup d => dup_valid_spec en st e d
  | EvLca _ => verify en st e && negb (ev_expired st e)
  end.

(* the SPECIFICATION's verdict on an evidence (Spec.v for light client attacks; the Go-level
   non-nil empty list, which the code always refuses, is left out of the completeness clause) *)
Definition spec_valid (en : env) (st : pstate) (e : evidence) : bool :=
  match e_body e with
  | EvDup d => dup_valid_spec en st e d
  | EvLca l => lca_valid en st l && negb (empty_not_nil l)
  end.
(* the listed byzantine validators and the total power are the specified ones *)
Definition lca_listed_ok (en : env) (e : evidence) : bool :=
  match e_body e with
  | EvDup _ => true
  | EvLca l => byz_ok_on_chain en l (claimed_of l)
               && match en_vals en (l_common l) with
                  | Some vals => l_total l =? vs_total vals
                  | None => false
                  end
  end.
Definition lca_abci_ok (en : env) (e : evidence) (ab : list (Z * N * Z * Z * Z * Z)) : bool :=
  match e_body e with
  | EvDup _ => true
  | EvLca l => abci_ok en l ab
  end.
(* kind of attack the specification sees in a light client attack evidence (selects the clause
   number reported): 0 lunatic, 1 equivocation, 2 amnesia / no block to compare with; 3 not a
   light client attack *)
Definition kind_code (en : env) (e : evidence) : N :=
  match e_body e with
  | EvDup _ => 3%N
  | EvLca l =>
    match reference en l with
    | Some (_, t) => match classify l t with Lunatic => 0 | Equivocation => 1 | Amnesia => 2 end%N
    | None => 2%N
    end
  end.
Definition first_bad (f : nat -> bool) (l : list nat) : option nat := find (fun j => negb (f j)) l.
Definition abci_eqb (a b : Z * N * Z * Z * Z * Z) : bool :=
  let '(t1, a1, p1, h1, m1, w1) := a in
  let '(t2, a2, p2, h2, m2, w2) := b in
  (t1 =? t2) && (a1 =? a2)%N && (p1 =? p2) && (h1 =? h2) && (m1 =? m2) && (w1 =? w2).

(* ------------------------------------------------------------------ the run *)

(* monitor state: the state last handed to Update, the previous pending observation, everything
   committed so far (from the harness's own operation log), reports not yet flushed *)
Record mon := {
  m_st : pstate; m_pend : list nat; m_committed : list key; m_reports : list (Z * nat)
}.

Definition add_code (r : add_result) : Z :=
  match r with RejectedInvalid => 1 | _ => 0 end.

Definition obs_pend (o : obs) := let '(Obs p _ _) := o in p.
Definition obs_size (o : obs) := let '(Obs _ s _) := o in s.
Definition obs_clist (o : obs) := let '(Obs _ _ c) := o in c.

Definition sum_sizes (tbl : list evidence) (l : list nat) : Z :=
  fold_right (fun i a => e_size (evof tbl i) + a) 0 l.

Definition step_check (en : env) (tbl : list evidence) (abs : list (list (Z * N * Z * Z * Z * Z)))
           (p : pool) (m : mon) (x : xop) (o : obs)
  : pool * mon * list verdict :=
  let abof (i : nat) := nth i abs [] in
  let pend := obs_pend o in
  let prevk := keys_of tbl (m_pend m) in
  let newk := keys_of tbl pend in
  let fresh := filter (fun i => negb (kmem (e_key (evof tbl i)) prevk)) pend in
  let gone := filter (fun i => negb (kmem (e_key (evof tbl i)) newk)) (m_pend m) in
  (* what the model does *)
  let '(p', res_m, extra) :=
    match x with
    | XAdd i _ => let '(q, r) := add_evidence en p (evof tbl i) in (q, add_code r, [])
    | XCheck l _ => let '(q, ok) := check_evidence true en p (map (evof tbl) l) in
                    (q, if ok then 0 else 1, [])
    | XUpdate st l _ => let '(q, ok) := update true en p (mk_st st) (map (evof tbl) l) in
                        (q, if ok then 0 else 3, [])
    | XReport va vb ex =>
      let e := evof tbl ex in
      (report p (mk_vote va) (mk_vote vb)
              {| hi_hash := e_hash e; hi_size := e_size e;
                 hi_sa := match e_body e with EvDup d => d_sig_a d | _ => false end;
                 hi_sb := match e_body e with EvDup d => d_sig_b d | _ => false end |}, 0, [])
    | XRestart => (restart p, 0, [])
    | XCrash st l => (crash_restart true en p (mk_st st) (map (evof tbl) l), 0, [])
    | XPending maxb res total =>
      let '(l, t) := pending_evidence p maxb in
      (p, 0, [mism (list_eqb ev_eqb l (map (evof tbl) res)) 25; mism (t =? total) 26])
    end in
  let res_i := match x with
               | XAdd _ r => r | XCheck _ r => r | XUpdate _ _ r => r | _ => 0 end in
  (* the monitor's own bookkeeping *)
  let st' := match x with XUpdate st _ 0 => mk_st st | XCrash st _ => mk_st st | _ => m_st m end in
  let committed' := match x with
                    | XUpdate _ l 0 => keys_of tbl l ++ m_committed m
                    | XCrash _ l => keys_of tbl l ++ m_committed m
                    | _ => m_committed m end in
  let reports' := match x with
                  | XReport va _ ex => m_reports m ++ [(v_height (mk_vote va), ex)]
                  | XUpdate _ _ 0 => []
                  | XRestart => []
                  | XCrash _ _ => []
                  | _ => m_reports m end in
  let st := m_st m in
  let admitted_ok (i : nat) :=
    let e := evof tbl i in valid_spec en st e && negb (kmem (e_key e) (m_committed m)) in
  (* light client attack evidence: what entered the pool / was accepted in a block lists exactly
     the specified byzantine validators, and ABCI() reports exactly those *)
  let listed (l : list nat) : verdict :=        (* clauses 11 / 12 / 13 by kind of attack *)
    match first_bad (fun j => lca_listed_ok en (evof tbl j)) l with
    | None => V_ok
    | Some j => V_violation (11 + kind_code en (evof tbl j))
    end in
  let reported_ok (l : list nat) :=
    forallb (fun j => lca_abci_ok en (evof tbl j) (abof j)) l in
  let uncommitted (i : nat) := negb (kmem (e_key (evof tbl i)) (m_committed m)) in
  let refused (ok : bool) (l : list nat) : verdict :=   (* clauses 15 / 16 / 17 / 18 *)
    if ok then V_ok
    else V_violation (15 + match find (fun j => is_lca (evof tbl j)) l with
                           | Some j => kind_code en (evof tbl j)
                           | None => 3
                           end) in
  let monitors :=
    [ (* size = number of pending items *)
      viol (obs_size o =? Z.of_nat (length pend)) 8;
      (* evidence committed by an Update (this one included) is not pending after any operation,
         in particular not after the next Update has processed the votes consensus reported *)
      viol (forallb (fun i => negb (kmem (e_key (evof tbl i)) committed')) pend) 19;
      (* pending evidence leaves only by being committed or by expiring under both limits *)
      viol (forallb (fun i => let e := evof tbl i in
                       match x with
                       | XUpdate _ l 0 => kmem (e_key e) (keys_of tbl l) || ev_expired st' e
                       | XRestart => ev_expired st' e
                       | XCrash _ l => kmem (e_key e) (keys_of tbl l) || ev_expired st' e
                       | _ => false
                       end) gone) 9 ] ++
    match x with
    | XAdd i r =>
      [ listed fresh;
        viol (reported_ok fresh) 14;
        (* valid evidence that was not committed is not refused and is pending afterwards *)
        refused (negb (spec_valid en st (evof tbl i) && uncommitted i)
                 || ((r =? 0) && kmem (e_key (evof tbl i)) newk)) [i];
        viol (forallb (fun j => Nat.eqb j i || kmem (e_key (evof tbl j)) [e_key (evof tbl i)]) fresh
              && forallb admitted_ok fresh) 1 ]
    | XCheck l r =>
      [ listed (fresh ++ (if r =? 0 then l else []));
        viol (reported_ok fresh && (negb (r =? 0) || reported_ok l)) 14;
        (* a list of distinct, valid, uncommitted evidence is not refused *)
        refused (negb (forallb (fun i => spec_valid en st (evof tbl i) && uncommitted i) l
                       && nodupN (map (fun i => e_hash (evof tbl i)) l))
                 || (r =? 0)) l;
        viol (forallb (fun j => kmem (e_key (evof tbl j)) (keys_of tbl l)) fresh
              && forallb admitted_ok fresh) 1;
        viol (negb (r =? 0) || nodupN (map (fun i => e_hash (evof tbl i)) l)) 3;
        viol (negb (r =? 0)
              || forallb (fun i => negb (kmem (e_key (evof tbl i)) (m_committed m))) l) 4;
        viol (negb (r =? 0) || forallb (fun i => negb (ev_expired st (evof tbl i))) l) 5;
        viol (negb (r =? 0) || forallb (fun i => valid_spec en st (evof tbl i)) l) 2 ]
    | XUpdate _ l r =>
      if r =? 0 then
        [ (* only reported votes enter the pool here *)
          viol (forallb (fun j => existsb (fun hr => kmem (e_key (evof tbl j)) [e_key (evof tbl (snd hr))])
                                          (m_reports m)) fresh) 1;
          (* reported conflicting votes of a decided height are now pending (or already
             committed, or already expired) *)
          viol (forallb (fun hr =>
                  let e := evof tbl (snd hr) in
                  (s_height st' <? fst hr) || kmem (e_key e) newk || kmem (e_key e) committed'
                  || ev_expired st' e) (m_reports m)) 6 ]
      else [ viol (match fresh with [] => true | _ => false end) 1 ]
    | XRestart =>
      [ viol (match fresh with [] => true | _ => false end) 7;
        viol (forallb (fun i => kmem (e_key (evof tbl i)) newk || ev_expired st (evof tbl i))
                      (m_pend m)) 7 ]
    | XCrash _ _ => [ viol (match fresh with [] => true | _ => false end) 7 ]
    | XReport _ _ _ => [ viol (match fresh with [] => true | _ => false end) 1 ]
    | XPending maxb res total =>
      [ viol (match fresh with [] => true | _ => false end) 1;
        viol (is_prefix res pend
              && (total =? sum_sizes tbl res)
              && ((maxb =? -1) || (total <=? maxb))
              && ((Nat.eqb (length res) (length pend)) || (obs_size o =? 0)
                  || (negb (maxb =? -1)
                      && (total + e_size (evof tbl (nth (length res) pend 0%nat)) >? maxb)))) 10 ]
    end in
  let compare :=
    [ mism (res_m =? res_i) 21;
      mism (list_eqb ev_eqb (p_pending p') (map (evof tbl) pend)) 22;
      mism (p_size p' =? obs_size o) 23;
      mism (list_eqb ev_eqb (p_clist p') (map (evof tbl) (obs_clist o))) 24 ] ++ extra in
  (p', {| m_st := st'; m_pend := pend; m_committed := committed'; m_reports := reports' |},
   monitors ++ compare).

Fixpoint run_steps (en : env) (tbl : list evidence) (abs : list (list (Z * N * Z * Z * Z * Z)))
         (p : pool) (m : mon) (steps : list (xop * obs)) : list verdict :=
  match steps with
  | [] => []
  | (x, o) :: r =>
    let '(p', m', vs) := step_check en tbl abs p m x o in
    vs ++ run_steps en tbl abs p' m' r
  end.

(* per table entry: the model's ABCI() against the implementation's; the harness's Go
   transcription of the specification against Spec.v *)
Definition table_checks (en : env) (tblt : list evt) : list verdict :=
  flat_map (fun t =>
    match e_body (mk_ev t) with
    | EvLca l =>
      [ mism (list_eqb abci_eqb (abci_of l) (abci_obs t)) 31;
        mism (match specl_obs t with
              | Some b => Bool.eqb b (lca_listed_ok en (mk_ev t))
              | None => true
              end) 32 ]
    | EvDup _ => []
    end) tblt.

Definition check (c : case) : verdict :=
  match c with
  | CHist chain sh st0 tblt vbs steps =>
    let en := mk_env chain sh in
    let tbl := map mk_ev tblt in
    let st := mk_st st0 in
    first_of
      (mism (list_eqb Bool.eqb (map validate_basic tbl) vbs) 30 ::
       table_checks en tblt ++
       run_steps en tbl (map abci_obs tblt) (new_pool st)
                 {| m_st := st; m_pend := []; m_committed := []; m_reports := [] |} steps)
  end.
