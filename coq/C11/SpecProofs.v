(* C11 — the model of GetByzantineValidators / validateABCIEvidence / VerifyLightClientAttack /
   Pool.verify (Model.v) against the specification of light client attack evidence (Spec.v). *)
From Coq Require Import List ZArith NArith Bool Lia.
From TM Require Import Generated.Consts C11.Model C11.Spec.
Import ListNotations.
Open Scope Z_scope.

(* ------------------------------------------------------------------ the order *)

Lemma outranks_spec : forall a b,
  outranks a b = true <->
  (va_power a > va_power b \/ (va_power a = va_power b /\ (va_addr a < va_addr b)%N)).
Proof.
  intros a b. unfold outranks. rewrite orb_true_iff, andb_true_iff, Z.gtb_ltb, Z.ltb_lt,
    Z.eqb_eq, N.ltb_lt. lia.
Qed.

Lemma outranks_val_before : forall a b, val_before a b = outranks a b.
Proof. intros a b. unfold val_before, outranks. rewrite Z.gtb_ltb. reflexivity. Qed.

Lemma outranks_irrefl : forall a, outranks a a = false.
Proof.
  intro a. destruct (outranks a a) eqn:E; auto. apply outranks_spec in E. lia.
Qed.

Lemma outranks_trans : forall a b c,
  outranks a b = true -> outranks b c = true -> outranks a c = true.
Proof. intros a b c H1 H2. apply outranks_spec in H1, H2. apply outranks_spec. lia. Qed.

Lemma outranks_asym : forall a b, outranks a b = true -> outranks b a = true -> False.
Proof. intros a b H1 H2. apply outranks_spec in H1, H2. lia. Qed.

Lemma valinfo_eq : forall a b, va_addr a = va_addr b -> va_power a = va_power b -> a = b.
Proof. intros [a1 p1] [a2 p2]; cbn; intros; subst; reflexivity. Qed.

Lemma outranks_total : forall a b, a <> b -> outranks a b = true \/ outranks b a = true.
Proof.
  intros a b NE. rewrite !outranks_spec.
  destruct (Z.eq_dec (va_power a) (va_power b)) as [E | E]; [|lia].
  destruct (N.eq_dec (va_addr a) (va_addr b)) as [E2 | E2]; [|lia].
  exfalso. apply NE. apply valinfo_eq; auto.
Qed.

Lemma same_val_eq : forall a b, same_val a b = true <-> a = b.
Proof.
  intros a b. unfold same_val. rewrite andb_true_iff, N.eqb_eq, Z.eqb_eq. split.
  - intros [A B]. apply valinfo_eq; auto.
  - intros ->. auto.
Qed.

Lemma mem_val_In : forall v l, mem_val v l = true <-> In v l.
Proof.
  intros v l. unfold mem_val. rewrite existsb_exists. split.
  - intros [x [Hx E]]. apply same_val_eq in E. subst. auto.
  - intro H. exists v. split; auto. apply same_val_eq. reflexivity.
Qed.

Lemma memN_In : forall a l, memN a l = true <-> In a l.
Proof.
  intros a l. unfold memN. rewrite existsb_exists. split.
  - intros [x [Hx E]]. apply N.eqb_eq in E. subst. auto.
  - intro H. exists a. split; auto. apply N.eqb_refl.
Qed.

Lemma ranked_cons : forall a l,
  ranked (a :: l) = true <-> (forall x, In x l -> outranks a x = true) /\ ranked l = true.
Proof.
  intros a l. revert a. induction l as [|b r IH]; intro a.
  - cbn. split; [intros _; split; [intros x []|reflexivity] | reflexivity].
  - change (ranked (a :: b :: r)) with (outranks a b && ranked (b :: r)).
    rewrite andb_true_iff. split.
    + intros [H1 H2]. split; auto. intros x [<- | Hx]; auto.
      apply IH in H2 as [H2 _]. eapply outranks_trans; eauto.
    + intros [H1 H2]. split; auto. apply H1. left. reflexivity.
Qed.

(* two strictly ordered lists with the same elements are the same list *)
Lemma ranked_ext : forall a b,
  ranked a = true -> ranked b = true -> (forall v, In v a <-> In v b) -> a = b.
Proof.
  induction a as [|x a IH]; intros [|y b] Ra Rb E.
  - reflexivity.
  - exfalso. apply (E y). left. reflexivity.
  - exfalso. apply (E x). left. reflexivity.
  - apply ranked_cons in Ra as [Ra1 Ra2]. apply ranked_cons in Rb as [Rb1 Rb2].
    assert (x = y) as ->.
    { destruct (proj1 (E x) (or_introl eq_refl)) as [-> | Hx]; auto.
      destruct (proj2 (E y) (or_introl eq_refl)) as [<- | Hy]; auto.
      exfalso. apply (outranks_asym x y); auto. }
    f_equal. apply IH; auto. intro v. split; intro Hv.
    + destruct (proj1 (E v) (or_intror Hv)) as [<- | H]; auto.
      exfalso. specialize (Ra1 _ Hv). rewrite outranks_irrefl in Ra1. discriminate.
    + destruct (proj2 (E v) (or_intror Hv)) as [<- | H]; auto.
      exfalso. specialize (Rb1 _ Hv). rewrite outranks_irrefl in Rb1. discriminate.
Qed.

(* ------------------------------------------------------------------ byz_ok determines the list *)

Lemma byz_ok_iff : forall l vals tvals t claimed,
  byz_ok l vals tvals t claimed = true <->
  ranked claimed = true /\
  (forall v, In v claimed <-> In v vals /\ blamed l tvals t v = true).
Proof.
  intros l vals tvals t claimed. unfold byz_ok.
  rewrite !andb_true_iff, !forallb_forall. split.
  - intros [[R A] B]. split; auto. intro v. split.
    + intro Hv. specialize (A v Hv). apply andb_true_iff in A as [A1 A2].
      apply mem_val_In in A1. auto.
    + intros [Hv Bl]. specialize (B v Hv). rewrite Bl in B. cbn in B. apply mem_val_In; auto.
  - intros [R E]. repeat split; auto.
    + intros v Hv. apply E in Hv as [H1 H2]. rewrite H2, andb_true_r. apply mem_val_In; auto.
    + intros v Hv. destruct (blamed l tvals t v) eqn:Bl; cbn; auto.
      apply mem_val_In. apply E. auto.
Qed.

Lemma byz_ok_unique : forall l vals tvals t a b,
  byz_ok l vals tvals t a = true -> byz_ok l vals tvals t b = true -> a = b.
Proof.
  intros l vals tvals t a b Ha Hb. apply byz_ok_iff in Ha as [Ra Ea], Hb as [Rb Eb].
  apply ranked_ext; auto. intro v. rewrite Ea, Eb. tauto.
Qed.

(* ------------------------------------------------------------------ val_sort *)

Lemma val_insert_In : forall v l x, In x (val_insert v l) <-> x = v \/ In x l.
Proof.
  intros v l x. induction l as [|y r IH]; cbn.
  - intuition.
  - destruct (val_before y v); cbn; rewrite ?IH; intuition.
Qed.

Lemma val_sort_In : forall l x, In x (val_sort l) <-> In x l.
Proof.
  induction l as [|y r IH]; intro x; cbn.
  - tauto.
  - unfold val_sort in *. cbn. rewrite val_insert_In, IH. intuition.
Qed.

Lemma val_insert_ranked : forall v l,
  ranked l = true -> ~ In v l -> ranked (val_insert v l) = true.
Proof.
  intros v l. induction l as [|y r IH]; intros R NI.
  - reflexivity.
  - cbn [val_insert]. apply ranked_cons in R as [R1 R2].
    destruct (val_before y v) eqn:B.
    + apply ranked_cons. split.
      * intros x Hx. apply val_insert_In in Hx as [-> | Hx]; auto.
        rewrite <- outranks_val_before. exact B.
      * apply IH; auto. intro H. apply NI. right. exact H.
    + assert (V : outranks v y = true).
      { destruct (outranks_total v y) as [H | H]; auto.
        - intros ->. apply NI. left. reflexivity.
        - rewrite <- outranks_val_before, B in H. discriminate. }
      apply ranked_cons. split.
      * intros x [<- | Hx]; auto. eapply outranks_trans; eauto.
      * apply ranked_cons. split; auto.
Qed.

Lemma val_sort_ranked : forall l, NoDup l -> ranked (val_sort l) = true.
Proof.
  induction l as [|y r IH]; intro ND.
  - reflexivity.
  - inversion ND; subst. unfold val_sort in *. cbn. apply val_insert_ranked.
    + apply IH; auto.
    + intro H. apply (proj1 (val_sort_In r y)) in H. contradiction.
Qed.

(* ------------------------------------------------------------------ validator sets *)

Lemma vs_get_some : forall vs a v, vs_get vs a = Some v -> In v vs /\ va_addr v = a.
Proof.
  intros vs a v H. unfold vs_get in H. apply find_some in H as [H1 H2].
  apply N.eqb_eq in H2. auto.
Qed.

Lemma vs_get_nodup : forall vs v,
  NoDup (map va_addr vs) -> In v vs -> vs_get vs (va_addr v) = Some v.
Proof.
  induction vs as [|x r IH]; intros v ND Hv; [destruct Hv|].
  cbn in ND. inversion ND as [|? ? NI ND']; subst. unfold vs_get. cbn.
  destruct (N.eqb (va_addr x) (va_addr v)) eqn:E.
  - destruct Hv as [-> | Hv]; auto. exfalso. apply NI. apply N.eqb_eq in E. rewrite E.
    apply in_map. exact Hv.
  - destruct Hv as [-> | Hv]; [rewrite N.eqb_refl in E; discriminate|]. apply IH; auto.
Qed.

Lemma nodup_addr_inj : forall vs a b,
  NoDup (map va_addr vs) -> In a vs -> In b vs -> va_addr a = va_addr b -> a = b.
Proof.
  intros vs a b ND Ha Hb E. pose proof (vs_get_nodup vs a ND Ha) as H1.
  pose proof (vs_get_nodup vs b ND Hb) as H2. rewrite E in H1. congruence.
Qed.

(* a keyed list looked up in a validator set: no key twice => no validator twice *)
Lemma lookup_nodup : forall (X : Type) (key : X -> N) (P : X -> bool) vals (xs : list X),
  NoDup (map key (filter P xs)) ->
  NoDup (flat_map (fun x => if P x then opt_list (vs_get vals (key x)) else []) xs).
Proof.
  intros X key P vals xs. induction xs as [|x r IH]; intro ND; cbn.
  - constructor.
  - cbn in ND. destruct (P x) eqn:Px.
    + cbn in ND. inversion ND as [|? ? NI ND']; subst.
      destruct (vs_get vals (key x)) as [v|] eqn:G; cbn; auto.
      constructor; auto. intro H. apply in_flat_map in H as [y [Hy Hv]].
      destruct (P y) eqn:Py; [|destruct Hv].
      destruct (vs_get vals (key y)) as [w|] eqn:G2; cbn in Hv; [|destruct Hv].
      destruct Hv as [-> | []]. apply vs_get_some in G as [_ G], G2 as [_ G2].
      apply NI. rewrite <- G, G2. apply in_map. apply filter_In. auto.
    + auto.
Qed.

Lemma lookup_In : forall (X : Type) (key : X -> N) (P : X -> bool) vals (xs : list X) v,
  In v (flat_map (fun x => if P x then opt_list (vs_get vals (key x)) else []) xs) <->
  exists x, In x xs /\ P x = true /\ vs_get vals (key x) = Some v.
Proof.
  intros. rewrite in_flat_map. split.
  - intros [x [Hx H]]. exists x. destruct (P x); [|destruct H].
    destruct (vs_get vals (key x)); cbn in H; [|destruct H]. destruct H as [-> | []]. auto.
  - intros [x [Hx [Px G]]]. exists x. split; auto. rewrite Px, G. left. reflexivity.
Qed.

(* ------------------------------------------------------------------ well-formed evidence *)

(* what a genuine commit looks like: the slot of a validator is absent, or carries that
   validator's address and a signature that verifies under its key *)
Definition slot_genuine (v : valinfo) (s : csig) : Prop :=
  cs_flag s <> block_id_flag_absent -> cs_addr s = va_addr v /\ cs_ok s = true.

Record byz_wf (l : lca) (vals tvals : valset) (t : header) : Prop := {
  (* addresses are unique in a validator set *)
  bw_vals : NoDup (map va_addr vals);
  bw_cvals : NoDup (map va_addr (l_cvals l));
  (* the conflicting commit is a genuine commit of the conflicting validator set *)
  bw_slots : Forall2 slot_genuine (l_cvals l) (l_sigs l);
  (* a conflicting header with our derived hashes has our ValidatorsHash, so (LightBlock.ValidateBasic,
     no hash collision) the conflicting validator set is our validator set of that height, by
     which our own commit of that height is indexed *)
  bw_same : hashes_differ l t = false ->
            l_cvals l = tvals /\ length (h_flags t) = length tvals
}.

Lemma header_invalid_differ : forall l t, header_invalid l t = hashes_differ l t.
Proof.
  intros l t. unfold header_invalid, hashes_differ.
  rewrite (N.eqb_sym (h_vh t)), (N.eqb_sym (h_nvh t)), (N.eqb_sym (h_ch t)),
    (N.eqb_sym (h_ah t)), (N.eqb_sym (h_lrh t)).
  destruct (l_vh l =? h_vh t)%N, (l_nvh l =? h_nvh t)%N, (l_ch l =? h_ch t)%N,
    (l_ah l =? h_ah t)%N, (l_lrh l =? h_lrh t)%N; reflexivity.
Qed.

Lemma slots_addr_in : forall cv sg a,
  Forall2 slot_genuine cv sg ->
  In a (map cs_addr (filter (fun s => cs_flag s =? block_id_flag_commit) sg)) ->
  In a (map va_addr cv).
Proof.
  intros cv sg a F. induction F as [|v s cv sg G F IH]; cbn; auto.
  destruct (cs_flag s =? block_id_flag_commit) eqn:E; cbn; auto.
  intros [<- | H]; auto. left. apply Z.eqb_eq in E. destruct G as [G _]; auto.
  rewrite E. discriminate.
Qed.

Lemma slots_nodup : forall cv sg,
  Forall2 slot_genuine cv sg -> NoDup (map va_addr cv) ->
  NoDup (map cs_addr (filter (fun s => cs_flag s =? block_id_flag_commit) sg)).
Proof.
  intros cv sg F. induction F as [|v s cv sg G F IH]; cbn; intro ND.
  - constructor.
  - inversion ND as [|? ? NI ND']; subst.
    destruct (cs_flag s =? block_id_flag_commit) eqn:E; cbn; auto.
    constructor; auto. intro H. apply NI. apply Z.eqb_eq in E. destruct G as [G _].
    + rewrite E. discriminate.
    + rewrite <- G. eapply slots_addr_in; eauto.
Qed.

Lemma slots_signed_for : forall cv sg s,
  Forall2 slot_genuine cv sg -> In s sg ->
  signed_for s = (cs_flag s =? block_id_flag_commit).
Proof.
  intros cv sg s F. induction F as [|v x cv sg G F IH]; [intros []|]. intros [<- | H]; auto.
  unfold signed_for. destruct (cs_flag x =? block_id_flag_commit) eqn:E; auto.
  apply Z.eqb_eq in E. destruct G as [_ G]; [rewrite E; discriminate|]. rewrite G. reflexivity.
Qed.

Lemma signers_conf_In : forall cv sg a,
  Forall2 slot_genuine cv sg ->
  (In a (signers_conf sg) <->
   exists s, In s sg /\ cs_flag s = block_id_flag_commit /\ cs_addr s = a).
Proof.
  intros cv sg a F. unfold signers_conf. rewrite in_map_iff. split.
  - intros [s [E H]]. apply filter_In in H as [H1 H2]. exists s.
    rewrite (slots_signed_for _ _ _ F H1) in H2. apply Z.eqb_eq in H2. auto.
  - intros [s [H1 [H2 H3]]]. exists s. split; auto. apply filter_In. split; auto.
    rewrite (slots_signed_for _ _ _ F H1). apply Z.eqb_eq. exact H2.
Qed.

(* ------------------------------------------------------------------ three lists side by side *)

Section Rows.
Variables (A B C : Type).

Lemma rows_of_bc : forall (R : A -> B -> Prop) (la : list A) (lb : list B) (lc : list C) b c,
  Forall2 R la lb -> In (b, c) (combine lb lc) ->
  exists a, R a b /\ In (a, c) (combine la lc) /\ In a la.
Proof.
  intros R la lb lc b c F. revert lc. induction F as [|x y la lb Rxy F IH]; intros lc H.
  - destruct H.
  - destruct lc as [|z lc]; [destruct H|]. cbn in H. destruct H as [H | H].
    + inversion H; subst. exists x. cbn. auto.
    + destruct (IH _ H) as [a [H1 [H2 H3]]]. exists a. cbn. auto.
Qed.

Lemma rows_of_ac : forall (R : A -> B -> Prop) (la : list A) (lb : list B) (lc : list C) a c,
  Forall2 R la lb -> In (a, c) (combine la lc) ->
  exists b, R a b /\ In (b, c) (combine lb lc) /\ In b lb.
Proof.
  intros R la lb lc a c F. revert lc. induction F as [|x y la lb Rxy F IH]; intros lc H.
  - destruct H.
  - destruct lc as [|z lc]; [destruct H|]. cbn in H. destruct H as [H | H].
    + inversion H; subst. exists y. cbn. auto.
    + destruct (IH _ H) as [b [H1 [H2 H3]]]. exists b. cbn. auto.
Qed.

Lemma rows_of_b : forall (R : A -> B -> Prop) (la : list A) (lb : list B) (lc : list C) b,
  Forall2 R la lb -> length lc = length la -> In b lb ->
  exists a c, R a b /\ In (a, c) (combine la lc) /\ In (b, c) (combine lb lc).
Proof.
  intros R la lb lc b F. revert lc. induction F as [|x y la lb Rxy F IH]; intros lc L H.
  - destruct H.
  - destruct lc as [|z lc]; [discriminate|]. cbn in L. injection L as L. destruct H as [-> | H].
    + exists x, z. cbn. auto.
    + destruct (IH _ L H) as [a [c [H1 [H2 H3]]]]. exists a, c. cbn. auto.
Qed.
End Rows.

(* with unique addresses in [vals], the position of an address is unique: the flag next to it too *)
Lemma combine_addr_fun : forall (C : Type) (vals : valset) (lc : list C) v w c d,
  NoDup (map va_addr vals) -> In (v, c) (combine vals lc) -> In (w, d) (combine vals lc) ->
  va_addr v = va_addr w -> v = w /\ c = d.
Proof.
  intros C vals. induction vals as [|x r IH]; intros lc v w c d ND H1 H2 E.
  - destruct H1.
  - destruct lc as [|z lc]; [destruct H1|]. cbn in ND. inversion ND as [|? ? NI ND']; subst.
    cbn in H1, H2. destruct H1 as [H1 | H1], H2 as [H2 | H2].
    + inversion H1; inversion H2; subst. auto.
    + inversion H1; subst. exfalso. apply NI. rewrite E. apply in_map.
      eapply in_combine_l; eauto.
    + inversion H2; subst. exfalso. apply NI. rewrite <- E. apply in_map.
      eapply in_combine_l; eauto.
    + eapply IH; eauto.
Qed.

(* ------------------------------------------------------------------ the model's list is the
   specified list *)

Lemma flags_commit_not_absent : block_id_flag_commit <> block_id_flag_absent.
Proof. discriminate. Qed.

Lemma byz_model_meets_spec : forall l vals tvals t,
  byz_wf l vals tvals t -> byz_ok l vals tvals t (byz_validators l vals t) = true.
Proof.
  intros l vals tvals t W. destruct W as [NDv NDc SL SAME].
  apply byz_ok_iff. unfold byz_validators, byz_validators_gen, blamed, classify.
  rewrite header_invalid_differ. destruct (hashes_differ l t) eqn:HD.
  - (* lunatic *)
    set (P := fun s : csig => cs_flag s =? block_id_flag_commit).
    assert (EQ : flat_map (fun s => if cs_flag s =? block_id_flag_commit
                                    then opt_list (vs_get vals (cs_addr s)) else []) (l_sigs l)
                 = flat_map (fun s => if P s then opt_list (vs_get vals (cs_addr s)) else [])
                            (l_sigs l)) by reflexivity.
    rewrite EQ. split.
    + apply val_sort_ranked. apply lookup_nodup. apply (slots_nodup _ _ SL NDc).
    + intro v. rewrite val_sort_In, lookup_In, memN_In, (signers_conf_In _ _ _ SL). split.
      * intros [s [H1 [H2 H3]]]. apply vs_get_some in H3 as [H3 H4]. split; auto.
        exists s. repeat split; auto. apply Z.eqb_eq. exact H2.
      * intros [Hv [s [H1 [H2 H3]]]]. exists s. repeat split; auto.
        -- apply Z.eqb_eq. exact H2.
        -- rewrite H3. apply vs_get_nodup; auto.
  - destruct (SAME eq_refl) as [CV LF].
    rewrite (Z.eqb_sym (h_round t)). destruct (l_round l =? h_round t) eqn:RD.
    + (* equivocation *)
      set (P := fun p : csig * Z => (cs_flag (fst p) =? block_id_flag_commit)
                                     && (snd p =? block_id_flag_commit)).
      set (key := fun p : csig * Z => cs_addr (fst p)).
      assert (EQ : flat_map (fun '(s, fb) =>
                     if (cs_flag s =? block_id_flag_commit) && (fb =? block_id_flag_commit)
                     then opt_list (vs_get vals (cs_addr s)) else [])
                     (combine (l_sigs l) (h_flags t))
                   = flat_map (fun p => if P p then opt_list (vs_get vals (key p)) else [])
                              (combine (l_sigs l) (h_flags t))).
      { apply flat_map_ext. intros [s fb]. reflexivity. }
      rewrite EQ. rewrite CV in SL, NDc. split.
      * apply val_sort_ranked. apply lookup_nodup.
        (* keys of the selected rows are addresses of for-block slots: no repetition *)
        pose proof (slots_nodup _ _ SL NDc) as ND.
        clear - ND. revert ND. generalize (h_flags t) as fl. generalize (l_sigs l) as sg.
        induction sg as [|s sg IH]; intros fl ND; [constructor|].
        destruct fl as [|f fl]; [constructor|]. cbn [combine filter]. cbn [filter] in ND.
        assert (SUB : forall a fl', In a (map key (filter P (combine sg fl'))) ->
                      In a (map cs_addr (filter (fun s => cs_flag s =? block_id_flag_commit) sg))).
        { intros a fl' H. apply in_map_iff in H as [[s' f'] [E H]]. apply filter_In in H as [H1 H2].
          unfold P in H2. cbn in H2. apply andb_true_iff in H2 as [H2 _].
          apply in_map_iff. exists s'. split; auto. apply filter_In. split; auto.
          eapply in_combine_l; eauto. }
        change (P (s, f)) with ((cs_flag s =? block_id_flag_commit) && (f =? block_id_flag_commit)).
        destruct (cs_flag s =? block_id_flag_commit) eqn:E.
        -- cbn [map] in ND. inversion ND as [|? ? NI ND']; subst.
           destruct (f =? block_id_flag_commit); cbn [andb]; [|apply IH; auto].
           cbn [map]. constructor; [|apply IH; auto]. intro H. apply NI. change (key (s, f)) with (cs_addr s) in H.
           eapply SUB; eauto.
        -- cbn [andb]. apply IH; auto.
      * intro v. rewrite val_sort_In, lookup_In, andb_true_iff, !memN_In,
          (signers_conf_In _ _ _ SL). split.
        -- intros [[s f] [H1 [H2 H3]]]. unfold P, key in H2, H3. cbn in H2, H3.
           apply andb_true_iff in H2 as [H2 H2']. apply Z.eqb_eq in H2, H2'.
           apply vs_get_some in H3 as [H3 H4]. split; auto. split.
           ++ exists s. repeat split; auto. eapply in_combine_l; eauto.
           ++ destruct (rows_of_bc _ _ _ slot_genuine _ _ _ _ _ SL H1) as [v' [G [H5 H6]]].
              destruct G as [G _]; [rewrite H2; apply flags_commit_not_absent|].
              unfold signers_ref. apply in_map_iff. exists (v', f). cbn.
              split; [rewrite <- G; symmetry; exact H4|].
              apply filter_In. split; auto. cbn. apply Z.eqb_eq. exact H2'.
        -- intros [Hv [[s [H1 [H2 H3]]] H4]]. unfold signers_ref in H4.
           apply in_map_iff in H4 as [[v' f] [E H4]]. cbn in E. apply filter_In in H4 as [H4 H5].
           cbn in H5. apply Z.eqb_eq in H5.
           (* the slot s belongs to v', whose flag in our commit is f *)
           destruct (rows_of_b _ _ Z slot_genuine _ _ (h_flags t) _ SL LF H1)
             as [v'' [f'' [G'' [H8 H9]]]].
           destruct G'' as [G'' _]; [rewrite H2; apply flags_commit_not_absent|].
           assert (X : v'' = v' /\ f'' = f).
           { apply (combine_addr_fun Z tvals (h_flags t) v'' v' f'' f NDc H8 H4). congruence. }
           destruct X as [-> ->].
           exists (s, f). repeat split; auto.
           ++ unfold P. cbn. rewrite H2, H5. reflexivity.
           ++ unfold key. cbn. rewrite H3. apply vs_get_nodup; auto.
    + (* amnesia *)
      split; [reflexivity|]. intro v. split; [intros [] | intros [_ H]; discriminate].
Qed.

(* ------------------------------------------------------------------ validateABCIEvidence *)

Lemma vals_eqb_eq : forall a b, vals_eqb a b = true <-> a = b.
Proof.
  induction a as [|x a IH]; destruct b as [|y b]; cbn; split; intro E;
    try reflexivity; try discriminate.
  - apply andb_true_iff in E as [E1 E2]. apply same_val_eq in E1. apply IH in E2. congruence.
  - inversion E; subst. apply andb_true_iff. split; [apply same_val_eq; reflexivity|].
    apply IH. reflexivity.
Qed.

(* validateABCIEvidence accepts exactly the specified list with the right total power; the one
   thing it adds is the Go-level refusal of a non-nil empty slice *)
Lemma validate_abci_spec : forall l vals tvals t,
  byz_wf l vals tvals t ->
  validate_abci l vals t =
  (l_total l =? vs_total vals) && byz_ok l vals tvals t (claimed_of l) && negb (empty_not_nil l).
Proof.
  intros l vals tvals t W. pose proof (byz_model_meets_spec l vals tvals t W) as M.
  unfold validate_abci, claimed_of, empty_not_nil.
  destruct (l_total l =? vs_total vals); cbn [negb andb]; [|reflexivity].
  apply eq_true_iff_eq.
  destruct (l_byz l) as [b|]; destruct (byz_validators l vals t) as [|x m] eqn:Em.
  - split; [discriminate|]. intro H. apply andb_true_iff in H as [H1 H2].
    rewrite (byz_ok_unique _ _ _ _ _ _ H1 M) in H2. discriminate.
  - rewrite vals_eqb_eq. split.
    + intros <-. rewrite M. reflexivity.
    + intro H. apply andb_true_iff in H as [H1 _]. symmetry. eapply byz_ok_unique; eauto.
  - rewrite M. tauto.
  - split; [discriminate|]. intro H. apply andb_true_iff in H as [H1 _].
    pose proof (byz_ok_unique _ _ _ _ _ _ H1 M). discriminate.
Qed.

(* ------------------------------------------------------------------ Pool.verify *)

Definition lca_wf (en : env) (l : lca) : Prop :=
  forall vals th t, en_vals en (l_common l) = Some vals -> reference en l = Some (th, t) ->
    byz_wf l vals (vals_at en th) t.

Lemma signed_header_stored : forall en h,
  signed_header en h = option_map (fun m => (h, m)) (stored en h).
Proof.
  intros en h. unfold signed_header, stored. destruct (en_meta en h) as [m|]; auto.
  destruct (h_has_commit m); auto.
Qed.

Lemma verify_lca_spec : forall en st e l,
  e_body e = EvLca l -> lca_wf en l ->
  verify en st e = lca_valid en st l && negb (empty_not_nil l).
Proof.
  intros en st e l B W. unfold verify, lca_valid, e_height, e_time. rewrite B.
  rewrite !signed_header_stored.
  destruct (en_meta en (l_common l)) as [bm|] eqn:M.
  2:{ assert (S : stored en (l_common l) = None) by (unfold stored; rewrite M; reflexivity).
      rewrite S. reflexivity. }
  assert (S : stored en (l_common l) = if h_has_commit bm then Some bm else None)
    by (unfold stored; rewrite M; reflexivity).
  rewrite !S.
  destruct (h_has_commit bm) eqn:HC; cbn [option_map].
  2:{ destruct (negb (l_time l =? h_time bm)); [reflexivity|].
      destruct (_ && _); reflexivity. }
  destruct (en_vals en (l_common l)) as [vals|] eqn:V.
  2:{ destruct (negb (l_time l =? h_time bm)); [reflexivity|].
      destruct (_ && _); reflexivity. }
  destruct (l_time l =? h_time bm) eqn:T; cbn [negb].
  2:{ destruct (reference en l) as [[th t]|]; reflexivity. }
  apply Z.eqb_eq in T.
  assert (X : (s_time st - h_time bm >? s_max_dur st) && (s_height st - l_common l >? s_max_blocks st)
              = too_old st (l_common l) (l_time l)).
  { unfold too_old. rewrite T, !Z.gtb_ltb. apply andb_comm. }
  rewrite X. clear X.
  (* the block the node compares with *)
  assert (R : (if l_common l =? l_height l then Some (l_common l, bm)
               else match option_map (fun m => (l_height l, m)) (stored en (l_height l)) with
                    | Some t => Some t
                    | None =>
                      match option_map (fun m => (en_store_height en, m)) (stored en (en_store_height en)) with
                      | None => None
                      | Some t => if h_time (snd t) <? l_ctime l then None else Some t
                      end
                    end) = reference en l).
  { unfold reference. destruct (l_common l =? l_height l) eqn:CH.
    - apply Z.eqb_eq in CH. rewrite <- CH. unfold stored. rewrite M, HC. reflexivity.
    - rewrite (Z.eqb_sym (l_height l)), CH.
      destruct (stored en (l_height l)); cbn [option_map]; auto.
      destruct (stored en (en_store_height en)) as [t|]; cbn [option_map snd]; auto.
      rewrite Z.leb_antisym. destruct (h_time t <? l_ctime l); reflexivity. }
  rewrite R. clear R.
  destruct (reference en l) as [[th t]|] eqn:RF.
  2:{ destruct (too_old st (l_common l) (l_time l)); reflexivity. }
  unfold verify_lca, byz_ok_on_chain. rewrite V, RF.
  rewrite (validate_abci_spec l vals (vals_at en th) t (W vals th t V RF)).
  rewrite header_invalid_differ, !Z.gtb_ltb. unfold sigs_for_block_ok.
  destruct (too_old st (l_common l) (l_time l)); cbn [negb andb]; [reflexivity|].
  destruct (l_common l =? l_height l); cbn [negb].
  - destruct (hashes_differ l t); cbn [negb andb]; [reflexivity|].
    destruct (l_light_ok l); cbn [negb andb]; [|reflexivity].
    destruct (forallb _ (l_sigs l)); cbn [negb andb]; [|reflexivity].
    destruct (l_total l =? vs_total vals); cbn [negb andb]; [|reflexivity].
    destruct ((th <? l_height l) && (h_time t <? l_ctime l)); cbn [negb andb]; [reflexivity|].
    destruct (h_hash t =? l_chash l)%N; cbn [negb andb]; reflexivity.
  - destruct (l_trusting_ok l); cbn [negb andb]; [|reflexivity].
    destruct (l_light_ok l); cbn [negb andb]; [|reflexivity].
    destruct (forallb _ (l_sigs l)); cbn [negb andb]; [|reflexivity].
    destruct (l_total l =? vs_total vals); cbn [negb andb]; [|reflexivity].
    destruct ((th <? l_height l) && (h_time t <? l_ctime l)); cbn [negb andb]; [reflexivity|].
    destruct (h_hash t =? l_chash l)%N; cbn [negb andb]; reflexivity.
Qed.

(* ------------------------------------------------------------------ what ABCI() reports *)

Lemma abci_roundtrip : forall l,
  map (fun x : Z * N * Z * Z * Z * Z =>
         let '(_, a, p, _, _, _) := x in {| va_addr := a; va_power := p |}) (abci_of l)
  = claimed_of l.
Proof.
  intro l. unfold abci_of, claimed_of. rewrite map_map.
  induction (match l_byz l with Some b => b | None => [] end) as [|[a p] r IH]; cbn; congruence.
Qed.

Lemma lca_valid_abci : forall en st l,
  lca_valid en st l = true -> abci_ok en l (abci_of l) = true.
Proof.
  intros en st l H. unfold lca_valid in H. unfold abci_ok.
  destruct (stored en (l_common l)) as [cm|]; [|discriminate].
  destruct (en_vals en (l_common l)) as [vals|]; [|discriminate].
  destruct (reference en l) as [[th t]|]; [|discriminate].
  repeat (apply andb_true_iff in H as [H ?]).
  rewrite abci_roundtrip. apply andb_true_iff. split; auto.
  apply forallb_forall. intros x Hx. unfold abci_of in Hx. apply in_map_iff in Hx as [v [<- _]].
  rewrite !Z.eqb_refl. cbn [andb]. apply andb_true_iff. split; auto.
Qed.
