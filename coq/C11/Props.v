(* C11 — Evidence is admitted exactly when valid, fresh and new, and is used once.
   Property theorems over the model of evidence/pool.go, evidence/verify.go, types/evidence.go
   (Model.v), for the code WITH the repairs F4 (CheckEvidence does not store and count pending
   evidence again) and F24 (Update prunes expired pending evidence at every height).  The
   unrepaired behaviours are refuted at the end.  Section 10 relates the model of
   GetByzantineValidators (WITH the repair F57) / validateABCIEvidence / VerifyLightClientAttack /
   Pool.verify to the independent specification of light client attack evidence (Spec.v).

   Reading guide.  [env] is the immutable chain (block store + state store); [Inv en p] is the
   pool invariant (pending keys strictly ordered, size = number of pending items, pending and
   committed disjoint, pending evidence carries its block's time, nothing pending is expired);
   [op_ok] is what the callers owe (consensus reports two votes of one height; Update is called
   with the state after a block that is in the block store); [env_mono]: block times do not
   decrease with the height (enforced by block validation, property C06). *)
From Coq Require Import List ZArith NArith Bool Lia.
From TM Require Import Generated.Consts C11.Model C11.Proofs C11.Spec C11.SpecProofs
  C11.CrashModel C11.CrashProofs.
Import ListNotations.
Open Scope Z_scope.

(* ---- 1. AddEvidence admits exactly what is new and valid *)
Theorem C11_admit_iff : forall en p e,
  snd (add_evidence en p e) = AddedNew <->
  is_pending p e = false /\ is_committed p e = false /\ verify en (p_st p) e = true.
Proof. exact admit_iff. Qed.
Print Assumptions C11_admit_iff.

(* ... where, for duplicate vote evidence, "verify" is exactly: the signer is a validator at that
   height, same height/round/type/address, different block ids, both signatures, both power
   fields, evidence time = block time, not expired by BOTH age limits *)
Theorem C11_valid_duplicate_vote : forall en st e d,
  e_body e = EvDup d -> (verify en st e = true <-> dup_valid en st e d).
Proof. exact verify_dup_iff. Qed.
Print Assumptions C11_valid_duplicate_vote.

(* ---- 2. CheckEvidence accepts a block's evidence list exactly when no hash repeats and every
   item is either already pending (duplicate votes only; such an item was verified when it was
   admitted and, by C11_pool_invariant, has not expired since) or not committed and valid now *)
Theorem C11_check_block_iff : forall en p evs,
  snd (check_evidence true en p evs) = true <->
  NoDup (map e_hash evs) /\
  Forall (fun e => (is_lca e = false /\ is_pending p e = true) \/
                   (is_committed p e = false /\ verify en (p_st p) e = true)) evs.
Proof.
  intros en p evs. rewrite check_block_iff. split; intros [A B]; split; auto;
    eapply Forall_impl; try exact B; intros e; apply accept_cond_spec.
Qed.
Print Assumptions C11_check_block_iff.

(* ---- 3. the same evidence never appears twice in a block *)
Theorem C11_no_duplicate_in_block : forall en p evs,
  snd (check_evidence true en p evs) = true -> NoDup (map e_hash evs).
Proof. intros en p evs H. apply C11_check_block_iff in H. tauto. Qed.
Print Assumptions C11_no_duplicate_in_block.

(* ---- 4. ... nor in two blocks: once a block carrying [e] has been applied (Update), then after
   any further history no evidence with that key is admitted by AddEvidence or accepted by
   CheckEvidence *)
Theorem C11_never_committed_twice : forall en p st evs e ops e',
  env_mono en -> Inv en p -> op_ok en (OpUpdate st evs) -> Forall (op_ok en) ops ->
  snd (update true en p st evs) = true -> In e evs -> e_key e' = e_key e ->
  let q := run en (fst (update true en p st evs)) ops in
  snd (add_evidence en q e') <> AddedNew /\
  forall l, In e' l -> snd (check_evidence true en q l) = false.
Proof.
  intros en p st evs e ops e' M I U OK S Hin K. cbn zeta.
  set (p1 := fst (update true en p st evs)).
  assert (I1 : Inv en p1) by (apply (step_inv en p (OpUpdate st evs)); auto).
  assert (C1 : committed p1 (e_key e) = true).
  { apply update_committed; auto. right. split; auto. apply in_map; auto. }
  assert (Iq : Inv en (run en p1 ops)) by (apply run_inv; auto).
  assert (Cq : is_committed (run en p1 ops) e' = true).
  { unfold is_committed. rewrite K. apply (run_committed en ops p1 (e_key e)); auto. }
  split.
  - intro A. apply admit_iff in A as [_ [A _]]. congruence.
  - intros l Hl. eapply committed_rejected; eauto.
Qed.
Print Assumptions C11_never_committed_twice.

(* ---- 5. conflicting votes reported by consensus: once Update is called for a height at or
   above theirs, the evidence they form is pending, or already committed, or has expired under
   both limits *)
Theorem C11_buffer_becomes_pending : forall en p st evs it e,
  Inv en p -> op_ok en (OpUpdate st evs) -> s_height (p_st p) < s_height st ->
  In it (p_buffer p) -> buffer_evidence en st it = Some e ->
  let q := fst (update true en p st evs) in
  (exists x, In x (p_pending q) /\ e_key x = e_key e) \/
  committed q (e_key e) = true \/
  (exists x, e_key x = e_key e /\ ev_expired st x = true).
Proof. exact buffer_becomes_pending. Qed.
Print Assumptions C11_buffer_becomes_pending.

(* ... and a reported pair stays in the buffer until then (AddEvidence / CheckEvidence do not
   touch the buffer); [buffer_evidence] is defined when the votes' height is at most the new
   height, the block and validator set of that height are stored and the signer is in the set *)
Theorem C11_report_buffered : forall p va vb hi,
  In (va, vb, hi) (p_buffer (report p va vb hi)).
Proof. intros. cbn. apply in_or_app. right. left. reflexivity. Qed.
Print Assumptions C11_report_buffered.

(* ---- 6. pending evidence survives a restart (NewPool over the same databases) *)
Theorem C11_restart_preserves_pending : forall en p,
  Inv en p ->
  p_pending (restart p) = p_pending p /\ p_committed (restart p) = p_committed p /\
  p_size (restart p) = p_size p /\ p_st (restart p) = p_st p.
Proof. exact restart_preserves. Qed.
Print Assumptions C11_restart_preserves_pending.

(* ---- 7. pending evidence leaves the pool only by being committed in a block or by expiring
   under BOTH limits (any operation, restart included) *)
Theorem C11_pending_until_committed_or_expired : forall en p o x,
  Inv en p -> In x (p_pending p) ->
  In x (p_pending (step en p o)) \/
  exists st evs, o = OpUpdate st evs /\
    (In (e_key x) (map e_key evs) \/
     (s_height st - e_height x > s_max_blocks st /\ s_time st - e_time x > s_max_dur st)).
Proof.
  intros en p o x I Hx. destruct (step_keeps en p o x I Hx) as [H | [st [evs [E [H | H]]]]]; auto;
    right; exists st, evs; split; auto. right.
  unfold ev_expired, expired in H. apply andb_true_iff in H as [A B].
  rewrite Z.gtb_ltb in A, B. apply Z.ltb_lt in A, B. lia.
Qed.
Print Assumptions C11_pending_until_committed_or_expired.

(* ---- 8. the invariant, for every history from an empty pool: in particular Size() equals the
   number of pending items, and nothing that has expired under both limits is pending (so what
   PendingEvidence proposes and what CheckEvidence accepts without verifying again is fresh) *)
Theorem C11_pool_invariant : forall en st0 ops,
  env_mono en -> Forall (op_ok en) ops -> Inv en (run en (new_pool st0) ops).
Proof. intros. apply run_inv; auto. apply new_pool_inv. Qed.
Print Assumptions C11_pool_invariant.

Theorem C11_size_eq_pending : forall en st0 ops,
  env_mono en -> Forall (op_ok en) ops ->
  let p := run en (new_pool st0) ops in
  p_size p = Z.of_nat (length (p_pending p)) /\
  forall e, In e (p_pending p) ->
    ~ (s_height (p_st p) - e_height e > s_max_blocks (p_st p) /\
       s_time (p_st p) - e_time e > s_max_dur (p_st p)).
Proof.
  intros en st0 ops M OK. cbn zeta. destruct (C11_pool_invariant en st0 ops M OK) as [I F].
  split; [apply (i_size _ _ I)|]. intros e He [A B]. specialize (F e He).
  unfold ev_expired, expired in F. apply andb_false_iff in F as [F | F];
    rewrite Z.gtb_ltb in F; apply Z.ltb_ge in F; lia.
Qed.
Print Assumptions C11_size_eq_pending.

(* ---- 9. PendingEvidence(maxBytes): a prefix of the pending list (oldest first) within the
   byte budget, and maximal: the next item would not fit *)
Theorem C11_pending_within_budget : forall p maxb res tot,
  pending_evidence p maxb = (res, tot) -> p_size p <> 0 ->
  exists rest, p_pending p = res ++ rest /\ tot = total_size res /\
    (maxb <> -1 -> res <> [] -> tot <= maxb) /\
    match rest with [] => True | x :: _ => maxb <> -1 /\ tot + e_size x > maxb end.
Proof.
  intros p maxb res tot H NZ. unfold pending_evidence in H.
  apply Z.eqb_neq in NZ. rewrite NZ in H.
  destruct (take_budget_spec _ _ _ _ _ H) as [rest [A [B [C D]]]]. exists rest.
  repeat split; auto.
Qed.
Print Assumptions C11_pending_within_budget.

(* ---- 10. light client attack evidence against its SPECIFICATION (Spec.v, written from
   spec/light-client/attacks/isolate-attackers and the doc comments, not from the code):
     lunatic       the members of the common-height validator set that signed FOR the
                   conflicting block (a precommit for nil or an absent slot is no signature for it);
     equivocation  the validators that signed for both blocks in the same round;
     amnesia       nobody;
   reported with address and power of the validator set of the evidence's height, ordered by
   power then address, each once.

   [byz_wf] (SpecProofs.v): addresses are unique in a validator set; the conflicting commit is a
   genuine commit of the conflicting validator set (every slot that is not absent carries the
   address of the validator of that index and a signature verifying under its key - the code
   itself verifies signatures only until the power thresholds are reached, C07); a conflicting
   header with our derived hashes comes with our validator set of that height and the evidence
   is formed for that height. *)

(* the specification determines the list *)
Theorem C11_byz_list_unique : forall l vals tvals t a b,
  byz_ok l vals tvals t a = true -> byz_ok l vals tvals t b = true -> a = b.
Proof. exact byz_ok_unique. Qed.
Print Assumptions C11_byz_list_unique.

(* GetByzantineValidators (repaired) computes the specified list *)
Theorem C11_byz_model_meets_spec : forall l vals tvals t,
  byz_wf l vals tvals t -> byz_ok l vals tvals t (byz_validators l vals t) = true.
Proof. exact byz_model_meets_spec. Qed.
Print Assumptions C11_byz_model_meets_spec.

(* validateABCIEvidence accepts exactly: the right total power and THE specified list (and, a
   Go-level addition, not a non-nil empty slice) *)
Theorem C11_validate_abci_iff_spec : forall l vals tvals t,
  byz_wf l vals tvals t ->
  (validate_abci l vals t = true <->
   l_total l = vs_total vals /\ byz_ok l vals tvals t (claimed_of l) = true /\
   empty_not_nil l = false).
Proof.
  intros l vals tvals t W. rewrite (validate_abci_spec l vals tvals t W).
  rewrite !andb_true_iff, Z.eqb_eq, negb_true_iff. tauto.
Qed.
Print Assumptions C11_validate_abci_iff_spec.

(* Pool.verify of light client attack evidence is the standalone predicate [lca_valid] *)
Theorem C11_lca_valid_iff_spec : forall en st e l,
  e_body e = EvLca l -> lca_wf en l ->
  (verify en st e = true <-> lca_valid en st l = true /\ empty_not_nil l = false).
Proof.
  intros en st e l B W. rewrite (verify_lca_spec en st e l B W).
  rewrite andb_true_iff, negb_true_iff. tauto.
Qed.
Print Assumptions C11_lca_valid_iff_spec.

(* so AddEvidence admits light client attack evidence only with the specified byzantine
   validators, and admits the genuine evidence that lists them *)
Theorem C11_lca_admit_iff_spec : forall en p e l,
  e_body e = EvLca l -> lca_wf en l ->
  (snd (add_evidence en p e) = AddedNew <->
   is_pending p e = false /\ is_committed p e = false /\
   lca_valid en (p_st p) l = true /\ empty_not_nil l = false).
Proof.
  intros en p e l B W. rewrite C11_admit_iff, (C11_lca_valid_iff_spec en (p_st p) e l B W). tauto.
Qed.
Print Assumptions C11_lca_admit_iff_spec.

(* and what ABCI() hands to the application for valid evidence is the specified list, with the
   common height, the time of its block and the total power of its validator set *)
Theorem C11_abci_reports_spec : forall en st e l,
  e_body e = EvLca l -> lca_wf en l -> verify en st e = true ->
  abci_ok en l (abci_of l) = true.
Proof.
  intros en st e l B W V. apply (C11_lca_valid_iff_spec en st e l B W) in V as [V _].
  eapply lca_valid_abci; eauto.
Qed.
Print Assumptions C11_abci_reports_spec.

(* ------------------------------------------------------------------ non-vacuity: a concrete
   chain, genuine evidence, a history that admits, checks, reports, commits, restarts *)

Definition ns := 1000000000.
Definition vs0 : valset := [ {| va_addr := 1; va_power := 10 |}; {| va_addr := 2; va_power := 5 |} ].
Definition hdr0 (h : Z) : header :=
  {| h_time := h * ns; h_hash := Z.to_N h; h_vh := 11; h_nvh := 12; h_ch := 13; h_ah := 14;
     h_lrh := 15; h_has_commit := true; h_round := 0; h_flags := [2; 2] |}.
Definition en0 : env :=
  {| en_meta := fun h => if (1 <=? h) && (h <=? 8) then Some (hdr0 h) else None;
     en_vals := fun h => if (1 <=? h) && (h <=? 9) then Some vs0 else None;
     en_store_height := 8 |}.
Definition st_at (h : Z) : pstate :=
  {| s_height := h; s_time := h * ns; s_max_blocks := 2; s_max_dur := 1500000000;
     s_lastvals := vs0 |}.
Definition mkv (h : Z) (bid : N) : vote :=
  {| v_type := 2; v_height := h; v_round := 0; v_bid := bid; v_addr := 1; v_basic_ok := true |}.
Definition dv (h : Z) (hash : N) : evidence :=
  {| e_hash := hash; e_size := 100;
     e_body := EvDup {| d_a := mkv h 5; d_b := mkv h 7; d_total := 15; d_power := 10;
                        d_time := h * ns; d_sig_a := true; d_sig_b := true |} |}.
(* an amnesia attack at height 2: same derived hashes as our header, another round, no culprits *)
Definition lca0 : evidence :=
  {| e_hash := 900; e_size := 700;
     e_body := EvLca {| l_common := 2; l_height := 2; l_ctime := 2 * ns; l_chash := 77;
                        l_vh := 11; l_nvh := 12; l_ch := 13; l_ah := 14; l_lrh := 15;
                        l_round := 1; l_sigs := [ {| cs_flag := 2; cs_addr := 1; cs_ok := true |};
                                                  {| cs_flag := 2; cs_addr := 2; cs_ok := true |} ];
                        l_cvals := vs0; l_byz := None; l_total := 15; l_time := 2 * ns;
                        l_trusting_ok := true; l_light_ok := true; l_basic_ok := true |} |}.
Definition hint0 : hint := {| hi_hash := 333; hi_size := 100; hi_sa := true; hi_sb := true |}.

Lemma en0_mono : env_mono en0.
Proof.
  intros h1 h2 m1 m2 H1 H2 L. cbn in H1, H2.
  destruct ((1 <=? h1) && (h1 <=? 8)); [|discriminate].
  destruct ((1 <=? h2) && (h2 <=? 8)); [|discriminate].
  inversion H1; inversion H2; subst; cbn. unfold ns. lia.
Qed.

Definition ops0 : list op :=
  [ OpAdd (dv 2 101); OpAdd lca0; OpCheck [dv 2 101; lca0; dv 1 102];
    OpReport (mkv 3 9) (mkv 3 4) hint0; OpUpdate (st_at 3) [dv 2 101]; OpRestart;
    OpCheck [lca0]; OpUpdate (st_at 4) [] ].

Lemma ops0_ok : Forall (op_ok en0) ops0.
Proof.
  repeat constructor; cbn; try (eexists; split; [reflexivity | reflexivity]).
Qed.

Example C11_admit_nonvacuous :
  snd (add_evidence en0 (new_pool (st_at 2)) (dv 2 101)) = AddedNew /\
  snd (add_evidence en0 (new_pool (st_at 2)) lca0) = AddedNew /\
  snd (add_evidence en0 (new_pool (st_at 6)) (dv 2 101)) = RejectedInvalid.   (* expired *)
Proof. vm_compute. auto. Qed.

Example C11_history_nonvacuous :
  let p := run en0 (new_pool (st_at 2)) ops0 in
  map e_hash (p_pending p) = [900%N; 333%N] /\ p_size p = 2 /\
  p_committed p = [(2, 101%N)] /\
  snd (check_evidence true en0 p [dv 2 101]) = false /\          (* committed: never again *)
  snd (add_evidence en0 p (dv 2 101)) = IgnoredCommitted /\
  snd (check_evidence true en0 p [dv 3 103; dv 3 103]) = false /\ (* twice in one block *)
  snd (check_evidence true en0 p [dv 3 103; lca0]) = true.
Proof. vm_compute. repeat split; reflexivity. Qed.

Example C11_never_committed_twice_nonvacuous :
  snd (update true en0 (fst (add_evidence en0 (new_pool (st_at 2)) (dv 2 101))) (st_at 3) [dv 2 101]) = true.
Proof. vm_compute. reflexivity. Qed.

Example C11_expiry_nonvacuous :
  (* evidence of height 2 is pending up to height 4 and pruned by Update(5): 3 > 2 blocks, 3s > 1.5s *)
  map e_hash (p_pending (run en0 (new_pool (st_at 2))
     [OpAdd (dv 2 101); OpUpdate (st_at 3) []; OpUpdate (st_at 4) []])) = [101%N] /\
  p_pending (run en0 (new_pool (st_at 2))
     [OpAdd (dv 2 101); OpUpdate (st_at 3) []; OpUpdate (st_at 4) []; OpUpdate (st_at 5) []]) = [].
Proof. vm_compute. auto. Qed.

Example C11_budget_nonvacuous :
  let p := run en0 (new_pool (st_at 2)) ops0 in
  map e_hash (fst (pending_evidence p 750)) = [900%N] /\ snd (pending_evidence p 750) = 700 /\
  map e_hash (fst (pending_evidence p (-1))) = [900%N; 333%N] /\
  fst (pending_evidence p 99) = [].
Proof. vm_compute. auto. Qed.

(* ------------------------------------------------------------------ the unrepaired code *)

(* F4: without the repair, checking a block that carries an already pending light client attack
   evidence counts it again: one pending item, Size() = 2 *)
Example C11_unrepaired_F4_refuted :
  let p := step_gen false true en0 (step_gen false true en0 (new_pool (st_at 2)) (OpAdd lca0))
                    (OpCheck [lca0]) in
  length (p_pending p) = 1%nat /\ p_size p = 2.
Proof. vm_compute. auto. Qed.

(* F24: without the repair (pruning only beyond pruningHeight AND pruningTime), evidence of
   height 2 is still pending after Update(5) although 5-2 > 2 blocks and 3s > 1.5s, and
   CheckEvidence accepts it in a block *)
Example C11_unrepaired_F24_refuted :
  let p := fold_left (step_gen true false en0)
             [OpAdd (dv 2 101); OpUpdate (st_at 3) []; OpUpdate (st_at 4) []; OpUpdate (st_at 5) []]
             (new_pool (st_at 2)) in
  map e_hash (p_pending p) = [101%N] /\ ev_expired (p_st p) (dv 2 101) = true /\
  snd (check_evidence true en0 p [dv 2 101]) = true /\
  verify en0 (p_st p) (dv 2 101) = false.
Proof. vm_compute. auto. Qed.

(* ------------------------------------------------------------------ light client attacks with
   precommits for nil and absent slots *)

Definition vs4 : valset :=
  [ {| va_addr := 1; va_power := 10 |}; {| va_addr := 2; va_power := 10 |};
    {| va_addr := 3; va_power := 10 |}; {| va_addr := 4; va_power := 10 |} ].
Definition hdr4 (h : Z) : header :=
  {| h_time := h * ns; h_hash := Z.to_N h; h_vh := 11; h_nvh := 12; h_ch := 13; h_ah := 14;
     h_lrh := 15; h_has_commit := true; h_round := 0; h_flags := [2; 2; 3; 2] |}.
Definition en4 : env :=
  {| en_meta := fun h => if (1 <=? h) && (h <=? 8) then Some (hdr4 h) else None;
     en_vals := fun h => if (1 <=? h) && (h <=? 9) then Some vs4 else None;
     en_store_height := 8 |}.
Definition sl (flag : Z) (a : N) : csig :=
  {| cs_flag := flag; cs_addr := a; cs_ok := negb (flag =? block_id_flag_absent) |}.
(* lunatic (another app hash) at height 5 from common height 2: 1 and 2 sign for the block,
   3 precommits nil, 4 is absent, a phantom validator 9 signs for it *)
Definition phantom : valinfo := {| va_addr := 9; va_power := 50 |}.
Definition lunatic_with (byz : option (list valinfo)) : lca :=
  {| l_common := 2; l_height := 5; l_ctime := 5 * ns; l_chash := 555;
     l_vh := 21; l_nvh := 12; l_ch := 13; l_ah := 99; l_lrh := 15; l_round := 0;
     l_sigs := [sl 2 1; sl 2 2; sl 3 3; sl 1 0; sl 2 9]; l_cvals := vs4 ++ [phantom];
     l_byz := byz; l_total := 40; l_time := 2 * ns;
     l_trusting_ok := true; l_light_ok := true; l_basic_ok := true |}.
Definition v_ (a : N) : valinfo := {| va_addr := a; va_power := 10 |}.
(* equivocation at height 3, round 0: in the conflicting commit 1, 2, 3 sign for the block and 4
   precommits nil; in our commit 1, 2, 4 signed for the block and 3 precommitted nil *)
Definition equiv_with (byz : option (list valinfo)) : lca :=
  {| l_common := 3; l_height := 3; l_ctime := 3 * ns; l_chash := 333;
     l_vh := 11; l_nvh := 12; l_ch := 13; l_ah := 14; l_lrh := 15; l_round := 0;
     l_sigs := [sl 2 1; sl 2 2; sl 2 3; sl 3 4]; l_cvals := vs4;
     l_byz := byz; l_total := 40; l_time := 3 * ns;
     l_trusting_ok := true; l_light_ok := true; l_basic_ok := true |}.
Definition as_ev (l : lca) : evidence := {| e_hash := 1; e_size := 1; e_body := EvLca l |}.

Example C11_byz_spec_nonvacuous :
  (* lunatic: exactly the two members of the common set that signed for the block *)
  lca_valid en4 (st_at 3) (lunatic_with (Some [v_ 1; v_ 2])) = true /\
  verify en4 (st_at 3) (as_ev (lunatic_with (Some [v_ 1; v_ 2]))) = true /\
  (* ... not the nil voter, the absent one, the phantom, one too few, another order *)
  map (fun b => (lca_valid en4 (st_at 3) (lunatic_with b),
                 verify en4 (st_at 3) (as_ev (lunatic_with b))))
      [Some [v_ 1; v_ 2; v_ 3]; Some [v_ 1; v_ 2; v_ 4]; Some [phantom; v_ 1; v_ 2];
       Some [v_ 1]; Some [v_ 2; v_ 1]; None]
  = repeat (false, false) 6 /\
  (* equivocation: 1 and 2 signed for both blocks; 3 and 4 precommitted nil on one side *)
  lca_valid en4 (st_at 3) (equiv_with (Some [v_ 1; v_ 2])) = true /\
  verify en4 (st_at 3) (as_ev (equiv_with (Some [v_ 1; v_ 2]))) = true /\
  map (fun b => (lca_valid en4 (st_at 3) (equiv_with b),
                 verify en4 (st_at 3) (as_ev (equiv_with b))))
      [Some [v_ 1; v_ 2; v_ 3; v_ 4]; Some [v_ 1; v_ 2; v_ 3]; Some [v_ 1; v_ 2; v_ 4]; Some [v_ 1]]
  = repeat (false, false) 4 /\
  abci_of (equiv_with (Some [v_ 1; v_ 2])) = [(2, 1%N, 10, 3, 3 * ns, 40); (2, 2%N, 10, 3, 3 * ns, 40)].
Proof. vm_compute. repeat split; reflexivity. Qed.

Lemma slots_genuine_sl : forall cv sg,
  Forall2 (fun v s => s = sl (cs_flag s) (va_addr v) \/ cs_flag s = block_id_flag_absent) cv sg ->
  Forall2 slot_genuine cv sg.
Proof.
  intros cv sg F. induction F as [|v s cv sg H F IH]; constructor; auto.
  intro NA. destruct H as [H | H]; [|contradiction]. rewrite H. cbn. split; auto.
  apply negb_true_iff. apply Z.eqb_neq. rewrite H in NA. exact NA.
Qed.

(* the hypotheses of the theorems of section 10 hold of these two *)
Example C11_byz_wf_nonvacuous : forall b,
  lca_wf en4 (lunatic_with b) /\ lca_wf en4 (equiv_with b).
Proof.
  intro b. split; intros vals th t V R; vm_compute in V, R; inversion V; inversion R; subst;
    (constructor;
     [ repeat (constructor; [cbn; intuition discriminate|]); constructor
     | repeat (constructor; [cbn; intuition discriminate|]); constructor
     | apply slots_genuine_sl;
       repeat (constructor; [first [left; reflexivity | right; reflexivity]|]); constructor
     | try (intro H; vm_compute in H; discriminate); intros _; repeat split ]).
Qed.

(* F57: the unrepaired GetByzantineValidators (every slot that is not absent on both sides)
   also names 3 and 4, which signed for one block only: not the specified list *)
Example C11_unrepaired_F57_refuted :
  let l := equiv_with None in
  byz_validators_gen false l vs4 (hdr4 3) = [v_ 1; v_ 2; v_ 3; v_ 4] /\
  byz_ok l vs4 vs4 (hdr4 3) (byz_validators_gen false l vs4 (hdr4 3)) = false /\
  byz_validators l vs4 (hdr4 3) = [v_ 1; v_ 2] /\
  byz_ok l vs4 vs4 (hdr4 3) (byz_validators l vs4 (hdr4 3)) = true.
Proof. vm_compute. auto. Qed.

(* ------------------------------------------------------------------ 11. a crash between the
   point where a block is durably stored and evpool.Update, then the restart (F95)

   ApplyBlock updates the pool after the ABCI execution and the application's Commit; after a
   crash before that point the handshake re-applies the block with sm.EmptyEvidencePool{} and
   saves its state, and evidence.NewPool starts from that state and its own database
   (CrashModel.v: [crash_restart]).  WITH the repair (NewPool marks the evidence of the block at
   state.LastBlockHeight as committed): whatever the pool looked like when the process died
   ([Inv en p]: any history), whatever the block [evs] carried, and after any further history
   [ops] (restarts included), evidence of that block is not pending (so PendingEvidence does not
   propose it), is not admitted again and a block carrying it is refused. *)
Theorem C11_crash_before_update_never_twice : forall en p st evs e ops e',
  env_mono en -> Inv en p -> op_ok en (OpUpdate st evs) -> Forall (op_ok en) ops ->
  s_height (p_st p) < s_height st -> In e evs -> e_key e' = e_key e ->
  let q := run en (crash_restart true en p st evs) ops in
  ~ In e' (p_pending q) /\
  snd (add_evidence en q e') <> AddedNew /\
  forall l, In e' l -> snd (check_evidence true en q l) = false.
Proof. exact crash_never_twice. Qed.
Print Assumptions C11_crash_before_update_never_twice.

Example C11_crash_before_update_nonvacuous :
  let p := run en0 (new_pool (st_at 2)) [OpAdd (dv 2 101); OpAdd (dv 1 102)] in
  let q := crash_restart true en0 p (st_at 3) [dv 2 101] in
  map e_hash (p_pending p) = [102%N; 101%N] /\
  map e_hash (p_pending q) = [102%N] /\ p_size q = 1 /\ p_committed q = [(2, 101%N)] /\
  snd (add_evidence en0 q (dv 2 101)) = IgnoredCommitted /\
  snd (check_evidence true en0 q [dv 2 101]) = false /\
  fst (pending_evidence q (-1)) = [dv 1 102].
Proof. vm_compute. repeat split; reflexivity. Qed.

(* the unrepaired NewPool: the evidence block 3 committed is still pending after the restart,
   PendingEvidence proposes it and CheckEvidence accepts a later block that carries it again *)
Example C11_unrepaired_F95_refuted :
  let p := run en0 (new_pool (st_at 2)) [OpAdd (dv 2 101)] in
  let q := crash_restart false en0 p (st_at 3) [dv 2 101] in
  map e_hash (p_pending q) = [101%N] /\ p_committed q = [] /\
  map e_hash (fst (pending_evidence q (-1))) = [101%N] /\
  snd (check_evidence true en0 q [dv 2 101]) = true /\
  snd (add_evidence en0 q (dv 2 101)) = IgnoredPending.
Proof. vm_compute. repeat split; reflexivity. Qed.
