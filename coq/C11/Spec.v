(* C11 — SPECIFICATION of light client attack evidence: who is byzantine, and when such evidence
   is valid for a chain.  Written from
     spec/light-client/attacks/isolate-attackers_002_reviewed.md  [LCAI-FUNC-MAIN.1],
     spec/light-client/accountability, spec/consensus/evidence.md,
     the doc comments of types/evidence.go (LightClientAttackEvidence, GetByzantineValidators)
     and of evidence/verify.go (VerifyLightClientAttack),
   NOT from the code: nothing here uses Model.byz_validators / val_sort / validate_abci /
   verify_lca / verify (only the record types of Model.v and [vs_total]).  No proofs here; the
   relation with the model of the code is proved in SpecProofs.v and stated in Props.v.

     isolateMisbehavingProcesses(ev, bc):
       if violatesTMValidity(reference, ev_header)          -- lunatic
            return intersection(Signers(ev.ConflictingBlock.Commit), bonded validators of the common height)
       else if RoundOf(ref_commit) == RoundOf(ev_commit)    -- equivocation
            return intersection(Signers(ref_commit), Signers(ev_commit))
       else                                                 -- amnesia: nobody can be singled out
            return {}

   A validator SIGNED a block when the commit carries, in its slot, a signature FOR that block
   (BlockIDFlagCommit) that verifies under its key.  A precommit for nil and an absent slot are
   not signatures for the block.  The validators are reported as members of the validator set
   of the evidence's height (the common height): address and voting power of THAT set, ordered
   by voting power (descending), then address (ascending), each exactly once. *)
From Coq Require Import List ZArith NArith Bool.
From TM Require Import Generated.Consts C11.Model.
Import ListNotations.
Open Scope Z_scope.

(* ------------------------------------------------------------------ who signed *)

Definition signed_for (s : csig) : bool := (cs_flag s =? block_id_flag_commit) && cs_ok s.

Definition memN (a : N) (l : list N) : bool := existsb (N.eqb a) l.

(* Signers(ev_commit): addresses with a verifiable signature FOR the conflicting block *)
Definition signers_conf (sigs : list csig) : list N := map cs_addr (filter signed_for sigs).

(* Signers(ref_commit): our own commit is indexed by the validator set of its height; its
   signatures were verified when the block was committed *)
Definition signers_ref (tvals : valset) (flags : list Z) : list N :=
  map (fun p => va_addr (fst p))
      (filter (fun p => snd p =? block_id_flag_commit) (combine tvals flags)).

(* ------------------------------------------------------------------ kind of attack *)

Inductive attack := Lunatic | Equivocation | Amnesia.

(* violatesTMValidity [LCAI-NONVALID-OUTPUT.1] *)
Definition hashes_differ (l : lca) (t : header) : bool :=
  negb ((l_vh l =? h_vh t)%N && (l_nvh l =? h_nvh t)%N && (l_ch l =? h_ch t)%N
        && (l_ah l =? h_ah t)%N && (l_lrh l =? h_lrh t)%N).

Definition classify (l : lca) (t : header) : attack :=
  if hashes_differ l t then Lunatic
  else if l_round l =? h_round t then Equivocation
  else Amnesia.

(* [vals]: validator set of the evidence's height; [tvals]: validator set of the height of the
   reference block [t] (our block the conflicting one is compared with) *)
Definition blamed (l : lca) (tvals : valset) (t : header) (v : valinfo) : bool :=
  match classify l t with
  | Lunatic => memN (va_addr v) (signers_conf (l_sigs l))
  | Equivocation => memN (va_addr v) (signers_conf (l_sigs l))
                    && memN (va_addr v) (signers_ref tvals (h_flags t))
  | Amnesia => false
  end.

(* ------------------------------------------------------------------ the list *)

(* a strictly before b: more power, or equal power and smaller address *)
Definition outranks (a b : valinfo) : bool :=
  (va_power a >? va_power b) || ((va_power a =? va_power b) && (va_addr a <? va_addr b)%N).
Fixpoint ranked (l : list valinfo) : bool :=
  match l with
  | a :: (b :: _) as r => outranks a b && ranked r
  | _ => true
  end.
Definition same_val (a b : valinfo) : bool :=
  (va_addr a =? va_addr b)%N && (va_power a =? va_power b).
Definition mem_val (v : valinfo) (l : list valinfo) : bool := existsb (same_val v) l.

(* [claimed] is THE list of byzantine validators: strictly ordered, every entry is a member of
   the validator set of the evidence's height (address and power) that is to blame, and every
   member that is to blame is listed *)
Definition byz_ok (l : lca) (vals tvals : valset) (t : header) (claimed : list valinfo) : bool :=
  ranked claimed
  && forallb (fun v => mem_val v vals && blamed l tvals t v) claimed
  && forallb (fun v => negb (blamed l tvals t v) || mem_val v claimed) vals.

(* ------------------------------------------------------------------ the chain a node holds *)

Definition stored (en : env) (h : Z) : option header :=
  match en_meta en h with
  | Some m => if h_has_commit m then Some m else None
  | None => None
  end.

(* the block the conflicting block is compared with: the node's block of that height; when the
   conflicting block is ahead of the node (forward lunatic attack) the node's latest block,
   which must not be older than the conflicting block *)
Definition reference (en : env) (l : lca) : option (Z * header) :=
  match stored en (l_height l) with
  | Some t => Some (l_height l, t)
  | None =>
    if l_height l =? l_common l then None
    else match stored en (en_store_height en) with
         | Some t => if l_ctime l <=? h_time t then Some (en_store_height en, t) else None
         | None => None
         end
  end.

Definition claimed_of (l : lca) : list valinfo :=
  match l_byz l with Some b => b | None => [] end.

(* the evidence's list, or any other list (what ABCI() reports), judged against the chain *)
(* (the validator set of the reference block's height is only read to index our own commit in
   the equivocation case; unknown = nobody signed) *)
Definition vals_at (en : env) (h : Z) : valset :=
  match en_vals en h with Some x => x | None => [] end.
Definition byz_ok_on_chain (en : env) (l : lca) (claimed : list valinfo) : bool :=
  match en_vals en (l_common l), reference en l with
  | Some vals, Some (th, t) => byz_ok l vals (vals_at en th) t claimed
  | _, _ => false
  end.

(* ------------------------------------------------------------------ validity *)

Definition too_old (st : pstate) (height time : Z) : bool :=
  (s_max_blocks st <? s_height st - height) && (s_max_dur st <? s_time st - time).

(* light client attack evidence [l] is valid for the chain [en] at pool state [st] *)
Definition lca_valid (en : env) (st : pstate) (l : lca) : bool :=
  match stored en (l_common l), en_vals en (l_common l), reference en l with
  | Some cm, Some vals, Some (th, t) =>
    (l_time l =? h_time cm)                         (* evidence time = time of the common block *)
    && negb (too_old st (l_common l) (l_time l))    (* not expired under BOTH age limits *)
    && (if l_common l =? l_height l
        then negb (hashes_differ l t)               (* same height: a correctly derived header *)
        else l_trusting_ok l)                       (* else one skipping step: > 1/3 of [vals] signed *)
    && l_light_ok l                                 (* > 2/3 of the conflicting set signed *)
    && forallb (fun s => negb (cs_flag s =? block_id_flag_commit) || cs_ok s) (l_sigs l)
                                                    (* and no signature for the block is a fake *)
    && (l_total l =? vs_total vals)
    && negb ((th <? l_height l) && (h_time t <? l_ctime l))  (* ahead of us: must break time monotonicity *)
    && negb (h_hash t =? l_chash l)%N               (* a different block *)
    && byz_ok_on_chain en l (claimed_of l)
  | _, _, _ => false
  end.

(* the Go-level distinction the code makes and the specification does not: a non-nil empty
   ByzantineValidators slice (what protobuf decoding yields for an empty list) *)
Definition empty_not_nil (l : lca) : bool :=
  match l_byz l with Some [] => true | _ => false end.

(* ------------------------------------------------------------------ what ABCI() must report *)

(* entries: (type, validator address, validator power, height, time, total voting power) *)
Definition abci_ok (en : env) (l : lca) (entries : list (Z * N * Z * Z * Z * Z)) : bool :=
  match stored en (l_common l), en_vals en (l_common l) with
  | Some cm, Some vals =>
    forallb (fun x => let '(ty, _, _, h, tm, tot) := x in
                      (ty =? 2) && (h =? l_common l) && (tm =? h_time cm) && (tot =? vs_total vals))
            entries
    && byz_ok_on_chain en l
         (map (fun x => let '(_, a, p, _, _, _) := x in {| va_addr := a; va_power := p |}) entries)
  | _, _ => false
  end.
