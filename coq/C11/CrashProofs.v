(* C11 — proofs about the restart after a crash before evpool.Update (CrashModel.v). *)
From Coq Require Import List ZArith NArith Bool Lia.
From TM Require Import Generated.Consts C11.Model C11.Proofs C11.CrashModel.
Import ListNotations.
Open Scope Z_scope.

Lemma inv_drop_buffer : forall en p, Inv en p -> Inv en (set_buffer p []).
Proof.
  intros en p [[A B C D F] G]. split.
  - constructor; cbn; auto. intros va vb hi [].
  - exact G.
Qed.

Lemma update_advances : forall en p st evs,
  s_height (p_st p) < s_height st -> snd (update true en p st evs) = true.
Proof.
  intros en p st evs H. unfold update.
  destruct (s_height st <=? s_height (p_st p)) eqn:E; [apply Z.leb_le in E; lia|].
  reflexivity.
Qed.

Lemma crash_restart_as_run : forall en p st evs,
  crash_restart true en p st evs
  = run en (fst (update true en (set_buffer p []) st evs)) [OpRestart].
Proof. reflexivity. Qed.

Lemma crash_never_twice : forall en p st evs e ops e',
  env_mono en -> Inv en p -> op_ok en (OpUpdate st evs) -> Forall (op_ok en) ops ->
  s_height (p_st p) < s_height st -> In e evs -> e_key e' = e_key e ->
  let q := run en (crash_restart true en p st evs) ops in
  ~ In e' (p_pending q) /\
  snd (add_evidence en q e') <> AddedNew /\
  forall l, In e' l -> snd (check_evidence true en q l) = false.
Proof.
  intros en p st evs e ops e' M I U OK H Hin K. cbn zeta.
  rewrite crash_restart_as_run. unfold run. rewrite <- fold_left_app.
  change (fold_left (step en) ([OpRestart] ++ ops) (fst (update true en (set_buffer p []) st evs)))
    with (run en (fst (update true en (set_buffer p []) st evs)) (OpRestart :: ops)).
  set (p0 := set_buffer p []). set (p1 := fst (update true en p0 st evs)).
  assert (I0 : Inv en p0) by (apply inv_drop_buffer; exact I).
  assert (S : snd (update true en p0 st evs) = true) by (apply update_advances; exact H).
  assert (I1 : Inv en p1) by (apply (step_inv en p0 (OpUpdate st evs)); auto).
  assert (C1 : committed p1 (e_key e) = true).
  { apply update_committed; auto. right. split; auto. apply in_map; auto. }
  assert (OK' : Forall (op_ok en) (OpRestart :: ops)) by (constructor; [exact Logic.I | exact OK]).
  assert (Iq : Inv en (run en p1 (OpRestart :: ops))) by (apply run_inv; auto).
  assert (Cq : is_committed (run en p1 (OpRestart :: ops)) e' = true).
  { unfold is_committed. rewrite K. apply (run_committed en (OpRestart :: ops) p1 (e_key e)); auto. }
  split; [|split].
  - intro P. destruct Iq as [[_ _ D _ _] _]. specialize (D e' P).
    unfold is_committed in Cq. congruence.
  - intro A. apply admit_iff in A as [_ [A _]]. congruence.
  - intros l Hl. eapply committed_rejected; eauto.
Qed.
