(* C11 — lemmas and proofs about the evidence pool model (Model.v). *)
From Coq Require Import List ZArith NArith Bool Lia Sorting.Sorted.
From TM Require Import Generated.Consts C11.Model.
Import ListNotations.
Open Scope Z_scope.

(* ------------------------------------------------------------------ keys *)

Definition key_lt (a b : key) : Prop := fst a < fst b \/ (fst a = fst b /\ (snd a < snd b)%N).

Lemma key_eqb_eq : forall a b, key_eqb a b = true <-> a = b.
Proof.
  intros [h1 x1] [h2 x2]; unfold key_eqb; cbn. rewrite andb_true_iff, Z.eqb_eq, N.eqb_eq.
  split; [intros [-> ->]; reflexivity | intros E; inversion E; auto].
Qed.
Lemma key_eqb_refl : forall a, key_eqb a a = true.
Proof. intro a; apply key_eqb_eq; reflexivity. Qed.
Lemma key_eqb_neq : forall a b, key_eqb a b = false <-> a <> b.
Proof.
  intros a b; split; intros H.
  - intro E; apply key_eqb_eq in E; congruence.
  - destruct (key_eqb a b) eqn:E; auto. apply key_eqb_eq in E; contradiction.
Qed.
Lemma key_eqb_sym : forall a b, key_eqb a b = key_eqb b a.
Proof.
  intros a b. destruct (key_eqb a b) eqn:E.
  - apply key_eqb_eq in E; subst; symmetry; apply key_eqb_refl.
  - symmetry; apply key_eqb_neq; apply key_eqb_neq in E; congruence.
Qed.
Lemma key_ltb_lt : forall a b, key_ltb a b = true <-> key_lt a b.
Proof.
  intros [h1 x1] [h2 x2]; unfold key_ltb, key_lt; cbn.
  rewrite orb_true_iff, andb_true_iff, Z.ltb_lt, Z.eqb_eq, N.ltb_lt. tauto.
Qed.
Lemma key_lt_irrefl : forall a, ~ key_lt a a.
Proof. intros [h x] [H | [_ H]]; cbn in *; lia. Qed.
Lemma key_lt_trans : forall a b c, key_lt a b -> key_lt b c -> key_lt a c.
Proof. intros [h1 x1] [h2 x2] [h3 x3]; unfold key_lt; cbn; intros; lia. Qed.
Lemma key_total : forall a b, key_ltb a b = false -> key_eqb b a = false -> key_lt b a.
Proof.
  intros [h1 x1] [h2 x2]; unfold key_ltb, key_eqb, key_lt; cbn. intros H1 H2.
  apply orb_false_iff in H1 as [H1 H3]. apply Z.ltb_ge in H1.
  apply andb_false_iff in H2. apply andb_false_iff in H3.
  destruct (Z.eq_dec h1 h2) as [->|]; [right; split; auto | left; lia].
  destruct H2 as [H2 | H2]; [apply Z.eqb_neq in H2; lia|].
  destruct H3 as [H3 | H3]; [apply Z.eqb_neq in H3; lia|].
  apply N.eqb_neq in H2. apply N.ltb_ge in H3. lia.
Qed.
Lemma key_lt_height : forall a b, key_lt a b -> fst a <= fst b.
Proof. intros a b [H | [H _]]; lia. Qed.

Definition ev_lt (a b : evidence) : Prop := key_lt (e_key a) (e_key b).
Definition sorted (l : list evidence) : Prop := StronglySorted ev_lt l.

(* ------------------------------------------------------------------ has_key / ins / del *)

Lemma has_key_true : forall k l, has_key k l = true <-> exists e, In e l /\ e_key e = k.
Proof.
  intros k l; unfold has_key. rewrite existsb_exists.
  split; intros [e [H1 H2]]; exists e; split; auto; apply key_eqb_eq; auto.
Qed.
Lemma has_key_false : forall k l, has_key k l = false <-> forall e, In e l -> e_key e <> k.
Proof.
  intros k l; split.
  - intros H e He E. assert (has_key k l = true) by (apply has_key_true; eauto). congruence.
  - intros H. destruct (has_key k l) eqn:E; auto. apply has_key_true in E as [e [H1 H2]].
    exfalso; eapply H; eauto.
Qed.

Lemma ins_in : forall e l x, In x (ins e l) -> x = e \/ In x l.
Proof.
  induction l as [|y r IH]; cbn; intros x H.
  - destruct H; auto.
  - destruct (key_eqb (e_key y) (e_key e)).
    + destruct H; auto.
    + destruct (key_ltb (e_key e) (e_key y)).
      * destruct H; auto.
      * destruct H as [H | H]; auto. apply IH in H; tauto.
Qed.
Lemma ins_in_self : forall e l, In e (ins e l).
Proof.
  induction l as [|y r IH]; cbn; auto.
  destruct (key_eqb (e_key y) (e_key e)); [left; auto|].
  destruct (key_ltb (e_key e) (e_key y)); [left; auto | right; auto].
Qed.
Lemma ins_keeps : forall e l x, In x l -> e_key x <> e_key e -> In x (ins e l).
Proof.
  induction l as [|y r IH]; cbn; intros x H N; auto.
  destruct (key_eqb (e_key y) (e_key e)) eqn:E.
  - destruct H as [-> | H]; [apply key_eqb_eq in E; contradiction | right; auto].
  - destruct (key_ltb (e_key e) (e_key y)); [right; auto|].
    destruct H as [-> | H]; [left; auto | right; auto].
Qed.
Lemma ins_has_key : forall e l k,
  has_key k (ins e l) = key_eqb (e_key e) k || has_key k l.
Proof.
  induction l as [|y r IH]; intros k; cbn.
  - reflexivity.
  - destruct (key_eqb (e_key y) (e_key e)) eqn:E.
    + apply key_eqb_eq in E. cbn. rewrite E.
      destruct (key_eqb (e_key e) k); reflexivity.
    + destruct (key_ltb (e_key e) (e_key y)); cbn; [reflexivity|].
      fold (has_key k (ins e r)). rewrite IH. fold (has_key k r).
      destruct (key_eqb (e_key y) k), (key_eqb (e_key e) k); reflexivity.
Qed.
Lemma ins_length : forall e l, has_key (e_key e) l = false ->
  length (ins e l) = S (length l).
Proof.
  induction l as [|y r IH]; cbn; intros H; auto.
  apply orb_false_iff in H as [H1 H2]. rewrite H1.
  destruct (key_ltb (e_key e) (e_key y)); cbn; auto.
Qed.

Lemma sorted_ins : forall e l, sorted l -> sorted (ins e l).
Proof.
  unfold sorted. induction l as [|y r IH]; intros S; cbn.
  - constructor; constructor.
  - inversion S as [|? ? S' F]; subst.
    destruct (key_eqb (e_key y) (e_key e)) eqn:E.
    + apply key_eqb_eq in E. constructor; auto.
      eapply Forall_impl; [|exact F]. unfold ev_lt; intros a Ha; rewrite <- E; auto.
    + destruct (key_ltb (e_key e) (e_key y)) eqn:L.
      * apply key_ltb_lt in L. constructor; auto. constructor; auto.
        eapply Forall_impl; [|exact F]. unfold ev_lt; intros a Ha.
        eapply key_lt_trans; eauto.
      * constructor; [apply IH; auto|]. apply Forall_forall. intros x Hx.
        apply ins_in in Hx as [-> | Hx].
        -- unfold ev_lt. apply key_total; auto.
        -- rewrite Forall_forall in F; auto.
Qed.

Lemma filter_id : forall {A} (f : A -> bool) l, (forall x, In x l -> f x = true) -> filter f l = l.
Proof.
  induction l as [|y r IH]; cbn; intros H; auto.
  rewrite (H y (or_introl eq_refl)). f_equal. apply IH; intros; apply H; auto.
Qed.
Lemma del_in : forall k l x, In x (del k l) <-> In x l /\ e_key x <> k.
Proof.
  intros k l x; unfold del. rewrite filter_In, negb_true_iff, key_eqb_neq. tauto.
Qed.
Lemma del_has_key : forall k l, has_key k (del k l) = false.
Proof. intros k l; apply has_key_false; intros e H; apply del_in in H; tauto. Qed.
Lemma sorted_filter : forall f l, sorted l -> sorted (filter f l).
Proof.
  unfold sorted; induction l as [|y r IH]; intros S; cbn; auto.
  inversion S as [|? ? S' F]; subst. destruct (f y); auto.
  constructor; auto. apply Forall_forall; intros x Hx. apply filter_In in Hx as [Hx _].
  rewrite Forall_forall in F; auto.
Qed.
Lemma sorted_del : forall k l, sorted l -> sorted (del k l).
Proof. intros; apply sorted_filter; auto. Qed.
Lemma del_length : forall k l, sorted l -> has_key k l = true ->
  Z.of_nat (length (del k l)) = Z.of_nat (length l) - 1.
Proof.
  unfold sorted; induction l as [|y r IH]; intros SS H; [discriminate|].
  inversion SS as [|? ? S' F]; subst.
  unfold del; cbn [filter]. change (length (y :: r)) with (S (length r)). rewrite Nat2Z.inj_succ.
  unfold has_key in H; cbn [existsb] in H.
  destruct (key_eqb (e_key y) k) eqn:E; cbn [negb].
  - apply key_eqb_eq in E. subst k.
    assert (D : del (e_key y) r = r).
    { unfold del. apply filter_id. intros x Hx.
      apply negb_true_iff, key_eqb_neq. intro Q. rewrite Forall_forall in F.
      specialize (F x Hx). unfold ev_lt in F. rewrite Q in F.
      exact (key_lt_irrefl _ F). }
    unfold del in D. rewrite D. lia.
  - cbn [orb] in H. specialize (IH S' H). unfold del in IH.
    cbn [length]. rewrite Nat2Z.inj_succ. lia.
Qed.

(* ------------------------------------------------------------------ verify *)

Definition time_ok (en : env) (e : evidence) : Prop :=
  exists m, en_meta en (e_height e) = Some m /\ e_time e = h_time m.

Lemma verify_time : forall en st e, verify en st e = true -> time_ok en e.
Proof.
  intros en st e; unfold verify, time_ok.
  destruct (en_meta en (e_height e)) as [m|]; [|discriminate].
  destruct (e_time e =? h_time m) eqn:T; cbn [negb]; [|discriminate].
  intros _. exists m; split; auto. apply Z.eqb_eq; auto.
Qed.
Lemma verify_fresh : forall en st e, verify en st e = true -> ev_expired st e = false.
Proof.
  intros en st e; unfold verify, ev_expired, expired.
  destruct (en_meta en (e_height e)) as [m|]; [|discriminate].
  destruct (e_time e =? h_time m) eqn:T; cbn [negb]; [|discriminate].
  apply Z.eqb_eq in T. rewrite T.
  destruct ((s_time st - h_time m >? s_max_dur st) && (s_height st - e_height e >? s_max_blocks st)) eqn:X;
    [discriminate|]. intros _. rewrite andb_comm. exact X.
Qed.

(* ------------------------------------------------------------------ invariant *)

Record Inv0 (en : env) (p : pool) : Prop := {
  i_sorted : sorted (p_pending p);
  i_size : p_size p = Z.of_nat (length (p_pending p));
  i_disj : forall e, In e (p_pending p) -> existsb (key_eqb (e_key e)) (p_committed p) = false;
  i_time : forall e, In e (p_pending p) -> time_ok en e;
  i_buf : forall va vb hi, In (va, vb, hi) (p_buffer p) -> v_height va = v_height vb
}.
Definition Fresh (p : pool) : Prop :=
  forall e, In e (p_pending p) -> ev_expired (p_st p) e = false.
Definition Inv (en : env) (p : pool) : Prop := Inv0 en p /\ Fresh p.

Definition env_mono (en : env) : Prop :=
  forall h1 h2 m1 m2, en_meta en h1 = Some m1 -> en_meta en h2 = Some m2 -> h1 <= h2 ->
    h_time m1 <= h_time m2.

(* what the callers owe: consensus reports two votes of one height; the state handed to Update is
   the state after a block that is in the block store, and carries that block's time *)
Definition op_ok (en : env) (o : op) : Prop :=
  match o with
  | OpReport va vb _ => v_height va = v_height vb
  | OpUpdate st _ => exists m, en_meta en (s_height st) = Some m /\ h_time m = s_time st
  | _ => True
  end.

Lemma Inv0_ext : forall en p q,
  p_pending q = p_pending p -> p_size q = p_size p -> p_committed q = p_committed p ->
  p_buffer q = p_buffer p -> Inv0 en p -> Inv0 en q.
Proof.
  intros en p q E1 E2 E3 E4 [A B C D F]. constructor; rewrite ?E1, ?E2, ?E3, ?E4; auto.
Qed.

Lemma not_pending_no_key : forall p e x,
  is_pending p e = false -> In x (p_pending p) -> e_key x <> e_key e.
Proof. intros p e x H Hx. unfold is_pending in H. rewrite has_key_false in H. auto. Qed.

Lemma add_pending_inv0 : forall en p e,
  Inv0 en p -> is_pending p e = false -> is_committed p e = false -> time_ok en e ->
  Inv0 en (add_pending p e).
Proof.
  intros en p e [A B C D F] NP NC T. constructor; cbn.
  - apply sorted_ins; auto.
  - rewrite ins_length by exact NP. rewrite B. lia.
  - intros x Hx. apply ins_in in Hx as [-> | Hx]; auto.
  - intros x Hx. apply ins_in in Hx as [-> | Hx]; auto.
  - exact F.
Qed.
Lemma add_pending_fresh : forall p e,
  Fresh p -> ev_expired (p_st p) e = false -> Fresh (add_pending p e).
Proof. intros p e F H x Hx. cbn in Hx. apply ins_in in Hx as [-> | Hx]; cbn; auto. Qed.

(* ---- AddEvidence *)
Lemma add_evidence_inv : forall en p e, Inv en p -> Inv en (fst (add_evidence en p e)).
Proof.
  intros en p e [I F]. unfold add_evidence.
  destruct (is_pending p e) eqn:NP; [split; auto|].
  destruct (is_committed p e) eqn:NC; [split; auto|].
  destruct (verify en (p_st p) e) eqn:V; cbn [negb fst]; [|split; auto].
  split.
  - eapply Inv0_ext with (p := add_pending p e); try reflexivity.
    apply add_pending_inv0; auto. eapply verify_time; eauto.
  - intros x Hx. cbn in Hx. apply (add_pending_fresh p e F (verify_fresh _ _ _ V) x Hx).
Qed.

(* ---- CheckEvidence *)
Definition check_item (en : env) (p : pool) (e : evidence) : option pool :=
  if is_lca e || negb (is_pending p e) then
    if is_committed p e then None
    else if negb (verify en (p_st p) e) then None
    else Some (if is_pending p e then p else add_pending p e)
  else Some p.

Lemma check_loop_cons : forall en seen e r p,
  check_loop true en seen (e :: r) p =
  match check_item en p e with
  | None => (p, false)
  | Some p' => if existsb (N.eqb (e_hash e)) seen then (p', false)
               else check_loop true en (e_hash e :: seen) r p'
  end.
Proof.
  intros. cbn [check_loop]. unfold check_item.
  destruct (is_lca e || negb (is_pending p e)); [|reflexivity].
  destruct (is_committed p e); [reflexivity|].
  destruct (negb (verify en (p_st p) e)); [reflexivity|].
  cbn [andb]. reflexivity.
Qed.

Lemma check_item_spec : forall en p e p',
  check_item en p e = Some p' ->
  (p' = p /\ (is_pending p e = true)) \/
  (p' = add_pending p e /\ is_pending p e = false /\ is_committed p e = false /\
   verify en (p_st p) e = true).
Proof.
  intros en p e p'. unfold check_item.
  destruct (is_pending p e) eqn:NP.
  - destruct (is_lca e || negb true).
    + destruct (is_committed p e); [discriminate|].
      destruct (verify en (p_st p) e); cbn; [|discriminate]. intros E; inversion E; auto.
    + intros E; inversion E; auto.
  - rewrite orb_true_r. destruct (is_committed p e); [discriminate|].
    destruct (verify en (p_st p) e); cbn; [|discriminate]. intros E; inversion E; auto 6.
Qed.

Lemma check_item_inv : forall en p e p',
  Inv en p -> check_item en p e = Some p' ->
  Inv en p' /\ p_st p' = p_st p /\ p_committed p' = p_committed p /\ p_buffer p' = p_buffer p.
Proof.
  intros en p e p' [I F] H. apply check_item_spec in H as [[-> _] | [-> [NP [NC V]]]].
  - split; [split; auto | auto].
  - split; [split | auto].
    + apply add_pending_inv0; auto. eapply verify_time; eauto.
    + apply add_pending_fresh; auto. eapply verify_fresh; eauto.
Qed.

Lemma check_loop_inv : forall en evs seen p,
  Inv en p ->
  let q := fst (check_loop true en seen evs p) in
  Inv en q /\ p_st q = p_st p /\ p_committed q = p_committed p /\ p_buffer q = p_buffer p.
Proof.
  induction evs as [|e r IH]; intros seen p I; cbn zeta.
  - cbn. auto.
  - rewrite check_loop_cons. destruct (check_item en p e) as [p'|] eqn:CI; [|cbn; auto].
    destruct (check_item_inv _ _ _ _ I CI) as [I' [E1 [E2 E3]]].
    destruct (existsb (N.eqb (e_hash e)) seen); [cbn; auto|].
    specialize (IH (e_hash e :: seen) p' I'). cbn zeta in IH.
    destruct IH as [A [B [C D]]]. repeat split; try apply A; congruence.
Qed.

(* ---- removeExpiredPendingEvidence *)
Lemma expired_prefix_spec : forall st l a b,
  expired_prefix st l = (a, b) ->
  l = a ++ b /\ Forall (fun e => ev_expired st e = true) a /\
  match b with [] => True | x :: _ => ev_expired st x = false end.
Proof.
  induction l as [|e r IH]; cbn; intros a b H.
  - inversion H; subst; auto.
  - destruct (ev_expired st e) eqn:X.
    + destruct (expired_prefix st r) as [a' b'] eqn:R. inversion H; subst.
      destruct (IH _ _ eq_refl) as [E [F T]]. subst r. repeat split; auto.
    + inversion H; subst. cbn. auto.
Qed.

Lemma sorted_app_r : forall a b, sorted (a ++ b) -> sorted b.
Proof.
  unfold sorted; induction a as [|x a IH]; cbn; intros b H; auto.
  inversion H; subst; auto.
Qed.

Lemma sorted_head_fresh : forall en st x r,
  env_mono en -> sorted (x :: r) -> (forall e, In e (x :: r) -> time_ok en e) ->
  ev_expired st x = false -> forall e, In e (x :: r) -> ev_expired st e = false.
Proof.
  intros en st x r M S T X e [<- | He]; auto.
  inversion S as [|? ? S' F]; subst. rewrite Forall_forall in F. specialize (F e He).
  apply key_lt_height in F. cbn in F.
  destruct (T x (or_introl eq_refl)) as [mx [Hx Ex]].
  destruct (T e (or_intror He)) as [me [Hm Em]].
  pose proof (M _ _ _ _ Hx Hm F) as Le.
  unfold ev_expired, expired in *. rewrite Ex in X. rewrite Em.
  apply andb_false_iff in X. apply andb_false_iff.
  destruct X as [X | X]; [left | right]; apply Z.gtb_ltb in X || idtac.
  - rewrite Z.gtb_ltb in *. apply Z.ltb_ge in X. apply Z.ltb_ge. lia.
  - rewrite Z.gtb_ltb in *. apply Z.ltb_ge in X. apply Z.ltb_ge. lia.
Qed.

Lemma remove_expired_pending : forall p,
  exists gone, p_pending p = gone ++ p_pending (remove_expired p) /\
    Forall (fun e => ev_expired (p_st p) e = true) gone /\
    p_size (remove_expired p) = p_size p - Z.of_nat (length gone) /\
    p_committed (remove_expired p) = p_committed p /\ p_st (remove_expired p) = p_st p /\
    p_buffer (remove_expired p) = p_buffer p /\
    match p_pending (remove_expired p) with [] => True
    | x :: _ => ev_expired (p_st p) x = false end.
Proof.
  intros p. unfold remove_expired.
  destruct (expired_prefix (p_st p) (p_pending p)) as [gone rest] eqn:E.
  destruct (expired_prefix_spec _ _ _ _ E) as [A [B C]].
  exists gone. cbn. repeat split; auto.
Qed.

Lemma remove_expired_inv : forall en p, env_mono en -> Inv0 en p -> Inv en (remove_expired p).
Proof.
  intros en p M [A B C D F].
  destruct (remove_expired_pending p) as [gone [E [G [Sz [Cm [St [Bf Hd]]]]]]].
  assert (SR : sorted (p_pending (remove_expired p))).
  { apply sorted_app_r with gone. rewrite <- E; auto. }
  assert (IN : forall e, In e (p_pending (remove_expired p)) -> In e (p_pending p)).
  { intros e He. rewrite E. apply in_or_app; auto. }
  split.
  - constructor; auto.
    + rewrite Sz, B, E, app_length. lia.
    + rewrite Cm. auto.
    + rewrite Bf. auto.
  - intros e He. rewrite St.
    destruct (p_pending (remove_expired p)) as [|x r] eqn:P; [destruct He|].
    eapply sorted_head_fresh with (en := en) (x := x) (r := r); eauto.
Qed.

(* ---- markEvidenceAsCommitted *)
Lemma remove_pending_inv0 : forall en p e,
  Inv0 en p -> is_pending p e = true -> Inv0 en (remove_pending p e).
Proof.
  intros en p e [A B C D F] P. constructor; cbn.
  - apply sorted_del; auto.
  - rewrite del_length; auto. lia.
  - intros x Hx. apply del_in in Hx as [Hx _]; auto.
  - intros x Hx. apply del_in in Hx as [Hx _]; auto.
  - exact F.
Qed.

Lemma mark_loop_inv : forall en evs p hs,
  Inv0 en p ->
  let q := fst (mark_loop evs p hs) in
  Inv0 en q /\ p_st q = p_st p /\ p_buffer q = p_buffer p /\
  (forall k, existsb (key_eqb k) (p_committed p) = true \/ In k (map e_key evs) ->
             existsb (key_eqb k) (p_committed q) = true) /\
  (forall x, In x (p_pending q) -> In x (p_pending p)).
Proof.
  induction evs as [|e r IH]; intros p hs I; cbn zeta.
  - cbn. split; [exact I|]. split; [reflexivity|]. split; [reflexivity|].
    split; [intros k [H | []]; auto | auto].
  - cbn [mark_loop].
    set (ph := if is_pending p e then (remove_pending p e, e_hash e :: hs) else (p, hs)).
    assert (I1 : Inv0 en (fst ph) /\ p_st (fst ph) = p_st p /\ p_buffer (fst ph) = p_buffer p /\
                 p_committed (fst ph) = p_committed p /\ is_pending (fst ph) e = false /\
                 (forall x, In x (p_pending (fst ph)) -> In x (p_pending p))).
    { subst ph. destruct (is_pending p e) eqn:P; cbn [fst].
      - split; [apply remove_pending_inv0; auto|]. split; [reflexivity|]. split; [reflexivity|].
        split; [reflexivity|]. split.
        + unfold is_pending; cbn. apply del_has_key.
        + cbn. intros x Hx. apply del_in in Hx; tauto.
      - split; [exact I|]. split; [reflexivity|]. split; [reflexivity|].
        split; [reflexivity|]. split; auto. }
    destruct ph as [p1 hs1]. cbn [fst] in I1. destruct I1 as [I1 [S1 [B1 [C1 [NP1 Sub1]]]]].
    set (p2 := set_committed p1 (e_key e :: p_committed p1)).
    assert (I2 : Inv0 en p2).
    { destruct I1 as [A B C D F]. constructor; cbn; auto.
      intros x Hx. rewrite (C x Hx), orb_false_r.
      apply key_eqb_neq. eapply not_pending_no_key; eauto. }
    specialize (IH p2 hs1 I2). cbn zeta in IH. destruct IH as [J [S2 [B2 [Cm Sub]]]].
    split; [exact J|]. split; [rewrite S2; cbn; auto|]. split; [rewrite B2; cbn; auto|].
    split.
    + intros k H. apply Cm. cbn [p_committed p2 set_committed existsb].
      destruct H as [H | [<- | H]].
      * left. rewrite C1, H. apply orb_true_r.
      * left. rewrite key_eqb_refl. reflexivity.
      * right; auto.
    + intros x Hx. apply Sub1. apply Sub in Hx. exact Hx.
Qed.

Lemma mark_committed_inv : forall en evs p,
  Inv0 en p ->
  let q := mark_committed evs p in
  Inv0 en q /\ p_st q = p_st p /\ p_buffer q = p_buffer p /\
  (forall k, existsb (key_eqb k) (p_committed p) = true \/ In k (map e_key evs) ->
             existsb (key_eqb k) (p_committed q) = true) /\
  (forall x, In x (p_pending q) -> In x (p_pending p)).
Proof.
  intros en evs p I. cbn zeta. unfold mark_committed.
  pose proof (mark_loop_inv en evs p [] I) as H. cbn zeta in H.
  destruct (mark_loop evs p []) as [p1 hs]. cbn [fst] in H.
  destruct H as [J [S [B [C Sub]]]].
  split; [eapply Inv0_ext with (p := p1); auto|]. cbn. auto.
Qed.

(* ---- processConsensusBuffer *)
Lemma new_dve_height : forall v1 v2 t vs hi e,
  v_height v1 = v_height v2 -> new_dve v1 v2 t vs hi = Some e ->
  e_height e = v_height v1 /\ e_time e = t.
Proof.
  intros v1 v2 t vs hi e H. unfold new_dve.
  destruct (vs_get vs (v_addr v1)); [|discriminate].
  destruct (v_bid v1 <? v_bid v2)%N; intros E; inversion E; subst; cbn; auto.
Qed.

Lemma buffer_evidence_time : forall en st va vb hi e,
  (exists m, en_meta en (s_height st) = Some m /\ h_time m = s_time st) ->
  v_height va = v_height vb ->
  buffer_evidence en st (va, vb, hi) = Some e -> time_ok en e.
Proof.
  intros en st va vb hi e [m [Hm Tm]] HH. unfold buffer_evidence, time_ok.
  destruct (v_height va =? s_height st) eqn:E1.
  - apply Z.eqb_eq in E1. intros N. apply new_dve_height in N as [Nh Nt]; auto.
    exists m. rewrite Nh, E1, Nt. auto.
  - destruct (v_height va <? s_height st); [|discriminate].
    destruct (en_vals en (v_height va)); [|discriminate].
    destruct (en_meta en (v_height va)) as [m'|] eqn:M'; [|discriminate].
    intros N. apply new_dve_height in N as [Nh Nt]; auto.
    exists m'. rewrite Nh, Nt. auto.
Qed.

Definition buffer_item (en : env) (st : pstate) (p : pool) (it : vote * vote * hint) : pool :=
  match buffer_evidence en st it with
  | None => p
  | Some e =>
    if is_pending p e then p
    else if is_committed p e then p
    else let p1 := add_pending p e in set_clist p1 (p_clist p1 ++ [e])
  end.
Lemma buffer_loop_cons : forall en st it r p,
  buffer_loop en st (it :: r) p = buffer_loop en st r (buffer_item en st p it).
Proof. reflexivity. Qed.

Lemma buffer_item_inv0 : forall en st p va vb hi,
  (exists m, en_meta en (s_height st) = Some m /\ h_time m = s_time st) ->
  v_height va = v_height vb -> Inv0 en p ->
  let q := buffer_item en st p (va, vb, hi) in
  Inv0 en q /\ p_st q = p_st p /\ p_committed q = p_committed p /\ p_buffer q = p_buffer p.
Proof.
  intros en st p va vb hi U HH I. cbn zeta. unfold buffer_item.
  destruct (buffer_evidence en st (va, vb, hi)) as [e|] eqn:BE; [|auto].
  destruct (is_pending p e) eqn:NP; [auto|].
  destruct (is_committed p e) eqn:NC; [auto|].
  split; [|cbn; auto].
  eapply Inv0_ext with (p := add_pending p e); try reflexivity.
  apply add_pending_inv0; auto. eapply buffer_evidence_time; eauto.
Qed.

Lemma buffer_loop_inv0 : forall en st b p,
  (exists m, en_meta en (s_height st) = Some m /\ h_time m = s_time st) ->
  (forall va vb hi, In (va, vb, hi) b -> v_height va = v_height vb) ->
  Inv0 en p ->
  let q := buffer_loop en st b p in
  Inv0 en q /\ p_st q = p_st p /\ p_committed q = p_committed p /\ p_buffer q = p_buffer p.
Proof.
  induction b as [|[[va vb] hi] r IH]; intros p U HB I; cbn zeta.
  - cbn. auto.
  - rewrite buffer_loop_cons.
    destruct (buffer_item_inv0 en st p va vb hi U (HB _ _ _ (or_introl eq_refl)) I) as [I1 [A [B C]]].
    specialize (IH (buffer_item en st p (va, vb, hi)) U
                   (fun a b c H => HB a b c (or_intror H)) I1).
    cbn zeta in IH. destruct IH as [J [A' [B' C']]].
    split; [exact J|]. split; [congruence|]. split; congruence.
Qed.

Lemma Inv0_set_buffer_nil : forall en p, Inv0 en p -> Inv0 en (set_buffer p []).
Proof. intros en p [A B C D F]. constructor; cbn; auto. intros ? ? ? []. Qed.
Lemma Inv0_set_state : forall en p st, Inv0 en p -> Inv0 en (set_state p st).
Proof. intros en p st [A B C D F]. constructor; cbn; auto. Qed.

Lemma nil_fresh : forall p, p_pending p = [] -> Fresh p.
Proof. intros p E e He. rewrite E in He. destruct He. Qed.

(* ---- Update *)
Lemma update_inv : forall en p st evs,
  env_mono en -> op_ok en (OpUpdate st evs) -> Inv en p -> Inv en (fst (update true en p st evs)).
Proof.
  intros en p st evs M U [I F]. unfold update.
  destruct (s_height st <=? s_height (p_st p)); [split; auto|].
  cbn [fst orb andb].
  assert (I1 : Inv0 en (set_state (process_buffer en st p) st)).
  { apply Inv0_set_state. unfold process_buffer. apply Inv0_set_buffer_nil.
    apply (buffer_loop_inv0 en st (p_buffer p) p U (i_buf _ _ I) I). }
  destruct (mark_committed_inv en evs _ I1) as [I3 [S3 _]].
  set (p3 := mark_committed evs (set_state (process_buffer en st p) st)) in *.
  rewrite andb_true_r.
  destruct (p_size p3 >? 0) eqn:SZ.
  - apply remove_expired_inv; auto.
  - split; auto. apply nil_fresh.
    rewrite Z.gtb_ltb in SZ. apply Z.ltb_ge in SZ. rewrite (i_size _ _ I3) in SZ.
    destruct (p_pending p3); auto. cbn in SZ. lia.
Qed.

(* ---- restart *)
Lemma restart_inv : forall en p, env_mono en -> Inv en p -> Inv en (restart p).
Proof.
  intros en p M [I F]. unfold restart.
  set (p0 := set_clist (set_buffer p []) []).
  assert (I0 : Inv0 en p0).
  { eapply Inv0_ext with (p := set_buffer p []); try reflexivity. apply Inv0_set_buffer_nil; auto. }
  destruct (remove_expired_inv en p0 M I0) as [[A B C D G] Fr].
  split.
  - constructor; cbn; auto.
  - intros e He. cbn in *. auto.
Qed.

(* ---- report *)
Lemma report_inv : forall en p va vb hi,
  v_height va = v_height vb -> Inv en p -> Inv en (report p va vb hi).
Proof.
  intros en p va vb hi H [[A B C D G] F]. split; [constructor; cbn; auto | exact F].
  intros a b c Hin. apply in_app_or in Hin as [Hin | [E | []]]; eauto. inversion E; subst; auto.
Qed.

Lemma new_pool_inv : forall en st, Inv en (new_pool st).
Proof.
  intros en st. split.
  - constructor; cbn.
    + constructor.
    + reflexivity.
    + intros e [].
    + intros e [].
    + intros ? ? ? [].
  - intros e [].
Qed.

Theorem step_inv : forall en p o,
  env_mono en -> op_ok en o -> Inv en p -> Inv en (step en p o).
Proof.
  intros en p o M OK I. destruct o as [e | evs | st evs | va vb hi |]; cbn [step step_gen].
  - apply add_evidence_inv; auto.
  - apply (check_loop_inv en evs [] p I).
  - apply update_inv; auto.
  - apply report_inv; auto.
  - apply restart_inv; auto.
Qed.

Theorem run_inv : forall en ops p,
  env_mono en -> Forall (op_ok en) ops -> Inv en p -> Inv en (run en p ops).
Proof.
  induction ops as [|o r IH]; intros p M OK I; cbn; auto.
  inversion OK; subst. apply IH; auto. apply step_inv; auto.
Qed.

(* ------------------------------------------------------------------ CheckEvidence: exact
   acceptance condition *)

Definition accept_cond (en : env) (p : pool) (e : evidence) : bool :=
  if is_lca e || negb (is_pending p e) then negb (is_committed p e) && verify en (p_st p) e
  else true.

Lemma accept_cond_spec : forall en p e,
  accept_cond en p e = true <->
  (is_lca e = false /\ is_pending p e = true) \/
  (is_committed p e = false /\ verify en (p_st p) e = true).
Proof.
  intros en p e. unfold accept_cond.
  destruct (is_lca e), (is_pending p e), (is_committed p e), (verify en (p_st p) e); cbn;
    intuition discriminate.
Qed.

Lemma check_item_none : forall en p e,
  check_item en p e = None <-> accept_cond en p e = false.
Proof.
  intros en p e. unfold check_item, accept_cond.
  destruct (is_lca e || negb (is_pending p e)); [|split; discriminate].
  destruct (is_committed p e); cbn; [tauto|].
  destruct (verify en (p_st p) e); cbn; split; auto; discriminate.
Qed.

Definition same_view (seen : list N) (p0 q : pool) : Prop :=
  p_st q = p_st p0 /\ p_committed q = p_committed p0 /\
  forall e, ~ In (e_hash e) seen -> is_pending q e = is_pending p0 e.

Lemma existsb_Neqb : forall x l, existsb (N.eqb x) l = true <-> In x l.
Proof.
  intros x l. rewrite existsb_exists. split.
  - intros [y [H E]]. apply N.eqb_eq in E. subst; auto.
  - intros H. exists x. split; auto. apply N.eqb_refl.
Qed.

Lemma accept_cond_view : forall en seen p0 q e,
  same_view seen p0 q -> ~ In (e_hash e) seen -> accept_cond en q e = accept_cond en p0 e.
Proof.
  intros en seen p0 q e [S [C P]] N. unfold accept_cond, is_committed.
  rewrite (P e N), S, C. reflexivity.
Qed.

Lemma check_item_view : forall en seen p0 q e q',
  same_view seen p0 q -> check_item en q e = Some q' -> same_view (e_hash e :: seen) p0 q'.
Proof.
  intros en seen p0 q e q' [S [C P]] H.
  apply check_item_spec in H as [[-> _] | [-> [NP _]]].
  - split; [|split]; auto. intros x Hx. apply P. intro; apply Hx; right; auto.
  - split; [|split]; auto. intros x Hx. unfold is_pending at 1. unfold add_pending, set_pending. cbn [p_pending].
    rewrite ins_has_key. fold (is_pending q x).
    rewrite P by (intro; apply Hx; right; auto).
    replace (key_eqb (e_key e) (e_key x)) with false; auto.
    symmetry. apply key_eqb_neq. intro K. apply Hx. left. unfold e_key in K. inversion K; auto.
Qed.

Lemma check_loop_iff : forall en p0 evs seen q,
  same_view seen p0 q ->
  (snd (check_loop true en seen evs q) = true <->
   (NoDup (map e_hash evs) /\ (forall e, In e evs -> ~ In (e_hash e) seen)) /\
   Forall (fun e => accept_cond en p0 e = true) evs).
Proof.
  induction evs as [|e r IH]; intros seen q V.
  - cbn. split; auto. intros _. split; [split|]; [constructor | intros ? [] | constructor].
  - rewrite check_loop_cons.
    destruct (existsb (N.eqb (e_hash e)) seen) eqn:X.
    + apply existsb_Neqb in X. split.
      * destruct (check_item en q e); cbn; discriminate.
      * intros [[_ H] _]. exfalso. apply (H e (or_introl eq_refl) X).
    + assert (NX : ~ In (e_hash e) seen) by (intro H; apply existsb_Neqb in H; congruence).
      pose proof (accept_cond_view en seen p0 q e V NX) as AV.
      destruct (check_item en q e) as [q'|] eqn:CI.
      * assert (A : accept_cond en p0 e = true).
        { rewrite <- AV. destruct (accept_cond en q e) eqn:Z; auto.
          apply check_item_none in Z. congruence. }
        rewrite (IH (e_hash e :: seen) q' (check_item_view _ _ _ _ _ _ V CI)).
        cbn [map]. split.
        -- intros [[ND NS] F]. split; [split|].
           ++ constructor; auto. intro Hin. apply in_map_iff in Hin as [x [Hx1 Hx2]].
              apply (NS x Hx2). left; auto.
           ++ intros x [<- | Hx]; auto. intro; apply (NS x Hx); right; auto.
           ++ constructor; auto.
        -- intros [[ND NS] F]. inversion ND; subst. inversion F; subst. split; [split|]; auto.
           intros x Hx [E | Hin].
           ++ apply H1. apply in_map_iff. exists x; auto.
           ++ apply (NS x (or_intror Hx) Hin).
      * apply check_item_none in CI. rewrite AV in CI. cbn. split; [discriminate|].
        intros [_ F]. inversion F; subst. congruence.
Qed.

Theorem check_block_iff : forall en p evs,
  snd (check_evidence true en p evs) = true <->
  NoDup (map e_hash evs) /\ Forall (fun e => accept_cond en p e = true) evs.
Proof.
  intros en p evs. unfold check_evidence.
  rewrite (check_loop_iff en p evs [] p).
  - split; [intros [[A _] B]; auto | intros [A B]; repeat split; auto].
  - split; [|split]; auto.
Qed.

(* ------------------------------------------------------------------ committed is forever *)

Definition committed (p : pool) (k : key) : bool := existsb (key_eqb k) (p_committed p).

Lemma remove_expired_committed : forall p, p_committed (remove_expired p) = p_committed p.
Proof. intros p. destruct (remove_expired_pending p) as [g H]. tauto. Qed.

Lemma update_committed : forall en p st evs k,
  Inv en p -> op_ok en (OpUpdate st evs) ->
  (committed p k = true \/ (snd (update true en p st evs) = true /\ In k (map e_key evs))) ->
  committed (fst (update true en p st evs)) k = true.
Proof.
  intros en p st evs k [I F] U H. unfold update in *.
  destruct (s_height st <=? s_height (p_st p)).
  - cbn in *. destruct H as [H | [H _]]; auto; discriminate.
  - cbn [fst snd orb andb] in *. rewrite andb_true_r.
    assert (I1 : Inv0 en (set_state (process_buffer en st p) st)).
    { apply Inv0_set_state. unfold process_buffer. apply Inv0_set_buffer_nil.
      apply (buffer_loop_inv0 en st (p_buffer p) p U (i_buf _ _ I) I). }
    destruct (mark_committed_inv en evs _ I1) as [_ [_ [_ [Cm _]]]].
    assert (C0 : p_committed (set_state (process_buffer en st p) st) = p_committed p).
    { cbn. apply (buffer_loop_inv0 en st (p_buffer p) p U (i_buf _ _ I) I). }
    unfold committed.
    match goal with |- context [if ?c then _ else _] => destruct c end;
      rewrite ?remove_expired_committed; apply Cm; rewrite C0;
      destruct H as [H | [_ H]]; auto.
Qed.

Lemma step_committed : forall en p o k,
  Inv en p -> op_ok en o -> committed p k = true -> committed (step en p o) k = true.
Proof.
  intros en p o k I OK H. destruct o as [e | evs | st evs | va vb hi |]; cbn [step step_gen].
  - unfold add_evidence. destruct (is_pending p e); auto. destruct (is_committed p e); auto.
    destruct (negb (verify en (p_st p) e)); auto.
  - destruct (check_loop_inv en evs [] p I) as [_ [_ [C _]]]. unfold committed, check_evidence.
    rewrite C. auto.
  - apply update_committed; auto.
  - exact H.
  - unfold restart, committed. cbn. rewrite remove_expired_committed. exact H.
Qed.

Lemma run_committed : forall en ops p k,
  env_mono en -> Inv en p -> Forall (op_ok en) ops -> committed p k = true ->
  committed (run en p ops) k = true.
Proof.
  induction ops as [|o r IH]; intros p k M I OK H; cbn; auto.
  inversion OK; subst. apply IH; auto. apply step_inv; auto. apply step_committed; auto.
Qed.

Lemma committed_not_pending : forall en p e,
  Inv0 en p -> is_committed p e = true -> is_pending p e = false.
Proof.
  intros en p e I C. destruct (is_pending p e) eqn:P; auto.
  apply has_key_true in P as [x [Hx K]]. pose proof (i_disj _ _ I x Hx) as D.
  rewrite K in D. unfold is_committed in C. congruence.
Qed.

Lemma committed_rejected : forall en p e evs,
  Inv en p -> is_committed p e = true -> In e evs ->
  snd (check_evidence true en p evs) = false.
Proof.
  intros en p e evs [I F] C Hin. destruct (snd (check_evidence true en p evs)) eqn:X; auto.
  apply check_block_iff in X as [_ Fa]. rewrite Forall_forall in Fa. specialize (Fa e Hin).
  unfold accept_cond in Fa. rewrite (committed_not_pending en p e I C), C in Fa.
  rewrite orb_true_r in Fa. discriminate.
Qed.

(* ------------------------------------------------------------------ restart *)

Lemma forall_expired_fresh_nil : forall st (g : list evidence),
  Forall (fun e => ev_expired st e = true) g -> (forall e, In e g -> ev_expired st e = false) ->
  g = [].
Proof.
  intros st [|x g] F H; auto. inversion F; subst.
  rewrite (H x (or_introl eq_refl)) in H2. discriminate.
Qed.

Theorem restart_preserves : forall en p,
  Inv en p ->
  p_pending (restart p) = p_pending p /\ p_committed (restart p) = p_committed p /\
  p_size (restart p) = p_size p /\ p_st (restart p) = p_st p.
Proof.
  intros en p [I F]. unfold restart.
  set (p0 := set_clist (set_buffer p []) []).
  destruct (remove_expired_pending p0) as [g [E [G [Sz [Cm [St [Bf Hd]]]]]]].
  assert (g = []).
  { apply forall_expired_fresh_nil with (st := p_st p0); auto.
    intros e He. apply F. change (p_pending p) with (p_pending p0). rewrite E.
    apply in_or_app; auto. }
  subst g. cbn [app] in E. cbn [p_pending p_committed p_size p_st set_clist set_pending].
  rewrite <- E, Cm, St. cbn. rewrite (i_size _ _ I). auto.
Qed.

(* without the invariant: whatever is pending and has not expired under both limits survives *)
Theorem restart_keeps_unexpired : forall p e,
  In e (p_pending p) -> ev_expired (p_st p) e = false -> In e (p_pending (restart p)).
Proof.
  intros p e He X. unfold restart.
  set (p0 := set_clist (set_buffer p []) []).
  destruct (remove_expired_pending p0) as [g [E [G _]]].
  cbn [p_pending set_clist set_pending].
  change (p_pending p) with (p_pending p0) in He. rewrite E in He.
  apply in_app_or in He as [He | He]; auto.
  rewrite Forall_forall in G. specialize (G e He). cbn in G. congruence.
Qed.

(* ------------------------------------------------------------------ pending evidence leaves
   only by being committed or by expiring under both limits *)

Lemma add_pending_keeps : forall p e x,
  is_pending p e = false -> In x (p_pending p) -> In x (p_pending (add_pending p e)).
Proof.
  intros p e x NP Hx. cbn. apply ins_keeps; auto. eapply not_pending_no_key; eauto.
Qed.

Lemma check_loop_keeps : forall en evs seen p x,
  In x (p_pending p) -> In x (p_pending (fst (check_loop true en seen evs p))).
Proof.
  induction evs as [|e r IH]; intros seen p x Hx; [cbn; auto|].
  rewrite check_loop_cons. destruct (check_item en p e) as [p'|] eqn:CI; [|cbn; auto].
  assert (Hx' : In x (p_pending p')).
  { apply check_item_spec in CI as [[-> _] | [-> [NP _]]]; auto. apply add_pending_keeps; auto. }
  destruct (existsb (N.eqb (e_hash e)) seen); [cbn; auto|]. apply IH; auto.
Qed.

Lemma buffer_loop_keeps : forall en st b p x,
  In x (p_pending p) -> In x (p_pending (buffer_loop en st b p)).
Proof.
  induction b as [|it r IH]; intros p x Hx; [cbn; auto|].
  rewrite buffer_loop_cons. apply IH. unfold buffer_item.
  destruct (buffer_evidence en st it) as [e|]; auto.
  destruct (is_pending p e) eqn:NP; auto. destruct (is_committed p e); auto.
  cbn [p_pending set_clist]. apply add_pending_keeps; auto.
Qed.

Lemma mark_loop_keeps : forall evs p hs x,
  In x (p_pending p) ->
  In x (p_pending (fst (mark_loop evs p hs))) \/ In (e_key x) (map e_key evs).
Proof.
  induction evs as [|e r IH]; intros p hs x Hx; [cbn; auto|].
  cbn [mark_loop map].
  destruct (key_eqb (e_key x) (e_key e)) eqn:K.
  - apply key_eqb_eq in K. right. left. auto.
  - apply key_eqb_neq in K.
    destruct (is_pending p e).
    + destruct (IH (set_committed (remove_pending p e) (e_key e :: p_committed (remove_pending p e)))
                   (e_hash e :: hs) x) as [H | H]; auto.
      * cbn. apply del_in. auto.
      * right. right. auto.
    + destruct (IH (set_committed p (e_key e :: p_committed p)) hs x) as [H | H]; auto.
      right. right. auto.
Qed.

Theorem step_keeps : forall en p o x,
  Inv en p -> In x (p_pending p) ->
  In x (p_pending (step en p o)) \/
  exists st evs, o = OpUpdate st evs /\
    (In (e_key x) (map e_key evs) \/ ev_expired st x = true).
Proof.
  intros en p o x I Hx. destruct o as [e | evs | st evs | va vb hi |]; cbn [step step_gen].
  - left. unfold add_evidence. destruct (is_pending p e) eqn:NP; auto.
    destruct (is_committed p e); auto. destruct (negb (verify en (p_st p) e)); auto.
    cbn [fst p_pending set_clist]. apply add_pending_keeps; auto.
  - left. apply check_loop_keeps; auto.
  - unfold update. destruct (s_height st <=? s_height (p_st p)); [left; auto|].
    cbn [fst orb andb]. rewrite andb_true_r.
    set (p2 := set_state (process_buffer en st p) st).
    assert (H2 : In x (p_pending p2)).
    { subst p2. unfold process_buffer. cbn [p_pending set_state set_buffer].
      apply buffer_loop_keeps; auto. }
    unfold mark_committed.
    pose proof (mark_loop_keeps evs p2 [] x H2) as H3.
    assert (ST : p_st (fst (mark_loop evs p2 [])) = st).
    { assert (G : forall l q h, p_st (fst (mark_loop l q h)) = p_st q).
      { induction l as [|e' r IH]; intros q h; cbn [mark_loop]; auto.
        destruct (is_pending q e'); rewrite IH; reflexivity. }
      rewrite G. reflexivity. }
    destruct (mark_loop evs p2 []) as [p3 hs] eqn:ML. cbn [fst] in H3, ST.
    destruct H3 as [H3 | H3]; [|right; exists st, evs; auto].
    set (p4 := set_clist p3 (clist_remove hs (p_clist p3))).
    destruct (p_size p4 >? 0); [|left; auto].
    destruct (remove_expired_pending p4) as [g [E [G _]]].
    change (p_pending p4) with (p_pending p3) in E. rewrite E in H3.
    apply in_app_or in H3 as [H3 | H3]; [|left; auto].
    right. exists st, evs. split; auto. right.
    rewrite Forall_forall in G. specialize (G x H3). cbn in G. rewrite ST in G. exact G.
  - left. exact Hx.
  - left. rewrite (proj1 (restart_preserves en p I)). exact Hx.
Qed.

(* ------------------------------------------------------------------ conflicting votes from
   consensus: after the buffer has been flushed the evidence they form is pending or committed *)

Lemma has_key_ins_mono : forall e l k, has_key k l = true -> has_key k (ins e l) = true.
Proof. intros. rewrite ins_has_key, H. apply orb_true_r. Qed.

Lemma buffer_item_mono : forall en st p it k,
  has_key k (p_pending p) = true -> has_key k (p_pending (buffer_item en st p it)) = true.
Proof.
  intros en st p it k H. unfold buffer_item.
  destruct (buffer_evidence en st it) as [e|]; auto.
  destruct (is_pending p e); auto. destruct (is_committed p e); auto.
  cbn [p_pending set_clist add_pending set_pending]. apply has_key_ins_mono; auto.
Qed.
Lemma buffer_loop_mono : forall en st b p k,
  has_key k (p_pending p) = true -> has_key k (p_pending (buffer_loop en st b p)) = true.
Proof.
  induction b as [|it r IH]; intros p k H; [auto|].
  rewrite buffer_loop_cons. apply IH. apply buffer_item_mono; auto.
Qed.
Lemma buffer_loop_committed : forall en st b p,
  p_committed (buffer_loop en st b p) = p_committed p.
Proof.
  induction b as [|it r IH]; intros p; [auto|].
  rewrite buffer_loop_cons, IH. unfold buffer_item.
  destruct (buffer_evidence en st it) as [e|]; auto.
  destruct (is_pending p e); auto. destruct (is_committed p e); auto.
Qed.

Theorem buffer_flushed : forall en st b p it e,
  In it b -> buffer_evidence en st it = Some e ->
  let q := buffer_loop en st b p in
  is_pending q e = true \/ is_committed q e = true.
Proof.
  induction b as [|it' r IH]; intros p it e Hin BE; [destruct Hin|].
  cbn zeta. rewrite buffer_loop_cons. destruct Hin as [-> | Hin].
  - assert (H : is_pending (buffer_item en st p it) e = true \/
                is_committed (buffer_item en st p it) e = true).
    { unfold buffer_item. rewrite BE.
      destruct (is_pending p e) eqn:P; auto. destruct (is_committed p e) eqn:C; auto.
      left. unfold is_pending. cbn [p_pending set_clist add_pending set_pending]. rewrite ins_has_key, key_eqb_refl. reflexivity. }
    destruct H as [H | H].
    + left. apply buffer_loop_mono; auto.
    + right. unfold is_committed in *. rewrite buffer_loop_committed. auto.
  - apply (IH (buffer_item en st p it') it e Hin BE).
Qed.

(* ------------------------------------------------------------------ PendingEvidence(maxBytes) *)

Definition total_size (l : list evidence) : Z := fold_right (fun e a => e_size e + a) 0 l.

Lemma take_budget_spec : forall maxb l acc res tot,
  take_budget maxb acc l = (res, tot) ->
  exists rest, l = res ++ rest /\ tot = acc + total_size res /\
    (maxb <> -1 -> res <> [] -> tot <= maxb) /\
    match rest with
    | [] => True
    | x :: _ => maxb <> -1 /\ tot + e_size x > maxb
    end.
Proof.
  induction l as [|e r IH]; cbn [take_budget]; intros acc res tot H.
  - inversion H; subst. exists []. cbn. split; [auto|]. split; [lia|]. split; [|auto].
    intros _ N; contradiction.
  - destruct (negb (maxb =? -1) && (acc + e_size e >? maxb)) eqn:C.
    + inversion H; subst. exists (e :: r). cbn. split; [auto|]. split; [lia|]. split.
      * intros _ N; contradiction.
      * apply andb_true_iff in C as [C1 C2]. apply negb_true_iff, Z.eqb_neq in C1.
        rewrite Z.gtb_ltb in C2. apply Z.ltb_lt in C2. split; [auto | lia].
    + destruct (take_budget maxb (acc + e_size e) r) as [es t] eqn:T. inversion H; subst.
      destruct (IH _ _ _ T) as [rest [E [S [B M]]]]. exists rest.
      split; [rewrite E; reflexivity|]. split; [unfold total_size in *; cbn [fold_right]; lia|]. split; [|exact M].
      intros N _. apply andb_false_iff in C as [C | C].
      * apply negb_false_iff, Z.eqb_eq in C. contradiction.
      * destruct es as [|y es']; [|apply B; auto; discriminate].
        unfold total_size in S; cbn [fold_right] in S. rewrite Z.gtb_ltb in C. apply Z.ltb_ge in C. lia.
Qed.

(* ------------------------------------------------------------------ what Valid means for
   duplicate vote evidence *)

Definition dup_valid (en : env) (st : pstate) (e : evidence) (d : dve) : Prop :=
  exists m vs val,
    en_meta en (e_height e) = Some m /\ en_vals en (e_height e) = Some vs /\
    vs_get vs (v_addr (d_a d)) = Some val /\                  (* a validator at that height *)
    d_time d = h_time m /\                                     (* evidence time = block time *)
    ~ (s_height st - e_height e > s_max_blocks st /\ s_time st - h_time m > s_max_dur st) /\
    v_height (d_a d) = v_height (d_b d) /\ v_round (d_a d) = v_round (d_b d) /\
    v_type (d_a d) = v_type (d_b d) /\ v_addr (d_a d) = v_addr (d_b d) /\
    v_bid (d_a d) <> v_bid (d_b d) /\                         (* different blocks *)
    va_power val = d_power d /\ vs_total vs = d_total d /\    (* power fields *)
    d_sig_a d = true /\ d_sig_b d = true.                      (* both signatures *)

Theorem verify_dup_iff : forall en st e d,
  e_body e = EvDup d -> (verify en st e = true <-> dup_valid en st e d).
Proof.
  intros en st e d B. unfold verify, dup_valid. rewrite B.
  assert (T : e_time e = d_time d) by (unfold e_time; rewrite B; auto). rewrite T.
  destruct (en_meta en (e_height e)) as [m|]; [|split; [discriminate | intros [? [? [? [H _]]]]; discriminate]].
  destruct (en_vals en (e_height e)) as [vs|].
  2:{ split.
      - destruct (negb (d_time d =? h_time m)); [discriminate|].
        destruct ((s_time st - h_time m >? s_max_dur st) && (s_height st - e_height e >? s_max_blocks st)); discriminate.
      - intros [? [? [? [_ [H _]]]]]; discriminate. }
  unfold verify_dup.
  destruct (vs_get vs (v_addr (d_a d))) as [val|] eqn:G0.
  2:{ split.
      - destruct (negb (d_time d =? h_time m)); [discriminate|].
        destruct ((s_time st - h_time m >? s_max_dur st) && (s_height st - e_height e >? s_max_blocks st)); discriminate.
      - intros [? [? [? [_ [E [H _]]]]]]. inversion E; subst. congruence. }
  split.
  - destruct (d_time d =? h_time m) eqn:E1; cbn [negb]; [|discriminate]. apply Z.eqb_eq in E1.
    destruct ((s_time st - h_time m >? s_max_dur st) && (s_height st - e_height e >? s_max_blocks st)) eqn:E2; [discriminate|].
    destruct ((v_height (d_a d) =? v_height (d_b d)) && (v_round (d_a d) =? v_round (d_b d)) && (v_type (d_a d) =? v_type (d_b d))) eqn:E3; cbn [negb]; [|discriminate].
    destruct (v_addr (d_a d) =? v_addr (d_b d))%N eqn:E4; cbn [negb]; [|discriminate].
    destruct (v_bid (d_a d) =? v_bid (d_b d))%N eqn:E5; [discriminate|].
    destruct (va_power val =? d_power d) eqn:E6; cbn [negb]; [|discriminate].
    destruct (vs_total vs =? d_total d) eqn:E7; cbn [negb]; [|discriminate].
    destruct (d_sig_a d) eqn:E8; cbn [negb]; [|discriminate].
    intros E9. exists m, vs, val.
    apply andb_true_iff in E3 as [E3 E3c]. apply andb_true_iff in E3 as [E3a E3b].
    rewrite Z.eqb_eq in *. rewrite N.eqb_eq in *. apply N.eqb_neq in E5.
    repeat split; auto.
    intros [X Y]. apply andb_false_iff in E2 as [E2 | E2]; rewrite Z.gtb_ltb in E2; apply Z.ltb_ge in E2; lia.
  - intros [m' [vs' [val' [M [V [G [E1 [E2 [E3 [E4 [E5 [E6 [E7 [E8 [E9 [E10 E11]]]]]]]]]]]]]]]].
    inversion M; subst m'. inversion V; subst vs'. rewrite G0 in G. inversion G; subst val'.
    rewrite E1, Z.eqb_refl. cbn [negb].
    replace ((s_time st - h_time m >? s_max_dur st) && (s_height st - e_height e >? s_max_blocks st)) with false.
    2:{ symmetry. apply andb_false_iff.
        destruct (Z_gt_dec (s_time st - h_time m) (s_max_dur st)) as [X | X];
        destruct (Z_gt_dec (s_height st - e_height e) (s_max_blocks st)) as [Y | Y];
          try (exfalso; apply E2; split; lia);
          rewrite !Z.gtb_ltb; [right | left | left]; apply Z.ltb_ge; lia. }
    rewrite E3, E4, E5, E6, !Z.eqb_refl, N.eqb_refl. cbn [andb negb].
    apply N.eqb_neq in E7. rewrite E7, E8, E9, !Z.eqb_refl, E10. cbn [negb]. exact E11.
Qed.

(* ------------------------------------------------------------------ Update: the phases after
   the buffer flush remove pending evidence only by commit or by expiry under both limits *)

Lemma mark_loop_st : forall l q h, p_st (fst (mark_loop l q h)) = p_st q.
Proof.
  induction l as [|e' r IH]; intros q h; cbn [mark_loop]; auto.
  destruct (is_pending q e'); rewrite IH; reflexivity.
Qed.

Lemma update_tail_keeps : forall st evs p2 x,
  p_st p2 = st -> In x (p_pending p2) ->
  let p3 := mark_committed evs p2 in
  let q := if p_size p3 >? 0 then remove_expired p3 else p3 in
  In x (p_pending q) \/ In (e_key x) (map e_key evs) \/ ev_expired st x = true.
Proof.
  intros st evs p2 x ST H2. cbn zeta. unfold mark_committed.
  pose proof (mark_loop_keeps evs p2 [] x H2) as H3.
  pose proof (mark_loop_st evs p2 []) as ST3.
  destruct (mark_loop evs p2 []) as [p3 hs] eqn:ML. cbn [fst] in H3, ST3.
  destruct H3 as [H3 | H3]; [|auto].
  set (p4 := set_clist p3 (clist_remove hs (p_clist p3))).
  destruct (p_size p4 >? 0); [|left; auto].
  destruct (remove_expired_pending p4) as [g [E [G _]]].
  change (p_pending p4) with (p_pending p3) in E. rewrite E in H3.
  apply in_app_or in H3 as [H3 | H3]; [|left; auto].
  right. right. rewrite Forall_forall in G. specialize (G x H3). cbn in G.
  rewrite ST3, ST in G. exact G.
Qed.

Lemma update_unfold : forall en p st evs,
  (s_height st <=? s_height (p_st p)) = false ->
  fst (update true en p st evs) =
  let p3 := mark_committed evs (set_state (process_buffer en st p) st) in
  if p_size p3 >? 0 then remove_expired p3 else p3.
Proof.
  intros en p st evs H. unfold update. rewrite H. cbn [fst orb andb]. rewrite andb_true_r.
  reflexivity.
Qed.

Theorem buffer_becomes_pending : forall en p st evs it e,
  Inv en p -> op_ok en (OpUpdate st evs) -> s_height (p_st p) < s_height st ->
  In it (p_buffer p) -> buffer_evidence en st it = Some e ->
  let q := fst (update true en p st evs) in
  (exists x, In x (p_pending q) /\ e_key x = e_key e) \/
  committed q (e_key e) = true \/
  (exists x, e_key x = e_key e /\ ev_expired st x = true).
Proof.
  intros en p st evs it e I U LT Hin BE. cbn zeta.
  assert (NP : (s_height st <=? s_height (p_st p)) = false) by (apply Z.leb_gt; lia).
  assert (SN : snd (update true en p st evs) = true) by (unfold update; rewrite NP; reflexivity).
  destruct (buffer_flushed en st (p_buffer p) p it e Hin BE) as [P | C].
  - apply has_key_true in P as [x [Hx K]].
    assert (H2 : In x (p_pending (set_state (process_buffer en st p) st))) by exact Hx.
    pose proof (update_tail_keeps st evs (set_state (process_buffer en st p) st) x eq_refl H2) as T.
    cbn zeta in T.
    rewrite update_unfold by exact NP. cbn zeta.
    destruct T as [T | [T | T]].
    + left. exists x; auto.
    + right. left. rewrite <- K. rewrite <- update_unfold by exact NP.
      apply update_committed; auto.
    + right. right. exists x; auto.
  - right. left. apply update_committed; auto. left.
    unfold is_committed in C. rewrite buffer_loop_committed in C. exact C.
Qed.

(* ------------------------------------------------------------------ AddEvidence *)
Theorem admit_iff : forall en p e,
  snd (add_evidence en p e) = AddedNew <->
  is_pending p e = false /\ is_committed p e = false /\ verify en (p_st p) e = true.
Proof.
  intros en p e. unfold add_evidence.
  destruct (is_pending p e); [split; [discriminate | intros [H _]; discriminate]|].
  destruct (is_committed p e); [split; [discriminate | intros [_ [H _]]; discriminate]|].
  destruct (verify en (p_st p) e); cbn; split; auto; try discriminate.
  intros [_ [_ H]]; discriminate.
Qed.
