(* C13 — model of block sync (fast sync v0) and of the hand-over to consensus.
   Transcribed by hand, branch by branch in the order of the source, from
     blockchain/v0/reactor.go   poolRoutine, the didProcessCh branch (PeekTwoBlocks -> part set and
                                id of first -> commit check of first with second.LastCommit against
                                state.Validators -> ValidateBlock -> on error RedoRequest x2 +
                                StopPeerForError x2 -> else PopRequest, SaveBlock, ApplyBlock);
                                ReceiveEnvelope (BlockResponse -> AddBlock, StatusResponse ->
                                SetPeerRange); RemovePeer; the errorsCh forwarding
     blockchain/v0/pool.go      AddBlock, SetPeerRange, RemovePeer/removePeer, updateMaxPeerHeight,
                                RedoRequest, PeekTwoBlocks, PopRequest, IsCaughtUp,
                                makeNextRequester (+ the two guards of makeRequestersRoutine),
                                pickIncrAvailablePeer, bpRequester.setBlock/reset/redo,
                                bpPeer.incrPending/decrPending
     consensus/state.go         reconstructLastCommit; NewState (the guard that decides whether the
                                last commit is reconstructed, then updateToState); updateToState
     consensus/reactor.go       Reactor.SwitchToConsensus (the same guard, then updateToState)
     types/block.go             CommitToVoteSet, Commit.GetVote
     types/vote_set.go          NewVoteSet (height 0 panic), addVote, addVerifiedVote (the part
                                reachable from CommitToVoteSet), HasTwoThirdsMajority
     types/vote.go              Vote.Verify
     state/execution.go         updateState: LastBlockHeight, LastValidators := Validators.
   The commit check itself is C07's model (TM.C07.Model verify_commit / verify_commit_light);
   which of the two the reactor calls is the argument [vc] below: [verify_commit] is the code
   after repair F7 (all signatures), [verify_commit_light] the code before it.
   Block validation (C06) and block execution are oracles [validate_block] / [apply_block].

   Abstractions.
   * peers (p2p.ID) are integers, 0 = "" (no peer).  Block ids, addresses, keys as in C07.
     [pk_addr] is PubKey.Address().  Address 0 = the empty address.
   * a block is (height, id recomputed from its content = Hash + part-set header of MakePartSet,
     LastCommit, opaque tag); nothing else of it is looked at outside the oracles.
   * pool.requesters (a map keyed by height) is the list of requesters for heights
     p_height, p_height+1, ... : the code only ever inserts at height+len (makeNextRequester) and
     deletes at height (PopRequest).  pool.peers (a map) is a list; every place where Go iterates
     it is order-independent except pickIncrAvailablePeer, whose choice is an input (OPick).
   * no timers, no rate monitor: bpPeer.didTimeout, the 30 s request retry and
     removeTimedoutPeers are absent.  bpRequester.redo posts to a channel that the requester's
     goroutine turns into reset(); here the reset is immediate.  pool.sendError posts to
     errorsCh, which a goroutine turns into Switch.StopPeerForError; here the journal of
     reported peers is [p_errors] and the node stops them in the same step.
   * int64 sums in the vote set (sum, votesByBlock.sum, quorum) are written without wrap: they
     are bounded by the total power, itself at most MaxTotalVotingPower on well-formed sets.
   No proofs in this file. *)
From Coq Require Import List ZArith NArith Bool.
From TM Require Import Generated.Consts C07.Model.
Import ListNotations.
Open Scope Z_scope.

Definition peer := Z.

Section Sync.

Variable sig : Type.
Variable sig_verify : key -> signmsg -> sig -> bool.     (* PubKey.VerifySignature *)
Variable pk_addr : key -> addr.                          (* PubKey.Address *)

(* ================================================================== CommitToVoteSet *)

(* the part of types.VoteSet that CommitToVoteSet and HasTwoThirdsMajority touch:
   the indices that already have a vote, sum, votesByBlock[key].sum, maj23 *)
Record voteset := {
  vs_seen : list Z;
  vs_sum : Z;
  vs_bsum : list (blockid * Z);
  vs_maj23 : option blockid
}.

Definition empty_voteset : voteset :=
  {| vs_seen := []; vs_sum := 0; vs_bsum := []; vs_maj23 := None |}.

Fixpoint bsum_get (m : list (blockid * Z)) (b : blockid) : Z :=
  match m with
  | [] => 0
  | (b', s) :: r => if b' =? b then s else bsum_get r b
  end.

Fixpoint bsum_add (m : list (blockid * Z)) (b : blockid) (x : Z) : list (blockid * Z) :=
  match m with
  | [] => [(b, x)]
  | (b', s) :: r => if b' =? b then (b', s + x) :: r else (b', s) :: bsum_add r b x
  end.

(* VoteSet.AddVote on the vote Commit.GetVote(idx) builds for slot [cs] (block id [bid] =
   CommitSig.BlockID).  Some = (added=true, err=nil); None = every other outcome (each makes
   CommitToVoteSet panic).  Height, round and type of the vote are the vote set's own by
   construction, so the ErrVoteUnexpectedStep branch is unreachable and omitted. *)
Definition add_vote (chain h r : Z) (vals : list validator) (vs : voteset)
           (idx : Z) (cs : commitsig sig) (bid : blockid) : option voteset :=
  if idx <? 0 then None                                        (* index < 0 *)
  else if cs_addr cs =? 0 then None                            (* empty address *)
  else
    match nth_error vals (Z.to_nat idx) with                   (* valSet.GetByIndex *)
    | None => None
    | Some v =>
      if negb (cs_addr cs =? v_addr v) then None               (* address is not the one at this index *)
      else if existsb (Z.eqb idx) (vs_seen vs) then None       (* getVote / conflicting: (false, _) or error *)
      else if negb (pk_addr (v_key v) =? cs_addr cs) then None (* Vote.Verify: ErrVoteInvalidValidatorAddress *)
      else if negb (sig_verify (v_key v) (sign_msg chain h r bid (cs_ts cs)) (cs_sig cs))
           then None                                           (* Vote.Verify: ErrVoteInvalidSignature *)
      else
        (* addVerifiedVote, no vote of this index yet *)
        match total_voting_power vals with
        | None => None                                         (* TotalVotingPower panics *)
        | Some total =>
          let orig := bsum_get (vs_bsum vs) bid in
          let quorum := Z.quot (total * 2) 3 + 1 in
          let new := orig + v_power v in
          Some {| vs_seen := idx :: vs_seen vs;
                  vs_sum := vs_sum vs + v_power v;
                  vs_bsum := bsum_add (vs_bsum vs) bid (v_power v);
                  vs_maj23 := if (orig <? quorum) && (quorum <=? new)
                              then match vs_maj23 vs with None => Some bid | m => m end
                              else vs_maj23 vs |}
        end
    end.

Fixpoint ctv_loop (chain : Z) (c : commit sig) (vals : list validator)
         (sigs : list (commitsig sig)) (idx : Z) (vs : voteset) : option voteset :=
  match sigs with
  | [] => Some vs
  | cs :: sigs' =>
    if cs_absent cs then ctv_loop chain c vals sigs' (idx + 1) vs
    else
      match cs_block_id cs (c_bid c) with
      | None => None                                           (* CommitSig.BlockID panics: unknown flag *)
      | Some b =>
        match add_vote chain (c_height c) (c_round c) vals vs idx cs b with
        | None => None                                         (* "Failed to reconstruct LastCommit" *)
        | Some vs' => ctv_loop chain c vals sigs' (idx + 1) vs'
        end
      end
  end.

(* types.CommitToVoteSet; None = panic *)
Definition commit_to_voteset (chain : Z) (c : commit sig) (vals : list validator) : option voteset :=
  if c_height c =? 0 then None                                 (* NewVoteSet: "Cannot make VoteSet for height == 0" *)
  else ctv_loop chain c vals (c_sigs c) 0 empty_voteset.

(* consensus.State.reconstructLastCommit; true = returns, false = panics *)
Definition reconstruct_last_commit (chain : Z) (seen : option (commit sig)) (last_vals : list validator) : bool :=
  match seen with
  | None => false                                              (* seen commit not found *)
  | Some c =>
    match commit_to_voteset chain c last_vals with
    | None => false
    | Some vs => match vs_maj23 vs with Some _ => true | None => false end   (* HasTwoThirdsMajority *)
    end
  end.

(* ================================================================== blocks, state, store *)

Record block := { b_height : Z; b_id : blockid; b_last_commit : commit sig; b_tag : Z }.

(* the fields of sm.State the sync step reads or writes; the rest is [st_tag] *)
Record sstate := {
  st_chain : Z;
  st_height : Z;                       (* LastBlockHeight *)
  st_vals : list validator;            (* Validators: the set prescribed for height st_height+1 *)
  st_last_vals : list validator;       (* LastValidators *)
  st_tag : Z
}.

Variable validate_block : sstate -> block -> bool.                    (* blockExec.ValidateBlock = nil *)
Variable apply_block : sstate -> block -> option (list validator * Z). (* ApplyBlock: next Validators, rest; None = error *)

Record sentry := { se_height : Z; se_id : blockid; se_seen : commit sig }.

(* BlockStore, newest first: SaveBlock(block, parts, seenCommit) / LoadSeenCommit *)
Definition save_block (s : list sentry) (b : block) (seen : commit sig) : list sentry :=
  {| se_height := b_height b; se_id := b_id b; se_seen := seen |} :: s.

Fixpoint load_seen (s : list sentry) (h : Z) : option (commit sig) :=
  match s with
  | [] => None
  | e :: r => if se_height e =? h then Some (se_seen e) else load_seen r h
  end.

(* the commit-verification entry point the reactor calls *)
Definition vcheck := list validator -> Z -> blockid -> Z -> commit sig -> vresult.

Inductive sverdict :=
| SV_accept
| SV_bad_commit (r : vresult)          (* the commit check returned an error (or panicked) *)
| SV_bad_block.                        (* ValidateBlock returned an error *)

Definition verify_first (vc : vcheck) (st : sstate) (first second : block) : sverdict :=
  match vc (st_vals st) (st_chain st) (b_id first) (b_height first) (b_last_commit second) with
  | R_ok => if validate_block st first then SV_accept else SV_bad_block
  | r => SV_bad_commit r
  end.

(* updateState as far as modelled *)
Definition next_state (st : sstate) (first : block) (nv : list validator * Z) : sstate :=
  {| st_chain := st_chain st; st_height := b_height first;
     st_vals := fst nv; st_last_vals := st_vals st; st_tag := snd nv |}.

(* ================================================================== the pool *)

Record requester := { rq_peer : peer; rq_block : option block }.
Record bpeer := { bp_id : peer; bp_base : Z; bp_height : Z; bp_pending : Z }.

Record pool := {
  p_height : Z;
  p_reqs : list requester;             (* heights p_height, p_height+1, ... *)
  p_peers : list bpeer;
  p_max_peer_height : Z;
  p_num_pending : Z;
  p_errors : list peer                 (* journal of sendError, newest first *)
}.

Definition new_pool (start : Z) : pool :=
  {| p_height := start; p_reqs := []; p_peers := []; p_max_peer_height := 0;
     p_num_pending := 0; p_errors := [] |}.

Definition req_at (pl : pool) (h : Z) : option requester :=
  if h <? p_height pl then None else nth_error (p_reqs pl) (Z.to_nat (h - p_height pl)).

Fixpoint set_nth {A : Type} (l : list A) (n : nat) (x : A) : list A :=
  match l, n with
  | [], _ => []
  | _ :: r, O => x :: r
  | y :: r, S n' => y :: set_nth r n' x
  end.

Definition with_reqs (pl : pool) (rs : list requester) : pool :=
  {| p_height := p_height pl; p_reqs := rs; p_peers := p_peers pl;
     p_max_peer_height := p_max_peer_height pl; p_num_pending := p_num_pending pl;
     p_errors := p_errors pl |}.

Definition report (pl : pool) (p : peer) : pool :=
  {| p_height := p_height pl; p_reqs := p_reqs pl; p_peers := p_peers pl;
     p_max_peer_height := p_max_peer_height pl; p_num_pending := p_num_pending pl;
     p_errors := p :: p_errors pl |}.

Fixpoint find_peer (ps : list bpeer) (p : peer) : option bpeer :=
  match ps with
  | [] => None
  | x :: r => if bp_id x =? p then Some x else find_peer r p
  end.

Definition map_peer (f : bpeer -> bpeer) (p : peer) (ps : list bpeer) : list bpeer :=
  map (fun x => if bp_id x =? p then f x else x) ps.

(* SetPeerRange *)
Definition set_peer_range (pl : pool) (p : peer) (base height : Z) : pool :=
  let ps :=
    match find_peer (p_peers pl) p with
    | Some _ => map_peer (fun x => {| bp_id := bp_id x; bp_base := base; bp_height := height;
                                      bp_pending := bp_pending x |}) p (p_peers pl)
    | None => p_peers pl ++ [{| bp_id := p; bp_base := base; bp_height := height; bp_pending := 0 |}]
    end in
  {| p_height := p_height pl; p_reqs := p_reqs pl; p_peers := ps;
     p_max_peer_height := if height >? p_max_peer_height pl then height else p_max_peer_height pl;
     p_num_pending := p_num_pending pl; p_errors := p_errors pl |}.

(* updateMaxPeerHeight *)
Definition max_height (ps : list bpeer) : Z :=
  fold_left (fun m x => if bp_height x >? m then bp_height x else m) ps 0.

(* bpRequester.redo(p) followed by the requester's reset(): only if it is assigned to p *)
Definition redo_req (p : peer) (r : requester) : requester :=
  if rq_peer r =? p then {| rq_peer := 0; rq_block := None |} else r.

(* what reset() adds to pool.numPending *)
Definition redo_pending (p : peer) (r : requester) : Z :=
  if rq_peer r =? p then match rq_block r with Some _ => 1 | None => 0 end else 0.

(* removePeer *)
Definition remove_peer (pl : pool) (p : peer) : pool :=
  let rs := map (redo_req p) (p_reqs pl) in
  let np := fold_left (fun a r => a + redo_pending p r) (p_reqs pl) (p_num_pending pl) in
  match find_peer (p_peers pl) p with
  | None =>
    {| p_height := p_height pl; p_reqs := rs; p_peers := p_peers pl;
       p_max_peer_height := p_max_peer_height pl; p_num_pending := np; p_errors := p_errors pl |}
  | Some x =>
    let ps := filter (fun y => negb (bp_id y =? p)) (p_peers pl) in
    {| p_height := p_height pl; p_reqs := rs; p_peers := ps;
       p_max_peer_height := if bp_height x =? p_max_peer_height pl then max_height ps
                            else p_max_peer_height pl;
       p_num_pending := np; p_errors := p_errors pl |}
  end.

(* makeNextRequester behind the two guards of makeRequestersRoutine *)
Definition make_next_requester (pl : pool) : pool :=
  if p_num_pending pl >=? bc0_max_total_requesters then pl
  else if Z.of_nat (length (p_reqs pl)) >=? bc0_max_total_requesters then pl
  else
    let next := p_height pl + Z.of_nat (length (p_reqs pl)) in
    if next >? p_max_peer_height pl then pl
    else
      {| p_height := p_height pl; p_reqs := p_reqs pl ++ [{| rq_peer := 0; rq_block := None |}];
         p_peers := p_peers pl; p_max_peer_height := p_max_peer_height pl;
         p_num_pending := p_num_pending pl + 1; p_errors := p_errors pl |}.

(* the peers pickIncrAvailablePeer(h) may return *)
Definition eligible (h : Z) (x : bpeer) : bool :=
  negb (bp_pending x >=? bc0_max_pending_requests_per_peer)
  && negb ((h <? bp_base x) || (h >? bp_height x)).

(* requestRoutine: an unassigned requester for height h got peer p from pickIncrAvailablePeer
   (incrPending) and records it; the BlockRequest{h, p} goes out.  No-op when the requester does
   not exist, is already assigned, or p is not eligible. *)
Definition assign (pl : pool) (h : Z) (p : peer) : pool :=
  match req_at pl h with
  | None => pl
  | Some r =>
    if negb (rq_peer r =? 0) then pl
    else
      match find_peer (p_peers pl) p with
      | None => pl
      | Some x =>
        if negb (eligible h x) then pl
        else
          {| p_height := p_height pl;
             p_reqs := set_nth (p_reqs pl) (Z.to_nat (h - p_height pl))
                               {| rq_peer := p; rq_block := rq_block r |};
             p_peers := map_peer (fun y => {| bp_id := bp_id y; bp_base := bp_base y;
                                              bp_height := bp_height y;
                                              bp_pending := bp_pending y + 1 |}) p (p_peers pl);
             p_max_peer_height := p_max_peer_height pl; p_num_pending := p_num_pending pl;
             p_errors := p_errors pl |}
      end
  end.

(* AddBlock *)
Definition add_block (pl : pool) (p : peer) (b : block) : pool :=
  match req_at pl (b_height b) with
  | None =>
    let diff := Z.abs (p_height pl - b_height b) in
    if diff >? bc0_max_diff_current_received_height then report pl p else pl
  | Some r =>
    (* setBlock: block already there, or the requester is assigned to another peer *)
    if (match rq_block r with Some _ => true | None => false end) || negb (rq_peer r =? p)
    then report pl p
    else
      {| p_height := p_height pl;
         p_reqs := set_nth (p_reqs pl) (Z.to_nat (b_height b - p_height pl))
                           {| rq_peer := rq_peer r; rq_block := Some b |};
         p_peers := map_peer (fun y => {| bp_id := bp_id y; bp_base := bp_base y;
                                          bp_height := bp_height y;
                                          bp_pending := bp_pending y - 1 |}) p (p_peers pl);
         p_max_peer_height := p_max_peer_height pl; p_num_pending := p_num_pending pl - 1;
         p_errors := p_errors pl |}
  end.

Definition block_at (pl : pool) (h : Z) : option block :=
  match req_at pl h with Some r => rq_block r | None => None end.

(* PeekTwoBlocks *)
Definition peek_two (pl : pool) : option block * option block :=
  (block_at pl (p_height pl), block_at pl (p_height pl + 1)).

(* PopRequest; None = panic *)
Definition pop_request (pl : pool) : option pool :=
  match p_reqs pl with
  | [] => None
  | _ :: rs =>
    Some {| p_height := p_height pl + 1; p_reqs := rs; p_peers := p_peers pl;
            p_max_peer_height := p_max_peer_height pl; p_num_pending := p_num_pending pl;
            p_errors := p_errors pl |}
  end.

(* RedoRequest(height): the pool afterwards and the peer returned; None = nil dereference *)
Definition redo_request (pl : pool) (h : Z) : option (pool * peer) :=
  match req_at pl h with
  | None => None
  | Some r => if rq_peer r =? 0 then Some (pl, 0) else Some (remove_peer pl (rq_peer r), rq_peer r)
  end.

(* IsCaughtUp; [waited] = more than 5 s since the pool started *)
Definition is_caught_up (pl : pool) (waited : bool) : bool :=
  match p_peers pl with
  | [] => false
  | _ =>
    ((p_height pl >? 0) || waited)
    && ((p_max_peer_height pl =? 0) || (p_height pl >=? p_max_peer_height pl - 1))
  end.

(* ---- the pool by itself: every BlockPool operation that touches pool.peers or
   pool.maxPeerHeight, with the SetPeerRange rule as a parameter: [set_peer_range] is the code as
   it is; [set_peer_range_fixed] is the repair proposed for finding F79 (SetPeerRange ends with
   updateMaxPeerHeight(), fixes/F79-blockpool-max-peer-height-follows-peers.diff) *)
Definition set_peer_range_fixed (pl : pool) (p : peer) (base height : Z) : pool :=
  let pl' := set_peer_range pl p base height in
  {| p_height := p_height pl'; p_reqs := p_reqs pl'; p_peers := p_peers pl';
     p_max_peer_height := max_height (p_peers pl');            (* updateMaxPeerHeight *)
     p_num_pending := p_num_pending pl'; p_errors := p_errors pl' |}.

Inductive plop :=
| PL_status (p : peer) (base height : Z)   (* SetPeerRange *)
| PL_make                                  (* makeNextRequester behind its guards *)
| PL_pick (h : Z) (p : peer)               (* requester h obtained p from pickIncrAvailablePeer *)
| PL_block (p : peer) (b : block)          (* AddBlock *)
| PL_remove (p : peer)                     (* RemovePeer (disconnect, timeout, StopPeerForError) *)
| PL_redo (h : Z)                          (* RedoRequest *)
| PL_pop.                                  (* PopRequest *)

Definition pool_step (spr : pool -> peer -> Z -> Z -> pool) (pl : pool) (o : plop) : pool :=
  match o with
  | PL_status p base height => spr pl p base height
  | PL_make => make_next_requester pl
  | PL_pick h p => assign pl h p
  | PL_block p b => add_block pl p b
  | PL_remove p => remove_peer pl p
  | PL_redo h => match redo_request pl h with Some (pl', _) => pl' | None => pl end
  | PL_pop => match pop_request pl with Some pl' => pl' | None => pl end
  end.

Definition pool_run (spr : pool -> peer -> Z -> Z -> pool) (ops : list plop) (pl : pool) : pool :=
  fold_left (pool_step spr) ops pl.

(* ================================================================== the node *)

Inductive event :=
| E_saved (st : sstate) (first second : block)          (* SaveBlock(first, _, second.LastCommit) + ApplyBlock *)
| E_rejected (v : sverdict) (first second : block) (p1 p2 : peer).

Record node := {
  n_state : sstate;
  n_store : list sentry;
  n_pool : pool;
  n_stopped : list peer;               (* peers the switch has stopped / that disconnected *)
  n_log : list event;                  (* newest first *)
  n_panicked : bool
}.

Definition is_stopped (n : node) (p : peer) : bool := existsb (Z.eqb p) (n_stopped n).

(* Switch.StopPeerForError(peer) when Switch.Peers().Get(id) != nil: the peer is stopped and
   every reactor's RemovePeer runs (here: pool.RemovePeer) *)
Definition stop_peer (n : node) (p : peer) : node :=
  if (p =? 0) || is_stopped n p then n
  else
    {| n_state := n_state n; n_store := n_store n; n_pool := remove_peer (n_pool n) p;
       n_stopped := p :: n_stopped n; n_log := n_log n; n_panicked := n_panicked n |}.

Definition with_pool (n : node) (pl : pool) : node :=
  {| n_state := n_state n; n_store := n_store n; n_pool := pl; n_stopped := n_stopped n;
     n_log := n_log n; n_panicked := n_panicked n |}.

Definition panic (n : node) : node :=
  {| n_state := n_state n; n_store := n_store n; n_pool := n_pool n; n_stopped := n_stopped n;
     n_log := n_log n; n_panicked := true |}.

(* the errorsCh forwarding: stop every peer reported since [old] *)
Definition stop_reported (n : node) (old : nat) : node :=
  let errs := p_errors (n_pool n) in
  fold_right (fun p m => stop_peer m p) n (firstn (length errs - old) errs).

(* poolRoutine, case <-didProcessCh, the branch taken when the commit check or ValidateBlock
   returned an error: RedoRequest(first.Height), stop that peer, RedoRequest(second.Height),
   stop that peer if it is another one *)
Definition reject_step (n : node) (v : sverdict) (first second : block) : node :=
  match redo_request (n_pool n) (b_height first) with
  | None => panic n
  | Some (pl1, p1) =>
    let n1 := stop_peer (with_pool n pl1) p1 in
    match redo_request (n_pool n1) (b_height second) with
    | None => panic n1
    | Some (pl2, p2) =>
      let n2 := with_pool n1 pl2 in
      let n3 := if p2 =? p1 then n2 else stop_peer n2 p2 in
      {| n_state := n_state n3; n_store := n_store n3; n_pool := n_pool n3;
         n_stopped := n_stopped n3;
         n_log := E_rejected v first second p1 p2 :: n_log n3; n_panicked := n_panicked n3 |}
    end
  end.

(* poolRoutine, case <-didProcessCh *)
Definition process_step (vc : vcheck) (n : node) : node :=
  match peek_two (n_pool n) with
  | (Some first, Some second) =>
    match verify_first vc (n_state n) first second with
    | SV_accept =>
      match pop_request (n_pool n) with
      | None => panic n
      | Some pl =>
        let store := save_block (n_store n) first (b_last_commit second) in
        match apply_block (n_state n) first with
        | None =>
          {| n_state := n_state n; n_store := store; n_pool := pl; n_stopped := n_stopped n;
             n_log := E_saved (n_state n) first second :: n_log n;
             n_panicked := true |}                         (* "Failed to process committed block" *)
        | Some nv =>
          {| n_state := next_state (n_state n) first nv; n_store := store; n_pool := pl;
             n_stopped := n_stopped n;
             n_log := E_saved (n_state n) first second :: n_log n; n_panicked := n_panicked n |}
        end
      end
    | v => reject_step n v first second
    end
  | _ => n
  end.

Inductive op :=
| OStatus (p : peer) (base height : Z)   (* StatusResponse from p *)
| OMakeRequester                         (* one turn of makeRequestersRoutine *)
| OPick (h : Z) (p : peer)               (* requester h obtained p from pickIncrAvailablePeer *)
| OBlock (p : peer) (b : block)          (* BlockResponse from p *)
| ORemovePeer (p : peer)                 (* p disconnected: Reactor.RemovePeer *)
| OProcess.                              (* poolRoutine handles one didProcessCh *)

Definition step (vc : vcheck) (n : node) (o : op) : node :=
  if n_panicked n then n
  else
    match o with
    | OStatus p base height =>
      if (p =? 0) || is_stopped n p then n
      else with_pool n (set_peer_range (n_pool n) p base height)
    | OMakeRequester => with_pool n (make_next_requester (n_pool n))
    | OPick h p => with_pool n (assign (n_pool n) h p)
    | OBlock p b =>
      if (p =? 0) || is_stopped n p then n
      else
        let old := length (p_errors (n_pool n)) in
        stop_reported (with_pool n (add_block (n_pool n) p b)) old
    | ORemovePeer p =>
      if (p =? 0) || is_stopped n p then n
      else
        {| n_state := n_state n; n_store := n_store n; n_pool := remove_peer (n_pool n) p;
           n_stopped := p :: n_stopped n; n_log := n_log n; n_panicked := n_panicked n |}
    | OProcess => process_step vc n
    end.

Definition run (vc : vcheck) (ops : list op) (n : node) : node := fold_left (step vc) ops n.

(* consensus start on what block sync left behind: SwitchToConsensus / NewState call
   reconstructLastCommit only when LastBlockHeight > 0 *)
Definition handover (n : node) : bool :=
  if st_height (n_state n) >? 0
  then reconstruct_last_commit (st_chain (n_state n))
                               (load_seen (n_store n) (st_height (n_state n)))
                               (st_last_vals (n_state n))
  else true.

(* ================================================================== the hand-over itself
   consensus/state.go    NewState (the part before the service is built), reconstructLastCommit,
                         updateToState
   consensus/reactor.go  Reactor.SwitchToConsensus, up to conS.Start()
   node/node.go builds the consensus State with the state and block store the node has at start
   ([new_state]); blockchain/v0 poolRoutine calls conR.SwitchToConsensus(state, _) with the state
   after the last ApplyBlock once the pool is caught up ([switch_to_consensus]).
   [ih] is GenesisDoc.InitialHeight (State.InitialHeight: constant along a chain; updateToState
   reads it once from cs.state and once from its argument).  None = panic.
   Not modelled: WAL, timers, event bus, metrics, conS.Start(). *)

(* the fields of consensus.State read or written before the state machine runs *)
Record cstate := {
  cs_height : Z;                       (* RoundState.Height *)
  cs_commit_round : Z;                 (* RoundState.CommitRound *)
  cs_votes : option voteset;           (* None: cs.Votes == nil; Some v: v = cs.Votes.Precommits(cs.CommitRound)
                                          (the empty vote set when that round has none) *)
  cs_last_commit : option voteset;     (* RoundState.LastCommit, None = nil *)
  cs_state : option sstate             (* cs.state, None = IsEmpty() *)
}.

(* the Go zero value NewState starts from *)
Definition cs_zero : cstate :=
  {| cs_height := 0; cs_commit_round := 0; cs_votes := None; cs_last_commit := None; cs_state := None |}.

(* reconstructLastCommit: the vote set it assigns to cs.LastCommit; None = panics *)
Definition reconstruct_vs (chain : Z) (seen : option (commit sig)) (last_vals : list validator) : option voteset :=
  match seen with
  | None => None                                               (* seen commit not found *)
  | Some c =>
    match commit_to_voteset chain c last_vals with
    | None => None
    | Some vs => match vs_maj23 vs with Some _ => Some vs | None => None end   (* HasTwoThirdsMajority *)
    end
  end.

Definition cs_reconstruct (store : list sentry) (cs : cstate) (st : sstate) : option cstate :=
  match reconstruct_vs (st_chain st) (load_seen store (st_height st)) (st_last_vals st) with
  | None => None
  | Some vs =>
    Some {| cs_height := cs_height cs; cs_commit_round := cs_commit_round cs; cs_votes := cs_votes cs;
            cs_last_commit := Some vs; cs_state := cs_state cs |}
  end.

(* height := state.LastBlockHeight + 1; if height == 1 { height = state.InitialHeight } *)
Definition next_height (ih : Z) (st : sstate) : Z :=
  if st_height st + 1 =? 1 then ih else st_height st + 1.

Inductive uts_pre := UP_panic | UP_ignore | UP_go.

(* updateToState *)
Definition update_to_state (ih : Z) (cs : cstate) (st : sstate) : option cstate :=
  if (cs_commit_round cs >? -1) && (0 <? cs_height cs) && negb (cs_height cs =? st_height st)
  then None                                                    (* "updateToState() expected state height of ..." *)
  else
    let pre :=
      match cs_state cs with
      | None => UP_go                                          (* cs.state.IsEmpty() *)
      | Some old =>
        if (st_height old >? 0) && negb (st_height old + 1 =? cs_height cs) then UP_panic
                                                               (* "inconsistent cs.state.LastBlockHeight+1 ..." *)
        else if (st_height old >? 0) && (cs_height cs =? ih) then UP_panic
                                                               (* "... expected 0 for initial height" *)
        else if st_height st <=? st_height old then UP_ignore  (* "ignoring updateToState()": newStep only *)
        else UP_go
      end in
    match pre with
    | UP_panic => None
    | UP_ignore => Some cs
    | UP_go =>
      (* the switch that chooses cs.LastCommit; outer None = panic *)
      let lc : option (option voteset) :=
        if st_height st =? 0 then Some None                    (* very first commit should be empty *)
        else if (cs_commit_round cs >? -1) && (match cs_votes cs with Some _ => true | None => false end)
        then match cs_votes cs with
             | Some v => match vs_maj23 v with
                         | Some _ => Some (Some v)
                         | None => None                        (* "wanted to form a commit, but precommits ... didn't have 2/3+" *)
                         end
             | None => None
             end
        else match cs_last_commit cs with
             | None => None                                    (* "last commit cannot be empty after initial block" *)
             | Some v => Some (Some v)
             end in
      match lc with
      | None => None
      | Some l =>
        Some {| cs_height := next_height ih st; cs_commit_round := -1;
                cs_votes := Some empty_voteset;                (* NewHeightVoteSet *)
                cs_last_commit := l; cs_state := Some st |}
      end
    end.

(* the guard shared by NewState and SwitchToConsensus:
   "We have no votes, so reconstruct LastCommit from SeenCommit."  if state.LastBlockHeight > 0 *)
Definition reconstruct_if_needed (store : list sentry) (cs : cstate) (st : sstate) : option cstate :=
  if st_height st >? 0 then cs_reconstruct store cs st else Some cs.

(* consensus.NewState(config, state, blockExec, blockStore, ...) *)
Definition new_state (ih : Z) (store : list sentry) (st : sstate) : option cstate :=
  match reconstruct_if_needed store cs_zero st with
  | None => None
  | Some cs => update_to_state ih cs st
  end.

(* Reactor.SwitchToConsensus(state, skipWAL) on the consensus state [cs] built at node start *)
Definition switch_to_consensus (ih : Z) (store : list sentry) (cs : cstate) (st : sstate) : option cstate :=
  match reconstruct_if_needed store cs st with
  | None => None
  | Some cs1 => update_to_state ih cs1 st
  end.

(* the whole hand-over of a node that started as [n0] and synced to [n] *)
Definition handover_full (ih : Z) (n0 n : node) : option cstate :=
  match new_state ih (n_store n0) (n_state n0) with
  | None => None
  | Some cs0 => switch_to_consensus ih (n_store n) cs0 (n_state n)
  end.

End Sync.


Arguments b_height {sig}. Arguments b_id {sig}. Arguments b_last_commit {sig}. Arguments b_tag {sig}.
Arguments se_height {sig}. Arguments se_id {sig}. Arguments se_seen {sig}.
Arguments rq_peer {sig}. Arguments rq_block {sig}.
Arguments p_height {sig}. Arguments p_reqs {sig}. Arguments p_peers {sig}.
Arguments p_max_peer_height {sig}. Arguments p_num_pending {sig}. Arguments p_errors {sig}.
Arguments n_state {sig}. Arguments n_store {sig}. Arguments n_pool {sig}. Arguments n_stopped {sig}.
Arguments n_log {sig}. Arguments n_panicked {sig}.
Arguments E_saved {sig}. Arguments E_rejected {sig}.
Arguments OStatus {sig}. Arguments OMakeRequester {sig}. Arguments OPick {sig}. Arguments OBlock {sig}.
Arguments ORemovePeer {sig}. Arguments OProcess {sig}.
Arguments add_vote {sig}. Arguments ctv_loop {sig}. Arguments commit_to_voteset {sig}.
Arguments reconstruct_last_commit {sig}. Arguments save_block {sig}. Arguments load_seen {sig}.
Arguments verify_first {sig}. Arguments req_at {sig}. Arguments with_reqs {sig}. Arguments report {sig}.
Arguments set_peer_range {sig}. Arguments redo_req {sig}. Arguments redo_pending {sig}.
Arguments remove_peer {sig}. Arguments make_next_requester {sig}. Arguments assign {sig}.
Arguments add_block {sig}. Arguments block_at {sig}. Arguments peek_two {sig}. Arguments pop_request {sig}.
Arguments redo_request {sig}. Arguments is_caught_up {sig}. Arguments is_stopped {sig}.
Arguments stop_peer {sig}. Arguments with_pool {sig}. Arguments panic {sig}. Arguments stop_reported {sig}.
Arguments process_step {sig}. Arguments reject_step {sig}. Arguments next_state {sig}. Arguments step {sig}. Arguments run {sig}. Arguments handover {sig}.
Arguments reconstruct_vs {sig}. Arguments cs_reconstruct {sig}. Arguments reconstruct_if_needed {sig}.
Arguments new_state {sig}. Arguments switch_to_consensus {sig}. Arguments handover_full {sig}.
Arguments set_peer_range_fixed {sig}. Arguments pool_step {sig}. Arguments pool_run {sig}.
Arguments PL_status {sig}. Arguments PL_make {sig}. Arguments PL_pick {sig}. Arguments PL_block {sig}.
Arguments PL_remove {sig}. Arguments PL_redo {sig}. Arguments PL_pop {sig}.
