(* C13 — pool.maxPeerHeight against the heights the connected peers report (finding F79).
   Lemmas about the pool-level operations of Model.v ([pool_step]) under the two SetPeerRange
   rules: the code as it is ([set_peer_range]: maxPeerHeight is only ever raised by a status,
   and recomputed by removePeer only when the removed peer's height IS the maximum) and the
   proposed repair ([set_peer_range_fixed]: SetPeerRange ends with updateMaxPeerHeight()). *)
From Coq Require Import List ZArith NArith Bool Lia.
From TM Require Import Generated.Consts C07.Model C13.Model.
Import ListNotations.
Open Scope Z_scope.

(* ------------------------------------------------------------------ max over a list of heights *)

Definition mhl (l : list Z) : Z := fold_left (fun m h => if h >? m then h else m) l 0.

Lemma max_height_mhl : forall ps, max_height ps = mhl (map bp_height ps).
Proof.
  intro ps. unfold max_height, mhl. generalize 0.
  induction ps as [|x ps IH]; intro a; cbn [map fold_left]; [reflexivity | apply IH].
Qed.

Lemma fold_max_spec : forall l a,
  let m := fold_left (fun m h => if h >? m then h else m) l a in
  a <= m /\ Forall (fun h => h <= m) l /\ (m = a \/ In m l).
Proof.
  induction l as [|h l IH]; intro a; cbn [fold_left].
  - repeat split; [lia | constructor | left; reflexivity].
  - destruct (IH (if h >? a then h else a)) as [A [B C]].
    set (m := fold_left _ l _) in *.
    destruct (h >? a) eqn:E.
    + repeat split; [lia | constructor; [lia | exact B] |].
      destruct C as [C|C]; [right; left; lia | right; right; exact C].
    + repeat split; [lia | constructor; [lia | exact B] |].
      destruct C as [C|C]; [left; exact C | right; right; exact C].
Qed.

Lemma mhl_spec : forall l,
  0 <= mhl l /\ Forall (fun h => h <= mhl l) l /\ (mhl l = 0 \/ In (mhl l) l).
Proof. intro l. exact (fold_max_spec l 0). Qed.

(* the maximum is determined by these three facts *)
Lemma mhl_unique : forall l m,
  0 <= m -> Forall (fun h => h <= m) l -> (m = 0 \/ In m l) -> m = mhl l.
Proof.
  intros l m H0 Hall Hin. destruct (mhl_spec l) as [A [B C]].
  rewrite Forall_forall in Hall, B.
  assert (m <= mhl l) by (destruct Hin as [->|Hin]; [lia | exact (B _ Hin)]).
  assert (mhl l <= m) by (destruct C as [->|C]; [lia | exact (Hall _ C)]).
  lia.
Qed.

(* ------------------------------------------------------------------ peers of the pool *)

Lemma map_peer_heights : forall f p ps,
  (forall x, bp_height (f x) = bp_height x) ->
  map bp_height (map_peer f p ps) = map bp_height ps.
Proof.
  intros f p ps Hf. unfold map_peer. rewrite map_map. apply map_ext.
  intro x. destruct (bp_id x =? p); [apply Hf | reflexivity].
Qed.

Lemma map_peer_ids : forall f p ps,
  (forall x, bp_id (f x) = bp_id x) ->
  map bp_id (map_peer f p ps) = map bp_id ps.
Proof.
  intros f p ps Hf. unfold map_peer. rewrite map_map. apply map_ext.
  intro x. destruct (bp_id x =? p); [apply Hf | reflexivity].
Qed.

Lemma find_peer_none : forall ps p, find_peer ps p = None -> ~ In p (map bp_id ps).
Proof.
  induction ps as [|x ps IH]; intros p H; cbn [map In]; [tauto|].
  cbn [find_peer] in H. destruct (Z.eqb_spec (bp_id x) p); [discriminate|].
  intros [E|E]; [contradiction | exact (IH p H E)].
Qed.

Lemma find_peer_some : forall ps p x, find_peer ps p = Some x -> In x ps /\ bp_id x = p.
Proof.
  induction ps as [|y ps IH]; intros p x H; cbn [find_peer] in H; [discriminate|].
  destruct (Z.eqb_spec (bp_id y) p).
  - injection H as <-. split; [left; reflexivity | assumption].
  - destruct (IH p x H). split; [right|]; assumption.
Qed.

Lemma filter_ids_nodup : forall (ps : list bpeer) g, NoDup (map bp_id ps) -> NoDup (map bp_id (filter g ps)).
Proof.
  induction ps as [|x ps IH]; intros g H; cbn [filter map]; [constructor|].
  inversion H as [|? ? Hn Hd]; subst. destruct (g x); cbn [map]; [|apply IH; exact Hd].
  constructor; [|apply IH; exact Hd].
  intro Hin. apply Hn. apply in_map_iff in Hin as [y [Ey Hy]]. apply filter_In in Hy as [Hy _].
  apply in_map_iff. exists y. auto.
Qed.

Lemma nodup_snoc : forall (l : list Z) a, NoDup l -> ~ In a l -> NoDup (l ++ [a]).
Proof.
  induction l as [|x l IH]; intros a Hd Hn; cbn [app]; [constructor; [tauto | constructor]|].
  inversion Hd as [|? ? Hx Hd']; subst. constructor.
  - intro Hin. apply in_app_or in Hin as [Hin|[Hin|[]]]; [contradiction|]. subst. apply Hn. left. reflexivity.
  - apply IH; [exact Hd'|]. intro Hin. apply Hn. right. exact Hin.
Qed.

Section S.
Variable sig : Type.

Notation pool' := (pool sig).

(* ================================================================== the code as it is: stuck *)

(* every peer of the pool reports less than maxPeerHeight: the maximum is a height that nobody
   connected claims any more *)
Definition below_max (pl : pool') : Prop :=
  Forall (fun x => bp_height x < p_max_peer_height pl) (p_peers pl).

Definition status_below (M : Z) (o : plop sig) : Prop :=
  match o with PL_status _ _ h => h < M | _ => True end.

Lemma remove_peer_stuck : forall (pl : pool') p,
  below_max pl ->
  p_max_peer_height (remove_peer pl p) = p_max_peer_height pl /\ below_max (remove_peer pl p) /\
  p_height (remove_peer pl p) = p_height pl.
Proof.
  intros pl p H. unfold remove_peer. destruct (find_peer (p_peers pl) p) as [x|] eqn:E.
  - destruct (find_peer_some _ _ _ E) as [Hin _]. unfold below_max in H. rewrite Forall_forall in H.
    pose proof (H _ Hin) as Hx.
    assert (En : (bp_height x =? p_max_peer_height pl) = false) by lia. rewrite En.
    cbn [p_max_peer_height p_peers p_height]. repeat split.
    unfold below_max. cbn [p_max_peer_height p_peers]. apply Forall_forall. intros y Hy.
    apply filter_In in Hy as [Hy _]. exact (H _ Hy).
  - cbn [p_max_peer_height p_peers p_height]. repeat split. exact H.
Qed.

Lemma map_peer_below : forall f p (ps : list bpeer) M,
  (forall x, bp_height (f x) = bp_height x) ->
  Forall (fun x => bp_height x < M) ps -> Forall (fun x => bp_height x < M) (map_peer f p ps).
Proof.
  intros f p ps M Hf H. unfold map_peer. apply Forall_forall. intros y Hy.
  apply in_map_iff in Hy as [x [<- Hx]]. rewrite Forall_forall in H. specialize (H _ Hx).
  destruct (bp_id x =? p); [rewrite Hf|]; exact H.
Qed.

Lemma pool_step_stuck : forall (pl : pool') o,
  below_max pl -> status_below (p_max_peer_height pl) o ->
  p_max_peer_height (pool_step set_peer_range pl o) = p_max_peer_height pl /\
  below_max (pool_step set_peer_range pl o).
Proof.
  intros pl o H Ho. destruct o as [p base h| |h p|p b|p|h|]; cbn [pool_step].
  - (* status below the maximum *)
    cbn [status_below] in Ho.
    assert (E : (h >? p_max_peer_height pl) = false) by lia.
    split; [unfold set_peer_range; cbn [p_max_peer_height]; rewrite E; reflexivity|].
    unfold below_max, set_peer_range. cbn [p_max_peer_height p_peers]. rewrite E.
    destruct (find_peer (p_peers pl) p).
    + unfold map_peer. apply Forall_forall. intros y Hy. apply in_map_iff in Hy as [x [<- Hx]].
      unfold below_max in H. rewrite Forall_forall in H. specialize (H _ Hx).
      destruct (bp_id x =? p); cbn [bp_height]; [exact Ho | exact H].
    + apply Forall_app. split; [exact H|]. constructor; [cbn [bp_height]; exact Ho | constructor].
  - unfold make_next_requester.
    destruct (p_num_pending pl >=? bc0_max_total_requesters); [auto|].
    destruct (Z.of_nat (length (p_reqs pl)) >=? bc0_max_total_requesters); [auto|].
    destruct (p_height pl + Z.of_nat (length (p_reqs pl)) >? p_max_peer_height pl); auto.
  - unfold assign. destruct (req_at pl h) as [r|]; [|auto].
    destruct (negb (rq_peer r =? 0)); [auto|].
    destruct (find_peer (p_peers pl) p) as [x|]; [|auto].
    destruct (negb (eligible h x)); [auto|].
    cbn [p_max_peer_height]. split; [reflexivity|]. unfold below_max. cbn [p_max_peer_height p_peers].
    apply map_peer_below; [reflexivity | exact H].
  - unfold add_block. destruct (req_at pl (b_height b)) as [r|].
    + destruct ((match rq_block r with Some _ => true | None => false end) || negb (rq_peer r =? p)); [auto|].
      cbn [p_max_peer_height]. split; [reflexivity|]. unfold below_max. cbn [p_max_peer_height p_peers].
      apply map_peer_below; [reflexivity | exact H].
    + destruct (Z.abs (p_height pl - b_height b) >? bc0_max_diff_current_received_height); auto.
  - destruct (remove_peer_stuck pl p H) as [A [B _]]. auto.
  - unfold redo_request. destruct (req_at pl h) as [r|]; [|auto].
    destruct (rq_peer r =? 0); [auto|]. destruct (remove_peer_stuck pl (rq_peer r) H) as [A [B _]]. auto.
  - unfold pop_request. destruct (p_reqs pl); auto.
Qed.

Lemma pool_run_stuck : forall ops (pl : pool'),
  below_max pl -> Forall (status_below (p_max_peer_height pl)) ops ->
  p_max_peer_height (pool_run set_peer_range ops pl) = p_max_peer_height pl /\
  below_max (pool_run set_peer_range ops pl).
Proof.
  induction ops as [|o ops IH]; intros pl H Ho; [cbn; auto|].
  apply Forall_cons_iff in Ho as [Ho1 Ho2]. cbn [pool_run fold_left].
  destruct (pool_step_stuck pl o H Ho1) as [A B].
  destruct (IH (pool_step set_peer_range pl o) B) as [A' B']; [rewrite A; exact Ho2|].
  unfold pool_run in *. rewrite A'. split; [exact A | exact B'].
Qed.

Lemma not_caught_up_below : forall (pl : pool') waited,
  p_height pl < p_max_peer_height pl - 1 -> 0 <= p_height pl -> is_caught_up pl waited = false.
Proof.
  intros pl waited H H0. unfold is_caught_up. destruct (p_peers pl); [reflexivity|].
  assert (E1 : (p_max_peer_height pl =? 0) = false) by lia.
  assert (E2 : (p_height pl >=? p_max_peer_height pl - 1) = false) by lia.
  rewrite E1, E2. apply andb_false_r.
Qed.

(* ================================================================== the repaired rule *)

(* maxPeerHeight is the maximum of the heights the peers of the pool report (0 without peers);
   peer ids are distinct (pool.peers is a map) *)
Definition max_inv (pl : pool') : Prop :=
  p_max_peer_height pl = max_height (p_peers pl) /\ NoDup (map bp_id (p_peers pl)).

Lemma new_pool_max_inv : forall start, max_inv (new_pool sig start).
Proof. intro start. split; [reflexivity | constructor]. Qed.

Lemma remove_peer_max_inv : forall (pl : pool') p, max_inv pl -> max_inv (remove_peer pl p).
Proof.
  intros pl p [Hm Hd]. unfold remove_peer. destruct (find_peer (p_peers pl) p) as [x|] eqn:E.
  - unfold max_inv. cbn [p_max_peer_height p_peers].
    split; [|apply filter_ids_nodup; exact Hd].
    destruct (Z.eqb_spec (bp_height x) (p_max_peer_height pl)) as [Ex|Ex]; [reflexivity|].
    (* the removed peer is not a maximal one: the maximum stays *)
    rewrite max_height_mhl. apply mhl_unique.
    + rewrite Hm, max_height_mhl. apply mhl_spec.
    + apply Forall_forall. intros h Hh. apply in_map_iff in Hh as [y [<- Hy]].
      apply filter_In in Hy as [Hy _]. rewrite Hm, max_height_mhl.
      destruct (mhl_spec (map bp_height (p_peers pl))) as [_ [B _]]. rewrite Forall_forall in B.
      apply B. apply in_map. exact Hy.
    + destruct (mhl_spec (map bp_height (p_peers pl))) as [_ [_ C]].
      rewrite <- max_height_mhl, <- Hm in C. destruct C as [C|C]; [left; exact C|]. right.
      apply in_map_iff in C as [y [Ey Hy]]. apply in_map_iff. exists y. split; [exact Ey|].
      apply filter_In. split; [exact Hy|].
      destruct (find_peer_some _ _ _ E) as [Hx Eid].
      destruct (Z.eqb_spec (bp_id y) p) as [Eyp|Eyp]; [|reflexivity]. exfalso.
      (* y and x have the same id: they are the same peer *)
      assert (y = x).
      { clear - Hd Hx Hy Eyp Eid. revert Hd Hx Hy. induction (p_peers pl) as [|z l IH]; intros Hd Hx Hy; [destruct Hx|].
        cbn [map] in Hd. inversion Hd as [|? ? Hn Hd']; subst.
        destruct Hx as [->|Hx]; destruct Hy as [->|Hy]; try reflexivity.
        - exfalso. apply Hn. apply in_map_iff. exists y. split; [congruence | exact Hy].
        - exfalso. apply Hn. apply in_map_iff. exists x. split; [congruence | exact Hx].
        - apply IH; assumption. }
      subst y. congruence.
  - unfold max_inv. cbn [p_max_peer_height p_peers]. split; assumption.
Qed.

Lemma set_peer_range_fixed_max_inv : forall (pl : pool') p base h,
  max_inv pl -> max_inv (set_peer_range_fixed pl p base h).
Proof.
  intros pl p base h [_ Hd]. unfold max_inv, set_peer_range_fixed. cbn [p_max_peer_height p_peers].
  split; [reflexivity|]. unfold set_peer_range. cbn [p_peers].
  destruct (find_peer (p_peers pl) p) eqn:E.
  - rewrite map_peer_ids; [exact Hd | reflexivity].
  - rewrite map_app. cbn [map bp_id]. apply nodup_snoc; [exact Hd | exact (find_peer_none _ _ E)].
Qed.

Lemma pool_step_max_inv : forall (pl : pool') o,
  max_inv pl -> max_inv (pool_step set_peer_range_fixed pl o).
Proof.
  intros pl o H. destruct o as [p base h| |h p|p b|p|h|]; cbn [pool_step].
  - apply set_peer_range_fixed_max_inv. exact H.
  - unfold make_next_requester.
    destruct (p_num_pending pl >=? bc0_max_total_requesters); [exact H|].
    destruct (Z.of_nat (length (p_reqs pl)) >=? bc0_max_total_requesters); [exact H|].
    destruct (p_height pl + Z.of_nat (length (p_reqs pl)) >? p_max_peer_height pl); exact H.
  - unfold assign. destruct (req_at pl h) as [r|]; [|exact H].
    destruct (negb (rq_peer r =? 0)); [exact H|].
    destruct (find_peer (p_peers pl) p) as [x|]; [|exact H].
    destruct (negb (eligible h x)); [exact H|].
    destruct H as [Hm Hd]. unfold max_inv. cbn [p_max_peer_height p_peers]. split.
    + rewrite Hm, !max_height_mhl, map_peer_heights; reflexivity.
    + rewrite map_peer_ids; [exact Hd | reflexivity].
  - unfold add_block. destruct (req_at pl (b_height b)) as [r|].
    + destruct ((match rq_block r with Some _ => true | None => false end) || negb (rq_peer r =? p)); [exact H|].
      destruct H as [Hm Hd]. unfold max_inv. cbn [p_max_peer_height p_peers]. split.
      * rewrite Hm, !max_height_mhl, map_peer_heights; reflexivity.
      * rewrite map_peer_ids; [exact Hd | reflexivity].
    + destruct (Z.abs (p_height pl - b_height b) >? bc0_max_diff_current_received_height); exact H.
  - apply remove_peer_max_inv. exact H.
  - unfold redo_request. destruct (req_at pl h) as [r|]; [|exact H].
    destruct (rq_peer r =? 0); [exact H|]. apply remove_peer_max_inv. exact H.
  - unfold pop_request. destruct (p_reqs pl); exact H.
Qed.

Lemma pool_run_max_inv : forall ops (pl : pool'),
  max_inv pl -> max_inv (pool_run set_peer_range_fixed ops pl).
Proof.
  induction ops as [|o ops IH]; intros pl H; [exact H|].
  cbn [pool_run fold_left]. apply IH. apply pool_step_max_inv. exact H.
Qed.

(* with maxPeerHeight the maximum over the connected peers, the pool is caught up as soon as no
   connected peer reports more than pool.height + 1 *)
Lemma caught_up_of_max_inv : forall (pl : pool') waited,
  max_inv pl -> p_peers pl <> [] ->
  Forall (fun x => bp_height x <= p_height pl + 1) (p_peers pl) ->
  (0 < p_height pl \/ waited = true) ->
  is_caught_up pl waited = true.
Proof.
  intros pl waited [Hm _] Hne Hall Hw. unfold is_caught_up.
  destruct (p_peers pl) as [|x ps] eqn:E; [congruence|]. rewrite <- E in *.
  assert (A : ((p_height pl >? 0) || waited) = true).
  { destruct Hw as [Hw| ->]; [|apply orb_true_r]. assert (Eh : (p_height pl >? 0) = true) by lia. rewrite Eh. reflexivity. }
  rewrite A. cbn [andb].
  destruct (mhl_spec (map bp_height (p_peers pl))) as [_ [_ C]].
  rewrite <- max_height_mhl, <- Hm in C. destruct C as [C|C].
  - rewrite C. reflexivity.
  - apply in_map_iff in C as [y [Ey Hy]]. rewrite Forall_forall in Hall. specialize (Hall _ Hy).
    assert (Eg : (p_height pl >=? p_max_peer_height pl - 1) = true) by lia. rewrite Eg. apply orb_true_r.
Qed.

(* ================================================================== the two statements *)

(* the witness: peer 9 claims height 60, then height 3, then disconnects; honest peer 1 reports
   the chain's real top 6 *)
Definition lie_ops : list (plop sig) :=
  [PL_status 9 1 60; PL_status 9 1 3; PL_remove 9; PL_status 1 1 6].

Lemma status_lie_refuted :
  let pl0 := pool_run set_peer_range lie_ops (new_pool sig 1) in
  map bp_id (p_peers pl0) = [1] /\ map bp_height (p_peers pl0) = [6] /\
  forall ops : list (plop sig), Forall (status_below 60) ops ->
    let pl := pool_run set_peer_range ops pl0 in
    p_max_peer_height pl = 60 /\
    (p_height pl < 59 -> forall waited, is_caught_up pl waited = false).
Proof.
  cbv zeta. split; [reflexivity|]. split; [reflexivity|]. intros ops Ho.
  assert (Hb : below_max (pool_run set_peer_range lie_ops (new_pool sig 1))).
  { unfold below_max. vm_compute. constructor; [reflexivity | constructor]. }
  destruct (pool_run_stuck ops _ Hb Ho) as [A _].
  change (p_max_peer_height (pool_run set_peer_range lie_ops (new_pool sig 1))) with 60 in A.
  split; [exact A|]. intros Hlt waited. unfold is_caught_up.
  destruct (p_peers _); [reflexivity|]. rewrite A.
  assert (E : (p_height (pool_run set_peer_range ops (pool_run set_peer_range lie_ops (new_pool sig 1))) >=? 60 - 1) = false) by lia.
  rewrite E. cbn. apply andb_false_r.
Qed.

Lemma fixed_rule_hands_over : forall (start : Z) (ops : list (plop sig)),
  let pl := pool_run set_peer_range_fixed ops (new_pool sig start) in
  p_max_peer_height pl = max_height (p_peers pl) /\
  forall waited,
    p_peers pl <> [] ->
    Forall (fun x => bp_height x <= p_height pl + 1) (p_peers pl) ->
    (0 < p_height pl \/ waited = true) ->
    is_caught_up pl waited = true.
Proof.
  intros start ops. cbv zeta.
  pose proof (pool_run_max_inv ops _ (new_pool_max_inv start)) as H.
  split; [exact (proj1 H)|]. intros waited Hne Hall Hw. exact (caught_up_of_max_inv _ waited H Hne Hall Hw).
Qed.

End S.
